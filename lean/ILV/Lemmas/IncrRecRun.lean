/-
  C18, recursive fragment: every safe step preserves the invariant; all histories.
  (Same structure as IncrStep/IncrRun; the value of a head is `own`, compared through `evalProg_local`.)
-/
import ILV.Lemmas.IncrRecInv
import ILV.Lemmas.IncrRun
namespace ILV.C18

/-- each head's own clauses converge over the stored facts (the part of `convState` the frames need). -/
def OwnConv (s : St) : Prop := ∀ n, clausesNow s n ≠ [] → conv (clausesNow s n) s.facts = true

theorem ownConv_of {s : St} (h : convState s = true) : OwnConv s := fun _ hne => conv_own h hne

/-- publication does not touch the catalogue or the facts. -/
theorem ownConv_pub {s : St} (h : convState (publish s) = true) : OwnConv s :=
  fun n hne => conv_own (s := publish s) h hne

/-! ### frames -/

theorem own_frame {B : List Name} {s s' : St} (hI : RCore B s) (hcs : OwnConv s)
    (hcs' : OwnConv s') (n : Name) (hne : clausesNow s n ≠ [])
    (hcl : clausesNow s' n = clausesNow s n)
    (hf : ∀ c ∈ clausesNow s n, ∀ r ∈ bodyRels c, r ≠ n → factsDb s' r = factsDb s r) :
    own s' n = own s n := by
  unfold own
  have hne' : clausesNow s' n ≠ [] := by rw [hcl]; exact hne
  have hc' := hcs' n hne'
  rw [hcl] at hc' ⊢
  have hco := clausesOf_own hI n
  have hh : n ∈ heads (clausesNow s n) := by rw [mem_heads_clausesOf, hco]; exact hne
  refine evalProg_local _ _ _ _ (selfLevel_own hI n) (selfLevel_own hI n) hc' (hcs n hne) n hh hh rfl ?_
  intro tb
  rw [hco]
  apply nstep_congr
  intro c hc r hr hrn
  exact hf c hc r hr hrn

theorem rmat_frame {B : List Name} {s s' : St} {i i' : Inc} (hI : RCore B s) (hcs : OwnConv s)
    (hcs' : OwnConv s') (hi : s.inc = some i)
    {n : Name} {m : Mat} (hold : aget i.mats n = some m) (hv : m.valid = true)
    (hcl : clausesNow s' n = clausesNow s n)
    (hf : ∀ c ∈ clausesNow s n, ∀ r ∈ bodyRels c, r ≠ n → factsDb s' r = factsDb s r)
    (hb : ∀ r, n ∈ b2dOf i r → n ∈ b2dOf i' r) :
    n ∉ B ∧ clausesNow s' n ≠ [] ∧ (∀ t, t ∈ m.tuples ↔ t ∈ own s' n) ∧
      (∀ c ∈ clausesNow s' n, ∀ r ∈ bodyRels c, r ≠ n → n ∈ b2dOf i' r) := by
  obtain ⟨h1, h2, h3, h4⟩ := hI.mats i n m hi hold hv
  refine ⟨h1, by rw [hcl]; exact h2, ?_, ?_⟩
  · intro t
    rw [h3 t, own_frame hI hcs hcs' n h2 hcl hf]
  · intro c hc r hr hrn
    rw [hcl] at hc
    exact hb r (h4 c hc r hr hrn)

/-- stored tuples of the relations `rs ⊆ B` change, every one of them is notified. -/
theorem rcore_facts_notify {B : List Name} {s : St} (hI : RCore B s) (hcs : OwnConv s)
    (facts' : List (Name × List Tup)) (arity' : List (Name × Nat)) (rs : List Name)
    (hcs' : OwnConv (mapInc { s with facts := facts', arity := arity' } (fun i => rs.foldl Inc.notify i)))
    (hch : ∀ r', r' ∉ rs → (aget facts' r').getD [] = factsDb s r')
    (hB : ∀ r' ∈ rs, r' ∈ B) :
    RCore B (mapInc { s with facts := facts', arity := arity' } (fun i => rs.foldl Inc.notify i)) := by
  refine ⟨?_, hI.cat, hI.catNodup, ?_, ?_, ?_⟩
  · intro r hr
    have : r ∉ rs := fun h => hr (hB r h)
    show (aget facts' r).getD [] = []
    rw [hch r this]; exact hI.stored r hr
  · intro i' hi'
    cases hsi : s.inc with
    | none => simp [mapInc, hsi] at hi'
    | some i =>
      simp only [mapInc, hsi, Option.map_some, Option.some.injEq] at hi'
      subst hi'
      rw [foldNotify_keys]; exact hI.matsNodup i hsi
  · intro i' hi'
    cases hsi : s.inc with
    | none => simp [mapInc, hsi] at hi'
    | some i =>
      simp only [mapInc, hsi, Option.map_some, Option.some.injEq] at hi'
      subst hi'
      rw [foldNotify_d2d]; exact hI.d2d i hsi
  · intro i' n m hi' hm hv
    cases hsi : s.inc with
    | none => simp [mapInc, hsi] at hi'
    | some i =>
      simp only [mapInc, hsi, Option.map_some, Option.some.injEq] at hi'
      subst hi'
      obtain ⟨h1, h2⟩ := foldNotify_valid rs i n m hm hv
      have hedges := (hI.mats i n m hsi h1 hv).2.2.2
      refine rmat_frame hI hcs hcs' hsi h1 hv rfl ?_ ?_
      · intro c hc r hr hrn
        have : r ∉ rs := fun hmem => h2 r hmem (hedges c hc r hr hrn)
        exact hch r this
      · intro r hr
        show n ∈ (aget (rs.foldl Inc.notify i).b2d r).getD []
        rw [foldNotify_b2d]; exact hr

/-- the clauses of ONE name without a valid materialisation change; the manager may gain edges. -/
theorem rcore_catalog_at {B : List Name} {s : St} (hI : RCore B s) (hcs : OwnConv s) (n : Name) (cat' : List (Name × List Clause))
    (f : Inc → Inc) (hcs' : OwnConv (mapInc { s with catalog := cat' } f)) (hnv : notValid s n = true)
    (hget : ∀ n', n' ≠ n → aget cat' n' = aget s.catalog n')
    (hcat : ∀ k cs, (k, cs) ∈ cat' → (k, cs) ∈ s.catalog ∨
      (k = n ∧ n ∉ B ∧ ∀ c ∈ cs, c.head.rel = n ∧ ∀ r ∈ bodyRels c, r ∈ B ∨ r = n))
    (hnd : (akeys cat').Nodup)
    (hfm : ∀ i, (f i).mats = i.mats) (hfd : ∀ i, (f i).d2d = i.d2d)
    (hfb : ∀ i x r, x ∈ b2dOf i r → x ∈ b2dOf (f i) r) :
    RCore B (mapInc { s with catalog := cat' } f) := by
  refine ⟨hI.stored, ?_, hnd, ?_, ?_, ?_⟩
  · intro k cs hm
    rcases hcat k cs hm with h | ⟨hk, hnB, hcs⟩
    · exact hI.cat k cs h
    · subst hk; exact ⟨hnB, hcs⟩
  · intro i' hi'
    cases hsi : s.inc with
    | none => simp [mapInc, hsi] at hi'
    | some i =>
      simp only [mapInc, hsi, Option.map_some, Option.some.injEq] at hi'
      subst hi'
      rw [hfm]; exact hI.matsNodup i hsi
  · intro i' hi'
    cases hsi : s.inc with
    | none => simp [mapInc, hsi] at hi'
    | some i =>
      simp only [mapInc, hsi, Option.map_some, Option.some.injEq] at hi'
      subst hi'
      rw [hfd]; exact hI.d2d i hsi
  · intro i' n' m hi' hm hv
    cases hsi : s.inc with
    | none => simp [mapInc, hsi] at hi'
    | some i =>
      simp only [mapInc, hsi, Option.map_some, Option.some.injEq] at hi'
      subst hi'
      rw [hfm] at hm
      have hne : n' ≠ n := by
        intro e; subst e
        have : isValid i n' = true := (isValid_iff i n').mpr ⟨m, hm, hv⟩
        simp [notValid, hsi, this] at hnv
      refine rmat_frame hI hcs hcs' hsi hm hv ?_ (fun _ _ _ _ _ => rfl) (fun r hr => hfb i n' r hr)
      show (aget cat' n').getD [] = (aget s.catalog n').getD []
      rw [hget n' hne]

/-- names are removed from the catalogue AND from the manager (`drop`, `dropp`, `drel`). -/
theorem rcore_remove {B : List Name} {s : St} (hI : RCore B s) (hcs : OwnConv s) (ns : List Name)
    (facts' : List (Name × List Tup)) (arity' : List (Name × Nat)) (cat' : List (Name × List Clause))
    (hcs' : OwnConv (mapInc { s with facts := facts', arity := arity', catalog := cat' } (fun i => ns.foldl Inc.remove i)))
    (hstored : ∀ r, r ∉ B → (aget facts' r).getD [] = [])
    (hfacts : ∀ i n m, s.inc = some i → aget i.mats n = some m → m.valid = true → n ∉ ns →
      ∀ c ∈ clausesNow s n, ∀ r ∈ bodyRels c, r ≠ n → (aget facts' r).getD [] = factsDb s r)
    (hsub : ∀ k cs, (k, cs) ∈ cat' → (k, cs) ∈ s.catalog)
    (hnd : (akeys cat').Nodup)
    (hget : ∀ n', n' ∉ ns → aget cat' n' = aget s.catalog n') :
    RCore B (mapInc { s with facts := facts', arity := arity', catalog := cat' } (fun i => ns.foldl Inc.remove i)) := by
  refine ⟨hstored, fun k cs hm => hI.cat k cs (hsub k cs hm), hnd, ?_, ?_, ?_⟩
  · intro i' hi'
    cases hsi : s.inc with
    | none => simp [mapInc, hsi] at hi'
    | some i =>
      simp only [mapInc, hsi, Option.map_some, Option.some.injEq] at hi'
      subst hi'
      exact (foldRemove_spec ns i (hI.matsNodup i hsi) (hI.d2d i hsi)).1
  · intro i' hi'
    cases hsi : s.inc with
    | none => simp [mapInc, hsi] at hi'
    | some i =>
      simp only [mapInc, hsi, Option.map_some, Option.some.injEq] at hi'
      subst hi'
      exact (foldRemove_spec ns i (hI.matsNodup i hsi) (hI.d2d i hsi)).2.1
  · intro i' n m hi' hm hv
    cases hsi : s.inc with
    | none => simp [mapInc, hsi] at hi'
    | some i =>
      simp only [mapInc, hsi, Option.map_some, Option.some.injEq] at hi'
      subst hi'
      obtain ⟨h1, h2, h3⟩ := (foldRemove_spec ns i (hI.matsNodup i hsi) (hI.d2d i hsi)).2.2 n m hm
      refine rmat_frame hI hcs hcs' hsi h1 hv ?_ (hfacts i n m hsi h1 hv h2) h3
      show (aget cat' n).getD [] = (aget s.catalog n).getD []
      rw [hget n h2]



theorem rinv_publish {B : List Name} {s : St} (h : RCore B s) (hc : convState (publish s) = true) :
    RInv B (publish s) :=
  ⟨⟨h.stored, h.cat, h.catNodup, h.matsNodup, h.d2d, h.mats⟩, rfl, hc⟩

theorem rinv_init (B : List Name) : RInv B init := by
  refine ⟨⟨?_, ?_, ?_, ?_, ?_, ?_⟩, rfl, by decide⟩
  · intro r _; rfl
  · intro k cs h; simp [init] at h
  · simp [init, akeys]
  · intro i h; simp [init] at h
  · intro i h; simp [init] at h
  · intro i n m h; simp [init] at h

/-! ### one lemma per step kind -/

theorem rinv_ins {B : List Name} {s : St} (hI : RInv B s) (r : Name) (ts : List Tup) (hs : r ∈ B)
    (hcs' : convState (step codeAutoMat s (.ins r ts)).1 = true) :
    RInv B (step codeAutoMat s (.ins r ts)).1 := by
  revert hcs'
  simp only [step]
  split
  · intro _; exact hI
  split
  · intro _; exact hI
  unfold insApply
  simp only
  split
  · intro hcs'
    refine rinv_publish ?_ hcs'
    refine rcore_facts_notify hI.core (ownConv_of hI.conv) _ _ [r] (ownConv_pub hcs') ?_ ?_
    · intro r' hr'
      have : r ≠ r' := fun e => hr' (by simp [e])
      rw [aget_aset_ne _ _ _ _ this]; rfl
    · intro r' hr'
      simp at hr'; subst hr'; exact hs
  · intro _; exact hI

theorem rinv_del {B : List Name} {s : St} (hI : RInv B s) (r : Name) (ts : List Tup)
    (hcs' : convState (step codeAutoMat s (.del r ts)).1 = true) :
    RInv B (step codeAutoMat s (.del r ts)).1 := by
  revert hcs'
  simp only [step]
  split
  · intro _; exact hI
  · next old hold =>
    split
    · next hpos =>
      intro hcs'
      refine rinv_publish ?_ hcs'
      refine rcore_facts_notify hI.core (ownConv_of hI.conv) _ s.arity [r] (ownConv_pub hcs') ?_ ?_
      · intro r' hr'
        have : r ≠ r' := fun e => hr' (by simp [e])
        rw [aget_aset_ne _ _ _ _ this]; rfl
      · intro r' hr'
        simp at hr'; subst hr'
        by_cases hb : r' ∈ B
        · exact hb
        · have h0 := hI.core.stored r' hb
          simp only [factsDb, hold, Option.getD_some] at h0
          subst h0
          simp at hpos
    · intro _; exact hI

theorem rinv_clrp {B : List Name} {s : St} (hI : RInv B s) (pre : Name)
    (hcs' : convState (step codeAutoMat s (.clrp pre)).1 = true) :
    RInv B (step codeAutoMat s (.clrp pre)).1 := by
  revert hcs'
  simp only [step]
  split
  · intro _; exact hI
  · intro hcs'
    refine rinv_publish ?_ hcs'
    refine rcore_facts_notify hI.core (ownConv_of hI.conv) _ s.arity _ (ownConv_pub hcs') ?_ ?_
    · intro r' hr'
      have hc : (akeys (clrpHit s pre)).contains r' = false := by
        cases hcc : (akeys (clrpHit s pre)).contains r' with
        | false => rfl
        | true => exact absurd (contains_iff.mp hcc) hr'
      unfold clrpFacts
      rw [aget_map_val s.facts (fun k v => if (akeys (clrpHit s pre)).contains k = true then ([] : List Tup) else v)]
      simp only [hc, Bool.false_eq_true, if_false, factsDb]
      cases aget s.facts r' <;> rfl
    · intro r' hr'
      obtain ⟨⟨a, c⟩, hm, rfl⟩ := List.mem_map.mp hr'
      obtain ⟨k, _, hk⟩ := List.mem_filterMap.mp hm
      by_cases hb : a ∈ B
      · exact hb
      · by_cases hz : ((aget s.facts k).getD []).length = 0
        · simp [hz] at hk
        · simp only [hz, if_false, Option.some.injEq, Prod.mk.injEq] at hk
          have h0 := hI.core.stored a hb
          rw [← hk.1] at h0
          simp only [factsDb] at h0
          rw [h0] at hz
          simp at hz

theorem rinv_reg {B : List Name} {s : St} (hI : RInv B s) (c : Clause)
    (h1 : c.head.rel ∉ B) (h2 : ∀ r ∈ bodyRels c, r ∈ B ∨ r = c.head.rel) (h3 : notValid s c.head.rel = true)
    (hcs' : convState (step codeAutoMat s (.reg c)).1 = true) :
    RInv B (step codeAutoMat s (.reg c)).1 := by
  revert hcs'
  simp only [step]
  split
  · intro _; exact hI
  unfold regApply
  simp only
  intro hcs'
  refine rinv_publish ?_ hcs'
  have hcl : ∀ c' ∈ regCls s c, c'.head.rel = c.head.rel ∧ ∀ r ∈ bodyRels c', r ∈ B ∨ r = c.head.rel := by
    intro c' hc'
    unfold regCls at hc'
    cases hg : aget s.catalog c.head.rel with
    | none =>
      simp only [hg, List.mem_singleton] at hc'
      subst hc'; exact ⟨rfl, h2⟩
    | some cs =>
      have hold := (hI.core.cat _ cs (aget_some_mem hg)).2
      simp only [hg] at hc'
      split at hc'
      · exact hold c' hc'
      · rcases List.mem_append.mp hc' with e | e
        · exact hold c' e
        · simp only [List.mem_singleton] at e
          subst e; exact ⟨rfl, h2⟩
  refine rcore_catalog_at hI.core (ownConv_of hI.conv) c.head.rel _ _ (ownConv_pub hcs') h3 ?_ ?_ (nodup_aset _ _ hI.core.catNodup) ?_ ?_ ?_
  · intro n' hn'
    exact aget_aset_ne _ _ _ _ (fun e => hn' e.symm)
  · intro k cs hm
    rcases mem_aset hm with ⟨hk, hcs⟩ | hm'
    · right
      subst hcs
      exact ⟨hk, h1, hcl⟩
    · exact Or.inl hm'
  · intro i; rfl
  · intro i; rfl
  · intro i x r hx
    show x ∈ (aget (regB2d i.b2d (clauseDeps c) c.head.rel) r).getD []
    exact regB2d_mono _ _ _ _ _ hx

theorem rinv_rmc {B : List Name} {s : St} (hI : RInv B s) (n : Name) (k : Nat) (h3 : notValid s n = true)
    (hcs' : convState (step codeAutoMat s (.rmc n k)).1 = true) :
    RInv B (step codeAutoMat s (.rmc n k)).1 := by
  revert hcs'
  simp only [step]
  split
  · intro _; exact hI
  · next cs hcs =>
    have hold := hI.core.cat n cs (aget_some_mem hcs)
    split
    · intro _; exact hI
    · split
      · intro hcs'
        refine rinv_publish ?_ hcs'
        rw [← mapInc_id { s with catalog := aerase s.catalog n }]
        refine rcore_catalog_at hI.core (ownConv_of hI.conv) n _ _ (by rw [mapInc_id]; exact ownConv_pub hcs') h3 ?_ ?_ (nodup_aerase _ hI.core.catNodup) (fun _ => rfl) (fun _ => rfl) (fun _ _ _ h => h)
        · intro n' hn'; exact aget_aerase_ne _ _ _ (fun e => hn' e.symm)
        · intro k' cs' hm; exact Or.inl (mem_aerase hm).1
      · intro hcs'
        refine rinv_publish ?_ hcs'
        rw [← mapInc_id { s with catalog := aset s.catalog n (removeAt cs k) }]
        refine rcore_catalog_at hI.core (ownConv_of hI.conv) n _ _ (by rw [mapInc_id]; exact ownConv_pub hcs') h3 ?_ ?_ (nodup_aset _ _ hI.core.catNodup) (fun _ => rfl) (fun _ => rfl) (fun _ _ _ h => h)
        · intro n' hn'; exact aget_aset_ne _ _ _ _ (fun e => hn' e.symm)
        · intro k' cs' hm
          rcases mem_aset hm with ⟨hk, hcs'⟩ | hm'
          · right
            subst hcs'
            exact ⟨hk, hold.1, fun c' hc' => hold.2 c' (mem_removeAt _ _ _ hc')⟩
          · exact Or.inl hm'

theorem rinv_rep {B : List Name} {s : St} (hI : RInv B s) (n : Name) (k : Nat) (c : Clause)
    (h0 : c.head.rel = n) (h1 : n ∉ B) (h2 : ∀ r ∈ bodyRels c, r ∈ B ∨ r = n) (h3 : notValid s n = true)
    (hcs' : convState (step codeAutoMat s (.rep n k c)).1 = true) :
    RInv B (step codeAutoMat s (.rep n k c)).1 := by
  revert hcs'
  simp only [step]
  split
  · intro _; exact hI
  · next cs hcs =>
    have hold := hI.core.cat n cs (aget_some_mem hcs)
    split
    · intro _; exact hI
    · simp only
      intro hcs'
      refine rinv_publish ?_ hcs'
      rw [← mapInc_id { s with catalog := aset s.catalog n (replaceAt cs k c) }]
      refine rcore_catalog_at hI.core (ownConv_of hI.conv) n _ _ (by rw [mapInc_id]; exact ownConv_pub hcs') h3 ?_ ?_ (nodup_aset _ _ hI.core.catNodup) (fun _ => rfl) (fun _ => rfl) (fun _ _ _ h => h)
      · intro n' hn'; exact aget_aset_ne _ _ _ _ (fun e => hn' e.symm)
      · intro k' cs' hm
        rcases mem_aset hm with ⟨hk, hcs'⟩ | hm'
        · right
          subst hcs'
          refine ⟨hk, h1, ?_⟩
          intro c' hc'
          rcases mem_replaceAt _ _ _ _ hc' with e | e
          · subst e; exact ⟨h0, h2⟩
          · exact hold.2 c' e
        · exact Or.inl hm'

theorem rinv_clr {B : List Name} {s : St} (hI : RInv B s) (n : Name) (h3 : notValid s n = true)
    (hcs' : convState (step codeAutoMat s (.clr n)).1 = true) :
    RInv B (step codeAutoMat s (.clr n)).1 := by
  revert hcs'
  simp only [step]
  split
  · intro _; exact hI
  · next cs hcs =>
    have hold := hI.core.cat n cs (aget_some_mem hcs)
    simp only
    intro hcs'
    refine rinv_publish ?_ hcs'
    rw [← mapInc_id { s with catalog := aset s.catalog n [] }]
    refine rcore_catalog_at hI.core (ownConv_of hI.conv) n _ _ (by rw [mapInc_id]; exact ownConv_pub hcs') h3 ?_ ?_ (nodup_aset _ _ hI.core.catNodup) (fun _ => rfl) (fun _ => rfl) (fun _ _ _ h => h)
    · intro n' hn'; exact aget_aset_ne _ _ _ _ (fun e => hn' e.symm)
    · intro k' cs' hm
      rcases mem_aset hm with ⟨hk, hcs'⟩ | hm'
      · right
        subst hcs'
        exact ⟨hk, hold.1, by simp⟩
      · exact Or.inl hm'

theorem rinv_drop {B : List Name} {s : St} (hI : RInv B s) (n : Name)
    (hcs' : convState (step codeAutoMat s (.drop n)).1 = true) :
    RInv B (step codeAutoMat s (.drop n)).1 := by
  revert hcs'
  simp only [step]
  split
  · intro _; exact hI
  · simp only
    intro hcs'
    refine rinv_publish ?_ hcs'
    refine rcore_remove hI.core (ownConv_of hI.conv) [n] s.facts s.arity _ (ownConv_pub hcs') hI.core.stored ?_ ?_ (nodup_aerase _ hI.core.catNodup) ?_
    · intro i n' m _ _ _ _ c _ r _ _; rfl
    · intro k cs hm; exact (mem_aerase hm).1
    · intro n' hn'
      exact aget_aerase_ne _ _ _ (fun e => hn' (by simp [e]))

theorem rinv_dropp {B : List Name} {s : St} (hI : RInv B s) (pre : Name)
    (hcs' : convState (step codeAutoMat s (.dropp pre)).1 = true) :
    RInv B (step codeAutoMat s (.dropp pre)).1 := by
  revert hcs'
  simp only [step]
  split
  · intro _; exact hI
  · simp only
    intro hcs'
    refine rinv_publish ?_ hcs'
    refine rcore_remove hI.core (ownConv_of hI.conv) _ s.facts s.arity _ (ownConv_pub hcs') hI.core.stored ?_ ?_ (nodup_filter_key _ hI.core.catNodup) ?_
    · intro i n' m _ _ _ _ c _ r _ _; rfl
    · intro k cs hm; exact (List.mem_filter.mp hm).1
    · intro n' hn'
      rw [aget_filter_key s.catalog (fun k => !(pre.isPrefixOf k)) n']
      cases hp : pre.isPrefixOf n' with
      | false => simp
      | true =>
        simp only [Bool.not_true, Bool.false_eq_true, if_false]
        symm
        apply aget_none_of_not_key
        intro hk
        apply hn'
        rw [mem_sortNames]
        exact List.mem_filter.mpr ⟨hk, hp⟩

theorem rinv_drel {B : List Name} {s : St} (hI : RInv B s) (r : Name) (h3 : noValidReads s r = true)
    (hcs' : convState (step codeAutoMat s (.drel r)).1 = true) :
    RInv B (step codeAutoMat s (.drel r)).1 := by
  revert hcs'
  simp only [step]
  split
  · intro _; exact hI
  · simp only
    intro hcs'
    refine rinv_publish ?_ hcs'
    refine rcore_remove hI.core (ownConv_of hI.conv) [r] _ _ _ (ownConv_pub hcs') ?_ ?_ ?_ (nodup_aerase _ hI.core.catNodup) ?_
    · intro r' hr'
      by_cases e : r = r'
      · subst e; rw [aget_aerase_eq]; rfl
      · rw [aget_aerase_ne _ _ _ e]; exact hI.core.stored r' hr'
    · intro i n m hi hm hv _ c hc r' hr' _
      have hne : r ≠ r' := by
        intro e; subst e
        simp only [noValidReads, hi, List.all_eq_true] at h3
        have := h3 (n, m.tuples) ((mem_validMats_iff i (hI.core.matsNodup i hi) n m.tuples).mpr ⟨m, hm, hv, rfl⟩)
        simp only [Bool.not_eq_eq_eq_not, Bool.not_true, List.contains_eq_mem, decide_eq_false_iff_not] at this
        exact this (List.mem_flatMap.mpr ⟨c, hc, hr'⟩)
      rw [aget_aerase_ne _ _ _ hne]; rfl
    · intro k cs hm; exact (mem_aerase hm).1
    · intro n' hn'
      exact aget_aerase_ne _ _ _ (fun e => hn' (by simp [e]))

theorem rcore_hasIndex {B : List Name} {s : St} (hI : RCore B s) (i : Inc) (b : Bool) (hi : s.inc = some i) :
    RCore B { s with inc := some { i with hasIndex := b } } := by
  refine ⟨hI.stored, hI.cat, hI.catNodup, ?_, ?_, ?_⟩
  · intro i' hi'
    simp only [Option.some.injEq] at hi'; subst hi'
    exact hI.matsNodup i hi
  · intro i' hi'
    simp only [Option.some.injEq] at hi'; subst hi'
    exact hI.d2d i hi
  · intro i' n m hi' hm hv
    simp only [Option.some.injEq] at hi'; subst hi'
    exact hI.mats i n m hi hm hv

theorem rinv_idx {B : List Name} {s : St} (hI : RInv B s)
    (hcs' : convState (step codeAutoMat s .idx).1 = true) : RInv B (step codeAutoMat s .idx).1 := by
  revert hcs'
  simp only [step]
  split
  · next hnone =>
    intro hcs'
    refine ⟨⟨hI.core.stored, hI.core.cat, hI.core.catNodup, ?_, ?_, ?_⟩, ?_, hcs'⟩
    · intro i' hi'
      simp only [Option.some.injEq] at hi'; subst hi'; simp [akeys]
    · intro i' hi'
      simp only [Option.some.injEq] at hi'; subst hi'; rfl
    · intro i' n m hi' hm
      simp only [Option.some.injEq] at hi'; subst hi'
      simp [aget] at hm
    · show s.snap = _
      rw [hI.snap]
      simp only [mkSnap, hnone, validMats, isValid, aget, mergeMats, List.filterMap_nil, Bool.not_false]
      rw [List.filter_eq_self.mpr (fun _ _ => rfl)]
  · next i hi =>
    split
    · intro _; exact hI
    · intro hcs'
      refine ⟨rcore_hasIndex hI.core i true hi, ?_, hcs'⟩
      show s.snap = _
      rw [mkSnap_hasIndex s i true hi]; exact hI.snap

theorem rinv_idxdrop {B : List Name} {s : St} (hI : RInv B s)
    (hcs' : convState (step codeAutoMat s .idxdrop).1 = true) : RInv B (step codeAutoMat s .idxdrop).1 := by
  revert hcs'
  simp only [step]
  split
  · intro _; exact hI
  · next i hi =>
    split
    · intro hcs'
      refine ⟨rcore_hasIndex hI.core i false hi, ?_, hcs'⟩
      show s.snap = _
      rw [mkSnap_hasIndex s i false hi]; exact hI.snap
    · intro _; exact hI

theorem rinv_mat {B : List Name} {s : St} (hI : RInv B s) (n : Name) (ar : Nat) (h1 : n ∉ B)
    (h2 : stepWellUsed s (.mat n ar) = true)
    (h3 : ∀ i, s.inc = some i → edgesOkRec s i n = true)
    (hcs' : convState (step codeAutoMat s (.mat n ar)).1 = true) :
    RInv B (step codeAutoMat s (.mat n ar)).1 := by
  revert hcs'
  simp only [step]
  split
  · intro _; exact hI
  · next i hi =>
    simp only
    intro hcs'
    refine rinv_publish ?_ hcs'
    simp only [stepWellUsed, Bool.and_eq_true, Bool.not_eq_eq_eq_not, Bool.not_true] at h2
    have hne : clausesNow s n ≠ [] := by
      intro e; rw [e] at h2; simp at h2
    have hset := (setEqb_iff _ _).mp h2.2
    refine ⟨hI.core.stored, hI.core.cat, hI.core.catNodup, ?_, ?_, ?_⟩
    · intro i' hi'
      simp only [Option.some.injEq] at hi'; subst hi'
      exact nodup_aset _ _ (hI.core.matsNodup i hi)
    · intro i' hi'
      simp only [Option.some.injEq] at hi'; subst hi'
      exact hI.core.d2d i hi
    · intro i' n' m hi' hm hv
      simp only [Option.some.injEq] at hi'; subst hi'
      by_cases e : n = n'
      · subst e
        simp only [Inc.setMat, aget_aset_eq, Option.some.injEq] at hm
        subst hm
        refine ⟨h1, hne, ?_, ?_⟩
        · intro t
          rw [hset t, rfresh_own hI n hne]
          rfl
        · intro c hc r hr hrn
          have := h3 i hi
          simp only [edgesOkRec, List.all_eq_true, Bool.or_eq_true, beq_iff_eq] at this
          rcases this c hc r hr with e | e
          · exact absurd e hrn
          · exact contains_iff.mp e
      · simp only [Inc.setMat] at hm
        rw [aget_aset_ne _ _ _ _ e] at hm
        exact hI.core.mats i n' m hi hm hv

/-! ### all steps, all histories -/

theorem bodyOk_iff (B : List Name) (c : Clause) :
    bodyOk B c = true ↔ ∀ r ∈ bodyRels c, r ∈ B ∨ r = c.head.rel := by
  simp [bodyOk, List.all_eq_true, contains_iff]

theorem rinv_step {B : List Name} {s : St} (hI : RInv B s) (st : Step) (hs : stepSafeRec B s st = true)
    (hcs' : convState (step codeAutoMat s st).1 = true) :
    RInv B (step codeAutoMat s st).1 := by
  cases st with
  | ins r ts => exact rinv_ins hI r ts (contains_iff.mp (by simpa [stepSafeRec] using hs)) hcs'
  | del r ts => exact rinv_del hI r ts hcs'
  | reg c =>
    simp only [stepSafeRec, Bool.and_eq_true, Bool.not_eq_eq_eq_not, Bool.not_true] at hs
    refine rinv_reg hI c ?_ ((bodyOk_iff B c).mp hs.1.2) hs.2 hcs'
    intro hb
    have := contains_iff.mpr hb
    rw [this] at hs; simp at hs
  | rmc n k => exact rinv_rmc hI n k (by simpa [stepSafeRec] using hs) hcs'
  | rep n k c =>
    simp only [stepSafeRec, Bool.and_eq_true, Bool.not_eq_eq_eq_not, Bool.not_true, beq_iff_eq] at hs
    have h0 : c.head.rel = n := hs.1.1.1
    refine rinv_rep hI n k c h0 ?_ (by have := (bodyOk_iff B c).mp hs.1.2; rw [h0] at this; exact this) hs.2 hcs'
    intro hb
    have := contains_iff.mpr hb
    rw [this] at hs; simp at hs
  | clr n => exact rinv_clr hI n (by simpa [stepSafeRec] using hs) hcs'
  | drop n => exact rinv_drop hI n hcs'
  | dropp pre => exact rinv_dropp hI pre hcs'
  | drel r => exact rinv_drel hI r (by simpa [stepSafeRec] using hs) hcs'
  | clrp pre => exact rinv_clrp hI pre hcs'
  | idx => exact rinv_idx hI hcs'
  | idxdrop => exact rinv_idxdrop hI hcs'
  | mat n ar =>
    simp only [stepSafeRec, Bool.and_eq_true, Bool.not_eq_eq_eq_not, Bool.not_true] at hs
    refine rinv_mat hI n ar ?_ hs.1.2 ?_ hcs'
    · intro hb
      have := contains_iff.mpr hb
      rw [this] at hs; simp at hs
    · intro i hi
      have := hs.2
      simpa [hi] using this
  | q a => exact hI
  | m => exact hI

theorem rinv_runFrom {B : List Name} (h : List Step) {s : St} (hI : RInv B s) (hs : safeRec B s h = true) :
    RInv B (runFrom codeAutoMat s h) := by
  induction h generalizing s with
  | nil => exact hI
  | cons st l ih =>
    simp only [safeRec, Bool.and_eq_true] at hs
    exact ih (rinv_step hI st hs.1.1 hs.1.2) hs.2

theorem rinv_run {B : List Name} (h : List Step) (hs : safeRec B init h = true) : RInv B (run h) :=
  rinv_runFrom h (rinv_init B) hs

end ILV.C18
