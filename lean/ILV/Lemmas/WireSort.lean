/-
  Helper lemmas for C35: std's insertion sort (`stdInsertionSort`) returns a permutation, and a sorted
  one when the comparator is a total preorder on the elements; `apply_pagination` is take ∘ drop.
-/
import ILV.Model.WireSort
namespace ILV

/-! ### pagination -/

theorem applyPagination_eq (rows : List WRow) (limit offset : Option Nat) :
    applyPagination rows limit offset =
      match limit with
      | some n => (rows.drop (offset.getD 0)).take n
      | none => rows.drop (offset.getD 0) := by
  unfold applyPagination
  by_cases h : offset.getD 0 ≥ rows.length
  · have hd : rows.drop (offset.getD 0) = [] := List.drop_eq_nil_of_le h
    cases limit <;> simp [h, hd]
  · cases limit <;> simp [h]

/-! ### insertion sort: permutation -/

theorem insLeft_perm {α} (lt : α → α → Bool) (x : α) : ∀ l : List α, (insLeft lt x l).Perm (x :: l) := by
  intro l
  induction l with
  | nil => exact List.Perm.refl _
  | cons p ps ih =>
    simp only [insLeft]
    split
    · exact ((List.Perm.cons p ih).trans (List.Perm.swap x p ps))
    · exact List.Perm.refl _

theorem foldl_insLeft_perm {α} (lt : α → α → Bool) :
    ∀ (l acc : List α), (l.foldl (fun acc x => insLeft lt x acc) acc).Perm (acc ++ l) := by
  intro l
  induction l with
  | nil => intro acc; simp
  | cons x xs ih =>
    intro acc
    simp only [List.foldl_cons]
    refine (ih (insLeft lt x acc)).trans ?_
    have h1 : (insLeft lt x acc ++ xs).Perm ((x :: acc) ++ xs) := List.Perm.append_right xs (insLeft_perm lt x acc)
    refine h1.trans ?_
    simpa using (List.perm_middle (a := x) (l₁ := acc) (l₂ := xs)).symm

theorem stdInsertionSort_perm {α} (lt : α → α → Bool) (l : List α) : (stdInsertionSort lt l).Perm l := by
  unfold stdInsertionSort
  exact (List.reverse_perm _).trans (by simpa using foldl_insLeft_perm lt l [])

/-! ### insertion sort: sortedness under a total preorder on the elements -/

/-- `cmp` is a total preorder on the elements of `s` (what `slice::sort_by` requires). -/
structure PreorderOn {α} (s : List α) (cmp : α → α → Ordering) : Prop where
  swap : ∀ a ∈ s, ∀ b ∈ s, cmp b a = revOrd (cmp a b)
  trans : ∀ a ∈ s, ∀ b ∈ s, ∀ c ∈ s, cmp a b ≠ .gt → cmp b c ≠ .gt → cmp a c ≠ .gt

theorem mem_insLeft {α} {lt : α → α → Bool} {x q : α} {l : List α} (h : q ∈ insLeft lt x l) : q = x ∨ q ∈ l := by
  have := (insLeft_perm lt x l).mem_iff.1 h
  simpa using this

theorem insLeft_sorted {α} (s : List α) (cmp : α → α → Ordering) (po : PreorderOn s cmp) (x : α) (hx : x ∈ s) :
    ∀ acc : List α, (∀ q ∈ acc, q ∈ s) → acc.Pairwise (fun a b => cmp b a ≠ .gt) →
      (insLeft (fun a b => cmp a b == .lt) x acc).Pairwise (fun a b => cmp b a ≠ .gt) := by
  intro acc
  induction acc with
  | nil => intro _ _; simp [insLeft]
  | cons p ps ih =>
    intro hs hp
    have hpS : p ∈ s := hs p (by simp)
    have hpsS : ∀ q ∈ ps, q ∈ s := fun q hq => hs q (by simp [hq])
    rw [List.pairwise_cons] at hp
    simp only [insLeft]
    by_cases hlt : cmp x p = .lt
    · simp only [hlt, beq_self_eq_true, if_true]
      rw [List.pairwise_cons]
      refine ⟨?_, ih hpsS hp.2⟩
      intro q hq
      rcases mem_insLeft hq with e | hm
      · subst e; rw [hlt]; decide
      · exact hp.1 q hm
    · have hb : (cmp x p == .lt) = false := by
        cases hc : cmp x p <;> simp_all
      simp only [hb, Bool.false_eq_true, if_false]
      rw [List.pairwise_cons]
      refine ⟨?_, List.pairwise_cons.2 hp⟩
      have hpx : cmp p x ≠ .gt := by
        rw [po.swap x hx p hpS]
        cases hc : cmp x p <;> simp_all [revOrd]
      intro q hq
      rcases List.mem_cons.1 hq with e | hm
      · subst e; exact hpx
      · exact po.trans q (hpsS q hm) p hpS x hx (hp.1 q hm) hpx

theorem foldl_insLeft_sorted {α} (s : List α) (cmp : α → α → Ordering) (po : PreorderOn s cmp) :
    ∀ (l acc : List α), (∀ q ∈ l, q ∈ s) → (∀ q ∈ acc, q ∈ s) → acc.Pairwise (fun a b => cmp b a ≠ .gt) →
      (l.foldl (fun acc x => insLeft (fun a b => cmp a b == .lt) x acc) acc).Pairwise (fun a b => cmp b a ≠ .gt) := by
  intro l
  induction l with
  | nil => intro acc _ _ h; exact h
  | cons x xs ih =>
    intro acc hl ha hp
    simp only [List.foldl_cons]
    have hx : x ∈ s := hl x (by simp)
    apply ih
    · intro q hq; exact hl q (by simp [hq])
    · intro q hq
      rcases mem_insLeft hq with e | hm
      · subst e; exact hx
      · exact ha q hm
    · exact insLeft_sorted s cmp po x hx acc ha hp

theorem stdInsertionSort_sorted {α} (l : List α) (cmp : α → α → Ordering) (po : PreorderOn l cmp) :
    (stdInsertionSort (fun a b => cmp a b == .lt) l).Pairwise (fun a b => cmp a b ≠ .gt) := by
  unfold stdInsertionSort
  rw [List.pairwise_reverse]
  exact foldl_insLeft_sorted l cmp po l [] (fun _ h => h) (by simp) List.Pairwise.nil

/-- the brute-force check of the driver establishes `PreorderOn`. -/
theorem preorderOn_of_lawfulRows (keys : List SortKey) (rows : List WRow) (h : lawfulRows keys rows = true) :
    PreorderOn rows (rowCmp keys) := by
  unfold lawfulRows at h
  rw [List.all_eq_true] at h
  constructor
  · intro a ha b hb
    have := h a ha
    rw [List.all_eq_true] at this
    have := this b hb
    simp only [Bool.and_eq_true, beq_iff_eq] at this
    exact this.1
  · intro a ha b hb c hc h1 h2
    have := h a ha
    rw [List.all_eq_true] at this
    have := this b hb
    simp only [Bool.and_eq_true] at this
    have h3 := this.2
    rw [List.all_eq_true] at h3
    have h4 := h3 c hc
    have e1 : (rowCmp keys a b != .gt) = true := by simpa using h1
    have e2 : (rowCmp keys b c != .gt) = true := by simpa using h2
    simp only [e1, e2, Bool.and_self, Bool.not_true, Bool.false_or] at h4
    simpa using h4

/-! ### comparator = Spec order when no sort column mixes Int64 with Float64 -/

def WVal.isI64 : WVal → Bool
  | .i64 _ => true | _ => false
def WVal.isF64 : WVal → Bool
  | .f64 _ => true | _ => false

/-- no sort-key column holds both an Int64 and a Float64. -/
def noIntFloatMix (keys : List SortKey) (rows : List WRow) : Bool :=
  keys.all (fun (c, _) =>
    !((rows.any (fun r => match r[c]? with | some v => v.isI64 | none => false)) &&
      (rows.any (fun r => match r[c]? with | some v => v.isF64 | none => false))))

theorem specCmpV_eq (a b : WVal) (h : ¬ (a.isI64 = true ∧ b.isF64 = true)) (h' : ¬ (a.isF64 = true ∧ b.isI64 = true)) :
    specCmpV a b = compareWV a b := by
  cases a <;> cases b <;> simp_all [specCmpV, WVal.isI64, WVal.isF64]

theorem rowCmp_eq_spec (keys : List SortKey) (rows : List WRow) (hm : noIntFloatMix keys rows = true)
    (a b : WRow) (ha : a ∈ rows) (hb : b ∈ rows) : specRowCmp keys a b = rowCmp keys a b := by
  induction keys with
  | nil => rfl
  | cons k ks ih =>
    obtain ⟨col, desc⟩ := k
    simp only [noIntFloatMix, List.all_cons, Bool.and_eq_true] at hm
    have ih' := ih (by simpa [noIntFloatMix] using hm.2)
    have hcol : specCmpO a[col]? b[col]? = compareWire a[col]? b[col]? := by
      cases hav : a[col]? with
      | none => cases b[col]? <;> rfl
      | some va =>
        cases hbv : b[col]? with
        | none => rfl
        | some vb =>
          simp only [specCmpO, compareWire]
          have hmix := hm.1
          simp only [Bool.not_eq_true', Bool.and_eq_false_iff, List.any_eq_false] at hmix
          apply specCmpV_eq
          · intro ⟨h1, h2⟩
            rcases hmix with hno | hno
            · have := hno a ha; simp [hav, h1] at this
            · have := hno b hb; simp [hbv, h2] at this
          · intro ⟨h1, h2⟩
            rcases hmix with hno | hno
            · have := hno b hb; simp [hbv, h2] at this
            · have := hno a ha; simp [hav, h1] at this
    simp only [specRowCmp, rowCmp, hcol, ih']

end ILV
