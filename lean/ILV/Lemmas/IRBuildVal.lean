/-
  Rows of the join tree that `IRBuild` emits for the positive atoms of a rule are in an
  order-preserving one-to-one correspondence with the Spec's body valuations (`DL.evalPos`):
  `F2 (RowEnv …) (eval db J) (evalPos db.get atoms [[]])`.
-/
import ILV.Lemmas.IRSetPlan
import ILV.Model.IRBuild
namespace ILV.IRBuild
open ILV ILV.IR

/-! ### generic list lemmas -/

/-- element-wise relation of two lists of equal length, in order -/
inductive F2 {α β} (R : α → β → Prop) : List α → List β → Prop
  | nil : F2 R [] []
  | cons {a b l l'} : R a b → F2 R l l' → F2 R (a :: l) (b :: l')

/-- both absent, or both present and related -/
def ORel {α β} (R : α → β → Prop) : Option α → Option β → Prop
  | none, none => True
  | some a, some b => R a b
  | _, _ => False

theorem forall2_filterMap {α β γ} {R : α → β → Prop} (T : List γ) (f : γ → Option α) (g : γ → Option β)
    (h : ∀ t ∈ T, ORel R (f t) (g t)) : F2 R (T.filterMap f) (T.filterMap g) := by
  induction T with
  | nil => exact F2.nil
  | cons t T ih =>
    have ih := ih (fun x hx => h x (List.mem_cons_of_mem _ hx))
    have ht := h t (by simp)
    simp only [List.filterMap_cons]
    cases hf : f t <;> cases hg : g t <;> simp only [hf, hg, ORel] at ht
    · exact ih
    · exact F2.cons ht ih

theorem forall2_append {α β} {R : α → β → Prop} {a c : List α} {b d : List β}
    (h1 : F2 R a b) (h2 : F2 R c d) : F2 R (a ++ c) (b ++ d) := by
  induction h1 with
  | nil => exact h2
  | cons h _ ih => exact F2.cons h ih

theorem forall2_flatMap {α β α' β'} {R : α → β → Prop} {R' : α' → β' → Prop} {L : List α} {E : List β}
    (F : α → List α') (G : β → List β') (h : F2 R L E)
    (hs : ∀ l e, R l e → F2 R' (F l) (G e)) : F2 R' (L.flatMap F) (E.flatMap G) := by
  induction h with
  | nil => exact F2.nil
  | cons hle _ ih =>
    simp only [List.flatMap_cons]
    exact forall2_append (hs _ _ hle) ih

theorem forall2_filter {α β} {R : α → β → Prop} {L : List α} {E : List β} (p : α → Bool) (q : β → Bool)
    (h : F2 R L E) (hpq : ∀ l e, R l e → p l = q e) : F2 R (L.filter p) (E.filter q) := by
  induction h with
  | nil => exact F2.nil
  | cons hle _ ih =>
    simp only [List.filter_cons, hpq _ _ hle]
    split
    · exact F2.cons hle ih
    · exact ih

theorem forall2_length {α β} {R : α → β → Prop} {L : List α} {E : List β} (h : F2 R L E) : L.length = E.length := by
  induction h with
  | nil => rfl
  | cons _ _ ih => simp [ih]

theorem forall2_map_eq {α β γ} {R : α → β → Prop} {L : List α} {E : List β} (f : α → γ) (g : β → γ)
    (h : F2 R L E) (hfg : ∀ l e, R l e → f l = g e) : L.map f = E.map g := by
  induction h with
  | nil => rfl
  | cons hle _ ih => simp [hfg _ _ hle, ih]

/-! ### `DL.matchArgs`: what a successful match says, and when it succeeds -/

open DL in
theorem lookup_cons_self (x : String) (v : Value) (env : DL.Env) : ((x, v) :: env).lookup x = some v := by
  simp [List.lookup]

open DL in
theorem lookup_cons_ne {x y : String} (v : Value) (env : DL.Env) (h : y ≠ x) : ((x, v) :: env).lookup y = env.lookup y := by
  simp only [List.lookup]
  have : (y == x) = false := by simpa using h
  simp [this]

structure MatchSpec (args : List DL.Term) (vs : List Value) (env env' : DL.Env) : Prop where
  len : args.length = vs.length
  var : ∀ (q : Nat) x, args[q]? = some (DL.Term.var x) → env'.lookup x = vs[q]?
  const : ∀ (q : Nat) c, args[q]? = some (DL.Term.const c) → vs[q]? = some c
  mono : ∀ x w, env.lookup x = some w → env'.lookup x = some w
  bound : ∀ x, (env'.lookup x).isSome = true → (env.lookup x).isSome = true ∨ DL.Term.var x ∈ args

theorem matchArgs_sound : ∀ (args : List DL.Term) (vs : List Value) (env env' : DL.Env),
    DL.matchArgs args vs env = some env' → MatchSpec args vs env env'
  | [], [], env, env', h => by
    simp only [DL.matchArgs, Option.some.injEq] at h; subst h
    exact ⟨rfl, fun q x hq => by simp at hq, fun q c hq => by simp at hq, fun _ _ h => h, fun _ h => Or.inl h⟩
  | [], _ :: _, _, _, h => by simp [DL.matchArgs] at h
  | .var x :: as, [], _, _, h => by simp [DL.matchArgs] at h
  | .const c :: as, [], _, _, h => by simp [DL.matchArgs] at h
  | .wild :: as, [], _, _, h => by simp [DL.matchArgs] at h
  | .var x :: as, v :: vs, env, env', h => by
    simp only [DL.matchArgs] at h
    cases hl : env.lookup x with
    | some w =>
      simp only [hl] at h
      split at h
      · rename_i hwv
        have hwv : w = v := by simpa using hwv
        subst hwv
        have ih := matchArgs_sound as vs env env' h
        refine ⟨by simp [ih.len], ?_, ?_, ih.mono, ?_⟩
        · intro q y hq
          cases q with
          | zero => simp at hq; subst hq; simpa using ih.mono x w hl
          | succ q => simpa using ih.var q y (by simpa using hq)
        · intro q c hq
          cases q with
          | zero => simp at hq
          | succ q => simpa using ih.const q c (by simpa using hq)
        · intro y hy
          rcases ih.bound y hy with h1 | h1
          · exact Or.inl h1
          · exact Or.inr (List.mem_cons_of_mem _ h1)
      · simp at h
    | none =>
      simp only [hl] at h
      have ih := matchArgs_sound as vs ((x, v) :: env) env' h
      refine ⟨by simp [ih.len], ?_, ?_, ?_, ?_⟩
      · intro q y hq
        cases q with
        | zero => simp at hq; subst hq; simpa using ih.mono x v (lookup_cons_self x v env)
        | succ q => simpa using ih.var q y (by simpa using hq)
      · intro q c hq
        cases q with
        | zero => simp at hq
        | succ q => simpa using ih.const q c (by simpa using hq)
      · intro y w hy
        have hne : y ≠ x := fun e => by subst e; rw [hl] at hy; cases hy
        exact ih.mono y w (by rw [lookup_cons_ne v env hne]; exact hy)
      · intro y hy
        rcases ih.bound y hy with h1 | h1
        · by_cases e : y = x
          · subst e; exact Or.inr (by simp)
          · rw [lookup_cons_ne v env e] at h1; exact Or.inl h1
        · exact Or.inr (List.mem_cons_of_mem _ h1)
  | .const c :: as, v :: vs, env, env', h => by
    simp only [DL.matchArgs] at h
    split at h
    · rename_i hcv
      have hcv : c = v := by simpa using hcv
      subst hcv
      have ih := matchArgs_sound as vs env env' h
      refine ⟨by simp [ih.len], ?_, ?_, ih.mono, ?_⟩
      · intro q y hq
        cases q with
        | zero => simp at hq
        | succ q => simpa using ih.var q y (by simpa using hq)
      · intro q c' hq
        cases q with
        | zero => simp at hq; subst hq; simp
        | succ q => simpa using ih.const q c' (by simpa using hq)
      · intro y hy
        rcases ih.bound y hy with h1 | h1
        · exact Or.inl h1
        · exact Or.inr (List.mem_cons_of_mem _ h1)
    · simp at h
  | .wild :: as, v :: vs, env, env', h => by
    simp only [DL.matchArgs] at h
    have ih := matchArgs_sound as vs env env' h
    refine ⟨by simp [ih.len], ?_, ?_, ih.mono, ?_⟩
    · intro q y hq
      cases q with
      | zero => simp at hq
      | succ q => simpa using ih.var q y (by simpa using hq)
    · intro q c' hq
      cases q with
      | zero => simp at hq
      | succ q => simpa using ih.const q c' (by simpa using hq)
    · intro y hy
      rcases ih.bound y hy with h1 | h1
      · exact Or.inl h1
      · exact Or.inr (List.mem_cons_of_mem _ h1)

/-- a match succeeds when the arities agree, constants match, bound variables agree with the
    environment and repeated variables carry equal values -/
theorem matchArgs_complete : ∀ (args : List DL.Term) (vs : List Value) (env : DL.Env),
    args.length = vs.length →
    (∀ (q : Nat) c, args[q]? = some (DL.Term.const c) → vs[q]? = some c) →
    (∀ (q : Nat) x w, args[q]? = some (DL.Term.var x) → env.lookup x = some w → vs[q]? = some w) →
    (∀ (q q' : Nat) x, args[q]? = some (DL.Term.var x) → args[q']? = some (DL.Term.var x) → vs[q]? = vs[q']?) →
    ∃ env', DL.matchArgs args vs env = some env'
  | [], [], env, _, _, _, _ => ⟨env, rfl⟩
  | [], _ :: _, _, h, _, _, _ => by simp at h
  | _ :: _, [], _, h, _, _, _ => by simp at h
  | .var x :: as, v :: vs, env, hl, hc, hv, hr => by
    have hl' : as.length = vs.length := by simpa using hl
    have hc' : ∀ (q : Nat) c, as[q]? = some (DL.Term.const c) → vs[q]? = some c := fun q c hq => by simpa using hc (q + 1) c (by simpa using hq)
    have hr' : ∀ (q q' : Nat) y, as[q]? = some (DL.Term.var y) → as[q']? = some (DL.Term.var y) → vs[q]? = vs[q']? :=
      fun q q' y h1 h2 => by simpa using hr (q + 1) (q' + 1) y (by simpa using h1) (by simpa using h2)
    simp only [DL.matchArgs]
    cases hlk : env.lookup x with
    | some w =>
      have : (some v : Option Value) = some w := by simpa using hv 0 x w (by simp) hlk
      have hwv : w = v := by cases this; rfl
      simp only [hwv, beq_self_eq_true, ↓reduceIte]
      exact matchArgs_complete as vs env hl' hc' (fun q y w' hq he => by simpa using hv (q + 1) y w' (by simpa using hq) he) hr'
    | none =>
      simp only
      refine matchArgs_complete as vs ((x, v) :: env) hl' hc' ?_ hr'
      intro q y w' hq he
      by_cases e : y = x
      · subst e
        rw [lookup_cons_self] at he
        cases he
        have := hr (q + 1) 0 y (by simpa using hq) (by simp)
        simpa using this
      · rw [lookup_cons_ne v env e] at he
        simpa using hv (q + 1) y w' (by simpa using hq) he
  | .const c :: as, v :: vs, env, hl, hc, hv, hr => by
    have : (some v : Option Value) = some c := by simpa using hc 0 c (by simp)
    have hcv : c = v := by cases this; rfl
    simp only [DL.matchArgs, hcv, beq_self_eq_true, ↓reduceIte]
    exact matchArgs_complete as vs env (by simpa using hl)
      (fun q c' hq => by simpa using hc (q + 1) c' (by simpa using hq))
      (fun q y w' hq he => by simpa using hv (q + 1) y w' (by simpa using hq) he)
      (fun q q' y h1 h2 => by simpa using hr (q + 1) (q' + 1) y (by simpa using h1) (by simpa using h2))
  | .wild :: as, v :: vs, env, hl, hc, hv, hr => by
    simp only [DL.matchArgs]
    exact matchArgs_complete as vs env (by simpa using hl)
      (fun q c' hq => by simpa using hc (q + 1) c' (by simpa using hq))
      (fun q y w' hq he => by simpa using hv (q + 1) y w' (by simpa using hq) he)
      (fun q q' y h1 h2 => by simpa using hr (q + 1) (q' + 1) y (by simpa using h1) (by simpa using h2))

/-! ### aligned exclusion of key positions from a row and from its schema -/

/-- `excludingAux` for any element type (used for the schema names) -/
def exclG {α} (ex : List Nat) : Nat → List α → List α
  | _, [] => []
  | i, v :: vs => if ex.contains i then exclG ex (i + 1) vs else v :: exclG ex (i + 1) vs

theorem keptNames_eq (rk : List Nat) : ∀ (i : Nat) (rs : List String),
    ((rs.zipIdx i).filter (fun (p : String × Nat) => !rk.contains p.2)).map (·.1) = exclG rk i rs
  | _, [] => rfl
  | i, r :: rs => by
    have ih := keptNames_eq rk (i + 1) rs
    simp only [List.zipIdx_cons, List.filter_cons, exclG]
    cases h : rk.contains i
    · simp only [h, Bool.not_false, ↓reduceIte, List.map_cons, Bool.false_eq_true, ih]
    · simp only [h, Bool.not_true, Bool.false_eq_true, ↓reduceIte, ih]

theorem excludingAux_eq_exclG (ex : List Nat) : ∀ (i : Nat) (vs : Tuple), excludingAux ex i vs = exclG ex i vs
  | _, [] => rfl
  | i, v :: vs => by simp only [excludingAux, exclG, excludingAux_eq_exclG ex (i + 1) vs]

theorem exclG_length {α β} (ex : List Nat) : ∀ (i : Nat) (a : List α) (b : List β), a.length = b.length →
    (exclG ex i a).length = (exclG ex i b).length
  | _, [], [], _ => rfl
  | _, [], _ :: _, h => by simp at h
  | _, _ :: _, [], h => by simp at h
  | i, x :: a, y :: b, h => by
    have ih := exclG_length ex (i + 1) a b (by simpa using h)
    simp only [exclG]
    split <;> simp [ih]

/-- the `p`-th kept name and the `p`-th kept value come from the same original position, which is not a key -/
theorem exclG_aligned {α β} (ex : List Nat) : ∀ (i : Nat) (a : List α) (b : List β), a.length = b.length →
    ∀ (p : Nat) (x : α), (exclG ex i a)[p]? = some x →
      ∃ q, a[q]? = some x ∧ (exclG ex i b)[p]? = b[q]? ∧ ex.contains (i + q) = false
  | _, [], [], _, p, x, hp => by simp [exclG] at hp
  | _, [], _ :: _, h, _, _, _ => by simp at h
  | _, _ :: _, [], h, _, _, _ => by simp at h
  | i, u :: a, v :: b, h, p, x, hp => by
    have hl : a.length = b.length := by simpa using h
    simp only [exclG] at hp ⊢
    cases hc : ex.contains i with
    | true =>
      simp only [hc, ↓reduceIte] at hp ⊢
      obtain ⟨q, h1, h2, h3⟩ := exclG_aligned ex (i + 1) a b hl p x hp
      exact ⟨q + 1, by simpa using h1, by simpa using h2, by rw [← h3]; congr 1; omega⟩
    | false =>
      simp only [hc, Bool.false_eq_true, ↓reduceIte] at hp ⊢
      cases p with
      | zero =>
        simp only [List.getElem?_cons_zero, Option.some.injEq] at hp
        exact ⟨0, by simp [hp], by simp, by simpa using hc⟩
      | succ p =>
        obtain ⟨q, h1, h2, h3⟩ := exclG_aligned ex (i + 1) a b hl p x (by simpa using hp)
        exact ⟨q + 1, by simpa using h1, by simpa using h2, by rw [← h3]; congr 1; omega⟩

/-- a position that is not a key survives -/
theorem mem_exclG {α} (ex : List Nat) : ∀ (i : Nat) (a : List α) (q : Nat) (x : α),
    a[q]? = some x → ex.contains (i + q) = false → x ∈ exclG ex i a
  | _, [], q, x, h, _ => by simp at h
  | i, u :: a, q, x, h, hc => by
    simp only [exclG]
    cases q with
    | zero =>
      simp only [List.getElem?_cons_zero, Option.some.injEq] at h
      have : ex.contains i = false := by simpa using hc
      simp only [this, Bool.false_eq_true, ↓reduceIte, h]
      simp
    | succ q =>
      have := mem_exclG ex (i + 1) a q x (by simpa using h) (by rw [← hc]; congr 1; omega)
      split
      · exact this
      · exact List.mem_cons_of_mem _ this

theorem mem_of_mem_exclG {α} (ex : List Nat) : ∀ (i : Nat) (a : List α) (x : α), x ∈ exclG ex i a → x ∈ a
  | _, [], x, h => by simp [exclG] at h
  | i, u :: a, x, h => by
    simp only [exclG] at h
    split at h
    · exact List.mem_cons_of_mem _ (mem_of_mem_exclG ex (i + 1) a x h)
    · rcases List.mem_cons.1 h with rfl | h
      · simp
      · exact List.mem_cons_of_mem _ (mem_of_mem_exclG ex (i + 1) a x h)

theorem exclG_nil_keys {α} : ∀ (i : Nat) (a : List α), exclG [] i a = a
  | _, [] => rfl
  | i, u :: a => by simp [exclG, exclG_nil_keys (i + 1) a]

/-! ### `firstIdx` and `joinKeys` -/

theorem firstIdx_some {x : String} : ∀ (l : List String) (i j : Nat), firstIdx x l i = some j →
    i ≤ j ∧ l[j - i]? = some x
  | [], _, _, h => by simp [firstIdx] at h
  | y :: ys, i, j, h => by
    simp only [firstIdx] at h
    split at h
    · rename_i hxy
      have hxy : x = y := by simpa using hxy
      simp only [Option.some.injEq] at h
      subst h; subst hxy; simp
    · obtain ⟨h1, h2⟩ := firstIdx_some ys (i + 1) j h
      refine ⟨by omega, ?_⟩
      have : j - i = (j - (i + 1)) + 1 := by omega
      rw [this]; simpa using h2

theorem firstIdx_of_mem {x : String} : ∀ (l : List String) (i : Nat), x ∈ l → ∃ j, firstIdx x l i = some j
  | [], _, h => by simp at h
  | y :: ys, i, h => by
    simp only [firstIdx]
    split
    · exact ⟨i, rfl⟩
    · rename_i hxy
      have hxy : x ≠ y := by simpa using hxy
      rcases List.mem_cons.1 h with h | h
      · exact absurd h hxy
      · exact firstIdx_of_mem ys (i + 1) h

theorem mem_joinKeys_go {rs : List String} : ∀ (ls : List String) (i : Nat) (seen : List String) (p : Nat × Nat),
    p ∈ joinKeys.go rs i seen ls → ∃ n, ls[p.1 - i]? = some n ∧ i ≤ p.1 ∧ rs[p.2]? = some n
  | [], _, _, p, h => by simp [joinKeys.go] at h
  | n :: ns, i, seen, p, h => by
    simp only [joinKeys.go, List.mem_append] at h
    rcases h with h | h
    · split at h
      · simp at h
      · split at h
        · rename_i j hj
          simp only [List.mem_singleton] at h
          subst h
          have := firstIdx_some rs 0 j hj
          exact ⟨n, by simp, Nat.le_refl _, by simpa using this.2⟩
        · simp at h
    · obtain ⟨m, h1, h2, h3⟩ := mem_joinKeys_go ns (i + 1) (n :: seen) p h
      refine ⟨m, ?_, by omega, h3⟩
      have : p.1 - i = (p.1 - (i + 1)) + 1 := by omega
      rw [this]; simpa using h1

/-- every key pair joins two columns with the same name -/
theorem mem_joinKeys {ls rs : List String} {p : Nat × Nat} (h : p ∈ joinKeys ls rs) :
    ∃ n, ls[p.1]? = some n ∧ rs[p.2]? = some n := by
  obtain ⟨n, h1, _, h3⟩ := mem_joinKeys_go ls 0 [] p h
  exact ⟨n, by simpa using h1, h3⟩

theorem joinKeys_go_complete {rs : List String} {n : String} {j : Nat} (hj : firstIdx n rs 0 = some j) :
    ∀ (ls : List String) (i : Nat) (seen : List String), n ∈ ls → n ∉ seen →
      ∃ i', (i', j) ∈ joinKeys.go rs i seen ls ∧ ls[i' - i]? = some n ∧ i ≤ i'
  | [], _, _, h, _ => by simp at h
  | m :: ms, i, seen, h, hs => by
    simp only [joinKeys.go, List.mem_append]
    by_cases e : m = n
    · subst e
      have : seen.contains m = false := by simpa using hs
      exact ⟨i, Or.inl (by simp [hj, hs]), by simp, Nat.le_refl _⟩
    · have hm : n ∈ ms := by
        rcases List.mem_cons.1 h with h | h
        · exact absurd h.symm e
        · exact h
      obtain ⟨i', h1, h2, h3⟩ := joinKeys_go_complete hj ms (i + 1) (m :: seen) hm
        (by simp only [List.mem_cons, not_or]; exact ⟨fun h => e h.symm, hs⟩)
      refine ⟨i', Or.inr h1, ?_, by omega⟩
      have : i' - i = (i' - (i + 1)) + 1 := by omega
      rw [this]; simpa using h2

/-- every name shared by the two schemas is a key (at its first position on the right) -/
theorem joinKeys_complete {ls rs : List String} {n : String} {j : Nat} (hn : n ∈ ls) (hj : firstIdx n rs 0 = some j) :
    ∃ i, (i, j) ∈ joinKeys ls rs ∧ ls[i]? = some n := by
  obtain ⟨i, h1, h2, _⟩ := joinKeys_go_complete hj ls 0 [] hn (by simp)
  exact ⟨i, h1, by simpa using h2⟩

/-! ### key comparison of `joinRow` as a pointwise condition -/

theorem project_pairs_eq {row t : Tuple} : ∀ (ks : List (Nat × Nat)),
    (∀ p ∈ ks, p.1 < row.length ∧ p.2 < t.length) →
    (project row (ks.map (·.1)) = project t (ks.map (·.2)) ↔ ∀ p ∈ ks, row[p.1]? = t[p.2]?)
  | [], _ => by simp [project]
  | (i, j) :: ks, h => by
    have hi := (h (i, j) (by simp)).1
    have hj := (h (i, j) (by simp)).2
    have ih := project_pairs_eq ks (fun p hp => h p (by simp [hp]))
    simp only [List.map_cons]
    rw [project_cons_lt row i _ hi, project_cons_lt t j _ hj]
    constructor
    · intro he
      have hh := List.cons.inj he
      intro p hp
      rcases List.mem_cons.1 hp with rfl | hp
      · simp [List.getElem?_eq_getElem hi, List.getElem?_eq_getElem hj, hh.1]
      · exact ih.1 hh.2 p hp
    · intro hall
      have h0 := hall (i, j) (by simp)
      simp only [List.getElem?_eq_getElem hi, List.getElem?_eq_getElem hj, Option.some.injEq] at h0
      rw [h0, ih.2 (fun p hp => hall p (by simp [hp]))]

theorem excluding_nil (t : Tuple) : excluding t [] = t := by
  unfold excluding; rw [excludingAux_eq_exclG]; exact exclG_nil_keys 0 t

theorem joinRow_of_match {ks : List (Nat × Nat)} {row t : Tuple}
    (hr : ∀ p ∈ ks, p.1 < row.length ∧ p.2 < t.length) (hm : ∀ p ∈ ks, row[p.1]? = t[p.2]?) :
    joinRow (ks.map (·.1)) (ks.map (·.2)) row t = some (row ++ excluding t (ks.map (·.2))) := by
  unfold joinRow
  split
  · rename_i hc
    simp only [Bool.and_eq_true, List.isEmpty_iff, List.map_eq_nil_iff] at hc
    rw [hc.1]; simp [excluding_nil]
  · have := (project_pairs_eq ks hr).2 hm
    simp [this]

theorem joinRow_some_match {ks : List (Nat × Nat)} {row t x : Tuple}
    (hr : ∀ p ∈ ks, p.1 < row.length ∧ p.2 < t.length)
    (h : joinRow (ks.map (·.1)) (ks.map (·.2)) row t = some x) : ∀ p ∈ ks, row[p.1]? = t[p.2]? := by
  unfold joinRow at h
  split at h
  · rename_i hc
    simp only [Bool.and_eq_true, List.isEmpty_iff, List.map_eq_nil_iff] at hc
    rw [hc.1]; simp
  · split at h
    · rename_i hk
      exact (project_pairs_eq ks hr).1 (by simpa using hk)
    · simp at h

/-! ### plain atoms: distinct variables and wildcards -/

def plainArgs : List DL.Term → List String → Bool
  | [], _ => true
  | DL.Term.var x :: as, seen => !seen.contains x && plainArgs as (x :: seen)
  | DL.Term.wild :: as, seen => plainArgs as seen
  | DL.Term.const _ :: _, _ => false

theorem plain_var_notin_seen : ∀ (args : List DL.Term) (seen : List String), plainArgs args seen = true →
    ∀ (q : Nat) x, args[q]? = some (DL.Term.var x) → x ∉ seen
  | [], _, _, q, x, h => by simp at h
  | DL.Term.var y :: as, seen, hp, q, x, h => by
    simp only [plainArgs, Bool.and_eq_true, Bool.not_eq_true', List.contains_eq_mem, decide_eq_false_iff_not] at hp
    cases q with
    | zero => simp at h; subst h; exact hp.1
    | succ q =>
      have := plain_var_notin_seen as (y :: seen) hp.2 q x (by simpa using h)
      exact fun hx => this (List.mem_cons_of_mem _ hx)
  | DL.Term.wild :: as, seen, hp, q, x, h => by
    simp only [plainArgs] at hp
    cases q with
    | zero => simp at h
    | succ q => exact plain_var_notin_seen as seen hp q x (by simpa using h)
  | DL.Term.const _ :: _, _, hp, _, _, _ => by simp [plainArgs] at hp

theorem plain_var_unique : ∀ (args : List DL.Term) (seen : List String), plainArgs args seen = true →
    ∀ (q q' : Nat) x, args[q]? = some (DL.Term.var x) → args[q']? = some (DL.Term.var x) → q = q'
  | [], _, _, q, _, x, h, _ => by simp at h
  | DL.Term.var y :: as, seen, hp, q, q', x, h, h' => by
    simp only [plainArgs, Bool.and_eq_true] at hp
    cases q with
    | zero =>
      cases q' with
      | zero => rfl
      | succ q' =>
        simp at h; subst h
        exact absurd (List.mem_cons_self) (plain_var_notin_seen as (y :: seen) hp.2 q' y (by simpa using h'))
    | succ q =>
      cases q' with
      | zero =>
        simp at h'; subst h'
        exact absurd (List.mem_cons_self) (plain_var_notin_seen as (y :: seen) hp.2 q y (by simpa using h))
      | succ q' =>
        have := plain_var_unique as (y :: seen) hp.2 q q' x (by simpa using h) (by simpa using h')
        omega
  | DL.Term.wild :: as, seen, hp, q, q', x, h, h' => by
    simp only [plainArgs] at hp
    cases q with
    | zero => simp at h
    | succ q =>
      cases q' with
      | zero => simp at h'
      | succ q' =>
        have := plain_var_unique as seen hp q q' x (by simpa using h) (by simpa using h')
        omega
  | DL.Term.const _ :: _, _, hp, _, _, _, _, _ => by simp [plainArgs] at hp

theorem plain_no_const : ∀ (args : List DL.Term) (seen : List String), plainArgs args seen = true →
    ∀ (q : Nat) c, args[q]? ≠ some (DL.Term.const c)
  | [], _, _, q, c => by simp
  | DL.Term.var y :: as, seen, hp, q, c => by
    simp only [plainArgs, Bool.and_eq_true] at hp
    cases q with
    | zero => simp
    | succ q => simpa using plain_no_const as (y :: seen) hp.2 q c
  | DL.Term.wild :: as, seen, hp, q, c => by
    simp only [plainArgs] at hp
    cases q with
    | zero => simp
    | succ q => simpa using plain_no_const as seen hp q c
  | DL.Term.const _ :: _, _, hp, _, _ => by simp [plainArgs] at hp

/-! ### the row/valuation invariant and one join step -/

/-- `row` (with column names `sch`) and the valuation `env` agree: every column named by a rule
    variable holds that variable's value, and exactly the variables in the schema are bound. -/
structure Inv (V : List String) (sch : List String) (row : Tuple) (env : DL.Env) : Prop where
  len : row.length = sch.length
  val : ∀ (i : Nat) x, sch[i]? = some x → x ∈ V → env.lookup x = row[i]?
  bound : ∀ x, (env.lookup x).isSome = true → x ∈ sch

theorem Inv.nil (V : List String) : Inv V [] [] [] :=
  ⟨rfl, fun i x h => by simp at h, fun x h => by simp [List.lookup] at h⟩

theorem step_rel {V sch names : List String} {args : List DL.Term} {row t : Tuple} {env : DL.Env}
    (hinv : Inv V sch row env)
    (hN1 : names.length = args.length)
    (hN2 : ∀ (q : Nat) x, args[q]? = some (DL.Term.var x) → names[q]? = some x)
    (hN3 : ∀ (q : Nat) n, names[q]? = some n → args[q]? = some (DL.Term.var n) ∨ (n ∉ sch ∧ n ∉ V))
    (hplain : plainArgs args [] = true) (hV : ∀ x, DL.Term.var x ∈ args → x ∈ V)
    (hlen : t.length = args.length) :
    ORel (Inv V (sch ++ exclG ((joinKeys sch names).map (·.2)) 0 names))
      (joinRow ((joinKeys sch names).map (·.1)) ((joinKeys sch names).map (·.2)) row t)
      (DL.matchArgs args t env) := by
  -- facts about the key pairs
  have hks : ∀ p ∈ joinKeys sch names, ∃ n, sch[p.1]? = some n ∧ names[p.2]? = some n ∧ args[p.2]? = some (DL.Term.var n) := by
    intro p hp
    obtain ⟨n, h1, h2⟩ := mem_joinKeys hp
    rcases hN3 p.2 n h2 with h3 | h3
    · exact ⟨n, h1, h2, h3⟩
    · exact absurd (List.mem_of_getElem? h1) h3.1
  have hrange : ∀ p ∈ joinKeys sch names, p.1 < row.length ∧ p.2 < t.length := by
    intro p hp
    obtain ⟨n, h1, h2, _⟩ := hks p hp
    have a1 : p.1 < sch.length := by
      rcases Nat.lt_or_ge p.1 sch.length with h | h
      · exact h
      · rw [List.getElem?_eq_none h] at h1; cases h1
    have a2 : p.2 < names.length := by
      rcases Nat.lt_or_ge p.2 names.length with h | h
      · exact h
      · rw [List.getElem?_eq_none h] at h2; cases h2
    exact ⟨by rw [hinv.len]; exact a1, by rw [hlen, ← hN1]; exact a2⟩
  cases hm : DL.matchArgs args t env with
  | some env' =>
    have ms := matchArgs_sound args t env env' hm
    -- the keys match
    have hmatch : ∀ p ∈ joinKeys sch names, row[p.1]? = t[p.2]? := by
      intro p hp
      obtain ⟨n, h1, h2, h3⟩ := hks p hp
      have hnV : n ∈ V := hV n (List.mem_of_getElem? h3)
      have e1 := hinv.val p.1 n h1 hnV
      have hsome : (row[p.1]?).isSome = true := by
        have := (hrange p hp).1
        simp [List.getElem?_eq_getElem this]
      rw [← e1] at hsome
      obtain ⟨w, hw⟩ := Option.isSome_iff_exists.1 hsome
      rw [← e1, hw, ← ms.var p.2 n h3, ms.mono n w hw]
    rw [joinRow_of_match hrange hmatch]
    simp only [ORel]
    have hex : excluding t ((joinKeys sch names).map (·.2)) = exclG ((joinKeys sch names).map (·.2)) 0 t := by
      unfold excluding; exact excludingAux_eq_exclG _ 0 t
    have hnl : names.length = t.length := by rw [hN1, hlen]
    refine ⟨?_, ?_, ?_⟩
    · rw [hex]; simp only [List.length_append, hinv.len, exclG_length _ 0 names t hnl]
    · intro i x hx hxV
      by_cases hi : i < sch.length
      · rw [List.getElem?_append_left hi] at hx
        rw [List.getElem?_append_left (by rw [hinv.len]; exact hi)]
        have e1 := hinv.val i x hx hxV
        have hsome : (row[i]?).isSome = true := by
          simp [List.getElem?_eq_getElem (show i < row.length by rw [hinv.len]; exact hi)]
        rw [← e1] at hsome ⊢
        obtain ⟨w, hw⟩ := Option.isSome_iff_exists.1 hsome
        rw [hw]; exact ms.mono x w hw
      · have hge : sch.length ≤ i := by omega
        rw [List.getElem?_append_right hge] at hx
        rw [List.getElem?_append_right (by rw [hinv.len]; exact hge), hinv.len, hex]
        obtain ⟨q, h1, h2, _⟩ := exclG_aligned _ 0 names t hnl (i - sch.length) x hx
        rw [h2]
        rcases hN3 q x h1 with h3 | h3
        · exact ms.var q x h3
        · exact absurd hxV h3.2
    · intro x hx
      rcases ms.bound x hx with h1 | h1
      · exact List.mem_append_left _ (hinv.bound x h1)
      · obtain ⟨q, hq⟩ := List.getElem?_of_mem h1
        have hnq := hN2 q x hq
        by_cases hk : ((joinKeys sch names).map (·.2)).contains (0 + q) = true
        · simp only [Nat.zero_add, List.contains_eq_mem, List.mem_map, decide_eq_true_eq] at hk
          obtain ⟨p, hp, hpq⟩ := hk
          obtain ⟨n, g1, g2, _⟩ := hks p hp
          rw [hpq, hnq] at g2
          cases g2
          exact List.mem_append_left _ (List.mem_of_getElem? g1)
        · exact List.mem_append_right _ (mem_exclG _ 0 names q x hnq (by simpa using hk))
  | none =>
    cases hj : joinRow ((joinKeys sch names).map (·.1)) ((joinKeys sch names).map (·.2)) row t with
    | none => simp [ORel]
    | some x =>
      exfalso
      have hmatch := joinRow_some_match hrange hj
      obtain ⟨env', he⟩ := matchArgs_complete args t env hlen.symm
        (fun q c hq => absurd hq (plain_no_const args [] hplain q c))
        (fun q y w hq hw => by
          have hyV : y ∈ V := hV y (List.mem_of_getElem? hq)
          have hys : y ∈ sch := hinv.bound y (by simp [hw])
          have hnq := hN2 q y hq
          -- `q` is the first (only) position of `y` among the names
          obtain ⟨j, hj'⟩ := firstIdx_of_mem names 0 (List.mem_of_getElem? hnq)
          have hjq : j = q := by
            have := (firstIdx_some names 0 j hj').2
            simp only [Nat.sub_zero] at this
            rcases hN3 j y this with h3 | h3
            · exact plain_var_unique args [] hplain j q y h3 hq
            · exact absurd hyV h3.2
          subst hjq
          obtain ⟨i, hi, hsi⟩ := joinKeys_complete hys hj'
          have := hmatch (i, j) hi
          simp only at this
          rw [← this, ← hinv.val i y hsi hyV, hw])
        (fun q q' y h1 h2 => by rw [plain_var_unique args [] hplain q q' y h1 h2])
      rw [hm] at he; cases he

/-! ### the builder's scan of a plain atom -/

theorem scanNames_length (rel : String) (bi : Nat) : ∀ (i : Nat) (args : List DL.Term),
    (scanNames rel bi i args).length = args.length
  | _, [] => rfl
  | i, _ :: as => by simp [scanNames, scanNames_length rel bi (i + 1) as]

theorem scanNames_var (rel : String) (bi : Nat) : ∀ (i : Nat) (args : List DL.Term) (q : Nat) x,
    args[q]? = some (DL.Term.var x) → (scanNames rel bi i args)[q]? = some x
  | _, [], q, x, h => by simp at h
  | i, a :: as, q, x, h => by
    cases q with
    | zero => simp at h; subst h; simp [scanNames]
    | succ q => simpa [scanNames] using scanNames_var rel bi (i + 1) as q x (by simpa using h)

theorem constFilters_plain : ∀ (args : List DL.Term) (seen : List String) (i : Nat), plainArgs args seen = true →
    constFilters i args = some []
  | [], _, _, _ => rfl
  | DL.Term.var y :: as, seen, i, hp => by
    simp only [plainArgs, Bool.and_eq_true] at hp
    simp [constFilters, constFilters_plain as (y :: seen) (i + 1) hp.2]
  | DL.Term.wild :: as, seen, i, hp => by
    simp only [plainArgs] at hp
    simp [constFilters, constFilters_plain as seen (i + 1) hp]
  | DL.Term.const _ :: _, _, _, hp => by simp [plainArgs] at hp

theorem repFilters_go_plain : ∀ (args : List DL.Term) (names : List String) (seen : List (Nat × String)) (i : Nat),
    plainArgs args names = true → (∀ p ∈ seen, p.2 ∈ names) → repFilters.go seen i args = []
  | [], _, _, _, _, _ => rfl
  | DL.Term.var y :: as, names, seen, i, hp, hs => by
    simp only [plainArgs, Bool.and_eq_true, Bool.not_eq_true', List.contains_eq_mem, decide_eq_false_iff_not] at hp
    have hf : seen.find? (fun p => p.2 == y) = none := by
      rw [List.find?_eq_none]
      intro p hp' hpy
      have : p.2 = y := by simpa using hpy
      exact hp.1 (this ▸ hs p hp')
    simp only [repFilters.go, hf, List.nil_append]
    exact repFilters_go_plain as (y :: names) (seen ++ [(i, y)]) (i + 1) hp.2 (by
      intro p hp'
      rcases List.mem_append.1 hp' with h | h
      · exact List.mem_cons_of_mem _ (hs p h)
      · simp only [List.mem_singleton] at h; subst h; simp)
  | DL.Term.wild :: as, names, seen, i, hp, hs => by
    simp only [plainArgs] at hp
    simp only [repFilters.go]
    exact repFilters_go_plain as names seen (i + 1) hp hs
  | DL.Term.const _ :: _, _, _, _, hp, _ => by simp [plainArgs] at hp

theorem buildScan_plain (bi : Nat) (a : DL.Atom) (h : plainArgs a.args [] = true) :
    buildScan bi a = some (.scan a.rel (scanNames a.rel bi 0 a.args)) := by
  unfold buildScan
  rw [constFilters_plain a.args [] 0 h]
  have : repFilters a.args = [] := repFilters_go_plain a.args [] [] 0 h (by simp)
  simp [this, wrapFilters]

/-! ### the join tree of a rule body and the body valuations -/

/-- generated (non-variable) column names of the atom are new: not in the schema so far, not a rule variable -/
def atomFresh (V sch : List String) (bi : Nat) (a : DL.Atom) : Bool :=
  ((scanNames a.rel bi 0 a.args).zipIdx).all (fun p =>
    a.args[p.2]? == some (DL.Term.var p.1) || (!sch.contains p.1 && !V.contains p.1))

/-- side conditions on the remaining atoms, relative to the schema built so far -/
def atomsOk (db : Db) (V : List String) : List String → List (Nat × DL.Atom) → Bool
  | _, [] => true
  | sch, (bi, a) :: rest =>
    let names := scanNames a.rel bi 0 a.args
    plainArgs a.args [] && a.args.all (fun t => match t with | DL.Term.var x => V.contains x | _ => true)
      && (db.get a.rel).all (fun t => t.length == a.args.length)
      && atomFresh V sch bi a
      && atomsOk db V (sch ++ exclG ((joinKeys sch names).map (·.2)) 0 names) rest

theorem atomFresh_spec {V sch : List String} {bi : Nat} {a : DL.Atom} (h : atomFresh V sch bi a = true)
    (q : Nat) (n : String) (hq : (scanNames a.rel bi 0 a.args)[q]? = some n) :
    a.args[q]? = some (DL.Term.var n) ∨ (n ∉ sch ∧ n ∉ V) := by
  unfold atomFresh at h
  rw [List.all_eq_true] at h
  have hmem : (n, q) ∈ (scanNames a.rel bi 0 a.args).zipIdx := by
    rw [List.mem_zipIdx_iff_getElem?]; simpa using hq
  have := h (n, q) hmem
  simp only [Bool.or_eq_true, beq_iff_eq, Bool.and_eq_true, Bool.not_eq_true', List.contains_eq_mem,
    decide_eq_false_iff_not] at this
  exact this

theorem schema_buildJoin (l r : Node) :
    schema (buildJoin l r) = schema l ++ exclG ((joinKeys (schema l) (schema r)).map (·.2)) 0 (schema r) := by
  simp only [buildJoin, schema]
  rw [← keptNames_eq]

theorem filterMap_some {α} (l : List α) : l.filterMap some = l := by
  induction l <;> simp_all

/-- **Rows of the join tree = body valuations**, in order: joining the remaining atoms onto a plan
    whose rows correspond to the valuations so far yields a plan whose rows correspond to
    `DL.evalPos` of the remaining atoms. -/
theorem joins_rows_envs (db : Db) (V : List String) : ∀ (rest : List (Nat × DL.Atom)) (cur : Node) (envs : List DL.Env),
    atomsOk db V (schema cur) rest = true →
    F2 (Inv V (schema cur)) (eval db cur) envs →
    ∀ t, buildJoins cur rest = some t →
      F2 (Inv V (schema t)) (eval db t) (DL.evalPos db.get (rest.map (·.2)) envs)
  | [], cur, envs, _, h, t, ht => by
    simp only [buildJoins, Option.some.injEq] at ht; subst ht
    simpa [DL.evalPos] using h
  | (bi, a) :: rest, cur, envs, hok, h, t, ht => by
    simp only [atomsOk, Bool.and_eq_true] at hok
    obtain ⟨⟨⟨⟨hplain, hvars⟩, hdb⟩, hfresh⟩, hrest⟩ := hok
    simp only [buildJoins, buildScan_plain bi a hplain] at ht
    simp only [List.map_cons, DL.evalPos]
    apply joins_rows_envs db V rest _ _ (by rw [schema_buildJoin]; simpa [schema] using hrest) ?_ t ht
    rw [schema_buildJoin]
    simp only [buildJoin, eval, joinRows, schema]
    apply forall2_flatMap _ _ h
    intro row env hre
    apply forall2_filterMap
    intro tup htup
    refine step_rel hre (scanNames_length a.rel bi 0 a.args) (scanNames_var a.rel bi 0 a.args)
      (fun q n hq => atomFresh_spec hfresh q n hq) hplain ?_ ?_
    · intro x hx
      rw [List.all_eq_true] at hvars
      simpa using hvars _ hx
    · rw [List.all_eq_true] at hdb
      simpa using hdb tup htup

end ILV.IRBuild
