/-
  The quantisers of src/vector_ops.rs:450-502 in exact rational arithmetic: rounding to the nearest
  code moves a value by at most half a quantisation step.
-/
import Mathlib.Algebra.Order.Round
import Mathlib.Data.Rat.Floor
import Mathlib.Tactic.FieldSimp
import Mathlib.Tactic.Linarith
import Mathlib.Tactic.Ring
namespace ILV.VecOps

theorem quant_roundtrip (x s : ℚ) (hs : 0 < s) : |x - (round (x * s) : ℚ) / s| ≤ 1 / (2 * s) := by
  have h := abs_sub_round (x * s)
  have e : x - (round (x * s) : ℚ) / s = (x * s - round (x * s)) / s := by field_simp
  rw [e, abs_div, abs_of_pos hs, div_le_iff₀ hs]
  have : 1 / (2 * s) * s = 1 / 2 := by field_simp
  rw [this]; exact h

theorem quant_linear_roundtrip (x mn range : ℚ) (hr : 0 < range) :
    |x - (mn + ((round ((x - mn) / range * 255 - 128) : ℚ) + 128) * range / 255)| ≤ range / 255 / 2 := by
  set y := (x - mn) / range * 255 - 128 with hy
  have h := abs_sub_round y
  have e : x - (mn + ((round y : ℚ) + 128) * range / 255) = (y - round y) * (range / 255) := by
    rw [hy]; field_simp; ring
  have hp : (0 : ℚ) < range / 255 := by positivity
  rw [e, abs_mul, abs_of_pos hp]
  calc |y - round y| * (range / 255) ≤ 1 / 2 * (range / 255) := by
        exact mul_le_mul_of_nonneg_right h (le_of_lt hp)
    _ = range / 255 / 2 := by ring

end ILV.VecOps
