/-
  In-memory isolation of the KG lifecycle step system (ILV.Model.KStep), used by Props/C17.
-/
import ILV.Model.KStep
namespace ILV.KStep

/-- the KG an operation is addressed to -/
def target : Op → Option Name
  | .create k => some k | .drop k => some k | .ins k _ _ => some k | .del k _ _ => some k | .save k => some k
  | .restart => none | .saveAll => none

theorem lookup_append_ne {β} (b a : Name) (v : β) (l : List (Name × β)) (h : b ≠ a) :
    lookup b (l ++ [(a, v)]) = lookup b l := by
  induction l with
  | nil => simp [lookup, Ne.symm h]
  | cons e l ih => obtain ⟨x, y⟩ := e; simp only [List.cons_append, lookup]; split <;> simp [ih]

theorem lookup_put_ne {β} (b a : Name) (v : β) (l : List (Name × β)) (h : b ≠ a) :
    lookup b (put a v l) = lookup b l := by
  induction l with
  | nil => simp [put, lookup, Ne.symm h]
  | cons e l ih =>
    obtain ⟨x, y⟩ := e
    simp only [put]
    split
    · rename_i hx; subst hx; simp [lookup, Ne.symm h]
    · simp only [lookup]; split <;> simp [ih]

theorem lookup_erase_ne {β} (b a : Name) (l : List (Name × β)) (h : b ≠ a) :
    lookup b (erase a l) = lookup b l := by
  induction l with
  | nil => simp [erase, lookup]
  | cons e l ih =>
    obtain ⟨x, y⟩ := e
    unfold erase at ih ⊢
    rw [List.filter_cons]
    by_cases hx : x = a
    · subst hx
      simp only [bne_self_eq_false, Bool.false_eq_true, if_false]
      rw [ih]; simp [lookup, Ne.symm h]
    · have hne : (x != a) = true := by simpa using hx
      simp only [hne, if_true, lookup]
      split
      · rfl
      · exact ih

theorem ensureShard_kgs (st : State) (s : Name) : (ensureShard st s).kgs = st.kgs := by
  unfold ensureShard; split <;> rfl
theorem appendUpd_kgs (st : State) (s : Name) (u : Upd) : (appendUpd st s u).kgs = st.kgs := by
  unfold appendUpd; cases st.mode <;> rfl
theorem appendUpd_mem (st : State) (s : Name) (u : Upd) :
    (appendUpd st s u).mem = put s { (lookup s st.mem).getD {} with buffer := ((lookup s st.mem).getD {}).buffer ++ [u] } st.mem := by
  unfold appendUpd; cases st.mode <;> rfl
theorem appendUpd_files (st : State) (s : Name) (u : Upd) : (appendUpd st s u).files = st.files := by
  unfold appendUpd; cases st.mode <;> rfl
@[simp] theorem walSync_kgs (st : State) : (walSync st).kgs = st.kgs := rfl
@[simp] theorem walRewrite_kgs (st : State) (s : Name) : (walRewrite st s).kgs = st.kgs := rfl
theorem flushShard_kgs (st : State) (s : Name) : (flushShard st s).kgs = st.kgs := by
  unfold flushShard; split
  · rfl
  · split <;> rfl
theorem deleteShard_kgs (st : State) (s : Name) : (deleteShard st s).kgs = st.kgs := rfl
theorem foldl_flush_kgs (l : List Name) : ∀ st : State, (l.foldl flushShard st).kgs = st.kgs := by
  induction l with
  | nil => intro st; rfl
  | cons a l ih => intro st; simp only [List.foldl_cons]; rw [ih, flushShard_kgs]
theorem foldl_delete_kgs (l : List Name) : ∀ st : State, (l.foldl deleteShard st).kgs = st.kgs := by
  induction l with
  | nil => intro st; rfl
  | cons a l ih => intro st; simp only [List.foldl_cons]; rw [ih, deleteShard_kgs]

theorem step_isolated {st st' : State} {t : Tid} {a b : Name} {rest : List Op} {op : Op}
    (hs : step st t = .ok st') (htodo : (st.threads t).todo = op :: rest) (htarget : target op = some a) (hb : b ≠ a) :
    lookup b st'.kgs = lookup b st.kgs := by
  by_cases htn : t ≥ st.n
  · simp [step, htn] at hs
  cases op with
  | restart => simp [target] at htarget
  | saveAll => simp [target] at htarget
  | create k =>
    simp only [target, Option.some.injEq] at htarget; subst htarget
    cases hpc : (st.threads t).pc <;> simp only [step, htn, htodo, hpc, if_false] at hs <;>
      (repeat' split at hs) <;> (try cases hs) <;> (try rfl) <;> (try exact lookup_append_ne _ _ _ _ hb)
  | drop k =>
    simp only [target, Option.some.injEq] at htarget; subst htarget
    cases hpc : (st.threads t).pc <;> simp only [step, htn, htodo, hpc, if_false] at hs <;>
      (repeat' split at hs) <;> (try cases hs) <;> (try rfl) <;> (try exact lookup_erase_ne _ _ _ hb) <;>
      (try (simp only [foldl_delete_kgs]))
  | ins k r x =>
    simp only [target, Option.some.injEq] at htarget; subst htarget
    cases hpc : (st.threads t).pc <;> simp only [step, htn, htodo, hpc, if_false] at hs <;>
      (repeat' split at hs) <;> (try cases hs) <;> (try rfl) <;> (try exact lookup_put_ne _ _ _ _ hb) <;>
      (try (simp only [appendUpd_kgs, ensureShard_kgs]))
  | del k r x =>
    simp only [target, Option.some.injEq] at htarget; subst htarget
    cases hpc : (st.threads t).pc <;> simp only [step, htn, htodo, hpc, if_false] at hs <;>
      (repeat' split at hs) <;> (try cases hs) <;> (try rfl) <;> (try exact lookup_put_ne _ _ _ _ hb) <;>
      (try (simp only [appendUpd_kgs, ensureShard_kgs]))
  | save k =>
    simp only [target, Option.some.injEq] at htarget; subst htarget
    cases hpc : (st.threads t).pc <;> simp only [step, htn, htodo, hpc, if_false] at hs <;>
      (repeat' split at hs) <;> (try cases hs) <;> (try rfl) <;> (try (simp only [walSync_kgs, foldl_flush_kgs]))

/-! ### shard metadata files: every shard owns the file at its name, provided file names are distinct -/

theorem lookup_put_same {β} (k : Name) (v : β) : ∀ l : List (Name × β), lookup k (put k v l) = some v := by
  intro l
  induction l with
  | nil => simp [put, lookup]
  | cons e l ih =>
    obtain ⟨x, y⟩ := e
    simp only [put]
    split
    · rename_i hx; simp [lookup, hx]
    · rename_i hx; simp [lookup, hx, ih]

theorem lookup_append_new {β} (k s : Name) (v : β) (l : List (Name × β)) (hs : lookup s l = none) :
    lookup k (l ++ [(s, v)]) = if k = s then some v else lookup k l := by
  induction l with
  | nil => by_cases h : k = s <;> simp [lookup, h, eq_comm]
  | cons e l ih =>
    obtain ⟨x, y⟩ := e
    simp only [lookup] at hs
    split at hs
    · cases hs
    · rename_i hx
      simp only [List.cons_append, lookup]
      by_cases hk : x = k
      · have : ¬ k = s := fun e => hx (hk.trans e)
        simp [hk, this]
      · simp [hk, ih hs]

theorem lookup_erase_same {β} (k : Name) (l : List (Name × β)) : lookup k (erase k l) = none := by
  induction l with
  | nil => simp [erase, lookup]
  | cons e l ih =>
    obtain ⟨x, y⟩ := e
    unfold erase at ih ⊢
    rw [List.filter_cons]
    by_cases hx : x = k
    · subst hx; simp only [bne_self_eq_false, Bool.false_eq_true, if_false]; exact ih
    · have hne : (x != k) = true := by simpa using hx
      simp only [hne, if_true, lookup, hx, if_false]; exact ih

theorem lookup_mem {β} (k : Name) (v : β) : ∀ l : List (Name × β), lookup k l = some v → (k, v) ∈ l := by
  intro l
  induction l with
  | nil => intro h; simp [lookup] at h
  | cons e l ih =>
    obtain ⟨x, y⟩ := e
    intro h
    simp only [lookup] at h
    split at h
    · rename_i hx; cases h; subst hx; simp
    · exact List.mem_cons_of_mem _ (ih h)

/-- every shard of the in-memory map finds, at *its* file name, *its* metadata with its batches -/
def Owns (st : State) : Prop :=
  ∀ s sh, lookup s st.mem = some sh → lookup (metaFile s) st.files = some (s, sh.batches)

/-- no other shard of the map shares the metadata file of `s` -/
def FileInj (st : State) (s : Name) : Prop :=
  ∀ s', (lookup s' st.mem).isSome = true → metaFile s' = metaFile s → s' = s

/-- decidable form: pairwise distinct file names on a list of shard names -/
def distinctFiles (names : List Name) : Bool :=
  names.all (fun a => names.all (fun b => a == b || metaFile a != metaFile b))

theorem fileInj_of_distinct {st : State} {names : List Name} {s : Name} (hd : distinctFiles names = true)
    (hmem : ∀ s', (lookup s' st.mem).isSome = true → s' ∈ names) (hs : s ∈ names) : FileInj st s := by
  intro s' h1 h2
  have := List.all_eq_true.mp (List.all_eq_true.mp hd s' (hmem s' h1)) s hs
  simp only [Bool.or_eq_true, beq_iff_eq, bne_iff_ne, ne_eq] at this
  rcases this with h | h
  · exact h
  · exact absurd h2 h

theorem owns_ensureShard {st : State} {s : Name} (h : Owns st) (hi : FileInj st s) : Owns (ensureShard st s) := by
  unfold ensureShard
  cases hl : lookup s st.mem with
  | some sh => simpa using h
  | none =>
    intro s' sh' hs'
    simp only at hs' ⊢
    rw [lookup_append_new _ _ _ _ hl] at hs'
    by_cases he : s' = s
    · subst he; simp only [if_true] at hs'; cases hs'; exact lookup_put_same _ _ _
    · simp only [he, if_false] at hs'
      have hne : metaFile s' ≠ metaFile s := fun e => he (hi s' (by simp [hs']) e)
      rw [lookup_put_ne _ _ _ _ hne]; exact h s' sh' hs'

theorem owns_appendUpd {st : State} {s : Name} {u : Upd} (h : Owns st) (hs : (lookup s st.mem).isSome = true) :
    Owns (appendUpd st s u) := by
  intro s' sh' hs'
  rw [appendUpd_mem] at hs'
  rw [appendUpd_files]
  by_cases he : s' = s
  · subst he
    rw [lookup_put_same] at hs'; cases hs'
    cases hl : lookup s' st.mem with
    | none => simp [hl] at hs
    | some sh0 => simpa [hl] using h s' sh0 hl
  · rw [lookup_put_ne _ _ _ _ he] at hs'; exact h s' sh' hs'

theorem owns_flushShard {st : State} {s : Name} (h : Owns st) (hi : FileInj st s) : Owns (flushShard st s) := by
  unfold flushShard
  cases hl : lookup s st.mem with
  | none => simpa using h
  | some sh =>
    simp only
    split
    · exact h
    · intro s' sh' hs'
      simp only [walRewrite] at hs' ⊢
      by_cases he : s' = s
      · subst he; rw [lookup_put_same] at hs'; cases hs'; exact lookup_put_same _ _ _
      · rw [lookup_put_ne _ _ _ _ he] at hs'
        have hne : metaFile s' ≠ metaFile s := fun e => he (hi s' (by simp [hs']) e)
        rw [lookup_put_ne _ _ _ _ hne]; exact h s' sh' hs'

theorem owns_deleteShard {st : State} {s : Name} (h : Owns st) (hi : FileInj st s) : Owns (deleteShard st s) := by
  intro s' sh' hs'
  unfold deleteShard at hs' ⊢
  simp only [walRewrite] at hs' ⊢
  by_cases he : s' = s
  · subst he; rw [lookup_erase_same] at hs'; cases hs'
  · rw [lookup_erase_ne _ _ _ he] at hs'
    have hne : metaFile s' ≠ metaFile s := fun e => he (hi s' (by simp [hs']) e)
    rw [lookup_erase_ne _ _ _ hne]; exact h s' sh' hs'

/-- start-up (`load_shards`: one map entry per metadata file, named by the name inside the file) finds
    every shard that owned its file, with exactly its flushed batches -/
theorem owns_load {st : State} (h : Owns st) (s : Name) (sh : ShardMem) (hs : lookup s st.mem = some sh) :
    (s, ({ batches := sh.batches, buffer := [] } : ShardMem)) ∈
      st.files.map (fun f => (f.2.1, ({ batches := f.2.2, buffer := [] } : ShardMem))) := by
  have := lookup_mem _ _ _ (h s sh hs)
  exact List.mem_map.mpr ⟨_, this, rfl⟩

/-! ### the file-name function is injective away from `_` and `/` -/
def safeChar (c : Char) : Bool := c != '/' && c != '_'

theorem sanitize_inj : ∀ (a b : Name), a.all safeChar = true → b.all safeChar = true → sanitize a = sanitize b → a = b := by
  intro a
  induction a with
  | nil => intro b _ _ h; cases b with
    | nil => rfl
    | cons y b => simp [sanitize] at h
  | cons x a ih =>
    intro b ha hb h
    cases b with
    | nil => simp [sanitize] at h
    | cons y b =>
      simp only [sanitize, List.map_cons, List.cons.injEq] at h
      simp only [List.all_cons, Bool.and_eq_true] at ha hb
      have hxy : x = y := by
        have hx := ha.1; have hy := hb.1
        simp only [safeChar, Bool.and_eq_true, bne_iff_ne, ne_eq] at hx hy
        have h1 := h.1
        by_cases c1 : x = ':' ∨ x = '/' <;> by_cases c2 : y = ':' ∨ y = '/' <;> simp only [c1, c2, if_true, if_false] at h1
        · rcases c1 with c1 | c1
          · rcases c2 with c2 | c2
            · rw [c1, c2]
            · exact absurd c2 hy.1
          · exact absurd c1 hx.1
        · exact absurd h1.symm hy.2
        · exact absurd h1 hx.2
        · exact h1
      rw [hxy, ih b ha.2 hb.2 (by simpa [sanitize] using h.2)]

theorem metaFile_inj (a b : Name) (ha : a.all safeChar = true) (hb : b.all safeChar = true)
    (h : metaFile a = metaFile b) : a = b :=
  sanitize_inj a b ha hb (List.append_cancel_right h)

/-! ### names without ':' (all names `create_knowledge_graph` accepts): discovery and prefix tests are exact -/

theorem kgOf_shardName : ∀ (k rel : Name), k.contains ':' = false → kgOf (shardName k rel) = k := by
  intro k
  induction k with
  | nil => intro rel _; simp [kgOf, shardName]
  | cons c k ih =>
    intro rel h
    simp only [List.contains_cons, Bool.or_eq_false_iff] at h
    have hc : (c != ':') = true := by
      have := h.1
      simp only [beq_eq_false_iff_ne, ne_eq] at this
      simp only [bne_iff_ne, ne_eq]
      exact fun e => this e.symm
    have := ih rel h.2
    simp only [kgOf, shardName, List.cons_append, List.takeWhile_cons, hc, if_true] at this ⊢
    rw [this]

theorem hasPrefix_shardName : ∀ (k' k rel : Name), k'.contains ':' = false → k.contains ':' = false →
    hasPrefix k' (shardName k rel) = true → k' = k := by
  intro k'
  induction k' with
  | nil =>
    intro k rel _ hk h
    cases k with
    | nil => rfl
    | cons c k =>
      simp only [hasPrefix, shardName, List.nil_append, List.cons_append, List.isPrefixOf, Bool.and_eq_true, beq_iff_eq] at h
      simp only [List.contains_cons, Bool.or_eq_false_iff, beq_eq_false_iff_ne, ne_eq] at hk
      exact absurd h.1 hk.1
  | cons c' k' ih =>
    intro k rel hk' hk h
    cases k with
    | nil =>
      simp only [hasPrefix, shardName, List.nil_append, List.cons_append, List.isPrefixOf, Bool.and_eq_true, beq_iff_eq] at h
      simp only [List.contains_cons, Bool.or_eq_false_iff, beq_eq_false_iff_ne, ne_eq] at hk'
      exact absurd h.1.symm hk'.1
    | cons c k =>
      simp only [hasPrefix, shardName, List.cons_append, List.isPrefixOf, Bool.and_eq_true, beq_iff_eq] at h
      simp only [List.contains_cons, Bool.or_eq_false_iff] at hk' hk
      have := ih k rel hk'.2 hk.2 (by simpa [hasPrefix, shardName] using h.2)
      rw [h.1, this]

theorem validName_no_colon (n : Name) (h : validName n = true) : n.contains ':' = false := by
  unfold validName at h
  simp only [Bool.and_eq_true, Bool.not_eq_true', decide_eq_true_eq] at h
  exact h.1.1.1.2

/-! ### sequential histories never persist a write for a KG that is not in the map -/

/-- single thread; nothing persisted for a missing KG so far; a thread holding the tombstone guard
    (about to persist) addresses a KG that is in the map -/
def Good (st : State) : Prop :=
  st.n = 1 ∧ st.persistedForMissing = false ∧
  (match (st.threads 0).pc, (st.threads 0).todo with
    | .i2, .ins kg _ _ :: _ => (lookup kg st.kgs).isSome
    | .e2, .del kg _ _ :: _ => (lookup kg st.kgs).isSome
    | .i2, _ => false
    | .e2, _ => false
    | _, _ => true) = true

theorem restart_flag (st : State) : (restart st).persistedForMissing = st.persistedForMissing := by
  unfold restart restartCore
  simp only
  have hf : ∀ (l : List Name) (s : State), (l.foldl flushShard s).persistedForMissing = s.persistedForMissing := by
    intro l; induction l with
    | nil => intro s; rfl
    | cons a l ih => intro s; simp only [List.foldl_cons]; rw [ih]; unfold flushShard; split; rfl; split <;> rfl
  have hw : ∀ (l : List (Name × Upd)) (s : State),
      (l.foldl (fun s e => let sh := (lookup e.1 s.mem).getD {}; { s with mem := put e.1 { sh with buffer := sh.buffer ++ [e.2] } s.mem }) s).persistedForMissing = s.persistedForMissing := by
    intro l; induction l with
    | nil => intro s; rfl
    | cons a l ih => intro s; simp only [List.foldl_cons]; rw [ih]
  split <;> simp only [hf, hw] <;> rfl

theorem restart_n (st : State) : (restart st).n = st.n := by
  unfold restart restartCore
  simp only
  have hf : ∀ (l : List Name) (s : State), (l.foldl flushShard s).n = s.n := by
    intro l; induction l with
    | nil => intro s; rfl
    | cons a l ih => intro s; simp only [List.foldl_cons]; rw [ih]; unfold flushShard; split; rfl; split <;> rfl
  have hw : ∀ (l : List (Name × Upd)) (s : State),
      (l.foldl (fun s e => let sh := (lookup e.1 s.mem).getD {}; { s with mem := put e.1 { sh with buffer := sh.buffer ++ [e.2] } s.mem }) s).n = s.n := by
    intro l; induction l with
    | nil => intro s; rfl
    | cons a l ih => intro s; simp only [List.foldl_cons]; rw [ih]
  split <;> simp only [hf, hw] <;> rfl

theorem foldl_flush_flag (l : List Name) : ∀ s : State, (l.foldl flushShard s).persistedForMissing = s.persistedForMissing ∧ (l.foldl flushShard s).n = s.n := by
  induction l with
  | nil => intro s; exact ⟨rfl, rfl⟩
  | cons a l ih =>
    intro s; simp only [List.foldl_cons]
    have h1 : (flushShard s a).persistedForMissing = s.persistedForMissing ∧ (flushShard s a).n = s.n := by
      unfold flushShard; split; exact ⟨rfl, rfl⟩; split <;> exact ⟨rfl, rfl⟩
    exact ⟨(ih _).1.trans h1.1, (ih _).2.trans h1.2⟩

theorem foldl_delete_flag (l : List Name) : ∀ s : State, (l.foldl deleteShard s).persistedForMissing = s.persistedForMissing ∧ (l.foldl deleteShard s).n = s.n := by
  induction l with
  | nil => intro s; exact ⟨rfl, rfl⟩
  | cons a l ih => intro s; simp only [List.foldl_cons]; exact ⟨(ih _).1, (ih _).2⟩

theorem ensure_append_flag (st : State) (s : Name) (u : Upd) :
    (appendUpd (ensureShard st s) s u).n = st.n ∧ (appendUpd (ensureShard st s) s u).kgs = st.kgs := by
  refine ⟨?_, ?_⟩
  · have : (appendUpd (ensureShard st s) s u).n = (ensureShard st s).n := by unfold appendUpd; cases (ensureShard st s).mode <;> rfl
    rw [this]; unfold ensureShard; split <;> rfl
  · rw [appendUpd_kgs, ensureShard_kgs]

theorem step_good {st st' : State} (h : Good st) (hs : step st 0 = .ok st') : Good st' := by
  obtain ⟨hn, hf, hg⟩ := h
  have htn : ¬ 0 ≥ st.n := by rw [hn]; decide
  cases htodo : (st.threads 0).todo with
  | nil => simp [step, htn, htodo] at hs
  | cons op rest =>
    rw [htodo] at hg
    cases op <;> cases hpc : (st.threads 0).pc <;> rw [hpc] at hg <;>
      simp only [step, htn, htodo, hpc, if_false] at hs <;>
      (repeat' split at hs) <;> (try cases hs) <;>
      (try (simp at hg)) <;>
      (first
        | (refine ⟨by simp [hn, walSync, (foldl_flush_flag _ _).2, (foldl_delete_flag _ _).2, restart_n, (ensure_append_flag _ _ _).1], ?_, ?_⟩
           · simp [hf, walSync, (foldl_flush_flag _ _).1, (foldl_delete_flag _ _).1, restart_flag, hg]
           · simp [setThread, Thread.finish, htodo]
             try (first | (simp_all; done) | (rename_i hsome; revert hsome; cases lookup _ st.kgs <;> simp))))

theorem good_init (ops : List Op) : Good (init [ops]) := by
  refine ⟨rfl, rfl, ?_⟩
  simp [init, fresh]

theorem lastState_good : ∀ (sched : List Tid) (st : State), Good st → Good (lastState st sched) := by
  intro sched
  induction sched with
  | nil => intro st h; exact h
  | cons t ts ih =>
    intro st h
    by_cases ht : t = 0
    · subst ht
      cases hs : step st 0 with
      | ok st' => simp only [lastState, hs]; exact ih st' (step_good h hs)
      | skip => simp only [lastState, hs]; exact ih st h
      | blocked => simp only [lastState, hs]; exact h
    · have : step st t = .skip := by
        have : t ≥ st.n := by rw [h.1]; exact Nat.pos_of_ne_zero ht
        simp [step, this]
      simp only [lastState, this]; exact ih st h

end ILV.KStep
