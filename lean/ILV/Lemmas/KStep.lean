/-
  In-memory isolation of the KG lifecycle step system (ILV.Model.KStep), used by Props/C17.
-/
import ILV.Model.KStep
namespace ILV.KStep

/-- the KG an operation is addressed to -/
def target : Op → Option Name
  | .create k => some k | .drop k => some k | .ins k _ _ => some k | .del k _ _ => some k | .save k => some k
  | .restart => none

theorem lookup_append_ne {β} (b a : Name) (v : β) (l : List (Name × β)) (h : b ≠ a) :
    lookup b (l ++ [(a, v)]) = lookup b l := by
  induction l with
  | nil => simp [lookup, Ne.symm h]
  | cons e l ih => obtain ⟨x, y⟩ := e; simp only [List.cons_append, lookup]; split <;> simp [ih]

theorem lookup_put_ne {β} (b a : Name) (v : β) (l : List (Name × β)) (h : b ≠ a) :
    lookup b (put a v l) = lookup b l := by
  induction l with
  | nil => simp [put, lookup, Ne.symm h]
  | cons e l ih =>
    obtain ⟨x, y⟩ := e
    simp only [put]
    split
    · rename_i hx; subst hx; simp [lookup, Ne.symm h]
    · simp only [lookup]; split <;> simp [ih]

theorem lookup_erase_ne {β} (b a : Name) (l : List (Name × β)) (h : b ≠ a) :
    lookup b (erase a l) = lookup b l := by
  induction l with
  | nil => simp [erase, lookup]
  | cons e l ih =>
    obtain ⟨x, y⟩ := e
    unfold erase at ih ⊢
    rw [List.filter_cons]
    by_cases hx : x = a
    · subst hx
      simp only [bne_self_eq_false, Bool.false_eq_true, if_false]
      rw [ih]; simp [lookup, Ne.symm h]
    · have hne : (x != a) = true := by simpa using hx
      simp only [hne, if_true, lookup]
      split
      · rfl
      · exact ih

theorem ensureShard_kgs (st : State) (s : Name) : (ensureShard st s).kgs = st.kgs := by
  unfold ensureShard; split <;> rfl
theorem appendUpd_kgs (st : State) (s : Name) (u : Upd) : (appendUpd st s u).kgs = st.kgs := rfl
theorem flushShard_kgs (st : State) (s : Name) : (flushShard st s).kgs = st.kgs := by
  unfold flushShard; split
  · rfl
  · split <;> rfl
theorem deleteShard_kgs (st : State) (s : Name) : (deleteShard st s).kgs = st.kgs := rfl
theorem foldl_flush_kgs (l : List Name) : ∀ st : State, (l.foldl flushShard st).kgs = st.kgs := by
  induction l with
  | nil => intro st; rfl
  | cons a l ih => intro st; simp only [List.foldl_cons]; rw [ih, flushShard_kgs]
theorem foldl_delete_kgs (l : List Name) : ∀ st : State, (l.foldl deleteShard st).kgs = st.kgs := by
  induction l with
  | nil => intro st; rfl
  | cons a l ih => intro st; simp only [List.foldl_cons]; rw [ih, deleteShard_kgs]

theorem step_isolated {st st' : State} {t : Tid} {a b : Name} {rest : List Op} {op : Op}
    (hs : step st t = .ok st') (htodo : (st.threads t).todo = op :: rest) (htarget : target op = some a) (hb : b ≠ a) :
    lookup b st'.kgs = lookup b st.kgs := by
  by_cases htn : t ≥ st.n
  · simp [step, htn] at hs
  cases op with
  | restart => simp [target] at htarget
  | create k =>
    simp only [target, Option.some.injEq] at htarget; subst htarget
    cases hpc : (st.threads t).pc <;> simp only [step, htn, htodo, hpc, if_false] at hs <;>
      (repeat' split at hs) <;> (try cases hs) <;> (try rfl) <;> (try exact lookup_append_ne _ _ _ _ hb)
  | drop k =>
    simp only [target, Option.some.injEq] at htarget; subst htarget
    cases hpc : (st.threads t).pc <;> simp only [step, htn, htodo, hpc, if_false] at hs <;>
      (repeat' split at hs) <;> (try cases hs) <;> (try rfl) <;> (try exact lookup_erase_ne _ _ _ hb) <;>
      (try (simp only [foldl_delete_kgs]))
  | ins k r x =>
    simp only [target, Option.some.injEq] at htarget; subst htarget
    cases hpc : (st.threads t).pc <;> simp only [step, htn, htodo, hpc, if_false] at hs <;>
      (repeat' split at hs) <;> (try cases hs) <;> (try rfl) <;> (try exact lookup_put_ne _ _ _ _ hb) <;>
      (try (simp only [appendUpd_kgs, ensureShard_kgs]))
  | del k r x =>
    simp only [target, Option.some.injEq] at htarget; subst htarget
    cases hpc : (st.threads t).pc <;> simp only [step, htn, htodo, hpc, if_false] at hs <;>
      (repeat' split at hs) <;> (try cases hs) <;> (try rfl) <;> (try exact lookup_put_ne _ _ _ _ hb) <;>
      (try (simp only [appendUpd_kgs, ensureShard_kgs]))
  | save k =>
    simp only [target, Option.some.injEq] at htarget; subst htarget
    cases hpc : (st.threads t).pc <;> simp only [step, htn, htodo, hpc, if_false] at hs <;>
      (repeat' split at hs) <;> (try cases hs) <;> (try rfl) <;> (try (simp only [foldl_flush_kgs]))

end ILV.KStep
