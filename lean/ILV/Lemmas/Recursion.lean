/-
  Self-recursive heads: the engine's fix-point loop (`lfpSelf`) returns the *least* set closed under
  the head's clauses over the already computed relations (Kleene iteration from ∅; leastness by
  monotonicity), and the whole run of a program whose only cycles are self-loops yields, head by
  head, such least sets.
-/
import ILV.Lemmas.Mono
import ILV.Lemmas.Engine
namespace ILV.Engine
open ILV ILV.DL

/-- `F h` is the least set closed under the clauses of `h`, the other relations read from `F`. -/
def LeastFor (p : Program) (F : String → List Tuple) (h : String) : Prop :=
  (∃ d, evalRules F (clausesOf p h) = some d ∧ Sub d (F h)) ∧
  ∀ X dX, evalRules (override F h X) (clausesOf p h) = some dX → Sub dX X → Sub (F h) X

theorem evalRuleM_opt_irrelevant (b : Bool) (lk : String → List Tuple) (r : Rule) : evalRuleM b lk r = evalRuleM true lk r := rfl

theorem evalRulesM_false_eq {p : Program} (hcf : ClauseFaithful p) (lk : String → List Tuple) (cs : List Rule)
    (hsub : ∀ r, r ∈ cs → r ∈ p) : evalRulesM false lk cs = evalRules lk cs := by
  unfold evalRulesM evalRules
  apply evalRulesWith_congr
  intro r hr
  rw [evalRuleM_opt_irrelevant]
  exact hcf r (hsub r hr) lk

/-- evaluating a sub-list of rules of a successful evaluation succeeds and derives a subset. -/
theorem evalRules_sublist (lk : String → List Tuple) (cs cs' : List Rule) (hsub : ∀ r, r ∈ cs' → r ∈ cs)
    (d : List Tuple) (h : evalRules lk cs = some d) : ∃ d', evalRules lk cs' = some d' ∧ Sub d' d := by
  unfold evalRules at h ⊢
  cases hc : evalRulesWith (evalRuleLk lk) cs' with
  | none =>
    obtain ⟨r, hr, hn⟩ := (evalRulesWith_none_iff _ _).1 hc
    have := (evalRulesWith_none_iff _ _).2 ⟨r, hsub r hr, hn⟩
    rw [h] at this; cases this
  | some d' =>
    refine ⟨d', rfl, ?_⟩
    intro t ht
    obtain ⟨r, a, hr, ha, hta⟩ := (evalRulesWith_some_mem _ _ _ hc t).1 ht
    exact (evalRulesWith_some_mem _ _ _ h t).2 ⟨r, a, hsub r hr, ha, hta⟩

theorem override_leOn (lk : String → List Tuple) (h : String) (x X : List Tuple) (hx : Sub x X) (r : Rule)
    (hneg : ∀ a, a ∈ r.negAtoms → a.rel ≠ h) : LeOn r (override lk h x) (override lk h X) := by
  constructor
  · intro a _
    unfold override
    by_cases ha : a.rel = h
    · simp [ha]; exact hx
    · have : (a.rel == h) = false := by simpa using ha
      simp [this]; exact Sub.refl _
  · intro a ha
    unfold override
    have : (a.rel == h) = false := by simpa using hneg a ha
    simp [this]; exact MemEq.refl _

theorem override_agree_off (lk : String → List Tuple) (h : String) (x : List Tuple) (rels : List String) (hh : h ∉ rels) :
    AgreeOn rels (override lk h x) lk := by
  intro r hr
  unfold override
  have : (r == h) = false := by
    have : r ≠ h := fun e => hh (e ▸ hr)
    simpa using this
  simp [this]; exact MemEq.refl _

/-- the loop: an invariant that every step preserves holds of the result, and the result is a
    fix-point of the step. -/
theorem lfpLoop_inv (lk : String → List Tuple) (h : String) (base : List Tuple) (recs : List Rule) (P : List Tuple → Prop)
    (hstep : ∀ x d, P x → evalRulesM false (override lk h x) recs = some d → P (unionT base d)) :
    ∀ (fuel : Nat) (x y : List Tuple), P x → lfpLoop lk h base recs fuel x = some y →
      P y ∧ ∃ d, evalRulesM false (override lk h y) recs = some d ∧ MemEq (unionT base d) y
  | 0, _, _, _, hr => by simp [lfpLoop] at hr
  | fuel + 1, x, y, hp, hr => by
    unfold lfpLoop at hr
    cases hev : evalRulesM false (override lk h x) recs with
    | none => rw [hev] at hr; cases hr
    | some d =>
      rw [hev] at hr
      simp only at hr
      split at hr
      · rename_i hss
        cases hr
        exact ⟨hp, d, hev, sameSet_iff.1 hss⟩
      · exact lfpLoop_inv lk h base recs P hstep fuel _ y (hstep x d hp hev) hr

/-- **`lfpSelf` computes the least closed set.** `lk h = []`: the head has neither stored facts nor
    an earlier result. Negated atoms of the head's clauses do not mention the head (stratified). -/
theorem lfpSelf_least (p : Program) (hcf : ClauseFaithful p) (hagg : ∀ r, r ∈ p → r.hasAgg = false)
    (fuel : Nat) (lk : String → List Tuple) (h : String) (hempty : lk h = [])
    (hneg : ∀ r, r ∈ clausesOf p h → ∀ a, a ∈ r.negAtoms → a.rel ≠ h)
    (ts : List Tuple) (hev : lfpSelf fuel lk h (clausesOf p h) = some ts) :
    (∃ d, evalRules (override lk h ts) (clausesOf p h) = some d ∧ MemEq d ts) ∧
    ∀ X dX, evalRules (override lk h X) (clausesOf p h) = some dX → Sub dX X → Sub ts X := by
  have hcs : ∀ r, r ∈ clausesOf p h → r ∈ p := fun r hr => (List.mem_filter.1 hr).1
  unfold lfpSelf at hev
  have hnoagg : (clausesOf p h).any (fun r => r.scans.contains h && r.hasAgg) = false := by
    rw [Bool.eq_false_iff]
    intro hc
    obtain ⟨r, hr, hb⟩ := List.any_eq_true.1 hc
    simp only [Bool.and_eq_true] at hb
    rw [hagg r (hcs r hr)] at hb
    exact absurd hb.2 (by simp)
  simp only [hnoagg, Bool.false_eq_true, if_false] at hev
  -- name the pieces
  generalize hocc : ((clausesOf p h).flatMap (fun r => r.body.filterMap (fun l => l.atom?.map (·.rel)))).count h = occ at hev
  by_cases hsplit : occ < (clausesOf p h).length
  · -- base clauses / recursive clauses
    simp only [hsplit, decide_true, if_true] at hev
    let baseC := (clausesOf p h).filter (fun r => !r.scans.contains h)
    let recC := (clausesOf p h).filter (fun r => r.scans.contains h)
    have hbsub : ∀ r, r ∈ baseC → r ∈ clausesOf p h := fun r hr => (List.mem_filter.1 hr).1
    have hrsub : ∀ r, r ∈ recC → r ∈ clausesOf p h := fun r hr => (List.mem_filter.1 hr).1
    cases hb : evalRulesM false lk baseC with
    | none => simp only [baseC] at hb; rw [hb] at hev; cases hev
    | some b =>
      simp only [baseC] at hb
      rw [hb] at hev
      simp only at hev
      have hb' : evalRules lk baseC = some b := by
        rw [← evalRulesM_false_eq hcf lk baseC (fun r hr => hcs r (hbsub r hr))]; exact hb
      -- base clauses do not scan the head: their result does not depend on the iterate
      have hbase_any : ∀ x, OptMemEq (evalRules (override lk h x) baseC) (some b) := by
        intro x
        rw [← hb']
        unfold evalRules
        apply evalRulesWith_memEq
        intro r hr
        apply evalRuleLk_memEq r (hagg r (hcs r (hbsub r hr)))
        have hns : h ∉ r.scans := by
          have := (List.mem_filter.1 hr).2
          simp only [Bool.not_eq_true', ← Bool.not_eq_true] at this
          exact fun hc => this (List.contains_iff_mem.2 hc)
        exact override_agree_off lk h x r.scans hns
      -- every clause is a base clause or a recursive clause
      have hpart : ∀ r, r ∈ clausesOf p h → r ∈ baseC ∨ r ∈ recC := by
        intro r hr
        by_cases hc : r.scans.contains h = true
        · exact Or.inr (List.mem_filter.2 ⟨hr, hc⟩)
        · exact Or.inl (List.mem_filter.2 ⟨hr, by simpa using hc⟩)
      -- whole-head evaluation = base ∪ recursive part
      have hwhole : ∀ x d, evalRules (override lk h x) recC = some d →
          ∃ w, evalRules (override lk h x) (clausesOf p h) = some w ∧ MemEq w (unionT b d) := by
        intro x d hd
        have hbx := hbase_any x
        cases hbx' : evalRules (override lk h x) baseC with
        | none => rw [hbx'] at hbx; cases hbx
        | some bx =>
          rw [hbx'] at hbx
          cases hw : evalRules (override lk h x) (clausesOf p h) with
          | none =>
            unfold evalRules at hw hd hbx'
            obtain ⟨r, hr, hn⟩ := (evalRulesWith_none_iff _ _).1 hw
            rcases hpart r hr with hr' | hr'
            · have := (evalRulesWith_none_iff _ _).2 ⟨r, hr', hn⟩; rw [hbx'] at this; cases this
            · have := (evalRulesWith_none_iff _ _).2 ⟨r, hr', hn⟩; rw [hd] at this; cases this
          | some w =>
            refine ⟨w, rfl, ?_⟩
            unfold evalRules at hw hd hbx'
            intro t
            rw [mem_unionT, evalRulesWith_some_mem _ _ _ hw t]
            constructor
            · rintro ⟨r, a, hr, ha, hta⟩
              rcases hpart r hr with hr' | hr'
              · exact Or.inl ((hbx t).1 ((evalRulesWith_some_mem _ _ _ hbx' t).2 ⟨r, a, hr', ha, hta⟩))
              · exact Or.inr ((evalRulesWith_some_mem _ _ _ hd t).2 ⟨r, a, hr', ha, hta⟩)
            · rintro (ht | ht)
              · obtain ⟨r, a, hr, ha, hta⟩ := (evalRulesWith_some_mem _ _ _ hbx' t).1 ((hbx t).2 ht)
                exact ⟨r, a, hbsub r hr, ha, hta⟩
              · obtain ⟨r, a, hr, ha, hta⟩ := (evalRulesWith_some_mem _ _ _ hd t).1 ht
                exact ⟨r, a, hrsub r hr, ha, hta⟩
      constructor
      · -- closed / supported
        obtain ⟨_, d, hd, hm⟩ := lfpLoop_inv lk h b recC (fun _ => True) (fun _ _ _ _ => trivial) fuel [] ts trivial hev
        rw [evalRulesM_false_eq hcf _ recC (fun r hr => hcs r (hrsub r hr))] at hd
        obtain ⟨w, hw, hwm⟩ := hwhole ts d hd
        exact ⟨w, hw, hwm.trans hm⟩
      · -- least
        intro X dX hX hXs
        have hstep : ∀ x d, Sub x X → evalRulesM false (override lk h x) recC = some d → Sub (unionT b d) X := by
          intro x d hx hd
          rw [evalRulesM_false_eq hcf _ recC (fun r hr => hcs r (hrsub r hr))] at hd
          intro t ht
          rcases mem_unionT.1 ht with ht | ht
          · obtain ⟨bX, hbX, hsubX⟩ := evalRules_sublist _ _ baseC hbsub dX hX
            have := hbase_any X
            rw [hbX] at this
            exact hXs t (hsubX t ((this t).2 ht))
          · obtain ⟨dR, hdR, hsubR⟩ := evalRules_sublist _ _ recC hrsub dX hX
            have hmono := evalRules_sub recC (fun r hr => hagg r (hcs r (hrsub r hr)))
              (fun r hr => override_leOn lk h x X hx r (hneg r (hrsub r hr))) d dR hd hdR
            exact hXs t (hsubR t (hmono t ht))
        exact (lfpLoop_inv lk h b recC (fun x => Sub x X) hstep fuel [] ts (fun t ht => by cases ht) hev).1
  · -- every clause counted as recursive: stored facts of the head (none) are the base
    simp only [hsplit, decide_false, Bool.false_eq_true, if_false, hempty, dedupT] at hev
    constructor
    · obtain ⟨_, d, hd, hm⟩ := lfpLoop_inv lk h [] (clausesOf p h) (fun _ => True) (fun _ _ _ _ => trivial) fuel [] ts trivial hev
      rw [evalRulesM_false_eq hcf _ _ hcs] at hd
      refine ⟨d, hd, ?_⟩
      intro t; rw [← hm t, mem_unionT]; simp
    · intro X dX hX hXs
      have hstep : ∀ x d, Sub x X → evalRulesM false (override lk h x) (clausesOf p h) = some d → Sub (unionT [] d) X := by
        intro x d hx hd
        rw [evalRulesM_false_eq hcf _ _ hcs] at hd
        have hmono := evalRules_sub (clausesOf p h) (fun r hr => hagg r (hcs r hr))
          (fun r hr => override_leOn lk h x X hx r (hneg r hr)) d dX hd hX
        intro t ht
        rcases mem_unionT.1 ht with ht | ht
        · cases ht
        · exact hXs t (hmono t ht)
      exact (lfpLoop_inv lk h [] (clausesOf p h) (fun x => Sub x X) hstep fuel [] ts (fun t ht => by cases ht) hev).1

/-! ### the run -/

/-- like `depOrdered`, but a head may scan itself. -/
def depOrderedS (p : Program) : List String → List String → Bool
  | [], _ => true
  | h :: rest, seen =>
    (scansOf p h).all (fun r => !(heads p).contains r || seen.contains r || r == h) &&
    !seen.contains h && depOrderedS p rest (h :: seen)

theorem depOrderedS_not_seen (p : Program) : ∀ (order seen : List String), depOrderedS p order seen = true →
    ∀ g, g ∈ order → g ∉ seen
  | [], _, _, g, hg => by cases hg
  | h :: rest, seen, hd, g, hg => by
    simp only [depOrderedS, Bool.and_eq_true, Bool.not_eq_true'] at hd
    obtain ⟨⟨_, hns⟩, hrest⟩ := hd
    rcases List.mem_cons.1 hg with rfl | hg
    · intro hc; rw [List.contains_iff_mem.2 hc] at hns; cases hns
    · intro hc
      exact depOrderedS_not_seen p rest (h :: seen) hrest g hg (List.mem_cons_of_mem _ hc)

/-- a scanned relation of an executed head is the head itself or not a later head. -/
theorem scansS_not_later (p : Program) (h : String) (rest seen : List String)
    (hd : depOrderedS p (h :: rest) seen = true) (hheads : ∀ g, g ∈ h :: rest → g ∈ heads p)
    (r : String) (hr : r ∈ scansOf p h) (hne : r ≠ h) : r ∉ rest := by
  have hd' := hd
  simp only [depOrderedS, Bool.and_eq_true, Bool.not_eq_true', List.all_eq_true, Bool.or_eq_true, beq_iff_eq] at hd
  obtain ⟨⟨hsc, _⟩, _⟩ := hd
  intro hmem
  have hrh : r ∈ heads p := hheads r (List.mem_cons_of_mem _ hmem)
  rcases hsc r hr with (hnh | hseen) | heq
  · rw [List.contains_iff_mem.2 hrh] at hnh; cases hnh
  · exact depOrderedS_not_seen p (h :: rest) seen hd' r (List.mem_cons_of_mem _ hmem) (List.contains_iff_mem.1 hseen)
  · exact hne heq

/-- from facts about `G X = override lk h X` to `LeastFor` of any `F` that agrees with `G` on the
    relations `h` scans. -/
theorem leastFor_of (p : Program) (hagg : ∀ r, r ∈ p → r.hasAgg = false) (F : String → List Tuple) (h : String)
    (lk : String → List Tuple) (ts : List Tuple) (hF : F h = ts)
    (hagree : ∀ X, AgreeOn (scansOf p h) (override F h X) (override lk h X))
    (ha : ∃ d, evalRules (override lk h ts) (clausesOf p h) = some d ∧ MemEq d ts)
    (hb : ∀ X dX, evalRules (override lk h X) (clausesOf p h) = some dX → Sub dX X → Sub ts X) : LeastFor p F h := by
  constructor
  · obtain ⟨d, hd, hm⟩ := ha
    have hag : AgreeOn (scansOf p h) F (override lk h ts) := by
      intro r hr
      have := hagree ts r hr
      unfold override at this ⊢
      by_cases hrh : r = h
      · subst hrh; simp [hF]; exact MemEq.refl _
      · have hb' : (r == h) = false := by simpa using hrh
        simpa [hb'] using this
    have := evalRules_memEq (p := p) (h := h) hagg hag
    rw [hd] at this
    cases he : evalRules F (clausesOf p h) with
    | none => rw [he] at this; cases this
    | some d' =>
      rw [he] at this
      refine ⟨d', rfl, ?_⟩
      rw [hF]
      have this' : MemEq d' d := this
      exact (MemEq.trans this' hm).sub
  · intro X dX hX hXs
    have := evalRules_memEq (p := p) (h := h) hagg (hagree X)
    rw [hX] at this
    cases he : evalRules (override lk h X) (clausesOf p h) with
    | none => rw [he] at this; cases this
    | some d' =>
      rw [he] at this
      rw [hF]
      exact hb X d' he (fun t ht => hXs t ((this t).2 ht))

theorem evalHead_allOff' (hash : Tuple → Nat) (fuel : Nat) (p : Program) (lk : String → List Tuple) (h : String) :
    evalHead allOff hash fuel p lk h =
      if selfRec p h then lfpSelf fuel lk h (clausesOf p h) else evalRulesM true lk (clausesOf p h) := by
  unfold evalHead
  by_cases hs : selfRec p h = true
  · simp [hs]
  · simp [hs, allOff]

/-- **Every executed head of a program whose only cycles are self-loops ends up as the least set
    closed under its clauses over the final database.** -/
theorem execLoop_least (hash : Tuple → Nat) (ord : String → List Tuple → List Tuple) (fuel : Nat)
    (p : Program) (edb : DB) (hcf : ClauseFaithful p) (hagg : ∀ r, r ∈ p → r.hasAgg = false)
    (hno : ∀ h, h ∈ heads p → edb.get h = [])
    (hnegself : ∀ r, r ∈ p → ∀ a, a ∈ r.negAtoms → a.rel ≠ r.hrel) :
    ∀ (order seen : List String) (acc : DB) (last A : List Tuple) (acc' : DB),
      depOrderedS p order seen = true → (∀ g, g ∈ order → g ∈ heads p) →
      (∀ r, r ∉ seen → acc.lookup r = none) →
      execLoop allOff hash ord fuel p edb order acc last = .ok A acc' →
      (∀ r, r ∉ order → acc'.lookup r = acc.lookup r) ∧
      (∀ g, g ∈ order → LeastFor p (lkOf edb acc') g) ∧
      (∀ g, order.getLast? = some g → acc'.lookup g = some A)
  | [], seen, acc, last, A, acc', _, _, _, hrun => by
    simp only [execLoop, Outcome.ok.injEq] at hrun
    obtain ⟨rfl, rfl⟩ := hrun
    exact ⟨fun _ _ => rfl, fun g hg => absurd hg List.not_mem_nil, fun g hg => by cases hg⟩
  | h :: rest, seen, acc, last, A, acc', hd, hheads, hkeys, hrun => by
    have hd' := hd
    simp only [depOrderedS, Bool.and_eq_true, Bool.not_eq_true'] at hd'
    obtain ⟨⟨_, hnseen⟩, hdrest⟩ := hd'
    have hhseen : h ∉ seen := fun hc => by rw [List.contains_iff_mem.2 hc] at hnseen; cases hnseen
    have hhead : h ∈ heads p := hheads h (List.mem_cons_self ..)
    have hcs : ∀ r, r ∈ clausesOf p h → r ∈ p := fun r hr => (List.mem_filter.1 hr).1
    unfold execLoop at hrun
    cases hev : evalHead allOff hash fuel p (lkOf edb acc) h with
    | none => rw [hev] at hrun; simp at hrun
    | some ts =>
      rw [hev] at hrun
      simp only [limited_allOff, Bool.and_false, Bool.false_eq_true, if_false] at hrun
      obtain ⟨hframe, hleast, hlast⟩ := execLoop_least hash ord fuel p edb hcf hagg hno hnegself rest (h :: seen) ((h, ts) :: acc) ts A acc'
        hdrest (fun g hg => hheads g (List.mem_cons_of_mem _ hg))
        (fun r hr => by
          have hrh : r ≠ h := fun e => hr (e ▸ List.mem_cons_self ..)
          rw [lookup_cons_ne r h ts acc hrh]
          exact hkeys r (fun hc => hr (List.mem_cons_of_mem _ hc))) hrun
      have hnotrest : h ∉ rest := by
        intro hc
        exact depOrderedS_not_seen p rest (h :: seen) hdrest h hc (List.mem_cons_self ..)
      have hlookh : acc'.lookup h = some ts := by
        rw [hframe h hnotrest]; exact lookup_cons_self h ts acc
      have hFh : lkOf edb acc' h = ts := lkOf_of_lookup edb acc' h ts hlookh
      refine ⟨?_, ?_, ?_⟩
      · intro r hr
        have hrne : r ≠ h := fun e => hr (e ▸ List.mem_cons_self ..)
        have hrr : r ∉ rest := fun e => hr (List.mem_cons_of_mem _ e)
        rw [hframe r hrr]
        exact lookup_cons_ne r h ts acc hrne
      · intro g hg
        rcases List.mem_cons.1 hg with rfl | hg
        · -- the head just executed
          have hagree : ∀ X, AgreeOn (scansOf p g) (override (lkOf edb acc') g X) (override (lkOf edb acc) g X) := by
            intro X r hr
            unfold override
            by_cases hrg : r = g
            · have : (r == g) = true := by simpa using hrg
              simp [this]; exact MemEq.refl _
            · have hb' : (r == g) = false := by simpa using hrg
              simp only [hb', Bool.false_eq_true, if_false]
              have hrr := scansS_not_later p g rest seen hd hheads r hr hrg
              have : acc'.lookup r = acc.lookup r := by
                rw [hframe r hrr]; exact lookup_cons_ne r g ts acc hrg
              rw [lkOf_congr edb acc acc' r this]
              exact MemEq.refl _
          rw [evalHead_allOff'] at hev
          by_cases hs : selfRec p g = true
          · simp only [hs, if_true] at hev
            have hempty : lkOf edb acc g = [] := by
              unfold lkOf; rw [hkeys g hhseen]; exact hno g hhead
            obtain ⟨ha, hb⟩ := lfpSelf_least p hcf hagg fuel (lkOf edb acc) g hempty
              (fun r hr a ha => by
                have := hnegself r (hcs r hr) a ha
                have hrel : r.hrel = g := by simpa using (List.mem_filter.1 hr).2
                rwa [hrel] at this) ts hev
            exact leastFor_of p hagg _ g (lkOf edb acc) ts hFh hagree ha hb
          · simp only [hs, Bool.false_eq_true, if_false] at hev
            rw [evalRulesM_eq hcf] at hev
            have hns : g ∉ scansOf p g := by
              intro hc; exact hs (by unfold selfRec; exact List.contains_iff_mem.2 hc)
            have hoff : ∀ X, OptMemEq (evalRules (override (lkOf edb acc) g X) (clausesOf p g)) (some ts) := by
              intro X
              rw [← hev]
              exact evalRules_memEq (p := p) (h := g) hagg (override_agree_off _ g X _ hns)
            refine leastFor_of p hagg _ g (lkOf edb acc) ts hFh hagree ?_ ?_
            · have := hoff ts
              cases he : evalRules (override (lkOf edb acc) g ts) (clausesOf p g) with
              | none => rw [he] at this; cases this
              | some d => rw [he] at this; exact ⟨d, rfl, this⟩
            · intro X dX hX hXs
              have := hoff X
              rw [hX] at this
              exact fun t ht => hXs t ((this t).2 ht)
        · exact hleast g hg
      · intro g hg
        cases rest with
        | nil =>
          simp only [List.getLast?_singleton, Option.some.injEq] at hg
          subst hg
          simp only [execLoop, Outcome.ok.injEq] at hrun
          obtain ⟨rfl, rfl⟩ := hrun
          exact lookup_cons_self _ _ _
        | cons g' rest' =>
          apply hlast g
          simpa [List.getLast?_cons_cons] using hg

end ILV.Engine
