/-
  C21_partial, main induction: every function of the chainer model preserves the builder invariant
  and only produces states / nodes that are locally valid.
-/
import ILV.Lemmas.ProvInv
import ILV.Lemmas.Prov
namespace ILV.Prov
open ILV

structure Hyp (ctx : Ctx) (M : DB) : Prop where
  der : ctx.derived = some M
  goodBase : GoodDB ctx.base
  goodM : GoodDB M
  derOnly : ∀ rel, ctx.isDerived rel = false → M.get rel = []

structure RuleHyp (ctx : Ctx) (M : DB) (r : Rule) : Prop where
  sup : r.supported = true
  headNoWild : r.head.args.all (fun a => a != .wild) = true
  safe : safeNegAux r.body (varsOf r.head.args) = true
  arity : ∀ a, Lit.pos a ∈ r.body → ∀ r' ∈ ctx.rules, r'.head.rel = a.rel → r'.head.args.length = a.args.length
  plain : ∀ x ∈ varsOf r.terms, isPlaceholderName x = false
  goodTerms : ∀ t ∈ r.terms, GoodTerm t

def Concl (b : Builder) (id : Nat) (rel : String) (t : Tuple) : Prop :=
  ∃ n, b.nodes[id]? = some n ∧ n.pred = rel ∧ n.args = t ∧ n.kind.isNeg = false

theorem Concl_mono {b b' : Builder} (h : Pre b b') {id rel t} (hc : Concl b id rel t) : Concl b' id rel t := by
  obtain ⟨n, h1, h2⟩ := hc
  exact ⟨n, prefix_getElem? h id n h1, h2⟩

def BnSpec (ctx : Ctx) (M : DB) (bn : BuildFn) : Prop :=
  ∀ rel t b vis, BInv ctx.rules ctx.base M b → GoodT t →
    BInv ctx.rules ctx.base M (bn rel t b vis).2 ∧ Pre b (bn rel t b vis).2 ∧
    ∀ id ∈ (bn rel t b vis).1, Concl (bn rel t b vis).2 id rel t

def EnSpec (ctx : Ctx) (en : EnumFn) : Prop :=
  ∀ rel bts vis, GoodBts bts → ∀ p ∈ en rel bts vis,
    GoodT p.1 ∧ (∃ r ∈ ctx.rules, r.head.rel = rel ∧ p.1.length = r.head.args.length) ∧
    enumMatchesPattern bts p.1 = true ∧ enumNewBinds bts p.1 [] = some p.2

/-- a state after the prefix `pre` of the body of `r` (explaining `tuple`), in builder `b`;
    `bound` = the variables known to be bound. -/
structure StOK (ctx : Ctx) (M : DB) (r : Rule) (tuple : Tuple) (b : Builder) (pre : List Lit) (bound : List String)
    (st : State) : Prop where
  good : GoodB st.1
  head : headMatches st.1 r.head.args tuple = true
  cmps : cmpsHold st.1 pre = true
  kids : KidsOK ctx.base M b.nodes st.1 (pre.filter Lit.needsChild) st.2
  bnd : ∀ x ∈ bound, (st.1.lookup x).isSome = true
  keys : ∀ q ∈ st.1, q.1 ∈ varsOf r.terms

theorem StOK_mono {ctx M r tuple b b' pre bound st} (h : Pre b b') (hs : StOK ctx M r tuple b pre bound st) :
    StOK ctx M r tuple b' pre bound st :=
  { hs with kids := KidsOK_mono ctx.base M _ _ h _ _ _ hs.kids }

theorem cmpsHold_append (β : Bindings) : ∀ (pre : List Lit) (l : Lit),
    cmpsHold β (pre ++ [l]) = (cmpsHold β pre && cmpsHold β [l])
  | [], l => by simp [cmpsHold]
  | .pos _ :: pre, l => by simp only [List.cons_append, cmpsHold]; exact cmpsHold_append β pre l
  | .neg _ :: pre, l => by simp only [List.cons_append, cmpsHold]; exact cmpsHold_append β pre l
  | .other :: pre, l => by simp only [List.cons_append, cmpsHold]; exact cmpsHold_append β pre l
  | .cmp x op y :: pre, l => by
    simp only [List.cons_append, cmpsHold, cmpsHold_append β pre l, Bool.and_assoc]

theorem argsMatch_bound (β : Bindings) : ∀ (args : List Term) (t : Tuple), argsMatch β args t = true →
    ∀ x ∈ varsOf args, (β.lookup x).isSome = true
  | [], [], _, x, hx => by simp [varsOf] at hx
  | [], _ :: _, h, _, _ => by simp [argsMatch] at h
  | _ :: _, [], h, _, _ => by simp [argsMatch] at h
  | a :: as, v :: vs, h, x, hx => by
    simp only [argsMatch, Bool.and_eq_true] at h
    cases a with
    | var y =>
      simp only [varsOf, List.filterMap_cons, List.mem_cons] at hx
      rcases hx with rfl | hx
      · have := h.1
        simp only [argMatches] at this
        cases hl : β.lookup x with
        | none => simp [hl] at this
        | some e => rfl
      · exact argsMatch_bound β as vs h.2 x hx
    | _ => exact argsMatch_bound β as vs h.2 x (by simpa only [varsOf, List.filterMap_cons] using hx)

/-- what we need to know about a candidate match `(t, nb)` of a positive atom under `β`. -/
def CandOK (β : Bindings) (a : Atom) (p : Tuple × Bindings) : Prop :=
  GoodT p.1 ∧ Fresh p.2 β ∧ GoodB p.2 ∧ argsMatch (p.2 ++ β) a.args p.1 = true ∧ ∀ q ∈ p.2, q.1 ∈ varsOf a.args

theorem findMatching_cands (β : Bindings) (a : Atom) (db : DB) (hdb : GoodDB db)
    (hs : ∀ x ∈ a.args, x ≠ Term.other) :
    ∀ p ∈ findMatching a.rel (substituteAtom a β) db, CandOK β a p := by
  intro p hp
  unfold findMatching at hp
  rw [List.mem_filterMap] at hp
  obtain ⟨t, ht, he⟩ := hp
  cases hm : matchTuple (substituteAtom a β) t with
  | none => simp [hm] at he
  | some nb =>
    simp only [hm, Option.map_some, Option.some.injEq] at he
    subst he
    have hg := hdb a.rel t ht
    obtain ⟨e1, e2, e3⟩ := matchTuple_sound β a t nb hs hg hm
    refine ⟨hg, e1, e2, e3, ?_⟩
    intro q hq
    unfold matchTuple substituteAtom at hm
    split at hm
    · cases hm
    · rcases matchArgs_keys β a.args t [] nb hm q hq with h | h
      · simp at h
      · exact h

theorem GoodBts_substitute (β : Bindings) (a : Atom) (hb : GoodB β) (ha : ∀ t ∈ a.args, GoodTerm t) :
    GoodBts (substituteAtom a β) := by
  intro v hv
  unfold substituteAtom at hv
  rw [List.mem_map] at hv
  obtain ⟨t, ht, he⟩ := hv
  cases t with
  | var x =>
    simp only [resolveTerm] at he
    cases hx : β.lookup x with
    | none => simp [hx] at he
    | some e => simp only [hx, BT.conc.injEq] at he; subst he; exact GoodB_lookup β hb x e hx
  | wild => simp [resolveTerm] at he
  | other => simp [resolveTerm, termToValue] at he
  | int n =>
    cases hc : termToValue (Term.int n) with
    | none => simp [resolveTerm, hc] at he
    | some e => simp only [resolveTerm, hc, BT.conc.injEq] at he; subst he; exact ha _ ht e hc
  | str n =>
    cases hc : termToValue (Term.str n) with
    | none => simp [resolveTerm, hc] at he
    | some e => simp only [resolveTerm, hc, BT.conc.injEq] at he; subst he; exact ha _ ht e hc
  | bool n =>
    cases hc : termToValue (Term.bool n) with
    | none => simp [resolveTerm, hc] at he
    | some e => simp only [resolveTerm, hc, BT.conc.injEq] at he; subst he; exact ha _ ht e hc
  | flt n =>
    cases hc : termToValue (Term.flt n) with
    | none => simp [resolveTerm, hc] at he
    | some e => simp only [resolveTerm, hc, BT.conc.injEq] at he; subst he; exact ha _ ht e hc

/-- all candidates of a positive atom are sound matches. -/
theorem posMatches_cands (ctx : Ctx) (M : DB) (hy : Hyp ctx M) (en : EnumFn) (hen : EnSpec ctx en) (vis : Visited)
    (β : Bindings) (a : Atom) (hb : GoodB β)
    (hs : ∀ x ∈ a.args, x ≠ Term.other) (hgt : ∀ t ∈ a.args, GoodTerm t)
    (har : ∀ r' ∈ ctx.rules, r'.head.rel = a.rel → r'.head.args.length = a.args.length) :
    ∀ p ∈ posMatches ctx en vis a β, CandOK β a p := by
  intro p hp
  unfold posMatches at hp
  simp only [hy.der] at hp
  have hbase := findMatching_cands β a ctx.base hy.goodBase hs
  have hder := findMatching_cands β a M hy.goodM hs
  have henum : ctx.isDerived a.rel = true → ∀ q ∈ en a.rel (substituteAtom a β) vis, CandOK β a q := by
    intro hd q hq
    obtain ⟨g1, ⟨r', hr', hrel, hlen⟩, g3, g4⟩ := hen a.rel (substituteAtom a β) vis (GoodBts_substitute β a hb hgt) q hq
    have hl : q.1.length = a.args.length := by rw [hlen]; exact har r' hr' hrel
    unfold substituteAtom at g3 g4
    obtain ⟨_, e2, e3, e4⟩ := enum_sound β a.args q.1 [] q.2 hl hs g1 (fun x hx => by simp at hx) g3 g4
    refine ⟨g1, e2, e3 (fun p hp => by simp at hp), e4 _ (Ext.refl _) e2, ?_⟩
    intro q' hq'
    rcases enumNewBinds_keys β a.args q.1 [] q.2 g4 q' hq' with h | h
    · simp at h
    · exact h
  split at hp
  · rename_i h1
    simp only [Bool.and_eq_true] at h1
    split at hp
    · exact henum h1.2 p hp
    · exact hder p hp
  · exact hbase p hp

theorem filter_append_needs (pre : List Lit) (l : Lit) (h : l.needsChild = true) :
    (pre ++ [l]).filter Lit.needsChild = pre.filter Lit.needsChild ++ [l] := by
  simp [List.filter_append, h]

theorem filter_append_noneed (pre : List Lit) (l : Lit) (h : l.needsChild = false) :
    (pre ++ [l]).filter Lit.needsChild = pre.filter Lit.needsChild := by
  simp [List.filter_append, h]

/-- the loop over candidate matches of a positive atom. -/
theorem stepMatches_ok (ctx : Ctx) (M : DB) (bn : BuildFn) (hbn : BnSpec ctx M bn) (r : Rule) (tuple : Tuple)
    (vis : Visited) (a : Atom) (pre : List Lit) (bound : List String) (β : Bindings) (kids : List Nat) :
    ∀ (ms : List (Tuple × Bindings)) (b : Builder), BInv ctx.rules ctx.base M b →
      StOK ctx M r tuple b pre bound (β, kids) → (∀ p ∈ ms, CandOK β a p) → (∀ x ∈ varsOf a.args, x ∈ varsOf r.terms) →
      BInv ctx.rules ctx.base M (stepMatches bn a.rel vis β kids ms b).2 ∧
      Pre b (stepMatches bn a.rel vis β kids ms b).2 ∧
      ∀ st ∈ (stepMatches bn a.rel vis β kids ms b).1,
        StOK ctx M r tuple (stepMatches bn a.rel vis β kids ms b).2 (pre ++ [.pos a]) (varsOf a.args ++ bound) st
  | [], b, hb, _, _, _ => by
    simp only [stepMatches]
    exact ⟨hb, Pre.refl b, fun st hst => by simp at hst⟩
  | (t, nb) :: ms, b, hb, hst, hc, hv => by
    obtain ⟨cg, cf, cb, cm, ck⟩ := hc (t, nb) List.mem_cons_self
    obtain ⟨b1, p1, c1⟩ := hbn a.rel t b vis hb cg
    obtain ⟨b2, p2, s2⟩ := stepMatches_ok ctx M bn hbn r tuple vis a pre bound β kids ms (bn a.rel t b vis).2 b1
      (StOK_mono p1 hst) (fun p hp => hc p (List.mem_cons_of_mem _ hp)) hv
    simp only [stepMatches]
    cases hids : (bn a.rel t b vis).1 with
    | nil => exact ⟨b2, Pre.trans p1 p2, s2⟩
    | cons id _ =>
      refine ⟨b2, Pre.trans p1 p2, ?_⟩
      intro st hmem
      simp only [List.mem_cons] at hmem
      rcases hmem with rfl | hmem
      · have hE : Ext β (nb ++ β) := Ext_append_fresh nb β cf
        have hcl : Concl (stepMatches bn a.rel vis β kids ms (bn a.rel t b vis).2).2 id a.rel t :=
          Concl_mono p2 (c1 id (by rw [hids]; exact List.mem_cons_self))
        obtain ⟨kn, k1, k2, k3, k4⟩ := hcl
        refine ⟨GoodB_append nb β cb hst.good, headMatches_ext β _ hE _ _ hst.head, ?_, ?_, ?_, ?_⟩
        · rw [cmpsHold_append]
          simp only [cmpsHold, Bool.and_true]
          exact cmpsHold_ext β _ hE pre hst.cmps
        · rw [filter_append_needs pre (.pos a) rfl]
          apply KidsOK_append
          · exact KidsOK_ext ctx.base M _ β _ hE _ _ (KidsOK_mono ctx.base M _ _ (Pre.trans p1 p2) _ _ _ hst.kids)
          · simp only [KidsOK, and_true]
            exact ⟨kn, k1, k2, by rw [k3]; exact cm, k4⟩
        · intro x hx
          rcases List.mem_append.mp hx with hx | hx
          · exact argsMatch_bound _ a.args t cm x hx
          · have := hst.bnd x hx
            cases hl : β.lookup x with
            | none => simp [hl] at this
            | some e => simp [hE x e hl]
        · intro q hq
          rcases List.mem_append.mp hq with hq | hq
          · exact hv _ (ck q hq)
          · exact hst.keys q hq
      · exact s2 st hmem

def boundAfter (l : Lit) (bound : List String) : List String :=
  match l with
  | .pos a => varsOf a.args ++ bound
  | _ => bound

theorem supported_pos (r : Rule) (h : r.supported = true) (a : Atom) (ha : Lit.pos a ∈ r.body) :
    ∀ x ∈ a.args, x ≠ Term.other := by
  simp only [Rule.supported, Bool.and_eq_true, List.all_eq_true] at h
  have := h.2 _ ha
  simp only [Lit.supported, Atom.supported, List.all_eq_true] at this
  intro x hx he
  subst he
  simpa [Term.supported] using this _ hx

theorem mem_terms_pos (r : Rule) (a : Atom) (ha : Lit.pos a ∈ r.body) : ∀ t ∈ a.args, t ∈ r.terms := by
  intro t ht
  simp only [Rule.terms, List.mem_append, List.mem_flatMap]
  exact Or.inr ⟨_, ha, ht⟩

theorem mem_terms_neg (r : Rule) (a : Atom) (ha : Lit.neg a ∈ r.body) : ∀ t ∈ a.args, t ∈ r.terms := by
  intro t ht
  simp only [Rule.terms, List.mem_append, List.mem_flatMap]
  exact Or.inr ⟨_, ha, ht⟩

theorem mem_varsOf (args : List Term) (x : String) : x ∈ varsOf args ↔ Term.var x ∈ args := by
  unfold varsOf
  rw [List.mem_filterMap]
  constructor
  · rintro ⟨t, ht, he⟩
    cases t <;> simp at he
    subst he; exact ht
  · intro h; exact ⟨_, h, rfl⟩

/-- one body literal applied to one state. -/
theorem stepState_ok (ctx : Ctx) (M : DB) (hy : Hyp ctx M) (bn : BuildFn) (en : EnumFn)
    (hbn : BnSpec ctx M bn) (hen : EnSpec ctx en) (r : Rule) (tuple : Tuple) (hr : RuleHyp ctx M r)
    (vis : Visited) (pre : List Lit) (l : Lit) (hl : l ∈ r.body) (bound : List String)
    (hsafe : ∀ a, l = .neg a → ∀ x ∈ varsOf a.args, x ∈ bound)
    (st : State) (b : Builder) (hb : BInv ctx.rules ctx.base M b) (hst : StOK ctx M r tuple b pre bound st) :
    BInv ctx.rules ctx.base M (stepState ctx bn en vis l st b).2 ∧
    Pre b (stepState ctx bn en vis l st b).2 ∧
    ∀ st' ∈ (stepState ctx bn en vis l st b).1,
      StOK ctx M r tuple (stepState ctx bn en vis l st b).2 (pre ++ [l]) (boundAfter l bound) st' := by
  obtain ⟨β, kids⟩ := st
  cases l with
  | pos a =>
    simp only [stepState, boundAfter]
    have hs := supported_pos r hr.sup a hl
    have hgt : ∀ t ∈ a.args, GoodTerm t := fun t ht => hr.goodTerms t (mem_terms_pos r a hl t ht)
    exact stepMatches_ok ctx M bn hbn r tuple vis a pre bound β kids _ b hb hst
      (posMatches_cands ctx M hy en hen vis β a hst.good hs hgt (hr.arity a hl))
      (fun x hx => (mem_varsOf r.terms x).mpr (mem_terms_pos r a hl _ ((mem_varsOf a.args x).mp hx)))
  | neg a =>
    simp only [stepState, boundAfter]
    split
    · rename_i hemp
      have hclosed : AtomClosed β a := by
        intro x hx
        exact hst.bnd x (hsafe a rfl x ((mem_varsOf a.args x).mpr hx))
      have hnode : NodeOK ctx.rules ctx.base M b.nodes b.nodes.length
          { kind := .neg (substituteAtom a β), pred := a.rel, args := concPart (substituteAtom a β) } := by
        unfold NodeOK; simp
      obtain ⟨b1, p1, g1⟩ := BInv_insertUnique ctx.rules ctx.base M b _ hb hnode
      refine ⟨b1, p1, ?_⟩
      intro st' hmem
      simp only [List.mem_singleton] at hmem
      subst hmem
      refine ⟨hst.good, hst.head, ?_, ?_, hst.bnd, hst.keys⟩
      · rw [cmpsHold_append]; simp only [cmpsHold, Bool.and_true]; exact hst.cmps
      · rw [filter_append_needs pre (.neg a) rfl]
        apply KidsOK_append
        · exact KidsOK_mono ctx.base M _ _ p1 _ _ _ hst.kids
        · simp only [KidsOK, and_true]
          refine ⟨_, g1, rfl, rfl, rfl, hclosed, ?_⟩
          rw [List.all_eq_true]
          intro t ht
          have hB := findMatching_isEmpty a.rel (substituteAtom a β) ctx.base
          have hM := findMatching_isEmpty a.rel (substituteAtom a β) M
          simp only [negMatches, hy.der] at hemp
          have hboth : (findMatching a.rel (substituteAtom a β) ctx.base).isEmpty = true ∧
              (findMatching a.rel (substituteAtom a β) M).isEmpty = true := by
            split at hemp
            · rename_i h1; exact ⟨h1, hemp⟩
            · rename_i h1; exact absurd hemp h1
          rw [hboth.1] at hB
          rw [hboth.2] at hM
          simp only [Bool.true_eq, Bool.not_eq_true'] at hB hM
          rcases List.mem_append.mp ht with h' | h'
          · have := (List.any_eq_false.mp hB) t h'; simpa [negBlockedBy] using this
          · have := (List.any_eq_false.mp hM) t h'; simpa [negBlockedBy] using this
    · exact ⟨hb, Pre.refl b, fun st' h => by simp at h⟩
  | cmp x op y =>
    simp only [stepState, boundAfter]
    split
    · rename_i hc
      refine ⟨hb, Pre.refl b, ?_⟩
      intro st' hmem
      simp only [List.mem_singleton] at hmem
      subst hmem
      refine ⟨hst.good, hst.head, ?_, ?_, hst.bnd, hst.keys⟩
      · rw [cmpsHold_append]; simp only [cmpsHold, Bool.and_true, Bool.and_eq_true, beq_iff_eq]; exact ⟨hst.cmps, hc⟩
      · rw [filter_append_noneed pre (.cmp x op y) rfl]; exact hst.kids
    · exact ⟨hb, Pre.refl b, fun st' h => by simp at h⟩
  | other =>
    simp only [stepState]
    exact ⟨hb, Pre.refl b, fun st' h => by simp at h⟩

theorem stepStates_ok (ctx : Ctx) (M : DB) (hy : Hyp ctx M) (bn : BuildFn) (en : EnumFn)
    (hbn : BnSpec ctx M bn) (hen : EnSpec ctx en) (r : Rule) (tuple : Tuple) (hr : RuleHyp ctx M r)
    (vis : Visited) (pre : List Lit) (l : Lit) (hl : l ∈ r.body) (bound : List String)
    (hsafe : ∀ a, l = .neg a → ∀ x ∈ varsOf a.args, x ∈ bound) :
    ∀ (sts : List State) (b : Builder), BInv ctx.rules ctx.base M b →
      (∀ st ∈ sts, StOK ctx M r tuple b pre bound st) →
      BInv ctx.rules ctx.base M (stepStates ctx bn en vis l sts b).2 ∧
      Pre b (stepStates ctx bn en vis l sts b).2 ∧
      ∀ st' ∈ (stepStates ctx bn en vis l sts b).1,
        StOK ctx M r tuple (stepStates ctx bn en vis l sts b).2 (pre ++ [l]) (boundAfter l bound) st'
  | [], b, hb, _ => by
    simp only [stepStates]
    exact ⟨hb, Pre.refl b, fun st h => by simp at h⟩
  | st :: sts, b, hb, hs => by
    obtain ⟨b1, p1, s1⟩ := stepState_ok ctx M hy bn en hbn hen r tuple hr vis pre l hl bound hsafe st b hb
      (hs st List.mem_cons_self)
    obtain ⟨b2, p2, s2⟩ := stepStates_ok ctx M hy bn en hbn hen r tuple hr vis pre l hl bound hsafe sts
      (stepState ctx bn en vis l st b).2 b1 (fun st' h' => StOK_mono p1 (hs st' (List.mem_cons_of_mem _ h')))
    simp only [stepStates]
    refine ⟨b2, Pre.trans p1 p2, ?_⟩
    intro st' hmem
    rcases List.mem_append.mp hmem with h | h
    · exact StOK_mono p2 (s1 st' h)
    · exact s2 st' h

theorem StOK_weaken {ctx M r tuple b pre bound st} (h : StOK ctx M r tuple b pre bound st) :
    StOK ctx M r tuple b pre [] st :=
  { h with bnd := fun x hx => by simp at hx }

/-- `prove_body` on the suffix `ls` of the body of `r`. -/
theorem proveBody_ok (ctx : Ctx) (M : DB) (hy : Hyp ctx M) (bn : BuildFn) (en : EnumFn)
    (hbn : BnSpec ctx M bn) (hen : EnSpec ctx en) (r : Rule) (tuple : Tuple) (hr : RuleHyp ctx M r) (vis : Visited) :
    ∀ (ls pre : List Lit) (bound : List String) (sts : List State) (b : Builder),
      r.body = pre ++ ls → safeNegAux ls bound = true → BInv ctx.rules ctx.base M b →
      (∀ st ∈ sts, StOK ctx M r tuple b pre bound st) →
      BInv ctx.rules ctx.base M (proveBody ctx bn en vis ls sts b).2 ∧
      Pre b (proveBody ctx bn en vis ls sts b).2 ∧
      ∀ sts', (proveBody ctx bn en vis ls sts b).1 = some sts' →
        ∀ st' ∈ sts', StOK ctx M r tuple (proveBody ctx bn en vis ls sts b).2 r.body [] st'
  | [], pre, bound, sts, b, hsp, _, hb, hs => by
    simp only [proveBody]
    refine ⟨hb, Pre.refl b, ?_⟩
    intro sts' he st' hmem
    simp only [Option.some.injEq] at he
    subst he
    have : r.body = pre := by simpa using hsp
    rw [this]
    exact StOK_weaken (hs st' hmem)
  | l :: ls, pre, bound, sts, b, hsp, hsf, hb, hs => by
    have hl : l ∈ r.body := by rw [hsp]; simp
    have hsafe : ∀ a, l = .neg a → ∀ x ∈ varsOf a.args, x ∈ bound := by
      intro a ha x hx
      subst ha
      simp only [safeNegAux, Bool.and_eq_true, List.all_eq_true] at hsf
      simpa using hsf.1 x hx
    have hsf' : safeNegAux ls (boundAfter l bound) = true := by
      cases l with
      | pos a => simpa only [safeNegAux, boundAfter] using hsf
      | neg a => simp only [safeNegAux, Bool.and_eq_true] at hsf; exact hsf.2
      | cmp _ _ _ => simpa only [safeNegAux, boundAfter] using hsf
      | other => simpa only [safeNegAux, boundAfter] using hsf
    obtain ⟨b1, p1, s1⟩ := stepStates_ok ctx M hy bn en hbn hen r tuple hr vis pre l hl bound hsafe sts b hb hs
    simp only [proveBody]
    split
    · exact ⟨b1, p1, fun sts' he => by cases he⟩
    · obtain ⟨b2, p2, s2⟩ := proveBody_ok ctx M hy bn en hbn hen r tuple hr vis ls (pre ++ [l]) (boundAfter l bound)
        (stepStates ctx bn en vis l sts b).1 (stepStates ctx bn en vis l sts b).2
        (by rw [hsp]; simp) hsf' b1 s1
      exact ⟨b2, Pre.trans p1 p2, s2⟩

/-! ### build_node -/

theorem KidsOK_lt (base M : DB) (ns : List Node) (β : Bindings) :
    ∀ (ls : List Lit) (ks : List Nat), KidsOK base M ns β ls ks → ∀ k ∈ ks, k < ns.length
  | [], [], _, k, hk => by simp at hk
  | [], _ :: _, h, _, _ => by simp [KidsOK] at h
  | .pos a :: ls, [], h, _, _ => by simp [KidsOK] at h
  | .neg a :: ls, [], h, _, _ => by simp [KidsOK] at h
  | .cmp _ _ _ :: ls, ks, h, _, _ => by cases ks <;> simp [KidsOK] at h
  | .other :: ls, ks, h, _, _ => by cases ks <;> simp [KidsOK] at h
  | .pos a :: ls, k0 :: ks, h, k, hk => by
    simp only [KidsOK] at h
    rcases List.mem_cons.mp hk with rfl | hk
    · obtain ⟨⟨kn, h1, _⟩, _⟩ := h
      rcases Nat.lt_or_ge k ns.length with hh | hh
      · exact hh
      · rw [List.getElem?_eq_none hh] at h1; cases h1
    · exact KidsOK_lt base M ns β ls ks h.2 k hk
  | .neg a :: ls, k0 :: ks, h, k, hk => by
    simp only [KidsOK] at h
    rcases List.mem_cons.mp hk with rfl | hk
    · obtain ⟨⟨kn, h1, _⟩, _⟩ := h
      rcases Nat.lt_or_ge k ns.length with hh | hh
      · exact hh
      · rw [List.getElem?_eq_none hh] at h1; cases h1
    · exact KidsOK_lt base M ns β ls ks h.2 k hk

theorem filter_plain (β : Bindings) (h : ∀ q ∈ β, isPlaceholderName q.1 = false) :
    β.filter (fun p => !isPlaceholderName p.1) = β := by
  rw [List.filter_eq_self]
  intro q hq
  simp [h q hq]

theorem ruleIndex_get (rules : Program) (r : Rule) (h : r ∈ rules) : rules[ruleIndex rules r]? = some r := by
  unfold ruleIndex
  have hlt : rules.findIdx (· == r) < rules.length := List.findIdx_lt_length_of_exists ⟨r, h, by simp⟩
  have := List.findIdx_getElem (w := hlt)
  rw [List.getElem?_eq_getElem hlt]
  simp only [beq_iff_eq] at this
  rw [this]

theorem tupleLooseEq_refl : ∀ (t : Tuple), GoodT t → tupleLooseEq t t = true
  | [], _ => rfl
  | v :: vs, h => by
    simp only [tupleLooseEq, Bool.and_eq_true]
    exact ⟨h v List.mem_cons_self, tupleLooseEq_refl vs (fun w hw => h w (List.mem_cons_of_mem _ hw))⟩

theorem memL_of_contains (t : Tuple) (ts : List Tuple) (hg : GoodT t) (h : ts.contains t = true) : memL t ts = true := by
  simp only [List.contains_eq_mem, decide_eq_true_eq] at h
  simp only [memL, List.any_eq_true]
  exact ⟨t, h, tupleLooseEq_refl t hg⟩

/-- the loop inserting one rule node per surviving state. -/
theorem addRuleNodes_ok (ctx : Ctx) (M : DB) (r : Rule) (hr : RuleHyp ctx M r) (idx : Nat)
    (hidx : ctx.rules[idx]? = some r) (rel : String) (hrel : r.head.rel = rel) (values : Tuple) :
    ∀ (sts : List State) (res : List Nat) (b : Builder), BInv ctx.rules ctx.base M b →
      (∀ st ∈ sts, StOK ctx M r values b r.body [] st) → (∀ id ∈ res, Concl b id rel values) →
      BInv ctx.rules ctx.base M (addRuleNodes ctx rel values idx sts res b).2 ∧
      Pre b (addRuleNodes ctx rel values idx sts res b).2 ∧
      ∀ id ∈ (addRuleNodes ctx rel values idx sts res b).1, Concl (addRuleNodes ctx rel values idx sts res b).2 id rel values
  | [], res, b, hb, _, hres => by
    simp only [addRuleNodes]
    exact ⟨hb, Pre.refl b, hres⟩
  | (fb, kids) :: sts, res, b, hb, hs, hres => by
    simp only [addRuleNodes]
    split
    · exact ⟨hb, Pre.refl b, hres⟩
    · have hst := hs (fb, kids) List.mem_cons_self
      have hplain : ∀ q ∈ fb, isPlaceholderName q.1 = false := fun q hq => hr.plain _ (hst.keys q hq)
      have hnode : NodeOK ctx.rules ctx.base M b.nodes b.nodes.length
          { kind := .rule idx (fb.filter (fun p => !isPlaceholderName p.1)), pred := rel, args := values, children := kids } := by
        unfold NodeOK
        rw [filter_plain fb hplain]
        refine ⟨KidsOK_lt ctx.base M b.nodes fb _ kids hst.kids, ?_⟩
        exact ⟨r, hidx, hrel, hst.head, hst.cmps, hst.kids⟩
      obtain ⟨b1, p1, m, g1, g2, g3, g4⟩ := BInv_insertRule ctx.rules ctx.base M b _ hb hnode rfl
      obtain ⟨b2, p2, c2⟩ := addRuleNodes_ok ctx M r hr idx hidx rel hrel values sts
        (res ++ [(b.insertRule { kind := .rule idx (fb.filter (fun p => !isPlaceholderName p.1)), pred := rel, args := values, children := kids }).1])
        (b.insertRule { kind := .rule idx (fb.filter (fun p => !isPlaceholderName p.1)), pred := rel, args := values, children := kids }).2 b1
        (fun st h => StOK_mono p1 (hs st (List.mem_cons_of_mem _ h)))
        (fun id hid => by
          rcases List.mem_append.mp hid with h | h
          · exact Concl_mono p1 (hres id h)
          · have h' := List.eq_of_mem_singleton h
            rw [h']
            exact ⟨m, g1, g2, g3, g4⟩)
      exact ⟨b2, Pre.trans p1 p2, c2⟩

theorem supported_head (r : Rule) (h : r.supported = true) : ∀ x ∈ r.head.args, x ≠ Term.other := by
  simp only [Rule.supported, Bool.and_eq_true, Atom.supported, List.all_eq_true] at h
  intro x hx he
  subst he
  simpa [Term.supported] using h.1 _ hx

theorem mem_terms_head (r : Rule) : ∀ t ∈ r.head.args, t ∈ r.terms := by
  intro t ht
  simp only [Rule.terms, List.mem_append]
  exact Or.inl ht

/-- the loop over the clauses of the relation. -/
theorem tryRules_ok (ctx : Ctx) (M : DB) (hy : Hyp ctx M) (hrules : ∀ r ∈ ctx.rules, RuleHyp ctx M r)
    (bn : BuildFn) (en : EnumFn) (hbn : BnSpec ctx M bn) (hen : EnSpec ctx en)
    (rel : String) (tuple : Tuple) (hg : GoodT tuple) (vis : Visited) :
    ∀ (rs : List Rule), (∀ r ∈ rs, r ∈ ctx.rules ∧ r.head.rel = rel) →
      ∀ (res : List Nat) (b : Builder), BInv ctx.rules ctx.base M b → (∀ id ∈ res, Concl b id rel tuple) →
      BInv ctx.rules ctx.base M (tryRules ctx (fun v => proveBody ctx bn en v) rel tuple vis rs res b).2 ∧
      Pre b (tryRules ctx (fun v => proveBody ctx bn en v) rel tuple vis rs res b).2 ∧
      ∀ id ∈ (tryRules ctx (fun v => proveBody ctx bn en v) rel tuple vis rs res b).1,
        Concl (tryRules ctx (fun v => proveBody ctx bn en v) rel tuple vis rs res b).2 id rel tuple
  | [], _, res, b, hb, hres => by
    simp only [tryRules]
    exact ⟨hb, Pre.refl b, hres⟩
  | r :: rs, hrs, res, b, hb, hres => by
    have hrs' : ∀ r' ∈ rs, r' ∈ ctx.rules ∧ r'.head.rel = rel := fun r' h => hrs r' (List.mem_cons_of_mem _ h)
    obtain ⟨hrm, hrel⟩ := hrs r List.mem_cons_self
    have hr := hrules r hrm
    simp only [tryRules]
    split
    · exact ⟨hb, Pre.refl b, hres⟩
    · cases hu : unifyHead tuple r.head with
      | none => exact tryRules_ok ctx M hy hrules bn en hbn hen rel tuple hg vis rs hrs' res b hb hres
      | some bd =>
        simp only
        obtain ⟨u1, u2, u3, u4⟩ := unifyHead_sound tuple r.head bd (supported_head r hr.sup) hr.headNoWild hg hu
        have hst0 : StOK ctx M r tuple b [] (varsOf r.head.args) (bd, []) :=
          { good := u1, head := u2, cmps := rfl, kids := by simp [KidsOK],
            bnd := fun x hx => u3 x ((mem_varsOf _ x).mp hx),
            keys := fun q hq => (mem_varsOf _ _).mpr (mem_terms_head r _ (u4 q hq)) }
        obtain ⟨b1, p1, s1⟩ := proveBody_ok ctx M hy bn en hbn hen r tuple hr vis r.body [] (varsOf r.head.args)
          [(bd, [])] b (by simp) hr.safe hb (fun st h => by simp only [List.mem_singleton] at h; subst h; exact hst0)
        cases hp : (proveBody ctx bn en vis r.body [(bd, [])] b).1 with
        | none =>
          exact
            let ⟨b2, p2, c2⟩ := tryRules_ok ctx M hy hrules bn en hbn hen rel tuple hg vis rs hrs' res _ b1
              (fun id h => Concl_mono p1 (hres id h))
            ⟨b2, Pre.trans p1 p2, c2⟩
        | some sts =>
          simp only
          obtain ⟨b2, p2, c2⟩ := addRuleNodes_ok ctx M r hr (ruleIndex ctx.rules r) (ruleIndex_get ctx.rules r hrm)
            rel hrel tuple sts res (proveBody ctx bn en vis r.body [(bd, [])] b).2 b1 (s1 sts hp)
            (fun id h => Concl_mono p1 (hres id h))
          obtain ⟨b3, p3, c3⟩ := tryRules_ok ctx M hy hrules bn en hbn hen rel tuple hg vis rs hrs' _ _ b2 c2
          exact ⟨b3, Pre.trans p1 (Pre.trans p2 p3), c3⟩

theorem truncNodeAt_ok (ctx : Ctx) (M : DB) : BnSpec ctx M (truncNodeAt ctx) := by
  intro rel t b vis hb _
  simp only [truncNodeAt]
  have hnode : NodeOK ctx.rules ctx.base M b.nodes b.nodes.length
      { kind := .trunc ctx.maxDepth, pred := rel, args := t } := by
    unfold NodeOK; simp
  obtain ⟨b1, p1, g1⟩ := BInv_insertIncomplete ctx.rules ctx.base M b _ hb hnode
  refine ⟨b1, p1, ?_⟩
  intro id hid
  simp only [List.mem_singleton] at hid
  subst hid
  exact ⟨_, g1, rfl, rfl, rfl⟩

theorem factNode_ok (ctx : Ctx) (M : DB) (rel : String) (t : Tuple) (b : Builder) (s : Src)
    (hb : BInv ctx.rules ctx.base M b)
    (hs : match s with
      | .edb => memL t (ctx.base.get rel) = true
      | .derived => memL t (world ctx.base M rel) = true) :
    BInv ctx.rules ctx.base M (b.insert (factNode rel t s)).2 ∧ Pre b (b.insert (factNode rel t s)).2 ∧
      Concl (b.insert (factNode rel t s)).2 (b.insert (factNode rel t s)).1 rel t := by
  have hnode : NodeOK ctx.rules ctx.base M b.nodes b.nodes.length (factNode rel t s) := by
    unfold NodeOK factNode
    cases s <;> simp_all
  obtain ⟨b1, p1, m, g1, g2, g3, g4⟩ := BInv_insert ctx.rules ctx.base M b _ hb hnode rfl
  exact ⟨b1, p1, m, g1, g2, g3, g4⟩

theorem factNodeIncomplete_ok (ctx : Ctx) (M : DB) (rel : String) (t : Tuple) (b : Builder)
    (hb : BInv ctx.rules ctx.base M b) (hs : memL t (world ctx.base M rel) = true) :
    BInv ctx.rules ctx.base M (b.insertIncomplete (factNode rel t .derived)).2 ∧
      Pre b (b.insertIncomplete (factNode rel t .derived)).2 ∧
      Concl (b.insertIncomplete (factNode rel t .derived)).2 (b.insertIncomplete (factNode rel t .derived)).1 rel t := by
  have hnode : NodeOK ctx.rules ctx.base M b.nodes b.nodes.length (factNode rel t .derived) := by
    unfold NodeOK factNode
    simp_all
  obtain ⟨b1, p1, g1⟩ := BInv_insertIncomplete ctx.rules ctx.base M b _ hb hnode
  exact ⟨b1, p1, _, g1, rfl, rfl, rfl⟩

theorem rulesFor_mem (ctx : Ctx) (rel : String) : ∀ r ∈ ctx.rulesFor rel, r ∈ ctx.rules ∧ r.head.rel = rel := by
  intro r hr
  simp only [Ctx.rulesFor, List.mem_filter, beq_iff_eq] at hr
  exact hr

theorem baseFactStep_ok (ctx : Ctx) (M : DB) (rel : String) (t : Tuple) (inBase : Bool) (b : Builder)
    (hb : BInv ctx.rules ctx.base M b) (hin : inBase = true → memL t (ctx.base.get rel) = true) :
    BInv ctx.rules ctx.base M (baseFactStep rel t inBase b).2 ∧ Pre b (baseFactStep rel t inBase b).2 ∧
      ∀ id ∈ (baseFactStep rel t inBase b).1, Concl (baseFactStep rel t inBase b).2 id rel t := by
  unfold baseFactStep
  split
  · rename_i h
    obtain ⟨b1, p1, c1⟩ := factNode_ok ctx M rel t b .edb hb (hin h)
    refine ⟨b1, p1, ?_⟩
    intro id hid
    rw [List.eq_of_mem_singleton hid]
    exact c1
  · exact ⟨hb, Pre.refl b, fun id h => by simp at h⟩

theorem fallbackStep_ok (ctx : Ctx) (M : DB) (rel : String) (t : Tuple) (inDerived : Bool) (r1 : List Nat × Builder)
    (hb : BInv ctx.rules ctx.base M r1.2) (hc : ∀ id ∈ r1.1, Concl r1.2 id rel t)
    (hin : inDerived = true → memL t (world ctx.base M rel) = true) :
    BInv ctx.rules ctx.base M (fallbackStep rel t inDerived r1).2 ∧ Pre r1.2 (fallbackStep rel t inDerived r1).2 ∧
      ∀ id ∈ (fallbackStep rel t inDerived r1).1, Concl (fallbackStep rel t inDerived r1).2 id rel t := by
  unfold fallbackStep
  split
  · rename_i h
    simp only [Bool.and_eq_true] at h
    obtain ⟨b1, p1, c1⟩ := factNode_ok ctx M rel t r1.2 .derived hb (hin h.2)
    refine ⟨b1, p1, ?_⟩
    intro id hid
    rw [List.eq_of_mem_singleton hid]
    exact c1
  · exact ⟨hb, Pre.refl _, hc⟩

theorem derivedStep_ok (ctx : Ctx) (M : DB) (hy : Hyp ctx M) (hrules : ∀ r ∈ ctx.rules, RuleHyp ctx M r)
    (bn : BuildFn) (en : EnumFn) (hbn : BnSpec ctx M bn) (hen : EnSpec ctx en)
    (rel : String) (t : Tuple) (hg : GoodT t) (vis' : Visited) (inBase inDerived : Bool) (b : Builder)
    (hb : BInv ctx.rules ctx.base M b)
    (hin : inBase = true → memL t (ctx.base.get rel) = true)
    (hind : inDerived = true → memL t (world ctx.base M rel) = true) :
    BInv ctx.rules ctx.base M (derivedStep ctx (fun v => proveBody ctx bn en v) rel t vis' inBase inDerived b).2 ∧
    Pre b (derivedStep ctx (fun v => proveBody ctx bn en v) rel t vis' inBase inDerived b).2 ∧
    ∀ id ∈ (derivedStep ctx (fun v => proveBody ctx bn en v) rel t vis' inBase inDerived b).1,
      Concl (derivedStep ctx (fun v => proveBody ctx bn en v) rel t vis' inBase inDerived b).2 id rel t := by
  obtain ⟨b0, p0, c0⟩ := baseFactStep_ok ctx M rel t inBase b hb hin
  unfold derivedStep
  split
  · exact ⟨b0, p0, c0⟩
  · obtain ⟨b1, p1, c1⟩ := tryRules_ok ctx M hy hrules bn en hbn hen rel t hg vis'
      (ctx.rulesFor rel) (rulesFor_mem ctx rel) _ _ b0 c0
    obtain ⟨b2, p2, c2⟩ := fallbackStep_ok ctx M rel t inDerived _ b1 c1 hind
    exact ⟨b2, Pre.trans p0 (Pre.trans p1 p2), c2⟩

/-- `build_node` below the depth limit. -/
theorem buildNodeAt_ok (ctx : Ctx) (M : DB) (hy : Hyp ctx M) (hrules : ∀ r ∈ ctx.rules, RuleHyp ctx M r)
    (bn : BuildFn) (en : EnumFn) (hbn : BnSpec ctx M bn) (hen : EnSpec ctx en) :
    BnSpec ctx M (buildNodeAt ctx (fun v => proveBody ctx bn en v)) := by
  intro rel t b vis hb hg
  simp only [buildNodeAt]
  cases hge : b.getExisting rel t with
  | some id =>
    simp only
    refine ⟨hb, Pre.refl b, ?_⟩
    intro id' hid'
    rw [List.eq_of_mem_singleton hid']
    obtain ⟨n, h1, h2, h3, h4⟩ := hb.seen (rel, t) id (lookup_mem _ _ _ hge)
    exact ⟨n, h1, h2, h3, h4⟩
  | none =>
    simp only
    split
    · exact ⟨hb, Pre.refl b, fun id h => by simp at h⟩
    · simp only [hy.der]
      have hbase : tupleExistsIn rel t ctx.base = true → memL t (ctx.base.get rel) = true :=
        fun h => memL_of_contains t _ hg h
      have hder : tupleExistsIn rel t M = true → memL t (world ctx.base M rel) = true := by
        intro h
        simp only [world, memL_append, Bool.or_eq_true]
        exact Or.inr (memL_of_contains t _ hg h)
      split
      · rename_i hnd
        have hnd' : ctx.isDerived rel = false := by simpa using hnd
        split
        · rename_i hin
          have hb' : memL t (ctx.base.get rel) = true := by
            simp only [Bool.or_eq_true] at hin
            rcases hin with h | h
            · exact hbase h
            · simp [tupleExistsIn, hy.derOnly rel hnd'] at h
          obtain ⟨b1, p1, c1⟩ := factNode_ok ctx M rel t b .edb hb hb'
          refine ⟨b1, p1, ?_⟩
          intro id hid
          rw [List.eq_of_mem_singleton hid]
          exact c1
        · exact ⟨hb, Pre.refl b, fun id h => by simp at h⟩
      · exact derivedStep_ok ctx M hy hrules bn en hbn hen rel t hg _ _ _ b hb hbase hder

/-! ### enumerate_derived_candidates: only "good values" and the shape of the candidates matter -/

theorem matchArgs_good : ∀ (bts : List BT) (t : Tuple) (nb0 nb : Bindings), GoodT t → GoodB nb0 →
    matchArgs bts t nb0 = some nb → GoodB nb
  | [], _, nb0, nb, _, h0, h => by simp only [matchArgs, Option.some.injEq] at h; subst h; exact h0
  | _ :: _, [], _, _, _, _, h => by simp [matchArgs] at h
  | bt :: bts, v :: vs, nb0, nb, hg, h0, h => by
    have hg' : GoodT vs := fun w hw => hg w (List.mem_cons_of_mem _ hw)
    cases bt with
    | conc e =>
      simp only [matchArgs] at h
      split at h
      · exact matchArgs_good bts vs nb0 nb hg' h0 h
      · cases h
    | anon => simp only [matchArgs] at h; exact matchArgs_good bts vs nb0 nb hg' h0 h
    | unb x =>
      simp only [matchArgs] at h
      cases hn : nb0.lookup x with
      | some e =>
        simp only [hn] at h
        split at h
        · exact matchArgs_good bts vs nb0 nb hg' h0 h
        · cases h
      | none =>
        simp only [hn] at h
        refine matchArgs_good bts vs ((x, v) :: nb0) nb hg' ?_ h
        intro p hp
        rcases List.mem_cons.mp hp with rfl | hp
        · exact hg v List.mem_cons_self
        · exact h0 p hp

theorem enumNewBinds_good : ∀ (bts : List BT) (t : Tuple) (nb0 nb : Bindings), GoodT t → GoodB nb0 →
    enumNewBinds bts t nb0 = some nb → GoodB nb
  | [], _, nb0, nb, _, h0, h => by simp only [enumNewBinds, Option.some.injEq] at h; subst h; exact h0
  | _ :: _, [], nb0, nb, _, h0, h => by
    unfold enumNewBinds at h
    split at h <;> simp_all
  | bt :: bts, v :: vs, nb0, nb, hg, h0, h => by
    have hg' : GoodT vs := fun w hw => hg w (List.mem_cons_of_mem _ hw)
    cases bt with
    | conc e => simp only [enumNewBinds] at h; exact enumNewBinds_good bts vs nb0 nb hg' h0 h
    | anon => simp only [enumNewBinds] at h; exact enumNewBinds_good bts vs nb0 nb hg' h0 h
    | unb x =>
      simp only [enumNewBinds] at h
      cases hn : nb0.lookup x with
      | some e =>
        simp only [hn] at h
        split at h
        · exact enumNewBinds_good bts vs nb0 nb hg' h0 h
        · cases h
      | none =>
        simp only [hn] at h
        refine enumNewBinds_good bts vs ((x, v) :: nb0) nb hg' ?_ h
        intro p hp
        rcases List.mem_cons.mp hp with rfl | hp
        · exact hg v List.mem_cons_self
        · exact h0 p hp

theorem findMatching_good (rel : String) (bts : List BT) (db : DB) (hdb : GoodDB db) :
    ∀ p ∈ findMatching rel bts db, GoodT p.1 ∧ GoodB p.2 := by
  intro p hp
  unfold findMatching at hp
  rw [List.mem_filterMap] at hp
  obtain ⟨t, ht, he⟩ := hp
  cases hm : matchTuple bts t with
  | none => simp [hm] at he
  | some nb =>
    simp only [hm, Option.map_some, Option.some.injEq] at he
    subst he
    have hg := hdb rel t ht
    refine ⟨hg, ?_⟩
    unfold matchTuple at hm
    split at hm
    · cases hm
    · exact matchArgs_good bts t [] nb hg (fun p hp => by simp at hp) hm

theorem posMatches_good (ctx : Ctx) (M : DB) (hy : Hyp ctx M) (en : EnumFn) (hen : EnSpec ctx en) (vis : Visited)
    (β : Bindings) (a : Atom) (hb : GoodBts (substituteAtom a β)) :
    ∀ p ∈ posMatches ctx en vis a β, GoodB p.2 := by
  intro p hp
  unfold posMatches at hp
  simp only [hy.der] at hp
  have henum : ∀ q ∈ en a.rel (substituteAtom a β) vis, GoodB q.2 := by
    intro q hq
    obtain ⟨g1, _, _, g4⟩ := hen a.rel (substituteAtom a β) vis hb q hq
    exact enumNewBinds_good _ _ [] q.2 g1 (fun p hp => by simp at hp) g4
  split at hp
  · split at hp
    · exact henum p hp
    · exact (findMatching_good _ _ M hy.goodM p hp).2
  · exact (findMatching_good _ _ ctx.base hy.goodBase p hp).2

theorem stepMatches_good (bn : BuildFn) (rel : String) (vis : Visited) (β : Bindings) (kids : List Nat) (hβ : GoodB β) :
    ∀ (ms : List (Tuple × Bindings)) (b : Builder), (∀ p ∈ ms, GoodB p.2) →
      ∀ st ∈ (stepMatches bn rel vis β kids ms b).1, GoodB st.1
  | [], b, _, st, h => by simp [stepMatches] at h
  | (t, nb) :: ms, b, hm, st, h => by
    simp only [stepMatches] at h
    have ih := stepMatches_good bn rel vis β kids hβ ms (bn rel t b vis).2 (fun p hp => hm p (List.mem_cons_of_mem _ hp))
    split at h
    · rcases List.mem_cons.mp h with rfl | h
      · exact GoodB_append nb β (hm (t, nb) List.mem_cons_self) hβ
      · exact ih st h
    · exact ih st h

/-- a literal whose constants are good. -/
def LitGoodTerms : Lit → Prop
  | .pos a => ∀ t ∈ a.args, GoodTerm t
  | _ => True

theorem stepState_good (ctx : Ctx) (M : DB) (hy : Hyp ctx M) (bn : BuildFn) (en : EnumFn) (hen : EnSpec ctx en)
    (vis : Visited) (l : Lit) (hl : LitGoodTerms l) (st : State) (b : Builder) (hst : GoodB st.1) :
    ∀ st' ∈ (stepState ctx bn en vis l st b).1, GoodB st'.1 := by
  intro st' h
  cases l with
  | pos a =>
    simp only [stepState] at h
    exact stepMatches_good bn a.rel vis st.1 st.2 hst _ b
      (posMatches_good ctx M hy en hen vis st.1 a (GoodBts_substitute st.1 a hst hl)) st' h
  | neg a =>
    simp only [stepState] at h
    split at h
    · rw [List.eq_of_mem_singleton h]; exact hst
    · simp at h
  | cmp x op y =>
    simp only [stepState] at h
    split at h
    · rw [List.eq_of_mem_singleton h]; exact hst
    · simp at h
  | other => simp [stepState] at h

theorem stepStates_good (ctx : Ctx) (M : DB) (hy : Hyp ctx M) (bn : BuildFn) (en : EnumFn) (hen : EnSpec ctx en)
    (vis : Visited) (l : Lit) (hl : LitGoodTerms l) :
    ∀ (sts : List State) (b : Builder), (∀ st ∈ sts, GoodB st.1) →
      ∀ st' ∈ (stepStates ctx bn en vis l sts b).1, GoodB st'.1
  | [], b, _, st', h => by simp [stepStates] at h
  | st :: sts, b, hs, st', h => by
    simp only [stepStates] at h
    rcases List.mem_append.mp h with h | h
    · exact stepState_good ctx M hy bn en hen vis l hl st b (hs st List.mem_cons_self) st' h
    · exact stepStates_good ctx M hy bn en hen vis l hl sts _ (fun s hs' => hs s (List.mem_cons_of_mem _ hs')) st' h

theorem proveBody_good (ctx : Ctx) (M : DB) (hy : Hyp ctx M) (bn : BuildFn) (en : EnumFn) (hen : EnSpec ctx en)
    (vis : Visited) :
    ∀ (ls : List Lit) (sts : List State) (b : Builder), (∀ l ∈ ls, LitGoodTerms l) → (∀ st ∈ sts, GoodB st.1) →
      ∀ sts', (proveBody ctx bn en vis ls sts b).1 = some sts' → ∀ st' ∈ sts', GoodB st'.1
  | [], sts, b, _, hs, sts', he, st', h => by
    simp only [proveBody, Option.some.injEq] at he
    subst he
    exact hs st' h
  | l :: ls, sts, b, hl, hs, sts', he, st', h => by
    simp only [proveBody] at he
    split at he
    · cases he
    · exact proveBody_good ctx M hy bn en hen vis ls _ _ (fun l' hl' => hl l' (List.mem_cons_of_mem _ hl'))
        (stepStates_good ctx M hy bn en hen vis l (hl l List.mem_cons_self) sts b hs) sts' he st' h

theorem enumHeadValues_spec (fb : Bindings) (hfb : GoodB fb) : ∀ (args : List Term) (t : Tuple),
    (∀ a ∈ args, GoodTerm a) → enumHeadValues fb args = some t → t.length = args.length ∧ GoodT t
  | [], t, _, h => by
    simp only [enumHeadValues, Option.some.injEq] at h; subst h
    exact ⟨rfl, fun v hv => by simp at hv⟩
  | a :: as, t, hg, h => by
    have hg' : ∀ a' ∈ as, GoodTerm a' := fun a' h' => hg a' (List.mem_cons_of_mem _ h')
    cases a with
    | var x =>
      simp only [enumHeadValues] at h
      cases hx : fb.lookup x with
      | none => simp [hx] at h
      | some v =>
        cases hr : enumHeadValues fb as with
        | none => simp [hx, hr] at h
        | some vs =>
          simp only [hx, hr, Option.some.injEq] at h
          subst h
          obtain ⟨l1, g1⟩ := enumHeadValues_spec fb hfb as vs hg' hr
          refine ⟨by simp [l1], ?_⟩
          intro w hw
          rcases List.mem_cons.mp hw with rfl | hw
          · exact GoodB_lookup fb hfb x w hx
          · exact g1 w hw
    | wild => simp [enumHeadValues, termToValue] at h
    | other => simp [enumHeadValues, termToValue] at h
    | int n =>
      simp only [enumHeadValues] at h
      cases hc : termToValue (Term.int n) with
      | none => simp [hc] at h
      | some v =>
        cases hr : enumHeadValues fb as with
        | none => simp [hc, hr] at h
        | some vs =>
          simp only [hc, hr, Option.some.injEq] at h
          subst h
          obtain ⟨l1, g1⟩ := enumHeadValues_spec fb hfb as vs hg' hr
          refine ⟨by simp [l1], ?_⟩
          intro w hw
          rcases List.mem_cons.mp hw with rfl | hw
          · exact hg _ List.mem_cons_self w hc
          · exact g1 w hw
    | str n =>
      simp only [enumHeadValues] at h
      cases hc : termToValue (Term.str n) with
      | none => simp [hc] at h
      | some v =>
        cases hr : enumHeadValues fb as with
        | none => simp [hc, hr] at h
        | some vs =>
          simp only [hc, hr, Option.some.injEq] at h
          subst h
          obtain ⟨l1, g1⟩ := enumHeadValues_spec fb hfb as vs hg' hr
          refine ⟨by simp [l1], ?_⟩
          intro w hw
          rcases List.mem_cons.mp hw with rfl | hw
          · exact hg _ List.mem_cons_self w hc
          · exact g1 w hw
    | bool n =>
      simp only [enumHeadValues] at h
      cases hc : termToValue (Term.bool n) with
      | none => simp [hc] at h
      | some v =>
        cases hr : enumHeadValues fb as with
        | none => simp [hc, hr] at h
        | some vs =>
          simp only [hc, hr, Option.some.injEq] at h
          subst h
          obtain ⟨l1, g1⟩ := enumHeadValues_spec fb hfb as vs hg' hr
          refine ⟨by simp [l1], ?_⟩
          intro w hw
          rcases List.mem_cons.mp hw with rfl | hw
          · exact hg _ List.mem_cons_self w hc
          · exact g1 w hw
    | flt n =>
      simp only [enumHeadValues] at h
      cases hc : termToValue (Term.flt n) with
      | none => simp [hc] at h
      | some v =>
        cases hr : enumHeadValues fb as with
        | none => simp [hc, hr] at h
        | some vs =>
          simp only [hc, hr, Option.some.injEq] at h
          subst h
          obtain ⟨l1, g1⟩ := enumHeadValues_spec fb hfb as vs hg' hr
          refine ⟨by simp [l1], ?_⟩
          intro w hw
          rcases List.mem_cons.mp hw with rfl | hw
          · exact hg _ List.mem_cons_self w hc
          · exact g1 w hw

theorem enumHeadBindings_good : ∀ (bts : List BT) (args : List Term) (b : Bindings), GoodBts bts → GoodB b →
    GoodB (enumHeadBindings bts args b)
  | [], _, b, _, hb => by unfold enumHeadBindings; exact hb
  | _ :: _, [], b, _, hb => by unfold enumHeadBindings; split <;> simp_all
  | bt :: bts, a :: as, b, hg, hb => by
    have hg' : GoodBts bts := fun v hv => hg v (List.mem_cons_of_mem _ hv)
    unfold enumHeadBindings
    split
    · rename_i v bts' x ts' h1 h2
      simp only [List.cons.injEq] at h1 h2
      obtain ⟨rfl, rfl⟩ := h1
      obtain ⟨rfl, rfl⟩ := h2
      apply enumHeadBindings_good _ _ _ hg'
      intro p hp
      rcases List.mem_cons.mp hp with rfl | hp
      · exact hg v List.mem_cons_self
      · exact hb p hp
    · rename_i bt' bts' a' ts' _ h1 h2
      simp only [List.cons.injEq] at h1 h2
      obtain ⟨rfl, rfl⟩ := h1
      obtain ⟨rfl, rfl⟩ := h2
      exact enumHeadBindings_good _ _ _ hg' hb
    · rename_i h1 h2
      exact (h2 _ _ _ _ rfl rfl).elim

def EnItem (ctx : Ctx) (rel : String) (bts : List BT) (p : Tuple × Bindings) : Prop :=
  GoodT p.1 ∧ (∃ r ∈ ctx.rules, r.head.rel = rel ∧ p.1.length = r.head.args.length) ∧
    enumMatchesPattern bts p.1 = true ∧ enumNewBinds bts p.1 [] = some p.2

theorem enumCollect_ok (ctx : Ctx) (rel : String) (bts : List BT) (r : Rule) (hr : r ∈ ctx.rules) (hrel : r.head.rel = rel)
    (hgt : ∀ a ∈ r.head.args, GoodTerm a) :
    ∀ (sts : List State) (acc : List (Tuple × Bindings)), (∀ st ∈ sts, GoodB st.1) → (∀ p ∈ acc, EnItem ctx rel bts p) →
      ∀ p ∈ enumCollect ctx bts r.head sts acc, EnItem ctx rel bts p
  | [], acc, _, ha, p, hp => by simp only [enumCollect] at hp; exact ha p hp
  | (fb, kids) :: sts, acc, hs, ha, p, hp => by
    have hs' : ∀ st ∈ sts, GoodB st.1 := fun st h => hs st (List.mem_cons_of_mem _ h)
    simp only [enumCollect] at hp
    split at hp
    · exact ha p hp
    · cases hv : enumHeadValues fb r.head.args with
      | none =>
        simp only [hv] at hp
        exact enumCollect_ok ctx rel bts r hr hrel hgt sts acc hs' ha p hp
      | some t =>
        simp only [hv] at hp
        split at hp
        · rename_i hm
          obtain ⟨l1, g1⟩ := enumHeadValues_spec fb (hs (fb, kids) List.mem_cons_self) r.head.args t hgt hv
          cases hnb : enumNewBinds bts t [] with
          | none =>
            simp only [hnb] at hp
            exact enumCollect_ok ctx rel bts r hr hrel hgt sts acc hs' ha p hp
          | some nb =>
            simp only [hnb] at hp
            refine enumCollect_ok ctx rel bts r hr hrel hgt sts _ hs' ?_ p hp
            intro q hq
            rcases List.mem_append.mp hq with hq | hq
            · exact ha q hq
            · rw [List.eq_of_mem_singleton hq]
              exact ⟨g1, ⟨r, hr, hrel, l1⟩, hm, hnb⟩
        · exact enumCollect_ok ctx rel bts r hr hrel hgt sts acc hs' ha p hp

theorem enumRules_ok (ctx : Ctx) (M : DB) (hy : Hyp ctx M) (hrules : ∀ r ∈ ctx.rules, RuleHyp ctx M r)
    (bn : BuildFn) (en : EnumFn) (hen : EnSpec ctx en) (rel : String) (bts : List BT) (hb : GoodBts bts) (vis : Visited) :
    ∀ (rs : List Rule), (∀ r ∈ rs, r ∈ ctx.rules ∧ r.head.rel = rel) → ∀ (tb : Builder) (acc : List (Tuple × Bindings)),
      (∀ p ∈ acc, EnItem ctx rel bts p) →
      ∀ p ∈ enumRules ctx (fun v => proveBody ctx bn en v) bts vis rs tb acc, EnItem ctx rel bts p
  | [], _, tb, acc, ha, p, hp => by simp only [enumRules] at hp; exact ha p hp
  | r :: rs, hrs, tb, acc, ha, p, hp => by
    have hrs' : ∀ r' ∈ rs, r' ∈ ctx.rules ∧ r'.head.rel = rel := fun r' h => hrs r' (List.mem_cons_of_mem _ h)
    obtain ⟨hrm, hrel⟩ := hrs r List.mem_cons_self
    have hr := hrules r hrm
    simp only [enumRules] at hp
    split at hp
    · exact ha p hp
    · have hlits : ∀ l ∈ r.body, LitGoodTerms l := by
        intro l hl
        cases l with
        | pos a => exact fun t ht => hr.goodTerms t (mem_terms_pos r a hl t ht)
        | _ => trivial
      have hinit : ∀ st ∈ [(enumHeadBindings bts r.head.args [], ([] : List Nat))], GoodB st.1 := by
        intro st hst
        rw [List.eq_of_mem_singleton hst]
        exact enumHeadBindings_good bts r.head.args [] hb (fun p hp => by simp at hp)
      cases hpb : (proveBody ctx bn en vis r.body [(enumHeadBindings bts r.head.args [], [])] tb).1 with
      | none =>
        simp only [hpb] at hp
        exact enumRules_ok ctx M hy hrules bn en hen rel bts hb vis rs hrs' _ acc ha p hp
      | some sts =>
        simp only [hpb] at hp
        refine enumRules_ok ctx M hy hrules bn en hen rel bts hb vis rs hrs' _ _ ?_ p hp
        exact enumCollect_ok ctx rel bts r hrm hrel (fun a ha' => hr.goodTerms a (mem_terms_head r a ha')) sts acc
          (proveBody_good ctx M hy bn en hen vis r.body _ tb hlits hinit sts hpb) ha

theorem enumerateAt_ok (ctx : Ctx) (M : DB) (hy : Hyp ctx M) (hrules : ∀ r ∈ ctx.rules, RuleHyp ctx M r)
    (bn : BuildFn) (en : EnumFn) (hen : EnSpec ctx en) :
    EnSpec ctx (enumerateAt ctx (fun v => proveBody ctx bn en v)) := by
  intro rel bts vis hb p hp
  simp only [enumerateAt] at hp
  exact enumRules_ok ctx M hy hrules bn en hen rel bts hb vis (ctx.rulesFor rel) (rulesFor_mem ctx rel) {} []
    (fun q hq => by simp at hq) p hp

/-- the whole depth tower satisfies the specifications. -/
theorem level_ok (ctx : Ctx) (M : DB) (hy : Hyp ctx M) (hrules : ∀ r ∈ ctx.rules, RuleHyp ctx M r) :
    ∀ n, BnSpec ctx M (level ctx n).bn ∧ EnSpec ctx (level ctx n).en
  | 0 => by
    simp only [level]
    exact ⟨truncNodeAt_ok ctx M, fun _ _ _ _ p hp => by simp at hp⟩
  | n + 1 => by
    obtain ⟨h1, h2⟩ := level_ok ctx M hy hrules n
    simp only [level]
    exact ⟨buildNodeAt_ok ctx M hy hrules _ _ h1 h2, enumerateAt_ok ctx M hy hrules _ _ h2⟩

/-! ### from the DAG invariant to `valid` on the unfolded tree -/

theorem unfold_succ (ns : List Node) (fuel id : Nat) (n : Node) (h : ns[id]? = some n) :
    unfold ns (fuel + 1) id = .node n.kind n.pred n.args (n.children.map (unfold ns fuel)) := by
  simp [unfold, h]

theorem validKids_of_KidsOK (prog : Program) (base M : DB) (ns : List Node) (fuel : Nat)
    (ih : ∀ id n, ns[id]? = some n → id < fuel → n.kind.isNeg = false → valid prog base M (unfold ns fuel id) = true)
    (β : Bindings) : ∀ (ls : List Lit) (ks : List Nat), KidsOK base M ns β ls ks → (∀ k ∈ ks, k < fuel) →
      validKids prog base M β ls (ks.map (unfold ns fuel)) = true
  | [], [], _, _ => by simp [validKids]
  | [], _ :: _, h, _ => by simp [KidsOK] at h
  | .pos a :: ls, [], h, _ => by simp [KidsOK] at h
  | .neg a :: ls, [], h, _ => by simp [KidsOK] at h
  | .cmp _ _ _ :: ls, ks, h, _ => by cases ks <;> simp [KidsOK] at h
  | .other :: ls, ks, h, _ => by cases ks <;> simp [KidsOK] at h
  | .pos a :: ls, k :: ks, h, hlt => by
    simp only [KidsOK] at h
    obtain ⟨⟨kn, h1, h2, h3, h4⟩, hr⟩ := h
    have hk : k < fuel := hlt k List.mem_cons_self
    obtain ⟨f, rfl⟩ : ∃ f, fuel = f + 1 := ⟨fuel - 1, by omega⟩
    have hv := ih k kn h1 hk h4
    simp only [List.map_cons]
    unfold validKids
    rw [unfold_succ ns f k kn h1] at hv ⊢
    rw [Bool.and_eq_true]
    refine ⟨?_, validKids_of_KidsOK prog base M ns (f + 1) ih β ls ks hr (fun k' hk' => hlt k' (List.mem_cons_of_mem _ hk'))⟩
    simp only [Tree.pred, Tree.args, Bool.and_eq_true, beq_iff_eq]
    exact ⟨⟨h2, h3⟩, hv⟩
  | .neg a :: ls, k :: ks, h, hlt => by
    simp only [KidsOK] at h
    obtain ⟨⟨kn, h1, h2, h3, h4, _, h6⟩, hr⟩ := h
    have hk : k < fuel := hlt k List.mem_cons_self
    obtain ⟨f, rfl⟩ : ∃ f, fuel = f + 1 := ⟨fuel - 1, by omega⟩
    simp only [List.map_cons]
    unfold validKids
    rw [unfold_succ ns f k kn h1]
    rw [Bool.and_eq_true]
    refine ⟨?_, validKids_of_KidsOK prog base M ns (f + 1) ih β ls ks hr (fun k' hk' => hlt k' (List.mem_cons_of_mem _ hk'))⟩
    simp only [Tree.kind, Tree.pred, Tree.args, h2, h3, h4, beq_self_eq_true, h6, Bool.and_self]

theorem valid_unfold (prog : Program) (base M : DB) (b : Builder) (hb : BInv prog base M b) :
    ∀ (fuel id : Nat) (n : Node), b.nodes[id]? = some n → id < fuel → n.kind.isNeg = false →
      valid prog base M (unfold b.nodes fuel id) = true
  | 0, id, n, _, hlt, _ => by omega
  | fuel + 1, id, n, hn, hlt, hneg => by
    rw [unfold_succ b.nodes fuel id n hn]
    have hok := hb.nodes id n hn
    unfold NodeOK at hok
    obtain ⟨hch, hk⟩ := hok
    cases hkind : n.kind with
    | fact s =>
      cases s with
      | edb => simp only [hkind] at hk; simp [valid, hk.1, hk.2]
      | derived => simp only [hkind] at hk; simp [valid, hk.1, hk.2]
    | trunc l => simp only [hkind] at hk; simp [valid, hk]
    | neg pat => simp [hkind, NodeKind.isNeg] at hneg
    | rule idx β =>
      simp only [hkind] at hk
      obtain ⟨r, h1, h2, h3, h4, h5⟩ := hk
      simp only [valid, h1, h2, beq_self_eq_true, h3, h4, Bool.and_self, Bool.true_and]
      exact validKids_of_KidsOK prog base M b.nodes fuel (valid_unfold prog base M b hb fuel) β _ _ h5
        (fun k hk' => by have := hch k hk'; omega)

/-! ### from the decidable fragment predicate to the hypotheses -/

theorem GoodDB_of_goodDB (db : DB) (h : goodDB db = true) : GoodDB db := by
  intro rel t ht v hv
  unfold DB.get at ht
  cases hl : db.lookup rel with
  | none => simp [hl] at ht
  | some ts =>
    simp only [hl] at ht
    have hm := lookup_mem db rel ts hl
    simp only [goodDB, List.all_eq_true] at h
    exact h _ hm t ht v hv

theorem derOnly_of (prog : Program) (M : DB) (h : derivedOnlyHeads prog M = true) (rel : String)
    (hr : prog.any (fun r => r.head.rel == rel) = false) : M.get rel = [] := by
  unfold DB.get
  cases hl : M.lookup rel with
  | none => rfl
  | some ts =>
    have hm := lookup_mem M rel ts hl
    simp only [derivedOnlyHeads, List.all_eq_true] at h
    have := h _ hm
    simp only [hr, Bool.false_or, List.isEmpty_iff] at this
    simpa using this

theorem GoodTerm_of_good (t : Term) (h : t.good = true) : GoodTerm t := by
  intro v hv
  simp only [Term.good, hv] at h
  exact h

theorem RuleHyp_of_fragment (ctx : Ctx) (M : DB) (h : c21Fragment ctx.rules = true) :
    ∀ r ∈ ctx.rules, RuleHyp ctx M r := by
  intro r hr
  simp only [c21Fragment, List.all_eq_true] at h
  have hr' := h r hr
  simp only [Bool.and_eq_true, List.all_eq_true] at hr'
  obtain ⟨⟨⟨⟨⟨h1, h2⟩, h3⟩, h4⟩, h5⟩, h6⟩ := hr'
  refine ⟨h1, by simpa [List.all_eq_true] using h2, h3, ?_, ?_, ?_⟩
  · intro a ha r' hr'm hrel
    have h6' := h6 _ ha
    simp only [List.all_eq_true] at h6'
    have := h6' r' hr'm
    simp only [Bool.or_eq_true, bne_iff_ne, ne_eq, beq_iff_eq] at this
    rcases this with h' | h'
    · exact absurd hrel h'
    · exact h'
  · intro x hx
    have := h5 x hx
    simpa using this
  · intro t ht
    exact GoodTerm_of_good t (h4 t ht)

/-- **build_valid**: in the fragment, whatever `.why` returns is accepted by `valid`. -/
theorem whyTree_valid (prog : Program) (base M : DB) (rel : String) (tuple : Tuple) (depth : Nat)
    (hf : c21Fragment prog = true) (hd : derivedOnlyHeads prog M = true)
    (hb : goodDB base = true) (hm : goodDB M = true) (ht : tuple.all goodV = true) :
    valid prog base M (whyTree { rules := prog, base := base, derived := some M, maxDepth := depth } rel tuple) = true := by
  let ctx : Ctx := { rules := prog, base := base, derived := some M, maxDepth := depth }
  have hy : Hyp ctx M := ⟨rfl, GoodDB_of_goodDB base hb, GoodDB_of_goodDB M hm,
    fun r hr => derOnly_of prog M hd r (by simpa [Ctx.isDerived] using hr)⟩
  have hrules := RuleHyp_of_fragment ctx M hf
  have hgt : GoodT tuple := by
    intro v hv
    simp only [List.all_eq_true] at ht
    exact ht v hv
  have hgt' : GoodT (truncateToArity ctx rel tuple) := by
    unfold truncateToArity
    split
    · split
      · intro v hv; exact hgt v (List.mem_of_mem_take hv)
      · exact hgt
    · exact hgt
  obtain ⟨b1, _, c1⟩ := (level_ok ctx M hy hrules ctx.maxDepth).1 rel _ {} [] (BInv_empty prog base M) hgt'
  unfold whyTree
  cases hbp : buildProofTree ctx rel tuple with
  | none => simp [valid]
  | some p =>
    obtain ⟨id, b⟩ := p
    simp only
    unfold buildProofTree at hbp
    split at hbp
    · rename_i id' rest hids
      simp only [Option.some.injEq, Prod.mk.injEq] at hbp
      obtain ⟨rfl, rfl⟩ := hbp
      obtain ⟨n, n1, _, _, n4⟩ := c1 id' (by rw [hids]; exact List.mem_cons_self)
      exact valid_unfold prog base M _ b1 (id' + 1) id' n n1 (by omega) n4
    · cases hbp

end ILV.Prov
