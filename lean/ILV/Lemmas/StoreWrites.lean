/-
  The write operations under the "effective requests" discipline: every insert names absent tuples,
  every delete names present ones, no tuple twice in a request. Then the per-tuple sum of the update
  log is exactly the membership indicator of the live set — the invariant behind C11 — and it is
  preserved by inserts, deletes, every maintenance step and restarts.
-/
import ILV.Lemmas.StoreInv
namespace ILV.Store
open ILV ILV.Batch ILV.Props.C31

/-- live-state invariant: `sum(log, t) = [t ∈ live]`, the live vectors have no duplicates. -/
structure LInv (G : String → Tuple → Prop) (e : Engine) : Prop where
  sums : ∀ r t, sumOf t (logOf e r) = if t ∈ liveOf e r then 1 else 0
  nodup : ∀ r, (liveOf e r).Nodup
  liveGood : ∀ r, ∀ t ∈ liveOf e r, G r t

theorem any_eq_iff_mem (t : Tuple) (l : List Tuple) : l.any (Tuple.eq t) = true ↔ t ∈ l := by
  induction l with
  | nil => simp
  | cons x xs ih =>
    simp only [List.any_cons, Bool.or_eq_true, ih, List.mem_cons, tuple_eq_iff_eq]

theorem insertLoop_fresh : ∀ (ts ex : List Tuple) (n d : Nat), ts.Nodup → (∀ t ∈ ts, t ∉ ex) →
    (insertLoop ex n d ts).1 = ex ++ ts := by
  intro ts
  induction ts with
  | nil => intro ex n d _ _; simp [insertLoop]
  | cons t ts ih =>
    intro ex n d hn hab
    rw [List.nodup_cons] at hn
    have ht : ex.any (Tuple.eq t) = false := by
      cases h : ex.any (Tuple.eq t) with
      | false => rfl
      | true => exact absurd ((any_eq_iff_mem t ex).1 h) (hab t (by simp))
    simp only [insertLoop, ht, Bool.false_eq_true, if_false]
    rw [ih (ex ++ [t]) (n + 1) d hn.2]
    · simp
    · intro x hx hmem
      simp only [List.mem_append, List.mem_singleton] at hmem
      rcases hmem with hmem | hmem
      · exact hab x (by simp [hx]) hmem
      · subst hmem; exact hn.1 hx

theorem sumOf_mkUpdates (t : Tuple) (time : Nat) (d : Int) : ∀ (ts : List Tuple), ts.Nodup →
    sumOf t (mkUpdates ts time d) = if t ∈ ts then d else 0 := by
  intro ts
  induction ts with
  | nil => intro _; simp [mkUpdates]
  | cons x xs ih =>
    intro hn
    rw [List.nodup_cons] at hn
    have := ih hn.2
    simp only [mkUpdates, List.map_cons, sumOf_cons] at this ⊢
    rw [this]
    by_cases hx : x = t
    · subst hx; simp [hn.1]
    · have : ¬ t = x := fun e => hx e.symm
      simp [hx, this]

theorem mem_deleteLive (ex rm : List Tuple) (t : Tuple) : t ∈ deleteLive ex rm ↔ t ∈ ex ∧ t ∉ rm := by
  simp only [deleteLive, List.mem_filter, Bool.not_eq_true']
  constructor
  · rintro ⟨h1, h2⟩
    refine ⟨h1, fun hm => ?_⟩
    have := (any_eq_iff_mem t rm).2 hm
    rw [this] at h2; cases h2
  · rintro ⟨h1, h2⟩
    refine ⟨h1, ?_⟩
    cases h : rm.any (Tuple.eq t) with
    | false => rfl
    | true => exact absurd ((any_eq_iff_mem t rm).1 h) h2

theorem liveOf_aset (e : Engine) (rel : String) (l : List Tuple) (ar : List (String × Nat)) (r : String) :
    liveOf { e with live := aset e.live rel l, arity := ar } r = if r = rel then l else liveOf e r := by
  simp only [liveOf, aget_aset]
  by_cases hr : r = rel <;> simp [hr]

theorem liveOf_aset' (e : Engine) (rel : String) (l : List Tuple) (r : String) :
    liveOf { e with live := aset e.live rel l } r = if r = rel then l else liveOf e r := by
  simp only [liveOf, aget_aset]
  by_cases hr : r = rel <;> simp [hr]

theorem PInv_congr {G} {e e' : Engine} (h : PInv G e) (h1 : e'.cfg = e.cfg) (h2 : e'.shards = e.shards)
    (h3 : e'.wal = e.wal) (h4 : e'.walBuf = e.walBuf) (h5 : e'.dead = e.dead) : PInv G e' := by
  have hs : ∀ r, shardOf e' r = shardOf e r := fun r => by simp [shardOf, h2]
  refine ⟨by rw [h5]; exact h.notDead, by rw [h2]; exact h.keysNodup, ?_, ?_, ?_, ?_, ?_⟩
  · intro r; rw [hs]; exact h.disk r
  · intro r u hu; simp only [logOf, hs] at hu; exact h.good r u hu
  · intro p hp; rw [h3, h4] at hp; exact h.walGood p hp
  · intro r hr; simp only [bufferOf, hs] at hr; rw [h3, h4]; exact h.walEmpty r hr
  · intro hm; rw [h1] at hm; have := h.walImm hm
    exact ⟨by rw [h4]; exact this.1, fun r => by rw [h3]; simp only [bufferOf, hs]; exact this.2 r⟩

theorem logOf_congr {e e' : Engine} (h2 : e'.shards = e.shards) (r : String) : logOf e' r = logOf e r := by
  simp [logOf, shardOf, h2]

/-- an effective insert keeps both invariants. -/
theorem insert_spec {c : Codec} {G} (hc : CodecOk c G) (e : Engine) (rel : String) (ts : List Tuple)
    (hP : PInv G e) (hL : LInv G e) (hn : ts.Nodup) (hab : ∀ t ∈ ts, t ∉ liveOf e rel) (hg : ∀ t ∈ ts, G rel t) :
    PInv G (insert c e rel ts).1 ∧ LInv G (insert c e rel ts).1 ∧ (insert c e rel ts).1.cfg = e.cfg := by
  show PInv G (insertCore c e rel ts).1 ∧ LInv G (insertCore c e rel ts).1 ∧ (insertCore c e rel ts).1.cfg = e.cfg
  unfold insertCore
  cases ts with
  | nil => exact ⟨hP, hL, rfl⟩
  | cons first rest =>
    simp only
    split
    · exact ⟨hP, hL, rfl⟩
    · split
      · exact ⟨hP, hL, rfl⟩
      · -- the write goes through
        have hP0 : PInv G { e with time := e.time + 1 } := PInv_congr hP rfl rfl rfl rfl rfl
        obtain ⟨e1P, e1M, _, e1L⟩ := ensureShard_spec (G := G) { e with time := e.time + 1 } rel hP0
        have hgu : ∀ u ∈ mkUpdates (first :: rest) e.time 1, G rel u.data := by
          intro u hu
          simp only [mkUpdates, List.mem_map] at hu
          obtain ⟨t, ht, rfl⟩ := hu
          exact hg t ht
        obtain ⟨a1, a2, a3, a4, a5, _, a7, _⟩ := append_spec hc (ensureShard { e with time := e.time + 1 } rel) rel
          (mkUpdates (first :: rest) e.time 1) e1P hgu
        have happ : append c (ensureShard { e with time := e.time + 1 } rel) rel (mkUpdates (first :: rest) e.time 1)
            = ((append c (ensureShard { e with time := e.time + 1 } rel) rel (mkUpdates (first :: rest) e.time 1)).1, none) := by
          rw [← a1]
        rw [happ]
        simp only
        generalize (append c (ensureShard { e with time := e.time + 1 } rel) rel (mkUpdates (first :: rest) e.time 1)).1 = e2
          at a2 a3 a4 a5 a7
        have hlive2 : e2.live = e.live := by rw [a4, e1M.live]
        have hex : (aget e2.live rel).getD [] = liveOf e rel := by simp [liveOf, hlive2]
        rw [hex]
        have hloop := insertLoop_fresh (first :: rest) (liveOf e rel) 0 0 hn hab
        rcases hil : insertLoop (liveOf e rel) 0 0 (first :: rest) with ⟨l, n, d⟩
        rw [hil] at hloop
        simp only at hloop
        simp only
        have hlog : ∀ r, logOf e2 r = if r = rel then logOf e rel ++ mkUpdates (first :: rest) e.time 1 else logOf e r := by
          intro r
          rw [a7 r]
          by_cases hr : r = rel
          · simp only [hr, if_true]; rw [e1L rel]; rfl
          · simp only [hr, if_false]; rw [e1L r]; rfl
        refine ⟨PInv_congr a2 rfl rfl rfl rfl rfl, ?_, by simpa using a3.trans e1M.cfg⟩
        have hliveOf : ∀ r, liveOf { e2 with live := aset e2.live rel l, arity := aset e2.arity rel first.length } r
            = if r = rel then liveOf e rel ++ (first :: rest) else liveOf e r := by
          intro r
          rw [liveOf_aset, hloop]
          by_cases hr : r = rel
          · simp [hr]
          · simp [hr, liveOf, hlive2]
        refine ⟨?_, ?_, ?_⟩
        · intro r t
          rw [hliveOf]
          change sumOf t (logOf e2 r) = _
          rw [hlog]
          by_cases hr : r = rel
          · subst hr
            simp only [if_true, sumOf_append, sumOf_mkUpdates t e.time 1 _ hn, hL.sums r t, List.mem_append]
            by_cases h1 : t ∈ liveOf e r
            · have h2 : t ∉ first :: rest := fun hm => hab t hm h1
              simp [h1, h2]
            · by_cases h2 : t ∈ first :: rest
              · simp [h1, h2]
              · simp [h1, h2]
          · simp only [hr, if_false]; exact hL.sums r t
        · intro r
          rw [hliveOf]
          by_cases hr : r = rel
          · subst hr
            simp only [if_true]
            rw [List.nodup_append]
            exact ⟨hL.nodup r, hn, fun a ha b hb e' => hab b hb (e' ▸ ha)⟩
          · simp only [hr, if_false]; exact hL.nodup r
        · intro r t ht
          rw [hliveOf] at ht
          by_cases hr : r = rel
          · subst hr
            simp only [if_true, List.mem_append] at ht
            rcases ht with ht | ht
            · exact hL.liveGood r t ht
            · exact hg t ht
          · simp only [hr, if_false] at ht; exact hL.liveGood r t ht

/-- an effective delete (after the arity filter) keeps both invariants. -/
theorem deleteRaw_spec {c : Codec} {G} (hc : CodecOk c G) (e : Engine) (rel : String) (ts : List Tuple)
    (hP : PInv G e) (hL : LInv G e) (hn : ts.Nodup) (hpr : ∀ t ∈ ts, t ∈ liveOf e rel) :
    PInv G (deleteCoreRaw c e rel ts).1 ∧ LInv G (deleteCoreRaw c e rel ts).1 ∧ (deleteCoreRaw c e rel ts).1.cfg = e.cfg := by
  unfold deleteCoreRaw
  cases ts with
  | nil => exact ⟨hP, hL, rfl⟩
  | cons first rest =>
    simp only
    have hP0 : PInv G { e with time := e.time + 1 } := PInv_congr hP rfl rfl rfl rfl rfl
    obtain ⟨e1P, e1M, _, e1L⟩ := ensureShard_spec (G := G) { e with time := e.time + 1 } rel hP0
    have hgu : ∀ u ∈ mkUpdates (first :: rest) e.time (-1), G rel u.data := by
      intro u hu
      simp only [mkUpdates, List.mem_map] at hu
      obtain ⟨t, ht, rfl⟩ := hu
      exact hL.liveGood rel t (hpr t ht)
    obtain ⟨a1, a2, a3, a4, a5, _, a7, _⟩ := append_spec hc (ensureShard { e with time := e.time + 1 } rel) rel
      (mkUpdates (first :: rest) e.time (-1)) e1P hgu
    have happ : append c (ensureShard { e with time := e.time + 1 } rel) rel (mkUpdates (first :: rest) e.time (-1))
        = ((append c (ensureShard { e with time := e.time + 1 } rel) rel (mkUpdates (first :: rest) e.time (-1))).1, none) := by
      rw [← a1]
    rw [happ]
    simp only
    generalize (append c (ensureShard { e with time := e.time + 1 } rel) rel (mkUpdates (first :: rest) e.time (-1))).1 = e2
      at a2 a3 a4 a5 a7
    have hlive2 : e2.live = e.live := by rw [a4, e1M.live]
    have hlog : ∀ r, logOf e2 r = if r = rel then logOf e rel ++ mkUpdates (first :: rest) e.time (-1) else logOf e r := by
      intro r
      rw [a7 r]
      by_cases hr : r = rel
      · simp only [hr, if_true]; rw [e1L rel]; rfl
      · simp only [hr, if_false]; rw [e1L r]; rfl
    have hfirst : first ∈ liveOf e rel := hpr first (by simp)
    cases hg : aget e2.live rel with
    | none =>
      exfalso
      rw [hlive2] at hg
      simp [liveOf, hg] at hfirst
    | some ex =>
      have hex : liveOf e rel = ex := by rw [hlive2] at hg; simp [liveOf, hg]
      simp only
      -- both branches (n > 0 or not) set the same live vector
      have key : ∀ (ar : List (String × Nat)),
          LInv G { e2 with live := aset e2.live rel (deleteLive ex (first :: rest)), arity := ar } := by
        intro ar
        have hliveOf : ∀ r, liveOf { e2 with live := aset e2.live rel (deleteLive ex (first :: rest)), arity := ar } r
            = if r = rel then deleteLive ex (first :: rest) else liveOf e r := by
          intro r
          rw [liveOf_aset]
          by_cases hr : r = rel
          · simp [hr]
          · simp [hr, liveOf, hlive2]
        refine ⟨?_, ?_, ?_⟩
        · intro r t
          rw [hliveOf]
          change sumOf t (logOf e2 r) = _
          rw [hlog]
          by_cases hr : r = rel
          · subst hr
            simp only [if_true, sumOf_append, sumOf_mkUpdates t e.time (-1) _ hn, hL.sums r t, mem_deleteLive, hex]
            by_cases h2 : t ∈ first :: rest
            · have h1 : t ∈ ex := by rw [← hex]; exact hpr t h2
              simp [h1, h2]
            · by_cases h1 : t ∈ ex <;> simp [h1, h2]
          · simp only [hr, if_false]; exact hL.sums r t
        · intro r
          rw [hliveOf]
          by_cases hr : r = rel
          · subst hr
            simp only [if_true, deleteLive]
            have := hL.nodup r
            rw [hex] at this
            exact this.filter _
          · simp only [hr, if_false]; exact hL.nodup r
        · intro r t ht
          rw [hliveOf] at ht
          by_cases hr : r = rel
          · subst hr
            simp only [if_true, mem_deleteLive] at ht
            exact hL.liveGood r t (by rw [hex]; exact ht.1)
          · simp only [hr, if_false] at ht; exact hL.liveGood r t ht
      split
      · exact ⟨PInv_congr a2 rfl rfl rfl rfl rfl, key _, by simpa using a3.trans e1M.cfg⟩
      · refine ⟨PInv_congr a2 rfl rfl rfl rfl rfl, ?_, by simpa using a3.trans e1M.cfg⟩
        have := key e2.arity
        exact this

end ILV.Store
