/-
  Every rewrite rule of the basic optimizer preserves the denotation `eval` (as a list, hence as a
  bag and as a set) on well-formed trees; proofs by mutual structural induction over all trees.
-/
import ILV.Lemmas.IRBasic
namespace ILV.IR
open ILV

/-! ### rows of a well-formed tree have the declared width -/

theorem mem_joinRows {L R : List Tuple} {lk rk : List Nat} {row : Tuple} (h : row ∈ joinRows L R lk rk) :
    ∃ l ∈ L, ∃ r ∈ R, joinRow lk rk l r = some row := by
  simp only [joinRows, List.mem_flatMap, List.mem_filterMap] at h
  obtain ⟨l, hl, r, hr, e⟩ := h
  exact ⟨l, hl, r, hr, e⟩

theorem joinRow_length {lk rk : List Nat} {l r row : Tuple} (h : joinRow lk rk l r = some row) :
    row.length = joinWidth l.length r.length lk rk := by
  unfold joinRow at h
  unfold joinWidth
  split at h
  · rename_i hc
    simp at h; subst h; simp [hc]
  · rename_i hc
    split at h
    · simp at h; subst h
      simp only [hc, List.length_append, excluding, excludingAux_length]
      simp
    · simp at h

mutual
theorem rowsOk (db : Db) : ∀ t, wf db t = true → ∀ row ∈ eval db t, row.length = width t
  | .scan rel s, h, row, hr => by
    simp only [wf, List.all_eq_true, beq_iff_eq] at h
    simpa [width, schema] using h row (by simpa [eval] using hr)
  | .map i proj s, h, row, hr => by
    simp only [wf, Bool.and_eq_true, beq_iff_eq] at h
    obtain ⟨⟨hi, hp⟩, hs⟩ := h
    simp only [eval, List.mem_map] at hr
    obtain ⟨t, ht, rfl⟩ := hr
    have := rowsOk db i hi t ht
    rw [project_length (fun j hj => by rw [this]; exact allLt_iff.1 hp j hj)]
    simp [width, schema, hs]
  | .filter i p, h, row, hr => by
    simp only [wf, Bool.and_eq_true] at h
    simp only [eval, List.mem_filter] at hr
    simpa [width, schema] using rowsOk db i h.1 row hr.1
  | .join l r lk rk s, h, row, hr => by
    simp only [wf, Bool.and_eq_true, beq_iff_eq] at h
    obtain ⟨⟨⟨⟨⟨⟨hl, hr'⟩, _⟩, _⟩, hs⟩, _⟩, _⟩ := h
    obtain ⟨a, ha, b, hb, e⟩ := mem_joinRows (by simpa [eval] using hr)
    rw [joinRow_length e, rowsOk db l hl a ha, rowsOk db r hr' b hb]
    simp [width, schema, hs]
  | .distinct i, h, row, hr => by
    simp only [wf] at h
    simp only [eval, mem_dedup] at hr
    simpa [width, schema] using rowsOk db i h row hr
  | .union is, h, row, hr => by
    simp only [wf, Bool.and_eq_true] at h
    simp only [eval] at hr
    simpa [width, schema] using rowsOkL db is _ h.1.2 h.2 row hr
  | .aggregate i gb aggs s, h, row, hr => by
    simp only [wf, Bool.and_eq_true, beq_iff_eq] at h
    obtain ⟨⟨⟨hi, hg⟩, hs⟩, _⟩ := h
    simp only [eval, aggRows, List.mem_map, mem_dedup] at hr
    obtain ⟨k, ⟨t, ht, rfl⟩, rfl⟩ := hr
    have := rowsOk db i hi t ht
    simp only [List.length_append, List.length_map]
    rw [project_length (fun j hj => by rw [this]; exact allLt_iff.1 hg j hj)]
    simp [width, schema, hs]
  | .antijoin l r lk rk s, h, row, hr => by
    simp only [wf, Bool.and_eq_true, beq_iff_eq] at h
    obtain ⟨⟨⟨⟨hl, _⟩, _⟩, _⟩, hs⟩ := h
    simp only [eval, antiRows, List.mem_filter] at hr
    have := rowsOk db l hl row hr.1
    simp [width, schema, hs, this] at *
  | .compute i es, h, row, hr => by
    simp only [wf] at h
    simp only [eval, List.mem_map] at hr
    obtain ⟨t, ht, rfl⟩ := hr
    have := rowsOk db i h t ht
    simp [width, schema, computeRow_length, this] at *
  | .hnsw .., _, row, hr => by simp [eval] at hr
  | .flatMap i proj fp s, h, row, hr => by
    simp only [wf, Bool.and_eq_true, beq_iff_eq] at h
    obtain ⟨⟨hi, hp⟩, hs⟩ := h
    simp only [eval, List.mem_filterMap, flatMapRow] at hr
    obtain ⟨t, ht, e⟩ := hr
    split at e
    · simp at e; subst e
      have := rowsOk db i hi t ht
      rw [project_length (fun j hj => by rw [this]; exact allLt_iff.1 hp j hj)]
      simp [width, schema, hs]
    · simp at e
  | .joinFlatMap l r lk rk proj fp s, h, row, hr => by
    simp only [wf, Bool.and_eq_true, beq_iff_eq] at h
    obtain ⟨⟨⟨⟨⟨hl, hr'⟩, _⟩, _⟩, hp⟩, hs⟩ := h
    simp only [eval, jfmRows, List.mem_flatMap, List.mem_filterMap, jfmRow, flatMapRow] at hr
    obtain ⟨a, ha, b, hb, e⟩ := hr
    split at e
    · split at e
      · simp at e; subst e
        have h1 := rowsOk db l hl a ha
        have h2 := rowsOk db r hr' b hb
        rw [project_length (fun j hj => by simp [h1, h2]; exact allLt_iff.1 hp j hj)]
        simp [width, schema, hs]
      · simp at e
    · simp at e
theorem rowsOkL (db : Db) : ∀ ts w, wfL db ts = true → sameWidth w ts = true → ∀ row ∈ evalList db ts, row.length = w
  | .nil, _, _, _, row, hr => by simp [evalList] at hr
  | .cons t ts, w, h, hw, row, hr => by
    simp only [wfL, Bool.and_eq_true] at h
    simp only [sameWidth, Bool.and_eq_true, beq_iff_eq] at hw
    simp only [evalList, List.mem_append] at hr
    rcases hr with hr | hr
    · rw [← hw.1]; exact rowsOk db t h.1 row hr
    · exact rowsOkL db ts w h.2 hw.2 row hr
end

end ILV.IR

namespace ILV.IR
open ILV

/-! ### "`t'` may replace `t`": well-formed, same width, same rows -/

structure Ok (db : Db) (t t' : Node) : Prop where
  w : wf db t' = true
  wd : width t' = width t
  ev : eval db t' = eval db t

structure OkL (db : Db) (ts ts' : NodeList) : Prop where
  w : wfL db ts' = true
  first : (schemaFirst ts').length = (schemaFirst ts).length
  same : ∀ w, sameWidth w ts = true → sameWidth w ts' = true
  empty : ts'.isEmpty = ts.isEmpty
  ev : evalList db ts' = evalList db ts

theorem Ok.refl {db : Db} {t : Node} (h : wf db t = true) : Ok db t t := ⟨h, rfl, rfl⟩

theorem Ok.trans {db : Db} {a b c : Node} (h1 : Ok db a b) (h2 : Ok db b c) : Ok db a c :=
  ⟨h2.w, h2.wd.trans h1.wd, h2.ev.trans h1.ev⟩

theorem OkL.nil {db : Db} : OkL db .nil .nil := ⟨rfl, rfl, fun _ h => h, rfl, rfl⟩

theorem OkL.cons {db : Db} {t t' : Node} {ts ts' : NodeList} (h : Ok db t t') (hs : OkL db ts ts') :
    OkL db (.cons t ts) (.cons t' ts') where
  w := by simp [wfL, h.w, hs.w]
  first := by simpa [schemaFirst, IR.width] using h.wd
  same := fun w hw => by
    simp only [sameWidth, Bool.and_eq_true, beq_iff_eq] at hw ⊢
    exact ⟨by rw [h.wd]; exact hw.1, hs.same w hw.2⟩
  empty := rfl
  ev := by simp [evalList, h.ev, hs.ev]

theorem Ok.map {db : Db} {i i' : Node} {proj : List Nat} {s : List String}
    (h : wf db (.map i proj s) = true) (hi : Ok db i i') : Ok db (.map i proj s) (.map i' proj s) where
  w := by simp only [IR.wf, Bool.and_eq_true] at h ⊢; simp_all [hi.w, hi.wd]
  wd := rfl
  ev := by simp [IR.eval, hi.ev]

theorem Ok.filter {db : Db} {i i' : Node} {p : Pred}
    (h : wf db (.filter i p) = true) (hi : Ok db i i') : Ok db (.filter i p) (.filter i' p) where
  w := by simp only [IR.wf, Bool.and_eq_true] at h ⊢; simp_all [hi.w]
  wd := by simpa [IR.width, schema] using hi.wd
  ev := by simp [IR.eval, hi.ev]

theorem Ok.join {db : Db} {l l' r r' : Node} {lk rk : List Nat} {s : List String}
    (h : wf db (.join l r lk rk s) = true) (hl : Ok db l l') (hr : Ok db r r') :
    Ok db (.join l r lk rk s) (.join l' r' lk rk s) where
  w := by simp only [IR.wf, Bool.and_eq_true] at h ⊢; simp_all [hl.w, hr.w, hl.wd, hr.wd]
  wd := rfl
  ev := by simp [IR.eval, hl.ev, hr.ev]

theorem Ok.antijoin {db : Db} {l l' r r' : Node} {lk rk : List Nat} {s : List String}
    (h : wf db (.antijoin l r lk rk s) = true) (hl : Ok db l l') (hr : Ok db r r') :
    Ok db (.antijoin l r lk rk s) (.antijoin l' r' lk rk s) where
  w := by simp only [IR.wf, Bool.and_eq_true] at h ⊢; simp_all [hl.w, hr.w, hl.wd, hr.wd]
  wd := rfl
  ev := by simp [IR.eval, hl.ev, hr.ev]

theorem Ok.distinct {db : Db} {i i' : Node}
    (_h : wf db (.distinct i) = true) (hi : Ok db i i') : Ok db (.distinct i) (.distinct i') where
  w := by simp [IR.wf, hi.w]
  wd := by simpa [IR.width, schema] using hi.wd
  ev := by simp [IR.eval, hi.ev]

theorem Ok.union {db : Db} {is is' : NodeList}
    (h : wf db (.union is) = true) (hi : OkL db is is') : Ok db (.union is) (.union is') where
  w := by
    simp only [IR.wf, Bool.and_eq_true] at h ⊢
    refine ⟨⟨by simpa [hi.empty] using h.1.1, hi.w⟩, ?_⟩
    rw [hi.first]; exact hi.same _ h.2
  wd := by simpa [IR.width, schema] using hi.first
  ev := by simp [IR.eval, hi.ev]

theorem Ok.aggregate {db : Db} {i i' : Node} {gb : List Nat} {aggs : List (Agg × Nat)} {s : List String}
    (h : wf db (.aggregate i gb aggs s) = true) (hi : Ok db i i') :
    Ok db (.aggregate i gb aggs s) (.aggregate i' gb aggs s) where
  w := by
    simp only [IR.wf, Bool.and_eq_true] at h ⊢
    exact ⟨⟨⟨hi.w, by rw [hi.wd]; exact h.1.1.2⟩, h.1.2⟩, h.2⟩
  wd := rfl
  ev := by simp [IR.eval, hi.ev]

theorem Ok.compute {db : Db} {i i' : Node} {es : List (String × Expr)}
    (_h : wf db (.compute i es) = true) (hi : Ok db i i') : Ok db (.compute i es) (.compute i' es) where
  w := by simp [IR.wf, hi.w]
  wd := by
    have := hi.wd
    simp only [IR.width, schema, List.length_append] at this ⊢
    omega
  ev := by simp [IR.eval, hi.ev]

theorem Ok.flatMap {db : Db} {i i' : Node} {proj : List Nat} {fp : Option Pred} {s : List String}
    (h : wf db (.flatMap i proj fp s) = true) (hi : Ok db i i') :
    Ok db (.flatMap i proj fp s) (.flatMap i' proj fp s) where
  w := by simp only [IR.wf, Bool.and_eq_true] at h ⊢; simp_all [hi.w, hi.wd]
  wd := rfl
  ev := by simp [IR.eval, hi.ev]

theorem Ok.joinFlatMap {db : Db} {l l' r r' : Node} {lk rk proj : List Nat} {fp : Option Pred} {s : List String}
    (h : wf db (.joinFlatMap l r lk rk proj fp s) = true) (hl : Ok db l l') (hr : Ok db r r') :
    Ok db (.joinFlatMap l r lk rk proj fp s) (.joinFlatMap l' r' lk rk proj fp s) where
  w := by simp only [IR.wf, Bool.and_eq_true] at h ⊢; simp_all [hl.w, hr.w, hl.wd, hr.wd]
  wd := rfl
  ev := by simp [IR.eval, hl.ev, hr.ev]

/-- sub-tree well-formedness projections -/
theorem wf_map {db : Db} {i : Node} {proj s} (h : wf db (.map i proj s) = true) : wf db i = true := by
  simp only [wf, Bool.and_eq_true] at h; exact h.1.1
theorem wf_filter {db : Db} {i : Node} {p} (h : wf db (.filter i p) = true) : wf db i = true := by
  simp only [wf, Bool.and_eq_true] at h; exact h.1
theorem wf_join {db : Db} {l r : Node} {lk rk s} (h : wf db (.join l r lk rk s) = true) : wf db l = true ∧ wf db r = true := by
  simp only [wf, Bool.and_eq_true] at h; exact ⟨h.1.1.1.1.1.1, h.1.1.1.1.1.2⟩
theorem wf_antijoin {db : Db} {l r : Node} {lk rk s} (h : wf db (.antijoin l r lk rk s) = true) : wf db l = true ∧ wf db r = true := by
  simp only [wf, Bool.and_eq_true] at h; exact ⟨h.1.1.1.1, h.1.1.1.2⟩
theorem wf_distinct {db : Db} {i : Node} (h : wf db (.distinct i) = true) : wf db i = true := by
  simpa [wf] using h
theorem wf_union {db : Db} {is : NodeList} (h : wf db (.union is) = true) : wfL db is = true := by
  simp only [wf, Bool.and_eq_true] at h; exact h.1.2
theorem wf_aggregate {db : Db} {i : Node} {gb aggs s} (h : wf db (.aggregate i gb aggs s) = true) : wf db i = true := by
  simp only [wf, Bool.and_eq_true] at h; exact h.1.1.1
theorem wf_compute {db : Db} {i : Node} {es} (h : wf db (.compute i es) = true) : wf db i = true := by
  simpa [wf] using h
theorem wf_flatMap {db : Db} {i : Node} {proj fp s} (h : wf db (.flatMap i proj fp s) = true) : wf db i = true := by
  simp only [wf, Bool.and_eq_true] at h; exact h.1.1
theorem wf_joinFlatMap {db : Db} {l r : Node} {lk rk proj fp s} (h : wf db (.joinFlatMap l r lk rk proj fp s) = true) :
    wf db l = true ∧ wf db r = true := by
  simp only [wf, Bool.and_eq_true] at h; exact ⟨h.1.1.1.1.1, h.1.1.1.1.2⟩
theorem wfL_cons {db : Db} {t : Node} {ts : NodeList} (h : wfL db (.cons t ts) = true) : wf db t = true ∧ wfL db ts = true := by
  simpa [wfL] using h

end ILV.IR
