/-
  C18: every safe step preserves the materialisation invariant.
-/
import ILV.Lemmas.IncrInv
namespace ILV.C18

abbrev b2dOf (i : Inc) (r : Name) : List Name := (aget i.b2d r).getD []

/-! ### the manager's operations -/

theorem mem_cascade_acc (i : Inc) (k : Nat) (todo acc : List Name) (x : Name) (h : x ∈ acc) :
    x ∈ cascade i k todo acc := by
  induction k generalizing todo acc with
  | zero => simpa [cascade] using h
  | succ k ih =>
    cases todo with
    | nil => simpa [cascade] using h
    | cons r todo =>
      simp only [cascade]
      exact ih _ _ (List.mem_append_left _ h)

theorem direct_in_inv (i : Inc) (r n : Name) (h1 : n ∈ b2dOf i r) (h2 : isValid i n = true) :
    n ∈ invalidationSet i r := by
  unfold invalidationSet
  exact mem_cascade_acc _ _ _ _ _ (List.mem_filter.mpr ⟨h1, h2⟩)

def invF (i : Inc) (r : Name) (n : Name) (m : Mat) : Mat :=
  if n ∈ invalidationSet i r then { m with valid := false } else m

theorem notify_mats_eq (i : Inc) (r : Name) :
    (i.notify r).mats = i.mats.map fun p => (p.1, invF i r p.1 p.2) := by
  unfold Inc.notify invF
  simp only
  apply List.map_congr_left
  intro p _
  split <;> rfl

theorem notify_valid (i : Inc) (r n : Name) (m : Mat) (h : aget (i.notify r).mats n = some m) (hv : m.valid = true) :
    aget i.mats n = some m ∧ n ∉ b2dOf i r := by
  rw [notify_mats_eq, aget_map_val i.mats (invF i r)] at h
  cases hg : aget i.mats n with
  | none => simp [hg] at h
  | some m0 =>
    simp only [hg, Option.map_some, Option.some.injEq, invF] at h
    by_cases hin : n ∈ invalidationSet i r
    · simp only [hin, if_true] at h
      rw [← h] at hv
      simp at hv
    · simp only [hin, if_false] at h
      subst h
      refine ⟨rfl, ?_⟩
      intro hb
      exact hin (direct_in_inv i r n hb ((isValid_iff i n).mpr ⟨m0, hg, hv⟩))

theorem notify_b2d (i : Inc) (r : Name) : (i.notify r).b2d = i.b2d := rfl
theorem notify_d2d (i : Inc) (r : Name) : (i.notify r).d2d = i.d2d := rfl
theorem notify_keys (i : Inc) (r : Name) : akeys (i.notify r).mats = akeys i.mats := by
  rw [notify_mats_eq, akeys_map_val i.mats (invF i r)]

theorem foldNotify_b2d (rs : List Name) (i : Inc) : (rs.foldl Inc.notify i).b2d = i.b2d := by
  induction rs generalizing i with
  | nil => rfl
  | cons r rs ih => simp only [List.foldl_cons]; rw [ih]; rfl

theorem foldNotify_d2d (rs : List Name) (i : Inc) : (rs.foldl Inc.notify i).d2d = i.d2d := by
  induction rs generalizing i with
  | nil => rfl
  | cons r rs ih => simp only [List.foldl_cons]; rw [ih]; rfl

theorem foldNotify_keys (rs : List Name) (i : Inc) : akeys (rs.foldl Inc.notify i).mats = akeys i.mats := by
  induction rs generalizing i with
  | nil => rfl
  | cons r rs ih => simp only [List.foldl_cons]; rw [ih, notify_keys]

theorem foldNotify_valid (rs : List Name) (i : Inc) (n : Name) (m : Mat)
    (h : aget (rs.foldl Inc.notify i).mats n = some m) (hv : m.valid = true) :
    aget i.mats n = some m ∧ ∀ r ∈ rs, n ∉ b2dOf i r := by
  induction rs generalizing i with
  | nil => exact ⟨h, by simp⟩
  | cons r rs ih =>
    simp only [List.foldl_cons] at h
    obtain ⟨h1, h2⟩ := ih _ h
    obtain ⟨h3, h4⟩ := notify_valid i r n m h1 hv
    refine ⟨h3, ?_⟩
    intro r' hr'
    rcases List.mem_cons.mp hr' with e | e
    · subst e; exact h4
    · exact h2 r' e

/-- `register`'s update of `base_to_derived`. -/
def regB2d (b2d : List (Name × List Name)) (deps : List Name) (n : Name) : List (Name × List Name) :=
  deps.foldl (fun acc b => aset acc b (sins ((aget acc b).getD []) n)) b2d

theorem regB2d_mono (b2d : List (Name × List Name)) (deps : List Name) (n x r : Name)
    (h : x ∈ (aget b2d r).getD []) : x ∈ (aget (regB2d b2d deps n) r).getD [] := by
  unfold regB2d
  induction deps generalizing b2d with
  | nil => exact h
  | cons b deps ih =>
    simp only [List.foldl_cons]
    apply ih
    by_cases hb : b = r
    · subst hb
      rw [aget_aset_eq]
      exact (mem_sins _ _ _).mpr (Or.inl h)
    · rw [aget_aset_ne _ _ _ _ hb]; exact h

theorem regB2d_new (b2d : List (Name × List Name)) (deps : List Name) (n r : Name) (h : r ∈ deps) :
    n ∈ (aget (regB2d b2d deps n) r).getD [] := by
  induction deps generalizing b2d with
  | nil => simp at h
  | cons b deps ih =>
    rcases List.mem_cons.mp h with e | e
    · subst e
      have : n ∈ (aget (aset b2d r (sins ((aget b2d r).getD []) n)) r).getD [] := by
        rw [aget_aset_eq]; exact (mem_sins _ _ _).mpr (Or.inr rfl)
      exact regB2d_mono _ deps n n r this
    · exact ih _ e

theorem register_b2d (i : Inc) (n : Name) (deps : List Name) : (i.register n deps).b2d = regB2d i.b2d deps n := rfl
theorem register_mats (i : Inc) (n : Name) (deps : List Name) : (i.register n deps).mats = i.mats := rfl
theorem register_d2d (i : Inc) (n : Name) (deps : List Name) : (i.register n deps).d2d = i.d2d := rfl

theorem mem_clauseDeps (c : Clause) (r : Name) : r ∈ clauseDeps c ↔ r ∈ bodyRels c ∧ r ≠ c.head.rel := by
  simp [clauseDeps, mem_dedupNames, List.mem_filter]

/-- `remove`'s update of `base_to_derived`. -/
def remB2d (b2d : List (Name × List Name)) (deps : List Name) (n : Name) : List (Name × List Name) :=
  deps.foldl (fun acc b => match aget acc b with
    | some ds => aset acc b (ds.filter (· ≠ n))
    | none => acc) b2d

theorem remB2d_keep (b2d : List (Name × List Name)) (deps : List Name) (n x r : Name) (hx : x ≠ n)
    (h : x ∈ (aget b2d r).getD []) : x ∈ (aget (remB2d b2d deps n) r).getD [] := by
  unfold remB2d
  induction deps generalizing b2d with
  | nil => exact h
  | cons b deps ih =>
    simp only [List.foldl_cons]
    apply ih
    cases hg : aget b2d b with
    | none => exact h
    | some ds =>
      simp only
      by_cases hb : b = r
      · subst hb
        rw [aget_aset_eq]
        rw [hg] at h
        simp only [Option.getD_some] at h ⊢
        exact List.mem_filter.mpr ⟨h, by simpa using hx⟩
      · rw [aget_aset_ne _ _ _ _ hb]; exact h

theorem remove_b2d_keep (i : Inc) (n x r : Name) (hx : x ≠ n) (h : x ∈ b2dOf i r) : x ∈ b2dOf (i.remove n) r := by
  unfold b2dOf Inc.remove
  simp only
  cases hg : aget i.d2b n with
  | none => exact h
  | some deps => exact remB2d_keep i.b2d deps n x r hx h

theorem remove_mats (i : Inc) (n : Name) : (i.remove n).mats = aerase i.mats n := rfl
theorem remove_d2d (i : Inc) (n : Name) : (i.remove n).d2d = aerase i.d2d n := rfl

theorem foldRemove_spec (ns : List Name) (i : Inc) (hn : (akeys i.mats).Nodup) (hd : i.d2d = []) :
    (akeys (ns.foldl Inc.remove i).mats).Nodup ∧ (ns.foldl Inc.remove i).d2d = [] ∧
    ∀ n m, aget (ns.foldl Inc.remove i).mats n = some m →
      aget i.mats n = some m ∧ n ∉ ns ∧ ∀ r, n ∈ b2dOf i r → n ∈ b2dOf (ns.foldl Inc.remove i) r := by
  induction ns generalizing i with
  | nil => exact ⟨hn, hd, fun n m h => ⟨h, by simp, fun _ h => h⟩⟩
  | cons a ns ih =>
    simp only [List.foldl_cons]
    have hn1 : (akeys (i.remove a).mats).Nodup := by rw [remove_mats]; exact nodup_aerase a hn
    have hd1 : (i.remove a).d2d = [] := by rw [remove_d2d, hd]; rfl
    obtain ⟨h1, h2, h3⟩ := ih (i.remove a) hn1 hd1
    refine ⟨h1, h2, ?_⟩
    intro n m hm
    obtain ⟨h4, h5, h6⟩ := h3 n m hm
    rw [remove_mats] at h4
    have hne : a ≠ n := by
      intro e; subst e
      rw [aget_aerase_eq] at h4; cases h4
    rw [aget_aerase_ne _ _ _ hne] at h4
    refine ⟨h4, ?_, ?_⟩
    · intro hmem
      rcases List.mem_cons.mp hmem with e | e
      · exact hne e.symm
      · exact h5 e
    · intro r hr
      exact h6 r (remove_b2d_keep i a n r (fun e => hne e.symm) hr)

/-! ### small list facts -/

theorem mem_removeAt {α} (l : List α) (k : Nat) (x : α) (h : x ∈ removeAt l k) : x ∈ l := by
  induction l generalizing k with
  | nil => simp [removeAt] at h
  | cons a l ih =>
    cases k with
    | zero => simp only [removeAt] at h; exact List.mem_cons_of_mem _ h
    | succ k =>
      simp only [removeAt, List.mem_cons] at h
      rcases h with e | e
      · subst e; simp
      · exact List.mem_cons_of_mem _ (ih k e)

theorem mem_replaceAt {α} (l : List α) (k : Nat) (v x : α) (h : x ∈ replaceAt l k v) : x = v ∨ x ∈ l := by
  induction l generalizing k with
  | nil => simp [replaceAt] at h
  | cons a l ih =>
    cases k with
    | zero =>
      simp only [replaceAt, List.mem_cons] at h
      rcases h with e | e
      · exact Or.inl e
      · exact Or.inr (List.mem_cons_of_mem _ e)
    | succ k =>
      simp only [replaceAt, List.mem_cons] at h
      rcases h with e | e
      · subst e; exact Or.inr (by simp)
      · rcases ih k e with e' | e'
        · exact Or.inl e'
        · exact Or.inr (List.mem_cons_of_mem _ e')

theorem mem_insertSorted (n x : Name) (l : List Name) : x ∈ insertSorted n l ↔ x = n ∨ x ∈ l := by
  induction l with
  | nil => simp [insertSorted]
  | cons a l ih =>
    cases h : nameLe n a with
    | true => simp [insertSorted, h]
    | false =>
      simp only [insertSorted, h, Bool.false_eq_true, if_false, List.mem_cons, ih]
      constructor
      · rintro (e | e | e)
        · exact Or.inr (Or.inl e)
        · exact Or.inl e
        · exact Or.inr (Or.inr e)
      · rintro (e | e | e)
        · exact Or.inr (Or.inl e)
        · exact Or.inl e
        · exact Or.inr (Or.inr e)

theorem mem_sortNames (l : List Name) (x : Name) : x ∈ sortNames l ↔ x ∈ l := by
  induction l with
  | nil => simp [sortNames]
  | cons a l ih =>
    have : sortNames (a :: l) = insertSorted a (sortNames l) := rfl
    rw [this, mem_insertSorted, ih]; simp

/-! ### frames -/

theorem mat_frame {B : List Name} {s s' : St} {i i' : Inc} (hI : InvCore B s) (hi : s.inc = some i)
    {n : Name} {m : Mat} (hold : aget i.mats n = some m) (hv : m.valid = true)
    (hcl : clausesNow s' n = clausesNow s n)
    (hf : ∀ c ∈ clausesNow s n, ∀ r ∈ bodyRels c, factsDb s' r = factsDb s r)
    (hb : ∀ r, n ∈ b2dOf i r → n ∈ b2dOf i' r) :
    n ∉ B ∧ (∀ t, t ∈ m.tuples ↔ val s' n t) ∧ (∀ c ∈ clausesNow s' n, ∀ r ∈ bodyRels c, n ∈ b2dOf i' r) := by
  obtain ⟨h1, h2, h3⟩ := hI.mats i n m hi hold hv
  refine ⟨h1, ?_, ?_⟩
  · intro t
    rw [h2 t]
    unfold val
    rw [hcl]
    constructor
    · rintro ⟨c, hc, ht⟩
      exact ⟨c, hc, by rw [fire_congr _ _ c (fun r hr => hf c hc r hr)]; exact ht⟩
    · rintro ⟨c, hc, ht⟩
      exact ⟨c, hc, by rw [← fire_congr _ _ c (fun r hr => hf c hc r hr)]; exact ht⟩
  · intro c hc r hr
    rw [hcl] at hc
    exact hb r (h3 c hc r hr)

/-- stored tuples of the relations `rs ⊆ B` change, every one of them is notified. -/
theorem core_facts_notify {B : List Name} {s : St} (hI : InvCore B s)
    (facts' : List (Name × List Tup)) (arity' : List (Name × Nat)) (rs : List Name)
    (hch : ∀ r', r' ∉ rs → (aget facts' r').getD [] = factsDb s r')
    (hB : ∀ r' ∈ rs, r' ∈ B) :
    InvCore B (mapInc { s with facts := facts', arity := arity' } (fun i => rs.foldl Inc.notify i)) := by
  refine ⟨?_, hI.cat, hI.catNodup, ?_, ?_, ?_⟩
  · intro r hr
    have : r ∉ rs := fun h => hr (hB r h)
    show (aget facts' r).getD [] = []
    rw [hch r this]; exact hI.stored r hr
  · intro i' hi'
    cases hsi : s.inc with
    | none => simp [mapInc, hsi] at hi'
    | some i =>
      simp only [mapInc, hsi, Option.map_some, Option.some.injEq] at hi'
      subst hi'
      rw [foldNotify_keys]; exact hI.matsNodup i hsi
  · intro i' hi'
    cases hsi : s.inc with
    | none => simp [mapInc, hsi] at hi'
    | some i =>
      simp only [mapInc, hsi, Option.map_some, Option.some.injEq] at hi'
      subst hi'
      rw [foldNotify_d2d]; exact hI.d2d i hsi
  · intro i' n m hi' hm hv
    cases hsi : s.inc with
    | none => simp [mapInc, hsi] at hi'
    | some i =>
      simp only [mapInc, hsi, Option.map_some, Option.some.injEq] at hi'
      subst hi'
      obtain ⟨h1, h2⟩ := foldNotify_valid rs i n m hm hv
      have hedges := (hI.mats i n m hsi h1 hv).2.2
      refine mat_frame hI hsi h1 hv rfl ?_ ?_
      · intro c hc r hr
        have : r ∉ rs := fun hmem => h2 r hmem (hedges c hc r hr)
        exact hch r this
      · intro r hr
        show n ∈ (aget (rs.foldl Inc.notify i).b2d r).getD []
        rw [foldNotify_b2d]; exact hr

/-- the clauses of ONE name without a valid materialisation change; the manager may gain edges. -/
theorem core_catalog_at {B : List Name} {s : St} (hI : InvCore B s) (n : Name) (cat' : List (Name × List Clause))
    (f : Inc → Inc) (hnv : notValid s n = true)
    (hget : ∀ n', n' ≠ n → aget cat' n' = aget s.catalog n')
    (hcat : ∀ k cs, (k, cs) ∈ cat' → (k, cs) ∈ s.catalog ∨
      (k = n ∧ n ∉ B ∧ ∀ c ∈ cs, c.head.rel = n ∧ ∀ r ∈ bodyRels c, r ∈ B))
    (hnd : (akeys cat').Nodup)
    (hfm : ∀ i, (f i).mats = i.mats) (hfd : ∀ i, (f i).d2d = i.d2d)
    (hfb : ∀ i x r, x ∈ b2dOf i r → x ∈ b2dOf (f i) r) :
    InvCore B (mapInc { s with catalog := cat' } f) := by
  refine ⟨hI.stored, ?_, hnd, ?_, ?_, ?_⟩
  · intro k cs hm
    rcases hcat k cs hm with h | ⟨hk, hnB, hcs⟩
    · exact hI.cat k cs h
    · subst hk; exact ⟨hnB, hcs⟩
  · intro i' hi'
    cases hsi : s.inc with
    | none => simp [mapInc, hsi] at hi'
    | some i =>
      simp only [mapInc, hsi, Option.map_some, Option.some.injEq] at hi'
      subst hi'
      rw [hfm]; exact hI.matsNodup i hsi
  · intro i' hi'
    cases hsi : s.inc with
    | none => simp [mapInc, hsi] at hi'
    | some i =>
      simp only [mapInc, hsi, Option.map_some, Option.some.injEq] at hi'
      subst hi'
      rw [hfd]; exact hI.d2d i hsi
  · intro i' n' m hi' hm hv
    cases hsi : s.inc with
    | none => simp [mapInc, hsi] at hi'
    | some i =>
      simp only [mapInc, hsi, Option.map_some, Option.some.injEq] at hi'
      subst hi'
      rw [hfm] at hm
      have hne : n' ≠ n := by
        intro e; subst e
        have : isValid i n' = true := (isValid_iff i n').mpr ⟨m, hm, hv⟩
        simp [notValid, hsi, this] at hnv
      refine mat_frame hI hsi hm hv ?_ (fun _ _ _ _ => rfl) (fun r hr => hfb i n' r hr)
      show (aget cat' n').getD [] = (aget s.catalog n').getD []
      rw [hget n' hne]

/-- names are removed from the catalogue AND from the manager (`drop`, `dropp`, `drel`). -/
theorem core_remove {B : List Name} {s : St} (hI : InvCore B s) (ns : List Name)
    (facts' : List (Name × List Tup)) (arity' : List (Name × Nat)) (cat' : List (Name × List Clause))
    (hstored : ∀ r, r ∉ B → (aget facts' r).getD [] = [])
    (hfacts : ∀ i n m, s.inc = some i → aget i.mats n = some m → m.valid = true → n ∉ ns →
      ∀ c ∈ clausesNow s n, ∀ r ∈ bodyRels c, (aget facts' r).getD [] = factsDb s r)
    (hsub : ∀ k cs, (k, cs) ∈ cat' → (k, cs) ∈ s.catalog)
    (hnd : (akeys cat').Nodup)
    (hget : ∀ n', n' ∉ ns → aget cat' n' = aget s.catalog n') :
    InvCore B (mapInc { s with facts := facts', arity := arity', catalog := cat' } (fun i => ns.foldl Inc.remove i)) := by
  refine ⟨hstored, fun k cs hm => hI.cat k cs (hsub k cs hm), hnd, ?_, ?_, ?_⟩
  · intro i' hi'
    cases hsi : s.inc with
    | none => simp [mapInc, hsi] at hi'
    | some i =>
      simp only [mapInc, hsi, Option.map_some, Option.some.injEq] at hi'
      subst hi'
      exact (foldRemove_spec ns i (hI.matsNodup i hsi) (hI.d2d i hsi)).1
  · intro i' hi'
    cases hsi : s.inc with
    | none => simp [mapInc, hsi] at hi'
    | some i =>
      simp only [mapInc, hsi, Option.map_some, Option.some.injEq] at hi'
      subst hi'
      exact (foldRemove_spec ns i (hI.matsNodup i hsi) (hI.d2d i hsi)).2.1
  · intro i' n m hi' hm hv
    cases hsi : s.inc with
    | none => simp [mapInc, hsi] at hi'
    | some i =>
      simp only [mapInc, hsi, Option.map_some, Option.some.injEq] at hi'
      subst hi'
      obtain ⟨h1, h2, h3⟩ := (foldRemove_spec ns i (hI.matsNodup i hsi) (hI.d2d i hsi)).2.2 n m hm
      refine mat_frame hI hsi h1 hv ?_ (hfacts i n m hsi h1 hv h2) h3
      show (aget cat' n).getD [] = (aget s.catalog n).getD []
      rw [hget n h2]

end ILV.C18
