/-
  Helper lemmas for C18 (ILV.Model.Incr): association lists, the evaluator on one-level programs,
  preservation of the materialisation invariant by every safe step.
-/
import ILV.Model.Incr
namespace ILV.C18

end ILV.C18
