/-
  Helper lemmas for C18 (ILV.Model.Incr): association lists, the evaluator on one-level programs,
  preservation of the materialisation invariant by every safe step.
-/
import ILV.Model.Incr
namespace ILV.C18

/-! ### association lists -/

section AL
variable {β : Type}

theorem aget_aset_eq (l : List (Name × β)) (k : Name) (v : β) : aget (aset l k v) k = some v := by
  induction l with
  | nil => simp [aset, aget]
  | cons p l ih =>
    obtain ⟨a, b⟩ := p
    by_cases h : a = k
    · simp [aset, aget, h]
    · simp [aset, aget, h, ih]

theorem aget_aset_ne (l : List (Name × β)) (k n : Name) (v : β) (h : k ≠ n) :
    aget (aset l k v) n = aget l n := by
  induction l with
  | nil => simp [aset, aget, h]
  | cons p l ih =>
    obtain ⟨a, b⟩ := p
    by_cases h1 : a = k
    · subst h1; simp [aset, aget, h]
    · by_cases h2 : a = n
      · subst h2; simp [aset, aget, h1]
      · simp [aset, aget, h1, h2, ih]

theorem aget_aerase_eq (l : List (Name × β)) (k : Name) : aget (aerase l k) k = none := by
  induction l with
  | nil => simp [aerase, aget]
  | cons p l ih =>
    obtain ⟨a, b⟩ := p
    by_cases h : a = k
    · simp [aerase, h, ih]
    · simp [aerase, aget, h, ih]

theorem aget_aerase_ne (l : List (Name × β)) (k n : Name) (h : k ≠ n) :
    aget (aerase l k) n = aget l n := by
  induction l with
  | nil => simp [aerase, aget]
  | cons p l ih =>
    obtain ⟨a, b⟩ := p
    by_cases h1 : a = k
    · subst h1; simp [aerase, aget, h, ih]
    · by_cases h2 : a = n
      · subst h2; simp [aerase, aget, h1]
      · simp [aerase, aget, h1, h2, ih]

theorem aget_some_mem {l : List (Name × β)} {n : Name} {v : β} (h : aget l n = some v) : (n, v) ∈ l := by
  induction l with
  | nil => simp [aget] at h
  | cons p l ih =>
    obtain ⟨a, b⟩ := p
    by_cases h1 : a = n
    · simp [aget, h1] at h; subst h; subst h1; simp
    · simp [aget, h1] at h; exact List.mem_cons_of_mem _ (ih h)

theorem aget_none_of_not_key {l : List (Name × β)} {n : Name} (h : n ∉ akeys l) : aget l n = none := by
  induction l with
  | nil => simp [aget]
  | cons p l ih =>
    obtain ⟨a, b⟩ := p
    simp [akeys] at h
    have h1 : a ≠ n := fun e => h.1 e.symm
    simp [aget, h1]
    exact ih (by simpa [akeys] using h.2)

theorem aget_isSome_key {l : List (Name × β)} {n : Name} {v : β} (h : aget l n = some v) : n ∈ akeys l := by
  have := aget_some_mem h
  exact List.mem_map.mpr ⟨(n, v), this, rfl⟩

theorem mem_aget_of_nodup {l : List (Name × β)} (hn : (akeys l).Nodup) {n : Name} {v : β}
    (h : (n, v) ∈ l) : aget l n = some v := by
  induction l with
  | nil => simp at h
  | cons p l ih =>
    obtain ⟨a, b⟩ := p
    simp only [akeys, List.map_cons, List.nodup_cons] at hn
    rcases List.mem_cons.mp h with h1 | h1
    · cases h1; simp [aget]
    · have : a ≠ n := by
        intro e; subst e
        exact hn.1 (List.mem_map.mpr ⟨(a, v), h1, rfl⟩)
      simp only [aget, this, if_false]
      exact ih hn.2 h1

theorem mem_aset {l : List (Name × β)} {k n : Name} {v w : β} (h : (n, w) ∈ aset l k v) :
    (n = k ∧ w = v) ∨ (n, w) ∈ l := by
  induction l with
  | nil => simp [aset] at h; exact Or.inl h
  | cons p l ih =>
    obtain ⟨a, b⟩ := p
    by_cases h1 : a = k
    · simp [aset, h1] at h
      rcases h with h | h
      · exact Or.inl h
      · exact Or.inr (List.mem_cons_of_mem _ h)
    · simp [aset, h1] at h
      rcases h with h | h
      · exact Or.inr (by simp [h])
      · rcases ih h with h2 | h2
        · exact Or.inl h2
        · exact Or.inr (List.mem_cons_of_mem _ h2)

theorem mem_aerase {l : List (Name × β)} {k n : Name} {w : β} (h : (n, w) ∈ aerase l k) : (n, w) ∈ l ∧ n ≠ k := by
  induction l with
  | nil => simp [aerase] at h
  | cons p l ih =>
    obtain ⟨a, b⟩ := p
    by_cases h1 : a = k
    · simp [aerase, h1] at h
      exact ⟨List.mem_cons_of_mem _ (ih h).1, (ih h).2⟩
    · simp [aerase, h1] at h
      rcases h with h | h
      · refine ⟨by simp [h], ?_⟩
        rw [h.1]; exact h1
      · exact ⟨List.mem_cons_of_mem _ (ih h).1, (ih h).2⟩

theorem akeys_aset_sub (l : List (Name × β)) (k : Name) (v : β) (n : Name) (h : n ∈ akeys (aset l k v)) :
    n = k ∨ n ∈ akeys l := by
  obtain ⟨⟨a, b⟩, hm, rfl⟩ := List.mem_map.mp h
  rcases mem_aset hm with h1 | h1
  · exact Or.inl h1.1
  · exact Or.inr (List.mem_map.mpr ⟨(a, b), h1, rfl⟩)

theorem nodup_aset {l : List (Name × β)} (k : Name) (v : β) (h : (akeys l).Nodup) : (akeys (aset l k v)).Nodup := by
  induction l with
  | nil => simp [aset, akeys]
  | cons p l ih =>
    obtain ⟨a, b⟩ := p
    simp only [akeys, List.map_cons, List.nodup_cons] at h
    by_cases h1 : a = k
    · simp only [aset, h1, if_true, akeys, List.map_cons, List.nodup_cons]
      subst h1; exact h
    · simp only [aset, h1, if_false, akeys, List.map_cons, List.nodup_cons]
      refine ⟨?_, ih h.2⟩
      intro hm
      rcases akeys_aset_sub l k v a hm with e | e
      · exact h1 e
      · exact h.1 e

theorem akeys_aerase_sub (l : List (Name × β)) (k n : Name) (h : n ∈ akeys (aerase l k)) : n ∈ akeys l := by
  obtain ⟨⟨a, b⟩, hm, rfl⟩ := List.mem_map.mp h
  exact List.mem_map.mpr ⟨(a, b), (mem_aerase hm).1, rfl⟩

theorem nodup_aerase {l : List (Name × β)} (k : Name) (h : (akeys l).Nodup) : (akeys (aerase l k)).Nodup := by
  induction l with
  | nil => simp [aerase, akeys]
  | cons p l ih =>
    obtain ⟨a, b⟩ := p
    simp only [akeys, List.map_cons, List.nodup_cons] at h
    by_cases h1 : a = k
    · simp only [aerase, h1, if_true]; exact ih h.2
    · simp only [aerase, h1, if_false, akeys, List.map_cons, List.nodup_cons]
      exact ⟨fun hm => h.1 (akeys_aerase_sub l k a hm), ih h.2⟩

theorem aget_map_val (l : List (Name × β)) (f : Name → β → β) (n : Name) :
    aget (l.map fun p => (p.1, f p.1 p.2)) n = (aget l n).map (f n) := by
  induction l with
  | nil => simp [aget]
  | cons p l ih =>
    obtain ⟨a, b⟩ := p
    by_cases h : a = n
    · subst h; simp [aget]
    · simp [aget, h, ih]

theorem akeys_map_val (l : List (Name × β)) (f : Name → β → β) :
    akeys (l.map fun p => (p.1, f p.1 p.2)) = akeys l := by
  simp [akeys, List.map_map, Function.comp_def]

theorem aget_filter_key (l : List (Name × β)) (g : Name → Bool) (n : Name) :
    aget (l.filter fun p => g p.1) n = if g n then aget l n else none := by
  induction l with
  | nil => simp [aget]
  | cons p l ih =>
    obtain ⟨a, b⟩ := p
    by_cases h : a = n
    · subst h
      by_cases hg : g a
      · simp [List.filter, hg, aget]
      · simp [List.filter, hg, ih]
    · by_cases hg : g a
      · simp [List.filter, hg, aget, h, ih]
      · simp [List.filter, hg, aget, h, ih]

theorem nodup_filter_key {l : List (Name × β)} (g : Name × β → Bool) (h : (akeys l).Nodup) :
    (akeys (l.filter g)).Nodup := by
  unfold akeys at *
  exact List.Nodup.sublist (List.Sublist.map _ List.filter_sublist) h

theorem aget_mapNames (names : List Name) (f : Name → β) (r : Name) :
    aget (names.map fun n => (n, f n)) r = if r ∈ names then some (f r) else none := by
  induction names with
  | nil => simp [aget]
  | cons a l ih =>
    by_cases h : a = r
    · subst h; simp [aget]
    · have : ¬ r = a := fun e => h e.symm
      simp [aget, h, ih, this]

end AL

/-! ### name sets -/

theorem mem_dedupNames (l : List Name) (n : Name) : n ∈ dedupNames l ↔ n ∈ l := by
  induction l with
  | nil => simp [dedupNames]
  | cons a l ih =>
    by_cases h : a ∈ l
    · simp only [dedupNames, h, if_true, ih, List.mem_cons]
      constructor
      · exact Or.inr
      · rintro (e | e)
        · subst e; exact h
        · exact e
    · simp [dedupNames, h, ih]

theorem mem_heads (prog : List Clause) (n : Name) : n ∈ heads prog ↔ ∃ c ∈ prog, c.head.rel = n := by
  simp [heads, mem_dedupNames]

theorem mem_sins (l : List Name) (n m : Name) : m ∈ sins l n ↔ m ∈ l ∨ m = n := by
  unfold sins
  by_cases h : n ∈ l
  · simp only [h, if_true]
    constructor
    · exact Or.inl
    · rintro (e | e)
      · exact e
      · subst e; exact h
  · simp [h]

/-! ### the evaluator -/

theorem mem_addNew (l ts : List Tup) (t : Tup) : t ∈ addNew l ts ↔ t ∈ l ∨ t ∈ ts := by
  induction ts generalizing l with
  | nil => simp [addNew]
  | cons a ts ih =>
    by_cases h : a ∈ l
    · simp only [addNew, h, if_true, ih, List.mem_cons]
      constructor
      · rintro (e | e)
        · exact Or.inl e
        · exact Or.inr (Or.inr e)
      · rintro (e | e | e)
        · exact Or.inl e
        · subst e; exact Or.inl h
        · exact Or.inr e
    · simp only [addNew, h, if_false, ih, List.mem_append, List.mem_cons, List.not_mem_nil, or_false]
      constructor
      · rintro ((e | e) | e)
        · exact Or.inl e
        · exact Or.inr (Or.inl e)
        · exact Or.inr (Or.inr e)
      · rintro (e | e | e)
        · exact Or.inl (Or.inl e)
        · exact Or.inl (Or.inr e)
        · exact Or.inr e

theorem addNew_of_subset (l ts : List Tup) (h : ∀ t ∈ ts, t ∈ l) : addNew l ts = l := by
  induction ts with
  | nil => simp [addNew]
  | cons a ts ih =>
    have ha : a ∈ l := h a (by simp)
    simp only [addNew, ha, if_true]
    exact ih (fun t ht => h t (List.mem_cons_of_mem _ ht))

theorem addNew_idem (l ts : List Tup) : addNew (addNew l ts) ts = addNew l ts :=
  addNew_of_subset _ _ (fun t ht => (mem_addNew l ts t).mpr (Or.inr ht))

theorem solveBody_congr (db1 db2 : Name → List Tup) (body : List Atom) (envs : List Env)
    (h : ∀ a ∈ body, db1 a.rel = db2 a.rel) : solveBody db1 body envs = solveBody db2 body envs := by
  induction body generalizing envs with
  | nil => simp [solveBody]
  | cons a as ih =>
    simp only [solveBody]
    rw [h a (by simp)]
    exact ih _ (fun b hb => h b (List.mem_cons_of_mem _ hb))

theorem fire_congr (db1 db2 : Name → List Tup) (c : Clause)
    (h : ∀ r ∈ bodyRels c, db1 r = db2 r) : fire db1 c = fire db2 c := by
  unfold fire
  rw [solveBody_congr db1 db2 c.body _ (fun a ha => h a.rel (List.mem_map.mpr ⟨a, ha, rfl⟩))]

theorem mem_consequences (prog : List Clause) (db : Name → List Tup) (n : Name) (t : Tup) :
    t ∈ consequences prog db n ↔ ∃ c ∈ prog, c.head.rel = n ∧ t ∈ fire db c := by
  simp [consequences, clausesOf, List.mem_flatMap, List.mem_filter, and_assoc]

theorem consequences_congr (prog : List Clause) (db1 db2 : Name → List Tup) (n : Name)
    (h : ∀ c ∈ prog, c.head.rel = n → ∀ r ∈ bodyRels c, db1 r = db2 r) :
    consequences prog db1 n = consequences prog db2 n := by
  unfold consequences
  rw [List.flatMap_def, List.flatMap_def]
  congr 1
  apply List.map_congr_left
  intro c hc
  have hc' := List.mem_filter.mp hc
  exact fire_congr db1 db2 c (h c hc'.1 (by simpa using hc'.2))

def inDb (inputs : List (Name × List Tup)) (r : Name) : List Tup := (aget inputs r).getD []

/-- every body relation is a non-head: evaluation finishes in one round. -/
def OneLevel (prog : List Clause) : Prop := ∀ c ∈ prog, ∀ r ∈ bodyRels c, r ∉ heads prog

theorem look_nonhead (inputs : List (Name × List Tup)) (names : List Name) (f : Name → List Tup) (r : Name)
    (h : r ∉ names) : look inputs (names.map fun n => (n, f n)) r = inDb inputs r := by
  simp [look, aget_mapNames, h, inDb]

theorem tstep_names (prog : List Clause) (inputs : List (Name × List Tup)) (hp : OneLevel prog)
    (f : Name → List Tup) :
    tstep prog inputs ((heads prog).map fun n => (n, f n)) =
      (heads prog).map fun n => (n, addNew (f n) (consequences prog (inDb inputs) n)) := by
  unfold tstep
  rw [List.map_map]
  apply List.map_congr_left
  intro n _
  simp only [Function.comp]
  congr 2
  apply consequences_congr
  intro c hc _ r hr
  exact look_nonhead inputs (heads prog) f r (hp c hc r hr)

theorem iter_succ (prog : List Clause) (inputs d : List (Name × List Tup)) (k : Nat) :
    iter prog inputs (k + 1) d =
      if tstep prog inputs d = d then d else iter prog inputs k (tstep prog inputs d) := rfl

theorem iter_fix (prog : List Clause) (inputs d : List (Name × List Tup)) (k : Nat)
    (h : tstep prog inputs d = d) : iter prog inputs k d = d := by
  cases k with
  | zero => rfl
  | succ k => rw [iter_succ, if_pos h]

theorem iter_oneLevel (prog : List Clause) (inputs : List (Name × List Tup)) (hp : OneLevel prog) (k : Nat) :
    iter prog inputs (k + 2) ((heads prog).map fun n => (n, ([] : List Tup))) =
      (heads prog).map fun n => (n, addNew [] (consequences prog (inDb inputs) n)) := by
  have hA := tstep_names prog inputs hp (fun _ => [])
  have hB := tstep_names prog inputs hp (fun n => addNew [] (consequences prog (inDb inputs) n))
  simp only [addNew_idem] at hB
  show iter prog inputs (k + 1 + 1) _ = _
  rw [iter_succ, hA]
  split
  · next h => exact h.symm
  · exact iter_fix _ _ _ _ hB

theorem evalProg_oneLevel (prog : List Clause) (inputs : List (Name × List Tup)) (hp : OneLevel prog) (r : Name) :
    evalProg prog inputs r =
      if r ∈ heads prog then addNew [] (consequences prog (inDb inputs) r) else inDb inputs r := by
  unfold evalProg evalFuel
  rw [iter_oneLevel prog inputs hp]
  simp only [look, aget_mapNames]
  split <;> simp_all [inDb]

theorem mem_answer (db : Name → List Tup) (q : Atom) (t : Tup) :
    t ∈ answer db q ↔ t ∈ db q.rel ∧ (matchArgs q.args t []).isSome = true := by
  simp [answer, mem_addNew, List.mem_filter]

theorem setEqb_iff (a b : List Tup) : setEqb a b = true ↔ SetEq a b := by
  simp only [setEqb, Bool.and_eq_true, List.all_eq_true, List.contains_iff_mem, SetEq]
  constructor
  · rintro ⟨h1, h2⟩ t; exact ⟨h1 t, h2 t⟩
  · intro h; exact ⟨fun t ht => (h t).mp ht, fun t ht => (h t).mpr ht⟩

end ILV.C18
