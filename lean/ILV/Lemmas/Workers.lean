/-
  Lemmas for C03: hash partitioning covers every relation, and the evaluation of a clause with at
  most one positive atom, no negated atom and no aggregate distributes over the partitions.
-/
import ILV.Lemmas.Engine
namespace ILV.Engine
open ILV ILV.DL

/-- every tuple lies in exactly the partition `hash t % n`. -/
theorem part_cover (hash : Tuple → Nat) (n : Nat) (hn : 0 < n) (lk : String → List Tuple) (r : String) (t : Tuple) :
    t ∈ lk r ↔ ∃ w, w ∈ List.range n ∧ t ∈ partLk hash n w lk r := by
  unfold partLk
  simp only [List.mem_filter, List.mem_range, beq_iff_eq]
  constructor
  · intro h; exact ⟨hash t % n, Nat.mod_lt _ hn, h, rfl⟩
  · rintro ⟨w, _, h, _⟩; exact h

theorem part_sub (hash : Tuple → Nat) (n w : Nat) (lk : String → List Tuple) (r : String) (t : Tuple)
    (h : t ∈ partLk hash n w lk r) : t ∈ lk r := by
  unfold partLk at h; exact (List.mem_filter.1 h).1

/-- the positive part of a clause with ≤ 1 positive atom distributes. -/
theorem evalPos_dist (hash : Tuple → Nat) (n : Nat) (hn : 0 < n) (lk : String → List Tuple) (atoms : List Atom)
    (hlen : atoms.length ≤ 1) (env : Env) :
    env ∈ evalPos lk atoms [[]] ↔ ∃ w, w ∈ List.range n ∧ env ∈ evalPos (partLk hash n w lk) atoms [[]] := by
  match atoms, hlen with
  | [], _ =>
    simp only [evalPos, List.mem_singleton, List.mem_range]
    constructor
    · intro h; exact ⟨0, hn, h⟩
    · rintro ⟨_, _, h⟩; exact h
  | [a], _ =>
    simp only [evalPos, List.flatMap_cons, List.flatMap_nil, List.append_nil, List.mem_filterMap]
    constructor
    · rintro ⟨t, ht, hm⟩
      obtain ⟨w, hw, htw⟩ := (part_cover hash n hn lk a.rel t).1 ht
      exact ⟨w, hw, t, htw, hm⟩
    · rintro ⟨w, _, t, ht, hm⟩
      exact ⟨t, part_sub hash n w lk a.rel t ht, hm⟩

theorem specCmps_mem (cs : List Cmp) (envs : List Env) (x : Env) :
    x ∈ specCmps cs envs ↔ ∃ e, e ∈ envs ∧ x ∈ specCmps cs [e] := by
  unfold specCmps
  simp only [List.mem_filter, List.mem_map, List.map_cons, List.map_nil, List.mem_singleton]
  constructor
  · rintro ⟨⟨⟨e, he, rfl⟩, h1⟩, h2⟩
    exact ⟨e, he, ⟨rfl, h1⟩, h2⟩
  · rintro ⟨e, he, ⟨rfl, h1⟩, h2⟩
    exact ⟨⟨⟨e, he, rfl⟩, h1⟩, h2⟩

theorem evalNegs_nil (lk : String → List Tuple) (envs : List Env) : evalNegs lk [] envs = envs := by
  unfold evalNegs
  simp only [List.all_nil]
  exact filter_const_true envs

/-- body valuations of a partition-safe clause: a valuation is found iff some partition finds it. -/
theorem bodyEnvs_dist (hash : Tuple → Nat) (n : Nat) (hn : 0 < n) (lk : String → List Tuple) (r : Rule)
    (hpos : r.posAtoms.length ≤ 1) (hneg : r.negAtoms = []) (x : Env) :
    x ∈ bodyEnvs lk r ↔ ∃ w, w ∈ List.range n ∧ x ∈ bodyEnvs (partLk hash n w lk) r := by
  unfold bodyEnvs
  simp only [hneg, evalNegs_nil]
  rw [specCmps_mem]
  constructor
  · rintro ⟨e, he, hx⟩
    obtain ⟨w, hw, hew⟩ := (evalPos_dist hash n hn lk r.posAtoms hpos e).1 he
    exact ⟨w, hw, (specCmps_mem _ _ _).2 ⟨e, hew, hx⟩⟩
  · rintro ⟨w, hw, hx⟩
    obtain ⟨e, he, hx⟩ := (specCmps_mem _ _ _).1 hx
    exact ⟨e, (evalPos_dist hash n hn lk r.posAtoms hpos e).2 ⟨w, hw, he⟩, hx⟩

/-- one partition-safe aggregate-free clause: if the whole relation evaluates, every partition
    does, and a tuple is derived iff some partition derives it. -/
theorem evalRuleLk_dist (hash : Tuple → Nat) (n : Nat) (hn : 0 < n) (lk : String → List Tuple) (r : Rule)
    (hpos : r.posAtoms.length ≤ 1) (hneg : r.negAtoms = []) (hagg : r.hasAgg = false)
    (ts : List Tuple) (hev : evalRuleLk lk r = some ts) :
    (∀ w, w ∈ List.range n → ∃ tw, evalRuleLk (partLk hash n w lk) r = some tw) ∧
    (∀ t, t ∈ ts ↔ ∃ w tw, w ∈ List.range n ∧ evalRuleLk (partLk hash n w lk) r = some tw ∧ t ∈ tw) := by
  unfold evalRuleLk headOfSpec at hev ⊢
  simp only [hagg, Bool.false_eq_true, if_false] at hev ⊢
  unfold headRows at hev ⊢
  have hsome : ∀ w, w ∈ List.range n → ∃ tw, optMapM (fun env => optMapM (HTerm.plain env) r.hargs) (bodyEnvs (partLk hash n w lk) r) = some tw := by
    intro w hw
    cases hc : optMapM (fun env => optMapM (HTerm.plain env) r.hargs) (bodyEnvs (partLk hash n w lk) r) with
    | some tw => exact ⟨tw, rfl⟩
    | none =>
      obtain ⟨e, he, hn'⟩ := (optMapM_none_iff _ _).1 hc
      have : e ∈ bodyEnvs lk r := (bodyEnvs_dist hash n hn lk r hpos hneg e).2 ⟨w, hw, he⟩
      have : optMapM (fun env => optMapM (HTerm.plain env) r.hargs) (bodyEnvs lk r) = none :=
        (optMapM_none_iff _ _).2 ⟨e, this, hn'⟩
      rw [hev] at this; cases this
  refine ⟨hsome, ?_⟩
  intro t
  rw [optMapM_some_mem _ _ _ hev t]
  constructor
  · rintro ⟨e, he, hf⟩
    obtain ⟨w, hw, hew⟩ := (bodyEnvs_dist hash n hn lk r hpos hneg e).1 he
    obtain ⟨tw, htw⟩ := hsome w hw
    exact ⟨w, tw, hw, htw, (optMapM_some_mem _ _ _ htw t).2 ⟨e, hew, hf⟩⟩
  · rintro ⟨w, tw, hw, htw, ht⟩
    obtain ⟨e, he, hf⟩ := (optMapM_some_mem _ _ _ htw t).1 ht
    exact ⟨e, (bodyEnvs_dist hash n hn lk r hpos hneg e).2 ⟨w, hw, he⟩, hf⟩

theorem mem_unionAll (t : Tuple) : ∀ (ls : List (List Tuple)), t ∈ unionAll ls ↔ ∃ l, l ∈ ls ∧ t ∈ l
  | [] => by simp [unionAll]
  | a :: as => by
    unfold unionAll
    rw [mem_unionT, mem_dedupT, mem_unionAll t as]
    constructor
    · rintro (h | ⟨l, hl, ht⟩)
      · exact ⟨a, List.mem_cons_self .., h⟩
      · exact ⟨l, List.mem_cons_of_mem _ hl, ht⟩
    · rintro ⟨l, hl, ht⟩
      rcases List.mem_cons.1 hl with rfl | hl
      · exact Or.inl ht
      · exact Or.inr ⟨l, hl, ht⟩

/-- **a partition-safe aggregate-free head distributes over hash partitioning**, for every
    partitioner and every positive worker count. -/
theorem evalRules_dist (hash : Tuple → Nat) (n : Nat) (hn : 0 < n) (lk : String → List Tuple) (cs : List Rule)
    (hsafe : parSafe cs = true) (hagg : ∀ r, r ∈ cs → r.hasAgg = false)
    (ts : List Tuple) (hev : evalRules lk cs = some ts) :
    MemEq (unionAll ((List.range n).map (fun w => (evalRules (partLk hash n w lk) cs).getD []))) ts := by
  have hps : ∀ r, r ∈ cs → r.posAtoms.length ≤ 1 ∧ r.negAtoms = [] := by
    intro r hr
    unfold parSafe at hsafe
    have := List.all_eq_true.1 hsafe r hr
    simp only [Bool.and_eq_true, decide_eq_true_eq, List.isEmpty_iff] at this
    exact this
  -- every clause evaluates on the whole relation
  have hall : ∀ r, r ∈ cs → ∃ a, evalRuleLk lk r = some a := by
    intro r hr
    cases hc : evalRuleLk lk r with
    | some a => exact ⟨a, rfl⟩
    | none =>
      have : evalRules lk cs = none := (evalRulesWith_none_iff _ _).2 ⟨r, hr, hc⟩
      rw [hev] at this; cases this
  -- hence every partition evaluates
  have hpart : ∀ w, w ∈ List.range n → ∃ tw, evalRules (partLk hash n w lk) cs = some tw := by
    intro w hw
    cases hc : evalRules (partLk hash n w lk) cs with
    | some tw => exact ⟨tw, rfl⟩
    | none =>
      obtain ⟨r, hr, hn'⟩ := (evalRulesWith_none_iff _ _).1 hc
      obtain ⟨a, ha⟩ := hall r hr
      obtain ⟨tw, htw⟩ := (evalRuleLk_dist hash n hn lk r (hps r hr).1 (hps r hr).2 (hagg r hr) a ha).1 w hw
      rw [hn'] at htw; cases htw
  intro t
  rw [mem_unionAll]
  simp only [List.mem_map]
  rw [evalRulesWith_some_mem _ _ _ hev t]
  constructor
  · rintro ⟨l, ⟨w, hw, rfl⟩, ht⟩
    obtain ⟨tw, htw⟩ := hpart w hw
    rw [htw] at ht
    simp only [Option.getD_some] at ht
    obtain ⟨r, a, hr, ha, hta⟩ := (evalRulesWith_some_mem _ _ _ htw t).1 ht
    obtain ⟨b, hb⟩ := hall r hr
    exact ⟨r, b, hr, hb, ((evalRuleLk_dist hash n hn lk r (hps r hr).1 (hps r hr).2 (hagg r hr) b hb).2 t).2 ⟨w, a, hw, ha, hta⟩⟩
  · rintro ⟨r, a, hr, ha, hta⟩
    obtain ⟨w, tw, hw, htw, htt⟩ := ((evalRuleLk_dist hash n hn lk r (hps r hr).1 (hps r hr).2 (hagg r hr) a ha).2 t).1 hta
    obtain ⟨tws, htws⟩ := hpart w hw
    refine ⟨tws, ⟨w, hw, by rw [htws]; rfl⟩, ?_⟩
    exact (evalRulesWith_some_mem _ _ _ htws t).2 ⟨r, tw, hr, htw, htt⟩

/-! ### whole runs with `n` workers and with one worker -/

/-- switches off, `n` workers, no row limit. -/
def cfgW (n : Nat) : Cfg := { workers := n }

/-- accumulated results with the same keys and set-equal contents. -/
def AccEq (a b : DB) : Prop :=
  ∀ r, (a.lookup r = none ∧ b.lookup r = none) ∨ (∃ x y, a.lookup r = some x ∧ b.lookup r = some y ∧ MemEq x y)

theorem lkOf_accEq (edb : DB) {a b : DB} (h : AccEq a b) (r : String) : MemEq (lkOf edb a r) (lkOf edb b r) := by
  unfold lkOf
  rcases h r with ⟨h1, h2⟩ | ⟨x, y, h1, h2, hm⟩
  · rw [h1, h2]; exact MemEq.refl _
  · rw [h1, h2]; exact hm

theorem accEq_cons {a b : DB} (h : AccEq a b) (g : String) {x y : List Tuple} (hm : MemEq x y) :
    AccEq ((g, x) :: a) ((g, y) :: b) := by
  intro r
  by_cases hr : r = g
  · subst hr
    exact Or.inr ⟨x, y, lookup_cons_self _ _ _, lookup_cons_self _ _ _, hm⟩
  · rw [lookup_cons_ne r g x a hr, lookup_cons_ne r g y b hr]
    exact h r

theorem limited_cfgW (n : Nat) (p : Program) (h : String) : limited (cfgW n) p h = false := by
  simp [limited, cfgW]

theorem evalHead_cfgW (n : Nat) (hash : Tuple → Nat) (fuel : Nat) (p : Program) (lk : String → List Tuple) (h : String)
    (hs : selfRec p h = false) :
    evalHead (cfgW n) hash fuel p lk h =
      if (decide (n > 1) && parSafe (clausesOf p h)) = true then
        some (unionAll ((List.range n).map (fun w => (evalRulesM true (partLk hash n w lk) (clausesOf p h)).getD [])))
      else evalRulesM true lk (clausesOf p h) := by
  unfold evalHead
  simp only [hs, Bool.false_eq_true, if_false]
  rfl

/-- one non-recursive aggregate-free head: `n` workers and one worker derive the same set, from
    set-equal inputs, for any two partitioners. -/
theorem evalHead_workers (p : Program) (hcf : ClauseFaithful p) (hagg : ∀ r, r ∈ p → r.hasAgg = false)
    (h : String) (hs : selfRec p h = false) (n : Nat) (hn : 0 < n) (hash hash' : Tuple → Nat) (fuel fuel' : Nat)
    (lkn lk1 : String → List Tuple) (hlk : ∀ r, MemEq (lkn r) (lk1 r)) (tn t1 : List Tuple)
    (hen : evalHead (cfgW n) hash fuel p lkn h = some tn)
    (he1 : evalHead (cfgW 1) hash' fuel' p lk1 h = some t1) : MemEq tn t1 := by
  have haggc : ∀ r, r ∈ clausesOf p h → r.hasAgg = false := fun r hr => hagg r (List.mem_filter.1 hr).1
  rw [evalHead_cfgW 1 hash' fuel' p lk1 h hs] at he1
  rw [evalHead_cfgW n hash fuel p lkn h hs] at hen
  simp only [Nat.lt_irrefl, decide_false, Bool.false_and, Bool.false_eq_true, if_false] at he1
  rw [evalRulesM_eq hcf] at he1
  -- the whole-relation evaluation over the n-run's inputs agrees with the 1-run's
  have hcong : OptMemEq (evalRules lkn (clausesOf p h)) (evalRules lk1 (clausesOf p h)) :=
    evalRules_memEq (p := p) (h := h) hagg (fun r _ => hlk r)
  rw [he1] at hcong
  cases hc : evalRules lkn (clausesOf p h) with
  | none => rw [hc] at hcong; cases hcong
  | some t' =>
    rw [hc] at hcong
    by_cases hpar : (decide (n > 1) && parSafe (clausesOf p h)) = true
    · rw [if_pos hpar] at hen
      simp only [Bool.and_eq_true, decide_eq_true_eq] at hpar
      have hfun : (fun w => (evalRulesM true (partLk hash n w lkn) (clausesOf p h)).getD []) =
          (fun w => (evalRules (partLk hash n w lkn) (clausesOf p h)).getD []) := by
        funext w; rw [evalRulesM_eq hcf]
      rw [hfun] at hen
      cases hen
      exact (evalRules_dist hash n hn lkn (clausesOf p h) hpar.2 haggc t' hc).trans hcong
    · rw [if_neg hpar, evalRulesM_eq hcf, hc] at hen
      cases hen
      exact hcong

theorem execLoop_workers (p : Program) (edb : DB) (hcf : ClauseFaithful p) (hagg : ∀ r, r ∈ p → r.hasAgg = false)
    (hnorec : ∀ h, selfRec p h = false) (n : Nat) (hn : 0 < n) (hash hash' : Tuple → Nat)
    (ord ord' : String → List Tuple → List Tuple) (fuel fuel' : Nat) :
    ∀ (order : List String) (accn acc1 : DB) (lastn last1 An A1 : List Tuple) (accn' acc1' : DB),
      AccEq accn acc1 → MemEq lastn last1 →
      execLoop (cfgW n) hash ord fuel p edb order accn lastn = .ok An accn' →
      execLoop (cfgW 1) hash' ord' fuel' p edb order acc1 last1 = .ok A1 acc1' →
      MemEq An A1
  | [], accn, acc1, lastn, last1, An, A1, accn', acc1', _, hl, hrn, hr1 => by
    simp only [execLoop, Outcome.ok.injEq] at hrn hr1
    obtain ⟨rfl, _⟩ := hrn
    obtain ⟨rfl, _⟩ := hr1
    exact hl
  | h :: rest, accn, acc1, lastn, last1, An, A1, accn', acc1', hacc, _, hrn, hr1 => by
    unfold execLoop at hrn hr1
    cases hen : evalHead (cfgW n) hash fuel p (lkOf edb accn) h with
    | none => rw [hen] at hrn; simp at hrn
    | some tn =>
      cases he1 : evalHead (cfgW 1) hash' fuel' p (lkOf edb acc1) h with
      | none => rw [he1] at hr1; simp at hr1
      | some t1 =>
        rw [hen] at hrn; rw [he1] at hr1
        simp only [limited_cfgW, Bool.false_eq_true, if_false] at hrn hr1
        have hm := evalHead_workers p hcf hagg h (hnorec h) n hn hash hash' fuel fuel' _ _ (lkOf_accEq edb hacc) tn t1 hen he1
        exact execLoop_workers p edb hcf hagg hnorec n hn hash hash' ord ord' fuel fuel' rest _ _ tn t1 An A1 accn' acc1'
          (accEq_cons hacc h hm) hm hrn hr1

theorem run_loop (cfg : Cfg) (hash : Tuple → Nat) (ord : String → List Tuple → List Tuple) (fuel : Nat)
    (p : Program) (edb : DB) (A : List Tuple) (acc : DB) (hrun : Engine.run cfg hash ord fuel p edb = .ok A acc) :
    execLoop cfg hash ord fuel p edb (execOrder p) [] [] = .ok A acc := by
  unfold Engine.run at hrun
  split at hrun
  · cases hrun
  · split at hrun
    · cases hrun
    · split at hrun
      · cases hrun
      · exact hrun

end ILV.Engine
