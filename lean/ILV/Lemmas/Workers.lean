/-
  Lemmas for C03: hash partitioning covers every relation, and the evaluation of a clause with at
  most one positive atom, no negated atom and no aggregate distributes over the partitions.
-/
import ILV.Lemmas.Engine
namespace ILV.Engine
open ILV ILV.DL

/-- every tuple lies in exactly the partition `hash t % n`. -/
theorem part_cover (hash : Tuple → Nat) (n : Nat) (hn : 0 < n) (lk : String → List Tuple) (r : String) (t : Tuple) :
    t ∈ lk r ↔ ∃ w, w ∈ List.range n ∧ t ∈ partLk hash n w lk r := by
  unfold partLk
  simp only [List.mem_filter, List.mem_range, beq_iff_eq]
  constructor
  · intro h; exact ⟨hash t % n, Nat.mod_lt _ hn, h, rfl⟩
  · rintro ⟨w, _, h, _⟩; exact h

theorem part_sub (hash : Tuple → Nat) (n w : Nat) (lk : String → List Tuple) (r : String) (t : Tuple)
    (h : t ∈ partLk hash n w lk r) : t ∈ lk r := by
  unfold partLk at h; exact (List.mem_filter.1 h).1

/-- the positive part of a clause with ≤ 1 positive atom distributes. -/
theorem evalPos_dist (hash : Tuple → Nat) (n : Nat) (hn : 0 < n) (lk : String → List Tuple) (atoms : List Atom)
    (hlen : atoms.length ≤ 1) (env : Env) :
    env ∈ evalPos lk atoms [[]] ↔ ∃ w, w ∈ List.range n ∧ env ∈ evalPos (partLk hash n w lk) atoms [[]] := by
  match atoms, hlen with
  | [], _ =>
    simp only [evalPos, List.mem_singleton, List.mem_range]
    constructor
    · intro h; exact ⟨0, hn, h⟩
    · rintro ⟨_, _, h⟩; exact h
  | [a], _ =>
    simp only [evalPos, List.flatMap_cons, List.flatMap_nil, List.append_nil, List.mem_filterMap]
    constructor
    · rintro ⟨t, ht, hm⟩
      obtain ⟨w, hw, htw⟩ := (part_cover hash n hn lk a.rel t).1 ht
      exact ⟨w, hw, t, htw, hm⟩
    · rintro ⟨w, _, t, ht, hm⟩
      exact ⟨t, part_sub hash n w lk a.rel t ht, hm⟩

theorem specCmps_mem (cs : List Cmp) (envs : List Env) (x : Env) :
    x ∈ specCmps cs envs ↔ ∃ e, e ∈ envs ∧ x ∈ specCmps cs [e] := by
  unfold specCmps
  simp only [List.mem_filter, List.mem_map, List.map_cons, List.map_nil, List.mem_singleton]
  constructor
  · rintro ⟨⟨⟨e, he, rfl⟩, h1⟩, h2⟩
    exact ⟨e, he, ⟨rfl, h1⟩, h2⟩
  · rintro ⟨e, he, ⟨rfl, h1⟩, h2⟩
    exact ⟨⟨⟨e, he, rfl⟩, h1⟩, h2⟩

theorem evalNegs_nil (lk : String → List Tuple) (envs : List Env) : evalNegs lk [] envs = envs := by
  unfold evalNegs
  simp only [List.all_nil]
  exact filter_const_true envs

/-- body valuations of a partition-safe clause: a valuation is found iff some partition finds it. -/
theorem bodyEnvs_dist (hash : Tuple → Nat) (n : Nat) (hn : 0 < n) (lk : String → List Tuple) (r : Rule)
    (hpos : r.posAtoms.length ≤ 1) (hneg : r.negAtoms = []) (x : Env) :
    x ∈ bodyEnvs lk r ↔ ∃ w, w ∈ List.range n ∧ x ∈ bodyEnvs (partLk hash n w lk) r := by
  unfold bodyEnvs
  simp only [hneg, evalNegs_nil]
  rw [specCmps_mem]
  constructor
  · rintro ⟨e, he, hx⟩
    obtain ⟨w, hw, hew⟩ := (evalPos_dist hash n hn lk r.posAtoms hpos e).1 he
    exact ⟨w, hw, (specCmps_mem _ _ _).2 ⟨e, hew, hx⟩⟩
  · rintro ⟨w, hw, hx⟩
    obtain ⟨e, he, hx⟩ := (specCmps_mem _ _ _).1 hx
    exact ⟨e, (evalPos_dist hash n hn lk r.posAtoms hpos e).2 ⟨w, hw, he⟩, hx⟩

/-! ### the engine's own clause evaluation of a partition-safe clause -/

/-- the body of a clause with ≤ 1 positive atom and no negated atom, as the engine evaluates it:
    per-valuation computed columns and filters over the scan. -/
theorem bodyEnvsM_single (lk : String → List Tuple) (r : Rule) (_hpos : r.posAtoms.length ≤ 1) (hneg : r.negAtoms = []) :
    bodyEnvsM true lk r =
      match buildCmps r.posVars r.cmps with
      | none => none
      | some (cols, fs) =>
        if cols.any (fun xe => exprHasDivMod xe.2) then none else
        match optMapM (applyCols cols) (evalPos lk r.posAtoms [[]]) with
        | none => none
        | some envs => some (envs.filter (fun env => fs.all (Cmp.holds env))) := by
  unfold bodyEnvsM
  cases hb : buildCmps r.posVars r.cmps with
  | none => rfl
  | some cf =>
    obtain ⟨cols, fs⟩ := cf
    simp only [hneg, evalNegs_nil]
    rfl

theorem evalRuleM_dist (hash : Tuple → Nat) (n : Nat) (hn : 0 < n) (lk : String → List Tuple) (r : Rule)
    (hpos : r.posAtoms.length ≤ 1) (hneg : r.negAtoms = []) (hagg : r.hasAgg = false)
    (ts : List Tuple) (hev : evalRuleM true lk r = some ts) :
    (∀ w, w ∈ List.range n → ∃ tw, evalRuleM true (partLk hash n w lk) r = some tw) ∧
    (∀ t, t ∈ ts ↔ ∃ w tw, w ∈ List.range n ∧ evalRuleM true (partLk hash n w lk) r = some tw ∧ t ∈ tw) := by
  unfold evalRuleM at hev ⊢
  simp only [bodyEnvsM_single _ r hpos hneg] at hev ⊢
  cases hb : buildCmps r.posVars r.cmps with
  | none => rw [hb] at hev; cases hev
  | some cf =>
    obtain ⟨cols, fs⟩ := cf
    rw [hb] at hev
    simp only at hev ⊢
    by_cases hdm : (cols.any fun xe => exprHasDivMod xe.2) = true
    · simp [hdm] at hev
    · simp only [hdm, Bool.false_eq_true, if_false] at hev ⊢
      cases hc : optMapM (applyCols cols) (evalPos lk r.posAtoms [[]]) with
      | none => rw [hc] at hev; cases hev
      | some E =>
        rw [hc] at hev
        simp only [headOf, headOfSpec, hagg, Bool.false_eq_true, if_false, headRows] at hev ⊢
        -- every partition's computed columns succeed
        have hcw : ∀ w, w ∈ List.range n → ∃ Ew, optMapM (applyCols cols) (evalPos (partLk hash n w lk) r.posAtoms [[]]) = some Ew := by
          intro w hw
          cases hcc : optMapM (applyCols cols) (evalPos (partLk hash n w lk) r.posAtoms [[]]) with
          | some Ew => exact ⟨Ew, rfl⟩
          | none =>
            obtain ⟨e, he, hf⟩ := (optMapM_none_iff _ _).1 hcc
            have : e ∈ evalPos lk r.posAtoms [[]] := (evalPos_dist hash n hn lk r.posAtoms hpos e).2 ⟨w, hw, he⟩
            have : optMapM (applyCols cols) (evalPos lk r.posAtoms [[]]) = none := (optMapM_none_iff _ _).2 ⟨e, this, hf⟩
            rw [hc] at this; cases this
        -- membership in the filtered computed valuations distributes
        have hmem : ∀ x, x ∈ E.filter (fun env => fs.all (Cmp.holds env)) ↔
            ∃ w Ew, w ∈ List.range n ∧ optMapM (applyCols cols) (evalPos (partLk hash n w lk) r.posAtoms [[]]) = some Ew ∧
              x ∈ Ew.filter (fun env => fs.all (Cmp.holds env)) := by
          intro x
          simp only [List.mem_filter, optMapM_some_mem _ _ _ hc x]
          constructor
          · rintro ⟨⟨e, he, hf⟩, hp⟩
            obtain ⟨w, hw, hew⟩ := (evalPos_dist hash n hn lk r.posAtoms hpos e).1 he
            obtain ⟨Ew, hEw⟩ := hcw w hw
            exact ⟨w, Ew, hw, hEw, (optMapM_some_mem _ _ _ hEw x).2 ⟨e, hew, hf⟩, hp⟩
          · rintro ⟨w, Ew, hw, hEw, hx, hp⟩
            obtain ⟨e, he, hf⟩ := (optMapM_some_mem _ _ _ hEw x).1 hx
            exact ⟨⟨e, (evalPos_dist hash n hn lk r.posAtoms hpos e).2 ⟨w, hw, he⟩, hf⟩, hp⟩
        have hsome : ∀ w, w ∈ List.range n → ∃ tw,
            (match (match optMapM (applyCols cols) (evalPos (partLk hash n w lk) r.posAtoms [[]]) with
                | none => none
                | some envs => some (envs.filter (fun env => fs.all (Cmp.holds env)))) with
              | some envs => optMapM (fun env => optMapM (HTerm.plain env) r.hargs) envs
              | none => none) = some tw := by
          intro w hw
          obtain ⟨Ew, hEw⟩ := hcw w hw
          rw [hEw]
          simp only
          cases hh : optMapM (fun env => optMapM (HTerm.plain env) r.hargs) (Ew.filter (fun env => fs.all (Cmp.holds env))) with
          | some tw => exact ⟨tw, rfl⟩
          | none =>
            obtain ⟨x, hx, hf⟩ := (optMapM_none_iff _ _).1 hh
            have : x ∈ E.filter (fun env => fs.all (Cmp.holds env)) := (hmem x).2 ⟨w, Ew, hw, hEw, hx⟩
            have : optMapM (fun env => optMapM (HTerm.plain env) r.hargs) (E.filter (fun env => fs.all (Cmp.holds env))) = none :=
              (optMapM_none_iff _ _).2 ⟨x, this, hf⟩
            rw [hev] at this; cases this
        refine ⟨hsome, ?_⟩
        intro t
        rw [optMapM_some_mem _ _ _ hev t]
        constructor
        · rintro ⟨x, hx, hf⟩
          obtain ⟨w, Ew, hw, hEw, hxw⟩ := (hmem x).1 hx
          obtain ⟨tw, htw⟩ := hsome w hw
          refine ⟨w, tw, hw, htw, ?_⟩
          rw [hEw] at htw
          simp only at htw
          exact (optMapM_some_mem _ _ _ htw t).2 ⟨x, hxw, hf⟩
        · rintro ⟨w, tw, hw, htw, ht⟩
          obtain ⟨Ew, hEw⟩ := hcw w hw
          rw [hEw] at htw
          simp only at htw
          obtain ⟨x, hx, hf⟩ := (optMapM_some_mem _ _ _ htw t).1 ht
          exact ⟨x, (hmem x).2 ⟨w, Ew, hw, hEw, hx⟩, hf⟩

/-- one partition-safe aggregate-free clause: if the whole relation evaluates, every partition
    does, and a tuple is derived iff some partition derives it. -/
theorem evalRuleLk_dist (hash : Tuple → Nat) (n : Nat) (hn : 0 < n) (lk : String → List Tuple) (r : Rule)
    (hpos : r.posAtoms.length ≤ 1) (hneg : r.negAtoms = []) (hagg : r.hasAgg = false)
    (ts : List Tuple) (hev : evalRuleLk lk r = some ts) :
    (∀ w, w ∈ List.range n → ∃ tw, evalRuleLk (partLk hash n w lk) r = some tw) ∧
    (∀ t, t ∈ ts ↔ ∃ w tw, w ∈ List.range n ∧ evalRuleLk (partLk hash n w lk) r = some tw ∧ t ∈ tw) := by
  unfold evalRuleLk headOfSpec at hev ⊢
  simp only [hagg, Bool.false_eq_true, if_false] at hev ⊢
  unfold headRows at hev ⊢
  have hsome : ∀ w, w ∈ List.range n → ∃ tw, optMapM (fun env => optMapM (HTerm.plain env) r.hargs) (bodyEnvs (partLk hash n w lk) r) = some tw := by
    intro w hw
    cases hc : optMapM (fun env => optMapM (HTerm.plain env) r.hargs) (bodyEnvs (partLk hash n w lk) r) with
    | some tw => exact ⟨tw, rfl⟩
    | none =>
      obtain ⟨e, he, hn'⟩ := (optMapM_none_iff _ _).1 hc
      have : e ∈ bodyEnvs lk r := (bodyEnvs_dist hash n hn lk r hpos hneg e).2 ⟨w, hw, he⟩
      have : optMapM (fun env => optMapM (HTerm.plain env) r.hargs) (bodyEnvs lk r) = none :=
        (optMapM_none_iff _ _).2 ⟨e, this, hn'⟩
      rw [hev] at this; cases this
  refine ⟨hsome, ?_⟩
  intro t
  rw [optMapM_some_mem _ _ _ hev t]
  constructor
  · rintro ⟨e, he, hf⟩
    obtain ⟨w, hw, hew⟩ := (bodyEnvs_dist hash n hn lk r hpos hneg e).1 he
    obtain ⟨tw, htw⟩ := hsome w hw
    exact ⟨w, tw, hw, htw, (optMapM_some_mem _ _ _ htw t).2 ⟨e, hew, hf⟩⟩
  · rintro ⟨w, tw, hw, htw, ht⟩
    obtain ⟨e, he, hf⟩ := (optMapM_some_mem _ _ _ htw t).1 ht
    exact ⟨e, (bodyEnvs_dist hash n hn lk r hpos hneg e).2 ⟨w, hw, he⟩, hf⟩

theorem mem_unionAll (t : Tuple) : ∀ (ls : List (List Tuple)), t ∈ unionAll ls ↔ ∃ l, l ∈ ls ∧ t ∈ l
  | [] => by simp [unionAll]
  | a :: as => by
    unfold unionAll
    rw [mem_unionT, mem_dedupT, mem_unionAll t as]
    constructor
    · rintro (h | ⟨l, hl, ht⟩)
      · exact ⟨a, List.mem_cons_self .., h⟩
      · exact ⟨l, List.mem_cons_of_mem _ hl, ht⟩
    · rintro ⟨l, hl, ht⟩
      rcases List.mem_cons.1 hl with rfl | hl
      · exact Or.inl ht
      · exact Or.inr ⟨l, hl, ht⟩

/-- **a partition-safe head distributes over hash partitioning**, for every partitioner and
    every positive worker count (the engine's own clause evaluation; no hypothesis on the clauses
    beyond `parSafe`). -/
theorem evalRulesM_dist (hash : Tuple → Nat) (n : Nat) (hn : 0 < n) (lk : String → List Tuple) (cs : List Rule)
    (hsafe : parSafe cs = true) (ts : List Tuple) (hev : evalRulesM true lk cs = some ts) :
    MemEq (unionAll ((List.range n).map (fun w => (evalRulesM true (partLk hash n w lk) cs).getD []))) ts := by
  have hps : ∀ r, r ∈ cs → r.posAtoms.length ≤ 1 ∧ r.negAtoms = [] ∧ r.hasAgg = false := by
    intro r hr
    unfold parSafe at hsafe
    have := List.all_eq_true.1 hsafe r hr
    simp only [Bool.and_eq_true, decide_eq_true_eq, List.isEmpty_iff, Bool.not_eq_true'] at this
    exact ⟨this.1.1, this.1.2, this.2⟩
  unfold evalRulesM at hev ⊢
  have hall : ∀ r, r ∈ cs → ∃ a, evalRuleM true lk r = some a := by
    intro r hr
    cases hc : evalRuleM true lk r with
    | some a => exact ⟨a, rfl⟩
    | none =>
      have : evalRulesWith (evalRuleM true lk) cs = none := (evalRulesWith_none_iff _ _).2 ⟨r, hr, hc⟩
      rw [hev] at this; cases this
  have hpart : ∀ w, w ∈ List.range n → ∃ tw, evalRulesWith (evalRuleM true (partLk hash n w lk)) cs = some tw := by
    intro w hw
    cases hc : evalRulesWith (evalRuleM true (partLk hash n w lk)) cs with
    | some tw => exact ⟨tw, rfl⟩
    | none =>
      obtain ⟨r, hr, hn'⟩ := (evalRulesWith_none_iff _ _).1 hc
      obtain ⟨a, ha⟩ := hall r hr
      obtain ⟨tw, htw⟩ := (evalRuleM_dist hash n hn lk r (hps r hr).1 (hps r hr).2.1 (hps r hr).2.2 a ha).1 w hw
      rw [hn'] at htw; cases htw
  intro t
  rw [mem_unionAll]
  simp only [List.mem_map]
  rw [evalRulesWith_some_mem _ _ _ hev t]
  constructor
  · rintro ⟨l, ⟨w, hw, rfl⟩, ht⟩
    obtain ⟨tw, htw⟩ := hpart w hw
    rw [htw] at ht
    simp only [Option.getD_some] at ht
    obtain ⟨r, a, hr, ha, hta⟩ := (evalRulesWith_some_mem _ _ _ htw t).1 ht
    obtain ⟨b, hb⟩ := hall r hr
    exact ⟨r, b, hr, hb, ((evalRuleM_dist hash n hn lk r (hps r hr).1 (hps r hr).2.1 (hps r hr).2.2 b hb).2 t).2 ⟨w, a, hw, ha, hta⟩⟩
  · rintro ⟨r, a, hr, ha, hta⟩
    obtain ⟨w, tw, hw, htw, htt⟩ := ((evalRuleM_dist hash n hn lk r (hps r hr).1 (hps r hr).2.1 (hps r hr).2.2 a ha).2 t).1 hta
    obtain ⟨tws, htws⟩ := hpart w hw
    refine ⟨tws, ⟨w, hw, by rw [htws]; rfl⟩, ?_⟩
    exact (evalRulesWith_some_mem _ _ _ htws t).2 ⟨r, tw, hr, htw, htt⟩

/-! ### whole runs with `n` workers and with one worker -/

/-- switches off, `n` workers, no row limit. -/
def cfgW (n : Nat) : Cfg := { workers := n }

theorem filter_all_true {α} (p : α → Bool) : ∀ (l : List α), (∀ x, x ∈ l → p x = true) → l.filter p = l
  | [], _ => rfl
  | x :: xs, h => by
    simp only [List.filter, h x (List.mem_cons_self ..)]
    rw [filter_all_true p xs (fun y hy => h y (List.mem_cons_of_mem _ hy))]

theorem filter_all_false {α} (p : α → Bool) : ∀ (l : List α), (∀ x, x ∈ l → p x = false) → l.filter p = []
  | [], _ => rfl
  | x :: xs, h => by
    simp only [List.filter, h x (List.mem_cons_self ..)]
    exact filter_all_false p xs (fun y hy => h y (List.mem_cons_of_mem _ hy))

/-- **one head**: whenever the one-worker evaluation of a head succeeds, the `n`-worker evaluation
    returns the very same list — for recursive heads (never partitioned), for heads with joins,
    negation or aggregates (never partitioned) and for partitioned heads (distributivity). -/
theorem evalHead_workers (p : Program) (h : String) (n : Nat) (hn : 0 < n) (hash hash' : Tuple → Nat) (fuel : Nat)
    (lk : String → List Tuple) (ts : List Tuple)
    (he1 : evalHead (cfgW 1) hash' fuel p lk h = some ts) : evalHead (cfgW n) hash fuel p lk h = some ts := by
  unfold evalHead at he1 ⊢
  by_cases hs : selfRec p h = true
  · simp only [hs, if_true] at he1 ⊢; exact he1
  · simp only [hs, Bool.false_eq_true, if_false] at he1 ⊢
    have h1 : ¬ ((decide ((cfgW 1).workers > 1) && parSafe (clausesOf p h)) = true) := by
      simp [cfgW]
    rw [if_neg h1] at he1
    by_cases hpar : (decide ((cfgW n).workers > 1) && parSafe (clausesOf p h)) = true
    · rw [if_pos hpar]
      simp only [Bool.and_eq_true] at hpar
      have hd := evalRulesM_dist hash n hn lk (clausesOf p h) hpar.2 ts he1
      have hw : (cfgW n).workers = n := rfl
      simp only [hw, he1, Option.getD_some]
      congr 1
      rw [filter_all_true _ ts (fun t ht => List.contains_iff_mem.2 ((hd t).2 ht)),
        filter_all_false _ _ (fun t ht => by simpa using (hd t).1 ht)]
      simp
    · rw [if_neg hpar]; exact he1

theorem execLoop_workers (p : Program) (edb : DB) (n : Nat) (hn : 0 < n) (hash hash' : Tuple → Nat)
    (ord : String → List Tuple → List Tuple) (fuel : Nat) :
    ∀ (order : List String) (acc : DB) (last A : List Tuple) (acc' : DB),
      execLoop (cfgW 1) hash' ord fuel p edb order acc last = .ok A acc' →
      execLoop (cfgW n) hash ord fuel p edb order acc last = .ok A acc'
  | [], _, _, _, _, h => by simpa [execLoop] using h
  | h :: rest, acc, last, A, acc', hr => by
    unfold execLoop at hr ⊢
    cases he1 : evalHead (cfgW 1) hash' fuel p (lkOf edb acc) h with
    | none => rw [he1] at hr; simp at hr
    | some ts =>
      rw [he1] at hr
      rw [evalHead_workers p h n hn hash hash' fuel _ ts he1]
      have hl1 : limited (cfgW 1) p h = false := by simp [limited, cfgW]
      have hln : limited (cfgW n) p h = false := by simp [limited, cfgW]
      simp only [hl1, hln, Bool.and_false, Bool.false_eq_true, if_false] at hr ⊢
      exact execLoop_workers p edb n hn hash hash' ord fuel rest _ _ A acc' hr

theorem run_loop (cfg : Cfg) (hash : Tuple → Nat) (ord : String → List Tuple → List Tuple) (fuel : Nat)
    (p : Program) (edb : DB) (A : List Tuple) (acc : DB) (hrun : Engine.run cfg hash ord fuel p edb = .ok A acc) :
    execLoop cfg hash ord fuel p edb (execOrder p) [] [] = .ok A acc := by
  unfold Engine.run at hrun
  split at hrun
  · cases hrun
  · split at hrun
    · cases hrun
    · split at hrun
      · cases hrun
      · exact hrun

/-- the whole run: `n` workers reproduce the successful one-worker run exactly. -/
theorem run_workers (p : Program) (edb : DB) (n : Nat) (hn : 0 < n) (hash hash' : Tuple → Nat)
    (ord : String → List Tuple → List Tuple) (fuel : Nat) (A : List Tuple) (acc : DB)
    (h1 : Engine.run (cfgW 1) hash' ord fuel p edb = .ok A acc) :
    Engine.run (cfgW n) hash ord fuel p edb = .ok A acc := by
  have hl := execLoop_workers p edb n hn hash hash' ord fuel _ _ _ _ _ (run_loop _ _ _ _ _ _ _ _ h1)
  unfold Engine.run at h1 ⊢
  split at h1
  · cases h1
  · split at h1
    · cases h1
    · split at h1
      · cases h1
      · rename_i h_e h_s h_b
        simp only [h_e, h_s, h_b, Bool.false_eq_true, if_false]
        exact hl

end ILV.Engine
