/-
  C13 lemmas, part 3: the shape `Img` of every running disk and every as-is crash image of a single-shard store, and
  how the FS steps of ensure_shard / append / flush move it.
-/
import ILV.Lemmas.PersistSpec
namespace ILV.Persist
open ILV.FS

/-- tagged WAL lines of shard `s` -/
def walItems (s : Name) (es : List Update) : List (Item Rec) := (es.map (fun u => (s, u))).map mk

/-- `Img s d md X es`: the only metadata file is the one of shard `s` and holds `md` (none: no metadata file at all);
    the batch files it references parse to the updates `X`; the WAL is absent (then `es = []`) or holds exactly the
    entries `es`, all of shard `s`; there is no `current.wal.new`.  Other files (temp files, unreferenced batches) are
    unconstrained. -/
structure Img (s : Name) (d : Disk) (md : Option ShardMeta) (X es : List Update) : Prop where
  noMeta : md = none → (∀ f, itemsAt d (.smeta f) = none) ∧ X = [] ∧ es = []
  hasMeta : ∀ m, md = some m → m.name = s ∧ itemsAt d (.smeta (metaFile s)) = some [.whole (.smeta m)] ∧
    (∀ f, f ≠ metaFile s → itemsAt d (.smeta f) = none) ∧ readBatches d m.batches = some X
  wal : (itemsAt d .wal = none ∧ es = []) ∨ itemsAt d .wal = some (walItems s es)
  walNew : itemsAt d .walNew = none

/-- the paths `Img` looks at -/
def observed (md : Option ShardMeta) : Path → Prop
  | .smeta _ => True
  | .wal => True
  | .walNew => True
  | .batch id => ∃ m, md = some m ∧ ∃ b ∈ m.batches, b.id = id
  | _ => False

theorem Img.agree {s d d' md X es} (h : Img s d md X es)
    (hag : ∀ q, observed md q → itemsAt d' q = itemsAt d q) : Img s d' md X es := by
  have hsm : ∀ f, itemsAt d' (.smeta f) = itemsAt d (.smeta f) := fun f => hag (.smeta f) trivial
  have hw : itemsAt d' .wal = itemsAt d .wal := hag .wal trivial
  have hwn : itemsAt d' .walNew = itemsAt d .walNew := hag .walNew trivial
  refine ⟨?_, ?_, ?_, ?_⟩
  · intro hm
    obtain ⟨h1, h2, h3⟩ := h.noMeta hm
    exact ⟨fun f => by rw [hsm]; exact h1 f, h2, h3⟩
  · intro m hm
    obtain ⟨h1, h2, h3, h4⟩ := h.hasMeta m hm
    refine ⟨h1, by rw [hsm]; exact h2, fun f hf => by rw [hsm]; exact h3 f hf, ?_⟩
    rw [← h4]
    apply readBatches_congr
    intro b hb
    exact hag (.batch b.id) ⟨m, hm, b, hb, rfl⟩
  · rcases h.wal with ⟨h1, h2⟩ | h1
    · exact .inl ⟨by rw [hw]; exact h1, h2⟩
    · exact .inr (by rw [hw]; exact h1)
  · rw [hwn]; exact h.walNew

theorem Img.crash {s d md X es} (h : Img s d md X es) : Img s (crash d noCut) md X es :=
  h.agree (fun q _ => itemsAt_crash_noCut d q)

/-- steps that only touch temp files keep the image -/
theorem Img.write_batchTmp {s d md X es} (h : Img s d md X es) (id : Nat) (rs : List Rec) :
    Img s (apply d (.write (.batchTmp id) rs)) md X es :=
  h.agree (fun q hq => by cases q <;> simp_all [observed, itemsAt_write])

theorem Img.write_metaTmp {s d md X es} (h : Img s d md X es) (f : Name) (rs : List Rec) :
    Img s (apply d (.write (.metaTmp f) rs)) md X es :=
  h.agree (fun q hq => by cases q <;> simp_all [observed, itemsAt_write])

theorem Img.fsync {s d md X es} (h : Img s d md X es) (p : Path) : Img s (apply d (.fsync p)) md X es :=
  h.agree (fun q _ => itemsAt_fsync d p q)

theorem Img.nop {s d md X es} (h : Img s d md X es) (l : Nat) : Img s (apply d (.nop l)) md X es :=
  h.agree (fun q _ => itemsAt_nop d l q)

/-- renaming a batch temp file onto an id that the metadata does not reference: an orphan, the image is unchanged -/
theorem Img.rename_batch {s d md X es} (h : Img s d md X es) (id : Nat)
    (hfresh : ∀ m, md = some m → ∀ b ∈ m.batches, b.id ≠ id) :
    Img s (apply d (.rename (.batchTmp id) (.batch id))) md X es := by
  apply h.agree
  intro q hq
  rw [itemsAt_rename]
  cases hsrc : itemsAt d (.batchTmp id) with
  | none => rfl
  | some x =>
    cases q with
    | batch id' =>
      obtain ⟨m, hm, b, hb, hid⟩ := hq
      have : id ≠ id' := fun e => hfresh m hm b hb (by omega)
      simp [this]
    | _ => simp_all [observed]

/-- unlinking an unreferenced batch file or a temp file keeps the image -/
theorem Img.unlink_other {s d md X es} (h : Img s d md X es) (p : Path) (hp : ¬ observed md p) :
    Img s (apply d (.unlink p)) md X es := by
  apply h.agree
  intro q hq
  rw [itemsAt_unlink]
  by_cases e : q = p
  · subst e; exact absurd hq hp
  · simp [e]

/-- `wal.open`: the file is created empty if missing -/
theorem Img.wal_open {s d md X es} (h : Img s d md X es) : Img s (apply d (.append .wal [])) md X es := by
  refine ⟨?_, ?_, ?_, ?_⟩
  · intro hm
    obtain ⟨h1, h2, h3⟩ := h.noMeta hm
    exact ⟨fun f => by rw [itemsAt_append]; simpa using h1 f, h2, h3⟩
  · intro m hm
    obtain ⟨h1, h2, h3, h4⟩ := h.hasMeta m hm
    refine ⟨h1, by rw [itemsAt_append]; simpa using h2, fun f hf => by rw [itemsAt_append]; simpa using h3 f hf, ?_⟩
    rw [← h4]
    exact readBatches_congr _ (fun b _ => by rw [itemsAt_append]; simp)
  · rcases h.wal with ⟨h1, h2⟩ | h1
    · right; subst h2; rw [itemsAt_append]; simp [h1, walItems]
    · right; rw [itemsAt_append]; simp [h1]
  · rw [itemsAt_append]; simpa using h.walNew

/-- `wal.append.write`: the request's lines are appended -/
theorem Img.wal_append {s d m X es} (h : Img s d (some m) X es) (new : List Update) :
    Img s (apply d (.append .wal (new.map (fun u => Rec.wal s u)))) (some m) X (es ++ new) := by
  refine ⟨?_, ?_, ?_, ?_⟩
  · intro hm; cases hm
  · intro m' hm
    obtain ⟨h1, h2, h3, h4⟩ := h.hasMeta m' hm
    refine ⟨h1, by rw [itemsAt_append]; simpa using h2, fun f hf => by rw [itemsAt_append]; simpa using h3 f hf, ?_⟩
    rw [← h4]
    exact readBatches_congr _ (fun b _ => by rw [itemsAt_append]; simp)
  · right
    rw [itemsAt_append]
    rcases h.wal with ⟨h1, h2⟩ | h1
    · subst h2; simp [h1, walItems, List.map_map, Function.comp_def]; intros; rfl
    · simp [h1, walItems, List.map_map, Function.comp_def]; intros; rfl
  · rw [itemsAt_append]; simpa using h.walNew

/-- `ensure_shard`'s rename: the first metadata file appears -/
theorem Img.rename_first_meta {s d} (h : Img s d none [] []) (m : ShardMeta) (hname : m.name = s) (hb : m.batches = [])
    (hsrc : itemsAt d (.metaTmp (metaFile s)) = some [.whole (.smeta m)]) :
    Img s (apply d (.rename (.metaTmp (metaFile s)) (.smeta (metaFile s)))) (some m) [] [] := by
  obtain ⟨h1, _, _⟩ := h.noMeta rfl
  refine ⟨?_, ?_, ?_, ?_⟩
  · intro hm; cases hm
  · intro m' hm
    cases hm
    refine ⟨hname, by rw [itemsAt_rename, hsrc]; simp, fun f hf => ?_, by rw [hb]; rfl⟩
    rw [itemsAt_rename, hsrc]
    have : ¬ metaFile s = f := fun e => hf e.symm
    simp [this, h1 f]
  · rcases h.wal with ⟨hw, _⟩ | hw
    · left; rw [itemsAt_rename, hsrc]; simp [hw]
    · right; rw [itemsAt_rename, hsrc]; simp [hw]
  · rw [itemsAt_rename, hsrc]; simp [h.walNew]

theorem readBatches_append (d : Disk) (a b : List BatchRef) (A B : List Update)
    (ha : readBatches d a = some A) (hb : readBatches d b = some B) : readBatches d (a ++ b) = some (A ++ B) := by
  induction a generalizing A with
  | nil => simp [readBatches] at ha; subst ha; simpa using hb
  | cons x xs ih =>
    simp only [readBatches, List.cons_append] at ha ⊢
    cases hx : readBatch d x.id with
    | none => simp [hx] at ha
    | some ux =>
      cases hxs : readBatches d xs with
      | none => simp [hx, hxs] at ha
      | some uxs =>
        simp only [hx, hxs, Option.some.injEq] at ha
        subst ha
        simp [ih uxs hxs, List.append_assoc]

/-- `flush`'s metadata rename: the new batch becomes referenced while the WAL still holds the same updates (the
    defect window: content `X ++ es ++ es`) -/
theorem Img.rename_flush_meta {s d m X es} (h : Img s d (some m) X es) (m' : ShardMeta) (id : Nat) (b0 : BatchRef)
    (hn' : m'.name = s) (hbs : m'.batches = m.batches ++ [b0]) (hid : b0.id = id)
    (hbatch : itemsAt d (.batch id) = some [.whole (.batch es)])
    (hsrc : itemsAt d (.metaTmp (metaFile s)) = some [.whole (.smeta m')]) :
    Img s (apply d (.rename (.metaTmp (metaFile s)) (.smeta (metaFile s)))) (some m') (X ++ es) es := by
  obtain ⟨h1, h2, h3, h4⟩ := h.hasMeta m rfl
  have hkeep : ∀ q, (∀ f, q ≠ .smeta f) → (∀ f, q ≠ .metaTmp f) →
      itemsAt (apply d (.rename (.metaTmp (metaFile s)) (.smeta (metaFile s)))) q = itemsAt d q := by
    intro q hq1 hq2
    rw [itemsAt_rename, hsrc]
    have a : ¬ Path.smeta (metaFile s) = q := fun e => hq1 _ e.symm
    have b : ¬ q = Path.metaTmp (metaFile s) := hq2 _
    simp [a, b]
  refine ⟨?_, ?_, ?_, ?_⟩
  · intro hm; cases hm
  · intro mm hm
    cases hm
    refine ⟨hn', by rw [itemsAt_rename, hsrc]; simp, fun f hf => ?_, ?_⟩
    · rw [itemsAt_rename, hsrc]
      have : ¬ metaFile s = f := fun e => hf e.symm
      simp [this, h3 f hf]
    · rw [hbs]
      apply readBatches_append
      · rw [← h4]; exact readBatches_congr _ (fun b _ => hkeep _ (by simp) (by simp))
      · have : readBatch (apply d (.rename (.metaTmp (metaFile s)) (.smeta (metaFile s)))) id = some es := by
          simp [readBatch, readDoc_eq, hkeep (.batch id) (by simp) (by simp), hbatch]
        simp [readBatches, hid, this]
  · rcases h.wal with ⟨hw, he⟩ | hw
    · left; exact ⟨by rw [hkeep _ (by simp) (by simp)]; exact hw, he⟩
    · right; rw [hkeep _ (by simp) (by simp)]; exact hw
  · rw [hkeep _ (by simp) (by simp)]; exact h.walNew

/-- `remove_shard_entries` on a WAL that holds this shard's entries only: the file is unlinked -/
theorem Img.unlink_wal {s d md X es} (h : Img s d md X es) (hmd : md ≠ none) : Img s (apply d (.unlink .wal)) md X [] := by
  refine ⟨fun hm => absurd hm hmd, ?_, ?_, ?_⟩
  · intro m hm
    obtain ⟨h1, h2, h3, h4⟩ := h.hasMeta m hm
    refine ⟨h1, by rw [itemsAt_unlink]; simpa using h2, fun f hf => by rw [itemsAt_unlink]; simpa using h3 f hf, ?_⟩
    rw [← h4]
    exact readBatches_congr _ (fun b _ => by rw [itemsAt_unlink]; simp)
  · left; exact ⟨by rw [itemsAt_unlink]; simp, rfl⟩
  · rw [itemsAt_unlink]; simpa using h.walNew

end ILV.Persist
