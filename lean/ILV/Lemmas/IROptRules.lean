/-
  The rewrite rules of `Optimizer::apply_all_rules` (optimizer/mod.rs:89): each one maps a
  well-formed tree to a well-formed tree of the same width with *the same list of rows*.
-/
import ILV.Lemmas.IRRules
namespace ILV.IR
open ILV

/-! ### identity-map elimination -/

mutual
theorem elimIdMaps_ok (db : Db) : ∀ t, wf db t = true → Ok db t (elimIdMaps t)
  | .scan .., h => by simpa [elimIdMaps] using Ok.refl h
  | .map i proj s, h => by
    have hi := elimIdMaps_ok db i (wf_map h)
    simp only [elimIdMaps]
    split
    · rename_i hid
      simp only [isIdentityProj, Bool.and_eq_true, beq_iff_eq] at hid
      have hs : s.length = proj.length := by
        simp only [wf, Bool.and_eq_true, beq_iff_eq] at h; exact h.2
      refine ⟨hi.w, ?_, ?_⟩
      · simp [width, schema, hs, hid.2] at *
      · rw [hi.ev]
        simp only [eval]
        have : ∀ t ∈ eval db i, project t proj = t := by
          intro t ht
          have hl := rowsOk db i (wf_map h) t ht
          rw [hid.1, hid.2, hi.wd, ← hl]
          exact project_range t
        rw [List.map_congr_left this]
        simp
    · exact Ok.map h hi
  | .filter i p, h => by simpa [elimIdMaps] using Ok.filter h (elimIdMaps_ok db i (wf_filter h))
  | .join l r lk rk s, h => by
    simpa [elimIdMaps] using Ok.join h (elimIdMaps_ok db l (wf_join h).1) (elimIdMaps_ok db r (wf_join h).2)
  | .distinct i, h => by simpa [elimIdMaps] using Ok.distinct h (elimIdMaps_ok db i (wf_distinct h))
  | .union is, h => by simpa [elimIdMaps] using Ok.union h (elimIdMapsL_ok db is (wf_union h))
  | .aggregate .., h => by simpa [elimIdMaps] using Ok.refl h
  | .antijoin l r lk rk s, h => by
    simpa [elimIdMaps] using Ok.antijoin h (elimIdMaps_ok db l (wf_antijoin h).1) (elimIdMaps_ok db r (wf_antijoin h).2)
  | .compute i es, h => by simpa [elimIdMaps] using Ok.compute h (elimIdMaps_ok db i (wf_compute h))
  | .hnsw .., h => by simpa [elimIdMaps] using Ok.refl h
  | .flatMap .., h => by simpa [elimIdMaps] using Ok.refl h
  | .joinFlatMap .., h => by simpa [elimIdMaps] using Ok.refl h
theorem elimIdMapsL_ok (db : Db) : ∀ ts, wfL db ts = true → OkL db ts (elimIdMapsL ts)
  | .nil, _ => by simpa [elimIdMapsL] using OkL.nil
  | .cons t ts, h => by
    simpa [elimIdMapsL] using OkL.cons (elimIdMaps_ok db t (wfL_cons h).1) (elimIdMapsL_ok db ts (wfL_cons h).2)
end

/-! ### always-true filter elimination -/

mutual
theorem elimTrue_ok (db : Db) : ∀ t, wf db t = true → Ok db t (elimTrue t)
  | .filter i p, h => by
    have hi := elimTrue_ok db i (wf_filter h)
    simp only [elimTrue]
    split
    · rename_i hp
      have : p = .tt := by simpa using hp
      subst this
      exact ⟨hi.w, by simpa [width, schema] using hi.wd, by simp [eval, hi.ev, Pred.eval, Pred.evalG]⟩
    · exact Ok.filter h hi
  | .scan .., h => by simpa [elimTrue] using Ok.refl h
  | .map i proj s, h => by simpa [elimTrue] using Ok.map h (elimTrue_ok db i (wf_map h))
  | .join l r lk rk s, h => by
    simpa [elimTrue] using Ok.join h (elimTrue_ok db l (wf_join h).1) (elimTrue_ok db r (wf_join h).2)
  | .distinct i, h => by simpa [elimTrue] using Ok.distinct h (elimTrue_ok db i (wf_distinct h))
  | .union is, h => by simpa [elimTrue] using Ok.union h (elimTrueL_ok db is (wf_union h))
  | .aggregate .., h => by simpa [elimTrue] using Ok.refl h
  | .antijoin l r lk rk s, h => by
    simpa [elimTrue] using Ok.antijoin h (elimTrue_ok db l (wf_antijoin h).1) (elimTrue_ok db r (wf_antijoin h).2)
  | .compute i es, h => by simpa [elimTrue] using Ok.compute h (elimTrue_ok db i (wf_compute h))
  | .hnsw .., h => by simpa [elimTrue] using Ok.refl h
  | .flatMap .., h => by simpa [elimTrue] using Ok.refl h
  | .joinFlatMap .., h => by simpa [elimTrue] using Ok.refl h
theorem elimTrueL_ok (db : Db) : ∀ ts, wfL db ts = true → OkL db ts (elimTrueL ts)
  | .nil, _ => by simpa [elimTrueL] using OkL.nil
  | .cons t ts, h => by
    simpa [elimTrueL] using OkL.cons (elimTrue_ok db t (wfL_cons h).1) (elimTrueL_ok db ts (wfL_cons h).2)
end

/-! ### always-false filter elimination (no `Filter(_, False)` in a well-formed tree: the rule is the identity) -/

mutual
theorem elimFalse_ok (db : Db) : ∀ t, wf db t = true → Ok db t (elimFalse t)
  | .filter i p, h => by
    have hi := elimFalse_ok db i (wf_filter h)
    have hp : (p == Pred.ff) = false := by
      simp only [wf, Bool.and_eq_true, bne_iff_ne, ne_eq] at h
      simpa using h.2
    simp only [elimFalse, hp]
    exact Ok.filter h hi
  | .scan .., h => by simpa [elimFalse] using Ok.refl h
  | .map i proj s, h => by simpa [elimFalse] using Ok.map h (elimFalse_ok db i (wf_map h))
  | .join l r lk rk s, h => by
    simpa [elimFalse] using Ok.join h (elimFalse_ok db l (wf_join h).1) (elimFalse_ok db r (wf_join h).2)
  | .distinct i, h => by simpa [elimFalse] using Ok.distinct h (elimFalse_ok db i (wf_distinct h))
  | .union is, h => by simpa [elimFalse] using Ok.union h (elimFalseL_ok db is (wf_union h))
  | .aggregate .., h => by simpa [elimFalse] using Ok.refl h
  | .antijoin l r lk rk s, h => by
    simpa [elimFalse] using Ok.antijoin h (elimFalse_ok db l (wf_antijoin h).1) (elimFalse_ok db r (wf_antijoin h).2)
  | .compute i es, h => by simpa [elimFalse] using Ok.compute h (elimFalse_ok db i (wf_compute h))
  | .hnsw .., h => by simpa [elimFalse] using Ok.refl h
  | .flatMap .., h => by simpa [elimFalse] using Ok.refl h
  | .joinFlatMap .., h => by simpa [elimFalse] using Ok.refl h
theorem elimFalseL_ok (db : Db) : ∀ ts, wfL db ts = true → OkL db ts (elimFalseL ts)
  | .nil, _ => by simpa [elimFalseL] using OkL.nil
  | .cons t ts, h => by
    simpa [elimFalseL] using OkL.cons (elimFalse_ok db t (wfL_cons h).1) (elimFalseL_ok db ts (wfL_cons h).2)
end

/-! ### map fusion -/

mutual
theorem fuseMaps_ok (db : Db) : ∀ t, wf db t = true → Ok db t (fuseMaps t)
  | .map i proj s, h => by
    have hi := fuseMaps_ok db i (wf_map h)
    simp only [fuseMaps]
    split
    · rename_i ii ip s' heq
      rw [heq] at hi
      have hw := hi.w
      simp only [wf, Bool.and_eq_true, beq_iff_eq] at hw h
      obtain ⟨⟨hii, hip⟩, hs'⟩ := hw
      obtain ⟨⟨_, hproj⟩, hs⟩ := h
      have hwd : s'.length = width i := by simpa [width, schema] using hi.wd
      have hpr : ∀ o ∈ proj, o < ip.length := fun o ho => by
        rw [← hs', hwd]; exact allLt_iff.1 hproj o ho
      refine ⟨?_, rfl, ?_⟩
      · simp only [wf, Bool.and_eq_true, beq_iff_eq, List.length_map]
        refine ⟨⟨hii, ?_⟩, hs⟩
        rw [allLt_iff]
        intro x hx
        simp only [List.mem_map] at hx
        obtain ⟨o, ho, rfl⟩ := hx
        have := hpr o ho
        rw [List.getD_eq_getElem?_getD, List.getElem?_eq_getElem this]
        exact allLt_iff.1 hip _ (List.getElem_mem this)
      · simp only [eval]
        rw [← hi.ev]
        simp only [eval, List.map_map]
        apply List.map_congr_left
        intro t ht
        simp only [Function.comp]
        exact (project_project (fun j hj => by rw [rowsOk db ii hii t ht]; exact allLt_iff.1 hip j hj) hpr).symm
    · exact Ok.map h hi
  | .scan .., h => by simpa [fuseMaps] using Ok.refl h
  | .filter i p, h => by simpa [fuseMaps] using Ok.filter h (fuseMaps_ok db i (wf_filter h))
  | .join l r lk rk s, h => by
    simpa [fuseMaps] using Ok.join h (fuseMaps_ok db l (wf_join h).1) (fuseMaps_ok db r (wf_join h).2)
  | .distinct i, h => by simpa [fuseMaps] using Ok.distinct h (fuseMaps_ok db i (wf_distinct h))
  | .union is, h => by simpa [fuseMaps] using Ok.union h (fuseMapsL_ok db is (wf_union h))
  | .aggregate i gb aggs s, h => by simpa [fuseMaps] using Ok.aggregate h (fuseMaps_ok db i (wf_aggregate h))
  | .antijoin l r lk rk s, h => by
    simpa [fuseMaps] using Ok.antijoin h (fuseMaps_ok db l (wf_antijoin h).1) (fuseMaps_ok db r (wf_antijoin h).2)
  | .compute i es, h => by simpa [fuseMaps] using Ok.compute h (fuseMaps_ok db i (wf_compute h))
  | .hnsw .., h => by simpa [fuseMaps] using Ok.refl h
  | .flatMap .., h => by simpa [fuseMaps] using Ok.refl h
  | .joinFlatMap .., h => by simpa [fuseMaps] using Ok.refl h
theorem fuseMapsL_ok (db : Db) : ∀ ts, wfL db ts = true → OkL db ts (fuseMapsL ts)
  | .nil, _ => by simpa [fuseMapsL] using OkL.nil
  | .cons t ts, h => by
    simpa [fuseMapsL] using OkL.cons (fuseMaps_ok db t (wfL_cons h).1) (fuseMapsL_ok db ts (wfL_cons h).2)
end

/-! ### filter fusion -/

mutual
theorem fuseFilters_ok (db : Db) : ∀ t, wf db t = true → Ok db t (fuseFilters t)
  | .filter i p, h => by
    have hi := fuseFilters_ok db i (wf_filter h)
    simp only [fuseFilters]
    split
    · rename_i ii ip heq
      rw [heq] at hi
      refine ⟨?_, ?_, ?_⟩
      · have := hi.w
        simp only [wf, Bool.and_eq_true] at this ⊢
        exact ⟨this.1, by simp⟩
      · have := hi.wd
        simpa [width, schema] using this
      · simp only [eval]
        rw [← hi.ev]
        simp [eval, List.filter_filter, Pred.eval, Pred.evalG, Bool.and_comm]
    · exact Ok.filter h hi
  | .scan .., h => by simpa [fuseFilters] using Ok.refl h
  | .map i proj s, h => by simpa [fuseFilters] using Ok.map h (fuseFilters_ok db i (wf_map h))
  | .join l r lk rk s, h => by
    simpa [fuseFilters] using Ok.join h (fuseFilters_ok db l (wf_join h).1) (fuseFilters_ok db r (wf_join h).2)
  | .distinct i, h => by simpa [fuseFilters] using Ok.distinct h (fuseFilters_ok db i (wf_distinct h))
  | .union is, h => by simpa [fuseFilters] using Ok.union h (fuseFiltersL_ok db is (wf_union h))
  | .aggregate i gb aggs s, h => by simpa [fuseFilters] using Ok.aggregate h (fuseFilters_ok db i (wf_aggregate h))
  | .antijoin l r lk rk s, h => by
    simpa [fuseFilters] using Ok.antijoin h (fuseFilters_ok db l (wf_antijoin h).1) (fuseFilters_ok db r (wf_antijoin h).2)
  | .compute i es, h => by simpa [fuseFilters] using Ok.compute h (fuseFilters_ok db i (wf_compute h))
  | .hnsw .., h => by simpa [fuseFilters] using Ok.refl h
  | .flatMap .., h => by simpa [fuseFilters] using Ok.refl h
  | .joinFlatMap .., h => by simpa [fuseFilters] using Ok.refl h
theorem fuseFiltersL_ok (db : Db) : ∀ ts, wfL db ts = true → OkL db ts (fuseFiltersL ts)
  | .nil, _ => by simpa [fuseFiltersL] using OkL.nil
  | .cons t ts, h => by
    simpa [fuseFiltersL] using OkL.cons (fuseFilters_ok db t (wfL_cons h).1) (fuseFiltersL_ok db ts (wfL_cons h).2)
end

end ILV.IR
