/-
  The real codec (`Store.realCodec` = WAL JSON line + batch-file columns) is the identity on the
  admissible tuples of homogeneous relations — the bridge from the codec-parametric theorems
  (C11, C14) to the code's codec (C12).
-/
import ILV.Lemmas.BatchCodec
import ILV.Lemmas.StoreInv
namespace ILV.Store
open ILV ILV.Batch ILV.Props.C31

/-- admissible tuples of a relation whose columns have kinds `ks r`: that kind vector (any kinds, any
    arity), no non-finite float, 64-bit float patterns. -/
def Admissible (ks : String → List DType) (r : String) (t : Tuple) : Prop :=
  t.map dataType = ks r ∧ t.all jsonSafe = true ∧ TupleWF t

instance (ks : String → List DType) (r : String) (t : Tuple) : Decidable (Admissible ks r t) := by
  unfold Admissible; infer_instance

theorem walCodec_safe (u : Update) (h : u.data.all jsonSafe = true) : walCodec u = some u := by
  simp [walCodec, h]

theorem realCodec_ok (ks : String → List DType) : CodecOk realCodec (Admissible ks) where
  wal := fun _ u h => walCodec_safe u h.2.1
  batch := fun r us h => by
    cases us with
    | nil => rfl
    | cons u us =>
      exact batchCodec_homog (ks r) (u :: us) (fun v hv => (h v hv).1)

theorem Admissible_wf (ks : String → List DType) : ∀ r t, Admissible ks r t → TupleWF t := fun _ _ h => h.2.2

end ILV.Store
