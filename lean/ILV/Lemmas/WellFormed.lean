/-
  Lemmas for C07: every tuple the engine model derives for a head has the shape of one of the
  head's clauses, and every head result is duplicate-free.
-/
import ILV.Lemmas.Workers
namespace ILV.Engine
open ILV ILV.DL

/-- `t` has the shape of the head of `r`: its arity, and (for non-aggregate heads) the head's
    constants in their positions. -/
def Fits (r : Rule) (t : Tuple) : Prop :=
  t.length = r.hargs.length ∧ (r.hasAgg = false → ∀ (i : Nat) (c : Value), r.hargs[i]? = some (HTerm.const c) → t[i]? = some c)

/-! ### optMapM is pointwise -/

theorem optMapM_length {α β} (f : α → Option β) : ∀ (l : List α) (r : List β), optMapM f l = some r → r.length = l.length
  | [], r, h => by simp [optMapM] at h; subst h; rfl
  | x :: xs, r, h => by
    unfold optMapM at h
    cases hx : f x <;> cases hr : optMapM f xs <;> simp [hx, hr] at h
    subst h
    simp [optMapM_length f xs _ hr]

theorem optMapM_get {α β} (f : α → Option β) : ∀ (l : List α) (r : List β), optMapM f l = some r →
    ∀ (i : Nat) (x : α), l[i]? = some x → ∃ y, f x = some y ∧ r[i]? = some y
  | [], r, h, i, x, hx => by simp at hx
  | a :: as, r, h, i, x, hx => by
    unfold optMapM at h
    cases ha : f a <;> cases hr : optMapM f as <;> simp [ha, hr] at h
    subst h
    cases i with
    | zero => simp at hx; subst hx; exact ⟨_, ha, by simp⟩
    | succ j =>
      simp at hx
      obtain ⟨y, hy, hg⟩ := optMapM_get f as _ hr j x hx
      exact ⟨y, hy, by simpa using hg⟩

/-! ### head rows -/

theorem headRows_fits (r : Rule) (_hagg : r.hasAgg = false) (envs : List Env) (rows : List Tuple)
    (h : headRows r.hargs envs = some rows) (t : Tuple) (ht : t ∈ rows) : Fits r t := by
  unfold headRows at h
  obtain ⟨env, _, he⟩ := (optMapM_some_mem _ _ _ h t).1 ht
  refine ⟨optMapM_length _ _ _ he, fun _ i c hc => ?_⟩
  obtain ⟨y, hy, hg⟩ := optMapM_get _ _ _ he i _ hc
  simp only [HTerm.plain, Option.some.injEq] at hy
  subst hy
  exact hg

theorem keysOf_mem (hargs : List HTerm) : ∀ (envs : List Env) (k : Tuple), k ∈ keysOf hargs envs →
    ∃ env, groupKey hargs env = some k
  | [], k, h => by simp [keysOf] at h
  | env :: envs, k, h => by
    unfold keysOf at h
    split at h
    · rename_i k' hk
      rcases List.mem_cons.1 h with rfl | h
      · exact ⟨env, hk⟩
      · exact keysOf_mem hargs envs k h
    · exact keysOf_mem hargs envs k h

theorem length_plain_add_agg : ∀ (hargs : List HTerm),
    (hargs.filter HTerm.isPlain).length + (aggArgs hargs).length = hargs.length
  | [] => rfl
  | h :: hs => by
    have ih := length_plain_add_agg hs
    unfold aggArgs at ih ⊢
    cases h <;> simp [List.filter, List.filterMap, HTerm.isPlain] <;> omega

theorem aggRows_length (hargs : List HTerm) (envs : List Env) (rows : List Tuple)
    (h : aggRows hargs envs = some rows) (t : Tuple) (ht : t ∈ rows) : t.length = hargs.length := by
  unfold aggRows at h
  obtain ⟨k, hk, he⟩ := (optMapM_some_mem _ _ _ h t).1 ht
  rw [mem_dedupT] at hk
  obtain ⟨env, hg⟩ := keysOf_mem hargs envs k hk
  unfold groupKey at hg
  have hkl := optMapM_length _ _ _ hg
  dsimp only at he
  split at he
  · rename_i avs hav
    have hal := optMapM_length _ _ _ hav
    cases he
    rw [List.length_append, hkl, hal]
    exact length_plain_add_agg hargs
  · cases he

theorem aggRowsSpec_length (hargs : List HTerm) (envs : List Env) (rows : List Tuple)
    (h : aggRowsSpec hargs envs = some rows) (t : Tuple) (ht : t ∈ rows) : t.length = hargs.length := by
  unfold aggRowsSpec at h
  obtain ⟨k, _, he⟩ := (optMapM_some_mem _ _ _ h t).1 ht
  dsimp only at he
  split at he
  · cases he
  · exact optMapM_length _ _ _ he

theorem headOf_fits (r : Rule) (envs : List Env) (rows : List Tuple) (h : headOf r envs = some rows)
    (t : Tuple) (ht : t ∈ rows) : Fits r t := by
  unfold headOf headOfSpec at h
  cases hagg : r.hasAgg
  · rw [hagg] at h; simp only [Bool.false_eq_true, if_false] at h
    exact headRows_fits r hagg envs rows h t ht
  · rw [hagg] at h; simp only [if_true] at h
    exact ⟨aggRowsSpec_length _ _ _ h t ht, fun hc => by rw [hagg] at hc; cases hc⟩

theorem evalRuleM_fits (opt : Bool) (lk : String → List Tuple) (r : Rule) (rows : List Tuple)
    (h : evalRuleM opt lk r = some rows) (t : Tuple) (ht : t ∈ rows) : Fits r t := by
  unfold evalRuleM at h
  split at h
  · exact headOf_fits r _ rows h t ht
  · cases h

/-- all tuples fit some rule of `cs`. -/
def AllFit (cs : List Rule) (ts : List Tuple) : Prop := ∀ t, t ∈ ts → ∃ r, r ∈ cs ∧ Fits r t

theorem evalRulesM_fits (opt : Bool) (lk : String → List Tuple) (cs : List Rule) (ts : List Tuple)
    (h : evalRulesM opt lk cs = some ts) : AllFit cs ts := by
  intro t ht
  unfold evalRulesM at h
  obtain ⟨r, a, hr, ha, hta⟩ := (evalRulesWith_some_mem _ _ _ h t).1 ht
  exact ⟨r, hr, evalRuleM_fits opt lk r a ha t hta⟩

/-! ### duplicate-freeness -/

theorem nodup_dedupT : ∀ (l : List Tuple), (dedupT l).Nodup
  | [] => List.nodup_nil
  | x :: xs => by
    unfold dedupT
    split
    · exact nodup_dedupT xs
    · rename_i hc
      refine List.nodup_cons.2 ⟨fun hm => hc (List.contains_iff_mem.2 (mem_dedupT.1 hm)), nodup_dedupT xs⟩

theorem nodup_unionT {a b : List Tuple} (ha : a.Nodup) (hb : b.Nodup) : (unionT a b).Nodup := by
  unfold unionT
  refine List.nodup_append.2 ⟨ha, hb.filter _, ?_⟩
  intro x hx y hy hxy
  subst hxy
  have := (List.mem_filter.1 hy).2
  simp only [Bool.not_eq_true', ← Bool.not_eq_true] at this
  exact this (List.contains_iff_mem.2 hx)

theorem evalRulesWith_nodup (ev : Rule → Option (List Tuple)) : ∀ (rs : List Rule) (ts : List Tuple),
    evalRulesWith ev rs = some ts → ts.Nodup
  | [], ts, h => by simp [evalRulesWith] at h; subst h; exact List.nodup_nil
  | r :: rs, ts, h => by
    unfold evalRulesWith at h
    cases hr : ev r <;> cases hs : evalRulesWith ev rs <;> simp [hr, hs] at h
    subst h
    exact nodup_unionT (nodup_dedupT _) (evalRulesWith_nodup ev rs _ hs)

theorem unionAll_nodup : ∀ (ls : List (List Tuple)), (unionAll ls).Nodup
  | [] => List.nodup_nil
  | a :: as => by unfold unionAll; exact nodup_unionT (nodup_dedupT _) (unionAll_nodup as)

/-! ### one head -/

theorem allFit_mono {cs cs' : List Rule} (h : ∀ r, r ∈ cs → r ∈ cs') {ts : List Tuple} (hf : AllFit cs ts) : AllFit cs' ts :=
  fun t ht => let ⟨r, hr, hfit⟩ := hf t ht; ⟨r, h r hr, hfit⟩

theorem allFit_unionT {cs : List Rule} {a b : List Tuple} (ha : AllFit cs a) (hb : AllFit cs b) : AllFit cs (unionT a b) := by
  intro t ht
  rcases mem_unionT.1 ht with h | h
  · exact ha t h
  · exact hb t h

theorem lfpLoop_wf (lk : String → List Tuple) (h : String) (cs : List Rule) (base : List Tuple) (recs : List Rule)
    (hrecs : ∀ r, r ∈ recs → r ∈ cs) (hbn : base.Nodup) (hbf : AllFit cs base) :
    ∀ (fuel : Nat) (x y : List Tuple), x.Nodup → AllFit cs x → lfpLoop lk h base recs fuel x = some y →
      y.Nodup ∧ AllFit cs y
  | 0, _, _, _, _, hr => by simp [lfpLoop] at hr
  | fuel + 1, x, y, hxn, hxf, hr => by
    unfold lfpLoop at hr
    cases hev : evalRulesM false (override lk h x) recs with
    | none => rw [hev] at hr; cases hr
    | some d =>
      rw [hev] at hr
      simp only at hr
      split at hr
      · cases hr; exact ⟨hxn, hxf⟩
      · have hdn : d.Nodup := evalRulesWith_nodup _ _ _ hev
        have hdf : AllFit cs d := allFit_mono hrecs (evalRulesM_fits false _ recs d hev)
        exact lfpLoop_wf lk h cs base recs hrecs hbn hbf fuel _ y (nodup_unionT hbn hdn) (allFit_unionT hbf hdf) hr

/-! ### the min/max aggregation-in-loop path -/

theorem bestOf_mem (g : Nat) (m : Bool) : ∀ (l : List Tuple) (b : Tuple), bestOf g m l = some b → b ∈ l
  | [], _, h => by simp [bestOf] at h
  | t :: ts, b, h => by
    unfold bestOf at h
    cases hb : bestOf g m ts with
    | none => rw [hb] at h; simp at h; subst h; exact List.mem_cons_self ..
    | some b' =>
      rw [hb] at h
      simp only [Option.some.injEq] at h
      split at h
      · subst h; exact List.mem_cons_of_mem _ (bestOf_mem g m ts b' hb)
      · subst h; exact List.mem_cons_self ..

theorem nodup_filterMap_keyed {κ} (f : κ → Option Tuple) (key : Tuple → κ) :
    ∀ (ks : List κ), ks.Nodup → (∀ k b, f k = some b → key b = k) → (ks.filterMap f).Nodup
  | [], _, _ => List.nodup_nil
  | k :: ks, hn, hk => by
    have hn' := List.nodup_cons.1 hn
    have ih := nodup_filterMap_keyed f key ks hn'.2 hk
    cases hf : f k with
    | none => simpa [List.filterMap, hf] using ih
    | some b =>
      simp only [List.filterMap, hf]
      refine List.nodup_cons.2 ⟨?_, ih⟩
      intro hmem
      obtain ⟨k', hk', hb'⟩ := List.mem_filterMap.1 hmem
      have e1 := hk k b hf
      have e2 := hk k' b hb'
      exact hn'.1 (e1 ▸ e2 ▸ hk')

theorem bestPerKey_sub (g : Nat) (m : Bool) (ts : List Tuple) : ∀ t, t ∈ bestPerKey g m ts → t ∈ ts := by
  intro t ht
  unfold bestPerKey at ht
  obtain ⟨k, _, hb⟩ := List.mem_filterMap.1 ht
  exact (List.mem_filter.1 (bestOf_mem g m _ t hb)).1

theorem bestPerKey_nodup (g : Nat) (m : Bool) (ts : List Tuple) : (bestPerKey g m ts).Nodup := by
  unfold bestPerKey
  apply nodup_filterMap_keyed _ (fun t => t.take g) _ (nodup_dedupT _)
  intro k b hb
  have := (List.mem_filter.1 (bestOf_mem g m _ b hb)).2
  simpa using this

theorem projRows_fits (r : Rule) (envs : List Env) (rows : List Tuple) (h : projRows r envs = some rows)
    (t : Tuple) (ht : t ∈ rows) : Fits r t := by
  unfold projRows headRows at h
  obtain ⟨env, _, he⟩ := (optMapM_some_mem _ _ _ h t).1 ht
  have hl := optMapM_length _ _ _ he
  simp only [List.length_map] at hl
  refine ⟨hl, fun _ i c hc => ?_⟩
  have hc' : (r.hargs.map (fun | .agg _ x => HTerm.var x | t => t))[i]? = some (HTerm.const c) := by
    rw [List.getElem?_map, hc]; rfl
  obtain ⟨y, hy, hg⟩ := optMapM_get _ _ _ he i _ hc'
  simp only [HTerm.plain, Option.some.injEq] at hy
  subst hy
  exact hg

theorem recRows_fits (lk : String → List Tuple) : ∀ (rs : List Rule) (d : List Tuple), recRows lk rs = some d → AllFit rs d
  | [], d, h => by simp [recRows] at h; subst h; intro t ht; cases ht
  | r :: rs, d, h => by
    unfold recRows at h
    cases hb : bodyEnvsM false lk r with
    | none => simp [hb] at h
    | some envs =>
      cases hr : recRows lk rs with
      | none => simp [hb, hr] at h
      | some rest =>
        simp only [hb, hr] at h
        cases hp : projRows r envs with
        | none => simp [hp] at h
        | some rows =>
          simp only [hp, Option.map_some, Option.some.injEq] at h
          subst h
          intro t ht
          rcases List.mem_append.1 ht with ht | ht
          · exact ⟨r, List.mem_cons_self .., projRows_fits r envs rows hp t ht⟩
          · obtain ⟨r', hr', hf⟩ := recRows_fits lk rs rest hr t ht
            exact ⟨r', List.mem_cons_of_mem _ hr', hf⟩

theorem lfpMinMax_wf (lk : String → List Tuple) (h : String) (cs : List Rule) (base : List Tuple) (recs : List Rule)
    (g : Nat) (m : Bool) (hrecs : ∀ r, r ∈ recs → r ∈ cs) (hbf : AllFit cs base) :
    ∀ (fuel : Nat) (x seen y : List Tuple), x.Nodup → AllFit cs x → seen.Nodup → AllFit cs seen →
      lfpMinMax lk h base recs g m fuel x seen = some y → y.Nodup ∧ AllFit cs y
  | 0, _, _, _, _, _, _, _, hr => by simp [lfpMinMax] at hr
  | fuel + 1, x, seen, y, hxn, hxf, hsn, hsf, hr => by
    unfold lfpMinMax at hr
    cases hev : recRows (override lk h x) recs with
    | none => rw [hev] at hr; cases hr
    | some d =>
      rw [hev] at hr
      simp only at hr
      have hx'f : AllFit cs (bestPerKey g m (dedupT (base ++ d))) := by
        intro t ht
        have := mem_dedupT.1 (bestPerKey_sub g m _ t ht)
        rcases List.mem_append.1 this with hb | hd
        · exact hbf t hb
        · exact allFit_mono hrecs (recRows_fits _ recs d hev) t hd
      split at hr
      · cases hr; exact ⟨nodup_unionT hsn hxn, allFit_unionT hsf hxf⟩
      · exact lfpMinMax_wf lk h cs base recs g m hrecs hbf fuel _ _ y (bestPerKey_nodup _ _ _) hx'f
          (nodup_unionT hsn (bestPerKey_nodup _ _ _)) (allFit_unionT hsf hx'f) hr

/-- the result of one head: duplicate-free, every tuple of the shape of one of the head's
    clauses — provided the head's own current content (stored or accumulated) is. -/
theorem evalHead_wf (cfg : Cfg) (hash : Tuple → Nat) (fuel : Nat) (p : Program) (lk : String → List Tuple) (h : String)
    (hself : AllFit (clausesOf p h) (lk h)) (ts : List Tuple)
    (hev : evalHead cfg hash fuel p lk h = some ts) : ts.Nodup ∧ AllFit (clausesOf p h) ts := by
  unfold evalHead at hev
  simp only at hev
  split at hev
  · -- self fix-point
    unfold lfpSelf at hev
    simp only at hev
    have hrecsub : ∀ r, r ∈ (if ((clausesOf p h).flatMap (fun r => r.body.filterMap (fun l => l.atom?.map (·.rel)))).count h < (clausesOf p h).length
        then (clausesOf p h).filter (fun r => r.scans.contains h) else clausesOf p h) → r ∈ clausesOf p h := by
      intro r hr
      split at hr
      · exact (List.mem_filter.1 hr).1
      · exact hr
    have hbase : ∀ b, (if ((clausesOf p h).flatMap (fun r => r.body.filterMap (fun l => l.atom?.map (·.rel)))).count h < (clausesOf p h).length
        then evalRulesM false lk ((clausesOf p h).filter (fun r => !r.scans.contains h)) else some (dedupT (lk h))) = some b →
        b.Nodup ∧ AllFit (clausesOf p h) b := by
      intro b hb
      split at hb
      · exact ⟨evalRulesWith_nodup _ _ _ hb,
          allFit_mono (fun r hr => (List.mem_filter.1 hr).1) (evalRulesM_fits false lk _ b hb)⟩
      · cases hb
        exact ⟨nodup_dedupT _, fun t ht => hself t (mem_dedupT.1 ht)⟩
    split at hev
    · -- min/max aggregation in the loop
      split at hev
      · rename_i g isMin b hsig hb
        exact lfpMinMax_wf lk h (clausesOf p h) b _ g isMin hrecsub (hbase b hb).2 fuel [] [] ts List.nodup_nil
          (fun t ht => by cases ht) List.nodup_nil (fun t ht => by cases ht) hev
      · cases hev
    · split at hev
      · cases hev
      · rename_i b hb
        exact lfpLoop_wf lk h (clausesOf p h) b _ hrecsub (hbase b hb).1 (hbase b hb).2 fuel [] ts List.nodup_nil
          (fun t ht => by cases ht) hev
  · split at hev
    · cases hev
      have hpf : AllFit (clausesOf p h) (unionAll ((List.range cfg.workers).map
          (fun w => (evalRulesM true (partLk hash cfg.workers w lk) (clausesOf p h)).getD []))) := by
        intro t ht
        obtain ⟨l, hl, htl⟩ := (mem_unionAll t _).1 ht
        obtain ⟨w, _, rfl⟩ := List.mem_map.1 hl
        cases hw : evalRulesM true (partLk hash cfg.workers w lk) (clausesOf p h) with
        | none => rw [hw] at htl; simp at htl
        | some tw => rw [hw] at htl; exact evalRulesM_fits true _ _ tw hw t htl
      have hwn : ((evalRulesM true lk (clausesOf p h)).getD []).Nodup ∧ AllFit (clausesOf p h) ((evalRulesM true lk (clausesOf p h)).getD []) := by
        cases hw : evalRulesM true lk (clausesOf p h) with
        | none => exact ⟨List.nodup_nil, fun t ht => by cases ht⟩
        | some tw => exact ⟨evalRulesWith_nodup _ _ _ hw, evalRulesM_fits true lk _ tw hw⟩
      refine ⟨?_, ?_⟩
      · refine List.nodup_append.2 ⟨hwn.1.filter _, (unionAll_nodup _).filter _, ?_⟩
        intro x hx y hy hxy
        subst hxy
        have h1 := (List.mem_filter.1 hx).1
        have h2 := (List.mem_filter.1 hy).2
        simp only [Bool.not_eq_true', ← Bool.not_eq_true] at h2
        exact h2 (List.contains_iff_mem.2 h1)
      · intro t ht
        rcases List.mem_append.1 ht with ht | ht
        · exact hwn.2 t (List.mem_filter.1 ht).1
        · exact hpf t (List.mem_filter.1 ht).1
    · exact ⟨evalRulesWith_nodup _ _ _ hev, evalRulesM_fits true lk _ ts hev⟩

/-! ### the whole run (no row limit) -/

/-- every accumulated relation is well-formed for its head. -/
def AccWf (p : Program) (acc : DB) : Prop :=
  ∀ g ts, acc.lookup g = some ts → ts.Nodup ∧ AllFit (clausesOf p g) ts

theorem execLoop_wf (cfg : Cfg) (hlim : cfg.limit = 0) (hash : Tuple → Nat) (ord : String → List Tuple → List Tuple)
    (fuel : Nat) (p : Program) (edb : DB) (hno : ∀ h, h ∈ heads p → edb.get h = []) :
    ∀ (order : List String) (acc : DB) (last A : List Tuple) (acc' : DB),
      (∀ g, g ∈ order → g ∈ heads p) → AccWf p acc →
      execLoop cfg hash ord fuel p edb order acc last = .ok A acc' →
      AccWf p acc' ∧ (∀ g, order.getLast? = some g → A.Nodup ∧ AllFit (clausesOf p g) A)
  | [], acc, last, A, acc', _, hacc, hr => by
    simp only [execLoop, Outcome.ok.injEq] at hr
    obtain ⟨rfl, rfl⟩ := hr
    exact ⟨hacc, fun g hg => by cases hg⟩
  | h :: rest, acc, last, A, acc', hheads, hacc, hr => by
    unfold execLoop at hr
    cases hev : evalHead cfg hash fuel p (lkOf edb acc) h with
    | none => rw [hev] at hr; simp at hr
    | some ts =>
      rw [hev] at hr
      have hnl : limited cfg p h = false := by simp [limited, hlim]
      simp only [hnl, Bool.and_false, Bool.false_eq_true, if_false] at hr
      have hself : AllFit (clausesOf p h) (lkOf edb acc h) := by
        unfold lkOf
        cases hl : acc.lookup h with
        | some x => exact (hacc h x hl).2
        | none => simp only; rw [hno h (hheads h (List.mem_cons_self ..))]; intro t ht; cases ht
      have hw := evalHead_wf cfg hash fuel p (lkOf edb acc) h hself ts hev
      have hacc1 : AccWf p ((h, ts) :: acc) := by
        intro g x hg
        by_cases hgh : g = h
        · subst hgh; rw [lookup_cons_self] at hg; cases hg; exact hw
        · rw [lookup_cons_ne g h ts acc hgh] at hg; exact hacc g x hg
      obtain ⟨hacc', hlast⟩ := execLoop_wf cfg hlim hash ord fuel p edb hno rest ((h, ts) :: acc) ts A acc'
        (fun g hg => hheads g (List.mem_cons_of_mem _ hg)) hacc1 hr
      refine ⟨hacc', ?_⟩
      intro g hg
      cases rest with
      | nil =>
        simp only [List.getLast?_singleton, Option.some.injEq] at hg
        subst hg
        simp only [execLoop, Outcome.ok.injEq] at hr
        obtain ⟨rfl, _⟩ := hr
        exact hw
      | cons g' rest' =>
        apply hlast g
        simpa [List.getLast?_cons_cons] using hg

end ILV.Engine
