/-
  Sequential (single-thread) histories of the storage-engine step system with the incremental
  engine on: the arrangement mirrors the live relations and the worker never dies. Used by Props/C19.
-/
import ILV.Lemmas.EStep
namespace ILV.EStep

/-- sum of the diffs sent to the arrangement of `r` for tuple `k` -/
def cnt (arr : List (Rel × Tup × Int)) (r : Rel) (k : Tup) : Int :=
  ((arr.filter (fun e => e.1 == r && e.2.1 == k)).map (·.2.2)).sum

theorem cnt_append (a b : List (Rel × Tup × Int)) (r : Rel) (k : Tup) : cnt (a ++ b) r k = cnt a r k + cnt b r k := by
  simp [cnt, List.filter_append, List.map_append, List.sum_append_int]

theorem cnt_map (ts : List Tup) (hn : ts.Nodup) (r' r : Rel) (k : Tup) (d : Int) :
    cnt (ts.map (fun t => (r', t, d))) r k = if r' = r ∧ k ∈ ts then d else 0 := by
  induction ts with
  | nil => simp [cnt]
  | cons t ts ih =>
    have ⟨ht, hts⟩ := List.nodup_cons.mp hn
    have e : cnt ((t :: ts).map (fun t => (r', t, d))) r k = cnt [(r', t, d)] r k + cnt (ts.map (fun t => (r', t, d))) r k := by
      rw [← cnt_append]; rfl
    rw [e, ih hts]
    by_cases hr : r' = r
    · subst hr
      by_cases hk : t = k
      · subst hk; simp [cnt, ht]
      · have hk' : ¬ k = t := fun h => hk h.symm
        simp [cnt, hk, hk']
    · simp [cnt, hr]

theorem cnt_ne_zero_mem {arr : List (Rel × Tup × Int)} {r : Rel} {k : Tup} (h : cnt arr r k ≠ 0) :
    k ∈ (arr.filter (fun e => e.1 == r)).map (·.2.1) := by
  by_cases hex : ∃ e ∈ arr, e.1 = r ∧ e.2.1 = k
  · obtain ⟨e, he, h1, h2⟩ := hex
    exact List.mem_map.mpr ⟨e, List.mem_filter.mpr ⟨he, by simp [h1]⟩, h2⟩
  · exfalso; apply h
    have : arr.filter (fun e => e.1 == r && e.2.1 == k) = [] := by
      apply List.filter_eq_nil_iff.mpr
      intro e he hc
      simp at hc
      exact hex ⟨e, he, hc.1, hc.2⟩
    simp [cnt, this]

/-! ### `insertMem` / `deleteMem` -/
theorem insertMem_mem : ∀ (ts cur : List Tup) (x : Tup), x ∈ (insertMem cur ts).1 ↔ x ∈ cur ∨ x ∈ ts := by
  intro ts
  induction ts with
  | nil => intro cur x; simp [insertMem]
  | cons t ts ih =>
    intro cur x
    unfold insertMem
    split
    · rename_i hc
      rw [ih]
      have : t ∈ cur := by simpa using hc
      constructor
      · rintro (h | h); exact Or.inl h; exact Or.inr (List.mem_cons_of_mem _ h)
      · rintro (h | h)
        · exact Or.inl h
        · rcases List.mem_cons.mp h with h | h
          · subst h; exact Or.inl this
          · exact Or.inr h
    · simp only
      rw [ih]
      simp only [List.mem_append, List.mem_cons, List.not_mem_nil, or_false]
      constructor
      · rintro ((h | h) | h)
        · exact Or.inl h
        · exact Or.inr (Or.inl h)
        · exact Or.inr (Or.inr h)
      · rintro (h | h | h)
        · exact Or.inl (Or.inl h)
        · exact Or.inl (Or.inr h)
        · exact Or.inr h

theorem insertMem_new : ∀ (ts cur : List Tup) (x : Tup), x ∈ (insertMem cur ts).2 ↔ x ∈ ts ∧ x ∉ cur := by
  intro ts
  induction ts with
  | nil => intro cur x; simp [insertMem]
  | cons t ts ih =>
    intro cur x
    unfold insertMem
    split
    · rename_i hc
      have htc : t ∈ cur := by simpa using hc
      rw [ih]
      constructor
      · rintro ⟨h1, h2⟩; exact ⟨List.mem_cons_of_mem _ h1, h2⟩
      · rintro ⟨h1, h2⟩
        rcases List.mem_cons.mp h1 with h | h
        · subst h; exact absurd htc h2
        · exact ⟨h, h2⟩
    · rename_i hc
      have htc : t ∉ cur := by simpa using hc
      simp only [List.mem_cons]
      rw [ih]
      simp only [List.mem_append, List.mem_cons, List.not_mem_nil, or_false]
      constructor
      · rintro (h | ⟨h1, h2⟩)
        · subst h; exact ⟨Or.inl rfl, htc⟩
        · exact ⟨Or.inr h1, fun h => h2 (Or.inl h)⟩
      · rintro ⟨h1 | h1, h2⟩
        · exact Or.inl h1
        · by_cases hx : x = t
          · exact Or.inl hx
          · exact Or.inr ⟨h1, fun h => h.elim h2 hx⟩

theorem insertMem_new_nodup : ∀ (ts cur : List Tup), (insertMem cur ts).2.Nodup := by
  intro ts
  induction ts with
  | nil => intro cur; simp [insertMem]
  | cons t ts ih =>
    intro cur
    unfold insertMem
    split
    · exact ih cur
    · simp only
      refine List.nodup_cons.mpr ⟨?_, ih _⟩
      intro h
      have := (insertMem_new ts (cur ++ [t]) t).mp h
      exact this.2 (by simp)

theorem insertMem_nodup : ∀ (ts cur : List Tup), cur.Nodup → (insertMem cur ts).1.Nodup := by
  intro ts
  induction ts with
  | nil => intro cur h; simpa [insertMem] using h
  | cons t ts ih =>
    intro cur h
    unfold insertMem
    split
    · exact ih cur h
    · rename_i hc
      simp only
      apply ih
      refine List.nodup_append.mpr ⟨h, by simp, ?_⟩
      intro a ha b hb hab
      simp at hb; subst hb; subst hab
      simp at hc; exact hc ha

theorem setRel_apply (f : Rel → List Tup) (r : Rel) (v : List Tup) (x : Rel) : setRel f r v x = if x = r then v else f x := rfl

/-! ### the incremental engine under well-timed writes -/
structure TimeOK (i : Inc) (c : Nat) : Prop where
  maxW : i.maxW < c
  sess : ∀ r t0, i.sess r = some t0 → t0 ≤ c

theorem TimeOK.mono {i : Inc} {a b : Nat} (h : TimeOK i a) (hab : a ≤ b) : TimeOK i b :=
  ⟨Nat.lt_of_lt_of_le h.maxW hab, fun r t0 hs => Nat.le_trans (h.sess r t0 hs) hab⟩

theorem write_alive (i : Inc) (r : Rel) (ts : List Tup) (τ : Nat) (d : Int) (ha : i.dead = false)
    (ht : ∀ t0, i.sess r = some t0 → t0 ≤ τ) :
    (i.write r ts τ d).2 = true ∧ (i.write r ts τ d).1.dead = false ∧
    (i.write r ts τ d).1.arr = i.arr ++ ts.map (fun t => (r, t, d)) ∧
    (i.write r ts τ d).1.maxW = max i.maxW τ ∧
    (∀ r' t0, (i.write r ts τ d).1.sess r' = some t0 → i.sess r' = some t0 ∨ t0 = 0) := by
  unfold Inc.write
  simp only [ha, Bool.false_eq_true, if_false]
  cases hs : i.sess r with
  | none =>
    simp only [if_true, Nat.not_lt_zero, if_false]
    refine ⟨by simp, by simp [ha], by simp, by simp, ?_⟩
    intro r' t0 h
    by_cases hr : r' = r
    · subst hr; simp at h; exact Or.inr h.symm
    · simp [hr] at h; exact Or.inl h
  | some t0 =>
    have hle := ht t0 hs
    simp only [hs, if_neg (Nat.not_lt.mpr hle)]
    exact ⟨by simp, by simp [ha], by simp, by simp, fun r' t1 h => Or.inl h⟩

theorem readc_alive (i : Inc) (r : Rel) (ha : i.dead = false) :
    (i.readc r).1.dead = false ∧ (i.readc r).1.arr = i.arr ∧ (i.readc r).1.maxW = i.maxW ∧
    (∀ r' t0, (i.readc r).1.sess r' = some t0 → t0 = i.maxW + 1) := by
  unfold Inc.readc
  simp only [ha, Bool.false_eq_true, if_false]
  refine ⟨by simp [ha], by simp, by simp, ?_⟩
  intro r' t0 h
  cases hs : i.sess r' with
  | none => simp [hs] at h
  | some t1 => simp [hs] at h; exact h.symm

/-- invariant of single-thread runs with the incremental engine on -/
structure InvS (st : State) (i : Inc) : Prop where
  n1 : st.n = 1
  hinc : st.inc = some i
  alive : i.dead = false
  nodup : ∀ r, (st.live r).Nodup
  cntLive : ∀ r k, cnt i.arr r k = if k ∈ st.live r then 1 else 0
  time : match (st.threads 0).pc with
    | .start => TimeOK i st.clock
    | .afterTime τ => τ < st.clock ∧ TimeOK i τ
    | .afterPersist τ => τ < st.clock ∧ TimeOK i τ

theorem InvS.timeNow {st : State} {i : Inc} (h : InvS st i) : TimeOK i st.clock := by
  have ht := h.time
  cases hpc : (st.threads 0).pc with
  | start => rw [hpc] at ht; exact ht
  | afterTime τ => rw [hpc] at ht; exact ht.2.mono (Nat.le_of_lt ht.1)
  | afterPersist τ => rw [hpc] at ht; exact ht.2.mono (Nat.le_of_lt ht.1)

theorem finish_pc (th : Thread) (op : Op) (rest : List Op) (o : Out) (g : Nat) (h : th.todo = op :: rest) :
    (th.finish o g).pc = .start := by simp [Thread.finish, h]

/-- the thread returns; only its record changes -/
theorem invS_finish {st : State} {i : Inc} {op : Op} {rest : List Op} {o : Out} {g : Nat} (h : InvS st i)
    (htodo : (st.threads 0).todo = op :: rest) :
    InvS { st with threads := setThread st.threads 0 ((st.threads 0).finish o g) } i := by
  refine ⟨h.n1, h.hinc, h.alive, h.nodup, h.cntLive, ?_⟩
  simp only [setThread_same, finish_pc _ _ _ _ _ htodo]
  exact h.timeNow

theorem invS_apply_insert {st : State} {i : Inc} {r : Rel} {ts : List Tup} {rest : List Op} {τ : Nat} (h : InvS st i)
    (htodo : (st.threads 0).todo = .insert r ts :: rest) (hpc : (st.threads 0).pc = .afterPersist τ) :
    ∃ i', InvS (applyStep st 0 (st.threads 0) (.insert r ts) τ) i' := by
  have ht := h.time; rw [hpc] at ht; obtain ⟨hτ, hT⟩ := ht
  have hm := insertMem_mem ts (st.live r)
  have hn := insertMem_new ts (st.live r)
  have hnd := insertMem_new_nodup ts (st.live r)
  have hcd := insertMem_nodup ts (st.live r) (h.nodup r)
  have hnc := insertMem_nochange ts (st.live r)
  cases hp : insertMem (st.live r) ts with
  | mk cur' nw =>
    rw [hp] at hm hn hnd hcd hnc
    simp only at hm hn hnd hcd hnc
    have hfin := fun (o : Out) (g : Nat) => finish_pc (st.threads 0) _ _ o g htodo
    cases nw with
    | nil =>
      have hcur : cur' = st.live r := hnc rfl
      simp only [applyStep, h.hinc, hp, List.isEmpty_nil, if_true, Bool.not_true, Bool.false_eq_true, if_false]
      refine ⟨i, h.n1, rfl, h.alive, ?_, ?_, ?_⟩
      · intro r'; simp only [setRel_apply]; split
        · exact hcd
        · exact h.nodup r'
      · intro r' k; simp only [setRel_apply]; split
        · rename_i hr; subst hr; rw [hcur]; exact h.cntLive r' k
        · exact h.cntLive r' k
      · simp only [setThread_same, hfin _ _]; exact hT.mono (Nat.le_of_lt hτ)
    | cons a l =>
      obtain ⟨w1, w2, w3, w4, w5⟩ := write_alive i r (a :: l) τ 1 h.alive (fun t0 hs => hT.sess r t0 hs)
      simp only [applyStep, h.hinc, hp, List.isEmpty_cons, Bool.false_eq_true, if_false, w1, Bool.not_true]
      refine ⟨(i.write r (a :: l) τ 1).1, h.n1, rfl, w2, ?_, ?_, ?_⟩
      · intro r'; simp only [setRel_apply]; split
        · exact hcd
        · exact h.nodup r'
      · intro r' k
        rw [w3, cnt_append, cnt_map _ hnd, h.cntLive r' k]
        simp only [setRel_apply]
        by_cases hr : r' = r
        · subst hr
          simp only [if_true, true_and, hn k, hm k]
          by_cases hk : k ∈ st.live r'
          · simp [hk]
          · by_cases hk2 : k ∈ ts <;> simp [hk, hk2]
        · have hr' : ¬ r = r' := fun e => hr e.symm
          simp [hr, hr']
      · simp only [setThread_same, hfin _ _]
        refine ⟨?_, ?_⟩
        · rw [w4]; exact Nat.max_lt.mpr ⟨Nat.lt_trans hT.maxW hτ, hτ⟩
        · intro r' t0 hs
          rcases w5 r' t0 hs with h1 | h1
          · exact Nat.le_trans (hT.sess r' t0 h1) (Nat.le_of_lt hτ)
          · subst h1; exact Nat.zero_le _

theorem deleteMem_mem (cur ts : List Tup) (x : Tup) : x ∈ (deleteMem cur ts).1 ↔ x ∈ cur ∧ x ∉ ts := by
  simp [deleteMem]
theorem deleteMem_gone (cur ts : List Tup) (x : Tup) : x ∈ (deleteMem cur ts).2 ↔ x ∈ cur ∧ x ∈ ts := by
  simp [deleteMem]

theorem invS_apply_delete {st : State} {i : Inc} {r : Rel} {ts : List Tup} {rest : List Op} {τ : Nat} (h : InvS st i)
    (htodo : (st.threads 0).todo = .delete r ts :: rest) (hpc : (st.threads 0).pc = .afterPersist τ) :
    ∃ i', InvS (applyStep st 0 (st.threads 0) (.delete r ts) τ) i' := by
  have ht := h.time; rw [hpc] at ht; obtain ⟨hτ, hT⟩ := ht
  have hm := deleteMem_mem (st.live r) ts
  have hg := deleteMem_gone (st.live r) ts
  have hgd : (deleteMem (st.live r) ts).2.Nodup := (h.nodup r).sublist List.filter_sublist
  have hcd : (deleteMem (st.live r) ts).1.Nodup := (h.nodup r).sublist List.filter_sublist
  have hnc := deleteMem_nochange (st.live r) ts
  have hfin := fun (o : Out) (g : Nat) => finish_pc (st.threads 0) _ _ o g htodo
  cases hp : deleteMem (st.live r) ts with
  | mk cur' gone =>
    rw [hp] at hm hg hgd hcd hnc
    simp only at hm hg hgd hcd hnc
    by_cases hrem : (st.live r).length - cur'.length = 0
    · have hcur : cur' = st.live r := hnc hrem
      simp only [applyStep, h.hinc, hp, hrem, beq_self_eq_true, if_true, Bool.not_true, Bool.false_eq_true, if_false]
      refine ⟨i, h.n1, rfl, h.alive, ?_, ?_, ?_⟩
      · intro r'; simp only [setRel_apply]; split
        · exact hcd
        · exact h.nodup r'
      · intro r' k; simp only [setRel_apply]; split
        · rename_i hr; subst hr; rw [hcur]; exact h.cntLive r' k
        · exact h.cntLive r' k
      · simp only [setThread_same, hfin _ _]; exact hT.mono (Nat.le_of_lt hτ)
    · obtain ⟨w1, w2, w3, w4, w5⟩ := write_alive i r gone τ (-1) h.alive (fun t0 hs => hT.sess r t0 hs)
      have hb : ((st.live r).length - cur'.length == 0) = false := by simpa using hrem
      simp only [applyStep, h.hinc, hp, hb, Bool.false_eq_true, if_false, w1, Bool.not_true]
      refine ⟨(i.write r gone τ (-1)).1, h.n1, rfl, w2, ?_, ?_, ?_⟩
      · intro r'; simp only [setRel_apply]; split
        · exact hcd
        · exact h.nodup r'
      · intro r' k
        rw [w3, cnt_append, cnt_map _ hgd, h.cntLive r' k]
        simp only [setRel_apply]
        by_cases hr : r' = r
        · subst hr
          simp only [if_true, true_and, hg k, hm k]
          by_cases hk : k ∈ st.live r'
          · by_cases hk2 : k ∈ ts <;> simp [hk, hk2]
          · simp [hk]
        · have hr' : ¬ r = r' := fun e => hr e.symm
          simp [hr, hr']
      · simp only [setThread_same, hfin _ _]
        refine ⟨?_, ?_⟩
        · rw [w4]; exact Nat.max_lt.mpr ⟨Nat.lt_trans hT.maxW hτ, hτ⟩
        · intro r' t0 hs
          rcases w5 r' t0 hs with h1 | h1
          · exact Nat.le_trans (hT.sess r' t0 h1) (Nat.le_of_lt hτ)
          · subst h1; exact Nat.zero_le _

theorem invS_pc {st : State} {i : Inc} {th' : Thread} {c : Nat} {lg : List (Rel × Tup × Nat × Int)} (h : InvS st i)
    (ht : match th'.pc with
      | .start => TimeOK i c
      | .afterTime τ => τ < c ∧ TimeOK i τ
      | .afterPersist τ => τ < c ∧ TimeOK i τ) :
    InvS { st with clock := c, log := lg, threads := setThread st.threads 0 th' } i := by
  refine ⟨h.n1, h.hinc, h.alive, h.nodup, h.cntLive, ?_⟩
  simp only [setThread_same]; exact ht

theorem invS_rule {st : State} {i : Inc} {op : Op} {rest : List Op} (h : InvS st i)
    (htodo : (st.threads 0).todo = op :: rest) : InvS (ruleStep st 0 (st.threads 0) op) i := by
  have hfin := fun (o : Out) (g : Nat) => finish_pc (st.threads 0) _ _ o g htodo
  unfold ruleStep
  repeat' split
  all_goals first
    | exact h
    | (refine ⟨h.n1, h.hinc, h.alive, h.nodup, h.cntLive, ?_⟩
       simp only [setThread_same, hfin]; exact h.timeNow)

theorem stepS {st st' : State} {i : Inc} (h : InvS st i) (hs : step st 0 = .ok st') : ∃ i', InvS st' i' := by
  have htn : ¬ 0 ≥ st.n := by rw [h.n1]; decide
  cases htodo : (st.threads 0).todo with
  | nil => simp [step, htn, htodo] at hs
  | cons op rest =>
    cases op with
    | query r =>
      cases hpc : (st.threads 0).pc <;> (simp only [step, htn, htodo, if_false] at hs; cases hs; exact ⟨i, invS_finish h htodo⟩)
    | queryV v =>
      cases hpc : (st.threads 0).pc <;> (simp only [step, htn, htodo, if_false] at hs; cases hs; exact ⟨i, invS_finish h htodo⟩)
    | regRule v r =>
      cases hpc : (st.threads 0).pc <;> (simp only [step, htn, htodo, if_false] at hs; cases hs; exact ⟨i, invS_rule h htodo⟩)
    | dropRule v =>
      cases hpc : (st.threads 0).pc <;> (simp only [step, htn, htodo, if_false] at hs; cases hs; exact ⟨i, invS_rule h htodo⟩)
    | readc r =>
      have hr := readc_alive i r h.alive
      have key : InvS { st with inc := some (i.readc r).1,
                                threads := setThread st.threads 0 ((st.threads 0).finish (i.readc r).2 st.applied.length) } (i.readc r).1 := by
        refine ⟨h.n1, rfl, hr.1, h.nodup, ?_, ?_⟩
        · intro r' k; rw [hr.2.1]; exact h.cntLive r' k
        · simp only [setThread_same, finish_pc _ _ _ _ _ htodo]
          have hT := h.timeNow
          refine ⟨by rw [hr.2.2.1]; exact hT.maxW, ?_⟩
          intro r' t0 hs'; rw [hr.2.2.2 r' t0 hs']; exact hT.maxW
      cases hpc : (st.threads 0).pc <;> (simp only [step, htn, htodo, if_false, h.hinc] at hs; cases hs; exact ⟨_, key⟩)
    | insert r ts =>
      cases hpc : (st.threads 0).pc with
      | start =>
        simp only [step, htn, htodo, hpc, if_false, opRows] at hs
        split at hs
        · cases hs; exact ⟨i, invS_finish h htodo⟩
        · cases hs; exact ⟨i, invS_pc h ⟨Nat.lt_succ_self _, h.timeNow⟩⟩
      | afterTime τ =>
        simp only [step, htn, htodo, hpc, if_false, opRows] at hs
        cases hs
        have ht := h.time; rw [hpc] at ht
        exact ⟨i, invS_pc h ht⟩
      | afterPersist τ =>
        simp only [step, htn, htodo, hpc, if_false] at hs
        cases hs; exact invS_apply_insert h htodo hpc
    | delete r ts =>
      cases hpc : (st.threads 0).pc with
      | start =>
        simp only [step, htn, htodo, hpc, if_false, opRows] at hs
        split at hs
        · cases hs; exact ⟨i, invS_finish h htodo⟩
        · split at hs
          · cases hs; exact ⟨i, invS_finish h htodo⟩
          · cases hs; exact ⟨i, invS_pc h ⟨Nat.lt_succ_self _, h.timeNow⟩⟩
      | afterTime τ =>
        simp only [step, htn, htodo, hpc, if_false, opRows] at hs
        cases hs
        have ht := h.time; rw [hpc] at ht
        exact ⟨i, invS_pc h ht⟩
      | afterPersist τ =>
        simp only [step, htn, htodo, hpc, if_false] at hs
        cases hs; exact invS_apply_delete h htodo hpc

theorem lastState_invS : ∀ (sched : List Tid) (st : State) (i : Inc), InvS st i → ∃ i', InvS (lastState st sched) i' := by
  intro sched
  induction sched with
  | nil => intro st i h; exact ⟨i, h⟩
  | cons t ts ih =>
    intro st i h
    by_cases ht : t = 0
    · subst ht
      cases hs : step st 0 with
      | ok st' => simp only [lastState, hs]; obtain ⟨i', h'⟩ := stepS h hs; exact ih st' i' h'
      | skip => simp only [lastState, hs]; exact ih st i h
    · have : step st t = .skip := by
        have : t ≥ st.n := by rw [h.n1]; exact Nat.pos_of_ne_zero ht
        simp [step, this]
      simp only [lastState, this]; exact ih st i h

theorem invS_init (p : List Op) : InvS (init [p] true) {} := by
  refine ⟨rfl, rfl, rfl, ?_, ?_, ?_⟩
  · intro r; simp [init]
  · intro r k; simp [init, cnt]
  · simp only [init]
    exact ⟨by decide, fun r t0 hs => by simp at hs⟩

/-- in a state satisfying the invariant, a consistent read returns exactly the live tuples -/
theorem invS_read {st : State} {i : Inc} (h : InvS st i) (r : Rel) :
    ∃ l, (i.readc r).2 = .rows l ∧ ∀ k, k ∈ l ↔ k ∈ st.live r := by
  unfold Inc.readc
  simp only [h.alive, Bool.false_eq_true, if_false]
  refine ⟨_, rfl, ?_⟩
  intro k
  have hc := h.cntLive r k
  change cnt i.arr r k = _ at hc
  simp only [List.mem_filter, List.mem_eraseDups, decide_eq_true_eq]
  show _ ∧ cnt i.arr r k > 0 ↔ _
  constructor
  · rintro ⟨_, hpos⟩
    by_cases hk : k ∈ st.live r
    · exact hk
    · rw [hc, if_neg hk] at hpos; exact absurd hpos (by decide)
  · intro hk
    rw [hc, if_pos hk]
    refine ⟨cnt_ne_zero_mem (by rw [hc, if_pos hk]; decide), by decide⟩

end ILV.EStep
