/-
  `eliminate_empty_unions` and `pushdown_filters`, and the composition `apply_all_rules` / fix-point iteration.
-/
import ILV.Lemmas.IROptRules
import ILV.Lemmas.IRReinsert
namespace ILV.IR
open ILV

/-! ### empty-union elimination -/

theorem not_emptyUnion_of_wf {db : Db} {t : Node} (h : wf db t = true) : isEmptyUnion t = false := by
  cases t with
  | union is =>
    cases is with
    | nil => simp [wf, NodeList.isEmpty] at h
    | cons => rfl
  | _ => rfl

theorem dropEmpty_of_wf {db : Db} : ∀ ts, wfL db ts = true → dropEmpty ts = ts
  | .nil, _ => rfl
  | .cons t ts, h => by
    simp [dropEmpty, not_emptyUnion_of_wf (wfL_cons h).1, dropEmpty_of_wf ts (wfL_cons h).2]

mutual
theorem elimEmpty_ok (db : Db) : ∀ t, wf db t = true → Ok db t (elimEmpty t)
  | .scan .., h => by simpa [elimEmpty] using Ok.refl h
  | .map i proj s, h => by
    have hi := elimEmpty_ok db i (wf_map h)
    simpa [elimEmpty, not_emptyUnion_of_wf hi.w] using Ok.map h hi
  | .filter i p, h => by
    have hi := elimEmpty_ok db i (wf_filter h)
    simpa [elimEmpty, not_emptyUnion_of_wf hi.w] using Ok.filter h hi
  | .join l r lk rk s, h => by
    have hl := elimEmpty_ok db l (wf_join h).1
    have hr := elimEmpty_ok db r (wf_join h).2
    simpa [elimEmpty, not_emptyUnion_of_wf hl.w, not_emptyUnion_of_wf hr.w] using Ok.join h hl hr
  | .distinct i, h => by
    have hi := elimEmpty_ok db i (wf_distinct h)
    simpa [elimEmpty, not_emptyUnion_of_wf hi.w] using Ok.distinct h hi
  | .union is, h => by
    have hi := elimEmptyL_ok db is (wf_union h)
    have hu := Ok.union h hi
    simp only [elimEmpty, dropEmpty_of_wf _ hi.w]
    split
    · rename_i heq
      rw [heq] at hu
      exact absurd hu.w (by simp [wf, NodeList.isEmpty])
    · rename_i t heq
      rw [heq] at hu
      have hw := hu.w
      simp only [wf, wfL, Bool.and_eq_true, Bool.and_true] at hw
      exact ⟨hw.1.2, by simpa [width, schema, schemaFirst] using hu.wd, by simpa [eval, evalList] using hu.ev⟩
    · exact hu
  | .aggregate i gb aggs s, h => by simpa [elimEmpty] using Ok.aggregate h (elimEmpty_ok db i (wf_aggregate h))
  | .antijoin l r lk rk s, h => by
    have hl := elimEmpty_ok db l (wf_antijoin h).1
    have hr := elimEmpty_ok db r (wf_antijoin h).2
    simpa [elimEmpty, not_emptyUnion_of_wf hl.w] using Ok.antijoin h hl hr
  | .compute i es, h => by
    have hi := elimEmpty_ok db i (wf_compute h)
    simpa [elimEmpty, not_emptyUnion_of_wf hi.w] using Ok.compute h hi
  | .hnsw .., h => by simpa [elimEmpty] using Ok.refl h
  | .flatMap .., h => by simpa [elimEmpty] using Ok.refl h
  | .joinFlatMap .., h => by simpa [elimEmpty] using Ok.refl h
theorem elimEmptyL_ok (db : Db) : ∀ ts, wfL db ts = true → OkL db ts (elimEmptyL ts)
  | .nil, _ => by simpa [elimEmptyL] using OkL.nil
  | .cons t ts, h => by
    simpa [elimEmptyL] using OkL.cons (elimEmpty_ok db t (wfL_cons h).1) (elimEmptyL_ok db ts (wfL_cons h).2)
end

/-! ### filter push-down into a join -/

theorem joinRow_some {lk rk : List Nat} {a b x : Tuple} (h : joinRow lk rk a b = some x) :
    (rk = [] ∧ x = a ++ b) ∨ x = a ++ excluding b rk := by
  unfold joinRow at h
  split at h
  · rename_i hc
    simp only [Bool.and_eq_true, List.isEmpty_iff] at hc
    left; exact ⟨hc.2, by simpa using h.symm⟩
  · split at h
    · right; simpa using h.symm
    · simp at h

theorem pushdown_left_eval {L R : List Tuple} {lk rk : List Nat} {p : Pred} {lw : Nat}
    (hL : ∀ a ∈ L, a.length = lw) (hc : ∀ c ∈ p.cols, c < lw) :
    joinRows (L.filter p.eval) R lk rk = (joinRows L R lk rk).filter p.eval := by
  unfold joinRows
  apply filter_flatMap_of
  intro a ha x hx
  simp only [List.mem_filterMap] at hx
  obtain ⟨b, _, e⟩ := hx
  have hcl : ∀ c ∈ p.cols, c < a.length := fun c hcc => by rw [hL a ha]; exact hc c hcc
  rcases joinRow_some e with ⟨_, rfl⟩ | rfl <;> exact Pred.eval_append_left hcl

/-- a predicate on right-hand output columns, evaluated on the join row, is the remapped predicate on the right input row -/
theorem pushdown_right_row {lk rk : List Nat} {p : Pred} {a b x : Tuple}
    (hc : ∀ c ∈ p.cols, a.length ≤ c) (hn : nodupNat rk = true)
    (e : joinRow lk rk a b = some x) :
    p.eval x = (p.mapCols (fun c => reinsert (sortNat rk) (c - a.length))).eval b := by
  unfold Pred.eval
  rw [Pred.evalG_mapCols]
  apply Pred.evalG_congr
  intro c hcc
  rcases joinRow_some e with ⟨hrk, rfl⟩ | rfl
  · subst hrk
    rw [List.getElem?_append_right (hc c hcc)]
    simp [sortNat, sortNat0, dedupAdj, sortBy, reinsert]
  · rw [List.getElem?_append_right (hc c hcc)]
    exact excluding_reinsert b rk hn _

theorem pushdown_right_eval {L R : List Tuple} {lk rk : List Nat} {p : Pred} {lw : Nat}
    (hL : ∀ a ∈ L, a.length = lw) (hc : ∀ c ∈ p.cols, lw ≤ c) (hn : nodupNat rk = true) :
    joinRows L (R.filter (p.mapCols (fun c => reinsert (sortNat rk) (c - lw))).eval) lk rk = (joinRows L R lk rk).filter p.eval := by
  unfold joinRows
  induction L with
  | nil => rfl
  | cons a L ih =>
    have ih := ih (fun x hx => hL x (List.mem_cons_of_mem _ hx))
    have hal : a.length = lw := hL a (by simp)
    simp only [List.flatMap_cons, List.filter_append, ih]
    congr 1
    apply filter_filterMap_of
    intro b _ x e
    have := pushdown_right_row (p := p) (a := a) (b := b) (x := x) (lk := lk) (rk := rk)
      (by rw [hal]; exact hc) hn e
    rw [hal] at this
    exact this

theorem mapCols_ne_ff {p : Pred} (f : Nat → Nat) (h : p ≠ .ff) : p.mapCols f ≠ .ff := by
  cases p <;> simp_all [Pred.mapCols]

mutual
theorem pushdown_ok (db : Db) : ∀ t, wf db t = true → Ok db t (pushdown t)
  | .filter i p, h => by
    have hi := pushdown_ok db i (wf_filter h)
    have hpne : p ≠ .ff := by
      simp only [wf, Bool.and_eq_true, bne_iff_ne, ne_eq] at h; exact h.2
    simp only [pushdown]
    split
    · rename_i l r lk rk s heq
      rw [heq] at hi
      have hjw := hi.w
      have hwl := (wf_join hjw).1
      have hnd : nodupNat rk = true := by
        simp only [wf, Bool.and_eq_true] at hjw; exact hjw.2
      have hwd : s.length = width i := by simpa [width, schema] using hi.wd
      have hrows : ∀ a ∈ eval db l, a.length = width l := rowsOk db l hwl
      split
      · -- predicate references the left input only
        rename_i hcond
        simp only [Bool.and_eq_true, Bool.not_eq_true', List.any_eq_false, decide_eq_true_eq] at hcond
        have hc : ∀ c ∈ p.cols, c < width l := fun c hcc => by have := hcond.2 c hcc; omega
        refine ⟨?_, ?_, ?_⟩
        · simp only [wf, Bool.and_eq_true] at hjw ⊢
          simp only [width, schema] at hjw ⊢
          simp_all
        · simpa [width, schema] using hwd
        · simp only [eval]
          rw [pushdown_left_eval hrows hc, ← hi.ev]
          simp [eval]
      · split
        · -- predicate references the right input only
          rename_i _ hcond
          simp only [Bool.and_eq_true, Bool.not_eq_true', List.any_eq_false, decide_eq_true_eq] at hcond
          have hc : ∀ c ∈ p.cols, width l ≤ c := fun c hcc => by have := hcond.2 c hcc; omega
          refine ⟨?_, ?_, ?_⟩
          · have := mapCols_ne_ff (fun c => reinsert (sortNat rk) (c - width l)) hpne
            simp only [wf, Bool.and_eq_true] at hjw ⊢
            simp only [width, schema] at hjw this ⊢
            simp_all
          · simpa [width, schema] using hwd
          · simp only [eval]
            rw [pushdown_right_eval hrows hc hnd, ← hi.ev]
            simp [eval]
        · exact Ok.filter h hi
    · exact Ok.filter h hi
  | .scan .., h => by simpa [pushdown] using Ok.refl h
  | .map i proj s, h => by simpa [pushdown] using Ok.map h (pushdown_ok db i (wf_map h))
  | .join l r lk rk s, h => by
    simpa [pushdown] using Ok.join h (pushdown_ok db l (wf_join h).1) (pushdown_ok db r (wf_join h).2)
  | .distinct i, h => by simpa [pushdown] using Ok.distinct h (pushdown_ok db i (wf_distinct h))
  | .union is, h => by simpa [pushdown] using Ok.union h (pushdownL_ok db is (wf_union h))
  | .aggregate i gb aggs s, h => by simpa [pushdown] using Ok.aggregate h (pushdown_ok db i (wf_aggregate h))
  | .antijoin l r lk rk s, h => by
    simpa [pushdown] using Ok.antijoin h (pushdown_ok db l (wf_antijoin h).1) (pushdown_ok db r (wf_antijoin h).2)
  | .compute i es, h => by simpa [pushdown] using Ok.compute h (pushdown_ok db i (wf_compute h))
  | .hnsw .., h => by simpa [pushdown] using Ok.refl h
  | .flatMap .., h => by simpa [pushdown] using Ok.refl h
  | .joinFlatMap .., h => by simpa [pushdown] using Ok.refl h
theorem pushdownL_ok (db : Db) : ∀ ts, wfL db ts = true → OkL db ts (pushdownL ts)
  | .nil, _ => by simpa [pushdownL] using OkL.nil
  | .cons t ts, h => by
    simpa [pushdownL] using OkL.cons (pushdown_ok db t (wfL_cons h).1) (pushdownL_ok db ts (wfL_cons h).2)
end

end ILV.IR
