/-
  `eliminate_empty_unions` and `pushdown_filters` (the latter under the explicit exclusion of the
  defective right-hand branch), and the composition `apply_all_rules` / fix-point iteration.
-/
import ILV.Lemmas.IROptRules
namespace ILV.IR
open ILV

/-! ### empty-union elimination -/

theorem not_emptyUnion_of_wf {db : Db} {t : Node} (h : wf db t = true) : isEmptyUnion t = false := by
  cases t with
  | union is =>
    cases is with
    | nil => simp [wf, NodeList.isEmpty] at h
    | cons => rfl
  | _ => rfl

theorem dropEmpty_of_wf {db : Db} : ∀ ts, wfL db ts = true → dropEmpty ts = ts
  | .nil, _ => rfl
  | .cons t ts, h => by
    simp [dropEmpty, not_emptyUnion_of_wf (wfL_cons h).1, dropEmpty_of_wf ts (wfL_cons h).2]

mutual
theorem elimEmpty_ok (db : Db) : ∀ t, wf db t = true → Ok db t (elimEmpty t)
  | .scan .., h => by simpa [elimEmpty] using Ok.refl h
  | .map i proj s, h => by
    have hi := elimEmpty_ok db i (wf_map h)
    simpa [elimEmpty, not_emptyUnion_of_wf hi.w] using Ok.map h hi
  | .filter i p, h => by
    have hi := elimEmpty_ok db i (wf_filter h)
    simpa [elimEmpty, not_emptyUnion_of_wf hi.w] using Ok.filter h hi
  | .join l r lk rk s, h => by
    have hl := elimEmpty_ok db l (wf_join h).1
    have hr := elimEmpty_ok db r (wf_join h).2
    simpa [elimEmpty, not_emptyUnion_of_wf hl.w, not_emptyUnion_of_wf hr.w] using Ok.join h hl hr
  | .distinct i, h => by
    have hi := elimEmpty_ok db i (wf_distinct h)
    simpa [elimEmpty, not_emptyUnion_of_wf hi.w] using Ok.distinct h hi
  | .union is, h => by
    have hi := elimEmptyL_ok db is (wf_union h)
    have hu := Ok.union h hi
    simp only [elimEmpty, dropEmpty_of_wf _ hi.w]
    split
    · rename_i heq
      rw [heq] at hu
      exact absurd hu.w (by simp [wf, NodeList.isEmpty])
    · rename_i t heq
      rw [heq] at hu
      have hw := hu.w
      simp only [wf, wfL, Bool.and_eq_true, Bool.and_true] at hw
      exact ⟨hw.1.2, by simpa [width, schema, schemaFirst] using hu.wd, by simpa [eval, evalList] using hu.ev⟩
    · exact hu
  | .aggregate i gb aggs s, h => by simpa [elimEmpty] using Ok.aggregate h (elimEmpty_ok db i (wf_aggregate h))
  | .antijoin l r lk rk s, h => by
    have hl := elimEmpty_ok db l (wf_antijoin h).1
    have hr := elimEmpty_ok db r (wf_antijoin h).2
    simpa [elimEmpty, not_emptyUnion_of_wf hl.w] using Ok.antijoin h hl hr
  | .compute i es, h => by
    have hi := elimEmpty_ok db i (wf_compute h)
    simpa [elimEmpty, not_emptyUnion_of_wf hi.w] using Ok.compute h hi
  | .hnsw .., h => by simpa [elimEmpty] using Ok.refl h
  | .flatMap .., h => by simpa [elimEmpty] using Ok.refl h
  | .joinFlatMap .., h => by simpa [elimEmpty] using Ok.refl h
theorem elimEmptyL_ok (db : Db) : ∀ ts, wfL db ts = true → OkL db ts (elimEmptyL ts)
  | .nil, _ => by simpa [elimEmptyL] using OkL.nil
  | .cons t ts, h => by
    simpa [elimEmptyL] using OkL.cons (elimEmpty_ok db t (wfL_cons h).1) (elimEmptyL_ok db ts (wfL_cons h).2)
end

/-! ### filter push-down into a join -/

theorem joinRow_some {lk rk : List Nat} {a b x : Tuple} (h : joinRow lk rk a b = some x) :
    x = a ++ b ∨ x = a ++ excluding b rk := by
  unfold joinRow at h
  split at h
  · left; simpa using h.symm
  · split at h
    · right; simpa using h.symm
    · simp at h

theorem pushdown_left_eval {L R : List Tuple} {lk rk : List Nat} {p : Pred} {lw : Nat}
    (hL : ∀ a ∈ L, a.length = lw) (hc : ∀ c ∈ p.cols, c < lw) :
    joinRows (L.filter p.eval) R lk rk = (joinRows L R lk rk).filter p.eval := by
  unfold joinRows
  apply filter_flatMap_of
  intro a ha x hx
  simp only [List.mem_filterMap] at hx
  obtain ⟨b, _, e⟩ := hx
  have hcl : ∀ c ∈ p.cols, c < a.length := fun c hcc => by rw [hL a ha]; exact hc c hcc
  rcases joinRow_some e with rfl | rfl <;> exact Pred.eval_append_left hcl

theorem pushdown_right_row {lk rk : List Nat} {p : Pred} {a b x : Tuple}
    (hc : ∀ c ∈ p.cols, a.length ≤ c) (hs : ∀ c ∈ p.cols, ∀ k ∈ rk, c - a.length < k)
    (e : joinRow lk rk a b = some x) : p.eval x = (p.mapCols (fun c => c - a.length)).eval b := by
  unfold Pred.eval
  rw [Pred.evalG_mapCols]
  apply Pred.evalG_congr
  intro c hcc
  rcases joinRow_some e with rfl | rfl
  · rw [List.getElem?_append_right (hc c hcc)]
  · rw [List.getElem?_append_right (hc c hcc)]
    exact excludingAux_getElem? rk 0 b _ (fun k hk => by simpa using hs c hcc k hk)

theorem pushdown_right_eval {L R : List Tuple} {lk rk : List Nat} {p : Pred} {lw : Nat}
    (hL : ∀ a ∈ L, a.length = lw) (hc : ∀ c ∈ p.cols, lw ≤ c) (hs : ∀ c ∈ p.cols, ∀ k ∈ rk, c - lw < k) :
    joinRows L (R.filter (p.mapCols (fun c => c - lw)).eval) lk rk = (joinRows L R lk rk).filter p.eval := by
  unfold joinRows
  induction L with
  | nil => rfl
  | cons a L ih =>
    have ih := ih (fun x hx => hL x (List.mem_cons_of_mem _ hx))
    have hal : a.length = lw := hL a (by simp)
    simp only [List.flatMap_cons, List.filter_append, ih]
    congr 1
    apply filter_filterMap_of
    intro b _ x e
    have := pushdown_right_row (p := p) (a := a) (b := b) (x := x) (lk := lk) (rk := rk)
      (by rw [hal]; exact hc) (by rw [hal]; exact hs) e
    rw [hal] at this
    exact this

theorem mapCols_ne_ff {p : Pred} (f : Nat → Nat) (h : p ≠ .ff) : p.mapCols f ≠ .ff := by
  cases p <;> simp_all [Pred.mapCols]

mutual
theorem pushdown_ok (db : Db) : ∀ t, wf db t = true → pushUnsafe t = false → Ok db t (pushdown t)
  | .filter i p, h, hu => by
    simp only [pushUnsafe, Bool.or_eq_false_iff] at hu
    have hi := pushdown_ok db i (wf_filter h) hu.1
    have hu2 := hu.2
    have hpne : p ≠ .ff := by
      simp only [wf, Bool.and_eq_true, bne_iff_ne, ne_eq] at h; exact h.2
    simp only [pushdown]
    split
    · rename_i l r lk rk s heq
      rw [heq] at hi hu2
      simp only at hu2
      have hjw := hi.w
      have hwl := (wf_join hjw).1
      have hwd : s.length = width i := by simpa [width, schema] using hi.wd
      have hrows : ∀ a ∈ eval db l, a.length = width l := rowsOk db l hwl
      split
      · -- predicate references the left input only
        rename_i hcond
        simp only [Bool.and_eq_true, Bool.not_eq_true', List.any_eq_false, decide_eq_true_eq] at hcond
        have hc : ∀ c ∈ p.cols, c < width l := fun c hcc => by have := hcond.2 c hcc; omega
        refine ⟨?_, ?_, ?_⟩
        · simp only [wf, Bool.and_eq_true] at hjw ⊢
          simp only [width, schema] at hjw ⊢
          simp_all
        · simpa [width, schema] using hwd
        · simp only [eval]
          rw [pushdown_left_eval hrows hc, ← hi.ev]
          simp [eval]
      · split
        · -- predicate references the right input only, and no referenced column lies at or after a key
          rename_i _ hcond
          simp only [Bool.and_eq_true, Bool.not_eq_true', List.any_eq_false, decide_eq_true_eq] at hcond
          have hc : ∀ c ∈ p.cols, width l ≤ c := fun c hcc => by have := hcond.2 c hcc; omega
          have hrr : (p.cols.any fun c => decide (c ≥ width l)) = true := hcond.1
          have hrl : (p.cols.any fun c => decide (c < width l)) = false := by
            simp only [List.any_eq_false, decide_eq_true_eq]; exact hcond.2
          simp only [hrr, hrl, Bool.not_false, Bool.and_self, Bool.true_and, List.any_eq_false,
            decide_eq_true_eq] at hu2
          have hs : ∀ c ∈ p.cols, ∀ k ∈ rk, c - width l < k := fun c hcc k hk => by
            have h1 := hu2 c hcc
            simp only [Bool.not_eq_true, List.any_eq_false, decide_eq_true_eq] at h1
            have := h1 k hk; omega
          refine ⟨?_, ?_, ?_⟩
          · have := mapCols_ne_ff (fun c => c - width l) hpne
            simp only [wf, Bool.and_eq_true] at hjw ⊢
            simp only [width, schema] at hjw this ⊢
            simp_all
          · simpa [width, schema] using hwd
          · simp only [eval]
            rw [pushdown_right_eval hrows hc hs, ← hi.ev]
            simp [eval]
        · exact Ok.filter h hi
    · exact Ok.filter h hi
  | .scan .., h, _ => by simpa [pushdown] using Ok.refl h
  | .map i proj s, h, hu => by
    simp only [pushUnsafe] at hu
    simpa [pushdown] using Ok.map h (pushdown_ok db i (wf_map h) hu)
  | .join l r lk rk s, h, hu => by
    simp only [pushUnsafe, Bool.or_eq_false_iff] at hu
    simpa [pushdown] using Ok.join h (pushdown_ok db l (wf_join h).1 hu.1) (pushdown_ok db r (wf_join h).2 hu.2)
  | .distinct i, h, hu => by
    simp only [pushUnsafe] at hu
    simpa [pushdown] using Ok.distinct h (pushdown_ok db i (wf_distinct h) hu)
  | .union is, h, hu => by
    simp only [pushUnsafe] at hu
    simpa [pushdown] using Ok.union h (pushdownL_ok db is (wf_union h) hu)
  | .aggregate i gb aggs s, h, hu => by
    simp only [pushUnsafe] at hu
    simpa [pushdown] using Ok.aggregate h (pushdown_ok db i (wf_aggregate h) hu)
  | .antijoin l r lk rk s, h, hu => by
    simp only [pushUnsafe, Bool.or_eq_false_iff] at hu
    simpa [pushdown] using Ok.antijoin h (pushdown_ok db l (wf_antijoin h).1 hu.1) (pushdown_ok db r (wf_antijoin h).2 hu.2)
  | .compute i es, h, hu => by
    simp only [pushUnsafe] at hu
    simpa [pushdown] using Ok.compute h (pushdown_ok db i (wf_compute h) hu)
  | .hnsw .., h, _ => by simpa [pushdown] using Ok.refl h
  | .flatMap .., h, _ => by simpa [pushdown] using Ok.refl h
  | .joinFlatMap .., h, _ => by simpa [pushdown] using Ok.refl h
theorem pushdownL_ok (db : Db) : ∀ ts, wfL db ts = true → pushUnsafeL ts = false → OkL db ts (pushdownL ts)
  | .nil, _, _ => by simpa [pushdownL] using OkL.nil
  | .cons t ts, h, hu => by
    simp only [pushUnsafeL, Bool.or_eq_false_iff] at hu
    simpa [pushdownL] using OkL.cons (pushdown_ok db t (wfL_cons h).1 hu.1) (pushdownL_ok db ts (wfL_cons h).2 hu.2)
end

end ILV.IR
