/-
  Comparison filters of the builder's plan vs the Spec's comparison literals, on integer data; the
  rows of the filtered join tree correspond to `DL.bodyEnvs`.
-/
import ILV.Lemmas.IRBuildVal
namespace ILV.IRBuild
open ILV ILV.IR

/-! ### integer rows -/

def IntRow (row : Tuple) : Prop := ∀ v ∈ row, ∃ n, v = Value.i64 n

/-- every stored value is an `Int64` (decidable form) -/
def intDb (db : Db) : Bool := db.all (fun rt => rt.2.all (fun t => t.all (fun v => match v with | .i64 _ => true | _ => false)))

theorem intDb_get {db : Db} (h : intDb db = true) (rel : String) : ∀ tup ∈ db.get rel, IntRow tup := by
  intro tup ht v hv
  unfold Db.get at ht
  cases hl : db.lookup rel with
  | none => simp [hl] at ht
  | some ts =>
    simp only [hl, Option.getD_some] at ht
    have hmem : (rel, ts) ∈ db ∨ True := Or.inr trivial
    -- find the entry
    have : ∃ k, (k, ts) ∈ db := by
      clear hmem ht
      induction db with
      | nil => simp [List.lookup] at hl
      | cons e db ih =>
        obtain ⟨k, ts'⟩ := e
        simp only [List.lookup] at hl
        split at hl
        · simp only [Option.some.injEq] at hl; subst hl; exact ⟨k, by simp⟩
        · simp only [intDb, List.all_cons, Bool.and_eq_true] at h
          obtain ⟨k', hk'⟩ := ih (by simpa [intDb] using h.2) hl
          exact ⟨k', List.mem_cons_of_mem _ hk'⟩
    obtain ⟨k, hk⟩ := this
    unfold intDb at h
    rw [List.all_eq_true] at h
    have h1 := h (k, ts) hk
    simp only [List.all_eq_true] at h1
    have h2 := h1 tup ht v hv
    cases v <;> simp at h2
    exact ⟨_, rfl⟩

theorem joinRow_mem {lk rk : List Nat} {a b x : Tuple} (h : joinRow lk rk a b = some x) : ∀ v ∈ x, v ∈ a ∨ v ∈ b := by
  unfold joinRow at h
  split at h
  · simp only [Option.some.injEq] at h; subst h
    intro v hv; simpa using hv
  · split at h
    · simp only [Option.some.injEq] at h; subst h
      intro v hv
      rcases List.mem_append.1 hv with hv | hv
      · exact Or.inl hv
      · right
        unfold excluding at hv; rw [excludingAux_eq_exclG] at hv
        exact mem_of_mem_exclG _ 0 b v hv
    · simp at h

theorem intRows_setPlan {db : Db} (hdb : intDb db = true) : ∀ t, isSetPlan t = true → ∀ row ∈ eval db t, IntRow row
  | .scan rel _, _, row, hr => intDb_get hdb rel row (by simpa [eval] using hr)
  | .filter i p, hs, row, hr => by
    simp only [isSetPlan] at hs
    simp only [eval, List.mem_filter] at hr
    exact intRows_setPlan hdb i hs row hr.1
  | .join l r lk rk s, hs, row, hr => by
    simp only [isSetPlan, Bool.and_eq_true] at hs
    obtain ⟨a, ha, b, hb, e⟩ := mem_joinRows (by simpa [eval] using hr)
    intro v hv
    rcases joinRow_mem e v hv with h | h
    · exact intRows_setPlan hdb l hs.1 a ha v h
    · exact intRows_setPlan hdb r hs.2 b hb v h
  | .map .., hs, _, _ => by simp [isSetPlan] at hs
  | .distinct .., hs, _, _ => by simp [isSetPlan] at hs
  | .union .., hs, _, _ => by simp [isSetPlan] at hs
  | .aggregate .., hs, _, _ => by simp [isSetPlan] at hs
  | .antijoin .., hs, _, _ => by simp [isSetPlan] at hs
  | .compute .., hs, _, _ => by simp [isSetPlan] at hs
  | .hnsw .., hs, _, _ => by simp [isSetPlan] at hs
  | .flatMap .., hs, _, _ => by simp [isSetPlan] at hs
  | .joinFlatMap .., hs, _, _ => by simp [isSetPlan] at hs

theorem F2.and_mem {α β} {R : α → β → Prop} {P : α → Prop} {L : List α} {E : List β}
    (h : F2 R L E) (hp : ∀ l ∈ L, P l) : F2 (fun l e => R l e ∧ P l) L E := by
  induction h with
  | nil => exact F2.nil
  | cons hr _ ih => exact F2.cons ⟨hr, hp _ (by simp)⟩ (ih (fun l hl => hp l (by simp [hl])))

theorem F2.mono {α β} {R R' : α → β → Prop} {L : List α} {E : List β} (h : F2 R L E) (hr : ∀ l e, R l e → R' l e) : F2 R' L E := by
  induction h with
  | nil => exact F2.nil
  | cons h1 _ ih => exact F2.cons (hr _ _ h1) ih

/-! ### `wrapFilters` -/

theorem eval_wrapFilters (db : Db) : ∀ (ps : List Pred) (t : Node),
    eval db (wrapFilters t ps) = (eval db t).filter (fun row => ps.all (fun p => p.eval row))
  | [], t => by simp [wrapFilters]
  | p :: ps, t => by
    simp only [wrapFilters, eval_wrapFilters db ps (.filter t p), eval, List.filter_filter, List.all_cons]
    congr 1; funext row; rw [Bool.and_comm]

theorem schema_wrapFilters : ∀ (ps : List Pred) (t : Node), schema (wrapFilters t ps) = schema t
  | [], _ => rfl
  | p :: ps, t => by simp [wrapFilters, schema_wrapFilters ps (.filter t p), schema]

theorem isSetPlan_wrapFilters : ∀ (ps : List Pred) (t : Node), isSetPlan t = true → isSetPlan (wrapFilters t ps) = true
  | [], _, h => h
  | p :: ps, t, h => isSetPlan_wrapFilters ps (.filter t p) (by simpa [isSetPlan] using h)

/-! ### one comparison: builder predicate vs Spec literal -/

theorem int_compare_cases (m n : Int) :
    (m < n ∧ compare m n = .lt) ∨ (m = n ∧ compare m n = .eq) ∨ (n < m ∧ compare m n = .gt) := by
  rcases Int.lt_trichotomy m n with h | h | h
  · exact Or.inl ⟨h, Int.compare_eq_lt.2 h⟩
  · exact Or.inr (Or.inl ⟨h, Int.compare_eq_eq.2 h⟩)
  · exact Or.inr (Or.inr ⟨h, Int.compare_eq_gt.2 h⟩)

theorem i64_beq (m n : Int) : (Value.i64 m == Value.i64 n) = (m == n) := by
  rw [Bool.eq_iff_iff]; simp

theorem cmpHolds_int (op : DL.CmpOp) (m n : Int) : DL.cmpHolds op (.i64 m) (.i64 n) = cmpInt (cmpOf op) m n := by
  rcases int_compare_cases m n with ⟨h, hc⟩ | ⟨h, hc⟩ | ⟨h, hc⟩ <;>
    cases op <;> simp only [DL.cmpHolds, cmpInt, cmpOf, Value.cmp, hc, i64_beq] <;> rw [Bool.eq_iff_iff] <;> simp <;> omega

theorem cmpInt_swap (op : DL.CmpOp) (m n : Int) : cmpInt (cmpOf op) n m = cmpInt (cmpSwap op) m n := by
  cases op <;> simp only [cmpInt, cmpOf, cmpSwap] <;> rw [Bool.eq_iff_iff] <;> simp <;> omega

/-! ### the fragment of comparison literals: bound variables against integer constants or bound variables -/

theorem lookup_isSome_iff_mem_keys (env : DL.Env) (x : String) : (env.lookup x).isSome = (env.map (·.1)).contains x := by
  induction env with
  | nil => simp [List.lookup]
  | cons e env ih =>
    obtain ⟨k, v⟩ := e
    simp only [List.lookup, List.map_cons, List.contains_cons]
    by_cases h : x == k
    · simp [h]
    · simp only [h, Bool.false_or]; simpa using ih

/-- what `cmpPred` produces is evaluated on a row exactly as the Spec evaluates the literal on the
    corresponding valuation -/
theorem cmpPred_agree {V sch : List String} {row : Tuple} {env : DL.Env} (hinv : Inv V sch row env) (hint : IntRow row)
    (c : DL.CmpOp × DL.Expr × DL.Expr) (p : Pred) (hp : cmpPred sch c = some p) (hV : ∀ x ∈ DL.Cmp.vars c, x ∈ V) :
    p.eval row = DL.Cmp.holds env c ∧ (∀ x ∈ DL.Cmp.vars c, (env.lookup x).isSome = true) := by
  -- value of a schema variable in the row
  have colval : ∀ x i, firstIdx x sch 0 = some i → x ∈ V → ∃ m, row[i]? = some (.i64 m) ∧ env.lookup x = some (.i64 m) := by
    intro x i hi hx
    have h1 := (firstIdx_some sch 0 i hi).2
    simp only [Nat.sub_zero] at h1
    have hlt : i < row.length := by
      rw [hinv.len]
      rcases Nat.lt_or_ge i sch.length with h | h
      · exact h
      · rw [List.getElem?_eq_none h] at h1; cases h1
    obtain ⟨m, hm⟩ := hint row[i] (List.getElem_mem hlt)
    refine ⟨m, by rw [List.getElem?_eq_getElem hlt, hm], ?_⟩
    rw [hinv.val i x h1 hx, List.getElem?_eq_getElem hlt, hm]
  obtain ⟨op, l, r⟩ := c
  cases l with
  | var x =>
    cases r with
    | var y =>
      simp only [cmpPred] at hp
      cases hi : firstIdx x sch 0 with
      | none => simp [hi] at hp
      | some i =>
        cases hj : firstIdx y sch 0 with
        | none => simp [hi, hj] at hp
        | some j =>
          simp only [hi, hj, Option.some.injEq] at hp; subst hp
          obtain ⟨m, r1, e1⟩ := colval x i hi (hV x (by simp [DL.Cmp.vars, DL.Expr.vars]))
          obtain ⟨n, r2, e2⟩ := colval y j hj (hV y (by simp [DL.Cmp.vars, DL.Expr.vars]))
          refine ⟨?_, ?_⟩
          · simp only [Pred.eval, Pred.evalG, r1, r2, DL.Cmp.holds, DL.Expr.evalVal, e1, e2, cmpHolds_int]
            cases op <;> simp [cmpOf, cmpInt, asI64, i64_beq, bne]
          · intro z hz
            simp only [DL.Cmp.vars, DL.Expr.vars, List.cons_append, List.nil_append, List.mem_cons, List.not_mem_nil, or_false] at hz
            rcases hz with rfl | rfl <;> simp [e1, e2]
    | const n =>
      simp only [cmpPred] at hp
      cases hi : firstIdx x sch 0 with
      | none => simp [hi] at hp
      | some i =>
        simp only [hi, Option.map_some, Option.some.injEq] at hp; subst hp
        obtain ⟨m, r1, e1⟩ := colval x i hi (hV x (by simp [DL.Cmp.vars, DL.Expr.vars]))
        refine ⟨?_, ?_⟩
        · simp only [Pred.eval, Pred.evalG, r1, DL.Cmp.holds, DL.Expr.evalVal, DL.Expr.evalInt, e1, Option.map_some, cmpHolds_int, asI64]
        · intro z hz
          simp only [DL.Cmp.vars, DL.Expr.vars, List.append_nil, List.mem_singleton] at hz
          subst hz; simp [e1]
    | bin _ _ _ => simp [cmpPred] at hp
  | const n =>
    cases r with
    | var x =>
      simp only [cmpPred] at hp
      cases hi : firstIdx x sch 0 with
      | none => simp [hi] at hp
      | some i =>
        simp only [hi, Option.map_some, Option.some.injEq] at hp; subst hp
        obtain ⟨m, r1, e1⟩ := colval x i hi (hV x (by simp [DL.Cmp.vars, DL.Expr.vars]))
        refine ⟨?_, ?_⟩
        · simp only [Pred.eval, Pred.evalG, r1, DL.Cmp.holds, DL.Expr.evalVal, DL.Expr.evalInt, e1, Option.map_some, cmpHolds_int, asI64,
            cmpInt_swap]
        · intro z hz
          simp only [DL.Cmp.vars, DL.Expr.vars, List.nil_append, List.mem_singleton] at hz
          subst hz; simp [e1]
    | const _ => simp [cmpPred] at hp
    | bin _ _ _ => simp [cmpPred] at hp
  | bin _ _ _ => simp [cmpPred] at hp

/-! ### the Spec's comparison pass when every variable is already bound -/

theorem defines_none {bnd : List String} (c : DL.Cmp) (h : ∀ x ∈ DL.Cmp.vars c, bnd.contains x = true) :
    DL.defines bnd c = none := by
  obtain ⟨op, l, r⟩ := c
  cases op <;> try rfl
  cases l with
  | var x =>
    have hx : x ∈ bnd := by simpa using h x (by simp [DL.Cmp.vars, DL.Expr.vars])
    cases r with
    | var y =>
      have hy : y ∈ bnd := by simpa using h y (by simp [DL.Cmp.vars, DL.Expr.vars])
      simp [DL.defines, hx, hy]
    | const n => simp [DL.defines, hx]
    | bin o a b => simp [DL.defines, hx]
  | const n =>
    cases r with
    | var y =>
      have hy : y ∈ bnd := by simpa using h y (by simp [DL.Cmp.vars, DL.Expr.vars])
      simp [DL.defines, hy]
    | const _ => rfl
    | bin _ _ _ => rfl
  | bin o a b =>
    cases r with
    | var y =>
      have hy : y ∈ bnd := by simpa using h y (by simp [DL.Cmp.vars, DL.Expr.vars])
      simp [DL.defines, hy]
    | const _ => rfl
    | bin _ _ _ => rfl

theorem bindRound_id (cs : List DL.Cmp) (env : DL.Env)
    (h : ∀ c ∈ cs, ∀ x ∈ DL.Cmp.vars c, (env.lookup x).isSome = true) : DL.bindRound cs env = env := by
  unfold DL.bindRound
  induction cs with
  | nil => rfl
  | cons c cs ih =>
    have hc := defines_none (bnd := env.map (·.1)) c (fun x hx => by
      rw [← lookup_isSome_iff_mem_keys]; exact h c (by simp) x hx)
    simp only [List.foldl_cons, hc]
    exact ih (fun c' hc' => h c' (by simp [hc']))

theorem iter_id {α} (f : α → α) (x : α) (h : f x = x) : ∀ n, DL.iter f n x = x
  | 0 => rfl
  | n + 1 => by simp only [DL.iter, h]; exact iter_id f x h n

theorem specCmps_of_bound (cs : List DL.Cmp) (envs : List DL.Env)
    (h : ∀ env ∈ envs, ∀ c ∈ cs, ∀ x ∈ DL.Cmp.vars c, (env.lookup x).isSome = true) :
    DL.specCmps cs envs = envs.filter (fun env => cs.all (DL.Cmp.holds env)) := by
  unfold DL.specCmps
  have h1 : envs.map (DL.iter (DL.bindRound cs) cs.length) = envs := by
    conv => rhs; rw [← List.map_id envs]
    apply List.map_congr_left
    intro env he
    exact iter_id _ env (bindRound_id cs env (h env he)) _
  rw [h1]
  congr 1
  apply List.filter_eq_self.2
  intro env he
  simp only [List.all_eq_true, DL.bound]
  exact fun c hc x hx => h env he c hc x hx

/-! ### the body plan of a rule and its valuations -/

/-- the plan `buildRule` puts below the head operator -/
def bodyPlan (r : DL.Rule) : Option Node :=
  if r.body.any isNegLit then none else
  match posAtoms 0 r.body with
  | [] => none
  | (bi, a) :: rest =>
    match buildScan bi a with
    | none => none
    | some s0 =>
      match buildJoins s0 rest with
      | none => none
      | some j =>
        match optMapM (cmpPred (schema j)) r.cmps with
        | none => none
        | some ps => some (wrapFilters j ps)

theorem buildRule_eq (r : DL.Rule) : buildRule r = (bodyPlan r).bind (fun b => buildHead b r.hargs) := by
  unfold buildRule bodyPlan
  by_cases h : r.body.any isNegLit = true
  · simp [h]
  · simp only [h, Bool.false_eq_true, if_false]
    cases posAtoms 0 r.body with
    | nil => rfl
    | cons p rest =>
      obtain ⟨bi, a⟩ := p
      simp only
      cases buildScan bi a with
      | none => rfl
      | some s0 =>
        simp only
        cases buildJoins s0 rest with
        | none => rfl
        | some j =>
          simp only
          cases optMapM (cmpPred (schema j)) r.cmps with
          | none => rfl
          | some ps => rfl

theorem posAtoms_map_snd : ∀ (i : Nat) (body : List DL.Lit),
    (posAtoms i body).map (·.2) = DL.Rule.posAtoms { hrel := "", hargs := [], body := body }
  | _, [] => rfl
  | i, .pos a :: ls => by
    have := posAtoms_map_snd (i + 1) ls
    simp only [DL.Rule.posAtoms] at this ⊢
    simp [posAtoms, this]
  | i, .neg a :: ls => by
    have := posAtoms_map_snd (i + 1) ls
    simp only [DL.Rule.posAtoms] at this ⊢
    simp [posAtoms, this]
  | i, .cmp o l r :: ls => by
    have := posAtoms_map_snd (i + 1) ls
    simp only [DL.Rule.posAtoms] at this ⊢
    simp [posAtoms, this]

theorem cmps_agree {V sch : List String} {row : Tuple} {env : DL.Env} (hi : Inv V sch row env) (hir : IntRow row) :
    ∀ (cs : List DL.Cmp) (ps : List Pred), F2 (fun c p => cmpPred sch c = some p) cs ps →
    (∀ c ∈ cs, ∀ x ∈ DL.Cmp.vars c, x ∈ V) →
    (ps.all (fun p => p.eval row) = cs.all (DL.Cmp.holds env)) ∧
    (∀ c ∈ cs, ∀ x ∈ DL.Cmp.vars c, (env.lookup x).isSome = true)
  | _, _, F2.nil, _ => ⟨rfl, fun c hc => by simp at hc⟩
  | c :: cs, p :: ps, F2.cons hcp hrest, hcV => by
    have h1 := cmpPred_agree hi hir c p hcp (hcV c (by simp))
    have h2 := cmps_agree hi hir cs ps hrest (fun c' hc' => hcV c' (by simp [hc']))
    refine ⟨by simp [List.all_cons, h1.1, h2.1], ?_⟩
    intro c' hc'
    rcases List.mem_cons.1 hc' with rfl | hc'
    · exact h1.2
    · exact h2.2 c' hc'

theorem optMapM_spec {α β} (f : α → Option β) : ∀ (l : List α) (r : List β), optMapM f l = some r →
    F2 (fun a b => f a = some b) l r
  | [], r, h => by simp only [optMapM, Option.some.injEq] at h; subst h; exact F2.nil
  | a :: l, r, h => by
    simp only [optMapM] at h
    cases hf : f a with
    | none => simp [hf] at h
    | some b =>
      cases hl : optMapM f l with
      | none => simp [hf, hl] at h
      | some bs =>
        simp only [hf, hl, Option.some.injEq] at h; subst h
        exact F2.cons hf (optMapM_spec f l bs hl)

theorem isSetPlan_buildJoins : ∀ (rest : List (Nat × DL.Atom)) (cur t : Node),
    isSetPlan cur = true → (∀ p ∈ rest, plainArgs p.2.args [] = true) → buildJoins cur rest = some t → isSetPlan t = true
  | [], cur, t, h, _, ht => by simp only [buildJoins, Option.some.injEq] at ht; subst ht; exact h
  | (bi, a) :: rest, cur, t, h, hp, ht => by
    simp only [buildJoins, buildScan_plain bi a (hp (bi, a) (by simp))] at ht
    exact isSetPlan_buildJoins rest _ t (by simp [buildJoin, isSetPlan, h]) (fun p hp' => hp p (by simp [hp'])) ht

theorem atomsOk_plain {db : Db} {V : List String} : ∀ (sch : List String) (l : List (Nat × DL.Atom)),
    atomsOk db V sch l = true → ∀ p ∈ l, plainArgs p.2.args [] = true
  | _, [], _, p, hp => by simp at hp
  | sch, (bi, a) :: rest, h, p, hp => by
    simp only [atomsOk, Bool.and_eq_true] at h
    rcases List.mem_cons.1 hp with rfl | hp
    · exact h.1.1.1.1
    · exact atomsOk_plain _ rest h.2 p hp

/-- side conditions of the valuation theorem (decidable): no negation; plain positive atoms over
    relations of the right arity with fresh generated column names; comparisons between bound
    variables and integer constants; integer data. `V` = the variables of the positive atoms. -/
def ruleOk (db : Db) (r : DL.Rule) : Bool :=
  !r.body.any isNegLit && atomsOk db r.posVars [] (posAtoms 0 r.body) && intDb db
    && r.cmps.all (fun c => (DL.Cmp.vars c).all r.posVars.contains)

/-- **Rows of the body plan = the Spec's body valuations** (in order, one row per valuation): every
    column named by a rule variable holds that variable's value. -/
theorem body_rows_envs (db : Db) (r : DL.Rule) (B : Node) (hok : ruleOk db r = true) (hB : bodyPlan r = some B) :
    F2 (fun row env => Inv r.posVars (schema B) row env ∧ IntRow row) (eval db B) (DL.bodyEnvs db.get r) := by
  simp only [ruleOk, Bool.and_eq_true, Bool.not_eq_true'] at hok
  obtain ⟨⟨⟨hneg, hatoms⟩, hint⟩, hcmps⟩ := hok
  unfold bodyPlan at hB
  simp only [hneg, Bool.false_eq_true, if_false] at hB
  cases hpa : posAtoms 0 r.body with
  | nil => simp [hpa] at hB
  | cons p rest =>
    obtain ⟨bi, a⟩ := p
    rw [hpa] at hatoms
    have hatoms' := hatoms
    simp only [atomsOk, Bool.and_eq_true] at hatoms
    obtain ⟨⟨⟨⟨hplain, hvars⟩, hdb⟩, hfresh⟩, hrest⟩ := hatoms
    simp only [hpa, buildScan_plain bi a hplain] at hB
    cases hj : buildJoins (.scan a.rel (scanNames a.rel bi 0 a.args)) rest with
    | none => simp [hj] at hB
    | some J =>
      simp only [hj] at hB
      cases hps : optMapM (cmpPred (schema J)) r.cmps with
      | none => simp [hps] at hB
      | some ps =>
        simp only [hps, Option.some.injEq] at hB; subst hB
        -- first atom
        have hfirst : F2 (Inv r.posVars (schema (Node.scan a.rel (scanNames a.rel bi 0 a.args))))
            (eval db (Node.scan a.rel (scanNames a.rel bi 0 a.args)))
            ((db.get a.rel).filterMap (fun t => DL.matchArgs a.args t [])) := by
          have hk : joinKeys [] (scanNames a.rel bi 0 a.args) = [] := rfl
          have := forall2_filterMap (R := Inv r.posVars (scanNames a.rel bi 0 a.args)) (db.get a.rel)
            (fun t => joinRow [] [] [] t) (fun t => DL.matchArgs a.args t []) (by
              intro tup htup
              have hs := step_rel (V := r.posVars) (sch := []) (names := scanNames a.rel bi 0 a.args) (args := a.args)
                (row := []) (t := tup) (env := []) (Inv.nil _) (scanNames_length _ _ _ _) (scanNames_var _ _ _ _)
                (fun q n hq => atomFresh_spec hfresh q n hq) hplain
                (fun x hx => by rw [List.all_eq_true] at hvars; simpa using hvars _ hx)
                (by rw [List.all_eq_true] at hdb; simpa using hdb tup htup)
              simpa [hk, exclG_nil_keys] using hs)
          have e : (db.get a.rel).filterMap (fun t => joinRow [] [] [] t) = db.get a.rel := by
            have : (fun t : Tuple => joinRow [] [] [] t) = some := by
              funext t; simp [joinRow]
            rw [this, filterMap_some]
          rw [e] at this
          simpa [eval, schema] using this
        have hrest' : atomsOk db r.posVars (scanNames a.rel bi 0 a.args) rest = true := by
          have h0 : joinKeys [] (scanNames a.rel bi 0 a.args) = [] := rfl
          rw [h0] at hrest
          simpa [exclG_nil_keys] using hrest
        have hall := joins_rows_envs db r.posVars rest _ _ (by simpa [schema] using hrest') hfirst J hj
        -- valuations of the positive atoms
        have hpos : r.posAtoms = a :: rest.map (·.2) := by
          have h0 : r.posAtoms = DL.Rule.posAtoms { hrel := "", hargs := [], body := r.body } := rfl
          rw [h0, ← posAtoms_map_snd 0 r.body, hpa]; rfl
        have hE : DL.evalPos db.get r.posAtoms [[]] =
            DL.evalPos db.get (rest.map (·.2)) ((db.get a.rel).filterMap (fun t => DL.matchArgs a.args t [])) := by
          rw [hpos]; simp [DL.evalPos]
        -- integer rows
        have hset : isSetPlan J = true :=
          isSetPlan_buildJoins rest _ J rfl (fun p hp => atomsOk_plain _ _ hatoms' p (by simp [hp])) hj
        have hintr := intRows_setPlan hint J hset
        have hall2 := F2.and_mem hall hintr
        -- comparison literals
        have hpsF := optMapM_spec (cmpPred (schema J)) r.cmps ps hps
        have hcV : ∀ c ∈ r.cmps, ∀ x ∈ DL.Cmp.vars c, x ∈ r.posVars := by
          intro c hc x hx
          rw [List.all_eq_true] at hcmps
          have := hcmps c hc
          rw [List.all_eq_true] at this
          simpa using this x hx
        have hagree : ∀ row env, (Inv r.posVars (schema J) row env ∧ IntRow row) →
            (ps.all (fun p => p.eval row) = r.cmps.all (DL.Cmp.holds env)) ∧
            (∀ c ∈ r.cmps, ∀ x ∈ DL.Cmp.vars c, (env.lookup x).isSome = true) :=
          fun row env hr => cmps_agree hr.1 hr.2 r.cmps ps hpsF hcV
        have hbound : ∀ env ∈ DL.evalPos db.get r.posAtoms [[]], ∀ c ∈ r.cmps, ∀ x ∈ DL.Cmp.vars c, (env.lookup x).isSome = true := by
          intro env he
          rw [hE] at he
          -- every valuation has a corresponding row
          have : ∀ (L : List Tuple) (E : List DL.Env), F2 (fun row env => Inv r.posVars (schema J) row env ∧ IntRow row) L E →
              ∀ env ∈ E, ∃ row, Inv r.posVars (schema J) row env ∧ IntRow row := by
            intro L E hf
            induction hf with
            | nil => intro env he; simp at he
            | cons h1 _ ih =>
              intro env he
              rcases List.mem_cons.1 he with rfl | he
              · exact ⟨_, h1⟩
              · exact ih env he
          obtain ⟨row, hr⟩ := this _ _ hall2 env he
          exact (hagree row env hr).2
        unfold DL.bodyEnvs
        have hnegs : r.negAtoms = [] := by
          unfold DL.Rule.negAtoms
          rw [List.filterMap_eq_nil_iff]
          intro l hl
          cases l with
          | neg a' =>
            exfalso
            rw [List.any_eq_false] at hneg
            exact hneg _ hl (by simp [isNegLit])
          | pos _ => rfl
          | cmp _ _ _ => rfl
        rw [hnegs, specCmps_of_bound r.cmps _ hbound, hE]
        simp only [DL.evalNegs, List.all_nil, filter_const_true, eval_wrapFilters, schema_wrapFilters]
        exact forall2_filter _ _ hall2 (fun row env hr => (hagree row env hr).1)

end ILV.IRBuild
