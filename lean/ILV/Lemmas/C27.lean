/-
  Helper lemmas for C27/C29: what a single-line program can put on the event trace, and that an
  event which passed the three gates of `execute_program` is `allowed` / does not touch `_internal`.
-/
import ILV.Lemmas.C30
import ILV.Spec.Access
namespace ILV.Props.C27
open ILV ILV.Text ILV.Handler ILV.Gen.C28 ILV.Spec.Access ILV.Props.C30

theorem finish_trace (P : Parser) (s : QState) (tr : List Event) : (finish P s tr).trace = tr := by
  unfold finish
  split
  · rfl
  · split
    · rfl
    · split
      · rfl
      · split <;> rfl

/-- a program without a newline runs at most one statement: the whole (trimmed) text, in the target KG -/
theorem query_trace_single (P : Parser) (w : World) (kgArg : Option String) (text : List Char) (h : '\n' ∉ text) :
    ∀ e ∈ (queryProgram P w kgArg text).trace,
      e.kg = kgArg.getD "default" ∧ parseStatement P (trim text) = some e.stmt := by
  unfold queryProgram
  simp only []
  split
  · intro e he; simp at he
  · split
    · intro e he; simp at he
    · rcases logicalLines_noNl text h with hl | ⟨hl, _⟩
      · rw [hl]; simp only [phase2]
        intro e he; rw [finish_trace] at he; simp at he
      · have hT : Trimmed (trim text) := logicalLines_trimmed text (trim text) (by rw [hl]; simp)
        have htrim : trim ([] ++ trim text ++ [' ']) = trim text := by simpa using trim_append_space _ hT
        have hne : (trim text).isEmpty = false := by
          rcases hT with ⟨⟨c, cs, hc, _⟩, _⟩; rw [hc]; rfl
        rw [hl]
        unfold phase2
        simp only [htrim, hne]
        cases hp : parseStatement P (trim text) with
        | none =>
          simp only [phase2, Bool.false_eq_true, if_false]
          intro e he; rw [finish_trace] at he; simp at he
        | some st =>
          simp only [Bool.false_eq_true, if_false]
          cases ha : applyStmt ⟨w, kgArg.getD "default", [], none, none, [], []⟩ (trim text) st with
          | cont s' =>
            simp only [phase2]
            intro e he; rw [finish_trace] at he
            simp at he; subst he; exact ⟨rfl, rfl⟩
          | abort s' er =>
            intro e he
            simp at he; subst he; exact ⟨rfl, rfl⟩

theorem postProcess_trace (w : World) (role : Option (String × Role)) (whole : Option Stmt) (sraw : Option Sess) (r : Out) :
    (postProcess w role whole sraw r).trace = r.trace := by
  unfold postProcess
  split
  · rfl
  · simp only []
    split
    · rfl
    · split
      · split <;> rfl
      · rfl

theorem gates_none (w : World) (role : Option (String × Role)) (whole : Option Stmt) (curKg : Option String)
    (h : gates w role whole curKg = none) :
    gateGlobal role whole = none ∧ gateInternal role whole curKg = none ∧ gateKg w role whole curKg = none := by
  unfold gates at h
  cases h1 : gateGlobal role whole with
  | some e => simp [h1] at h
  | none =>
    simp only [h1] at h
    cases h2 : gateInternal role whole curKg with
    | some e => simp [h2] at h
    | none => simp only [h2] at h; exact ⟨rfl, rfl, h⟩

/-- an event that passed the three gates is allowed by the Spec -/
theorem gates_allowed (w : World) (u : String) (r : Role) (st : Stmt) (cur : String)
    (h : gates w (some (u, r)) (some st) (some cur) = none) : allowed w u r ⟨st, cur⟩ = true := by
  rcases gates_none _ _ _ _ h with ⟨h1, _, h3⟩
  unfold gateGlobal at h1
  unfold gateKg at h3
  unfold allowed actsOn
  simp only [] at h1 h3 ⊢
  by_cases hg : globalOk r st.kind = true
  · simp only [hg, Bool.true_and]
    by_cases ha : r = Role.admin
    · subst ha; simp
    · have hne : (r == Role.admin) = false := by simpa using ha
      simp only [hne, Bool.false_or, Bool.false_eq_true, if_false] at h3 ⊢
      cases ht : targetKg st (some cur) with
      | none => rfl
      | some kg =>
        simp only [ht] at h3 ⊢
        cases hk : kgRoleFor w kg u r with
        | none => simp [hk] at h3
        | some kr =>
          simp only [hk] at h3 ⊢
          by_cases hok : kgOk kr st.kind = true
          · exact hok
          · simp [hok] at h3
  · simp [hg] at h1

theorem parseStatement_nil (P : Parser) : parseStatement P [] = none := by
  have : stmtKey [] = [] := by decide
  simp [parseStatement, this]

theorem queryWithSession_trace_single (P : Parser) (w : World) (text : List Char) (h : '\n' ∉ text)
    (se : Sess) (hf : findSess w se.user = some se) (hopen : se.closed = false) :
    ∀ e ∈ (queryWithSession P w se.user text).trace, e.kg = se.kg ∧ parseStatement P (trim text) = some e.stmt := by
  unfold queryWithSession
  rw [hf]
  simp only [hopen, Bool.false_eq_true, if_false]
  split
  · intro e he
    have := query_trace_single P w (some se.kg) text h e he
    simpa using this
  · split
    · intro e he; simp at he
    · split
      · intro e he; simp at he
      · split
        · rename_i rel n hp
          intro e he
          simp at he; subst he
          refine ⟨rfl, ?_⟩
          rcases stripComments_noNl text h with hs | hs
          · rw [hs] at hp; exact hp
          · rw [hs, trim_nil, parseStatement_nil] at hp; cases hp
        · intro e he; simp at he

theorem sessionIntercept_trace (w : World) (sraw : Option Sess) (whole : Option Stmt) (cur : String) (o : Out)
    (h : sessionIntercept w sraw whole (some cur) = some o) : ∀ e ∈ o.trace, e.kg = cur ∧ whole = some e.stmt := by
  unfold sessionIntercept at h
  split at h
  · split at h
    · cases h; intro e he; simp at he
    · split at h
      · cases h; intro e he; simp at he
      · cases h; intro e he; simp at he; subst he; exact ⟨rfl, rfl⟩
  · split at h
    · cases h; intro e he; simp at he
    · cases h; intro e he; simp at he; subst he; exact ⟨rfl, rfl⟩
  · cases h; intro e he; simp at he
  · cases h; intro e he; simp at he
  · cases h; intro e he; simp at he
  · cases h

theorem queryPath_trace_single (P : Parser) (w : World) (rq : Req) (role : Option (String × Role)) (whole : Option Stmt)
    (sraw : Option Sess) (cur : String)
    (hw : whole = parseStatement P (trim rq.text)) (h1 : '\n' ∉ rq.text)
    (hq : startsWithChar '?' (trim rq.text) = true → sraw.isSome = true → rq.kgArg = none)
    (hcur : currentKg rq.kgArg sraw = some cur)
    (hsr : ∀ se, sraw = some se → findSess w se.user = some se) :
    ∀ e ∈ (queryPath P w rq role whole sraw).trace, e.kg = cur ∧ whole = some e.stmt := by
  unfold queryPath
  -- the effective KG is the gated KG
  have heff : effectiveKg rq.kgArg sraw = some (some cur) ∨ effectiveKg rq.kgArg sraw = none := by
    unfold effectiveKg
    unfold currentKg at hcur
    cases hka : rq.kgArg with
    | some k => left; simp [hka] at hcur; simp [hcur]
    | none =>
      cases hsr' : sraw with
      | none => simp [hka, hsr'] at hcur
      | some se =>
        simp only [hka, hsr'] at hcur
        by_cases hc : se.closed = true
        · simp [Option.filter, hc] at hcur
        · left; simp [Option.filter, hc] at hcur; simp [hc, hcur]
  rcases heff with heff | heff
  · rw [heff]
    simp only []
    intro e he
    rw [postProcess_trace] at he
    cases hqq : startsWithChar '?' (trim rq.text) with
    | false =>
      simp only [hqq] at he
      have := query_trace_single P w (some cur) rq.text h1 e he
      exact ⟨by simpa using this.1, hw ▸ this.2⟩
    | true =>
      cases hsr' : sraw with
      | none =>
        simp only [hqq, hsr'] at he
        have := query_trace_single P w (some cur) rq.text h1 e he
        exact ⟨by simpa using this.1, hw ▸ this.2⟩
      | some se =>
        simp only [hqq, hsr'] at he
        have hk : rq.kgArg = none := hq hqq (by simp [hsr'])
        unfold currentKg at hcur
        rw [hk, hsr'] at hcur
        simp only [] at hcur
        have hopen : se.closed = false := by
          by_cases hc : se.closed = true
          · simp [Option.filter, hc] at hcur
          · simpa using hc
        have hkg : se.kg = cur := by simpa [Option.filter, hopen] using hcur
        have := queryWithSession_trace_single P w rq.text h1 se (hsr se hsr') hopen e he
        exact ⟨this.1.trans hkg, hw ▸ this.2⟩
  · rw [heff]; intro e he; simp at he

theorem execRest_trace_single (P : Parser) (w : World) (rq : Req) (role : Option (String × Role)) (whole : Option Stmt)
    (sraw : Option Sess) (cur : String)
    (hw : whole = parseStatement P (trim rq.text)) (h1 : '\n' ∉ rq.text)
    (hq : startsWithChar '?' (trim rq.text) = true → sraw.isSome = true → rq.kgArg = none)
    (hcur : currentKg rq.kgArg sraw = some cur)
    (hsr : ∀ se, sraw = some se → findSess w se.user = some se) :
    ∀ e ∈ (execRest P w rq role whole sraw (some cur)).trace, e.kg = cur ∧ whole = some e.stmt := by
  unfold execRest
  cases hsi : sessionIntercept w sraw whole (some cur) with
  | some o => exact sessionIntercept_trace w sraw whole cur o hsi
  | none => exact queryPath_trace_single P w rq role whole sraw cur hw h1 hq hcur hsr

/-- a non-admin event that passed the gates does not touch `_internal`, provided the caller holds no
    ACL row on `_internal` itself -/
theorem gates_no_internal (w : World) (u : String) (r : Role) (st : Stmt) (cur : String)
    (hr : r ≠ Role.admin) (hacl : kgRoleFor w INTERNAL u r = none)
    (h : gates w (some (u, r)) (some st) (some cur) = none) : touchesInternal ⟨st, cur⟩ = false := by
  rcases gates_none _ _ _ _ h with ⟨_, h2, h3⟩
  have hne : (r == Role.admin) = false := by simpa using hr
  have hne' : (r != Role.admin) = true := by simp [bne, hne]
  unfold gateInternal at h2
  simp only [hne', Bool.true_and] at h2
  have hcur : (some cur == some INTERNAL) = false := by
    by_cases hc : (some cur == some INTERNAL) = true
    · simp [hc] at h2
    · simpa using hc
  have hcur' : (cur == INTERNAL) = false := by simpa using hcur
  have hnames : namesInternal st = false := by
    by_cases hn : namesInternal st = true
    · simp [hcur, hn] at h2
    · simpa using hn
  unfold gateKg at h3
  simp only [hne, Bool.false_eq_true, if_false] at h3
  have htarget : (targetKg st (some cur) == some INTERNAL) = false := by
    cases ht : targetKg st (some cur) with
    | none => rfl
    | some kg =>
      by_cases hk : kg = INTERNAL
      · subst hk
        simp [ht, hacl] at h3
      · simpa using hk
  unfold touchesInternal actsOn
  simp only [hcur', htarget, Bool.false_or]
  unfold namesInternal at hnames
  split
  · rename_i n hk he
    simp only [hk, he] at hnames
    exact hnames
  · rfl

/-- **Key lemma.** For a single-line request with a target KG `cur` (and not a `?…` carrying both a
    session id and an explicit KG), everything on the trace is *the whole-text statement, run in `cur`*,
    and the three gates passed on exactly that statement and that KG. -/
theorem exec_trace_single (P : Parser) (w : World) (rq : Req) (cur : String)
    (h1 : singleLine rq = true) (h2 : sessionQueryWithKgArg w rq = false) (h3 : curKgOf w rq = some cur) :
    ∀ e ∈ (execProgram P w rq).trace,
      e.kg = cur ∧ parseStatement P (trim rq.text) = some e.stmt ∧
      ∃ role, identityOf w rq.user = some role ∧ gates w role (some e.stmt) (some cur) = none := by
  have hnl : '\n' ∉ rq.text := by simpa [singleLine] using h1
  have hrest : ∀ role,
      ∀ e ∈ (execRest P w rq role (parseStatement P (trim rq.text)) (sessOf w rq) (some cur)).trace,
        e.kg = cur ∧ parseStatement P (trim rq.text) = some e.stmt := by
    intro role
    apply execRest_trace_single P w rq role _ _ cur rfl hnl
    · intro hq hs
      unfold sessionQueryWithKgArg at h2
      rw [hq, hs] at h2
      cases hk : rq.kgArg with
      | none => rfl
      | some k => simp [hk] at h2
    · exact h3
    · intro se hse; exact sraw_found w rq se hse
  unfold curKgOf at h3
  generalize hsraw : (sessOf w rq) = sraw at hrest h3
  unfold execProgram
  simp only [hsraw, h3]
  cases hid : identityOf w rq.user with
  | none => intro e he; simp at he
  | some role =>
    simp only []
    cases hg : gates w role (parseStatement P (trim rq.text)) (some cur) with
    | some er => intro e he; simp at he
    | none =>
      simp only []
      have fin : ∀ e : Event, e.kg = cur ∧ parseStatement P (trim rq.text) = some e.stmt →
          e.kg = cur ∧ parseStatement P (trim rq.text) = some e.stmt ∧
          ∃ role', some role = some role' ∧ gates w role' (some e.stmt) (some cur) = none := by
        intro e ⟨ha, hb⟩
        exact ⟨ha, hb, role, rfl, by rw [← hb]; exact hg⟩
      have hdot : ∀ st, (if startsWithChar '.' (trim rq.text) = true then parseStatement P (trim rq.text) else none) = some st →
          parseStatement P (trim rq.text) = some st := by
        intro st hst
        by_cases hd : startsWithChar '.' (trim rq.text) = true
        · simpa [hd] using hst
        · simp [hd] at hst
      split
      · rename_i e0 heq
        have hwhole := hdot _ heq
        cases sraw with
        | none => intro e he; simp at he
        | some se =>
          simp only []
          split
          · intro e he; simp at he
          · intro e he; simp at he; subst he; exact fin ⟨⟨_, _⟩, _⟩ ⟨rfl, hwhole⟩
      · rename_i e0 heq
        have hwhole := hdot _ heq
        split
        · intro e he; simp at he
        · intro e he; simp at he; subst he; exact fin ⟨⟨_, _⟩, _⟩ ⟨rfl, hwhole⟩
      · rename_i e0 heq
        have hwhole := hdot _ heq
        intro e he; simp at he; subst he; exact fin ⟨⟨_, _⟩, _⟩ ⟨rfl, hwhole⟩
      · rename_i kg user r heq
        have hwhole := hdot _ heq
        split
        · intro e he; simp at he
        · split
          · intro e he; simp at he
          · split
            · intro e he; simp at he
            · intro e he; simp at he; subst he; exact fin ⟨⟨_, _⟩, _⟩ ⟨rfl, hwhole⟩
      · rename_i kg user heq
        have hwhole := hdot _ heq
        split
        · intro e he; simp at he
        · split
          · intro e he; simp at he; subst he; exact fin ⟨⟨_, _⟩, _⟩ ⟨rfl, hwhole⟩
          · intro e he; simp at he
      · split
        · intro e he; simp at he
        · split
          · intro e he; simp at he
          · intro e he; exact fin e (hrest role e he)
      · intro e he; exact fin e (hrest role e he)

end ILV.Props.C27
