/-
  Helper lemmas for C27/C29 (repaired `execute_program`): every event on the trace passed the three
  gates against the KG it ran on (`Gated`), by induction over the logical lines; and what passing the
  gates implies for the Spec predicates `allowed` / `touchesInternal`.
-/
import ILV.Lemmas.C30
import ILV.Lemmas.Auth
namespace ILV.Props.C27
open ILV ILV.Text ILV.Handler ILV.Gen.C28 ILV.Spec.Access ILV.Props.C30 ILV.Props.Auth

theorem finish_trace (P : Parser) (s : QState) (tr : List Event) : (finish P s tr).trace = tr := by
  unfold finish
  split
  · rfl
  · split
    · rfl
    · split
      · rfl
      · split <;> rfl


theorem postProcess_trace (w : World) (role : Option (String × Role)) (whole : Option Stmt) (sraw : Option Sess) (r : Out) :
    (postProcess w role whole sraw r).trace = r.trace := rfl

theorem gates_none (w : World) (role : Option (String × Role)) (whole : Option Stmt) (curKg : Option String)
    (h : gates w role whole curKg = none) :
    gateGlobal role whole = none ∧ gateInternal role whole curKg = none ∧ gateKg w role whole curKg = none := by
  unfold gates at h
  cases h1 : gateGlobal role whole with
  | some e => simp [h1] at h
  | none =>
    simp only [h1] at h
    cases h2 : gateInternal role whole curKg with
    | some e => simp [h2] at h
    | none => simp only [h2] at h; exact ⟨rfl, rfl, h⟩

/-- an event that passed the three gates is allowed by the Spec -/
theorem gates_allowed (w : World) (u : String) (r : Role) (st : Stmt) (cur : String)
    (h : gates w (some (u, r)) (some st) (some cur) = none) : allowed w u r ⟨st, cur⟩ = true := by
  rcases gates_none _ _ _ _ h with ⟨h1, _, h3⟩
  unfold gateGlobal at h1
  unfold gateKg at h3
  unfold allowed actsOn
  simp only [] at h1 h3 ⊢
  by_cases hg : globalOk r st.kind = true
  · simp only [hg, Bool.true_and]
    by_cases ha : r = Role.admin
    · subst ha; simp
    · have hne : (r == Role.admin) = false := by simpa using ha
      simp only [hne, Bool.false_or, Bool.false_eq_true, if_false] at h3 ⊢
      cases ht : targetKg st (some cur) with
      | none => rfl
      | some kg =>
        simp only [ht] at h3 ⊢
        cases hk : kgRoleFor w kg u r with
        | none => simp [hk] at h3
        | some kr =>
          simp only [hk] at h3 ⊢
          by_cases hok : kgOk kr st.kind = true
          · exact hok
          · simp [hok] at h3
  · simp [hg] at h1

/-- a non-admin event that passed the gates does not touch `_internal`, provided the caller holds no
    ACL row on `_internal` itself -/
theorem gates_no_internal (w : World) (u : String) (r : Role) (st : Stmt) (cur : String)
    (hr : r ≠ Role.admin) (hacl : kgRoleFor w INTERNAL u r = none)
    (h : gates w (some (u, r)) (some st) (some cur) = none) : touchesInternal ⟨st, cur⟩ = false := by
  rcases gates_none _ _ _ _ h with ⟨_, h2, h3⟩
  have hne : (r == Role.admin) = false := by simpa using hr
  have hne' : (r != Role.admin) = true := by simp [bne, hne]
  unfold gateInternal at h2
  simp only [hne', Bool.true_and] at h2
  have hcur : (some cur == some INTERNAL) = false := by
    by_cases hc : (some cur == some INTERNAL) = true
    · simp [hc] at h2
    · simpa using hc
  have hcur' : (cur == INTERNAL) = false := by simpa using hcur
  have hnames : namesInternal st = false := by
    by_cases hn : namesInternal st = true
    · simp [hcur, hn] at h2
    · simpa using hn
  unfold gateKg at h3
  simp only [hne, Bool.false_eq_true, if_false] at h3
  have htarget : (targetKg st (some cur) == some INTERNAL) = false := by
    cases ht : targetKg st (some cur) with
    | none => rfl
    | some kg =>
      by_cases hk : kg = INTERNAL
      · subst hk
        simp [ht, hacl] at h3
      · simpa using hk
  unfold touchesInternal actsOn
  simp only [hcur', htarget, Bool.false_or]
  unfold namesInternal at hnames
  split
  · rename_i n hk he
    simp only [hk, he] at hnames
    exact hnames
  · rfl


/-- the three gates passed on this event, with the KG it ran on -/
def Gated (w : World) (role : Option (String × Role)) (e : Event) : Prop :=
  gates w role (some e.stmt) (some e.kg) = none

theorem names_contains (w : World) (n : String) : (w.kgs.map (·.name)).contains n = hasKg w n := by
  unfold hasKg
  induction w.kgs with
  | nil => rfl
  | cons k ks ih =>
    simp only [List.map_cons, List.contains_cons, List.any_cons, ih]
    congr 1
    by_cases h : n = k.name
    · subst h; simp
    · have h1 : (n == k.name) = false := by simpa using h
      have h2 : (k.name == n) = false := by simpa using fun e => h e.symm
      rw [h1, h2]

/-- **Induction over the lines.** If the pre-pass accepted the lines from a state that agrees with the
    executor, every statement the executor runs was gated against the KG it runs on. -/
theorem specRun_gated (P : Parser) (w : World) (role : Option (String × Role)) :
    ∀ (lines : List (List Char)) (s : QState) (tr : List Event) (sim : Sim),
      Inv sim s → authorizeLines P w role sim lines = none → (∀ e ∈ tr, Gated w role e) →
      ∀ e ∈ (specRun P s tr lines).2, Gated w role e := by
  intro lines
  induction lines with
  | nil => intro s tr sim _ _ htr; simpa [specRun] using htr
  | cons l ls ih =>
    intro s tr sim hi ha htr
    unfold authorizeLines at ha
    unfold specRun
    cases hp : parseStatement P l with
    | none =>
      simp only [hp] at ha ⊢
      exact ih _ tr sim (inv_same sim s _ rfl (fun _ => rfl) hi) ha htr
    | some st =>
      simp only [hp] at ha ⊢
      cases hg : gates w role (some st) sim.kg with
      | some er => simp [hg] at ha
      | none =>
        simp only [hg] at ha
        have hev : ∀ e ∈ tr ++ [⟨st, s.kg⟩], Gated w role e := by
          intro e he
          rcases List.mem_append.1 he with h1 | h1
          · exact htr e h1
          · simp at h1; subst h1
            unfold Gated; rw [← hi.1]; exact hg
        cases hap : applyStmt s l st with
        | cont s' => exact ih s' _ (simStep sim st) (applyStmt_inv s s' l st sim hap hi) ha hev
        | abort s' er => exact hev

theorem queryProgram_gated (P : Parser) (w : World) (role : Option (String × Role)) (kgArg : Option String)
    (text : List Char)
    (ha : authorizeLines P w role ⟨some (kgArg.getD "default"), w.kgs.map (·.name)⟩ (logicalLines text) = none) :
    ∀ e ∈ (queryProgram P w kgArg text).trace, Gated w role e := by
  unfold queryProgram
  simp only []
  split
  · intro e he; simp at he
  · split
    · intro e he; simp at he
    · rw [phase2_eq_specRun P (logicalLines text) _ _ (fun l hl => logicalLines_trimmed text l hl)]
      have hi : Inv ⟨some (kgArg.getD "default"), w.kgs.map (·.name)⟩ ⟨w, kgArg.getD "default", [], none, none, [], []⟩ :=
        ⟨rfl, fun n => names_contains w n⟩
      have key := specRun_gated P w role (logicalLines text) _ [] _ hi ha (by intro e he; simp at he)
      rcases hsr : specRun P ⟨w, kgArg.getD "default", [], none, none, [], []⟩ [] (logicalLines text) with ⟨stp, tr⟩
      rw [hsr] at key
      cases stp with
      | cont s' => intro e he; rw [finish_trace] at he; exact key e he
      | abort s' er => intro e he; exact key e he

/-- what acceptance by the pre-pass gives for a one-statement program -/
theorem authorize_single (P : Parser) (w : World) (role : Option (String × Role)) (start : String) (text : List Char)
    (st : Stmt) (ha : authorizeLines P w role ⟨some start, w.kgs.map (·.name)⟩ (logicalLines text) = none)
    (hs : singleStmt P text = some st) : Gated w role ⟨st, start⟩ := by
  unfold singleStmt at hs
  split at hs
  · rename_i l hl
    rw [hl] at ha
    unfold authorizeLines at ha
    rw [hs] at ha
    simp only [] at ha
    cases hg : gates w role (some st) (some start) with
    | none => exact hg
    | some er => simp [hg] at ha
  · cases hs

theorem fastPath_trace (w : World) (sraw : Option Sess) (single : Option Stmt) (cur : String) (o : Out)
    (h : fastPath w sraw single cur = some o) : ∀ e ∈ o.trace, e.kg = cur ∧ single = some e.stmt := by
  unfold fastPath at h
  simp only [] at h
  split at h
  · split at h
    · cases h; intro e he; simp at he
    · split at h
      · cases h; intro e he; simp at he
      · cases h; intro e he; simp at he; subst he; exact ⟨rfl, rfl⟩
  · split at h
    · cases h; intro e he; simp at he
    · cases h; intro e he; simp at he; subst he; exact ⟨rfl, rfl⟩
  · cases h; intro e he; simp at he; subst he; exact ⟨rfl, rfl⟩
  · split at h
    · cases h; intro e he; simp at he
    · split at h
      · cases h; intro e he; simp at he
      · split at h
        · cases h; intro e he; simp at he
        · cases h; intro e he; simp at he; subst he; exact ⟨rfl, rfl⟩
  · split at h
    · cases h; intro e he; simp at he
    · split at h
      · cases h; intro e he; simp at he; subst he; exact ⟨rfl, rfl⟩
      · cases h; intro e he; simp at he
  · split at h
    · cases h; intro e he; simp at he
    · split at h
      · cases h; intro e he; simp at he
      · cases h
  · cases h

theorem sessionIntercept_trace (w : World) (sraw : Option Sess) (whole : Option Stmt) (cur : String) (o : Out)
    (h : sessionIntercept w sraw whole (some cur) = some o) : ∀ e ∈ o.trace, e.kg = cur ∧ whole = some e.stmt := by
  unfold sessionIntercept at h
  split at h
  · split at h
    · cases h; intro e he; simp at he
    · split at h
      · cases h; intro e he; simp at he
      · cases h; intro e he; simp at he; subst he; exact ⟨rfl, rfl⟩
  · split at h
    · cases h; intro e he; simp at he
    · split at h
      · cases h; intro e he; simp at he
      · cases h; intro e he; simp at he; subst he; exact ⟨rfl, rfl⟩
  · cases h; intro e he; simp at he
  · cases h; intro e he; simp at he
  · cases h; intro e he; simp at he
  · cases h

theorem queryWithSession_gated (P : Parser) (w : World) (role : Option (String × Role)) (text : List Char)
    (se : Sess) (hf : findSess w se.user = some se)
    (ha : authorizeLines P w role ⟨some (if se.closed then "default" else se.kg), w.kgs.map (·.name)⟩ (logicalLines text) = none) :
    ∀ e ∈ (queryWithSession P w se.user text).trace, Gated w role e := by
  unfold queryWithSession
  rw [hf]
  simp only []
  by_cases hc : se.closed = true
  · simp only [hc, if_true] at ha ⊢
    exact queryProgram_gated P w role none text ha
  · have hc' : se.closed = false := by simpa using hc
    simp only [hc', Bool.false_eq_true, if_false] at ha ⊢
    split
    · exact queryProgram_gated P w role (some se.kg) text ha
    · split
      · intro e he; simp at he
      · split
        · intro e he; simp at he
        · split
          · rename_i l hl
            split
            · intro e he; simp at he
            · split
              · rename_i rel n hp
                intro e he
                simp at he; subst he
                rw [hl] at ha
                unfold authorizeLines at ha
                rw [hp] at ha
                simp only [] at ha
                cases hg : gates w role (some ⟨.query, .query rel n⟩) (some se.kg) with
                | none => exact hg
                | some er => simp [hg] at ha
              · intro e he; simp at he
          · intro e he; simp at he

/-- the start KG of the pre-pass is the KG the query path starts on -/
theorem queryPath_gated (P : Parser) (w : World) (rq : Req) (role : Option (String × Role)) (whole : Option Stmt)
    (sraw : Option Sess) (hsr : ∀ se, sraw = some se → findSess w se.user = some se)
    (ha : authorizeLines P w role ⟨some (startKgOf rq sraw), w.kgs.map (·.name)⟩ (logicalLines rq.text) = none) :
    ∀ e ∈ (queryPath P w rq role whole sraw).trace, Gated w role e := by
  unfold queryPath
  cases heff : effectiveKg rq.kgArg sraw with
  | none => intro e he; simp at he
  | some effKg =>
    simp only []
    intro e he
    rw [postProcess_trace] at he
    unfold startKgOf at ha
    simp only [] at ha
    cases hq : startsWithChar '?' (trim rq.text) with
    | true =>
      cases hs : sraw with
      | some se =>
        simp only [hq, hs] at he
        simp only [hq, hs, Option.isSome_some, Bool.and_self, if_true] at ha
        have hstart : ((Option.filter (fun x => !x.closed) (some se)).map (·.kg)).getD "default" = (if se.closed then "default" else se.kg) := by
          by_cases hc : se.closed = true <;> simp [Option.filter, hc]
        rw [hstart] at ha
        exact queryWithSession_gated P w role rq.text se (hsr se hs) ha e he
      | none =>
        simp only [hq, hs] at he
        simp only [hq, hs, Option.isSome_none, Bool.and_false, Bool.false_eq_true, if_false] at ha
        unfold effectiveKg at heff
        rw [hs] at heff
        cases hk : rq.kgArg with
        | some k =>
          simp only [hk] at heff ha; cases heff
          exact queryProgram_gated P w role (some k) rq.text (by simpa using ha) e he
        | none =>
          simp only [hk] at heff ha; cases heff
          exact queryProgram_gated P w role none rq.text (by simpa [Option.filter] using ha) e he
    | false =>
      simp only [hq] at he
      simp only [hq, Bool.false_and, Bool.false_eq_true, if_false] at ha
      unfold effectiveKg at heff
      cases hk : rq.kgArg with
      | some k =>
        simp only [hk] at heff ha; cases heff
        exact queryProgram_gated P w role (some k) rq.text (by simpa using ha) e he
      | none =>
        cases hs : sraw with
        | none =>
          simp only [hk, hs] at heff ha; cases heff
          exact queryProgram_gated P w role none rq.text (by simpa [Option.filter] using ha) e he
        | some se =>
          simp only [hk, hs] at heff ha
          by_cases hc : se.closed = true
          · simp [hc] at heff
          · have hc' : se.closed = false := by simpa using hc
            simp only [hc', Bool.false_eq_true, if_false] at heff; cases heff
            exact queryProgram_gated P w role (some se.kg) rq.text (by simpa [Option.filter, hc'] using ha) e he

theorem authorizeProgram_none (P : Parser) (w : World) (role : Option (String × Role)) (start : Option String)
    (lines : List (List Char)) (h : authorizeProgram P w role start lines = none) :
    authorizeLines P w role ⟨start, w.kgs.map (·.name)⟩ lines = none := by
  unfold authorizeProgram at h
  cases hg : gateInternal role none start with
  | some e => simp [hg] at h
  | none => simpa [hg] using h

/-- **Every statement `execute_program` runs passed the three gates against the KG it ran on** — for all
    grammars, states, identities, sessions, KG arguments and program texts. -/
theorem exec_gated (P : Parser) (w : World) (rq : Req) :
    ∀ e ∈ (execProgram P w rq).trace, ∃ role, identityOf w rq.user = some role ∧ Gated w role e := by
  unfold execProgram
  cases hid : identityOf w rq.user with
  | none => intro e he; simp at he
  | some role =>
    simp only []
    cases hap : authorizeProgram P w role (some (startKgOf rq (sessOf w rq))) (logicalLines rq.text) with
    | some er => intro e he; simp at he
    | none =>
      simp only []
      have ha := authorizeProgram_none P w role _ _ hap
      have hsingle : ∀ e : Event, e.kg = startKgOf rq (sessOf w rq) ∧ singleStmt P rq.text = some e.stmt → Gated w role e := by
        intro e ⟨hk, hs⟩
        have := authorize_single P w role _ rq.text e.stmt ha hs
        unfold Gated at this ⊢; rw [hk]; exact this
      cases hfp : fastPath w (sessOf w rq) (singleStmt P rq.text) (startKgOf rq (sessOf w rq)) with
      | some o =>
        intro e he
        exact ⟨role, rfl, hsingle e (fastPath_trace _ _ _ _ o hfp e he)⟩
      | none =>
        simp only []
        intro e he
        refine ⟨role, rfl, ?_⟩
        unfold execRest at he
        cases hsi : sessionIntercept w (sessOf w rq) (singleStmt P rq.text) (some (startKgOf rq (sessOf w rq))) with
        | some o =>
          rw [hsi] at he
          exact hsingle e (sessionIntercept_trace _ _ _ _ o hsi e he)
        | none =>
          rw [hsi] at he
          exact queryPath_gated P w rq role _ (sessOf w rq) (fun se hse => sraw_found w rq se hse) ha e he

end ILV.Props.C27
