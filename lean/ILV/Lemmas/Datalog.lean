/-
  Lemmas about the Datalog core (ILV.Model.Datalog): membership characterisations of the list
  utilities, and the congruence of clause evaluation under set-equal relation contents
  (aggregate-free rules). Used by Props/C01, C04, C07.
-/
import ILV.Model.Engine
namespace ILV.DL

/-- same members (lists as sets). -/
def MemEq {α} (a b : List α) : Prop := ∀ t, t ∈ a ↔ t ∈ b

theorem MemEq.refl {α} (a : List α) : MemEq a a := fun _ => Iff.rfl
theorem MemEq.symm {α} {a b : List α} (h : MemEq a b) : MemEq b a := fun t => (h t).symm
theorem MemEq.trans {α} {a b c : List α} (h : MemEq a b) (g : MemEq b c) : MemEq a c :=
  fun t => (h t).trans (g t)

theorem MemEq.map {α β} (f : α → β) {a b : List α} (h : MemEq a b) : MemEq (a.map f) (b.map f) := by
  intro t; simp only [List.mem_map]
  constructor <;> rintro ⟨x, hx, rfl⟩
  · exact ⟨x, (h x).1 hx, rfl⟩
  · exact ⟨x, (h x).2 hx, rfl⟩

theorem MemEq.filter {α} {p q : α → Bool} {a b : List α} (h : MemEq a b) (hp : ∀ x, p x = q x) :
    MemEq (a.filter p) (b.filter q) := by
  intro t; simp only [List.mem_filter, hp, h t]

theorem MemEq.flatMap {α β} {f g : α → List β} {a b : List α} (h : MemEq a b)
    (hf : ∀ x, MemEq (f x) (g x)) : MemEq (a.flatMap f) (b.flatMap g) := by
  intro t; simp only [List.mem_flatMap]
  constructor <;> rintro ⟨x, hx, ht⟩
  · exact ⟨x, (h x).1 hx, (hf x t).1 ht⟩
  · exact ⟨x, (h x).2 hx, (hf x t).2 ht⟩

theorem MemEq.filterMap {α β} (f : α → Option β) {a b : List α} (h : MemEq a b) :
    MemEq (a.filterMap f) (b.filterMap f) := by
  intro t; simp only [List.mem_filterMap]
  constructor <;> rintro ⟨x, hx, ht⟩
  · exact ⟨x, (h x).1 hx, ht⟩
  · exact ⟨x, (h x).2 hx, ht⟩

/-! ### list utilities -/

theorem mem_dedupT {t : Tuple} : ∀ {l : List Tuple}, t ∈ dedupT l ↔ t ∈ l
  | [] => by simp [dedupT]
  | x :: xs => by
    unfold dedupT
    split
    · rename_i hc
      have hx : x ∈ xs := List.contains_iff_mem.1 hc
      rw [mem_dedupT (l := xs)]
      constructor
      · exact fun h => List.mem_cons_of_mem _ h
      · intro h; rcases List.mem_cons.1 h with rfl | h
        · exact hx
        · exact h
    · simp only [List.mem_cons, mem_dedupT (l := xs)]

theorem mem_unionT {t : Tuple} {a b : List Tuple} : t ∈ unionT a b ↔ t ∈ a ∨ t ∈ b := by
  unfold unionT
  simp only [List.mem_append, List.mem_filter, Bool.not_eq_true', ← Bool.not_eq_true, List.contains_iff_mem]
  constructor
  · rintro (h | ⟨h, _⟩)
    · exact Or.inl h
    · exact Or.inr h
  · intro h
    by_cases ha : t ∈ a
    · exact Or.inl ha
    · rcases h with h | h
      · exact absurd h ha
      · exact Or.inr ⟨h, ha⟩

theorem subsetT_iff {a b : List Tuple} : subsetT a b = true ↔ ∀ t, t ∈ a → t ∈ b := by
  simp [subsetT, List.all_eq_true]

theorem sameSet_iff {a b : List Tuple} : sameSet a b = true ↔ MemEq a b := by
  simp only [sameSet, Bool.and_eq_true, subsetT_iff, MemEq]
  constructor
  · rintro ⟨h1, h2⟩ t; exact ⟨h1 t, h2 t⟩
  · intro h; exact ⟨fun t => (h t).1, fun t => (h t).2⟩

/-! ### `optMapM` -/

theorem optMapM_none_iff {α β} (f : α → Option β) : ∀ (l : List α), optMapM f l = none ↔ ∃ a, a ∈ l ∧ f a = none
  | [] => by simp [optMapM]
  | x :: xs => by
    have ih := optMapM_none_iff f xs
    unfold optMapM
    cases hx : f x <;> cases hr : optMapM f xs <;> simp_all

theorem optMapM_some_mem {α β} (f : α → Option β) : ∀ (l : List α) (r : List β), optMapM f l = some r →
    ∀ b, b ∈ r ↔ ∃ a, a ∈ l ∧ f a = some b
  | [], r, h => by simp [optMapM] at h; subst h; simp
  | x :: xs, r, h => by
    unfold optMapM at h
    cases hx : f x <;> cases hr : optMapM f xs <;> simp [hx, hr] at h
    subst h
    have ih := optMapM_some_mem f xs _ hr
    intro b
    simp only [List.mem_cons, ih b]
    constructor
    · rintro (rfl | ⟨a, ha, hb⟩)
      · exact ⟨x, Or.inl rfl, hx⟩
      · exact ⟨a, Or.inr ha, hb⟩
    · rintro ⟨a, rfl | ha, hb⟩
      · rw [hx] at hb; exact Or.inl (Option.some.inj hb).symm
      · exact Or.inr ⟨a, ha, hb⟩

/-- equality of optional lists up to membership. -/
def OptMemEq {α} : Option (List α) → Option (List α) → Prop
  | none, none => True
  | some x, some y => MemEq x y
  | _, _ => False

theorem OptMemEq.refl {α} (a : Option (List α)) : OptMemEq a a := by
  cases a <;> simp [OptMemEq, MemEq.refl]

theorem optMapM_memEq {α β} (f : α → Option β) {a b : List α} (h : MemEq a b) :
    OptMemEq (optMapM f a) (optMapM f b) := by
  cases ha : optMapM f a <;> cases hb : optMapM f b
  · trivial
  · obtain ⟨x, hx, hfx⟩ := (optMapM_none_iff f a).1 ha
    have : optMapM f b = none := (optMapM_none_iff f b).2 ⟨x, (h x).1 hx, hfx⟩
    rw [hb] at this; cases this
  · obtain ⟨x, hx, hfx⟩ := (optMapM_none_iff f b).1 hb
    have : optMapM f a = none := (optMapM_none_iff f a).2 ⟨x, (h x).2 hx, hfx⟩
    rw [ha] at this; cases this
  · intro t
    rw [optMapM_some_mem f a _ ha t, optMapM_some_mem f b _ hb t]
    constructor <;> rintro ⟨x, hx, hfx⟩
    · exact ⟨x, (h x).1 hx, hfx⟩
    · exact ⟨x, (h x).2 hx, hfx⟩

/-! ### clause evaluation only sees the *set* of tuples of each scanned relation -/

theorem evalPos_memEq (lk1 lk2 : String → List Tuple) : ∀ (atoms : List Atom),
    (∀ a, a ∈ atoms → MemEq (lk1 a.rel) (lk2 a.rel)) →
    ∀ envs1 envs2, MemEq envs1 envs2 → MemEq (evalPos lk1 atoms envs1) (evalPos lk2 atoms envs2)
  | [], _, _, _, h => by simpa [evalPos] using h
  | a :: as, hA, envs1, envs2, h => by
    unfold evalPos
    apply evalPos_memEq lk1 lk2 as (fun b hb => hA b (List.mem_cons_of_mem _ hb))
    apply MemEq.flatMap h
    intro env
    exact MemEq.filterMap _ (hA a (List.mem_cons_self ..))

theorem negHolds_congr (lk1 lk2 : String → List Tuple) (a : Atom) (env : Env)
    (h : MemEq (lk1 a.rel) (lk2 a.rel)) : negHolds lk1 a env = negHolds lk2 a env := by
  unfold negHolds
  rw [Bool.eq_iff_iff]
  simp only [List.all_eq_true]
  constructor
  · intro g t ht; exact g t ((h t).2 ht)
  · intro g t ht; exact g t ((h t).1 ht)

theorem evalNegs_memEq (lk1 lk2 : String → List Tuple) (negs : List Atom)
    (hN : ∀ a, a ∈ negs → MemEq (lk1 a.rel) (lk2 a.rel)) {envs1 envs2 : List Env} (h : MemEq envs1 envs2) :
    MemEq (evalNegs lk1 negs envs1) (evalNegs lk2 negs envs2) := by
  unfold evalNegs
  apply MemEq.filter h
  intro env
  rw [Bool.eq_iff_iff]
  simp only [List.all_eq_true]
  constructor
  · intro g a ha; rw [← negHolds_congr lk1 lk2 a env (hN a ha)]; exact g a ha
  · intro g a ha; rw [negHolds_congr lk1 lk2 a env (hN a ha)]; exact g a ha

theorem specCmps_memEq (cs : List Cmp) {envs1 envs2 : List Env} (h : MemEq envs1 envs2) :
    MemEq (specCmps cs envs1) (specCmps cs envs2) := by
  unfold specCmps
  exact MemEq.filter (MemEq.filter (MemEq.map _ h) (fun _ => rfl)) (fun _ => rfl)

theorem mem_dedupS {t : String} : ∀ {l : List String}, t ∈ dedupS l ↔ t ∈ l
  | [] => by simp [dedupS]
  | x :: xs => by
    unfold dedupS
    split
    · rename_i hc
      have hx : x ∈ xs := List.contains_iff_mem.1 hc
      rw [mem_dedupS (l := xs)]
      constructor
      · exact fun h => List.mem_cons_of_mem _ h
      · intro h; rcases List.mem_cons.1 h with rfl | h
        · exact hx
        · exact h
    · simp only [List.mem_cons, mem_dedupS (l := xs)]

theorem mem_posAtoms_scans {r : Rule} {a : Atom} (h : a ∈ r.posAtoms) : a.rel ∈ r.scans := by
  unfold Rule.posAtoms at h
  unfold Rule.scans
  rw [mem_dedupS]
  simp only [List.mem_filterMap] at h ⊢
  obtain ⟨l, hl, hla⟩ := h
  refine ⟨l, hl, ?_⟩
  cases l <;> simp_all [Lit.atom?]

theorem mem_negAtoms_scans {r : Rule} {a : Atom} (h : a ∈ r.negAtoms) : a.rel ∈ r.scans := by
  unfold Rule.negAtoms at h
  unfold Rule.scans
  rw [mem_dedupS]
  simp only [List.mem_filterMap] at h ⊢
  obtain ⟨l, hl, hla⟩ := h
  refine ⟨l, hl, ?_⟩
  cases l <;> simp_all [Lit.atom?]

/-- lookups that agree as sets on the relations a rule scans. -/
def AgreeOn (rels : List String) (lk1 lk2 : String → List Tuple) : Prop :=
  ∀ r, r ∈ rels → MemEq (lk1 r) (lk2 r)

theorem bodyEnvs_memEq {lk1 lk2 : String → List Tuple} (r : Rule) (h : AgreeOn r.scans lk1 lk2) :
    MemEq (bodyEnvs lk1 r) (bodyEnvs lk2 r) := by
  unfold bodyEnvs
  apply evalNegs_memEq lk1 lk2 _ (fun a ha => h _ (mem_negAtoms_scans ha))
  apply specCmps_memEq
  exact evalPos_memEq lk1 lk2 _ (fun a ha => h _ (mem_posAtoms_scans ha)) _ _ (MemEq.refl _)

theorem evalRuleLk_memEq {lk1 lk2 : String → List Tuple} (r : Rule) (hagg : r.hasAgg = false)
    (h : AgreeOn r.scans lk1 lk2) : OptMemEq (evalRuleLk lk1 r) (evalRuleLk lk2 r) := by
  unfold evalRuleLk headOfSpec
  simp only [hagg, Bool.false_eq_true, if_false]
  exact optMapM_memEq _ (bodyEnvs_memEq r h)

theorem evalRulesWith_memEq (ev1 ev2 : Rule → Option (List Tuple)) : ∀ (rs : List Rule),
    (∀ r, r ∈ rs → OptMemEq (ev1 r) (ev2 r)) → OptMemEq (evalRulesWith ev1 rs) (evalRulesWith ev2 rs)
  | [], _ => by simp [evalRulesWith, OptMemEq, MemEq]
  | r :: rs, h => by
    have h1 := h r (List.mem_cons_self ..)
    have h2 := evalRulesWith_memEq ev1 ev2 rs (fun x hx => h x (List.mem_cons_of_mem _ hx))
    unfold evalRulesWith
    cases e1 : ev1 r <;> cases e2 : ev2 r <;> rw [e1, e2] at h1 <;> simp only [OptMemEq] at h1
    · cases evalRulesWith ev1 rs <;> cases evalRulesWith ev2 rs <;> trivial
    · cases r1 : evalRulesWith ev1 rs <;> cases r2 : evalRulesWith ev2 rs <;> rw [r1, r2] at h2 <;>
        simp only [OptMemEq] at h2 ⊢
      intro t
      simp only [mem_unionT, mem_dedupT, h1 t, h2 t]

theorem evalRulesWith_none_iff (ev : Rule → Option (List Tuple)) : ∀ (rs : List Rule),
    evalRulesWith ev rs = none ↔ ∃ r, r ∈ rs ∧ ev r = none
  | [] => by simp [evalRulesWith]
  | r :: rs => by
    have ih := evalRulesWith_none_iff ev rs
    unfold evalRulesWith
    cases hr : ev r <;> cases hs : evalRulesWith ev rs <;> simp_all

theorem evalRulesWith_some_mem (ev : Rule → Option (List Tuple)) : ∀ (rs : List Rule) (ts : List Tuple),
    evalRulesWith ev rs = some ts → ∀ t, t ∈ ts ↔ ∃ r a, r ∈ rs ∧ ev r = some a ∧ t ∈ a
  | [], ts, h => by simp [evalRulesWith] at h; subst h; simp
  | r :: rs, ts, h => by
    unfold evalRulesWith at h
    cases hr : ev r <;> cases hs : evalRulesWith ev rs <;> simp [hr, hs] at h
    subst h
    have ih := evalRulesWith_some_mem ev rs _ hs
    intro t
    simp only [mem_unionT, mem_dedupT, ih t, List.mem_cons]
    constructor
    · rintro (h | ⟨r', a, hr', he, ht⟩)
      · exact ⟨r, _, Or.inl rfl, hr, h⟩
      · exact ⟨r', a, Or.inr hr', he, ht⟩
    · rintro ⟨r', a, rfl | hr', he, ht⟩
      · rw [hr] at he; cases he; exact Or.inl ht
      · exact Or.inr ⟨r', a, hr', he, ht⟩

/-- the union of rule results only depends on the *set* of rules (order and repetition are
    irrelevant). -/
theorem evalRulesWith_sameRules (ev : Rule → Option (List Tuple)) {rs rs' : List Rule}
    (h : ∀ r, r ∈ rs ↔ r ∈ rs') : OptMemEq (evalRulesWith ev rs) (evalRulesWith ev rs') := by
  cases h1 : evalRulesWith ev rs <;> cases h2 : evalRulesWith ev rs'
  · trivial
  · obtain ⟨r, hr, he⟩ := (evalRulesWith_none_iff ev rs).1 h1
    have := (evalRulesWith_none_iff ev rs').2 ⟨r, (h r).1 hr, he⟩
    rw [h2] at this; cases this
  · obtain ⟨r, hr, he⟩ := (evalRulesWith_none_iff ev rs').1 h2
    have := (evalRulesWith_none_iff ev rs).2 ⟨r, (h r).2 hr, he⟩
    rw [h1] at this; cases this
  · intro t
    rw [evalRulesWith_some_mem ev rs _ h1 t, evalRulesWith_some_mem ev rs' _ h2 t]
    constructor <;> rintro ⟨r, a, hr, he, ht⟩
    · exact ⟨r, a, (h r).1 hr, he, ht⟩
    · exact ⟨r, a, (h r).2 hr, he, ht⟩

theorem OptMemEq.trans {α} {a b c : Option (List α)} (h : OptMemEq a b) (g : OptMemEq b c) : OptMemEq a c := by
  cases a <;> cases b <;> cases c <;> simp only [OptMemEq] at h g ⊢
  exact MemEq.trans h g

theorem OptMemEq.symm {α} {a b : Option (List α)} (h : OptMemEq a b) : OptMemEq b a := by
  cases a <;> cases b <;> simp only [OptMemEq] at h ⊢
  exact MemEq.symm h

theorem mem_scansOf {p : Program} {h : String} {r : Rule} {x : String}
    (hr : r ∈ clausesOf p h) (hx : x ∈ r.scans) : x ∈ scansOf p h := by
  unfold scansOf
  rw [mem_dedupS, List.mem_flatMap]
  exact ⟨r, hr, hx⟩

/-- the rules of one head see only the set of tuples of each relation the head scans. -/
theorem evalRules_memEq {p : Program} {h : String} {lk1 lk2 : String → List Tuple}
    (hagg : ∀ r, r ∈ p → r.hasAgg = false)
    (hA : AgreeOn (scansOf p h) lk1 lk2) :
    OptMemEq (evalRules lk1 (clausesOf p h)) (evalRules lk2 (clausesOf p h)) := by
  unfold evalRules
  apply evalRulesWith_memEq
  intro r hr
  apply evalRuleLk_memEq r (hagg r (List.mem_filter.1 hr).1)
  intro x hx
  exact hA x (mem_scansOf hr hx)

end ILV.DL
