/-
  Helper lemmas about the IR denotation: projections, predicates as functions of the referenced
  columns, `excluding`, bags, and row arities of well-formed trees.
-/
import ILV.Model.IRWF
namespace ILV.IR
open ILV

@[simp] theorem filter_const_true {α} (l : List α) : l.filter (fun _ => true) = l := by
  induction l <;> simp_all

theorem allLt_iff {l : List Nat} {n : Nat} : allLt l n = true ↔ ∀ i ∈ l, i < n := by
  simp [allLt]

/-! ### projections -/

theorem project_nil (t : Tuple) : project t [] = [] := rfl

theorem project_cons_lt (t : Tuple) (i : Nat) (idx : List Nat) (h : i < t.length) :
    project t (i :: idx) = t[i] :: project t idx := by
  simp [project, List.getElem?_eq_getElem h]

theorem project_length {t : Tuple} {idx : List Nat} (h : ∀ i ∈ idx, i < t.length) :
    (project t idx).length = idx.length := by
  induction idx with
  | nil => rfl
  | cons i idx ih =>
    have hi : i < t.length := h i (by simp)
    rw [project_cons_lt t i idx hi]
    simp [ih (fun j hj => h j (by simp [hj]))]

theorem project_getElem? {t : Tuple} {idx : List Nat} (h : ∀ i ∈ idx, i < t.length) (o : Nat) :
    (project t idx)[o]? = (idx[o]?).bind (fun i => t[i]?) := by
  induction idx generalizing o with
  | nil => simp [project]
  | cons i idx ih =>
    have hi : i < t.length := h i (by simp)
    rw [project_cons_lt t i idx hi]
    cases o with
    | zero => simp [List.getElem?_eq_getElem hi]
    | succ o => simpa using ih (fun j hj => h j (by simp [hj])) o

theorem project_project {t : Tuple} {ip op : List Nat} (h1 : ∀ i ∈ ip, i < t.length) (h2 : ∀ o ∈ op, o < ip.length) :
    project (project t ip) op = project t (op.map (fun o => ip.getD o 0)) := by
  induction op with
  | nil => rfl
  | cons o op ih =>
    have ho : o < ip.length := h2 o (by simp)
    have ih := ih (fun x hx => h2 x (by simp [hx]))
    unfold project at ih ⊢
    simp only [List.filterMap_cons, List.map_cons]
    have e := project_getElem? h1 o
    unfold project at e
    rw [e, ← ih]
    simp [List.getElem?_eq_getElem ho, List.getD_eq_getElem?_getD]

theorem project_range_le (t : Tuple) (n : Nat) (h : n ≤ t.length) : project t (List.range n) = t.take n := by
  induction n with
  | zero => simp [project]
  | succ n ih =>
    have hn : n < t.length := h
    rw [List.range_succ]
    unfold project at ih ⊢
    rw [List.filterMap_append, ih (Nat.le_of_lt hn), List.take_add_one]
    simp [List.getElem?_eq_getElem hn]

theorem project_range (t : Tuple) : project t (List.range t.length) = t := by
  rw [project_range_le t _ (Nat.le_refl _)]; simp

theorem project_append_left {l x : Tuple} {idx : List Nat} (h : ∀ i ∈ idx, i < l.length) :
    project (l ++ x) idx = project l idx := by
  induction idx with
  | nil => rfl
  | cons i idx ih =>
    have ih := ih (fun j hj => h j (by simp [hj]))
    unfold project at ih ⊢
    simp only [List.filterMap_cons, ih, List.getElem?_append_left (h i (by simp))]

/-! ### predicates depend only on the referenced columns -/

theorem lookup_mem_snd {vm : VarMap} {n : String} {c : Nat} (h : vm.lookup n = some c) : c ∈ vm.map (·.2) := by
  induction vm with
  | nil => simp at h
  | cons a vm ih =>
    obtain ⟨k, v⟩ := a
    simp only [List.lookup_cons] at h
    split at h
    · simp at h; simp [h]
    · simp [ih h]

theorem AExpr.eval_congr {g g' : Nat → Option Value} {vm : VarMap} (h : ∀ c ∈ vm.map (·.2), g c = g' c) :
    ∀ e : AExpr, AExpr.eval g vm e = AExpr.eval g' vm e
  | .const _ => rfl
  | .fconst _ => rfl
  | .var n => by
    simp only [AExpr.eval]
    cases hl : vm.lookup n with
    | none => rfl
    | some c => simp [h c (lookup_mem_snd hl)]
  | .bin op l r => by
    simp only [AExpr.eval, AExpr.eval_congr h l, AExpr.eval_congr h r]

theorem Pred.evalG_congr {g g' : Nat → Option Value} : ∀ p : Pred, (∀ c ∈ p.cols, g c = g' c) → p.evalG g = p.evalG g'
  | .cc _ c _, h => by simp [Pred.evalG, h c (by simp [Pred.cols])]
  | .cs _ c _, h => by simp [Pred.evalG, h c (by simp [Pred.cols])]
  | .cb _ c _, h => by simp [Pred.evalG, h c (by simp [Pred.cols])]
  | .cf _ c _, h => by simp [Pred.evalG, h c (by simp [Pred.cols])]
  | .kk _ l r, h => by simp [Pred.evalG, h l (by simp [Pred.cols]), h r (by simp [Pred.cols])]
  | .ca c _ e vm, h => by
    have h1 := AExpr.eval_congr (g := g) (g' := g') (vm := vm) (fun x hx => h x (by simp [Pred.cols]; right; simpa using hx)) e
    simp [Pred.evalG, h c (by simp [Pred.cols]), h1]
  | .ac e _ _ vm, h => by
    have h1 := AExpr.eval_congr (g := g) (g' := g') (vm := vm) (fun x hx => h x (by simp [Pred.cols]; simpa using hx)) e
    simp [Pred.evalG, h1]
  | .and p q, h => by
    simp [Pred.evalG, Pred.evalG_congr p (fun c hc => h c (by simp [Pred.cols, hc])),
      Pred.evalG_congr q (fun c hc => h c (by simp [Pred.cols, hc]))]
  | .or p q, h => by
    simp [Pred.evalG, Pred.evalG_congr p (fun c hc => h c (by simp [Pred.cols, hc])),
      Pred.evalG_congr q (fun c hc => h c (by simp [Pred.cols, hc]))]
  | .tt, _ => rfl
  | .ff, _ => rfl

theorem lookup_map_snd (f : Nat → Nat) (vm : VarMap) (n : String) :
    (vm.map (fun (x : String × Nat) => (x.1, f x.2))).lookup n = (vm.lookup n).map f := by
  induction vm with
  | nil => rfl
  | cons a vm ih =>
    obtain ⟨k, v⟩ := a
    simp only [List.map_cons, List.lookup_cons]
    split <;> simp_all

theorem AExpr.eval_mapCols (g : Nat → Option Value) (f : Nat → Nat) (vm : VarMap) :
    ∀ e : AExpr, AExpr.eval g (vm.map (fun (x : String × Nat) => (x.1, f x.2))) e = AExpr.eval (fun c => g (f c)) vm e
  | .const _ => rfl
  | .fconst _ => rfl
  | .var n => by
    simp only [AExpr.eval, lookup_map_snd]
    cases vm.lookup n <;> rfl
  | .bin op l r => by
    simp only [AExpr.eval, AExpr.eval_mapCols g f vm l, AExpr.eval_mapCols g f vm r]

theorem Pred.evalG_mapCols (g : Nat → Option Value) (f : Nat → Nat) :
    ∀ p : Pred, (p.mapCols f).evalG g = p.evalG (fun c => g (f c))
  | .cc .. => rfl
  | .cs .. => rfl
  | .cb .. => rfl
  | .cf .. => rfl
  | .kk .. => rfl
  | .ca c op e vm => by
    have := AExpr.eval_mapCols g f vm e
    simp only [Pred.mapCols, Pred.evalG] at this ⊢
    rw [this]
  | .ac e op v vm => by
    have := AExpr.eval_mapCols g f vm e
    simp only [Pred.mapCols, Pred.evalG] at this ⊢
    rw [this]
  | .and p q => by simp [Pred.mapCols, Pred.evalG, Pred.evalG_mapCols g f p, Pred.evalG_mapCols g f q]
  | .or p q => by simp [Pred.mapCols, Pred.evalG, Pred.evalG_mapCols g f p, Pred.evalG_mapCols g f q]
  | .tt => rfl
  | .ff => rfl

theorem Pred.eval_append_left {p : Pred} {l x : Tuple} (h : ∀ c ∈ p.cols, c < l.length) :
    p.eval (l ++ x) = p.eval l := by
  unfold Pred.eval
  apply Pred.evalG_congr
  intro c hc
  simp [List.getElem?_append_left (h c hc)]

/-! ### `excluding` -/

theorem excludingAux_length (ex : List Nat) (i : Nat) (vs : Tuple) :
    (excludingAux ex i vs).length = keptCount ex i vs.length := by
  induction vs generalizing i with
  | nil => rfl
  | cons v vs ih =>
    simp only [excludingAux, List.length_cons, keptCount]
    split <;> simp [ih, Nat.add_comm]

theorem excludingAux_getElem? (ex : List Nat) (i : Nat) (vs : Tuple) (c : Nat) (h : ∀ k ∈ ex, i + c < k) :
    (excludingAux ex i vs)[c]? = vs[c]? := by
  induction vs generalizing i c with
  | nil => rfl
  | cons v vs ih =>
    have hi : ex.contains i = false := by
      cases hc : ex.contains i with
      | false => rfl
      | true =>
        have := h i (by simpa using hc)
        omega
    simp only [excludingAux, hi]
    cases c with
    | zero => simp
    | succ c =>
      simp only [Bool.false_eq_true, ↓reduceIte, List.getElem?_cons_succ]
      exact ih (i + 1) c (fun k hk => by have := h k hk; omega)

/-! ### bags -/

theorem mem_dedup {x : Tuple} {l : List Tuple} : x ∈ dedup l ↔ x ∈ l := by
  induction l with
  | nil => simp [dedup]
  | cons y ys ih =>
    simp only [dedup]
    split
    · rename_i h
      constructor
      · intro hx; exact List.mem_cons_of_mem _ (ih.1 hx)
      · intro hx
        rcases List.mem_cons.1 hx with rfl | hx
        · exact ih.2 h
        · exact ih.2 hx
    · simp [ih]

theorem filter_flatMap_of {α β} (L : List α) (F : α → List β) (f : α → Bool) (g : β → Bool)
    (h : ∀ l ∈ L, ∀ x ∈ F l, g x = f l) : (L.filter f).flatMap F = (L.flatMap F).filter g := by
  induction L with
  | nil => rfl
  | cons a L ih =>
    have ih := ih (fun l hl => h l (List.mem_cons_of_mem _ hl))
    have ha := h a (by simp)
    simp only [List.flatMap_cons, List.filter_append, List.filter_cons]
    cases hf : f a with
    | true =>
      simp only [↓reduceIte, List.flatMap_cons, ih]
      congr 1
      exact (List.filter_eq_self.2 (fun x hx => by rw [ha x hx, hf])).symm
    | false =>
      simp only [Bool.false_eq_true, ↓reduceIte, ih]
      have : (F a).filter g = [] := List.filter_eq_nil_iff.2 (fun x hx => by rw [ha x hx, hf]; simp)
      simp [this]

theorem filter_filterMap_of {α β} (R : List α) (J : α → Option β) (f : α → Bool) (g : β → Bool)
    (h : ∀ r ∈ R, ∀ x, J r = some x → g x = f r) : (R.filter f).filterMap J = (R.filterMap J).filter g := by
  induction R with
  | nil => rfl
  | cons a R ih =>
    have ih := ih (fun r hr => h r (List.mem_cons_of_mem _ hr))
    have ha := h a (by simp)
    simp only [List.filter_cons, List.filterMap_cons]
    cases hf : f a <;> cases hj : J a <;> simp_all

theorem computeRow_length (es : List (String × Expr)) (t : Tuple) : (computeRow es t).length = t.length + es.length := by
  induction es generalizing t with
  | nil => rfl
  | cons e es ih =>
    obtain ⟨n, e⟩ := e
    simp only [computeRow, ih, List.length_append, List.length_cons, List.length_nil]
    omega

end ILV.IR
