/-
  C02 — optimizer settings never change answers.

  Spec: for every two switch settings the answers are equal (as sets).  The engine's pipeline is a
  sequence of optional passes (`sip?`, `magic?` on the AST; `jp?`, `ss?`, `bs?` and the always-on basic
  optimizer on the IR, lib.rs:925).  `C02_of_passes` is the composition theorem: if every pass
  preserves the denotation (on the plans the previous stages can produce, `ok`), every subset of
  enabled passes gives the same answer.  Its premises are discharged in Lean for the passes that have
  a model — Boolean specialisation and the basic optimizer (C05) — which gives `C02_ir_partial` for the
  modelled part `pipe` of the pipeline, and `C02_ir_refuted`: on the unchanged tree the push-down defect
  makes the answer depend on the Boolean-specialisation switch (a `Distinct` inserted above the join
  blocks the defective push-down).  The remaining switches (join planning, SIP, subplan sharing, magic
  sets) have no Lean model; for them C02 is checked per instance on the real engine under all 32
  configurations (request `c02.cfgs`), i.e. at translation-validation level.
-/
import ILV.Props.C05
namespace ILV.Props.C02
open ILV ILV.IR

/-- run the passes whose switch is on, in pipeline order -/
def applyEnabled {P : Type} : List (P → P) → List Bool → P → P
  | f :: fs, b :: bs, p => applyEnabled fs bs (if b then f p else p)
  | _, _, p => p

theorem applyEnabled_preserves {P A : Type} (den : P → A) (ok : P → Prop) :
    ∀ (passes : List (P → P)), (∀ f ∈ passes, ∀ p, ok p → ok (f p) ∧ den (f p) = den p) →
    ∀ (c : List Bool) (p : P), ok p → den (applyEnabled passes c p) = den p
  | [], _, _, _, _ => by simp [applyEnabled]
  | f :: fs, h, [], p, _ => by simp [applyEnabled]
  | f :: fs, h, b :: bs, p, hp => by
    have hf := h f (by simp) p hp
    have ih := applyEnabled_preserves den ok fs (fun g hg => h g (by simp [hg])) bs
    simp only [applyEnabled]
    cases b with
    | true => simpa [hf.2] using ih (f p) hf.1
    | false => simpa using ih p hp

/-- **C02 from the pass theorems**: if every pass preserves the denotation of the plans it can be
    given, all switch settings (`2^n`, 32 for the engine's five switches) give the same answer. -/
theorem C02_of_passes {P A : Type} (den : P → A) (ok : P → Prop) (passes : List (P → P))
    (h : ∀ f ∈ passes, ∀ p, ok p → ok (f p) ∧ den (f p) = den p)
    (c₁ c₂ : List Bool) (p : P) (hp : ok p) :
    den (applyEnabled passes c₁ p) = den (applyEnabled passes c₂ p) := by
  rw [applyEnabled_preserves den ok passes h c₁ p hp, applyEnabled_preserves den ok passes h c₂ p hp]

-- hypotheses are satisfiable non-trivially: two real passes on IR trees restricted to `Filter True`-free … here:
-- the always-true-filter and identity-map eliminations preserve `eval` on every well-formed tree
example (db : Db) (c₁ c₂ : List Bool) (t : Node) (h : wf db t = true) :
    eval db (applyEnabled [elimTrue, elimIdMaps] c₁ t) = eval db (applyEnabled [elimTrue, elimIdMaps] c₂ t) :=
  C02_of_passes (eval db) (fun t => wf db t = true) [elimTrue, elimIdMaps]
    (by
      intro f hf p hp
      simp only [List.mem_cons, List.mem_nil_iff, or_false] at hf
      rcases hf with rfl | rfl
      · exact ⟨(elimTrue_ok db p hp).w, (elimTrue_ok db p hp).ev⟩
      · exact ⟨(elimIdMaps_ok db p hp).w, (elimIdMaps_ok db p hp).ev⟩)
    c₁ c₂ t h

/-! ## the modelled part of `optimize_ir`: `pipe bs = optimize ∘ (specialize if bs)` -/

def C02_ir_statement : Prop :=
  ∀ (db : Db) (t : Node), wf db t = true → ∀ b₁ b₂ : Bool, SetEq (answer db (pipe b₁ t)) (answer db (pipe b₂ t))

/-- refuted: under a `Distinct` root Boolean specialisation wraps the join below the `Aggregate` in
    `Distinct`, `count` is 2 with the switch off and 1 with it on. -/
theorem C02_ir_refuted : ¬ C02_ir_statement := by
  intro h
  have := h C05.dbBS C05.tBS (by decide) false true [.i64 3, .i64 2]
  revert this
  decide

theorem pipe_false (db : Db) (t : Node) (h : wf db t = true) :
    answer db (pipe false t) = answer db t := by
  simpa [pipe] using C05.C05_opt_answer db t h

theorem pipe_true (db : Db) (t : Node) (hb : wf db (specialize t).1 = true)
    (ha : analyze t ≠ .boolean ∨ aggFree t = true) :
    SetEq (answer db (pipe true t)) (answer db t) := by
  have h1 : answer db (pipe true t) = answer db (specialize t).1 := by
    simpa [pipe] using C05.C05_opt_answer db _ hb
  rw [h1]
  rcases ha with ha | ha
  · intro x; simp only [answer, C05.C05_bs_partial_counting db t ha]
  · exact C05.C05_bs_partial_aggfree db t ha

/-- strongest restriction proved for the modelled switches: outside the excluded input class of
    C05 (`Aggregate` under a Boolean annotation) the
    answer does not depend on the Boolean-specialisation switch. -/
theorem C02_ir_partial (db : Db) (t : Node) (h : wf db t = true) (hb : wf db (specialize t).1 = true)
    (ha : analyze t ≠ .boolean ∨ aggFree t = true) (b₁ b₂ : Bool) :
    SetEq (answer db (pipe b₁ t)) (answer db (pipe b₂ t)) := by
  have f : SetEq (answer db (pipe false t)) (answer db t) := by
    rw [pipe_false db t h]; exact fun _ => Iff.rfl
  have g := pipe_true db t hb ha
  cases b₁ <;> cases b₂ <;> intro x
  · exact Iff.rfl
  · exact (f x).trans (g x).symm
  · exact (g x).trans (f x).symm
  · exact Iff.rfl

-- `q(Z,X) <- r1(X,Y), r2(Y,Z), X > 1`: hypotheses hold, the two settings produce different plans, same answer
example : let t := Node.map (.filter C05.j12 (.cc .gt 0 1)) [2, 0] ["Z", "X"]
    wf C05.db1 t = true ∧ wf C05.db1 (specialize t).1 = true ∧ aggFree t = true ∧ pipe false t ≠ pipe true t ∧
    answer C05.db1 (pipe true t) = [[.i64 9, .i64 2]] := by decide

def C02_statement : Prop := C02_ir_statement
theorem C02_refuted : ¬ C02_statement := C02_ir_refuted
theorem C02_partial (db : Db) (t : Node) (h : wf db t = true) (hb : wf db (specialize t).1 = true)
    (ha : analyze t ≠ .boolean ∨ aggFree t = true) (b₁ b₂ : Bool) :
    SetEq (answer db (pipe b₁ t)) (answer db (pipe b₂ t)) := C02_ir_partial db t h hb ha b₁ b₂

end ILV.Props.C02
