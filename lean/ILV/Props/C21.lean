/-
  C21 — Proof trees are valid derivations.

  Spec   : `Derivable prog base M rel t` (ILV.Model.ProvSpec): staged derivability from the stored
           facts, negation judged against the world `(base, M)`.
  Checker: `valid prog base M tree : Bool` — the function the driver runs on every proof tree the
           REAL `.why` returns (harness walk of the real `ProofTree`).
  Model  : `whyTree` / `buildProofTree` / `level` (ILV.Model.Prov) — mirror of build_proof_tree,
           build_node, prove_body, enumerate_derived_candidates, unify_head, find_matching_tuples.
  Only property theorems live here; helper lemmas are in ILV.Lemmas.Prov, ProvMatch, ProvBuild, ProvInv, ProvChain.
-/
import ILV.Lemmas.ProvChain
import ILV.Model.ProvWire
namespace ILV.Props.C21
open ILV ILV.Prov

/-- **Checker soundness.** If the derived data `M` contains only derivable facts, every tree without
    `Truncated` nodes accepted by `valid` concludes a derivable fact: per-instance checking of the
    real `.why` output by `valid` is therefore a proof that the explained tuple has a derivation whose
    every step is the one the tree shows. (A `Truncated` node is an explicit "not explained further"
    marker; trees containing one are partial by their own admission and are C22's concern.) -/
theorem valid_sound (prog : Program) (base M : DB) (hM : MSound prog base M) (t : Tree)
    (h : valid prog base M t = true) (ht : t.hasTrunc = false) : Derivable prog base M t.pred t.args :=
  valid_sound_aux prog base M hM t h ht

/-! a concrete non-trivial instance: a two-step derivation with a join, a comparison and a
    negated base atom is accepted, hence its conclusion is derivable. -/
def exProg : Program :=
  [⟨⟨"p", [.var "X"]⟩, [.pos ⟨"e", [.var "X", .var "Y"]⟩, .neg ⟨"f", [.var "Y"]⟩, .cmp (.var "X") .lt (.var "Y")]⟩,
   ⟨⟨"q", [.var "X", .int 5]⟩, [.pos ⟨"p", [.var "X"]⟩]⟩]
def exBase : DB := [("e", [[.i64 1, .i64 2], [.i64 1, .i64 3]]), ("f", [[.i64 2]])]
def exTree : Tree :=
  .node (.rule 1 [("X", .i64 1)]) "q" [.i64 1, .i64 5]
    [.node (.rule 0 [("Y", .i64 3), ("X", .i64 1)]) "p" [.i64 1]
      [.node (.fact .edb) "e" [.i64 1, .i64 3] [], .node (.neg [.conc (.i64 3)]) "f" [.i64 3] []]]

example : Derivable exProg exBase [] "q" [.i64 1, .i64 5] :=
  valid_sound exProg exBase [] (fun _ _ h => by simp [memL, DB.get] at h) exTree (by decide) (by decide)

/-- the same tree with the refuted choice `Y = 2` (where `f(2)` is stored) is rejected. -/
example : valid exProg exBase []
    (.node (.rule 0 [("Y", .i64 2), ("X", .i64 1)]) "p" [.i64 1]
      [.node (.fact .edb) "e" [.i64 1, .i64 2] [], .node (.neg [.conc (.i64 2)]) "f" [.i64 2] []]) = false := by decide

/-! Value matching in the Spec is the numeric-aware one of `find_matching_tuples` (`valuesEqual`:
    `Int32`/`Int64` compare numerically): rule literals are narrowed to `Int32` while stored facts are
    `Int64`. A ground negation leaf `!flag(2, 1)` whose probe value is `Int32 1` IS refuted by the stored
    `flag(Int64 2, Int64 1)` — `valid` rejects the tree (a strict-equality probe in the code would produce
    exactly this leaf); through the other binding `P = 3` the tree is accepted; an `Int32` fact leaf for a
    stored `Int64` fact is accepted. -/
def litProg : Program := [⟨⟨"p", [.var "X"]⟩, [.pos ⟨"e", [.var "X", .var "P"]⟩, .neg ⟨"flag", [.var "P", .int 1]⟩]⟩]
def litBase : DB := [("e", [[.i64 1, .i64 2], [.i64 1, .i64 3]]), ("flag", [[.i64 2, .i64 1]])]
example : valid litProg litBase []
    (.node (.rule 0 [("P", .i64 2), ("X", .i64 1)]) "p" [.i64 1]
      [.node (.fact .edb) "e" [.i64 1, .i64 2] [], .node (.neg [.conc (.i64 2), .conc (.i32 1)]) "flag" [.i64 2, .i32 1] []]) = false := by decide
example : valid litProg litBase []
    (.node (.rule 0 [("P", .i64 3), ("X", .i64 1)]) "p" [.i64 1]
      [.node (.fact .edb) "e" [.i64 1, .i64 3] [], .node (.neg [.conc (.i64 3), .conc (.i32 1)]) "flag" [.i64 3, .i32 1] []]) = true := by decide
example : valid litProg litBase [] (.node (.fact .edb) "flag" [.i32 2, .i32 1] []) = true := by decide
/-- and the model chainer (numeric-aware, like the code) explains `p(1)` through `P = 3`. -/
example : (whyTree { rules := litProg, base := litBase, derived := some [("p", [[.i64 1]])] } "p" [.i64 1]).toWire
    = "rule p i64:1 0 P=i64:3;X=i64:1 2 fact e i64:1,i64:3 edb neg flag i64:3,i32:1 c,c" := by decide

/-- **C21 at full strength, about the model chainer** (repaired code: negated atoms are looked up in
    base and derived data, `enumerate_derived_candidates` checks repeated variables): for every
    well-formed program of the whole stratified fragment — `c21Fragment` is pure well-formedness:
    supported terms, no `_` in heads, safe negation, consistent arities, no NaN constant, no variable
    spelled `_placeholder_…`; negation over derived relations, repeated variables, recursion, several
    clauses per head are all included —, every NaN-free base and derived data in which only relations
    with rules have derived tuples, every depth limit, every relation and every NaN-free tuple (true or
    not), the tree that `.why` returns — including the handler's fallback root — is accepted by `valid`.
    Nothing is assumed about the derived data being correct or complete. -/
def C21_statement : Prop :=
  ∀ (prog : Program) (base M : DB) (rel : String) (tuple : Tuple) (depth : Nat),
    c21Fragment prog = true → derivedOnlyHeads prog M = true →
    goodDB base = true → goodDB M = true → tuple.all goodV = true →
    valid prog base M (whyTree { rules := prog, base := base, derived := some M, maxDepth := depth } rel tuple) = true

/-- **C21 (build_valid), full.** Proof: builder invariant (every node of the DAG locally valid, memo
    table sound, bindings only extended by fresh variables) preserved by `build_node` / `prove_body` /
    the clause loop / the candidate enumerator at every level of the depth tower
    (ILV.Lemmas.ProvChain.level_ok), then unfolded (`valid_unfold`). -/
theorem C21 : C21_statement :=
  fun prog base M rel tuple depth hf hd hb hm ht => whyTree_valid prog base M rel tuple depth hf hd hb hm ht

/-! The two former refutation witnesses (findings `neg_over_derived`, `repeated_var_over_derived`, fixed):
    the repaired chainer now explains `p(1)` through `Y = 3` resp. through the second clause. -/
def w1Prog : Program :=
  [⟨⟨"dr", [.var "Y"]⟩, [.pos ⟨"f", [.var "Y"]⟩]⟩,
   ⟨⟨"p", [.var "X"]⟩, [.pos ⟨"e", [.var "X", .var "Y"]⟩, .neg ⟨"dr", [.var "Y"]⟩]⟩]
def w1Base : DB := [("e", [[.i64 1, .i64 2], [.i64 1, .i64 3]]), ("f", [[.i64 2]])]
def w1M : DB := [("dr", [[.i64 2]]), ("p", [[.i64 1]])]
example : (whyTree { rules := w1Prog, base := w1Base, derived := some w1M } "p" [.i64 1]).toWire
    = "rule p i64:1 1 X=i64:1;Y=i64:3 2 fact e i64:1,i64:3 edb neg dr i64:3 c" := by decide
example : valid w1Prog w1Base w1M (whyTree { rules := w1Prog, base := w1Base, derived := some w1M } "p" [.i64 1]) = true :=
  C21 w1Prog w1Base w1M "p" [.i64 1] 50 (by decide) (by decide) (by decide) (by decide) (by decide)

def w2Prog : Program :=
  [⟨⟨"d", [.var "X", .var "Y"]⟩, [.pos ⟨"e", [.var "X", .var "Y"]⟩, .cmp (.var "X") .lt (.var "Y")]⟩,
   ⟨⟨"z", [.var "X"]⟩, [.pos ⟨"d", [.var "X", .wild]⟩]⟩,
   ⟨⟨"p", [.var "X"]⟩, [.pos ⟨"f", [.var "X"]⟩, .pos ⟨"d", [.var "Y", .var "Y"]⟩]⟩,
   ⟨⟨"p", [.var "X"]⟩, [.pos ⟨"f", [.var "X"]⟩, .pos ⟨"z", [.var "Y"]⟩]⟩]
def w2Base : DB := [("e", [[.i64 2, .i64 3]]), ("f", [[.i64 1]])]
def w2M : DB := [("d", [[.i64 2, .i64 3]]), ("z", [[.i64 2]]), ("p", [[.i64 1]])]
example : valid w2Prog w2Base w2M (whyTree { rules := w2Prog, base := w2Base, derived := some w2M } "p" [.i64 1]) = true :=
  C21 w2Prog w2Base w2M "p" [.i64 1] 50 (by decide) (by decide) (by decide) (by decide) (by decide)

/-- the hypotheses of `C21` are met by a non-trivial recursive program with a join, a comparison, a
    head constant, a negated stored relation and a negated *derived* relation. -/
def pProg : Program :=
  [⟨⟨"path", [.var "X", .var "Y"]⟩, [.pos ⟨"e", [.var "X", .var "Y"]⟩]⟩,
   ⟨⟨"path", [.var "X", .var "Y"]⟩, [.pos ⟨"e", [.var "X", .var "Z"]⟩, .pos ⟨"path", [.var "Z", .var "Y"]⟩]⟩,
   ⟨⟨"far", [.var "X", .int 7]⟩, [.pos ⟨"path", [.var "X", .var "Y"]⟩, .neg ⟨"f", [.var "Y"]⟩, .cmp (.var "X") .lt (.var "Y")]⟩,
   ⟨⟨"near", [.var "X"]⟩, [.pos ⟨"e", [.var "X", .wild]⟩, .neg ⟨"far", [.var "X", .wild]⟩]⟩]
def pBase : DB := [("e", [[.i64 1, .i64 2], [.i64 2, .i64 3]]), ("f", [[.i64 2]])]
def pM : DB := [("path", [[.i64 1, .i64 2], [.i64 2, .i64 3], [.i64 1, .i64 3]]), ("far", [[.i64 1, .i64 7], [.i64 2, .i64 7]]), ("near", [])]

example : valid pProg pBase pM
    (whyTree { rules := pProg, base := pBase, derived := some pM, maxDepth := 50 } "far" [.i64 1, .i64 7]) = true :=
  C21 pProg pBase pM "far" [.i64 1, .i64 7] 50 (by decide) (by decide) (by decide) (by decide) (by decide)

end ILV.Props.C21
