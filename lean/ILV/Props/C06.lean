/-
  C06 — aggregate values are exact.

  Spec (ILV.Model.AggSpec, the property's vocabulary): for a non-recursive rule
  `h(ḡ, f<v>) <- body`, groups = distinct bindings of ḡ over the satisfying valuations, values of a
  group = the multiset of `v` over its valuations (one valuation per combination of stored tuples:
  a wildcard occurrence is an anonymous variable), `count = |Vals|`, `sum/min/max/avg` over `Vals`,
  `count_distinct = |set Vals|`, one row per group, every head term in its head position.

  Model: `IRBuild.buildRule` (the plan `IRBuilder::build_ir` emits: scans+filters, left-deep joins on
  shared names, comparison filters, `Aggregate`) evaluated by `IR.eval` (what the code generator's
  `reduce` computes).  Both are tied to the Rust code on every run (`c06.build`, `c06.run`).

  `C06_statement` (plan answer = Spec answer for every rule of the fragment) has no known counterexample any more
  (head order, push-down, SIP wildcard columns and per-step saturation of `sum` are repaired).
  `C06_valuations` proves it per aggregate, in terms of the Spec's valuations `DL.bodyEnvs`, for the plain
  fragment (`ruleOk`: no negation, atoms of distinct variables and wildcards, comparisons over bound
  variables and integer constants, integer data), including `avg`.  `C06_partial` is the strongest part proved for *all* plans of the builder's shape:
  the join tree below the `Aggregate` has duplicate-free rows over set-valued relations (each
  satisfying valuation appears exactly once), and the `Aggregate` node returns exactly one row per
  distinct group key with exact count / sum / min / max / count_distinct over those rows.
-/
import ILV.Lemmas.IRAgg
import ILV.Lemmas.IRSetPlan
import ILV.Model.IRBuild
import ILV.Model.AggSpec
import ILV.Lemmas.IRAggVal
namespace ILV.Props.C06
open ILV ILV.IR

def C06_statement : Prop :=
  ∀ (db : Db) (r : DL.Rule) (t : Node) (want : List Tuple),
    AggSpec.dbIsSet db = true → IRBuild.buildRule r = some t → AggSpec.specAnswer db r = some want →
    SetEq (answer db t) want

/-- the input that refuted the statement before the repair of `sum` (`a(sum<Z>) <- e(X,Z)` over
    `Z = MIN, MIN, MAX, MAX`): the plan now answers the exact total `-2`, as the Spec. -/
example :
    let r : DL.Rule := { hrel := "a", hargs := [.agg .sum "Z"], body := [.pos { rel := "e", args := [.var "X", .var "Z"] }] }
    let db : Db := [("e", [[.i64 0, .i64 (-(2^63))], [.i64 1, .i64 (-(2^63))], [.i64 2, .i64 (2^63 - 1)], [.i64 3, .i64 (2^63 - 1)]])]
    (IRBuild.buildRule r).map (answer db) = some [[.i64 (-2)]] ∧ AggSpec.specAnswer db r = some [[.i64 (-2)]] := by decide

/-- the head order is restored by the `Map` that `build_aggregation` now appends: for
    `a(count<Z>, X) <- e(X,Z)` (the input that failed before the repair) plan answer = Spec answer. -/
example :
    let r : DL.Rule := { hrel := "a", hargs := [.agg .count "Z", .var "X"], body := [.pos { rel := "e", args := [.var "X", .var "Z"] }] }
    let db : Db := [("e", [[.i64 1, .i64 5], [.i64 1, .i64 6]])]
    IRBuild.buildRule r = some (.map (.aggregate (.scan "e" ["X", "Z"]) [0] [(.count, 1)] ["X", "count_Z"]) [1, 0] ["count_Z", "X"]) ∧
    (IRBuild.buildRule r).map (answer db) = some [[.i64 2, .i64 1]] ∧
    AggSpec.specAnswer db r = some [[.i64 2, .i64 1]] := by decide

/-- well-formed values: what `f64::to_bits` can return (C31) -/
def ValuesWF (rows : List Tuple) : Prop := ∀ t ∈ rows, ∀ v ∈ t, ILV.Props.C31.Value.WF v

/-- **C06, proved part.**  For every plan `Aggregate(J, group_by, aggs)` whose input `J` is a join tree
    over (filtered) scans of set-valued relations — the shape `build_ir` emits for an aggregate rule —
    1. the rows of `J` are pairwise distinct (one per satisfying valuation);
    2. the output has exactly one row per distinct group key, namely `key ++ aggregate values`;
    3. `count` is the number of (distinct) rows of the group, `count_distinct` the number of distinct
       values, `sum` the exact integer sum clamped once to the i64 range, `min`/`max` an element of
       the group's column that is ≤ / ≥ all others in `Ord for Value`. -/
theorem C06_partial (db : Db) (i : Node) (gb : List Nat) (aggs : List (Agg × Nat)) (s : List String)
    (hwf : wf db (.aggregate i gb aggs s) = true) (hset : isSetPlan i = true) (hdb : DbSet db) :
    (eval db i).Nodup ∧
    (∀ o ∈ eval db (.aggregate i gb aggs s), ∃ t ∈ eval db i,
        o = project t gb ++ aggs.map (aggVal (groupOf (eval db i) gb (project t gb)))) ∧
    (∀ t ∈ eval db i, project t gb ++ aggs.map (aggVal (groupOf (eval db i) gb (project t gb))) ∈ eval db (.aggregate i gb aggs s)) ∧
    ((eval db (.aggregate i gb aggs s)).length = (dedup ((eval db i).map (fun t => project t gb))).length
      ∧ (dedup ((eval db i).map (fun t => project t gb))).Nodup) ∧
    (∀ k c, aggVal (groupOf (eval db i) gb k) (.count, c) =
        .i64 (((eval db i).filter (fun t => project t gb == k)).length : Nat)) ∧
    (∀ k c, aggVal (groupOf (eval db i) gb k) (.countDistinct, c) =
        .i64 ((dedupVals ((groupOf (eval db i) gb k).filterMap (fun t => t[c]?))).length : Nat)
        ∧ (dedupVals ((groupOf (eval db i) gb k).filterMap (fun t => t[c]?))).Nodup) ∧
    (∀ k c, aggVal (groupOf (eval db i) gb k) (.sum, c) =
        .i64 (satI64 (((groupOf (eval db i) gb k).map (colI64 c)).foldl (· + ·) 0))) ∧
    (ValuesWF (eval db i) → ∀ k c m, valMin ((groupOf (eval db i) gb k).filterMap (fun t => t[c]?)) = some m →
        aggVal (groupOf (eval db i) gb k) (.min, c) = m ∧
        m ∈ (groupOf (eval db i) gb k).filterMap (fun t => t[c]?) ∧
        ∀ v ∈ (groupOf (eval db i) gb k).filterMap (fun t => t[c]?), Value.cmp m v ≠ .gt) ∧
    (ValuesWF (eval db i) → ∀ k c m, valMax ((groupOf (eval db i) gb k).filterMap (fun t => t[c]?)) = some m →
        aggVal (groupOf (eval db i) gb k) (.max, c) = m ∧
        m ∈ (groupOf (eval db i) gb k).filterMap (fun t => t[c]?) ∧
        ∀ v ∈ (groupOf (eval db i) gb k).filterMap (fun t => t[c]?), Value.cmp v m ≠ .gt) := by
  have hwi := wf_aggregate hwf
  have colWF : ValuesWF (eval db i) → ∀ (k : Tuple) (c : Nat), ∀ v ∈ (groupOf (eval db i) gb k).filterMap (fun t => t[c]?), ILV.Props.C31.Value.WF v := by
    intro hv k c v hmem
    obtain ⟨t, ht, e⟩ := List.mem_filterMap.1 hmem
    exact hv t (mem_groupOf.1 ht).1 v (List.mem_of_getElem? e)
  refine ⟨setPlan_nodup db hdb i hwi hset, ?_, ?_, ?_, ?_, ?_, ?_, ?_, ?_⟩
  · intro o ho; exact agg_row_of_group (by simpa [eval] using ho)
  · intro t ht; simpa [eval] using agg_group_has_row (gb := gb) (aggs := aggs) ht
  · simpa [eval] using agg_one_row_per_group (eval db i) gb aggs
  · intro k c; exact agg_count_exact _ gb k c
  · intro k c; exact ⟨rfl, nodup_dedupVals _⟩
  · intro k c; exact agg_sum_clamped _ c
  · intro hv k c m hm
    have := valMin_spec _ (colWF hv k c) m hm
    exact ⟨by simp [aggVal, hm], this.1, this.2⟩
  · intro hv k c m hm
    have := valMax_spec _ (colWF hv k c) m hm
    exact ⟨by simp [aggVal, hm], this.1, this.2⟩

-- the hypotheses are met by the plan of `a(X, count<Z>, sum<Z>) <- e(X,Y), f(Y,Z)` on a database where the join multiplies bindings
def rOk : DL.Rule :=
  { hrel := "a", hargs := [.var "X", .agg .count "Z", .agg .sum "Z"],
    body := [.pos { rel := "e", args := [.var "X", .var "Y"] }, .pos { rel := "f", args := [.var "Y", .var "Z"] }] }
def dbOk : Db := [("e", [[.i64 1, .i64 7], [.i64 1, .i64 8]]), ("f", [[.i64 7, .i64 3], [.i64 8, .i64 3], [.i64 8, .i64 4]])]
def jOk : Node := .join (.scan "e" ["X", "Y"]) (.scan "f" ["Y", "Z"]) [1] [0] ["X", "Y", "Z"]

example : IRBuild.buildRule rOk = some (.aggregate jOk [0] [(.count, 2), (.sum, 2)] ["X", "count_Z", "sum_Z"]) ∧
    wf dbOk (.aggregate jOk [0] [(.count, 2), (.sum, 2)] ["X", "count_Z", "sum_Z"]) = true ∧ isSetPlan jOk = true ∧
    answer dbOk (.aggregate jOk [0] [(.count, 2), (.sum, 2)] ["X", "count_Z", "sum_Z"]) = [[.i64 1, .i64 3, .i64 10]] ∧
    AggSpec.specAnswer dbOk rOk = some [[.i64 1, .i64 3, .i64 10]] := by decide

example : DbSet dbOk := by
  intro rel
  unfold Db.get dbOk
  simp only [List.lookup]
  split <;> (try split) <;> simp

/-! ## C06 over the Spec's body valuations

`ruleOk` (decidable): no negation; positive atoms with distinct variables and wildcards over
relations of the right arity; comparisons between bound variables and integer constants; integer
data.  `E = DL.bodyEnvs db.get r` is the Spec's list of satisfying valuations (one per combination
of stored tuples, so a wildcard column contributes one valuation per stored value). -/

open ILV.IRBuild in
/-- **C06 in terms of valuations.** For the body plan `B` of a rule of the fragment and the `Aggregate`
    the builder puts on it (`group_by` = the columns of the group variables `gbv`):
    1. the rows of `B` are, in order, in one-to-one correspondence with the valuations `E`
       (every column named by a variable holds the variable's value);
    2. the output has exactly one row per distinct binding of the group variables over `E`, namely
       that binding followed by the aggregate values;
    3. for an aggregated variable `x`: `count` = number of valuations of the group, `sum` = the exact
       sum of `x` over them clamped to i64, `min`/`max` = an attained bound of those values,
       `count_distinct` = the size of a duplicate-free list with the same members, `avg` = the
       binary64 mean of a permutation of those values (`f64` addition from `-0.0`, then one division). -/
theorem C06_valuations (db : Db) (r : DL.Rule) (B : Node) (hok : ruleOk db r = true) (hB : bodyPlan r = some B)
    (gbv : List String) (gb : List Nat) (hgb : optMapM (fun x => firstIdx x (schema B) 0) gbv = some gb)
    (hgV : ∀ x ∈ gbv, x ∈ r.posVars) (aggs : List (Agg × Nat)) (s : List String) :
    F2 (fun row env => Inv r.posVars (schema B) row env ∧ IntRow row) (eval db B) (DL.bodyEnvs db.get r) ∧
    (∀ o ∈ eval db (.aggregate B gb aggs s), ∃ env ∈ DL.bodyEnvs db.get r,
        o = keyOf gbv env ++ aggs.map (aggVal (groupOf (eval db B) gb (keyOf gbv env)))) ∧
    (∀ env ∈ DL.bodyEnvs db.get r,
        keyOf gbv env ++ aggs.map (aggVal (groupOf (eval db B) gb (keyOf gbv env))) ∈ eval db (.aggregate B gb aggs s)) ∧
    (eval db (.aggregate B gb aggs s)).length = (dedup ((DL.bodyEnvs db.get r).map (keyOf gbv))).length ∧
    ∀ (x : String) (c : Nat), firstIdx x (schema B) 0 = some c → x ∈ r.posVars → ∀ k : Tuple,
      aggVal (groupOf (eval db B) gb k) (.count, c) =
        .i64 (((DL.bodyEnvs db.get r).filter (fun env => keyOf gbv env == k)).length : Nat) ∧
      aggVal (groupOf (eval db B) gb k) (.sum, c) =
        .i64 (satI64 (isum ((valsOf (DL.bodyEnvs db.get r) gbv k x).map toI64))) ∧
      (valsOf (DL.bodyEnvs db.get r) gbv k x ≠ [] →
        aggVal (groupOf (eval db B) gb k) (.min, c) ∈ valsOf (DL.bodyEnvs db.get r) gbv k x ∧
        ∀ v ∈ valsOf (DL.bodyEnvs db.get r) gbv k x, Value.cmp (aggVal (groupOf (eval db B) gb k) (.min, c)) v ≠ .gt) ∧
      (valsOf (DL.bodyEnvs db.get r) gbv k x ≠ [] →
        aggVal (groupOf (eval db B) gb k) (.max, c) ∈ valsOf (DL.bodyEnvs db.get r) gbv k x ∧
        ∀ v ∈ valsOf (DL.bodyEnvs db.get r) gbv k x, Value.cmp v (aggVal (groupOf (eval db B) gb k) (.max, c)) ≠ .gt) ∧
      (∃ D : List Value, D.Nodup ∧ (∀ v, v ∈ D ↔ v ∈ valsOf (DL.bodyEnvs db.get r) gbv k x) ∧
        aggVal (groupOf (eval db B) gb k) (.countDistinct, c) = .i64 (D.length : Nat)) ∧
      (∃ L : List Value, L.Perm (valsOf (DL.bodyEnvs db.get r) gbv k x) ∧
        aggVal (groupOf (eval db B) gb k) (.avg, c) =
          .f64 (F64.div (L.foldl (fun acc v => F64.add acc (toF64 v)) (F64.neg 0)) (F64.ofInt L.length))) := by
  have hF := body_rows_envs db r B hok hB
  have hkeys := keys_eq hF gbv gb hgb hgV
  refine ⟨hF, ?_, ?_, ?_, ?_⟩
  · intro o ho
    obtain ⟨t, ht, rfl⟩ := agg_row_of_group (by simpa [eval] using ho)
    obtain ⟨env, he, hr⟩ := F2.exists_right hF t ht
    exact ⟨env, he, by rw [project_eq_keyOf hr.1 gbv gb hgb hgV]⟩
  · intro env he
    obtain ⟨t, ht, hr⟩ := F2.exists_left hF env he
    have := agg_group_has_row (gb := gb) (aggs := aggs) ht
    rw [project_eq_keyOf hr.1 gbv gb hgb hgV] at this
    simpa [eval] using this
  · have := (agg_one_row_per_group (eval db B) gb aggs).1
    simpa [eval, hkeys] using this
  · intro x c hc hx k
    have hcol := group_column hF gbv gb hgb hgV k hc hx
    have hperm := groupOf_column_perm hF gbv gb hgb hgV k hc hx
    have hsomeG : ∀ t ∈ groupOf (eval db B) gb k, (t[c]?).isSome = true := by
      intro t ht
      have := (mem_groupOf.1 ht)
      exact hcol.2 t (by simp [List.mem_filter, this.1, this.2])
    -- all values are integers, hence well-formed
    have hwf : ∀ v ∈ (groupOf (eval db B) gb k).filterMap (fun t => t[c]?), ILV.Props.C31.Value.WF v := by
      intro v hv
      obtain ⟨t, ht, e⟩ := List.mem_filterMap.1 hv
      obtain ⟨env, _, hr⟩ := F2.exists_right hF t (mem_groupOf.1 ht).1
      obtain ⟨n, hn⟩ := hr.2 v (List.mem_of_getElem? e)
      subst hn; trivial
    refine ⟨?_, ?_, ?_, ?_, ?_, ?_⟩
    · rw [agg_count_exact]
      congr 2
      exact forall2_length (group_rows_envs hF gbv gb hgb hgV k)
    · rw [agg_sum_clamped, map_col_eq hsomeG]
      congr 2
      exact isum_perm (hperm.map toI64)
    · intro hne
      have hne' : (groupOf (eval db B) gb k).filterMap (fun t => t[c]?) ≠ [] := fun e => by
        rw [e] at hperm; exact hne (List.Perm.nil_eq hperm).symm
      cases hm : valMin ((groupOf (eval db B) gb k).filterMap (fun t => t[c]?)) with
      | none => exact absurd (valMin_none hm) hne'
      | some m =>
        have hs := valMin_spec _ hwf m hm
        have e : aggVal (groupOf (eval db B) gb k) (.min, c) = m := by simp [aggVal, hm]
        rw [e]
        exact ⟨hperm.mem_iff.1 hs.1, fun v hv => hs.2 v (hperm.mem_iff.2 hv)⟩
    · intro hne
      have hne' : (groupOf (eval db B) gb k).filterMap (fun t => t[c]?) ≠ [] := fun e => by
        rw [e] at hperm; exact hne (List.Perm.nil_eq hperm).symm
      cases hm : valMax ((groupOf (eval db B) gb k).filterMap (fun t => t[c]?)) with
      | none => exact absurd (valMax_none hm) hne'
      | some m =>
        have hs := valMax_spec _ hwf m hm
        have e : aggVal (groupOf (eval db B) gb k) (.max, c) = m := by simp [aggVal, hm]
        rw [e]
        exact ⟨hperm.mem_iff.1 hs.1, fun v hv => hs.2 v (hperm.mem_iff.2 hv)⟩
    · exact ⟨dedupVals ((groupOf (eval db B) gb k).filterMap (fun t => t[c]?)), nodup_dedupVals _,
        fun v => mem_dedupVals.trans hperm.mem_iff, rfl⟩
    · refine ⟨(groupOf (eval db B) gb k).filterMap (fun t => t[c]?), hperm, ?_⟩
      have e : aggVal (groupOf (eval db B) gb k) (.avg, c) =
          .f64 (F64.div ((groupOf (eval db B) gb k).foldl (fun acc t => F64.add acc (match t[c]? with | some v => toF64 v | none => 0)) (F64.neg 0))
            (F64.ofInt (groupOf (eval db B) gb k).length)) := rfl
      rw [e, length_filterMap_some hsomeG]
      exact congrArg (fun z => Value.f64 (F64.div z (F64.ofInt ↑(groupOf (eval db B) gb k).length)))
        (foldl_col_eq hsomeG (F64.neg 0))

-- the theorem applies to the SIP witness rule `a(X, count<Z>) <- w(X, Y, _), e(Y, Z)` over two `w` facts
-- that differ only in the wildcard column: two valuations, count 2
open ILV.IRBuild in
/-- the plan the builder emits for an aggregate rule is that `Aggregate` on the body plan (under the
    `Map` restoring head order when an aggregate is not last), grouped by the head variables' columns -/
theorem C06_rule_shape (r : DL.Rule) (t : Node) (h : buildRule r = some t) (hagg : r.hargs.any isAggH = true) :
    ∃ B gb aggs s, bodyPlan r = some B ∧
      optMapM (fun x => firstIdx x (schema B) 0) (r.hargs.filterMap varOfH) = some gb ∧
      (t = .aggregate B gb aggs s ∨ ∃ proj hs, t = .map (.aggregate B gb aggs s) proj hs) := by
  rw [buildRule_eq] at h
  cases hB : bodyPlan r with
  | none => simp [hB] at h
  | some B =>
    simp only [hB, Option.bind_some] at h
    obtain ⟨gb, aggs, s, h1, h2⟩ := buildHead_agg B r.hargs t h hagg
    exact ⟨B, gb, aggs, s, rfl, h1, h2⟩

def exRule : DL.Rule :=
  DL.Rule.mk "a" [.var "X", .agg .count "Z"]
    [.pos (DL.Atom.mk "w" [.var "X", .var "Y", .wild]), .pos (DL.Atom.mk "e" [.var "Y", .var "Z"])]

def exDb : Db := [("w", [[.i64 1, .i64 2, .i64 0], [.i64 1, .i64 2, .i64 1]]), ("e", [[.i64 2, .i64 5]])]

open ILV.IRBuild in
example : ruleOk exDb exRule = true ∧ (bodyPlan exRule).isSome = true ∧ (DL.bodyEnvs exDb.get exRule).length = 2 ∧
    (buildRule exRule).map (answer exDb) = some [[.i64 1, .i64 2]] := by decide

end ILV.Props.C06
