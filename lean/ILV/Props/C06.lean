/-
  C06 — aggregate values are exact.

  Spec (ILV.Model.AggSpec, the property's vocabulary): for a non-recursive rule
  `h(ḡ, f<v>) <- body`, groups = distinct bindings of ḡ over the satisfying valuations, values of a
  group = the multiset of `v` over its valuations (one valuation per combination of stored tuples:
  a wildcard occurrence is an anonymous variable), `count = |Vals|`, `sum/min/max/avg` over `Vals`,
  `count_distinct = |set Vals|`, one row per group, every head term in its head position.

  Model: `IRBuild.buildRule` (the plan `IRBuilder::build_ir` emits: scans+filters, left-deep joins on
  shared names, comparison filters, `Aggregate`) evaluated by `IR.eval` (what the code generator's
  `reduce` computes).  Both are tied to the Rust code on every run (`c06.build`, `c06.run`).

  `C06_statement` (plan answer = Spec answer for every rule of the fragment) has no known counterexample any more
  (head order, push-down, SIP wildcard columns and per-step saturation of `sum` are repaired).  `C06_partial` is the strongest part proved for *all* plans of the builder's shape:
  the join tree below the `Aggregate` has duplicate-free rows over set-valued relations (each
  satisfying valuation appears exactly once), and the `Aggregate` node returns exactly one row per
  distinct group key with exact count / sum / min / max / count_distinct over those rows.
-/
import ILV.Lemmas.IRAgg
import ILV.Lemmas.IRSetPlan
import ILV.Model.IRBuild
import ILV.Model.AggSpec
namespace ILV.Props.C06
open ILV ILV.IR

def C06_statement : Prop :=
  ∀ (db : Db) (r : DL.Rule) (t : Node) (want : List Tuple),
    AggSpec.dbIsSet db = true → IRBuild.buildRule r = some t → AggSpec.specAnswer db r = some want →
    SetEq (answer db t) want

/-- the input that refuted the statement before the repair of `sum` (`a(sum<Z>) <- e(X,Z)` over
    `Z = MIN, MIN, MAX, MAX`): the plan now answers the exact total `-2`, as the Spec. -/
example :
    let r : DL.Rule := { hrel := "a", hargs := [.agg .sum "Z"], body := [.pos { rel := "e", args := [.var "X", .var "Z"] }] }
    let db : Db := [("e", [[.i64 0, .i64 (-(2^63))], [.i64 1, .i64 (-(2^63))], [.i64 2, .i64 (2^63 - 1)], [.i64 3, .i64 (2^63 - 1)]])]
    (IRBuild.buildRule r).map (answer db) = some [[.i64 (-2)]] ∧ AggSpec.specAnswer db r = some [[.i64 (-2)]] := by decide

/-- the head order is restored by the `Map` that `build_aggregation` now appends: for
    `a(count<Z>, X) <- e(X,Z)` (the input that failed before the repair) plan answer = Spec answer. -/
example :
    let r : DL.Rule := { hrel := "a", hargs := [.agg .count "Z", .var "X"], body := [.pos { rel := "e", args := [.var "X", .var "Z"] }] }
    let db : Db := [("e", [[.i64 1, .i64 5], [.i64 1, .i64 6]])]
    IRBuild.buildRule r = some (.map (.aggregate (.scan "e" ["X", "Z"]) [0] [(.count, 1)] ["X", "count_Z"]) [1, 0] ["count_Z", "X"]) ∧
    (IRBuild.buildRule r).map (answer db) = some [[.i64 2, .i64 1]] ∧
    AggSpec.specAnswer db r = some [[.i64 2, .i64 1]] := by decide

/-- well-formed values: what `f64::to_bits` can return (C31) -/
def ValuesWF (rows : List Tuple) : Prop := ∀ t ∈ rows, ∀ v ∈ t, ILV.Props.C31.Value.WF v

/-- **C06, proved part.**  For every plan `Aggregate(J, group_by, aggs)` whose input `J` is a join tree
    over (filtered) scans of set-valued relations — the shape `build_ir` emits for an aggregate rule —
    1. the rows of `J` are pairwise distinct (one per satisfying valuation);
    2. the output has exactly one row per distinct group key, namely `key ++ aggregate values`;
    3. `count` is the number of (distinct) rows of the group, `count_distinct` the number of distinct
       values, `sum` the exact integer sum clamped once to the i64 range, `min`/`max` an element of
       the group's column that is ≤ / ≥ all others in `Ord for Value`. -/
theorem C06_partial (db : Db) (i : Node) (gb : List Nat) (aggs : List (Agg × Nat)) (s : List String)
    (hwf : wf db (.aggregate i gb aggs s) = true) (hset : isSetPlan i = true) (hdb : DbSet db) :
    (eval db i).Nodup ∧
    (∀ o ∈ eval db (.aggregate i gb aggs s), ∃ t ∈ eval db i,
        o = project t gb ++ aggs.map (aggVal (groupOf (eval db i) gb (project t gb)))) ∧
    (∀ t ∈ eval db i, project t gb ++ aggs.map (aggVal (groupOf (eval db i) gb (project t gb))) ∈ eval db (.aggregate i gb aggs s)) ∧
    ((eval db (.aggregate i gb aggs s)).length = (dedup ((eval db i).map (fun t => project t gb))).length
      ∧ (dedup ((eval db i).map (fun t => project t gb))).Nodup) ∧
    (∀ k c, aggVal (groupOf (eval db i) gb k) (.count, c) =
        .i64 (((eval db i).filter (fun t => project t gb == k)).length : Nat)) ∧
    (∀ k c, aggVal (groupOf (eval db i) gb k) (.countDistinct, c) =
        .i64 ((dedupVals ((groupOf (eval db i) gb k).filterMap (fun t => t[c]?))).length : Nat)
        ∧ (dedupVals ((groupOf (eval db i) gb k).filterMap (fun t => t[c]?))).Nodup) ∧
    (∀ k c, aggVal (groupOf (eval db i) gb k) (.sum, c) =
        .i64 (satI64 (((groupOf (eval db i) gb k).map (colI64 c)).foldl (· + ·) 0))) ∧
    (ValuesWF (eval db i) → ∀ k c m, valMin ((groupOf (eval db i) gb k).filterMap (fun t => t[c]?)) = some m →
        aggVal (groupOf (eval db i) gb k) (.min, c) = m ∧
        m ∈ (groupOf (eval db i) gb k).filterMap (fun t => t[c]?) ∧
        ∀ v ∈ (groupOf (eval db i) gb k).filterMap (fun t => t[c]?), Value.cmp m v ≠ .gt) ∧
    (ValuesWF (eval db i) → ∀ k c m, valMax ((groupOf (eval db i) gb k).filterMap (fun t => t[c]?)) = some m →
        aggVal (groupOf (eval db i) gb k) (.max, c) = m ∧
        m ∈ (groupOf (eval db i) gb k).filterMap (fun t => t[c]?) ∧
        ∀ v ∈ (groupOf (eval db i) gb k).filterMap (fun t => t[c]?), Value.cmp v m ≠ .gt) := by
  have hwi := wf_aggregate hwf
  have colWF : ValuesWF (eval db i) → ∀ (k : Tuple) (c : Nat), ∀ v ∈ (groupOf (eval db i) gb k).filterMap (fun t => t[c]?), ILV.Props.C31.Value.WF v := by
    intro hv k c v hmem
    obtain ⟨t, ht, e⟩ := List.mem_filterMap.1 hmem
    exact hv t (mem_groupOf.1 ht).1 v (List.mem_of_getElem? e)
  refine ⟨setPlan_nodup db hdb i hwi hset, ?_, ?_, ?_, ?_, ?_, ?_, ?_, ?_⟩
  · intro o ho; exact agg_row_of_group (by simpa [eval] using ho)
  · intro t ht; simpa [eval] using agg_group_has_row (gb := gb) (aggs := aggs) ht
  · simpa [eval] using agg_one_row_per_group (eval db i) gb aggs
  · intro k c; exact agg_count_exact _ gb k c
  · intro k c; exact ⟨rfl, nodup_dedupVals _⟩
  · intro k c; exact agg_sum_clamped _ c
  · intro hv k c m hm
    have := valMin_spec _ (colWF hv k c) m hm
    exact ⟨by simp [aggVal, hm], this.1, this.2⟩
  · intro hv k c m hm
    have := valMax_spec _ (colWF hv k c) m hm
    exact ⟨by simp [aggVal, hm], this.1, this.2⟩

-- the hypotheses are met by the plan of `a(X, count<Z>, sum<Z>) <- e(X,Y), f(Y,Z)` on a database where the join multiplies bindings
def rOk : DL.Rule :=
  { hrel := "a", hargs := [.var "X", .agg .count "Z", .agg .sum "Z"],
    body := [.pos { rel := "e", args := [.var "X", .var "Y"] }, .pos { rel := "f", args := [.var "Y", .var "Z"] }] }
def dbOk : Db := [("e", [[.i64 1, .i64 7], [.i64 1, .i64 8]]), ("f", [[.i64 7, .i64 3], [.i64 8, .i64 3], [.i64 8, .i64 4]])]
def jOk : Node := .join (.scan "e" ["X", "Y"]) (.scan "f" ["Y", "Z"]) [1] [0] ["X", "Y", "Z"]

example : IRBuild.buildRule rOk = some (.aggregate jOk [0] [(.count, 2), (.sum, 2)] ["X", "count_Z", "sum_Z"]) ∧
    wf dbOk (.aggregate jOk [0] [(.count, 2), (.sum, 2)] ["X", "count_Z", "sum_Z"]) = true ∧ isSetPlan jOk = true ∧
    answer dbOk (.aggregate jOk [0] [(.count, 2), (.sum, 2)] ["X", "count_Z", "sum_Z"]) = [[.i64 1, .i64 3, .i64 10]] ∧
    AggSpec.specAnswer dbOk rOk = some [[.i64 1, .i64 3, .i64 10]] := by decide

example : DbSet dbOk := by
  intro rel
  unfold Db.get dbOk
  simp only [List.lookup]
  split <;> (try split) <;> simp

end ILV.Props.C06
