/-
  C24 — Vector index search returns valid nearest neighbours.
  Model: ILV.Model.Hnsw (`src/hnsw_index.rs`) over the parameters `FloatOps` and `ann` (= hnsw_rs
  search, contract `annOk`).  Lemmas: ILV.Lemmas.Hnsw, ILV.Lemmas.Metric.
  After the repair of the wrapper (tombstones filtered in `search`, cleared by `insert`, batches and
  rebuilds validated first) the statement holds for all histories: `C24_full`.  What remains a
  finding (k-nearest optimality for the Manhattan re-rank window, the `ann` contract itself) is not
  part of this statement; see `C24_manhattan_window_witness`.
-/
import ILV.Lemmas.Hnsw
import ILV.Lemmas.Metric
import ILV.Lemmas.Dist
namespace ILV.Props.C24
open ILV ILV.Hnsw ILV.VecOps List

abbrev Ann (F : FloatOps) := List (List F.F32) → List F.F32 → Nat → Nat → List (Nat × F.F32)

/-- Every operation keeps the graph invariant: the graph minus the currently tombstoned identifiers
    holds exactly the stored, non-tombstoned entries (so it holds after every history). -/
theorem C24_graph_invariant {F : FloatOps} (cfg : Cfg) (ops : List (Op F)) :
    GraphOk (runOps ({ cfg := cfg } : Index F) ops) :=
  graphOk_run ops _ (graphOk_empty cfg)

/-- Whatever `ann` returns, `search` returns at most `k` identifiers, each of a graph entry that is
    not tombstoned. -/
theorem C24_search_ids_not_tombstoned {F : FloatOps} (ann : Ann F) (s : Index F) (q : List F.F32) (k : Nat) (ef : Option Nat) :
    (∀ p ∈ search ann s q k ef, ∃ g e, s.inner = some g ∧ e ∈ g ∧ e.1 = p.1 ∧ isTomb s e.1 = false) ∧
    (search ann s q k ef).length ≤ k := by
  refine ⟨?_, search_length_le ann s q k ef⟩
  intro p hp
  unfold search at hp
  split at hp
  · simp at hp
  · exact searchRaw_ids _ _ _ _ p hp

/-- `ann` honours its contract on the call this search makes (knbn and ef widened by the number
    of tombstones, as the code does). -/
def AnnOkHere {F : FloatOps} (ann : Ann F) (s : Index F) (q : List F.F32) (k : Nat) (ef : Option Nat) : Prop :=
  ∀ g, s.inner = some g →
    annOk (g.map (·.2)) (prepare F s.cfg.metric q) (searchK s k) (searchEf s ef)
      (ann (g.map (·.2)) (prepare F s.cfg.metric q) (searchK s k) (searchEf s ef)) = true

/-- no more tombstoned entries in the graph than tombstones (true whenever identifiers are distinct). -/
def DeadBounded {F : FloatOps} (s : Index F) : Prop :=
  ∀ g, s.inner = some g → (g.filter (fun e => isTomb s e.1)).length ≤ s.tombs.length

/-- The property for one search: returned identifiers are live, there are at most `k`, and when the
    graph fits in the (widened) search breadth there are exactly `min k |live|`. -/
def SearchValid {F : FloatOps} (ann : Ann F) (s : Index F) (q : List F.F32) (k : Nat) (ef : Option Nat) : Prop :=
  (∀ p ∈ search ann s q k ef, (liveOf s p.1).isSome = true) ∧
  (search ann s q k ef).length ≤ k ∧
  (DeadBounded s → (∀ g, s.inner = some g → g.length ≤ searchEf s ef) →
    (search ann s q k ef).length = min k (active s).length)

/-- C24 for every float model, every `ann`, every configuration, every history of inserts / batches /
    deletes / rebuilds / save-load cycles from the empty index, every query. -/
def C24_statement : Prop :=
  ∀ (F : FloatOps) (ann : Ann F) (cfg : Cfg) (ops : List (Op F)) (q : List F.F32) (k : Nat) (ef : Option Nat),
    AnnOkHere ann (runOps { cfg := cfg } ops) q k ef → SearchValid ann (runOps { cfg := cfg } ops) q k ef

/-- C24 holds of the repaired wrapper, for all histories. -/
theorem C24_full : C24_statement := by
  intro F ann cfg ops q k ef hann
  have hG := C24_graph_invariant (F := F) cfg ops
  exact ⟨search_ids_live ann _ hG q k ef, search_length_le ann _ q k ef,
         fun hd hn => search_length_complete ann _ hG q k ef hann hd hn⟩

/-- the former counterexample (four points, `delete 0` below the compaction threshold, search at
    point 0): the deleted identifier is no longer returned, the nearest live point is. -/
def witnessCfg : Cfg := { m := 8, efc := 100, efs := 32, metric := .euclidean }
def witnessOps : List (Op toyFloat) :=
  [.insertBatch [(0, toyVec [0]), (1, toyVec [10]), (2, toyVec [20]), (3, toyVec [30])], .delete 0]
def witnessState : Index toyFloat := runOps { cfg := witnessCfg } witnessOps

example : toyRes (search annExact witnessState (toyVec [0]) 1 none) = [(1, 10)] := by decide +kernel
example : witnessState.tombs = [0] ∧ (witnessState.inner.map (·.map (·.1))) = some [0, 1, 2, 3] := by decide +kernel
example : AnnOkHere annExact witnessState (toyVec [0]) 1 none := by
  intro g hg
  have h2 : witnessState.inner = some [(0, toyVec [0]), (1, toyVec [10]), (2, toyVec [20]), (3, toyVec [30])] := by decide +kernel
  rw [h2] at hg
  have : g = [(0, toyVec [0]), (1, toyVec [10]), (2, toyVec [20]), (3, toyVec [30])] := (Option.some.inj hg).symm
  subst this
  decide +kernel

/-- Manhattan metric: candidates are the `4k` L2-nearest points, re-ranked by L1.  With more than
    `4k` live points the L1-nearest point can be missed: five points, `k = 1`. -/
def manhCfg : Cfg := { m := 8, efc := 100, efs := 32, metric := .manhattan }
def manhOps : List (Op toyFloat) :=
  [.insertBatch [(0, toyVec [7, 7]), (1, toyVec [-7, 7]), (2, toyVec [7, -7]), (3, toyVec [-7, -7]), (4, toyVec [12, 0])]]

theorem C24_manhattan_window_witness :
    (search annExact (runOps ({ cfg := manhCfg } : Index toyFloat) manhOps) (toyVec [0, 0]) 1 none).map (·.1) = [0] ∧
    toyVal (manh64 (toyVec [0, 0]) (toyVec [12, 0])) < toyVal (manh64 (toyVec [0, 0]) (toyVec [7, 7])) := by decide +kernel

/-- metric transforms (exact, over ℚ): on unit vectors `L2²/2` is the cosine distance and
    `-(1 - L2²/2)` the negated dot product. -/
theorem C24_cosine_transform (a b : List ℚ) (h : a.length = b.length) (ha : dotQ a a = 1) (hb : dotQ b b = 1) :
    sqDistQ a b / 2 = 1 - dotQ a b := cosine_of_l2 a b h ha hb

theorem C24_dot_transform (a b : List ℚ) (h : a.length = b.length) (ha : dotQ a a = 1) (hb : dotQ b b = 1) :
    -(1 - sqDistQ a b / 2) = -(dotQ a b) := dot_of_l2 a b h ha hb

example : sqDistQ [1, 0] [0, 1] / 2 = 1 - dotQ [1, 0] [0, 1] := C24_cosine_transform _ _ rfl (by norm_num [dotQ]) (by norm_num [dotQ])

end ILV.Props.C24
