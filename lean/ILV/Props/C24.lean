/-
  C24 — Vector index search returns valid nearest neighbours.
  Model: ILV.Model.Hnsw (`src/hnsw_index.rs`) over the parameters `FloatOps` and `ann` (= hnsw_rs
  search, contract `annOk`).  Lemmas: ILV.Lemmas.Hnsw, ILV.Lemmas.Metric.
  The full statement is false of the faithful model (the code has defects): `C24_refuted`; what
  holds is `C24_partial`, for histories satisfying the decidable predicate `graphInStep`.
-/
import ILV.Lemmas.Hnsw
import ILV.Lemmas.Metric
import ILV.Lemmas.Dist
namespace ILV.Props.C24
open ILV ILV.Hnsw ILV.VecOps List

abbrev Ann (F : FloatOps) := List (List F.F32) → List F.F32 → Nat → Nat → List (Nat × F.F32)

/-- Whatever `ann` returns, `search` only returns identifiers of the graph built by the last
    `rebuild_hnsw`, and at most `k` of them. -/
theorem C24_search_ids_subset_inner {F : FloatOps} (ann : Ann F) (s : Index F) (q : List F.F32) (k : Nat) (ef : Option Nat) :
    (∀ p ∈ search ann s q k ef, ∃ g, s.inner = some g ∧ p.1 ∈ g.map (·.1)) ∧ (search ann s q k ef).length ≤ k :=
  ⟨search_ids_subset_inner ann s q k ef, search_length_le ann s q k ef⟩

/-- After every operation that ends in `rebuild_hnsw` — a successful `insert` / `insert_batch`, a
    `rebuild`, a `load`, a `delete` that crosses the 30 % threshold — the graph holds exactly the
    stored, non-tombstoned entries. -/
theorem C24_inner_eq_live_after_rebuild {F : FloatOps} (s : Index F) :
    (∀ id v, (insert s id v).2 = none → InnerLive (insert s id v).1) ∧
    (∀ es, (insertBatch s es).2 = none → InnerLive (insertBatch s es).1) ∧
    (∀ vs, InnerLive (rebuild s vs)) ∧
    (∀ (p : Persisted F) (s' : Index F), load p = some s' → InnerLive s') ∧
    (∀ id, ratioAbove (tombstone s id) = true → InnerLive (delete s id)) :=
  ⟨fun id v h => insert_ok_innerLive s id v h, fun es h => insertBatch_ok_innerLive es s h,
   fun vs => rebuild_innerLive s vs, fun p s' h => load_innerLive p s' h,
   fun id h => delete_compacting_innerLive s id h⟩

/-- The property for one search after a history, at the strength the wrapper can offer over a
    contract-abiding `ann`: returned identifiers are live, there are at most `k`, and when the live
    set fits in the search breadth there are exactly `min k |live|`. -/
def SearchValid {F : FloatOps} (ann : Ann F) (s : Index F) (q : List F.F32) (k : Nat) (ef : Option Nat) : Prop :=
  (∀ p ∈ search ann s q k ef, (liveOf s p.1).isSome = true) ∧
  (search ann s q k ef).length ≤ k ∧
  ((active s).length ≤ searchEf s ef → (search ann s q k ef).length = min k (active s).length)

/-- `ann` honours its contract on the call this search makes. -/
def AnnOkHere {F : FloatOps} (ann : Ann F) (s : Index F) (q : List F.F32) (k : Nat) (ef : Option Nat) : Prop :=
  ∀ g, s.inner = some g →
    annOk (g.map (·.2)) (prepare F s.cfg.metric q) (searchK s k) (searchEf s ef)
      (ann (g.map (·.2)) (prepare F s.cfg.metric q) (searchK s k) (searchEf s ef)) = true

/-- C24 at full strength: for every float model, every `ann`, every configuration, every history of
    inserts / batches / deletes / rebuilds / save-load cycles from the empty index, every query. -/
def C24_statement : Prop :=
  ∀ (F : FloatOps) (ann : Ann F) (cfg : Cfg) (ops : List (Op F)) (q : List F.F32) (k : Nat) (ef : Option Nat),
    AnnOkHere ann (runOps { cfg := cfg } ops) q k ef → SearchValid ann (runOps { cfg := cfg } ops) q k ef

/-- witness: four points, `delete 0` (25 % tombstones, below the threshold), search at point 0. -/
def witnessCfg : Cfg := { m := 8, efc := 100, efs := 32, metric := .euclidean }
def witnessOps : List (Op toyFloat) :=
  [.insertBatch [(0, toyVec [0]), (1, toyVec [10]), (2, toyVec [20]), (3, toyVec [30])], .delete 0]

def witnessState : Index toyFloat := runOps { cfg := witnessCfg } witnessOps

theorem C24_witness_inner : witnessState.inner = some [(0, toyVec [0]), (1, toyVec [10]), (2, toyVec [20]), (3, toyVec [30])] := by
  decide +kernel

theorem C24_witness_search : toyRes (search annExact witnessState (toyVec [0]) 1 none) = [(0, 0)] := by
  decide +kernel

theorem C24_refuted : ¬ C24_statement := by
  intro h
  have hv := h toyFloat annExact witnessCfg witnessOps (toyVec [0]) 1 none (by
    intro g hg
    have hg' : witnessState.inner = some g := hg
    rw [C24_witness_inner] at hg'
    have : g = [(0, toyVec [0]), (1, toyVec [10]), (2, toyVec [20]), (3, toyVec [30])] := (Option.some.inj hg').symm
    subst this
    decide +kernel)
  have h0 := hv.1 (0, (0 : Int)) (by
    show (0, (0 : Int)) ∈ toyRes (search annExact witnessState (toyVec [0]) 1 none)
    rw [C24_witness_search]; exact List.mem_singleton.2 rfl)
  have h1 : (liveOf witnessState 0).isSome = false := by decide +kernel
  exact absurd h0 (by show ¬ (liveOf witnessState 0).isSome = true; rw [h1]; decide)

/-- C24 for the histories after which the graph is in step with the stored state (decidable
    predicate `graphInStep`: no tombstoning delete below the compaction threshold, no failing
    batch since the last rebuild of the graph). -/
theorem C24_partial (F : FloatOps) (ann : Ann F) (cfg : Cfg) (ops : List (Op F)) (q : List F.F32) (k : Nat) (ef : Option Nat)
    (hstep : graphInStep ({ cfg := cfg } : Index F) true ops = true)
    (hann : AnnOkHere ann (runOps { cfg := cfg } ops) q k ef) :
    SearchValid ann (runOps { cfg := cfg } ops) q k ef := by
  have hIL : InnerLive (runOps ({ cfg := cfg } : Index F) ops) :=
    graphInStep_innerLive ops _ true (fun _ => by simp [InnerLive, active]) hstep
  exact ⟨search_ids_live ann _ hIL q k ef, search_length_le ann _ q k ef,
         fun hn => search_length_complete ann _ hIL q k ef hann hn⟩

/-- the hypotheses of `C24_partial` are met by a non-trivial history: batch insert, update, a delete
    that compacts; the search returns the nearest live point. -/
def goodOps : List (Op toyFloat) :=
  [.insertBatch [(0, toyVec [0]), (1, toyVec [10]), (2, toyVec [20])], .insert 1 (toyVec [11]), .delete 0]
example : graphInStep ({ cfg := witnessCfg } : Index toyFloat) true goodOps = true := by decide +kernel
example : (search annExact (runOps ({ cfg := witnessCfg } : Index toyFloat) goodOps) (toyVec [0]) 1 none).map (·.1) = [1] := by decide +kernel

/-- Manhattan metric: candidates are the `4k` L2-nearest points, re-ranked by L1.  With more than
    `4k` live points the L1-nearest point can be missed: five points, `k = 1`. -/
def manhCfg : Cfg := { m := 8, efc := 100, efs := 32, metric := .manhattan }
def manhOps : List (Op toyFloat) :=
  [.insertBatch [(0, toyVec [7, 7]), (1, toyVec [-7, 7]), (2, toyVec [7, -7]), (3, toyVec [-7, -7]), (4, toyVec [12, 0])]]

theorem C24_manhattan_window_witness :
    (search annExact (runOps ({ cfg := manhCfg } : Index toyFloat) manhOps) (toyVec [0, 0]) 1 none).map (·.1) = [0] ∧
    toyVal (manh64 (toyVec [0, 0]) (toyVec [12, 0])) < toyVal (manh64 (toyVec [0, 0]) (toyVec [7, 7])) := by decide +kernel

/-- metric transforms (exact, over ℚ): on unit vectors `L2²/2` is the cosine distance and
    `-(1 - L2²/2)` the negated dot product. -/
theorem C24_cosine_transform (a b : List ℚ) (h : a.length = b.length) (ha : dotQ a a = 1) (hb : dotQ b b = 1) :
    sqDistQ a b / 2 = 1 - dotQ a b := cosine_of_l2 a b h ha hb

theorem C24_dot_transform (a b : List ℚ) (h : a.length = b.length) (ha : dotQ a a = 1) (hb : dotQ b b = 1) :
    -(1 - sqDistQ a b / 2) = -(dotQ a b) := dot_of_l2 a b h ha hb

example : sqDistQ [1, 0] [0, 1] / 2 = 1 - dotQ [1, 0] [0, 1] := C24_cosine_transform _ _ rfl (by norm_num [dotQ]) (by norm_num [dotQ])

end ILV.Props.C24
