/-
  C29 — The internal knowledge graph `_internal` is unreachable for non-admins.
  Model: ILV.Model.Handler.execProgram (event trace = statement + current KG when it ran; queries are
  recorded with the KG current at their line, and answered from the *final* KG).
  Spec: ILV.Spec.Access.touchesInternal — the event runs with current KG `_internal`, acts on it
  (`.kg use/drop`, `.kg acl …`), or creates it.
-/
import ILV.Lemmas.C27
namespace ILV.Props.C29
open ILV ILV.Text ILV.Handler ILV.Gen.C28 ILV.Spec.Access ILV.Props.C27

/-- the request leaves the caller's session bound to `_internal` -/
def bindsInternal (w : World) (u : String) : Bool := (findSess w u).any fun s => !s.closed && s.kg == INTERNAL

/-- **C29, full statement**: no request of a non-admin identity runs a statement in, on, or into
    `_internal`, nor leaves its session bound to it — whatever the program text and session binding. -/
def C29_statement : Prop :=
  ∀ (P : Parser) (w : World) (rq : Req) (u : String) (r : Role),
    identityOf w rq.user = some (some (u, r)) → r ≠ Role.admin →
    (∀ e ∈ (execProgram P w rq).trace, touchesInternal e = false) ∧
    (bindsInternal w u = false → bindsInternal (execProgram P w rq).w u = false)

/-! witnesses: `vi` is a global viewer and KG viewer of `default` -/
def witP : Parser := fun k =>
  if k = "?m1(X)" then some ⟨.query, .query "m1" 1⟩
  else if k = ".kg use _internal" then some ⟨.kgUse, .name "_internal"⟩
  else if k = ".kg list" then some ⟨.kgList, .none⟩
  else if k = "?users(A, B, C)" then some ⟨.query, .query "users" 3⟩
  else if k = "+users(\"x\", \"h\", \"admin\")" then some ⟨.insert, .insert "users" [[strVal "x", strVal "h", strVal "admin"]]⟩
  else if k = ".kg list\n.kg use _internal" then some ⟨.kgList, .none⟩   -- the meta parser ignores trailing tokens
  else none
def users0 : List Tuple := [[strVal "adm", strVal "h", strVal "admin"], [strVal "vi", strVal "h", strVal "viewer"]]
def witW : World :=
  ⟨[⟨"_internal", [("users", users0), ("kg_acls", [[strVal "default", strVal "vi", strVal "viewer"]])], [], []⟩,
    ⟨"default", [("m1", [[.i64 0]])], [], []⟩],
   [⟨"vi", "default", [], [], false⟩]⟩
/-- the name guard only looks at the whole-text parse: line 2 switches, line 3 reads the user table -/
def rqRead : Req := ⟨some "vi", false, some "default", "?m1(X)\n.kg use _internal\n?users(A, B, C)".toList⟩
/-- … and line 3 may as well create an admin account -/
def rqWrite : Req := ⟨some "vi", false, some "default", "?m1(X)\n.kg use _internal\n+users(\"x\", \"h\", \"admin\")".toList⟩
/-- with a session id the switch sticks: the session is re-bound to `_internal` -/
def rqBind : Req := ⟨some "vi", true, none, ".kg list\n.kg use _internal".toList⟩
/-- a session bound to `_internal` + an explicit KG: `default` is gated, `_internal` is queried -/
def rqSess : Req := ⟨some "vi", true, some "default", "?users(A, B, C)".toList⟩

theorem C29_refuted : ¬ C29_statement := by
  intro h
  have h1 := (h witP witW rqRead "vi" .viewer (by decide) (by decide)).1
  revert h1
  decide

/-- the viewer is handed the user table, password hashes included -/
theorem C29_refuted_read : (execProgram witP witW rqRead).res = .rows users0 := by decide

/-- the viewer adds an admin account to `_internal.users` -/
theorem C29_refuted_write :
    (findKg (execProgram witP witW rqWrite).w INTERNAL).map (relOf · "users") =
      some (users0 ++ [[strVal "x", strVal "h", strVal "admin"]]) := by decide

/-- session re-binding, then the read through the session with an explicit, harmless KG argument -/
theorem C29_refuted_session :
    bindsInternal witW "vi" = false ∧ bindsInternal (execProgram witP witW rqBind).w "vi" = true ∧
    (execProgram witP (execProgram witP witW rqBind).w rqSess).res = .rows users0 := by decide

/-- **C29, partial theorem.** For single-line requests with a target KG that are not a `?…` carrying
    both a session id and an explicit KG, and a caller without an ACL row on `_internal` itself, no
    statement runs in, on or into `_internal` — for all grammars, states, sessions and texts. In
    particular a session already bound to `_internal` (no explicit KG) and an explicit
    `knowledge_graph = _internal` are refused (`denied-internal`, empty trace). -/
theorem C29_partial (P : Parser) (w : World) (rq : Req) (u : String) (r : Role)
    (hid : identityOf w rq.user = some (some (u, r))) (hr : r ≠ Role.admin)
    (hacl : kgRoleFor w INTERNAL u r = none)
    (h1 : singleLine rq = true) (h2 : sessionQueryWithKgArg w rq = false) (h3 : noTargetKg w rq = false) :
    ∀ e ∈ (execProgram P w rq).trace, touchesInternal e = false := by
  intro e he
  cases hc : curKgOf w rq with
  | none => simp [noTargetKg, hc] at h3
  | some cur =>
    rcases exec_trace_single P w rq cur h1 h2 hc e he with ⟨hk, _, role, hrole, hg⟩
    rw [hid] at hrole
    cases hrole
    have := gates_no_internal w u r e.stmt cur hr hacl hg
    rw [← hk] at this
    exact this

-- the guards do fire where the partial theorem says so
example : (execProgram witP witW ⟨some "vi", false, some "default", ".kg use _internal".toList⟩).res = .err "denied-internal" := by decide
example : (execProgram witP witW ⟨some "vi", false, some "_internal", "?users(A, B, C)".toList⟩).res = .err "denied-internal" := by decide
example : (execProgram witP (execProgram witP witW rqBind).w ⟨some "vi", true, none, "?users(A, B, C)".toList⟩).res = .err "denied-internal" := by decide
-- hypotheses of the partial theorem are satisfiable with a non-empty trace
example : identityOf witW (some "vi") = some (some ("vi", .viewer)) ∧ kgRoleFor witW INTERNAL "vi" .viewer = none ∧
    singleLine ⟨some "vi", false, some "default", "?m1(X)".toList⟩ = true ∧
    (execProgram witP witW ⟨some "vi", false, some "default", "?m1(X)".toList⟩).trace = [⟨⟨.query, .query "m1" 1⟩, "default"⟩] := by decide
-- the refuting requests lie in the excluded classes
example : singleLine rqRead = false ∧ singleLine rqBind = false ∧
    sessionQueryWithKgArg (execProgram witP witW rqBind).w rqSess = true := by decide

end ILV.Props.C29
