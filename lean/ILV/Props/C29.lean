/-
  C29 — The internal knowledge graph `_internal` is unreachable for non-admins.
  Model: the repaired `execute_program` (see Props/C27.lean). Spec: ILV.Spec.Access.touchesInternal.
-/
import ILV.Lemmas.C27
namespace ILV.Props.C29
open ILV ILV.Text ILV.Handler ILV.Gen.C28 ILV.Spec.Access ILV.Props.C27

/-- **C29.** For every program text, session binding and KG argument: no statement of a request by a
    non-admin identity runs with `_internal` as the current KG, acts on it (`.kg use/drop`, `.kg acl …`)
    or creates it — provided no ACL row grants that identity a role on `_internal` itself. -/
theorem C29 (P : Parser) (w : World) (rq : Req) (u : String) (r : Role)
    (hid : identityOf w rq.user = some (some (u, r))) (hr : r ≠ Role.admin)
    (hacl : kgRoleFor w INTERNAL u r = none) :
    ∀ e ∈ (execProgram P w rq).trace, touchesInternal e = false := by
  intro e he
  rcases exec_gated P w rq e he with ⟨role, hrole, hg⟩
  rw [hid] at hrole
  cases hrole
  exact gates_no_internal w u r e.stmt e.kg hr hacl hg

/-! the former counterexamples (now corpus files) are refused -/
def witP : Parser := fun k =>
  if k = "?m1(X)" then some ⟨.query, .query "m1" 1⟩
  else if k = ".kg use _internal" then some ⟨.kgUse, .name "_internal"⟩
  else if k = ".kg list" then some ⟨.kgList, .none⟩
  else if k = "?users(A, B, C)" then some ⟨.query, .query "users" 3⟩
  else none
def users0 : List Tuple := [[strVal "adm", strVal "h", strVal "admin"], [strVal "vi", strVal "h", strVal "viewer"]]
def witW : World :=
  ⟨[⟨"_internal", [("users", users0), ("kg_acls", [[strVal "default", strVal "vi", strVal "viewer"]])], [], []⟩,
    ⟨"default", [("m1", [[.i64 0]])], [], []⟩],
   [⟨"vi", "default", [], [], false⟩]⟩
/-- a session that (by whatever means) is bound to `_internal` -/
def witWbound : World := { witW with sess := [⟨"vi", "_internal", [], [], false⟩] }
example : (execProgram witP witW ⟨some "vi", false, some "default", "?m1(X)\n.kg use _internal\n?users(A, B, C)".toList⟩).res = .err "denied-internal" := by decide
example : (execProgram witP witW ⟨some "vi", true, none, ".kg list\n.kg use _internal".toList⟩).res = .err "denied-internal" ∧
    (execProgram witP witW ⟨some "vi", true, none, ".kg list\n.kg use _internal".toList⟩).w = witW := by decide
example : (execProgram witP witWbound ⟨some "vi", true, some "default", "?users(A, B, C)".toList⟩).res = .err "denied-internal" := by decide
example : (execProgram witP witWbound ⟨some "vi", true, none, "?users(A, B, C)".toList⟩).res = .err "denied-internal" := by decide
-- hypotheses are satisfiable with a non-empty trace
example : identityOf witW (some "vi") = some (some ("vi", .viewer)) ∧ kgRoleFor witW INTERNAL "vi" .viewer = none ∧
    (execProgram witP witW ⟨some "vi", false, some "default", ".kg list\n?m1(X)".toList⟩).trace =
      [⟨⟨.kgList, .none⟩, "default"⟩, ⟨⟨.query, .query "m1" 1⟩, "default"⟩] := by decide

end ILV.Props.C29
