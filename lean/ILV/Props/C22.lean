/-
  C22 — Every answer can be explained.

  Spec   : a tuple of the perfect model whose reference derivation depth (`refDepth`: least stage of
           the staged evaluation, a stored fact having depth 1 — the depth of its shallowest proof
           tree) is within the depth limit must get a *complete* tree (`Tree.complete`: no `Truncated`
           node — in particular not the handler's fallback root — and no `Fact{Derived}` leaf).
  Model  : `whyTree` (ILV.Model.Prov), the same chainer model as C21, with `max_depth`, the cycle set
           `visited`, `max_proofs_per_tuple` and the memo table `seen` (steps resting on a truncated
           premise are not memoised).
-/
import ILV.Lemmas.ProvComplete
namespace ILV.Props.C22
open ILV ILV.Prov

/-- **C22 at full strength about the model chainer.** -/
def C22_statement : Prop :=
  ∀ (prog : Program) (base M : DB) (rel : String) (t : Tuple) (depth k : Nat),
    prog.supported = true → pmEval prog base = some M → memL t (world base M rel) = true →
    refDepth prog base M rel t = some k → k ≤ depth →
    (whyTree { rules := prog, base := base, derived := some M, maxDepth := depth } rel t).complete = true

/-! Witness 1 (known finding `cycle_cut_memoized`): left-linear closure over the chain 1→2→3→4→5,
    base clause first (the order `RuleCatalog::all_rules` produces). While proving `path(1,3)` (inside
    `path(1,5)`) the chainer meets `path(1,4)` with `path(1,3)` and `path(1,5)` on the `visited` stack:
    the only remaining candidate `path(1,2), e(2,4)` fails, no rule proof is found, the fallback
    `Fact{Derived} path(1,4)` is inserted *and memoised*; the root then uses that memoised leaf.
    `path(1,5)` has a derivation of depth 5 ≤ 50. -/
def w1Prog : Program :=
  [⟨⟨"path", [.var "X", .var "Y"]⟩, [.pos ⟨"e", [.var "X", .var "Y"]⟩]⟩,
   ⟨⟨"path", [.var "X", .var "Y"]⟩, [.pos ⟨"path", [.var "X", .var "Z"]⟩, .pos ⟨"e", [.var "Z", .var "Y"]⟩]⟩]
def w1Base : DB := [("e", [[.i64 1, .i64 2], [.i64 2, .i64 3], [.i64 3, .i64 4], [.i64 4, .i64 5]])]
def w1M : DB := [("path", [[.i64 1, .i64 2], [.i64 2, .i64 3], [.i64 3, .i64 4], [.i64 4, .i64 5],
  [.i64 1, .i64 3], [.i64 2, .i64 4], [.i64 3, .i64 5], [.i64 1, .i64 4], [.i64 2, .i64 5], [.i64 1, .i64 5]])]

theorem C22_refuted : ¬ C22_statement := by
  intro h
  have := h w1Prog w1Base w1M "path" [.i64 1, .i64 5] 50 5 (by decide) (by decide) (by decide) (by decide) (by decide)
  revert this
  decide

/-! The former second witness (finding `memo_truncated_reuse`, fixed: a rule step resting on a
    `Truncated` premise is no longer memoised): `reach(X) <- f(X)`, `reach(Y) <- reach(X), e(X,Y)`,
    `f = {1,2}`, `e = {(2,3)}`, limit 3 — `reach(3)` now gets its complete depth-3 proof. -/
def w2Prog : Program :=
  [⟨⟨"reach", [.var "X"]⟩, [.pos ⟨"f", [.var "X"]⟩]⟩,
   ⟨⟨"reach", [.var "Y"]⟩, [.pos ⟨"reach", [.var "X"]⟩, .pos ⟨"e", [.var "X", .var "Y"]⟩]⟩]
def w2Base : DB := [("e", [[.i64 2, .i64 3]]), ("f", [[.i64 1], [.i64 2]])]
def w2M : DB := [("reach", [[.i64 1], [.i64 2], [.i64 3]])]
example : (whyTree { rules := w2Prog, base := w2Base, derived := some w2M, maxDepth := 3 } "reach" [.i64 3]).complete = true := by
  decide

/-- **C22_partial (build_complete).** For every program of the fragment `c22Fragment` (decidable:
    positive bodies only, supported terms, *non-recursive* — a rank table `rk` with every body relation
    strictly below its head —, relations with rules store no facts and only they have derived tuples,
    canonical data), every derived data `M` that is a supported model (`supportedModel`, decidable: each
    derived tuple is produced by some clause over the world — true of the perfect model), every stored
    or derived tuple and every depth limit above the rank of its relation (= the height of the rule DAG
    below it), the tree `.why` returns is complete: no `Truncated` node — in particular not the fallback
    root — and no unexplained `Fact{Derived}` leaf. Proof: induction on the depth tower = on the rank;
    the cycle cut never fires (ranks strictly decrease along the `visited` stack), every true sub-goal
    is found among the candidates and has a non-empty proof list, so the derived-fact fallback and the
    truncation node are never created (ILV.Lemmas.ProvComplete.level_c). The refutation above needs recursion. -/
theorem C22_partial (prog : Program) (base M : DB) (rk : List (String × Nat)) (rel : String) (t : Tuple)
    (depth : Nat) (hf : c22Fragment prog base M rk = true) (hs : supportedModel prog base M = true)
    (hmem : t ∈ M.get rel ∨ t ∈ base.get rel) (hdepth : rankOf rk rel < depth)
    (harity : truncateToArity { rules := prog, base := base, derived := some M, maxDepth := depth } rel t = t) :
    (whyTree { rules := prog, base := base, derived := some M, maxDepth := depth } rel t).complete = true :=
  whyTree_complete prog base M rk rel t depth hf hs hmem hdepth harity

/-- the hypotheses are met by a non-trivial three-level program with joins, a head constant, a body
    constant, a wildcard and two clauses per head; the depth limit 3 is exactly rank + 1. -/
def pProg : Program :=
  [⟨⟨"a1", [.var "X", .var "Y"]⟩, [.pos ⟨"e", [.var "X", .var "Y"]⟩]⟩,
   ⟨⟨"a1", [.var "X", .var "X"]⟩, [.pos ⟨"f", [.var "X"]⟩]⟩,
   ⟨⟨"a2", [.var "X", .int 7]⟩, [.pos ⟨"a1", [.var "X", .var "Z"]⟩, .pos ⟨"a1", [.var "Z", .wild]⟩, .pos ⟨"e", [.int 1, .var "Z"]⟩]⟩]
def pBase : DB := [("e", [[.i64 1, .i64 2], [.i64 2, .i64 3]]), ("f", [[.i64 3]])]
def pM : DB := [("a1", [[.i64 1, .i64 2], [.i64 2, .i64 3], [.i64 3, .i64 3]]), ("a2", [[.i64 1, .i64 7]])]
def pRk : List (String × Nat) := [("e", 0), ("f", 0), ("a1", 1), ("a2", 2)]

example : (whyTree { rules := pProg, base := pBase, derived := some pM, maxDepth := 3 } "a2" [.i64 1, .i64 7]).complete = true :=
  C22_partial pProg pBase pM pRk "a2" [.i64 1, .i64 7] 3 (by decide) (by decide) (by decide) (by decide) (by decide)

end ILV.Props.C22
