/-
  C36 — Probabilistic and hash indexes never lose keys.
  Model: ILV.Model.Index (src/bloom_filter.rs, src/hash_index.rs).  The two base hashes of a key are
  a parameter (`h1 h2 : Nat`, resp. `h : Tuple → Nat × Nat`); nothing is assumed about them.
  Helper lemmas: ILV.Lemmas.Bloom, ILV.Lemmas.Index.  Key equality of the hash map is `Tuple`'s `==`,
  which is `=` by C31 (`Props.C31.tuple_eq_iff_eq`).
-/
import ILV.Lemmas.Index
namespace ILV.Props.C36
open ILV

/-! ## bloom filter -/

/-- **No false negatives.**  For every well-formed filter state, every history of `insert`/`clear`,
    and every hash pair: a pair inserted since the last `clear` is reported as possibly present. -/
theorem bloom_no_false_negative (b : Bloom) (w : b.WF) (ops : List BloomOp) (h1 h2 : Nat)
    (hin : insertedSinceClear h1 h2 ops = true) : (b.runOps ops).mightContain h1 h2 = true :=
  no_false_negative_aux ops b w h1 h2 hin

/-- … in particular for every filter `BloomFilter::with_params(num_bits, num_hashes)` can build,
    all sizes included (`num_bits < 64`, `num_hashes = 0` or `> 32`). -/
theorem bloom_no_false_negative_with_params (numBits numHashes : Nat) (ops : List BloomOp) (h1 h2 : Nat)
    (hin : insertedSinceClear h1 h2 ops = true) :
    ((Bloom.withParams numBits numHashes).runOps ops).mightContain h1 h2 = true :=
  bloom_no_false_negative _ (Bloom.withParams_WF _ _) ops h1 h2 hin

/-- … and for every filter `BloomFilter::new(n, p)` can build, whatever its two float expressions
    evaluate to. -/
theorem bloom_no_false_negative_new (rawBits rawK : Nat) (ops : List BloomOp) (h1 h2 : Nat)
    (hin : insertedSinceClear h1 h2 ops = true) :
    ((Bloom.newFrom rawBits rawK).runOps ops).mightContain h1 h2 = true :=
  bloom_no_false_negative _ (Bloom.newFrom_WF _ _) ops h1 h2 hin

/-- key-level reading: hashing is any function `hp` of the key; an inserted key is found. -/
theorem bloom_no_false_negative_keys {κ} [DecidableEq κ] (hp : κ → Nat × Nat) (b : Bloom) (w : b.WF)
    (pre post : List κ) (k : κ) :
    let ins := fun x => BloomOp.ins (hp x).1 (hp x).2
    (b.runOps ((pre ++ k :: post).map ins)).mightContain (hp k).1 (hp k).2 = true := by
  intro ins
  have hm : insertedSinceClear (hp k).1 (hp k).2 ((pre ++ k :: post).map ins) = true := by
    induction pre with
    | nil =>
      simp only [List.nil_append, List.map_cons, insertedSinceClear]
      by_cases hs : insertedSinceClear (hp k).1 (hp k).2 (post.map ins) = true
      · simp [hs]
      · have : (post.map ins).any (· == BloomOp.clear) = false := by
          simp [List.any_eq_false, ins]
        simp [hs, this, ins]
    | cons p pre ih =>
      simp only [List.cons_append, List.map_cons, insertedSinceClear, ih, if_true]
  exact bloom_no_false_negative b w _ _ _ hm

/-- the bits are monotone under `insert`: no positive answer is ever revoked without a `clear`. -/
theorem bloom_bits_monotone (b : Bloom) (h1 h2 x y : Nat) (hc : b.mightContain x y = true) :
    (b.insert h1 h2).mightContain x y = true :=
  mightContain_insert_mono b h1 h2 x y hc

/-- hypotheses are satisfiable and the statement is not vacuous: a degenerate filter
    (`with_params(0, 0)` → 64 bits, 1 hash), wrapping hashes, a `clear` in the middle. -/
example :
    let b := Bloom.withParams 0 0
    let ops := [BloomOp.ins 5 7, .clear, .ins (2^64 - 1) (2^64 - 1), .ins 12345678901234567890 9876543210987654321]
    b.WF ∧ b.numBits = 64 ∧ b.numHashes = 1 ∧
    insertedSinceClear (2^64 - 1) (2^64 - 1) ops = true ∧ insertedSinceClear 5 7 ops = false ∧
    (b.runOps ops).mightContain (2^64 - 1) (2^64 - 1) = true ∧ (b.runOps ops).mightContain 5 7 = false := by
  refine ⟨Bloom.withParams_WF 0 0, ?_⟩
  decide

/-! ## hash index -/

/-- **The hash index refines the multiset of stored tuples.**  For every hash function, every key-column
    list (out-of-range columns included), every well-formed initial bloom filter and every history of
    insert / remove / rebuild / get / get_with_bloom / probe / might_contain_key / len, each output of
    the index is the output of the multiset machine: `get k` = the stored tuples whose key columns equal
    `k` (in insertion order, hence in particular as multisets; `None` iff there are none), `remove t`
    reports whether `t` was stored and deletes one occurrence, `len` = number of stored tuples. -/
theorem index_refines_multiset (h : Tuple → Nat × Nat) (cols : List Nat) (b0 : Bloom) (w : b0.WF)
    (ops : List IxOp) :
    outsOk ops (HIndex.run h (HIndex.new cols b0) ops).2 (specRun cols [] ops) :=
  (run_refines h ops (HIndex.new cols b0) [] (IxInv.new h cols b0 w)).1

/-- **The bloom filter covers the index keys** in every reachable state, so the bloom-guarded lookup
    equals the plain lookup (`remove` never clears bits; `build_from_tuples` clears map and filter
    together). -/
theorem bloom_covers_index_keys (h : Tuple → Nat × Nat) (cols : List Nat) (b0 : Bloom) (w : b0.WF)
    (ops : List IxOp) (k : Tuple) :
    let ix := (HIndex.run h (HIndex.new cols b0) ops).1
    ((ix.get k).isSome = true → ix.mightContainKey h k = true) ∧ ix.getWithBloom h k = ix.get k := by
  intro ix
  obtain ⟨st', inv⟩ := (run_refines h ops (HIndex.new cols b0) [] (IxInv.new h cols b0 w)).2
  refine ⟨?_, inv.getWithBloom_eq k⟩
  intro hs
  cases hg : ix.get k with
  | none => rw [hg] at hs; cases hs
  | some v => exact inv.map.covers k v hg

/-- the counters are exact in every reachable state: `len()` is the number of stored tuples and
    `num_keys` the number of map entries (so the `-= 1` in `remove` never underflows). -/
theorem index_counters_exact (h : Tuple → Nat × Nat) (cols : List Nat) (b0 : Bloom) (w : b0.WF)
    (ops : List IxOp) :
    let ix := (HIndex.run h (HIndex.new cols b0) ops).1
    ix.numKeys = ix.index.length ∧ ∀ k v, ix.get k = some v → v ≠ [] := by
  intro ix
  obtain ⟨st', inv⟩ := (run_refines h ops (HIndex.new cols b0) [] (IxInv.new h cols b0 w)).2
  exact ⟨inv.nkeys, inv.map.nonempty⟩

/-- a concrete non-trivial history: duplicates, a removal that empties a key, a rebuild, an
    out-of-range key column, a constant (colliding) hash function. -/
example :
    let h : Tuple → Nat × Nat := fun _ => (3, 5)
    let t12 : Tuple := [.i64 1, .i64 2]
    let t13 : Tuple := [.i64 1, .i64 3]
    let t24 : Tuple := [.i64 2, .i64 4]
    let ops := [IxOp.ins t12, .ins t13, .ins t12, .ins t24, .get [.i64 1], .rem t24, .get [.i64 2],
                .rem t24, .build [t24, t13], .getB [.i64 1], .len]
    (HIndex.run h (HIndex.new [0, 7] (Bloom.newFrom 959 7)) ops).2 =
      [.unit, .unit, .unit, .unit, .rows (some [t12, t13, t12]), .bool true, .rows none,
       .bool false, .unit, .rows (some [t13]), .nat 2] ∧
    specRun [0, 7] [] ops = (HIndex.run h (HIndex.new [0, 7] (Bloom.newFrom 959 7)) ops).2 := by
  decide

end ILV.Props.C36
