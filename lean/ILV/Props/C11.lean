/-
  C11 — restart reproduces the live state.
  Model: ILV.Model.Store (live set semantics vs. the ±1-per-request update log, recovery = keep
  positive sums). Helper lemmas: ILV.Lemmas.Store.
-/
import ILV.Lemmas.StoreRun
namespace ILV.Props.C11
open ILV ILV.Batch ILV.Store ILV.Props.C31

/-- two tuple lists denote the same set. -/
def sameSet (a b : List Tuple) : Prop := ∀ t, t ∈ a ↔ t ∈ b

/-- **C11 at full strength**: in immediate durability mode, after any history, for every relation,
    what a restart serves is exactly what the running engine was serving. -/
def C11_statement : Prop :=
  ∀ (cfg : Cfg) (h : List Op) (r : String), cfg.mode = .immediate →
    sameSet (liveOf (restart realCodec (run realCodec cfg h)).1 r) (liveOf (run realCodec cfg h) r)

def t12 : Tuple := [.i64 1, .i64 2]

/-- re-insert of a present tuple, then delete: live `∅`, log sum `+1` → the tuple comes back. -/
def witnessResurrect : List Op := [.ins "r" [t12], .ins "r" [t12], .del "r" [t12]]
/-- delete of an absent tuple (of a known relation), then insert: live `{u, t}`, log sum of `t` is `0`
    → `t` is lost. -/
def witnessLoss : List Op := [.ins "r" [[.i64 1, .i64 3]], .del "r" [t12], .ins "r" [t12]]

theorem witnessResurrect_live : liveOf (run realCodec {} witnessResurrect) "r" = [] := by decide
theorem witnessResurrect_restart :
    liveOf (restart realCodec (run realCodec {} witnessResurrect)).1 "r" = [t12] := by decide
theorem witnessLoss_live : liveOf (run realCodec {} witnessLoss) "r" = [[.i64 1, .i64 3], t12] := by decide
theorem witnessLoss_restart : liveOf (restart realCodec (run realCodec {} witnessLoss)).1 "r" = [[.i64 1, .i64 3]] := by decide

theorem C11_refuted : ¬ C11_statement := by
  intro h
  have := (h {} witnessResurrect "r" rfl t12).1
  rw [witnessResurrect_restart, witnessResurrect_live] at this
  exact absurd (this (by simp)) (by simp)

/-- **the invariant behind C11** (`sum(log, t) = [t ∈ live]`): in immediate mode, for every codec that is
    the identity on the admissible tuples `G` (all of them well-formed), every buffer size and WAL limit,
    and every history whose requests are effective — inserts name pairwise different absent tuples,
    deletes name pairwise different present ones — with saves, compactions, clean and unclean restarts
    anywhere in it. Relative to C31 (`Tuple.cmp` lawful) through `mem_recover_iff`. -/
theorem C11_invariant (c : Codec) (G : String → Tuple → Prop) (hc : CodecOk c G) (hwf : ∀ r t, G r t → TupleWF t)
    (cfg : Cfg) (hm : cfg.mode = .immediate) (h : List Op) (he : Effective c G { cfg := cfg } h) (r : String) (t : Tuple) :
    sumOf t (logOf (run c cfg h) r) = if t ∈ liveOf (run c cfg h) r then 1 else 0 :=
  ((run_inv_from hc hwf h { cfg := cfg } (Inv_init G cfg) hm he).1.l.sums r t)

/-- **C11 for effective histories**: a restart reproduces the live state, and cannot fail. -/
theorem C11_partial (c : Codec) (G : String → Tuple → Prop) (hc : CodecOk c G) (hwf : ∀ r t, G r t → TupleWF t)
    (cfg : Cfg) (hm : cfg.mode = .immediate) (h : List Op) (he : Effective c G { cfg := cfg } h) (r : String) :
    (restart c (run c cfg h)).2 = none ∧
    sameSet (liveOf (restart c (run c cfg h)).1 r) (liveOf (run c cfg h) r) := by
  obtain ⟨hi, hm'⟩ := run_inv_from hc hwf h { cfg := cfg } (Inv_init G cfg) hm he
  obtain ⟨a, _, _, d⟩ := restart_inv hc hwf _ hi (hB_of_immediate hi.p hm')
  exact ⟨a, fun t => d r t⟩

/-- the stored relations never hold a tuple twice along such a history (used again by C32). -/
theorem C11_live_nodup (c : Codec) (G : String → Tuple → Prop) (hc : CodecOk c G) (hwf : ∀ r t, G r t → TupleWF t)
    (cfg : Cfg) (hm : cfg.mode = .immediate) (h : List Op) (he : Effective c G { cfg := cfg } h) (r : String) :
    (liveOf (run c cfg h) r).Nodup :=
  (run_inv_from hc hwf h { cfg := cfg } (Inv_init G cfg) hm he).1.l.nodup r

instance : ∀ (r : String) (t : Tuple), Decidable ((fun (_ : String) t => TupleWF t) r t) := fun _ t => inferInstanceAs (Decidable (TupleWF t))

def t13 : Tuple := [.i64 1, .i64 3]

/-- the hypotheses of `C11_partial` are met by a non-trivial history (flushes at buffer size 2,
    compaction, a restart in the middle, a delete and a re-insert), with the identity codec. -/
example : Effective idCodec (fun _ t => TupleWF t) { cfg := { buffer := 2 } }
    [.ins "r" [t12, t13], .del "r" [t12], .save, .restart, .ins "r" [t12], .compact, .del "r" [t13]] := by
  decide

example : CodecOk idCodec (fun _ t => TupleWF t) := ⟨fun _ _ _ => rfl, fun _ _ _ => rfl⟩

/-- and its conclusion is not vacuous there: the live state is `{t12}` before and after the restart. -/
example : liveOf (run idCodec { buffer := 2 }
    [.ins "r" [t12, t13], .del "r" [t12], .save, .restart, .ins "r" [t12], .compact, .del "r" [t13]]) "r" = [t12] := by
  decide

end ILV.Props.C11
