/-
  C11 — restart reproduces the live state.
  Model: ILV.Model.Store (live set semantics vs. the ±1-per-request update log, recovery = keep
  positive sums). Helper lemmas: ILV.Lemmas.Store.
-/
import ILV.Model.Store
namespace ILV.Props.C11
open ILV ILV.Batch ILV.Store

/-- two tuple lists denote the same set. -/
def sameSet (a b : List Tuple) : Prop := ∀ t, t ∈ a ↔ t ∈ b

/-- **C11 at full strength**: in immediate durability mode, after any history, for every relation,
    what a restart serves is exactly what the running engine was serving. -/
def C11_statement : Prop :=
  ∀ (cfg : Cfg) (h : List Op) (r : String), cfg.mode = .immediate →
    sameSet (liveOf (restart realCodec (run realCodec cfg h)).1 r) (liveOf (run realCodec cfg h) r)

def t12 : Tuple := [.i64 1, .i64 2]

/-- re-insert of a present tuple, then delete: live `∅`, log sum `+1` → the tuple comes back. -/
def witnessResurrect : List Op := [.ins "r" [t12], .ins "r" [t12], .del "r" [t12]]
/-- delete of an absent tuple, then insert: live `{t}`, log sum `0` → the tuple is lost. -/
def witnessLoss : List Op := [.del "r" [t12], .ins "r" [t12]]

theorem witnessResurrect_live : liveOf (run realCodec {} witnessResurrect) "r" = [] := by decide
theorem witnessResurrect_restart :
    liveOf (restart realCodec (run realCodec {} witnessResurrect)).1 "r" = [t12] := by decide
theorem witnessLoss_live : liveOf (run realCodec {} witnessLoss) "r" = [t12] := by decide
theorem witnessLoss_restart : liveOf (restart realCodec (run realCodec {} witnessLoss)).1 "r" = [] := by decide

theorem C11_refuted : ¬ C11_statement := by
  intro h
  have := (h {} witnessResurrect "r" rfl t12).1
  rw [witnessResurrect_restart, witnessResurrect_live] at this
  exact absurd (this (by simp)) (by simp)

end ILV.Props.C11
