/-
  C07 — Answer tuples are well-formed sets: no duplicates, the arity of the queried head, head
  constants in their positions.

  Model: `Engine.run` (ILV.Model.Engine), every configuration without a row limit (any worker
  count, any partitioner), including the recursive min/max "aggregation in loop" path
  (code_generator:1039-1187) as repaired by fixes/C07-recursive_minmax_head.diff: the recursive
  body is projected onto the head columns before it is concatenated with the base case. Before
  the repair the loop variable carried tuples of the clause *body's* arity and the answer of the
  shortest-path program mixed tuples of length 3 and 6 (old finding `recursive_minmax_head`,
  witness kept in corpus/C07/). Other aggregates inside a recursive clause are outside the model
  (`err:fragment`): the statement is about every run on which the model answers.
-/
import ILV.Lemmas.WellFormed
import ILV.Drv.C07
import ILV.Drv.C03
namespace ILV.Props.C07
open ILV ILV.DL ILV.Engine

/-- Spec of C07 for an answer `A` to a query on head `h` of program `p`. -/
def WellFormedAnswer (p : Program) (h : String) (A : List Tuple) : Prop :=
  A.Nodup ∧ ∀ t, t ∈ A → ∃ r, r ∈ clausesOf p h ∧ Fits r t

/-- **C07 on the model's domain.** Whenever the model engine answers (which excludes exactly the
    programs with an aggregate in a recursive clause), under any switches-off configuration
    without row limit, any worker count, partitioner, emission order and fuel, and heads without
    stored facts: the answer is duplicate-free and every tuple has the arity of a clause of the
    executed head, with that clause's head constants in place. -/
theorem C07_partial (cfg : Cfg) (hlim : cfg.limit = 0) (hash : Tuple → Nat) (ord : String → List Tuple → List Tuple)
    (fuel : Nat) (p : Program) (edb : DB) (A : List Tuple) (acc : DB)
    (hno : ∀ h, h ∈ heads p → edb.get h = [])
    (hexec : (execOrder p).all (heads p).contains = true)
    (hrun : Engine.run cfg hash ord fuel p edb = .ok A acc) :
    ∀ g, (execOrder p).getLast? = some g → WellFormedAnswer p g A := by
  have hheads : ∀ g, g ∈ execOrder p → g ∈ heads p :=
    fun g hg => List.contains_iff_mem.1 (List.all_eq_true.1 hexec g hg)
  have := execLoop_wf cfg hlim hash ord fuel p edb hno (execOrder p) [] [] A acc hheads
    (fun g ts hg => by cases hg) (run_loop _ _ _ _ _ _ _ _ hrun)
  exact this.2

/-- the former counterexample: shortest paths by recursive `min`. -/
def shortestPath : Program := [
  { hrel := "a", hargs := [.var "X", .var "Y", .agg .min "D"], body := [.pos ⟨"w", [.var "X", .var "Y", .var "D"]⟩] },
  { hrel := "a", hargs := [.var "X", .var "Z", .agg .min "D"],
    body := [.pos ⟨"a", [.var "X", .var "Y", .var "U"]⟩, .pos ⟨"w", [.var "Y", .var "Z", .var "V"]⟩,
             .cmp .eq (.var "D") (.bin .add (.var "U") (.var "V"))] },
  { hrel := "q", hargs := [.var "X", .var "Y", .var "D"], body := [.pos ⟨"a", [.var "X", .var "Y", .var "D"]⟩] } ]

/-- it runs through the aggregation-in-loop path and every answer tuple has the head's arity 3.
    (The superseded tuple `(1,3,9)` stays in the answer next to `(1,3,6)`: the capture keeps
    retracted records — outside C07's statement, see notes/C07.md.) -/
example : Drv.C07.recursiveMinMaxHead shortestPath = true ∧
    (Engine.run {} (fun _ => 0) (fun _ ts => ts) 8 shortestPath
      [("w", [[.i64 1, .i64 2, .i64 5], [.i64 2, .i64 3, .i64 1], [.i64 1, .i64 3, .i64 9]])]).toWire
      = "i64:1,i64:2,i64:5;i64:1,i64:3,i64:6;i64:1,i64:3,i64:9;i64:2,i64:3,i64:1" := by
  decide

/-- a head with a constant, an aggregate head and a self-recursive head; 2 workers. The
    hypotheses hold and the answer is non-empty. -/
def mixed : Program := [
  { hrel := "t", hargs := [.var "X", .var "Y"], body := [.pos ⟨"e", [.var "X", .var "Y"]⟩] },
  { hrel := "t", hargs := [.var "X", .var "Z"], body := [.pos ⟨"t", [.var "X", .var "Y"]⟩, .pos ⟨"e", [.var "Y", .var "Z"]⟩] },
  { hrel := "c", hargs := [.var "X", .agg .count "Y"], body := [.pos ⟨"t", [.var "X", .var "Y"]⟩] },
  { hrel := "q", hargs := [.const (.i64 7), .var "X", .var "N"], body := [.pos ⟨"c", [.var "X", .var "N"]⟩] } ]
def mixedDb : DB := [("e", [[.i64 1, .i64 2], [.i64 2, .i64 3]])]

example : (heads mixed).all (fun h => (mixedDb.get h).isEmpty) = true ∧
    (execOrder mixed).all (heads mixed).contains = true ∧ (execOrder mixed).getLast? = some "q" ∧
    (Engine.run { workers := 2 } Drv.C03.parity3 (fun _ ts => ts) 8 mixed mixedDb).toWire
      = "i64:7,i64:1,i64:2;i64:7,i64:2,i64:1" := by
  decide

end ILV.Props.C07
