/-
  C05 — IR rewrite passes preserve plan semantics.

  Objects: `ILV.IR.eval` (the denotation of an IR tree as the bag of rows the code generator's
  Differential-Dataflow collection holds; `answer = dedup ∘ eval` is what `CodeGenerator::execute`
  returns) and the pass models of ILV.Model.IROpt (`Optimizer::optimize` with each of its rules,
  `BooleanSpecializer::specialize`). Both are the definitions the driver `ilvd` executes and compares
  with the Rust code on every run (requests `c05.eval`, `c05.pass`).

  Rule theorems are stated as *equality of the row lists* (so in particular of bags and of sets).
  `wf db t`: declared widths = row arities, indices in range, union branches of one width, scans
  conform to `db`, no `Filter(_, False)` / empty `Union` (ILV.Model.IRWF).

  Join planning (`JoinPlanner::plan_joins`) has no Lean model: it is validated per instance only
  (translation validation with `eval`, see notes/C05.md).
-/
import ILV.Lemmas.IROptimize
import ILV.Lemmas.IRBS
namespace ILV.Props.C05
open ILV ILV.IR

/-! ## concrete trees used by the `example`s and refutations -/

def r1 : Node := .scan "r1" ["X", "Y"]
def r2 : Node := .scan "r2" ["Y", "Z"]
def r4 : Node := .scan "r4" ["X"]
def j12 : Node := .join r1 r2 [1] [0] ["X", "Y", "Z"]
def db1 : Db :=
  [("r1", [[.i64 1, .i64 7], [.i64 2, .i64 3]]), ("r2", [[.i64 7, .i64 1], [.i64 3, .i64 9]]), ("r4", [[.i64 1], [.i64 2]])]

/-! ## one theorem per rewrite rule of `Optimizer::apply_all_rules` (all trees, all databases) -/

/-- `eliminate_identity_maps` -/
theorem identity_map_elim (db : Db) (t : Node) (h : wf db t = true) : eval db (elimIdMaps t) = eval db t :=
  (elimIdMaps_ok db t h).ev
example : wf db1 (.map j12 [0, 1, 2] ["X", "Y", "Z"]) = true ∧ elimIdMaps (.map j12 [0, 1, 2] ["X", "Y", "Z"]) = j12 := by decide

/-- `eliminate_always_true_filters` -/
theorem filter_true_elim (db : Db) (t : Node) (h : wf db t = true) : eval db (elimTrue t) = eval db t :=
  (elimTrue_ok db t h).ev
example : wf db1 (.filter r1 .tt) = true ∧ elimTrue (.filter r1 .tt) = r1 := by decide

/-- `eliminate_always_false_filters`: `Filter(x, False) → Union[]` denotes the empty bag, for *every* tree. -/
theorem filter_false (db : Db) (i : Node) : eval db (elimFalse (.filter i .ff)) = eval db (.filter i .ff) := by
  simp [elimFalse, eval, evalList, Pred.eval, Pred.evalG]
example : elimFalse (.filter r1 .ff) = .union .nil := by decide

/-- `fuse_consecutive_maps`, projection composition `p1[p2[i]]` -/
theorem map_fuse (db : Db) (t : Node) (h : wf db t = true) : eval db (fuseMaps t) = eval db t :=
  (fuseMaps_ok db t h).ev
example : wf db1 (.map (.map j12 [2, 0] ["Z", "X"]) [1] ["X"]) = true ∧
    fuseMaps (.map (.map j12 [2, 0] ["Z", "X"]) [1] ["X"]) = .map j12 [0] ["X"] := by decide

/-- `fuse_consecutive_filters` -/
theorem filter_fuse (db : Db) (t : Node) (h : wf db t = true) : eval db (fuseFilters t) = eval db t :=
  (fuseFilters_ok db t h).ev
example : wf db1 (.filter (.filter r1 (.cc .gt 0 1)) (.cc .lt 1 5)) = true ∧
    fuseFilters (.filter (.filter r1 (.cc .gt 0 1)) (.cc .lt 1 5)) = .filter r1 (.and (.cc .gt 0 1) (.cc .lt 1 5)) := by decide

/-- `pushdown_filters` into a join (left input unchanged; right input through
    `remap_predicate_columns_to_right_input`, which re-inserts the omitted key positions) -/
theorem pushdown_into_join (db : Db) (t : Node) (h : wf db t = true) : eval db (pushdown t) = eval db t :=
  (pushdown_ok db t h).ev
-- fires to the left, and to the right *past a key column* (the input that failed before the repair)
example : wf db1 (.filter j12 (.cc .gt 0 1)) = true ∧
    pushdown (.filter j12 (.cc .gt 0 1)) = .join (.filter r1 (.cc .gt 0 1)) r2 [1] [0] ["X", "Y", "Z"] := by decide
example : wf db1 (.filter j12 (.cc .gt 2 5)) = true ∧
    pushdown (.filter j12 (.cc .gt 2 5)) = .join r1 (.filter r2 (.cc .gt 1 5)) [1] [0] ["X", "Y", "Z"] ∧
    eval db1 (pushdown (.filter j12 (.cc .gt 2 5))) = [[.i64 2, .i64 3, .i64 9]] := by decide

/-- `eliminate_empty_unions` -/
theorem empty_union_elim (db : Db) (t : Node) (h : wf db t = true) : eval db (elimEmpty t) = eval db t :=
  (elimEmpty_ok db t h).ev
example : wf db1 (.union (.cons r1 .nil)) = true ∧ elimEmpty (.union (.cons r1 .nil)) = r1 := by decide

/-- one round `apply_all_rules` -/
theorem apply_all_rules_preserves (db : Db) (t : Node) (h : wf db t = true) : eval db (applyAll t) = eval db t :=
  (applyAll_ok db t h).ev

/-- the fix-point driver: any number of denotation-preserving steps preserves the denotation
    (generic statement; instantiated for `apply_all_rules` in `fixpoint_preserves`). -/
theorem iterate_preserves {α β} (f : α → α) (den : α → β) (inv : α → Prop)
    (step : ∀ x, inv x → inv (f x) ∧ den (f x) = den x) (n : Nat) (x : α) (h : inv x) :
    inv (iter f n x) ∧ den (iter f n x) = den x :=
  IR.iterate_preserves f den inv step n x h

theorem fixpoint_preserves (db : Db) (n : Nat) (t : Node) (h : wf db t = true) :
    eval db (iter applyAll n t) = eval db t :=
  (iter_applyAll_ok db n t h).ev

/-- `fuse_to_flatmap`: `Filter(Map(x, proj), pred) = FlatMap(x, proj, Some(pred))` -/
theorem map_filter_fusion (db : Db) (t : Node) (h : wf db t = true) : eval db (fuseFlatMap t) = eval db t :=
  (fuseFlatMap_ok db t h).ev
example : wf db1 (.filter (.map r1 [1] ["Y"]) (.cc .gt 0 1)) = true ∧
    fuseFlatMap (.filter (.map r1 [1] ["Y"]) (.cc .gt 0 1)) = .flatMap r1 [1] (some (.cc .gt 0 1)) ["Y"] := by decide

/-- `fuse_to_join_flatmap` with `remap_projection_for_join_flatmap`: the projection over the join
    output (left ++ right non-keys) is re-indexed into left ++ *all* right columns. -/
theorem join_flatmap_fusion (db : Db) (t : Node) (h : wf db t = true) : eval db (fuseJFM t) = eval db t :=
  (fuseJFM_ok db t h).2.1
example : wf db1 (.map j12 [2, 0] ["Z", "X"]) = true ∧
    fuseJFM (.map j12 [2, 0] ["Z", "X"]) = .joinFlatMap r1 r2 [1] [0] [3, 0] none ["Z", "X"] := by decide

/-! ## `Optimizer::optimize` -/

/-- **C05 for the basic optimizer, full strength**: `Optimizer::optimize` returns a plan with exactly the
    same rows, for every well-formed plan and every database. -/
theorem C05_opt (db : Db) (t : Node) (h : wf db t = true) : eval db (optimize t) = eval db t :=
  optimize_eval db t h

theorem C05_opt_answer (db : Db) (t : Node) (h : wf db t = true) : answer db (optimize t) = answer db t := by
  unfold answer; rw [C05_opt db t h]

-- the plan of `q(X,Y,Z) <- r1(X,Y), r2(Y,Z), Z > 5` (the witness of the repaired defect) and a builder-shaped plan
example : let t := Node.filter j12 (.cc .gt 2 5)
    wf db1 t = true ∧ optimize t = .join r1 (.filter r2 (.cc .gt 1 5)) [1] [0] ["X", "Y", "Z"] ∧
    answer db1 (optimize t) = [[.i64 2, .i64 3, .i64 9]] := by decide
example : let t := Node.map (.filter j12 (.cc .gt 0 1)) [2, 0] ["Z", "X"]
    wf db1 t = true ∧
    optimize t = .joinFlatMap (.filter r1 (.cc .gt 0 1)) r2 [1] [0] [3, 0] none ["Z", "X"] ∧
    answer db1 t = [[.i64 9, .i64 2]] := by decide

/-- well-formedness cannot be dropped from the clean-tree condition either: a `Union` whose first branch
    is `Filter(_, False)` reports width 0 after `eliminate_always_false_filters`, and the push-down of the
    same round then moves a left-column predicate into the right input (known finding
    `empty_first_union_branch_width`; IR level only, the builder never nests a `Union` below a `Join`). -/
theorem opt_unclean_refuted :
    ∃ (db : Db) (t : Node), wf db t = false ∧ ¬ SetEq (answer db (optimize t)) (answer db t) := by
  refine ⟨[("r1", [[.i64 2, .i64 0]]), ("r2", [[.i64 4, .i64 3], [.i64 0, .i64 4]])],
    .filter (.join (.union (.cons (.filter r1 .ff) (.cons r1 .nil))) r2 [] [] ["X", "Y", "Y2", "Z"]) (.cc .gt 0 1),
    by decide, ?_⟩
  intro h
  have := h [.i64 2, .i64 0, .i64 0, .i64 4]
  revert this
  decide

/-! ## Boolean specialisation -/

def C05_bs_statement : Prop :=
  ∀ (db : Db) (t : Node), wf db t = true → SetEq (answer db (specialize t).1) (answer db t)

def tBS : Node :=
  .distinct (.aggregate (.join (.map r1 [0] ["X"]) r4 [0] [0] ["X"]) [0] [(.count, 0)] ["X", "n"])
def dbBS : Db := [("r1", [[.i64 3, .i64 2], [.i64 3, .i64 1]]), ("r4", [[.i64 3]])]

/-- refuted: under a `Distinct` root the Boolean annotation is passed below the `Aggregate`, whose
    join input is then wrapped in `Distinct` — `count` drops from 2 to 1. -/
theorem C05_bs_refuted : ¬ C05_bs_statement := by
  intro h
  have := h dbBS tBS (by decide) [.i64 3, .i64 2]
  revert this
  decide

/-- when the root annotation is not Boolean (every plan with an `Aggregate` that is not below a
    `Distinct`, in particular every aggregate rule the builder produces) the rows are unchanged -/
theorem C05_bs_partial_counting (db : Db) (t : Node) (h : analyze t ≠ .boolean) :
    eval db (specialize t).1 = eval db t := by
  have : (analyze t == Semiring.boolean) = false := by simpa using h
  simp only [specialize, this]
  exact bs_false_eval db t
example : analyze (.aggregate j12 [0] [(.count, 2)] ["X", "n"]) ≠ .boolean := by decide

/-- on aggregate-free plans the answer set is unchanged whatever the annotation -/
theorem C05_bs_partial_aggfree (db : Db) (t : Node) (h : aggFree t = true) :
    SetEq (answer db (specialize t).1) (answer db t) := by
  intro x
  simp only [answer, mem_dedup, specialize]
  exact bs_setEq db _ t h x
example : aggFree (.map j12 [2, 0] ["Z", "X"]) = true ∧
    (specialize (.map j12 [2, 0] ["Z", "X"])).1 = .map (.distinct j12) [2, 0] ["Z", "X"] := by decide

/-! ## the property -/

/-- C05 for the modelled passes, full strength -/
def C05_statement : Prop :=
  (∀ (db : Db) (t : Node), wf db t = true → SetEq (answer db (optimize t)) (answer db t)) ∧ C05_bs_statement

/-- still refuted, by Boolean specialisation only (the optimizer half is `C05_opt`). -/
theorem C05_refuted : ¬ C05_statement := fun h => C05_bs_refuted h.2

/-- C05, proved part: both modelled passes preserve the answer of every well-formed plan outside the
    excluded input class of Boolean specialisation. -/
theorem C05_partial (db : Db) (t : Node) (h : wf db t = true) :
    answer db (optimize t) = answer db t ∧
    ((analyze t ≠ .boolean ∨ aggFree t = true) → SetEq (answer db (specialize t).1) (answer db t)) := by
  refine ⟨C05_opt_answer db t h, ?_⟩
  rintro (hb | ha)
  · intro x; simp only [answer, C05_bs_partial_counting db t hb]
  · exact C05_bs_partial_aggfree db t ha

end ILV.Props.C05
