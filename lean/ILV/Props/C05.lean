import ILV.Model.IROpt
namespace ILV.Props.C05
open ILV ILV.IR

theorem placeholder_filter_true (db : Db) (i : Node) : eval db (.filter i .tt) = eval db i := by
  simp [eval, Pred.eval, Pred.evalG]

end ILV.Props.C05
