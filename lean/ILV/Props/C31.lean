/-
  C31 — Value comparison is a total order consistent with equality and hashing.
  Model: ILV.Model.Value (mirror of src/value/mod.rs after the `fix:` commit that switched
  `Float64` ordering to `f64::total_cmp` and `Vector` equality to bit equality).
  Only property theorems live here; generic comparator lemmas are in ILV.Lemmas.Order.
-/
import ILV.Lemmas.Order
import ILV.Lemmas.ConsolidateC31
namespace ILV.Props.C31
open ILV

/-- Well-formedness: a `Float64` carries a 64-bit pattern (what `f64::to_bits` can return). -/
def Value.WF : Value → Prop
  | .f64 b => b < 2^64
  | _ => True

instance : DecidablePred Value.WF := fun v => by cases v <;> simp only [Value.WF] <;> infer_instance

theorem f64TotalKey_inj (a b : Nat) (ha : a < 2^64) (hb : b < 2^64)
    (h : f64TotalKey a = f64TotalKey b) : a = b := by
  unfold f64TotalKey at h
  simp only [Nat.reducePow] at *
  split at h <;> split at h <;> simp_all <;> omega

theorem f64_lawful : LawfulOn (fun b : Nat => b < 2^64) (fun a b => compare (f64TotalKey a) (f64TotalKey b)) :=
  int_lawful.comap f64TotalKey (fun _ _ => trivial) f64TotalKey_inj

theorem allTrue {α} (l : List α) : AllP (fun _ : α => True) l := fun _ _ => trivial

theorem eq_iff_eq (a b : Value) : Value.eq a b = true ↔ a = b := by
  cases a <;> cases b <;> simp [Value.eq]

theorem cmp_le_rank (a b : Value) (h : Value.cmp a b ≠ .gt) : a.rank ≤ b.rank := by
  cases a <;> cases b <;> simp [Value.cmp, Value.rank] at h ⊢ <;> exact absurd (by decide) h

theorem cmp_of_rank_lt (a b : Value) (h : a.rank < b.rank) : Value.cmp a b = .lt := by
  cases a <;> cases b <;> simp [Value.rank] at h <;> simp [Value.cmp, Value.rank] <;> decide

theorem cmp_of_rank_gt (a b : Value) (h : b.rank < a.rank) : Value.cmp a b = .gt := by
  cases a <;> cases b <;> simp [Value.rank] at h <;> simp [Value.cmp, Value.rank] <;> decide

/-- `a == b` exactly when the comparison says `Equal`. -/
theorem cmp_eq_iff (a b : Value) (ha : Value.WF a) (hb : Value.WF b) :
    Value.cmp a b = .eq ↔ a = b := by
  by_cases hr : a.rank = b.rank
  · cases a <;> cases b <;> simp [Value.rank] at hr <;> simp only [Value.cmp]
    · rw [Value.i32.injEq]; exact int_lawful.eq_iff _ _ trivial trivial
    · rw [Value.i64.injEq]; exact int_lawful.eq_iff _ _ trivial trivial
    · rw [Value.f64.injEq]; exact f64_lawful.eq_iff _ _ ha hb
    · rw [Value.str.injEq]; exact (lex_lawful nat_lawful).eq_iff _ _ (allTrue _) (allTrue _)
    · rw [Value.bool.injEq]; exact bool_lawful.eq_iff _ _ trivial trivial
    · rw [Value.vec.injEq]; exact (lenThenLex_lawful nat_lawful).eq_iff _ _ (allTrue _) (allTrue _)
    · rw [Value.vec8.injEq]; exact (lenThenLex_lawful int_lawful).eq_iff _ _ (allTrue _) (allTrue _)
    · rw [Value.ts.injEq]; exact int_lawful.eq_iff _ _ trivial trivial
  · constructor
    · intro h
      rcases Nat.lt_or_gt_of_ne hr with h' | h'
      · rw [cmp_of_rank_lt a b h'] at h; cases h
      · rw [cmp_of_rank_gt a b h'] at h; cases h
    · intro h; subst h; exact absurd rfl hr

theorem cmp_swap (a b : Value) (ha : Value.WF a) (hb : Value.WF b) :
    Value.cmp b a = (Value.cmp a b).swap := by
  rcases Nat.lt_trichotomy a.rank b.rank with h | h | h
  · rw [cmp_of_rank_lt a b h, cmp_of_rank_gt b a h]; rfl
  · cases a <;> cases b <;> simp [Value.rank] at h <;> simp only [Value.cmp]
    · exact int_lawful.swap _ _ trivial trivial
    · exact int_lawful.swap _ _ trivial trivial
    · exact f64_lawful.swap _ _ ha hb
    · exact (lex_lawful nat_lawful).swap _ _ (allTrue _) (allTrue _)
    · exact bool_lawful.swap _ _ trivial trivial
    · rfl
    · exact (lenThenLex_lawful nat_lawful).swap _ _ (allTrue _) (allTrue _)
    · exact (lenThenLex_lawful int_lawful).swap _ _ (allTrue _) (allTrue _)
    · exact int_lawful.swap _ _ trivial trivial
  · rw [cmp_of_rank_gt a b h, cmp_of_rank_lt b a h]; rfl

theorem cmp_trans (a b c : Value) (ha : Value.WF a) (hb : Value.WF b) (hc : Value.WF c)
    (h1 : Value.cmp a b ≠ .gt) (h2 : Value.cmp b c ≠ .gt) : Value.cmp a c ≠ .gt := by
  have r1 := cmp_le_rank a b h1
  have r2 := cmp_le_rank b c h2
  by_cases hlt : a.rank < c.rank
  · rw [cmp_of_rank_lt a c hlt]; decide
  · have e1 : a.rank = b.rank := by omega
    have e2 : b.rank = c.rank := by omega
    cases a <;> cases b <;> simp [Value.rank] at e1 <;> cases c <;> simp [Value.rank] at e2 <;>
      simp only [Value.cmp] at h1 h2 ⊢
    · exact int_lawful.trans _ _ _ trivial trivial trivial h1 h2
    · exact int_lawful.trans _ _ _ trivial trivial trivial h1 h2
    · exact f64_lawful.trans _ _ _ ha hb hc h1 h2
    · exact (lex_lawful nat_lawful).trans _ _ _ (allTrue _) (allTrue _) (allTrue _) h1 h2
    · exact bool_lawful.trans _ _ _ trivial trivial trivial h1 h2
    · decide
    · exact (lenThenLex_lawful nat_lawful).trans _ _ _ (allTrue _) (allTrue _) (allTrue _) h1 h2
    · exact (lenThenLex_lawful int_lawful).trans _ _ _ (allTrue _) (allTrue _) (allTrue _) h1 h2
    · exact int_lawful.trans _ _ _ trivial trivial trivial h1 h2

/-- `Ord for Value` is a total order consistent with `=` on well-formed values. -/
theorem value_lawful : LawfulOn Value.WF Value.cmp where
  eq_iff := cmp_eq_iff
  swap := cmp_swap
  trans := cmp_trans

/-- **C31, values.** For all (well-formed) values `a b c`: compare-equal ⇔ `==`; `==` ⇒ equal hasher
    input; antisymmetry; transitivity. -/
theorem C31_values (a b c : Value) (ha : Value.WF a) (hb : Value.WF b) (hc : Value.WF c) :
    ((Value.cmp a b = .eq) ↔ (Value.eq a b = true)) ∧
    (Value.eq a b = true → Value.hashKey a = Value.hashKey b) ∧
    (Value.cmp b a = (Value.cmp a b).swap) ∧
    (Value.cmp a b ≠ .gt → Value.cmp b c ≠ .gt → Value.cmp a c ≠ .gt) := by
  refine ⟨?_, ?_, cmp_swap a b ha hb, cmp_trans a b c ha hb hc⟩
  · rw [eq_iff_eq]; exact cmp_eq_iff a b ha hb
  · intro h; rw [(eq_iff_eq a b).1 h]

theorem tuple_eq_iff_eq : ∀ a b : Tuple, Tuple.eq a b = true ↔ a = b := by
  intro a
  induction a with
  | nil => intro b; cases b <;> simp [Tuple.eq, listAll2]
  | cons x xs ih =>
    intro b
    cases b with
    | nil => simp [Tuple.eq, listAll2]
    | cons y ys =>
      have := ih ys
      simp only [Tuple.eq] at this
      simp [Tuple.eq, listAll2, eq_iff_eq, this]

/-- **C31, tuples inherit the laws** (lexicographic lift). -/
theorem C31_tuples (a b c : Tuple) (ha : AllP Value.WF a) (hb : AllP Value.WF b) (hc : AllP Value.WF c) :
    ((Tuple.cmp a b = .eq) ↔ (Tuple.eq a b = true)) ∧
    (Tuple.eq a b = true → Tuple.hashKey a = Tuple.hashKey b) ∧
    (Tuple.cmp b a = (Tuple.cmp a b).swap) ∧
    (Tuple.cmp a b ≠ .gt → Tuple.cmp b c ≠ .gt → Tuple.cmp a c ≠ .gt) := by
  have L := lex_lawful value_lawful
  refine ⟨?_, ?_, L.swap a b ha hb, L.trans a b c ha hb hc⟩
  · rw [tuple_eq_iff_eq]; exact L.eq_iff a b ha hb
  · intro h; rw [(tuple_eq_iff_eq a b).1 h]

/-- the awkward values are inside the theorem's domain: 0.0, -0.0, a NaN, and a NaN vector. -/
example : Value.WF (.f64 0) ∧ Value.WF (.f64 (2^63)) ∧ Value.WF (.f64 0x7ff8000000000000) ∧
    Value.WF (.vec [0x7fc00000]) := by decide

/-- and the laws are not vacuous on them: -0.0 < 0.0 < NaN, none of them `==` another. -/
example : Value.cmp (.f64 (2^63)) (.f64 0) = .lt ∧ Value.cmp (.f64 0) (.f64 0x7ff8000000000000) = .lt ∧
    Value.eq (.f64 0) (.f64 (2^63)) = false ∧ Value.eq (.vec [0x7fc00000]) (.vec [0x7fc00000]) = true := by
  decide

/-- the tuple order is lawful (this is `C31_tuples` packaged for reuse). -/
theorem tuple_lawful : LawfulOn (AllP Value.WF) Tuple.cmp := lex_lawful value_lawful

/-- **C31, consumer of the order (consolidate.rs).** Because compare-equal and `==` coincide, sorting
    by `cmp` and merging `==` neighbours computes the exact net multiplicity of *every* tuple, emits
    no zero entries and no tuple twice — for all update lists. (On the pinned tree this failed for
    signed-zero and NaN tuples; it is what recovery after restart relies on.) -/
theorem C31_consolidate (l : List Upd) (hl : ∀ u ∈ l, AllP Value.WF u.data) :
    (∀ t, sumFor t (consolidateToCurrent l) = sumFor t l) ∧
    (∀ u ∈ consolidateToCurrent l, u.diff ≠ 0) ∧
    (consolidateToCurrent l).Pairwise (fun a b => Tuple.cmp a.data b.data = .lt) := by
  have hsorted := pairwise_stableSort leData (fun u => AllP Value.WF u.data)
    (leData_total tuple_lawful) (leData_trans tuple_lawful) l hl
  have hmem : ∀ u ∈ stableSort leData l, AllP Value.WF u.data :=
    fun u hu => hl u ((mem_stableSort leData u l).1 hu)
  have hsum : ∀ t, sumFor t (stableSort leData l) = sumFor t l := fun t => sumFor_stableSort leData t l
  unfold consolidateToCurrent
  cases hs : stableSort leData l with
  | nil =>
    rw [hs] at hsum
    exact ⟨fun t => by simpa [sumFor] using hsum t, by simp, by simp⟩
  | cons u us =>
    rw [hs] at hsorted hmem hsum
    have hu := hmem u (by simp)
    have hus : WFU (AllP Value.WF) us := fun w hw => hmem w (by simp [hw])
    obtain ⟨i1, i2, i3⟩ := mergeRun_spec tuple_lawful us u hu hus hsorted
    exact ⟨fun t => by rw [i1 t, hsum t], fun w hw => (i2 w hw).1, i3⟩

example : consolidateToCurrent [⟨[.f64 0], 1, 1⟩, ⟨[.f64 (2^63)], 2, 1⟩, ⟨[.f64 0], 3, -1⟩] = [⟨[.f64 (2^63)], 2, 1⟩] := by
  decide

end ILV.Props.C31
