/-
  C01 — Query answers equal the stratified least model.

  Model: `Engine.run` (ILV.Model.Engine — `IQLEngine::execute_tuples_profiled`, src/lib.rs:1532, at
  head granularity, switches off). Spec: `pmEval` (ILV.Model.Datalog — stratum-wise least model
  with a whole-program supported-model check). Helper lemmas: ILV.Lemmas.Datalog / Engine.

  The full statement is false of the faithful model (the code has defects): `C01_refuted`
  (mutual recursion) and one further refutation for the remaining always-on clause-level defect
  (dropped equality; the push-down defect is repaired on the `ir` branch: fixes/C05-pushdown_right_past_join_key.diff)
  (the wildcard-naming defect is repaired: fixes/C01-same_relation_wildcard_position.diff).
  `C01_partial` is the part that is proved: non-recursive, aggregate-free programs whose
  execution order (the code's own topological sort) respects the dependencies.
-/
import ILV.Lemmas.Engine
import ILV.Lemmas.Spec
import ILV.Lemmas.Faithful
import ILV.Lemmas.LeastModel
import ILV.Drv.C01
namespace ILV.Props.C01
open ILV ILV.DL ILV.Engine

/-- The property at full strength: whenever the engine answers and the Spec defines the least
    model, the answer is the query relation of that model. -/
def C01_statement : Prop :=
  ∀ (p : Program) (edb : DB) (hash : Tuple → Nat) (ord : String → List Tuple → List Tuple) (fuel fuel' : Nat)
    (A : List Tuple) (acc M : DB),
    Engine.run allOff hash ord fuel p edb = .ok A acc →
    pmEval fuel' p edb = some M →
    MemEq A (M.get (queryRel p))

/-! ### witnesses -/

def a1 (r x : String) : Lit := .pos ⟨r, [.var x]⟩
def a2 (r x y : String) : Lit := .pos ⟨r, [.var x, .var y]⟩

/-- even/odd over a 2-edge chain: `a` and `b` are mutually recursive. -/
def evenOdd : Program := [
  { hrel := "a", hargs := [.var "X"], body := [a1 "n" "X"] },
  { hrel := "a", hargs := [.var "Y"], body := [a1 "b" "X", a2 "e" "X" "Y"] },
  { hrel := "b", hargs := [.var "Y"], body := [a1 "a" "X", a2 "e" "X" "Y"] },
  { hrel := "q", hargs := [.var "X"], body := [a1 "a" "X"] } ]
def chain : DB := [("n", [[.i64 0]]), ("e", [[.i64 0, .i64 1], [.i64 1, .i64 2]])]

def noHash : Tuple → Nat := fun _ => 0
def anyOrd : String → List Tuple → List Tuple := fun _ ts => ts

/-- The code evaluates each head of a dependency cycle once, in text order: `a(2)` is lost. -/
theorem C01_refuted : ¬ C01_statement := by
  intro h
  have hrun : Engine.run allOff noHash anyOrd 8 evenOdd chain =
      .ok [[.i64 0]] [("q", [[.i64 0]]), ("b", [[.i64 1]]), ("a", [[.i64 0]])] := by decide
  have hpm : (pmEval 8 evenOdd chain).isSome = true := by decide
  obtain ⟨M, hM⟩ := Option.isSome_iff_exists.1 hpm
  have := h evenOdd chain noHash anyOrd 8 8 _ _ M hrun hM
  have h2 : [Value.i64 2] ∈ M.get (queryRel evenOdd) := by
    have : (pmEval 8 evenOdd chain).map (fun m => (m.get (queryRel evenOdd)).contains [Value.i64 2]) = some true := by decide
    rw [hM] at this
    simpa using this
  have := (this [.i64 2]).2 h2
  revert this; decide

/-- the witness is in the identifying class of the known finding. -/
example : Drv.C01.hasMutualRecursiveScc evenOdd = true := by decide

/-- `q(X) <- e(X,Y), Z = Y + 1, Z = X`: the second equality is neither computed nor filtered. -/
def dropEq : Program := [
  { hrel := "q", hargs := [.var "X"],
    body := [a2 "e" "X" "Y", .cmp .eq (.var "Z") (.bin .add (.var "Y") (.const 1)), .cmp .eq (.var "Z") (.var "X")] } ]
def dropEqDb : DB := [("e", [[.i64 1, .i64 0], [.i64 5, .i64 0]])]

theorem C01_refuted_dropped_equality :
    ∃ A acc M, Engine.run allOff noHash anyOrd 8 dropEq dropEqDb = .ok A acc ∧
      pmEval 8 dropEq dropEqDb = some M ∧ [Value.i64 5] ∈ A ∧ [Value.i64 5] ∉ M.get (queryRel dropEq) := by
  have hpm : (pmEval 8 dropEq dropEqDb).isSome = true := by decide
  obtain ⟨M, hM⟩ := Option.isSome_iff_exists.1 hpm
  refine ⟨[[.i64 1], [.i64 5]], [("q", [[.i64 1], [.i64 5]])], M, by decide, hM, by decide, ?_⟩
  have : (pmEval 8 dropEq dropEqDb).map (fun m => (m.get (queryRel dropEq)).contains [Value.i64 5]) = some false := by decide
  rw [hM] at this
  simpa using this

example : dropEq.any Drv.C01.droppedEquality = true := by decide

/-! ### the proved fragment -/

/-- **C01 for non-recursive aggregate-free programs.** If the model engine (switches off, any
    partitioner, any emission order, any fuel) answers `A`, and the Spec's least model is `M`, then
    `A` is exactly the query relation of `M` — provided the clauses are evaluated faithfully
    (`ClauseFaithful`, see `clauseFaithful_of_simple` for a decidable sufficient condition; it
    fails exactly on the clause-level defects refuted above). -/
theorem C01_partial (p : Program) (edb : DB) (hash : Tuple → Nat) (ord : String → List Tuple → List Tuple)
    (fuel fuel' : Nat) (A : List Tuple) (acc M : DB)
    (hfrag : inFragment p edb = true) (hcf : ClauseFaithful p)
    (hrun : Engine.run allOff hash ord fuel p edb = .ok A acc)
    (hpm : pmEval fuel' p edb = some M) :
    MemEq A (M.get (queryRel p)) := by
  obtain ⟨hS1, hnon1, hA⟩ := run_supported p edb hash ord fuel A acc hfrag hcf hrun
  obtain ⟨hdep, hheads, hno, hagg, hlastq⟩ := inFragment_parts hfrag
  have hS2 : Supported p M.get (execOrder p) :=
    supported_of_isFix (pmEval_isFix hpm) hno (execOrder p) hheads
  have hnon : ∀ r, r ∉ heads p → lkOf edb acc r = M.get r := by
    intro r hr; rw [hnon1 r hr, pmEval_nonhead hpm r hr]
  have hq : queryRel p ∈ execOrder p := List.mem_of_getLast? hlastq
  have := supported_unique p hagg (lkOf edb acc) M.get hnon (execOrder p) [] hdep hS1 hS2
    (fun r hr => by cases hr) (queryRel p) hq
  rw [hA] at this
  exact this

/-! ### a decidable sufficient condition for `ClauseFaithful` -/

theorem clauseFaithful_of_simple (p : Program) (h : p.all simpleRule = true) : ClauseFaithful p := by
  intro r hr lk
  exact evalRuleM_eq_of_simple r (List.all_eq_true.1 h r hr) lk


/-- `C01_partial` with every hypothesis decidable: programs of simple rules (positive and negated
    atoms with variables, constants, repeated variables; no comparison literal, no wildcard in a
    positive atom) in the fragment. -/
theorem C01_partial_simple (p : Program) (edb : DB) (hash : Tuple → Nat) (ord : String → List Tuple → List Tuple)
    (fuel fuel' : Nat) (A : List Tuple) (acc M : DB)
    (hfrag : inFragment p edb = true) (hsimple : p.all simpleRule = true)
    (hrun : Engine.run allOff hash ord fuel p edb = .ok A acc)
    (hpm : pmEval fuel' p edb = some M) :
    MemEq A (M.get (queryRel p)) :=
  C01_partial p edb hash ord fuel fuel' A acc M hfrag (clauseFaithful_of_simple p hsimple) hrun hpm

/-- `C01_partial` with every hypothesis decidable, for the larger fragment of *filter rules*: positive
    and negated atoms with variables, constants, wildcards, repeated variables, and comparison
    literals (all six operators, arithmetic on one side) over variables bound by positive atoms. -/
theorem C01_partial_filter (p : Program) (edb : DB) (hash : Tuple → Nat) (ord : String → List Tuple → List Tuple)
    (fuel fuel' : Nat) (A : List Tuple) (acc M : DB)
    (hfrag : inFragment p edb = true) (hfilter : p.all filterRule = true)
    (hrun : Engine.run allOff hash ord fuel p edb = .ok A acc)
    (hpm : pmEval fuel' p edb = some M) :
    MemEq A (M.get (queryRel p)) :=
  C01_partial p edb hash ord fuel fuel' A acc M hfrag (clauseFaithful_of_filter p hfilter) hrun hpm

/-- the former push-down and wildcard counterexamples are inside this fragment now. -/
def joinFilter : Program := [
  { hrel := "q", hargs := [.var "X", .var "Z"],
    body := [a2 "e" "X" "Y", a2 "f" "Y" "Z", .cmp .gt (.var "Z") (.const 1)] } ]
def joinFilterDb : DB := [("e", [[.i64 1, .i64 2]]), ("f", [[.i64 2, .i64 5], [.i64 2, .i64 0]])]
def wildPair : Program := [
  { hrel := "q", hargs := [.var "X", .var "Y"],
    body := [.pos ⟨"e", [.var "X", .wild]⟩, .pos ⟨"e", [.var "Y", .wild]⟩, .cmp .le (.var "X") (.bin .add (.var "Y") (.const 0))] } ]
def wildDb : DB := [("e", [[.i64 1, .i64 2], [.i64 3, .i64 1]])]

example : inFragment joinFilter joinFilterDb = true ∧ joinFilter.all filterRule = true ∧
    (Engine.run allOff noHash anyOrd 8 joinFilter joinFilterDb).toWire = "i64:1,i64:5" ∧
    inFragment wildPair wildDb = true ∧ wildPair.all filterRule = true ∧
    (Engine.run allOff noHash anyOrd 8 wildPair wildDb).toWire = "i64:1,i64:1;i64:1,i64:3;i64:3,i64:3" := by
  decide

/-- **C01 with self-recursive heads.** Aggregate-free programs whose only dependency cycles are
    self-loops (`inFragmentRec`: decidable, computed with the code's own `topoOrder`), clauses
    evaluated faithfully. Termination is an explicit hypothesis in the form "the run answers": the
    engine's fix-point loop has returned within its fuel (for arithmetic-free recursive clauses the
    iterates live in the finite set of tuples over the active domain, so some fuel suffices; that
    bound is not formalised). Then the answer is the query relation of `pmEval`'s stratified least
    model. Proof: `lfpSelf_least` (Kleene iterate from ∅ = least closed set, by monotonicity),
    `execLoop_least`, `pmEval_least` (the Spec's run is below every closed database, stratum by
    stratum), `engine_eq_pm`. -/
theorem C01_partial_rec (p : Program) (edb : DB) (hash : Tuple → Nat) (ord : String → List Tuple → List Tuple)
    (fuel fuel' : Nat) (A : List Tuple) (acc M : DB)
    (hfrag : inFragmentRec p edb = true) (hcf : ClauseFaithful p)
    (hrun : Engine.run allOff hash ord fuel p edb = .ok A acc)
    (hpm : pmEval fuel' p edb = some M) :
    MemEq A (M.get (queryRel p)) := by
  obtain ⟨hdep, hheads, hall, hno, hagg, hlastq⟩ := inFragmentRec_parts hfrag
  obtain ⟨hleast, hnon, hA⟩ := run_least p edb hash ord fuel A acc hfrag hcf (neg_not_self hpm hagg) hrun
  have hq : queryRel p ∈ heads p := hheads _ (List.mem_of_getLast? hlastq)
  have := engine_eq_pm p edb M fuel' hpm (lkOf edb acc) (execOrder p) hagg hno hnon hdep hheads hall hleast _ hq
  rw [hA] at this
  exact this

/-- all hypotheses decidable: filter rules. -/
theorem C01_partial_rec_filter (p : Program) (edb : DB) (hash : Tuple → Nat) (ord : String → List Tuple → List Tuple)
    (fuel fuel' : Nat) (A : List Tuple) (acc M : DB)
    (hfrag : inFragmentRec p edb = true) (hfilter : p.all filterRule = true)
    (hrun : Engine.run allOff hash ord fuel p edb = .ok A acc)
    (hpm : pmEval fuel' p edb = some M) :
    MemEq A (M.get (queryRel p)) :=
  C01_partial_rec p edb hash ord fuel fuel' A acc M hfrag (clauseFaithful_of_filter p hfilter) hrun hpm

/-- transitive closure over a 3-cycle (9 tuples), a head negating it, a comparison: the hypotheses
    of `C01_partial_rec_filter` hold, the recursive head is executed as a fix-point. -/
def tcProg : Program := [
  { hrel := "t", hargs := [.var "X", .var "Z"], body := [a2 "t" "X" "Y", a2 "e" "Y" "Z"] },
  { hrel := "t", hargs := [.var "X", .var "Y"], body := [a2 "e" "X" "Y"] },
  { hrel := "u", hargs := [.var "X", .var "Y"], body := [a1 "n" "X", a1 "n" "Y", .neg ⟨"t", [.var "X", .var "Y"]⟩, .cmp .lt (.var "X") (.var "Y")] },
  { hrel := "q", hargs := [.var "X", .var "Y"], body := [a2 "u" "X" "Y"] } ]
def tcDb : DB := [("e", [[.i64 0, .i64 1], [.i64 1, .i64 2], [.i64 2, .i64 0]]), ("n", [[.i64 0], [.i64 1], [.i64 5]])]

example : inFragmentRec tcProg tcDb = true ∧ tcProg.all filterRule = true ∧ selfRec tcProg "t" = true ∧
    (Engine.run allOff noHash anyOrd 8 tcProg tcDb).toWire = "i64:0,i64:5;i64:1,i64:5" ∧
    (pmEval 8 tcProg tcDb).map (fun m => (relToWire (m.get "q"), (m.get "t").length)) = some ("i64:0,i64:5;i64:1,i64:5", 9) := by
  decide

/-- The Spec's executable clause meaning is sound for the declarative one: every tuple derived by
    `evalRuleLk` (aggregate-free rule without comparison literals) is the head instance of a
    valuation that maps every positive atom onto a stored tuple and no negated atom onto any. -/
theorem spec_clause_sound (lk : String → List Tuple) (r : Rule) (hagg : r.hasAgg = false) (hc : r.cmps = [])
    (ts : List Tuple) (h : evalRuleLk lk r = some ts) (t : Tuple) (ht : t ∈ ts) :
    ∃ env, BodySat lk r env ∧ HeadInst r env t :=
  evalRuleLk_sound lk r hagg hc ts h t ht

/-- … and complete: for a range-restricted rule every head instance of a valuation satisfying the
    body declaratively (`BodySat`) is derived by `evalRuleLk`. Together with `spec_clause_sound`:
    for aggregate-free rules without comparison literals, `t ∈ evalRuleLk lk r` ⇔ `t` is the head
    instance of a satisfying valuation. -/
theorem spec_clause_complete (lk : String → List Tuple) (r : Rule) (hagg : r.hasAgg = false) (hc : r.cmps = [])
    (hsafeH : ∀ x, x ∈ r.hargs.flatMap HTerm.vars → x ∈ r.posVars)
    (hsafeN : ∀ a, a ∈ r.negAtoms → ∀ x, Term.var x ∈ a.args → x ∈ r.posVars)
    (ts : List Tuple) (hev : evalRuleLk lk r = some ts)
    (env : Env) (hsat : BodySat lk r env) (t : Tuple) (hhead : HeadInst r env t) : t ∈ ts :=
  evalRuleLk_complete lk r hagg hc hsafeH hsafeN ts hev env hsat t hhead

/-- A three-head chain with a join, a negation over a derived head and a constant, written in an
    order in which the code's topological sort has to move heads (`b` is defined before `a`). -/
def chain3 : Program := [
  { hrel := "b", hargs := [.var "X", .var "Z"], body := [a2 "a" "X" "Y", a2 "e" "Y" "Z", .neg ⟨"c", [.var "Z"]⟩] },
  { hrel := "c", hargs := [.var "X"], body := [.pos ⟨"e", [.var "X", .const (.i64 0)]⟩] },
  { hrel := "a", hargs := [.var "X", .var "Y"], body := [a2 "e" "X" "Y"] },
  { hrel := "a", hargs := [.var "X", .var "X"], body := [a1 "n" "X"] },
  { hrel := "q", hargs := [.var "X", .var "Y"], body := [a2 "b" "X" "Y"] } ]
def chain3Db : DB := [("e", [[.i64 0, .i64 1], [.i64 1, .i64 2], [.i64 2, .i64 0]]), ("n", [[.i64 1]])]

/-- the hypotheses of `C01_partial_simple` are met by a non-trivial input: the order is changed
    by the topological sort, and the answer has two tuples. -/
example : inFragment chain3 chain3Db = true ∧ chain3.all simpleRule = true ∧
    execOrder chain3 = ["c", "a", "b", "q"] ∧
    (Engine.run allOff noHash anyOrd 8 chain3 chain3Db).toWire = "i64:1,i64:0;i64:2,i64:1" ∧
    (pmEval 8 chain3 chain3Db).map (fun m => relToWire (m.get (queryRel chain3))) = some "i64:1,i64:0;i64:2,i64:1" := by
  decide

end ILV.Props.C01
