/-
  C12 — every stored value kind survives restart unchanged.
  Codec model: ILV.Model.Batch (WAL JSON line, batch-file columns typed by the first update);
  engine model: ILV.Model.Store. Lemmas: ILV.Lemmas.BatchCodec, ILV.Lemmas.StoreRun.
-/
import ILV.Lemmas.RealCodec
import ILV.Lemmas.StoreRun
namespace ILV.Props.C12
open ILV ILV.Batch ILV.Store ILV.Props.C31

def sameSet (a b : List Tuple) : Prop := ∀ t, t ∈ a ↔ t ∈ b

/-- **decode ∘ encode = id on homogeneous buffers**: all tuples share one kind vector — any kinds
    (`Null`, `Timestamp`, vectors of dimension 0 included), any arity (0 included). Bit-exact: values are
    bit patterns, `-0.0` and NaN payloads included. -/
theorem C12_homogeneous (ks : List DType) (us : List Update)
    (h : ∀ u ∈ us, u.data.map dataType = ks) : batchCodec us = .ok us :=
  batchCodec_homog ks us h

/-- a WAL line is read back unchanged iff it holds no non-finite float (the serde_json round trip of
    finite values being the trusted parameter). -/
theorem C12_wal_line (u : Update) (h : u.data.all jsonSafe = true) : walCodec u = some u := walCodec_safe u h

/-- **C12 for homogeneous relations**: with the real codec, immediate durability, any buffer size and
    WAL limit, every history of effective requests over admissible tuples (with saves, compactions and
    restarts anywhere) can be reopened and serves exactly the same tuples — same values, same kinds. -/
theorem C12_partial (ks : String → List DType) (cfg : Cfg) (hm : cfg.mode = .immediate) (h : List Op)
    (he : Effective realCodec (Admissible ks) { cfg := cfg } h) (r : String) :
    (restart realCodec (run realCodec cfg h)).2 = none ∧
    sameSet (liveOf (restart realCodec (run realCodec cfg h)).1 r) (liveOf (run realCodec cfg h) r) := by
  obtain ⟨hi, hm'⟩ := run_inv_from (realCodec_ok ks) (fun _ _ h => h.2.2) h { cfg := cfg } (Inv_init _ cfg) hm he
  obtain ⟨a, _, _, d⟩ := restart_inv (realCodec_ok ks) (fun _ _ h => h.2.2) _ hi (hB_of_immediate hi.p hm')
  exact ⟨a, fun t => d r t⟩

/-- **C12 at full strength**: whatever tuples a fresh store accepts in one insert, a restart succeeds
    and serves exactly them. -/
def C12_statement : Prop :=
  ∀ (cfg : Cfg) (r : String) (ts1 ts2 : List Tuple), cfg.mode = .immediate →
    (restart realCodec (run realCodec cfg [.ins r ts1, .ins r ts2])).2 = none ∧
    sameSet (liveOf (restart realCodec (run realCodec cfg [.ins r ts1, .ins r ts2])).1 r)
            (liveOf (run realCodec cfg [.ins r ts1, .ins r ts2]) r)

/-- `[1]` then `["x"]` in one column: `"x"` comes back as `Null`. -/
theorem mixed_witness :
    liveOf (restart realCodec (run realCodec {} [.ins "m" [[.i64 1]], .ins "m" [[.str [120]]]])).1 "m" = [[.null], [.i64 1]] := by
  decide
/-- repaired: a `Timestamp`, a `Null`, an empty vector and the empty tuple now survive a restart. -/
theorem repaired_witnesses :
    liveOf (restart realCodec (run realCodec {} [.ins "m" [[.ts 9]], .ins "n" [[.null]], .ins "v" [[.vec []]], .ins "z" [[]]])).1 "m" = [[.ts 9]] ∧
    liveOf (restart realCodec (run realCodec {} [.ins "m" [[.ts 9]], .ins "n" [[.null]], .ins "v" [[.vec []]], .ins "z" [[]]])).1 "n" = [[.null]] ∧
    liveOf (restart realCodec (run realCodec {} [.ins "m" [[.ts 9]], .ins "n" [[.null]], .ins "v" [[.vec []]], .ins "z" [[]]])).1 "v" = [[.vec []]] ∧
    liveOf (restart realCodec (run realCodec {} [.ins "m" [[.ts 9]], .ins "n" [[.null]], .ins "v" [[.vec []]], .ins "z" [[]]])).1 "z" = [[]] := by
  decide
/-- a NaN that is still in the WAL is lost. -/
theorem nan_witness :
    liveOf (restart realCodec (run realCodec {} [.ins "m" [[.f64 0x7ff8000000000000]], .ins "m" []])).1 "m" = [] := by decide

theorem C12_refuted : ¬ C12_statement := by
  intro h
  have := (h {} "m" [[.i64 1]] [[.str [120]]] rfl).2 [.null]
  rw [mixed_witness] at this
  have h2 := this.1 (by simp)
  revert h2; decide

/-- the hypotheses of `C12_partial` hold for a non-trivial history: a relation with columns
    (Int64, Float64, String, Vector[2]) receiving `-0.0`, a NaN-free payload, a non-ASCII string. -/
def ksEx : String → List DType := fun _ => [.i64, .f64, .str, .vec 2, .ts, .null]
def tA : Tuple := [.i64 1, .f64 0x8000000000000000, .str [195, 169], .vec [0x3f800000, 0x80000000], .ts 9, .null]
def tB : Tuple := [.i64 (-7), .f64 0x3ff8000000000000, .str [], .vec [0, 0x40000000], .ts (-1), .null]

example : Effective realCodec (Admissible ksEx) { cfg := { buffer := 1 } }
    [.ins "m" [tA], .ins "m" [tB], .restart, .del "m" [tA], .compact, .restart] := by decide

end ILV.Props.C12
