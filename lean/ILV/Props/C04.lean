/-
  C04 — Answers are independent of clause order, clause repetition and engine history; queries
  never change the stored base facts.

  Model: `Engine.run` over program *lists* (ILV.Model.Engine) and the engine object
  `EngineObj` whose only state surviving a run is `input_tuples`.
  (a)+(b) are one statement: two programs with the same *set* of rules and the same final query
  clause have the same answer. False of the faithful model for mutual recursion
  (`C04_refuted_mutual`: cycles are evaluated in text order) and when reordering changes which head
  is the last one (`C04_refuted_last_head`); proved for the fragment of C01 (`C04_partial`).
  (c)+(d): `C04_reuse`, `C04_base_unchanged` (with all switches off the code never writes
  `input_tuples`; the magic-set seeds written when that switch is on are outside this model and are
  checked on the real engine by the correspondence).
-/
import ILV.Lemmas.Engine
import ILV.Lemmas.LeastModel
import ILV.Props.C01
namespace ILV.Props.C04
open ILV ILV.DL ILV.Engine

/-- order / repetition independence at full strength. -/
def C04_statement : Prop :=
  ∀ (p p' : Program) (edb : DB) (hash hash' : Tuple → Nat) (ord ord' : String → List Tuple → List Tuple)
    (fuel fuel' : Nat) (A A' : List Tuple) (acc acc' : DB),
    sameRules p p' → p.getLast? = p'.getLast? →
    Engine.run allOff hash ord fuel p edb = .ok A acc →
    Engine.run allOff hash' ord' fuel' p' edb = .ok A' acc' →
    MemEq A A'

open ILV.Props.C01 in
/-- even/odd with the two clauses of the cycle in the other order: the answer changes. -/
def evenOdd' : Program := [
  { hrel := "b", hargs := [.var "Y"], body := [a1 "a" "X", a2 "e" "X" "Y"] },
  { hrel := "a", hargs := [.var "X"], body := [a1 "n" "X"] },
  { hrel := "a", hargs := [.var "Y"], body := [a1 "b" "X", a2 "e" "X" "Y"] },
  { hrel := "q", hargs := [.var "X"], body := [a1 "b" "X"] } ]
open ILV.Props.C01 in
def evenOdd'' : Program := [
  { hrel := "a", hargs := [.var "X"], body := [a1 "n" "X"] },
  { hrel := "a", hargs := [.var "Y"], body := [a1 "b" "X", a2 "e" "X" "Y"] },
  { hrel := "b", hargs := [.var "Y"], body := [a1 "a" "X", a2 "e" "X" "Y"] },
  { hrel := "q", hargs := [.var "X"], body := [a1 "b" "X"] } ]

theorem C04_refuted_mutual : ¬ C04_statement := by
  intro h
  have h1 : Engine.run allOff C01.noHash C01.anyOrd 8 evenOdd' C01.chain =
      .ok [] [("q", []), ("a", [[.i64 0]]), ("b", [])] := by decide
  have h2 : Engine.run allOff C01.noHash C01.anyOrd 8 evenOdd'' C01.chain =
      .ok [[.i64 1]] [("q", [[.i64 1]]), ("b", [[.i64 1]]), ("a", [[.i64 0]])] := by decide
  have hs : sameRules evenOdd' evenOdd'' := sameRules_of_B (by decide)
  have := h evenOdd' evenOdd'' C01.chain _ _ _ _ 8 8 _ _ _ _ hs (by decide) h1 h2
  have := (this [.i64 1]).2 (by decide)
  revert this; decide

example : Drv.C01.hasMutualRecursiveScc evenOdd' = true := by decide

/-- `a.. ; b.. ; a..` against `b.. ; a.. ; a..` (last clause kept): the first answers `b`, the second `a`. -/
def lastHead1 : Program := [
  { hrel := "a", hargs := [.var "X"], body := [C01.a1 "n" "X"] },
  { hrel := "b", hargs := [.var "Y"], body := [C01.a1 "a" "X", C01.a2 "e" "X" "Y"] },
  { hrel := "a", hargs := [.var "Y"], body := [C01.a2 "e" "X" "Y"] } ]
def lastHead2 : Program := [
  { hrel := "b", hargs := [.var "Y"], body := [C01.a1 "a" "X", C01.a2 "e" "X" "Y"] },
  { hrel := "a", hargs := [.var "X"], body := [C01.a1 "n" "X"] },
  { hrel := "a", hargs := [.var "Y"], body := [C01.a2 "e" "X" "Y"] } ]

theorem C04_refuted_last_head :
    sameRules lastHead1 lastHead2 ∧ lastHead1.getLast? = lastHead2.getLast? ∧
    (Engine.run allOff C01.noHash C01.anyOrd 8 lastHead1 C01.chain).toWire = "i64:1;i64:2" ∧
    (Engine.run allOff C01.noHash C01.anyOrd 8 lastHead2 C01.chain).toWire = "i64:0;i64:1;i64:2" := by
  exact ⟨sameRules_of_B (by decide), by decide, by decide, by decide⟩

/-- the fragment of C01 plus "every head is executed". -/
def inFragmentAll (p : Program) (edb : DB) : Bool :=
  inFragment p edb && (heads p).all (execOrder p).contains

/-- **(a)+(b)** Two programs with the same set of rules (any order, any repetition) and the same
    query relation, both in the fragment, clauses evaluated faithfully: the answers are equal. -/
theorem C04_partial (p p' : Program) (edb : DB) (hash hash' : Tuple → Nat)
    (ord ord' : String → List Tuple → List Tuple) (fuel fuel' : Nat) (A A' : List Tuple) (acc acc' : DB)
    (hsame : sameRules p p') (hq : queryRel p = queryRel p')
    (hf : inFragmentAll p edb = true) (hf' : inFragmentAll p' edb = true) (hcf : ClauseFaithful p)
    (hrun : Engine.run allOff hash ord fuel p edb = .ok A acc)
    (hrun' : Engine.run allOff hash' ord' fuel' p' edb = .ok A' acc') :
    MemEq A A' := by
  simp only [inFragmentAll, Bool.and_eq_true, List.all_eq_true] at hf hf'
  obtain ⟨hfr, _⟩ := hf
  obtain ⟨hfr', hall'⟩ := hf'
  obtain ⟨hS, hnon, hA⟩ := run_supported p edb hash ord fuel A acc hfr hcf hrun
  obtain ⟨hS', hnon', hA'⟩ := run_supported p' edb hash' ord' fuel' A' acc' hfr' (clauseFaithful_sameRules hsame hcf) hrun'
  obtain ⟨hdep, hheads, _, hagg, hlastq⟩ := inFragment_parts hfr
  -- the second run's database is a supported model of `p` on `p`'s execution order
  have hS2 : Supported p (lkOf edb acc') (execOrder p) := by
    apply supported_sameRules hsame (lkOf edb acc') (execOrder p) (execOrder p') _ hS'
    intro g hg
    exact List.contains_iff_mem.1 (hall' g ((sameRules_heads hsame g).1 (hheads g hg)))
  have hnon2 : ∀ r, r ∉ heads p → lkOf edb acc r = lkOf edb acc' r := by
    intro r hr
    rw [hnon r hr, hnon' r (fun hc => hr ((sameRules_heads hsame r).2 hc))]
  have hqm : queryRel p ∈ execOrder p := List.mem_of_getLast? hlastq
  have := supported_unique p hagg (lkOf edb acc) (lkOf edb acc') hnon2 (execOrder p) [] hdep hS hS2
    (fun r hr => by cases hr) (queryRel p) hqm
  rw [hA, hq, hA'] at this
  exact this

/-- the hypotheses are met by the chain of C01 and a reordering of it with a repeated clause. -/
def chain3' : Program := [
  { hrel := "a", hargs := [.var "X", .var "X"], body := [C01.a1 "n" "X"] },
  { hrel := "c", hargs := [.var "X"], body := [.pos ⟨"e", [.var "X", .const (.i64 0)]⟩] },
  { hrel := "a", hargs := [.var "X", .var "Y"], body := [C01.a2 "e" "X" "Y"] },
  { hrel := "b", hargs := [.var "X", .var "Z"], body := [C01.a2 "a" "X" "Y", C01.a2 "e" "Y" "Z", .neg ⟨"c", [.var "Z"]⟩] },
  { hrel := "a", hargs := [.var "X", .var "X"], body := [C01.a1 "n" "X"] },
  { hrel := "q", hargs := [.var "X", .var "Y"], body := [C01.a2 "b" "X" "Y"] } ]

example : inFragmentAll C01.chain3 C01.chain3Db = true ∧ inFragmentAll chain3' C01.chain3Db = true ∧
    queryRel C01.chain3 = queryRel chain3' ∧ C01.chain3.all simpleRule = true ∧
    execOrder chain3' ≠ execOrder C01.chain3 ∧
    (Engine.run allOff C01.noHash C01.anyOrd 8 chain3' C01.chain3Db).toWire = "i64:1,i64:0;i64:2,i64:1" := by
  decide

example : sameRules C01.chain3 chain3' := sameRules_of_B (by decide)

/-- no negated atom mentions its own head (what stratification demands of a self-loop). -/
def noNegSelf (p : Program) : Bool := p.all (fun r => r.negAtoms.all (fun a => a.rel != r.hrel))

/-- **(a)+(b) with self-recursive heads.** Same set of rules, same query relation, both programs in
    `inFragmentRec` (only self-loops, aggregate-free, exactly the heads executed), no negated
    self-reference, clauses evaluated faithfully, both runs answer: the answers are equal. Each
    run's database is, head by head, the least closed set (`run_least`); such databases are unique
    (`least_le`) and the notion only depends on the rule set (`leastFor_sameRules`). -/
theorem C04_partial_rec (p p' : Program) (edb : DB) (hash hash' : Tuple → Nat)
    (ord ord' : String → List Tuple → List Tuple) (fuel fuel' : Nat) (A A' : List Tuple) (acc acc' : DB)
    (hsame : sameRules p p') (hq : queryRel p = queryRel p')
    (hf : inFragmentRec p edb = true) (hf' : inFragmentRec p' edb = true)
    (hns : noNegSelf p = true) (hcf : ClauseFaithful p)
    (hrun : Engine.run allOff hash ord fuel p edb = .ok A acc)
    (hrun' : Engine.run allOff hash' ord' fuel' p' edb = .ok A' acc') :
    MemEq A A' := by
  have hneg : ∀ r, r ∈ p → ∀ a, a ∈ r.negAtoms → a.rel ≠ r.hrel := by
    intro r hr a ha
    have := List.all_eq_true.1 (List.all_eq_true.1 hns r hr) a ha
    simpa using this
  have hneg' : ∀ r, r ∈ p' → ∀ a, a ∈ r.negAtoms → a.rel ≠ r.hrel := fun r hr => hneg r ((hsame r).2 hr)
  obtain ⟨hL, hnon, hA⟩ := run_least p edb hash ord fuel A acc hf hcf hneg hrun
  obtain ⟨hL', hnon', hA'⟩ := run_least p' edb hash' ord' fuel' A' acc' hf' (clauseFaithful_sameRules hsame hcf) hneg' hrun'
  obtain ⟨hdep, hheads, _, _, hagg, hlastq⟩ := inFragmentRec_parts hf
  obtain ⟨_, _, hall', _, _, _⟩ := inFragmentRec_parts hf'
  have hL2 : ∀ g, g ∈ execOrder p → LeastFor p (lkOf edb acc') g := by
    intro g hg
    exact leastFor_sameRules hsame _ g (hL' g (hall' g ((sameRules_heads hsame g).1 (hheads g hg))))
  have hnon2 : ∀ r, r ∉ heads p → lkOf edb acc r = lkOf edb acc' r := by
    intro r hr
    rw [hnon r hr, hnon' r (fun hc => hr ((sameRules_heads hsame r).2 hc))]
  have hqm : queryRel p ∈ execOrder p := List.mem_of_getLast? hlastq
  have := least_le p hagg (lkOf edb acc) (lkOf edb acc') hnon2 (execOrder p) [] hdep hL hL2 (fun r hr => by cases hr) (queryRel p) hqm
  rw [hA, hq, hA'] at this
  exact this

/-- transitive closure with the recursive clause first vs. last and a repeated clause. -/
def tc1 : Program := [
  { hrel := "t", hargs := [.var "X", .var "Z"], body := [C01.a2 "t" "X" "Y", C01.a2 "e" "Y" "Z"] },
  { hrel := "t", hargs := [.var "X", .var "Y"], body := [C01.a2 "e" "X" "Y"] },
  { hrel := "q", hargs := [.var "X", .var "Y"], body := [C01.a2 "t" "X" "Y"] } ]
def tc2 : Program := [
  { hrel := "t", hargs := [.var "X", .var "Y"], body := [C01.a2 "e" "X" "Y"] },
  { hrel := "t", hargs := [.var "X", .var "Z"], body := [C01.a2 "t" "X" "Y", C01.a2 "e" "Y" "Z"] },
  { hrel := "t", hargs := [.var "X", .var "Y"], body := [C01.a2 "e" "X" "Y"] },
  { hrel := "q", hargs := [.var "X", .var "Y"], body := [C01.a2 "t" "X" "Y"] } ]

example : sameRulesB tc1 tc2 = true ∧ inFragmentRec tc1 C01.chain = true ∧ inFragmentRec tc2 C01.chain = true ∧
    noNegSelf tc1 = true ∧ tc1.all filterRule = true ∧
    (Engine.run allOff C01.noHash C01.anyOrd 8 tc2 C01.chain).toWire = "i64:0,i64:1;i64:0,i64:2;i64:1,i64:2" := by
  decide

/-! ### engine reuse and base facts -/

/-- the engine object: the only state that survives a run is `input_tuples`
    (program, IR nodes, strata are overwritten by every `parse`/`build_ir`, lib.rs:600-867). -/
structure EngineObj where
  input : DB

/-- one `execute_tuples` call on the object (switches off: no write to `input_tuples`). -/
def EngineObj.exec (hash : Tuple → Nat) (ord : String → List Tuple → List Tuple) (fuel : Nat)
    (e : EngineObj) (p : Program) : EngineObj × Outcome :=
  (e, Engine.run allOff hash ord fuel p e.input)

def EngineObj.execAll (hash : Tuple → Nat) (ord : String → List Tuple → List Tuple) (fuel : Nat) :
    EngineObj → List Program → EngineObj
  | e, [] => e
  | e, p :: ps => EngineObj.execAll hash ord fuel (e.exec hash ord fuel p).1 ps

/-- **(d)** any history of queries leaves the stored base facts unchanged. -/
theorem C04_base_unchanged (hash : Tuple → Nat) (ord : String → List Tuple → List Tuple) (fuel : Nat)
    (e : EngineObj) (hist : List Program) : (EngineObj.execAll hash ord fuel e hist).input = e.input := by
  induction hist generalizing e with
  | nil => rfl
  | cons p ps ih => exact ih _

/-- **(c)** the answer on a reused engine is the answer on a fresh one. -/
theorem C04_reuse (hash : Tuple → Nat) (ord : String → List Tuple → List Tuple) (fuel : Nat)
    (e : EngineObj) (hist : List Program) (p : Program) :
    ((EngineObj.execAll hash ord fuel e hist).exec hash ord fuel p).2 = (e.exec hash ord fuel p).2 := by
  unfold EngineObj.exec
  rw [C04_base_unchanged]

example : ((EngineObj.execAll C01.noHash C01.anyOrd 8 ⟨C01.chain3Db⟩ [C01.evenOdd, chain3']).exec C01.noHash C01.anyOrd 8 C01.chain3).2.toWire
    = "i64:1,i64:0;i64:2,i64:1" := by decide

end ILV.Props.C04
