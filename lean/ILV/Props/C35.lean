/-
  C35 — Ordered and paginated results are exact slices.
  Model: ILV.Model.WireSort (`compare_wire_values`, `sort_rows`, `apply_pagination` and their call
  site in src/protocol/handler.rs).  Spec: the page is `take limit (drop offset s)` for some permutation
  `s` of the answer that is sorted in the exact order the annotations denote (ties in any order; rows
  with a NaN sort key may stand anywhere), and `total = |answer|`.
  After the repair of `compare_wire_values` (NaN after every number; Int64 against Float64 compared
  exactly) the comparator is a total preorder on all values and the full statement holds.
-/
import ILV.Lemmas.PageSpec
import ILV.Gen.C35
namespace ILV.Props.C35
open ILV

/-! ## pagination (exact, all inputs) -/

/-- `apply_pagination` is `take limit ∘ drop offset` (no limit: everything from `offset` on). -/
theorem paginate_spec (rows : List WRow) (limit offset : Option Nat) :
    applyPagination rows limit offset =
      match limit with
      | some n => (rows.drop (offset.getD 0)).take n
      | none => rows.drop (offset.getD 0) :=
  applyPagination_eq rows limit offset

/-- the reported total is the size of the full answer, for all inputs (sorting loses no row). -/
theorem total_is_answer_size (a : List WRow) (keys : List SortKey) (limit offset : Option Nat) :
    (queryPage a keys limit offset).1 = a.length := by
  unfold queryPage sortRows
  split
  · rfl
  · exact (stdInsertionSort_perm _ a).length_eq

/-- `sort_rows` returns a permutation of its input, whatever the comparator does. -/
theorem sort_perm (a : List WRow) (keys : List SortKey) : (sortRows a keys).Perm a := by
  unfold sortRows
  split
  · exact List.Perm.refl _
  · exact stdInsertionSort_perm _ a

example : applyPagination [[.i64 1], [.i64 2], [.i64 3], [.i64 4]] (some 2) (some 1) = [[.i64 2], [.i64 3]] ∧
    applyPagination [[.i64 1], [.i64 2]] (some 5) (some 7) = [] ∧
    applyPagination [[.i64 1], [.i64 2]] none (some 1) = [[.i64 2]] := by decide

/-! ## the comparator is a total preorder (all values, all rows) -/

/-- **`compare_wire_values` is a total preorder** on all optional wire values (Int64 holding an `i64`):
    antisymmetric up to ties and transitive — NaN, ±0, integers beyond 2^53 against doubles included. -/
theorem compareWire_total_preorder : TP OptWF compareWire := compareWire_tp

/-- hence so is the closure `sort_rows` hands to `sort_by`, for every key list and all rows: the
    contract of `slice::sort_by` is always met, it never panics and returns the stable sorted permutation. -/
theorem sort_closure_total_preorder (keys : List SortKey) : TP RowWF (rowCmp keys) := rowCmp_tp keys

/-- 1.0 ≤ NaN ≤ 0.0 no longer "implies" 1.0 ≤ 0.0: NaN is above every number; and the integers around
    2^53 are ordered exactly against 2^53.0. -/
example :
    compareWV (.f64 0x3ff0000000000000) (.f64 0x7ff8000000000000) = .lt ∧
    compareWV (.f64 0x7ff8000000000000) (.f64 0) = .gt ∧
    compareWV (.f64 0xfff8000000000000) (.i64 5) = .gt ∧
    compareWV (.i64 9007199254740993) (.f64 0x4340000000000000) = .gt ∧
    compareWV (.f64 0x4340000000000000) (.i64 9007199254740992) = .eq ∧
    compareWV (.f64 0x8000000000000000) (.i64 0) = .eq ∧ compareWV (.f64 0) (.f64 0x8000000000000000) = .eq := by decide

/-! ## the full statement -/

/-- **C35, full statement**: for every answer (of well-formed rows), every key list, limit and offset:
    the reported total is the answer size and the page is `take limit (drop offset s)` for a permutation
    `s` of the answer that is sorted by the annotations — w.r.t. the comparator on all rows (NaN keys last
    in ascending order) and hence w.r.t. the exact Spec order on the rows without a NaN key.
    Sorting cannot fail: the closure is a total preorder (`sort_closure_total_preorder`). -/
theorem C35 (a : List WRow) (keys : List SortKey) (limit offset : Option Nat) (hw : ∀ r ∈ a, RowWF r) :
    (queryPage a keys limit offset).1 = a.length ∧
    ∃ s : List WRow, s.Perm a ∧
      (keys ≠ [] → s.Pairwise (fun x y => rowCmp keys x y ≠ .gt) ∧ SpecSorted keys s) ∧
      (keys = [] → s = a) ∧
      (queryPage a keys limit offset).2 =
        match limit with
        | some n => (s.drop (offset.getD 0)).take n
        | none => s.drop (offset.getD 0) := by
  refine ⟨total_is_answer_size a keys limit offset, sortRows a keys, sort_perm a keys, ?_, ?_, ?_⟩
  · intro hk
    have hne : keys.isEmpty = false := by cases keys <;> simp_all
    have hs := stdInsertionSort_sorted a (rowCmp keys) (preorderOn_rows keys a hw)
    have hsort : (sortRows a keys).Pairwise (fun x y => rowCmp keys x y ≠ .gt) := by
      unfold sortRows; simpa [hne] using hs
    refine ⟨hsort, ?_⟩
    unfold SpecSorted
    have hsub := List.Pairwise.sublist (List.filter_sublist (p := nfRow keys) (l := sortRows a keys)) hsort
    refine List.Pairwise.imp_of_mem ?_ hsub
    intro x y hx hy hxy
    have nx : rowHasNaNKey keys x = false := nfRow_false (List.mem_filter.1 hx).2
    have ny : rowHasNaNKey keys y = false := nfRow_false (List.mem_filter.1 hy).2
    rw [specRowCmp_eq keys x y nx ny]; exact hxy
  · intro hk; subst hk; rfl
  · unfold queryPage
    exact applyPagination_eq _ _ _

/-- **the executable Spec oracle decides the Spec of a page** (the check's verdicts on the implementation's
    output are verdicts about the proposition below, both ways). -/
theorem oracle_decides_spec (keys : List SortKey) (a : List WRow) (limit offset : Option Nat) (page : List WRow)
    (hw : ∀ r ∈ a, RowWF r) :
    specPageOk keys a limit offset page = true ↔ PageSpec keys a limit offset page :=
  specPageOk_iff keys a limit offset page hw

/-- **C35 in oracle form** (the statement that used to be refuted): the oracle accepts the model's page,
    for every answer of well-formed rows, every key list, limit and offset. -/
theorem C35_statement (a : List WRow) (keys : List SortKey) (limit offset : Option Nat) (hw : ∀ r ∈ a, RowWF r) :
    (queryPage a keys limit offset).1 = a.length ∧
    specPageOk keys a limit offset (queryPage a keys limit offset).2 = true := by
  obtain ⟨ht, s, hperm, hsorted, hnil, hpage⟩ := C35 a keys limit offset hw
  refine ⟨ht, (specPageOk_iff keys a limit offset _ hw).2 ?_⟩
  unfold PageSpec
  by_cases hk : keys = []
  · simp only [hk, if_true]
    rw [hk] at hpage
    rw [hpage, hnil hk]; rfl
  · simp only [hk, if_false]
    exact ⟨s, hperm, (hsorted hk).2, by rw [hpage]; rfl⟩

/-- without annotations the answer's own order is kept and the page is its exact slice. -/
theorem C35_no_annotations (a : List WRow) (limit offset : Option Nat) :
    (queryPage a [] limit offset).2 =
      match limit with
      | some n => (a.drop (offset.getD 0)).take n
      | none => a.drop (offset.getD 0) := by
  unfold queryPage sortRows
  exact applyPagination_eq _ _ _

/-- the former witnesses of the two defect families are now sorted (and accepted by the oracle);
    a non-trivial multi-key page. -/
example :
    sortRows [[.f64 0x4008000000000000], [.f64 0x7ff8000000000000], [.f64 0x3ff0000000000000]] [(0, false)]
      = [[.f64 0x3ff0000000000000], [.f64 0x4008000000000000], [.f64 0x7ff8000000000000]] ∧
    sortRows [[.i64 9007199254740993], [.f64 0x4340000000000000], [.i64 9007199254740992]] [(0, false)]
      = [[.f64 0x4340000000000000], [.i64 9007199254740992], [.i64 9007199254740993]] ∧
    specPageOk [(0, false)] [[.i64 9007199254740993], [.f64 0x4340000000000000], [.i64 9007199254740992]] none none
      (queryPage [[.i64 9007199254740993], [.f64 0x4340000000000000], [.i64 9007199254740992]] [(0, false)] none none).2 = true ∧
    (let a : List WRow := [[.i64 2, .str [98]], [.null, .str [97]], [.i64 1, .str [98]], [.i64 2, .str [97]], [.i64 1, .str [99]]]
     (queryPage a [(1, true), (0, false)] (some 2) (some 1)).2 = [[.i64 1, .str [98]], [.i64 2, .str [98]]]) := by decide

/-! ## T-gen: the regenerated tables of `wire_value_type_rank` / cross-kind comparison -/

def rep : String → Option WVal
  | "null" => some .null | "i32" => some (.i32 1) | "i64" => some (.i64 1) | "f64" => some (.f64 0x3ff0000000000000)
  | "str" => some (.str [97]) | "bool" => some (.bool true) | "ts" => some (.ts 1) | "vec" => some (.vec [0x3f800000])
  | "vec8" => some (.vec8 [1]) | "bytes" => some (.bytes [1]) | _ => none

def ordName : Ordering → String
  | .lt => "lt" | .eq => "eq" | .gt => "gt"

/-- the model's rank function is the code's, variant by variant (table regenerated from /repo on every run). -/
theorem rank_table_ok :
    ILV.Gen.C35.wireRank.length = 10 ∧
    ILV.Gen.C35.wireRank.all (fun (k, r) => (rep k).map WVal.rank == some r) = true := by decide

/-- and so is the comparison of every ordered pair of variants (on the representatives). -/
theorem cross_table_ok :
    ILV.Gen.C35.wireCross.length = 100 ∧
    ILV.Gen.C35.wireCross.all (fun (a, b, o) =>
      match rep a, rep b with
      | some x, some y => ordName (compareWV x y) == o
      | _, _ => false) = true := by decide

end ILV.Props.C35
