/-
  C35 — Ordered and paginated results are exact slices.
  Model: ILV.Model.WireSort (`compare_wire_values`, `sort_rows`, `apply_pagination` and their call
  site in src/protocol/handler.rs).  Spec: the page is `take limit (drop offset s)` for some permutation
  `s` of the answer that is sorted in the exact order the annotations denote (ties in any order; rows
  with a NaN sort key may stand anywhere), and `total = |answer|`.
  The full statement is FALSE of the faithful model: the comparator is not a total preorder (NaN ties
  with every number; Int64 is rounded to f64 before being compared with Float64).
-/
import ILV.Lemmas.WireSort
import ILV.Gen.C35
namespace ILV.Props.C35
open ILV

/-! ## pagination (exact, all inputs) -/

/-- `apply_pagination` is `take limit ∘ drop offset` (no limit: everything from `offset` on). -/
theorem paginate_spec (rows : List WRow) (limit offset : Option Nat) :
    applyPagination rows limit offset =
      match limit with
      | some n => (rows.drop (offset.getD 0)).take n
      | none => rows.drop (offset.getD 0) :=
  applyPagination_eq rows limit offset

/-- the reported total is the size of the full answer, for all inputs (sorting loses no row). -/
theorem total_is_answer_size (a : List WRow) (keys : List SortKey) (limit offset : Option Nat) :
    (queryPage a keys limit offset).1 = a.length := by
  unfold queryPage sortRows
  split
  · rfl
  · exact (stdInsertionSort_perm _ a).length_eq

/-- `sort_rows` returns a permutation of its input, whatever the comparator does. -/
theorem sort_perm (a : List WRow) (keys : List SortKey) : (sortRows a keys).Perm a := by
  unfold sortRows
  split
  · exact List.Perm.refl _
  · exact stdInsertionSort_perm _ a

example : applyPagination [[.i64 1], [.i64 2], [.i64 3], [.i64 4]] (some 2) (some 1) = [[.i64 2], [.i64 3]] ∧
    applyPagination [[.i64 1], [.i64 2]] (some 5) (some 7) = [] ∧
    applyPagination [[.i64 1], [.i64 2]] none (some 1) = [[.i64 2]] := by decide

/-! ## the full statement, its refutation -/

/-- **C35, full statement**: for every answer, keys, limit and offset the page is a slice of a permutation
    of the answer sorted in the exact order of the annotations, and the total is the answer size. -/
def C35_statement : Prop :=
  ∀ (a : List WRow) (keys : List SortKey) (limit offset : Option Nat),
    (queryPage a keys limit offset).1 = a.length ∧
    specPageOk keys a limit offset (queryPage a keys limit offset).2 = true

/-- 3.0, NaN, 1.0 sorted ascending comes back unchanged: NaN ties with both neighbours. -/
theorem C35_refuted : ¬ C35_statement := by
  intro h
  have := (h [[.f64 0x4008000000000000], [.f64 0x7ff8000000000000], [.f64 0x3ff0000000000000]] [(0, false)] none none).2
  revert this
  decide

/-- second defect family: Int64 2^53+1, Float64 2^53, Int64 2^53 — both integers tie with the float
    (after rounding to f64) but not with each other; the result is returned unchanged, out of order. -/
theorem C35_refuted_int64_float64 :
    ∃ (a : List WRow) (keys : List SortKey),
      specPageOk keys a none none (queryPage a keys none none).2 = false ∧
      a.all (fun r => !rowHasNaNKey keys r) = true := by
  refine ⟨[[.i64 9007199254740993], [.f64 0x4340000000000000], [.i64 9007199254740992]], [(0, false)], ?_⟩
  decide

/-- the comparator itself is not a preorder: 1.0 ≤ NaN ≤ 0.0 but 1.0 > 0.0; 2^53+1 ≤ 2^53.0 ≤ 2^53 but 2^53+1 > 2^53. -/
theorem compareWire_not_transitive :
    (compareWV (.f64 0x3ff0000000000000) (.f64 0x7ff8000000000000) ≠ .gt ∧
     compareWV (.f64 0x7ff8000000000000) (.f64 0) ≠ .gt ∧
     compareWV (.f64 0x3ff0000000000000) (.f64 0) = .gt) ∧
    (compareWV (.i64 9007199254740993) (.f64 0x4340000000000000) ≠ .gt ∧
     compareWV (.f64 0x4340000000000000) (.i64 9007199254740992) ≠ .gt ∧
     compareWV (.i64 9007199254740993) (.i64 9007199254740992) = .gt) := by decide

/-! ## the partial theorem -/

/-- **C35, partial**: excluded are exactly the inputs on which the `sort_by` closure is not a total
    preorder (`lawfulRows keys a = false`, a decidable predicate — it fails only when a sort column
    contains a NaN or mixes Float64 with an Int64 the f64 rounding moves) and those where a sort column
    mixes Int64 with Float64 at all (`noIntFloatMix`, needed for "comparator = exact order").
    On all other answers: the page is `take limit (drop offset s)` for a permutation `s` of the answer
    that is sorted w.r.t. the exact order `specRowCmp`, and the total is exact. -/
theorem C35_partial (a : List WRow) (keys : List SortKey) (limit offset : Option Nat)
    (hl : lawfulRows keys a = true) (hm : noIntFloatMix keys a = true) (hk : keys ≠ []) :
    (queryPage a keys limit offset).1 = a.length ∧
    ∃ s : List WRow, s.Perm a ∧ s.Pairwise (fun x y => specRowCmp keys x y ≠ .gt) ∧
      (queryPage a keys limit offset).2 =
        match limit with
        | some n => (s.drop (offset.getD 0)).take n
        | none => s.drop (offset.getD 0) := by
  refine ⟨total_is_answer_size a keys limit offset, sortRows a keys, sort_perm a keys, ?_, ?_⟩
  · have hne : keys.isEmpty = false := by cases keys <;> simp_all
    have hs := stdInsertionSort_sorted a (rowCmp keys) (preorderOn_of_lawfulRows keys a hl)
    have hperm := sort_perm a keys
    unfold sortRows at hperm ⊢
    simp only [hne, Bool.false_eq_true, if_false] at hperm ⊢
    refine List.Pairwise.imp_of_mem ?_ hs
    intro x y hx hy hxy
    rw [rowCmp_eq_spec keys a hm x y (hperm.mem_iff.1 hx) (hperm.mem_iff.1 hy)]
    exact hxy
  · unfold queryPage
    exact applyPagination_eq _ _ _

/-- without annotations the answer's own order is kept and the page is its exact slice. -/
theorem C35_no_annotations (a : List WRow) (limit offset : Option Nat) :
    (queryPage a [] limit offset).2 =
      match limit with
      | some n => (a.drop (offset.getD 0)).take n
      | none => a.drop (offset.getD 0) := by
  unfold queryPage sortRows
  exact applyPagination_eq _ _ _

/-- the hypotheses of `C35_partial` are met by a non-trivial input: two keys, mixed kinds, descending
    direction, ties, a page in the middle — and the conclusion is not vacuous. -/
example :
    let a : List WRow := [[.i64 2, .str [98]], [.null, .str [97]], [.i64 1, .str [98]], [.i64 2, .str [97]], [.i64 1, .str [99]]]
    let keys : List SortKey := [(1, true), (0, false)]
    lawfulRows keys a = true ∧ noIntFloatMix keys a = true ∧
    (queryPage a keys (some 2) (some 1)).2 = [[.i64 1, .str [98]], [.i64 2, .str [98]]] := by decide

/-! ## T-gen: the regenerated tables of `wire_value_type_rank` / cross-kind comparison -/

def rep : String → Option WVal
  | "null" => some .null | "i32" => some (.i32 1) | "i64" => some (.i64 1) | "f64" => some (.f64 0x3ff0000000000000)
  | "str" => some (.str [97]) | "bool" => some (.bool true) | "ts" => some (.ts 1) | "vec" => some (.vec [0x3f800000])
  | "vec8" => some (.vec8 [1]) | "bytes" => some (.bytes [1]) | _ => none

def ordName : Ordering → String
  | .lt => "lt" | .eq => "eq" | .gt => "gt"

/-- the model's rank function is the code's, variant by variant (table regenerated from /repo on every run). -/
theorem rank_table_ok :
    ILV.Gen.C35.wireRank.length = 10 ∧
    ILV.Gen.C35.wireRank.all (fun (k, r) => (rep k).map WVal.rank == some r) = true := by decide

/-- and so is the comparison of every ordered pair of variants (on the representatives). -/
theorem cross_table_ok :
    ILV.Gen.C35.wireCross.length = 100 ∧
    ILV.Gen.C35.wireCross.all (fun (a, b, o) =>
      match rep a, rep b with
      | some x, some y => ordName (compareWV x y) == o
      | _, _ => false) = true := by decide

end ILV.Props.C35
