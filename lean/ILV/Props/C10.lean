/-
  C10 — Session state is isolated.
  Model: ILV.Model.SStep (every SessionManager call one atomic step; the session query split at its
  three internal reads; persistent writes atomic). Helper lemmas: ILV.Lemmas.SStep.
-/
import ILV.Lemmas.SStep
namespace ILV.Props.C10
open ILV ILV.SStep

/-- (a)+(c), first half: a step of any operation of session `k` — insert, retract, rule, every phase of a
    query — leaves the persistent relations and every other session untouched; a persistent
    operation leaves all sessions untouched. Holds for every state, any number of sessions/threads. -/
theorem C10_noninterference_writes (st st' : State) (t : Tid) (op : Op) (rest : List Op)
    (hs : step st t = .ok st') (htodo : (st.threads t).todo = op :: rest) :
    (∀ k, sessionOf op = some k → st'.pers = st.pers ∧ ∀ j, j ≠ k → st'.sess j = st.sess j) ∧
    (sessionOf op = none → st'.sess = st.sess) :=
  ⟨fun _ hk => step_session_confined hs htodo hk, fun hk => step_persistent_confined hs htodo hk⟩

/-- (b)+(c), second half: what a query step of session `k` computes is a function of the persistent
    snapshot, session `k` and the querying thread only: two states that agree on those — and differ
    arbitrarily in all other sessions and threads — produce the same next thread state (copied facts,
    copied rules, answer). Applied to the four steps of a query this is non-interference of its answer. -/
theorem C10_noninterference_reads (st1 st2 st1' st2' : State) (t : Tid) (k : Sid) (op : Op) (rest : List Op)
    (hv : SameView st1 st2 k t) (htodo : (st1.threads t).todo = op :: rest)
    (hq : op = .qCount k ∨ ∃ r, op = .qScan k r)
    (h1 : step st1 t = .ok st1') (h2 : step st2 t = .ok st2') :
    st1'.threads t = st2'.threads t ∧ st1'.pers = st1.pers ∧ st1'.sess = st1.sess :=
  query_step_own_view hv htodo hq h1 h2

/-- full statement of (b): every answer equals the set-semantics answer over persistent ∪ own facts.
    For the count query: the number of *distinct* facts. -/
def C10_b_statement : Prop :=
  ∀ (rules : Nat) (p f : List Tup), p.Nodup → f.Nodup → evalCount rules p f = specCount rules p f

/-! Refuted: persistent `r0(1)`, session fact `r0(1)`, session rule `cnt(count<X>) <- r0(X)`, query
    `?cnt(N)`: the isolated vector is `[1] ++ [1]` and the aggregate answers 2; the set has one element. -/
theorem C10_b_refuted : ¬ C10_b_statement := by
  intro h
  have := h 1 [1] [1] (by decide) (by decide)
  revert this; decide

/-- the same through the step system: one thread, four operations -/
def wProg : List Op := [.pIns 0 1, .sIns 0 0 1, .sRule 0, .qCount 0]
example : ((lastState (init [wProg]) [0, 0, 0, 0, 0, 0, 0]).threads 0).done.map (·.2) = [.ok, .n 1, .ok, .rows [2]] := by decide

/-- Partial: when no session fact of `r0` duplicates a persistent fact the count is the set count;
    scan queries are set-semantic by definition (`evalScan = dedup`); and in every reachable state the
    persistent relations and the session fact lists are duplicate-free, so the hypothesis about
    duplicates *across* the two is the only one that can fail. -/
theorem C10_b_partial (rules : Nat) (p f : List Tup) (hp : p.Nodup) (hf : f.Nodup) (hd : ∀ x ∈ f, x ∉ p) :
    evalCount rules p f = specCount rules p f :=
  evalCount_eq_spec rules p f hp hf hd

theorem C10_lists_duplicate_free (progs : List (List Op)) (sched : List Tid) :
    NodupInv (lastState (init progs) sched) :=
  lastState_nodup sched _ (nodup_init progs)

example : evalCount 1 [1, 2] [3] = specCount 1 [1, 2] [3] := by decide
example : evalScan [1, 2] [2, 3] = [1, 2, 3] := by decide

end ILV.Props.C10
