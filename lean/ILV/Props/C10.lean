/-
  C10 — Session state is isolated.
  Model: ILV.Model.SStep (every SessionManager call one atomic step; the session query split at its
  three internal reads; persistent writes atomic). Helper lemmas: ILV.Lemmas.SStep.
-/
import ILV.Lemmas.SStep
namespace ILV.Props.C10
open ILV ILV.SStep

/-- (a)+(c), first half: a step of any operation of session `k` — insert, retract, rule, every phase of a
    query — leaves the persistent relations and every other session untouched; a persistent
    operation leaves all sessions untouched. Holds for every state, any number of sessions/threads. -/
theorem C10_noninterference_writes (st st' : State) (t : Tid) (op : Op) (rest : List Op)
    (hs : step st t = .ok st') (htodo : (st.threads t).todo = op :: rest) :
    (∀ k, sessionOf op = some k → st'.pers = st.pers ∧ ∀ j, j ≠ k → st'.sess j = st.sess j) ∧
    (sessionOf op = none → st'.sess = st.sess) :=
  ⟨fun _ hk => step_session_confined hs htodo hk, fun hk => step_persistent_confined hs htodo hk⟩

/-- (b)+(c), second half: what a query step of session `k` computes is a function of the persistent
    snapshot, session `k` and the querying thread only: two states that agree on those — and differ
    arbitrarily in all other sessions and threads — produce the same next thread state (copied facts,
    copied rules, answer). Applied to the four steps of a query this is non-interference of its answer. -/
theorem C10_noninterference_reads (st1 st2 st1' st2' : State) (t : Tid) (k : Sid) (op : Op) (rest : List Op)
    (hv : SameView st1 st2 k t) (htodo : (st1.threads t).todo = op :: rest)
    (hq : op = .qCount k ∨ ∃ r, op = .qScan k r)
    (h1 : step st1 t = .ok st1') (h2 : step st2 t = .ok st2') :
    st1'.threads t = st2'.threads t ∧ st1'.pers = st1.pers ∧ st1'.sess = st1.sess :=
  query_step_own_view hv htodo hq h1 h2

/-- (b): every answer equals the set-semantics answer over persistent ∪ own facts. For the count query:
    the number of *distinct* facts (`specCount` counts `dedup (p ++ f)`), whatever the overlap between
    the session's facts `f` and the persistent relation `p`. Full theorem since the repair of
    `execute_with_session_facts*` (`extend_as_set`); scan queries are set-semantic by definition
    (`evalScan = dedup`). `p.Nodup` holds in every reachable state (`C10_lists_duplicate_free`). -/
theorem C10_b (rules : Nat) (p f : List Tup) (hp : p.Nodup) : evalCount rules p f = specCount rules p f :=
  evalCount_eq_spec rules p f hp

/-- the former counter-example (persistent `r0(1)`, session `r0(1)`, count rule): one distinct fact -/
example : evalCount 1 [1] [1] = [1] := by decide
def wProg : List Op := [.pIns 0 1, .sIns 0 0 1, .sRule 0, .qCount 0]
example : ((lastState (init [wProg]) [0, 0, 0, 0, 0, 0, 0]).threads 0).done.map (·.2) = [.ok, .n 1, .ok, .rows [1]] := by decide

theorem C10_lists_duplicate_free (progs : List (List Op)) (sched : List Tid) :
    NodupInv (lastState (init progs) sched) :=
  lastState_nodup sched _ (nodup_init progs)

example : evalCount 1 [1, 2] [3, 2, 3] = [3] := by decide
example : evalScan [1, 2] [2, 3] = [1, 2, 3] := by decide

end ILV.Props.C10
