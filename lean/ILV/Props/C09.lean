/-
  C09 — Rules behave the same inline, as session rules and as persistent rules.

  Model: ILV.Model.Text (token-level `Display` of arithmetic / terms / atoms / rules, the splitting
  parser of src/parser/mod.rs on tokens, `SerializableRule::from_rule/to_rule`, the catalog file,
  the three submission paths).  Lemmas: ILV.Lemmas.Text.
-/
import ILV.Lemmas.TextRule
namespace ILV.Props.C09
open ILV.RText

/-! ### arithmetic: parse ∘ print = id -/

/-- For every arithmetic expression whose float literals keep their kind when printed and in which no
    `+`/`-` follows an identifier ending in `<digit>e`, the splitting parser reads the printed tokens
    back to the same tree — at every nesting depth, for every operator combination (the printer's
    parenthesisation rule "left iff lower, right iff lower-or-equal" against the right-most-split parser). -/
theorem arith_roundtrip (e : AExpr) (hl : e.litStable = true) (hs : e.sciHidden = false) :
    parseArith (printArith e) = some e := by
  unfold parseArith
  have h := height_le_length e
  exact (parse_levels e hl hs).1 _ (by omega)

/-- hypotheses met by a non-trivial expression: `(Y + 1) * 2 - X / (Z - 2.5) % 3` -/
example :
    let e : AExpr := .bin .sub (.bin .mul (.bin .add (.var "Y") (.const 1)) (.const 2))
      (.bin .mod (.bin .div (.var "X") (.bin .sub (.var "Z") (.flt ⟨0x4004000000000000, "2.5", none⟩))) (.const 3))
    e.litStable = true ∧ e.sciHidden = false ∧ parseArith (printArith e) = some e := by decide

/-- without `litStable` the statement is false: `Y*2.0` prints as `Y*2` and reads back with an integer. -/
theorem arith_roundtrip_needs_litStable :
    ∃ e : AExpr, e.sciHidden = false ∧ parseArith (printArith e) ≠ some e :=
  ⟨.bin .mul (.var "Y") (.flt ⟨0x4000000000000000, "2", none⟩), by decide, by decide⟩

/-- without the identifier condition it is false as well: `V1e-1` is not split at the `-`. -/
theorem arith_roundtrip_needs_names :
    ∃ e : AExpr, e.litStable = true ∧ parseArith (printArith e) ≠ some e :=
  ⟨.bin .sub (.var "V1e") (.const 1), by decide, by decide⟩

/-! ### terms and rules: parse ∘ print = id -/

/-- Every well-formed term whose float literals are stable and whose arithmetic hides no `+`/`-`
    is read back from its printed tokens: variables, integers, floats, strings, booleans, `_`,
    arithmetic, aggregates, vectors and builtin calls. -/
theorem term_roundtrip (t : Term) (hwf : t.wf = true) (hl : t.litStable = true) (hs : t.sciHidden = false) :
    parseTerm (printTerm t) = some t := ILV.RText.term_roundtrip t hwf hl hs

example :
    let t : Term := .call "euclidean" [.var "V", .vec [⟨0x3ff0000000000000, "1", none⟩, ⟨0, "0", none⟩],
      .arith (.bin .sub (.var "Y") (.const 3))]
    t.wf = true ∧ t.litStable = true ∧ t.sciHidden = false ∧ parseTerm (printTerm t) = some t := by decide

/-- Every well-formed rule (`Rule.wf`: what the parser produces — variable-shaped variables, an operator at
    the root of every arithmetic term, canonical aggregate / builtin names, no aggregate or vector as a
    comparison side) with stable float literals, no hidden `+`/`-` and no atom whose last argument prints
    with a closing parenthesis is read back from its printed tokens — head, `<-`, comma-separated
    positive / negated atoms and comparisons. -/
theorem rule_roundtrip (r : Rule) (hwf : r.wf = true) (hl : r.litStable = true) (hs : r.sciHidden = false)
    (hp : r.atomParen = false) : parseRule (printRule r) = some r := ILV.RText.rule_roundtrip r hwf hl hs hp

/-! ### the paths, relative to the print/parse round trip -/

/-- If print ∘ parse is the identity on `r`, the catalog serialisation keeps every term of `r`, and
    serde_json reads `r`'s float literals back exactly, then the session path, the persistent path and
    the persistent path after a restart all hand the engine exactly `r` — the rule the inline path runs. -/
theorem paths_agree_of_roundtrip (r : Rule)
    (hrt : parseRule (printRule r) = some r) (hser : serRule r = r) (hj : r.jsonExact = true) :
    viaSession r = viaInline r ∧ viaPersistent r = viaInline r ∧ viaRestart r = viaInline r := by
  refine ⟨hrt, ?_, ?_⟩
  · simp [viaPersistent, viaInline, hrt, hser]
  · simp [viaRestart, viaInline, hrt, hser, Rule.afterJson_id r hj]

def exF (bits : Nat) (text : String) : FloatLit := ⟨bits, text, some (bits, text)⟩
/-- `p(X, Z) <- q(X, Y), !r(Y, "a"), Z = (Y + 1) * 2.5, Z >= 1.5` -/
def exRule : Rule :=
  ⟨⟨"p", [.base (.var "X"), .base (.var "Z")]⟩,
   [.pos ⟨"q", [.base (.var "X"), .base (.var "Y")]⟩, .neg ⟨"r", [.base (.var "Y"), .base (.str "a")]⟩,
    .cmp (.base (.var "Z")) .eq (.base (.arith (.bin .mul (.bin .add (.var "Y") (.const 1)) (.flt (exF 0x4004000000000000 "2.5"))))),
    .cmp (.base (.var "Z")) .ge (.base (.flt (exF 0x3ff8000000000000 "1.5")))]⟩

example : parseRule (printRule exRule) = some exRule ∧ serRule exRule = exRule ∧ exRule.jsonExact = true := by decide

/-! ### the property, refuted on the faithful model -/

/-- rules the parser can produce -/
def InImage (r : Rule) : Prop := ∃ ts, parseRule ts = some r

/-- The property at full strength: for every rule in the image of the parser, every submission path
    hands the engine the rule that the inline path evaluates. -/
def C09_statement : Prop :=
  ∀ r, InImage r → viaSession r = viaInline r ∧ viaPersistent r = viaInline r ∧ viaRestart r = viaInline r

def f2 : FloatLit := exF 0x4000000000000000 "2"
/-- `p(X, 2.0) <- q(X)` -/
def wFloat : Rule := ⟨⟨"p", [.base (.var "X"), .base (.flt f2)]⟩, [.pos ⟨"q", [.base (.var "X")]⟩]⟩

/-- Refutation: `p(X, 2.0) <- q(X)` is printed as `p(X, 2) <- q(X)` and re-read with an integer head
    constant on the session path already. -/
theorem C09_refuted : ¬ C09_statement := by
  intro h
  have hin : InImage wFloat :=
    ⟨[.ident "p", .lp, .ident "X", .comma, .flt f2, .rp, .arrow, .ident "q", .lp, .ident "X", .rp], by decide⟩
  have := (h wFloat hin).1
  revert this
  decide

/-- `p(X, Z) <- q(X, V1e), Z = V1e - 1`: the printed `V1e-1` is not an arithmetic term any more. -/
def wSci : Rule :=
  ⟨⟨"p", [.base (.var "X"), .base (.var "Z")]⟩,
   [.pos ⟨"q", [.base (.var "X"), .base (.var "V1e")]⟩,
    .cmp (.base (.var "Z")) .eq (.base (.arith (.bin .sub (.var "V1e") (.const 1))))]⟩
theorem C09_refuted_sci_tail : wSci.litStable = true ∧ viaSession wSci = none := by decide

/-- `p(X, 2*(Y+1)) <- q(X, Y)` (accepted when written `p(X, 2*(Y+1) )`): `parse_atom` trims the
    closing parenthesis of the last argument together with its own. -/
def wParen : Rule :=
  ⟨⟨"p", [.base (.var "X"), .base (.arith (.bin .mul (.const 2) (.bin .add (.var "Y") (.const 1))))]⟩,
   [.pos ⟨"q", [.base (.var "X"), .base (.var "Y")]⟩]⟩
theorem C09_refuted_atom_paren : wParen.litStable = true ∧ wParen.sciHidden = false ∧ viaSession wParen = none := by decide

/-- `p(X) <- s(X, true)`: fine as a session rule, but the catalog serialisation turns `true` into `_`. -/
def wBool : Rule := ⟨⟨"p", [.base (.var "X")]⟩, [.pos ⟨"s", [.base (.var "X"), .base (.bool true)]⟩]⟩
theorem C09_refuted_serialize :
    viaSession wBool = some wBool ∧ viaPersistent wBool ≠ some wBool := by decide

/-- `p(X, Z) <- r(X, Y), Z = Y * inf`: fine until the catalog file is read back (`null`). -/
def fInf : FloatLit := ⟨0x7ff0000000000000, "inf", none⟩
def wInf : Rule :=
  ⟨⟨"p", [.base (.var "X"), .base (.var "Z")]⟩,
   [.pos ⟨"r", [.base (.var "X"), .base (.var "Y")]⟩,
    .cmp (.base (.var "Z")) .eq (.base (.arith (.bin .mul (.var "Y") (.flt fInf))))]⟩
theorem C09_refuted_json_nonfinite :
    viaSession wInf = some wInf ∧ viaPersistent wInf = some wInf ∧ viaRestart wInf = none := by decide

/-- a float that serde_json (without `float_roundtrip`) reads back one ulp off: same process fine,
    different rule after restart. -/
def fUlp : FloatLit :=   -- 5.4899391143738107e51, as observed on the pinned tree
  ⟨0x4aad58bcd0036ba2, "5489939114373810700000000000000000000000000000000000",
   some (0x4aad58bcd0036ba1, "5489939114373810000000000000000000000000000000000000")⟩
def wUlp : Rule := ⟨⟨"p", [.base (.var "X"), .base (.flt fUlp)]⟩, [.pos ⟨"q", [.base (.var "X")]⟩]⟩
theorem C09_refuted_json_inexact :
    viaSession wUlp = some wUlp ∧ viaPersistent wUlp = some wUlp ∧ viaRestart wUlp ≠ some wUlp := by decide

/-! ### what holds -/

/-- C09_partial: every well-formed rule outside the five excluded families — each named by a decidable
    predicate of the rule: `¬ litStable` (integral float literals), `sciHidden` (`+`/`-` after an
    identifier ending in `<digit>e`), `atomParen` (last atom argument ends in `)`), `¬ serStable`
    (booleans, vectors, function calls, which the catalog serialisation drops), `¬ jsonExact` (floats
    serde_json does not read back exactly) — reaches the engine unchanged on the session path, the
    persistent path and the persistent path after restart, i.e. behaves as the inline rule. -/
theorem C09_partial (r : Rule) (hwf : r.wf = true)
    (hl : r.litStable = true) (hs : r.sciHidden = false) (hp : r.atomParen = false)
    (hser : r.serStable = true) (hj : r.jsonExact = true) :
    viaSession r = viaInline r ∧ viaPersistent r = viaInline r ∧ viaRestart r = viaInline r :=
  paths_agree_of_roundtrip r (rule_roundtrip r hwf hl hs hp) (by simpa [Rule.serStable] using hser) hj

/-- each excluded family is necessary: dropping its hypothesis alone is refuted by the witnesses above -/
example : wFloat.wf = true ∧ wFloat.sciHidden = false ∧ wFloat.atomParen = false ∧ wFloat.serStable = true ∧ wFloat.jsonExact = true := by decide
example : wSci.wf = true ∧ wSci.litStable = true ∧ wSci.atomParen = false ∧ wSci.serStable = true ∧ wSci.jsonExact = true := by decide
example : wParen.wf = true ∧ wParen.litStable = true ∧ wParen.sciHidden = false ∧ wParen.serStable = true ∧ wParen.jsonExact = true := by decide
example : wBool.wf = true ∧ wBool.litStable = true ∧ wBool.sciHidden = false ∧ wBool.atomParen = false ∧ wBool.jsonExact = true := by decide
example : wUlp.wf = true ∧ wUlp.litStable = true ∧ wUlp.sciHidden = false ∧ wUlp.atomParen = false ∧ wUlp.serStable = true := by decide

example : exRule.wf = true ∧ exRule.serStable = true ∧ exRule.litStable = true ∧ exRule.sciHidden = false ∧ exRule.atomParen = false ∧ exRule.jsonExact = true := by decide

end ILV.Props.C09
