/-
  C09 — Rules behave the same inline, as session rules and as persistent rules.

  Model: ILV.Model.RuleText (token-level `Display` of arithmetic / terms / atoms / rules, the splitting
  parser of src/parser/mod.rs on tokens, `SerializableRule::from_rule/to_rule`, the catalog file,
  the submission paths) — after the repairs `integral_float_literal` (floats printed with `{:?}`),
  `atom_arg_ends_paren` (`parse_atom` strips one `)`), `sci_tail_variable` (exponent guard only after a
  numeric token), `nonfinite_float_json` (non-finite constants rejected), `json_float_inexact`
  (serde_json `float_roundtrip`) and the boolean / function-call part of `serialize_drops_term`.
  Lemmas: ILV.Lemmas.RuleText, TextSplit, TextRule.
-/
import ILV.Lemmas.TextRule
namespace ILV.Props.C09
open ILV.RText

/-! ### parse ∘ print = id -/

/-- For every arithmetic expression whose variables do not look like numbers and whose float constants
    are finite and carry their `{:?}` text, the splitting parser reads the printed tokens back to the same
    tree — at every nesting depth, for every operator combination (the printer's parenthesisation rule
    "left iff lower, right iff lower-or-equal" against the right-most-split parser). -/
theorem arith_roundtrip (e : AExpr) (h : e.leavesOk = true) : parseArith (printArith e) = some e := by
  unfold parseArith
  have hl := height_le_length e
  exact (parse_levels e (litStable_of_leavesOk e h) (sciHidden_of_leavesOk e h) (allFinite_of_leavesOk e h)).1 _ (by omega)

/-- `(Y + 1) * 2.0 - V1e / (Z - 2.5) % 3` — integral float and `<digit>e` identifier included -/
example :
    let e : AExpr := .bin .sub (.bin .mul (.bin .add (.var "Y") (.const 1)) (.flt ⟨0x4000000000000000, "2.0", none⟩))
      (.bin .mod (.bin .div (.var "V1e") (.bin .sub (.var "Z") (.flt ⟨0x4004000000000000, "2.5", none⟩))) (.const 3))
    e.leavesOk = true ∧ parseArith (printArith e) = some e := by decide

/-- `litStable` discharged: a literal whose text shows a point, an exponent, `inf` or `NaN` — what `{:?}`
    prints for every f64 — is read back as a float. -/
theorem float_text_stable (f : FloatLit) (h : f.hasPoint = true) : f.stable = true := stable_of_hasPoint f h

example : (⟨0x4000000000000000, "2.0", none⟩ : FloatLit).hasPoint = true ∧ (⟨0x4202a05f20000000, "10000000000.0", none⟩ : FloatLit).hasPoint = true
    ∧ (⟨0x7e37e43c8800759c, "1e300", none⟩ : FloatLit).hasPoint = true ∧ (⟨0x4000000000000000, "2", none⟩ : FloatLit).hasPoint = false := by decide

/-- Every well-formed term is read back from its printed tokens: variables, integers, floats, strings,
    booleans, `_`, arithmetic, aggregates, vectors and builtin calls. -/
theorem term_roundtrip (t : Term) (hwf : t.wf = true) : parseTerm (printTerm t) = some t :=
  ILV.RText.term_roundtrip t hwf

example :
    let t : Term := .call "euclidean" [.var "V", .vec [⟨0x3ff0000000000000, "1.0", none⟩, ⟨0, "0.0", none⟩],
      .arith (.bin .sub (.var "Y") (.const 3))]
    t.wf = true ∧ parseTerm (printTerm t) = some t := by decide

/-- **Round trip.** Every well-formed rule (`Rule.wf`, decidable: what the parser produces —
    variable-shaped variables, an operator at the root of every arithmetic term, arithmetic variables that
    do not start with a digit, canonical aggregate / builtin names, finite float literals with their `{:?}`
    text, no aggregate or vector as a comparison side) is read back from its printed tokens — head, `<-`,
    comma-separated positive / negated atoms and comparisons.  No condition on float values, identifiers
    ending in `<digit>e`, or arguments ending in `)` remains. -/
theorem rule_roundtrip (r : Rule) (hwf : r.wf = true) : parseRule (printRule r) = some r :=
  ILV.RText.rule_roundtrip r hwf

/-! ### the paths -/

/-- If print ∘ parse is the identity on `r`, the catalog serialisation keeps every term of `r`, and
    serde_json reads `r`'s float literals back exactly, then the session path, the persistent path and
    the persistent path after a restart all hand the engine exactly `r` — the rule the inline path runs. -/
theorem paths_agree_of_roundtrip (r : Rule)
    (hrt : parseRule (printRule r) = some r) (hser : serRule r = r) (hj : r.jsonExact = true) :
    viaSession r = viaInline r ∧ viaPersistent r = viaInline r ∧ viaRestart r = viaInline r := by
  refine ⟨hrt, ?_, ?_⟩
  · simp [viaPersistent, viaInline, hrt, hser]
  · simp [viaRestart, viaInline, hrt, hser, Rule.afterJson_id r hj]

def exF (bits : Nat) (text : String) : FloatLit := ⟨bits, text, some (bits, text)⟩
/-- `p(X, Z) <- q(X, Y), !r(Y, "a"), s(X, true), Z = (Y + 1) * 2.0, Z >= abs(Y)` -/
def exRule : Rule :=
  ⟨⟨"p", [.base (.var "X"), .base (.var "Z")]⟩,
   [.pos ⟨"q", [.base (.var "X"), .base (.var "Y")]⟩, .neg ⟨"r", [.base (.var "Y"), .base (.str "a")]⟩,
    .pos ⟨"s", [.base (.var "X"), .base (.bool true)]⟩,
    .cmp (.base (.var "Z")) .eq (.base (.arith (.bin .mul (.bin .add (.var "Y") (.const 1)) (.flt (exF 0x4000000000000000 "2.0"))))),
    .cmp (.base (.var "Z")) .ge (.call "abs" [.var "Y"])]⟩

/-- **C09 (what holds).** Every well-formed rule without vector literals, whose floats serde_json reads
    back exactly (its documented behaviour with `float_roundtrip`, observed per literal), reaches the engine
    unchanged on the session / request-local path, the persistent path and the persistent path after
    restart — it behaves as the inline rule.  The only excluded family left is `¬ serStable`: vector
    literals, which the catalog serialisation still turns into `_`. -/
theorem C09_partial (r : Rule) (hwf : r.wf = true) (hser : r.serStable = true) (hj : r.jsonExact = true) :
    viaSession r = viaInline r ∧ viaPersistent r = viaInline r ∧ viaRestart r = viaInline r :=
  paths_agree_of_roundtrip r (rule_roundtrip r hwf) (by simpa [Rule.serStable] using hser) hj

example : exRule.wf = true ∧ exRule.serStable = true ∧ exRule.jsonExact = true := by decide

/-- rules the parser can produce -/
def InImage (r : Rule) : Prop := ∃ ts, parseRule ts = some r

/-- The property at full strength: for every rule in the image of the parser, every submission path
    hands the engine the rule that the inline path evaluates. -/
def C09_statement : Prop :=
  ∀ r, InImage r → viaSession r = viaInline r ∧ viaPersistent r = viaInline r ∧ viaRestart r = viaInline r

def f1 : FloatLit := exF 0x3ff0000000000000 "1.0"
/-- `p(X) <- q(X, [1.0])` -/
def wVec : Rule := ⟨⟨"p", [.base (.var "X")]⟩, [.pos ⟨"q", [.base (.var "X"), .base (.vec [f1])]⟩]⟩

/-- Still refuted, by the one family left: a vector literal in a persistent rule is stored as `_`
    (`SerializableTerm` has no variant for it), while the session path keeps it. -/
theorem C09_refuted : ¬ C09_statement := by
  intro h
  have hin : InImage wVec :=
    ⟨[.ident "p", .lp, .ident "X", .rp, .arrow, .ident "q", .lp, .ident "X", .comma, .lb, .flt f1, .rb, .rp], by decide⟩
  have := (h wVec hin).2.1
  revert this
  decide

example : wVec.wf = true ∧ wVec.jsonExact = true ∧ wVec.serStable = false ∧ viaSession wVec = some wVec := by decide

/-! ### the repaired families: their old witnesses now pass -/

def wFloat : Rule := ⟨⟨"p", [.base (.var "X"), .base (.flt (exF 0x4000000000000000 "2.0"))]⟩, [.pos ⟨"q", [.base (.var "X")]⟩]⟩
def wSci : Rule :=
  ⟨⟨"p", [.base (.var "X"), .base (.var "Z")]⟩,
   [.pos ⟨"q", [.base (.var "X"), .base (.var "V1e")]⟩,
    .cmp (.base (.var "Z")) .eq (.base (.arith (.bin .sub (.var "V1e") (.const 1))))]⟩
def wParen : Rule :=
  ⟨⟨"p", [.base (.var "X"), .base (.arith (.bin .mul (.const 2) (.bin .add (.var "Y") (.const 1))))]⟩,
   [.pos ⟨"q", [.base (.var "X"), .base (.var "Y")]⟩]⟩
def wBool : Rule := ⟨⟨"p", [.base (.var "X")]⟩, [.pos ⟨"s", [.base (.var "X"), .base (.bool true)]⟩]⟩

example : wFloat.wf = true ∧ wSci.wf = true ∧ wParen.wf = true ∧ wBool.wf = true
    ∧ viaRestart wFloat = some wFloat ∧ viaRestart wSci = some wSci ∧ viaRestart wParen = some wParen
    ∧ viaRestart wBool = some wBool := by decide

/-- a non-finite constant is no longer in the parser's image (token `inf` as a float is rejected) -/
example : parseArith [.ident "Y", .op .mul, .flt ⟨0x7ff0000000000000, "inf", none⟩] = none := by decide

end ILV.Props.C09
