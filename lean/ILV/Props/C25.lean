/-
  C25 — Vector index state follows its history and persists.
  Model: ILV.Model.Hnsw (`src/hnsw_index.rs`: insert / insert_batch / delete / rebuild / save / load).
  Spec: the abstract index `identifier ⇀ vector` with upsert / remove / replace semantics
  (`specStep`), save-load the identity.  Lemmas: ILV.Lemmas.Hnsw.
  The full statement is false of the faithful model (`insert` does not clear a tombstone):
  `C25_refuted`; `C25_partial` holds for histories that never insert a tombstoned identifier.
-/
import ILV.Lemmas.Hnsw
import ILV.Lemmas.Dist
namespace ILV.Props.C25
open ILV ILV.Hnsw ILV.VecOps List

/-- C25 at full strength: for every float model, configuration, dimension `d > 0` and history of
    accepted operations (vectors of dimension `d`, usable norm), the live content of the index
    (stored minus tombstoned) is the abstract map produced by upsert / remove / replace. -/
def C25_statement : Prop :=
  ∀ (F : FloatOps) (cfg : Cfg) (d : Nat) (ops : List (Op F)), 0 < d → PrepIdem F cfg.metric →
    (∀ op ∈ ops, WFOp cfg.metric d op) →
    ∀ i, liveOf (runOps ({ cfg := cfg } : Index F) ops) i = specRun cfg.metric ops i

/-- witness: four points, `delete 0` (below the compaction threshold), `insert 0 [5]`: the
    tombstone stays, identifier 0 is not live although its latest operation is an insert. -/
def witnessCfg : Cfg := { m := 8, efc := 100, efs := 32, metric := .euclidean }
def witnessOps : List (Op toyFloat) :=
  [.insertBatch [(0, toyVec [0]), (1, toyVec [10]), (2, toyVec [20]), (3, toyVec [30])], .delete 0, .insert 0 (toyVec [5])]

theorem C25_witness_wf : ∀ op ∈ witnessOps, WFOp (F := toyFloat) witnessCfg.metric 1 op := by
  intro op hop
  simp only [witnessOps, mem_cons, mem_nil_iff, or_false] at hop
  rcases hop with rfl | rfl | rfl
  · intro e he
    simp only [mem_cons, mem_nil_iff, or_false] at he
    rcases he with rfl | rfl | rfl | rfl <;> exact ⟨rfl, fun h => by cases h⟩
  · trivial
  · exact ⟨rfl, fun h => by cases h⟩

theorem C25_refuted : ¬ C25_statement := by
  intro h
  have h0 := h toyFloat witnessCfg 1 witnessOps (by decide) (fun v => rfl) C25_witness_wf 0
  have h1 : toyOptVec (liveOf (runOps ({ cfg := witnessCfg } : Index toyFloat) witnessOps) 0) = none := by decide +kernel
  have h2 : toyOptVec (specRun witnessCfg.metric witnessOps 0) = some [5] := by decide +kernel
  have := congrArg toyOptVec h0
  rw [h1, h2] at this
  cases this

/-- C25 for histories that never insert (singly or in a batch) an identifier that is tombstoned at
    that moment (decidable predicate `noReinsertFrom`). -/
theorem C25_partial (F : FloatOps) (cfg : Cfg) (d : Nat) (ops : List (Op F)) (hd : 0 < d)
    (hI : PrepIdem F cfg.metric) (hw : ∀ op ∈ ops, WFOp cfg.metric d op)
    (hn : noReinsertFrom ({ cfg := cfg } : Index F) ops = true) :
    ∀ i, liveOf (runOps ({ cfg := cfg } : Index F) ops) i = specRun cfg.metric ops i := by
  have h0 : Rel cfg.metric d ({ cfg := cfg } : Index F) (fun _ => none) :=
    ⟨fun i => by simp [liveOf, isTomb], Or.inl rfl, fun p hp => by simp at hp, rfl⟩
  exact (rel_run hd hI ops h0 hw hn).live

/-- the hypotheses of `C25_partial` are met by a non-trivial history: batch, update of an existing
    identifier, a delete, a save/load cycle, an insert of a fresh identifier. -/
def goodOps : List (Op toyFloat) :=
  [.insertBatch [(0, toyVec [0]), (1, toyVec [10]), (2, toyVec [20]), (3, toyVec [30])], .insert 1 (toyVec [11]),
   .delete 0, .saveLoad, .insert 7 (toyVec [70])]
example : noReinsertFrom ({ cfg := witnessCfg } : Index toyFloat) goodOps = true := by decide +kernel
example : toyOptVec (liveOf (runOps ({ cfg := witnessCfg } : Index toyFloat) goodOps) 1) = some [11] ∧
    toyOptVec (liveOf (runOps ({ cfg := witnessCfg } : Index toyFloat) goodOps) 0) = none := by decide +kernel

/-- `prepare` is the identity for the metrics that do not normalise, so `PrepIdem` is no extra
    assumption there. -/
theorem C25_prepIdem_l2_l1 (F : FloatOps) : PrepIdem F .euclidean ∧ PrepIdem F .manhattan :=
  ⟨fun _ => rfl, fun _ => rfl⟩

/-- save → load is `rebuild_hnsw` of the same stored state: vectors, tombstones, dimension field
    and configuration come back unchanged (the metric name round-trips), live content is unchanged,
    and the graph is in step with it. -/
theorem C25_save_load (F : FloatOps) (s : Index F) :
    load (save s) = some (rebuildHnsw { s with inner := none }) ∧
    (∀ s', load (save s) = some s' → s'.vectors = s.vectors ∧ s'.tombs = s.tombs ∧ s'.cfg = s.cfg ∧
      (∀ i, liveOf s' i = liveOf s i) ∧ InnerLive s') := by
  refine ⟨load_save s, ?_⟩
  intro s' hs'
  rw [load_save] at hs'
  have := Option.some.inj hs'
  subst this
  obtain ⟨hv, ht, hc⟩ := rebuildHnsw_vectors ({ s with inner := none } : Index F)
  exact ⟨hv, ht, hc, fun i => by rw [liveOf_rebuildHnsw]; rfl, rebuildHnsw_innerLive _⟩

theorem C25_metric_roundtrip (m : Metric) : parseMetric (metricName m) = some m := parseMetric_metricName m

/-- `rebuild` and a compacting `delete` leave no tombstones; a non-compacting `delete` adds exactly
    the identifier (once). -/
theorem C25_tombstones (F : FloatOps) (s : Index F) (id : Nat) (vs : List (Nat × List F.F32)) :
    (rebuild s vs).tombs = [] ∧
    (ratioAbove (tombstone s id) = true → (delete s id).tombs = []) ∧
    (ratioAbove (tombstone s id) = false → (delete s id).tombs = if s.tombs.contains id then s.tombs else s.tombs ++ [id]) := by
  have hr : ∀ (t : Index F) (ws : List (Nat × List F.F32)), (rebuild t ws).tombs = [] := by
    intro t ws
    unfold rebuild
    split
    · rfl
    · exact (rebuildHnsw_vectors _).2.1
  refine ⟨hr s vs, ?_, ?_⟩
  · intro h; unfold delete; simp only [h, ↓reduceIte]; exact hr _ _
  · intro h; unfold delete; simp only [h, Bool.false_eq_true, ↓reduceIte]; rfl

end ILV.Props.C25
