/-
  C25 — Vector index state follows its history and persists.
  Model: ILV.Model.Hnsw (`src/hnsw_index.rs`: insert / insert_batch / delete / rebuild / save / load).
  Spec: the abstract index `identifier ⇀ vector` with upsert / remove / replace semantics
  (`specStep`), save-load the identity.  Lemmas: ILV.Lemmas.Hnsw.
  After the repair (`insert` / `insert_batch` clear the identifier's tombstone; batches and rebuilds
  are validated before anything is stored) the statement holds for all histories: `C25_full`.
-/
import ILV.Lemmas.Hnsw
import ILV.Lemmas.Dist
namespace ILV.Props.C25
open ILV ILV.Hnsw ILV.VecOps List

/-- C25: for every float model, configuration, dimension `d > 0` and history of accepted operations
    (vectors of dimension `d`, usable norm), the live content of the index (stored minus
    tombstoned) is the abstract map produced by upsert / remove / replace. -/
def C25_statement : Prop :=
  ∀ (F : FloatOps) (cfg : Cfg) (d : Nat) (ops : List (Op F)), 0 < d → PrepIdem F cfg.metric →
    (∀ op ∈ ops, WFOp cfg.metric d op) →
    ∀ i, liveOf (runOps ({ cfg := cfg } : Index F) ops) i = specRun cfg.metric ops i

/-- C25 holds of the repaired wrapper, for all histories (simulation relation `Rel` through insert,
    batch, tombstoning and compacting delete, rebuild, save/load). -/
theorem C25_full : C25_statement := by
  intro F cfg d ops hd hI hw
  have h0 : Rel cfg.metric d ({ cfg := cfg } : Index F) (fun _ => none) :=
    ⟨fun i => by simp [liveOf, isTomb], Or.inl rfl, fun p hp => by simp at hp, rfl⟩
  exact (rel_run hd hI ops h0 hw).live

/-- the former counterexample (`delete 0` below the compaction threshold, then `insert 0 [5]`): the
    insert clears the tombstone, identifier 0 is live with its latest vector. -/
def witnessCfg : Cfg := { m := 8, efc := 100, efs := 32, metric := .euclidean }
def witnessOps : List (Op toyFloat) :=
  [.insertBatch [(0, toyVec [0]), (1, toyVec [10]), (2, toyVec [20]), (3, toyVec [30])], .delete 0, .insert 0 (toyVec [5]),
   .saveLoad, .delete 3, .delete 2]

theorem C25_witness_wf : ∀ op ∈ witnessOps, WFOp (F := toyFloat) witnessCfg.metric 1 op := by
  intro op hop
  simp only [witnessOps, mem_cons, mem_nil_iff, or_false] at hop
  rcases hop with rfl | rfl | rfl | rfl | rfl | rfl
  · intro e he
    simp only [mem_cons, mem_nil_iff, or_false] at he
    rcases he with rfl | rfl | rfl | rfl <;> exact ⟨rfl, fun h => by cases h⟩
  · trivial
  · exact ⟨rfl, fun h => by cases h⟩
  · trivial
  · trivial
  · trivial

example : toyOptVec (liveOf (runOps ({ cfg := witnessCfg } : Index toyFloat) witnessOps) 0) = some [5] ∧
    toyOptVec (liveOf (runOps ({ cfg := witnessCfg } : Index toyFloat) witnessOps) 3) = none ∧
    (runOps ({ cfg := witnessCfg } : Index toyFloat) witnessOps).tombs = [] := by decide +kernel
example : toyOptVec (specRun witnessCfg.metric witnessOps 0) = some [5] := by decide +kernel

/-- `prepare` is the identity for the metrics that do not normalise, so `PrepIdem` is no extra
    assumption there. -/
theorem C25_prepIdem_l2_l1 (F : FloatOps) : PrepIdem F .euclidean ∧ PrepIdem F .manhattan :=
  ⟨fun _ => rfl, fun _ => rfl⟩

/-- save → load is `rebuild_hnsw` of the same stored state: vectors, tombstones, configuration come
    back unchanged (the metric name round-trips), live content is unchanged, the graph invariant holds. -/
theorem C25_save_load (F : FloatOps) (s : Index F) :
    load (save s) = some (rebuildHnsw { s with inner := none }) ∧
    (∀ s', load (save s) = some s' → s'.vectors = s.vectors ∧ s'.tombs = s.tombs ∧ s'.cfg = s.cfg ∧
      (∀ i, liveOf s' i = liveOf s i) ∧ GraphOk s') := by
  refine ⟨load_save s, ?_⟩
  intro s' hs'
  rw [load_save] at hs'
  have := Option.some.inj hs'
  subst this
  obtain ⟨hv, ht, hc⟩ := rebuildHnsw_vectors ({ s with inner := none } : Index F)
  exact ⟨hv, ht, hc, fun i => by rw [liveOf_rebuildHnsw]; rfl, rebuildHnsw_graphOk _⟩

theorem C25_metric_roundtrip (m : Metric) : parseMetric (metricName m) = some m := parseMetric_metricName m

/-- tombstones: a successful `insert` revives the identifier; a rejected `insert`, `insert_batch` or
    `rebuild` changes nothing; a successful `rebuild` leaves no tombstones. -/
theorem C25_tombstones (F : FloatOps) (s : Index F) (id : Nat) (v : List F.F32) (es : List (Nat × List F.F32)) :
    ((insert s id v).2 = none → isTomb (insert s id v).1 id = false) ∧
    ((insert s id v).2 ≠ none → (insert s id v).1 = s) ∧
    ((insertBatch s es).2 ≠ none → (insertBatch s es).1 = s) ∧
    ((rebuild s es).2 ≠ none → (rebuild s es).1 = s) ∧
    ((rebuild s es).2 = none → (rebuild s es).1.tombs = []) := by
  refine ⟨?_, ?_, ?_, ?_, ?_⟩
  · intro h
    unfold Hnsw.insert at h ⊢
    split at h
    · simp at h
    · dsimp only
      unfold isTomb
      rw [(rebuildHnsw_vectors _).2.1]
      simp [storeVec]
  · intro h; unfold Hnsw.insert at h ⊢; split <;> simp_all
  · intro h; unfold insertBatch at h ⊢; split <;> simp_all
  · intro h
    unfold rebuild at h ⊢
    cases hv : validateAll s.cfg.metric es 0 with
    | error e => rfl
    | ok n =>
      rw [hv] at h
      exfalso
      apply h
      dsimp only
      split <;> rfl
  · intro h
    unfold rebuild at h ⊢
    split
    · simp_all
    · split
      · rfl
      · dsimp only; exact (rebuildHnsw_vectors _).2.1

end ILV.Props.C25
