/-
  C28 — Role permissions form a lattice and viewers are read-only.
  Model: ILV.Gen.C28 — the *complete* graphs of `authorize_statement` (src/auth.rs:347) and
  `authorize_kg_operation` (src/auth.rs:183), regenerated from /repo on every run (T-gen).
  Spec: ILV.Spec.Auth (`mutatesKg`, `mutatesSystem`, `adminOnly`, `permitted`).
  Every theorem quantifies over all statement kinds and roles; the proofs are case splits over
  the regenerated enumeration closed by `decide`, so a changed table row re-opens them.
-/
import ILV.Spec.Auth
namespace ILV.Props.C28
open ILV.Gen.C28 ILV.Spec.Auth

/-- the enumeration the harness printed really lists every constructor (no row can be missing) -/
theorem kinds_complete (k : StmtKind) : k ∈ StmtKind.all := by
  cases k <;> decide

theorem kinds_nodup : StmtKind.all.Nodup := by decide

/-- kind names are distinct, so the driver's `ofName` inverts `name` -/
theorem ofName_name (k : StmtKind) : StmtKind.ofName k.name = some k := by
  cases k <;> decide

/-- The table is the whole function: the source-shape check of src/auth.rs passed (the gates bind
    no payload and have no guard besides the enumerated role test), and the sampled payloads agree. -/
theorem table_is_whole_function : sourceShapeOk = true ∧ payloadIndependent = true := by decide

/-- per-KG roles: viewer ≤ editor ≤ owner, for every statement kind -/
theorem C28_kg_lattice (k : StmtKind) :
    (kgOk .viewer k = true → kgOk .editor k = true) ∧ (kgOk .editor k = true → kgOk .owner k = true) := by
  cases k <;> decide

/-- global roles: viewer ≤ editor ≤ admin, for every statement kind -/
theorem C28_global_lattice (k : StmtKind) :
    (globalOk .viewer k = true → globalOk .editor k = true) ∧
    (globalOk .editor k = true → globalOk .admin k = true) := by
  cases k <;> decide

/-- owners and admins are top elements: they are refused nothing -/
theorem C28_top (k : StmtKind) : kgOk .owner k = true ∧ globalOk .admin k = true := by
  cases k <;> decide

/-- a KG viewer is never permitted a statement that changes persistent state of the KG -/
theorem C28_kg_viewer_readonly (k : StmtKind) (h : kgOk .viewer k = true) : mutatesKg k = false := by
  cases k <;> revert h <;> decide

/-- a global viewer is never permitted a statement that changes system-level state -/
theorem C28_global_viewer_readonly (k : StmtKind) (h : globalOk .viewer k = true) :
    mutatesSystem k = false := by
  cases k <;> revert h <;> decide

/-- user management, API keys and compaction: only admins pass the global gate -/
theorem C28_admin_only (r : Role) (k : StmtKind) (hk : adminOnly k = true) (h : globalOk r k = true) :
    r = .admin := by
  cases r <;> cases k <;> revert hk h <;> decide

/-- the effective two-layer permission is monotone in both roles -/
theorem C28_permitted_monotone (k : StmtKind) :
    (∀ kr, permitted .viewer kr k = true → permitted .editor kr k = true) ∧
    (∀ kr, permitted .editor kr k = true → permitted .admin kr k = true) ∧
    (∀ r, permitted r .viewer k = true → permitted r .editor k = true) ∧
    (∀ r, permitted r .editor k = true → permitted r .owner k = true) := by
  refine ⟨?_, ?_, ?_, ?_⟩ <;> intro x <;> cases x <;> cases k <;> decide

/-- whoever is only a viewer of the KG and not an admin can, through both layers, change nothing:
    neither the KG (`mutatesKg`) nor — if also a global viewer — the system. -/
theorem C28_viewer_effective_readonly (r : Role) (k : StmtKind) (hr : r ≠ .admin)
    (h : permitted r .viewer k = true) : mutatesKg k = false := by
  cases r <;> first | exact absurd rfl hr | (cases k <;> revert h <;> decide)

/-- **C28** — the property as one statement over all kinds and roles. -/
theorem C28 (k : StmtKind) :
    ((kgOk .viewer k = true → kgOk .editor k = true) ∧ (kgOk .editor k = true → kgOk .owner k = true)) ∧
    ((globalOk .viewer k = true → globalOk .editor k = true) ∧ (globalOk .editor k = true → globalOk .admin k = true)) ∧
    (kgOk .viewer k = true → mutatesKg k = false) ∧
    (globalOk .viewer k = true → mutatesSystem k = false) ∧
    (adminOnly k = true → ∀ r, globalOk r k = true → r = .admin) :=
  ⟨C28_kg_lattice k, C28_global_lattice k, C28_kg_viewer_readonly k, C28_global_viewer_readonly k,
   fun hk r h => C28_admin_only r k hk h⟩

/-- The Spec oracle the driver runs on the implementation's rows finds no violation on any table row
    (ties the executable oracle to the theorems above). -/
theorem rowViolation_none (k : StmtKind) :
    rowViolation k (globalOk .admin k) (globalOk .editor k) (globalOk .viewer k)
      (kgOk .owner k) (kgOk .editor k) (kgOk .viewer k) = none := by
  cases k <;> decide

-- non-vacuity: the hypotheses are met by concrete kinds, and the classes are inhabited both ways
example : kgOk .viewer .query = true ∧ mutatesKg .query = false := by decide
example : kgOk .viewer .insert = false ∧ mutatesKg .insert = true := by decide
example : kgOk .viewer .fact = false ∧ kgOk .viewer .sessionRule = true := by decide
example : kgOk .editor .insert = true ∧ kgOk .editor .kgDrop = false ∧ kgOk .owner .kgDrop = true := by decide
example : globalOk .editor .kgCreate = true ∧ globalOk .viewer .kgCreate = false := by decide
example : adminOnly .userCreate = true ∧ globalOk .admin .userCreate = true ∧ globalOk .editor .userCreate = false := by decide
example : permitted .viewer .owner .insert = true ∧ permitted .editor .viewer .insert = false := by decide
example : StmtKind.all.length = 60 := by decide

end ILV.Props.C28
