/-
  C34 — Programs with recursion through negation are never evaluated.

  Model: ILV.Model.Strat (decision of `validate_rules_stratification` / `stratify_with_negation` as
  mutual reachability over the all-edges dependency graph; `validate_rule`; the catalog operations;
  the handler's request kinds and the engine's safety-only gate).
  Spec:  ILV.Spec.Strat (`Reach`, `NegCycle`, `IsStratification`).
  Only property theorems here; the Warshall-closure and catalog lemmas are in ILV.Lemmas.Strat*.
-/
import ILV.Lemmas.StratCatalog
namespace ILV.Props.C34
open ILV.Strat

/-! ### the decision procedure is right, for every graph -/

/-- The code's decision (a negative edge with both ends in one SCC) holds exactly when some negative
    edge lies on a cycle. -/
theorem check_iff_neg_cycle (g : Graph) : rejects g = true ↔ NegCycle g := rejects_iff

example : rejects [⟨2, 3, true⟩, ⟨3, 4, false⟩, ⟨4, 2, false⟩] = true := by decide
example : rejects [⟨2, 3, true⟩, ⟨3, 4, false⟩, ⟨4, 3, false⟩] = false := by decide

/-- Bridge between the SCC formulation and paths: two nodes are put in one component iff each
    reaches the other. -/
theorem scc_eq_mutual_reach (g : Graph) (a b : Nat) :
    sameScc (tc g) a b = true ↔ (Reach g a b ∧ Reach g b a) := sameScc_iff

example : sameScc (tc [⟨2, 3, true⟩, ⟨3, 2, false⟩, ⟨3, 4, false⟩]) 2 3 = true
    ∧ sameScc (tc [⟨2, 3, true⟩, ⟨3, 2, false⟩, ⟨3, 4, false⟩]) 2 4 = false := by decide

/-- On rule sets: `validate_rules_stratification` rejects iff the rules recurse through negation. -/
theorem validate_iff_neg_cycle (rs : List Rule) : stratRejects rs = true ↔ NegCycle (graphOf rs) := rejects_iff

/-- Accepted rule sets really are the ones no stratification excludes: if a rank function with
    `pos ⇒ ≤`, `neg ⇒ <` exists, the check accepts. -/
theorem stratified_accepted (g : Graph) (rank : Nat → Nat) (h : IsStratification g rank) : rejects g = false := by
  have mono : ∀ a b, Reach g a b → rank b ≤ rank a := by
    intro a b hr
    induction hr with
    | refl _ => exact Nat.le_refl _
    | step e _ he _ ih => exact Nat.le_trans ih (h e he).1
  cases hr : rejects g with
  | false => rfl
  | true =>
    obtain ⟨e, he, hn, hreach⟩ := rejects_iff.mp hr
    have h1 := (h e he).2 hn
    have h2 := mono _ _ hreach
    omega

example : IsStratification [⟨3, 2, true⟩, ⟨2, 2, false⟩] (fun n => if n = 3 then 1 else 0) := by
  intro e he
  simp only [List.mem_cons, List.not_mem_nil, or_false] at he
  rcases he with rfl | rfl <;> simp

/-! ### where the check is called: the persistent catalog -/

/-- Invariant: over every history of registrations (through the protocol or the storage-engine API),
    drops, prefix drops, clears, clause removals, session traffic, queries and restarts — everything
    except the unchecked `replace_rule` — the stored rule set never recurses through negation. -/
theorem C34_persistent (ops : List Op) (h : ∀ op, op ∈ ops → op.isReplace = false) :
    ¬ NegCycle (graphOf (catRules (runSt {} ops).cat)) := by
  have hc : CatOK (runSt {} ops).cat := runSt_preserves h (by unfold CatOK; decide)
  intro hn
  have := rejects_iff.mpr hn
  unfold CatOK stratRejects at hc
  rw [hc] at this
  cases this

def exA : Rule := ⟨⟨2, [.var 0]⟩, [.pos ⟨0, [.var 0]⟩, .neg ⟨3, [.var 0]⟩]⟩
def exB : Rule := ⟨⟨3, [.var 0]⟩, [.pos ⟨0, [.var 0]⟩, .neg ⟨2, [.var 0]⟩]⟩
def exC : Rule := ⟨⟨3, [.var 0]⟩, [.pos ⟨0, [.var 0]⟩]⟩

/-- a non-trivial history meeting the hypothesis: the closing rule is rejected, a drop makes room for it -/
example : (run {} [.persist exA, .persist exB, .drop 2, .registerApi exB, .persist exA]).2
    = [.ok, .err .unstrat, .ok, .ok, .err .unstrat] := by decide

/-- `replace_rule` is the one catalog operation that can break the invariant. -/
theorem replace_breaks_invariant :
    ∃ ops : List Op, NegCycle (graphOf (catRules (runSt {} ops).cat)) :=
  ⟨[.persist exA, .persist exC, .replace 3 0 exB], rejects_iff.mp (by decide)⟩

/-- No false rejections: a clause that passes `validate_rule`, whose arity matches the stored clauses
    of its head, and that closes no negative cycle with the stored rules is registered. -/
theorem safe_stratified_accepted (c : Catalog) (r : Rule)
    (hv : validateRule r = none)
    (hs : ¬ NegCycle (graphOf (catRules c ++ [r])))
    (ha : ∀ rs f, catGet c r.head.pred = some rs → rs.head? = some f → f.head.args.length = r.head.args.length) :
    (register c r).2 = .ok := by
  have hs' : stratRejects (catRules c ++ [r]) = false := by
    cases h : stratRejects (catRules c ++ [r]) with
    | false => rfl
    | true => exact absurd (rejects_iff.mp h) hs
  unfold register
  simp only [hv, hs', Bool.false_eq_true, if_false]
  split
  · rename_i rs hget
    split
    · rename_i f hf
      have := ha rs f hget hf
      simp [this]
    · rfl
  · rfl

example : validateRule exB = none ∧ ¬ NegCycle (graphOf (catRules [(3, [exC])] ++ [exB])) := by
  refine ⟨by decide, fun h => ?_⟩
  have := rejects_iff.mpr h
  revert this
  decide

/-! ### where the check is not called -/

/-- The engine's own gate is safety only: an unstratifiable safe program is handed to evaluation
    (`recursion::stratify` falls back to `basic_stratify`). -/
theorem engine_evaluates_unstratifiable :
    ∃ rs : List Rule, engineAccepts rs = true ∧ NegCycle (graphOf rs) :=
  ⟨[exA, exB], by decide, rejects_iff.mp (by decide)⟩

/-- The property at full strength: in every history, whatever query is evaluated, the rules in force
    for it (persistent ∪ session ∪ request-local) do not recurse through negation. -/
def C34_statement : Prop := ∀ (pre : List Op) (op : Op), badEval (runSt {} pre) op = false

/-- Refuted by the faithful model: persistent `p2(X) <- p0(X), !p3(X)` plus the session rule
    `p3(X) <- p0(X), !p2(X)` — each passes `validate_rule`, nobody checks their union — is evaluated. -/
theorem C34_refuted : ¬ C34_statement := by
  intro h
  have := h [.persist exA, .sessRule exB] (.querySess 2)
  revert this
  decide

/-- the same through request-local rules only, and through the unchecked `replace_rule` -/
theorem C34_refuted_local : badEval (runSt {} []) (.queryLocal 2 [exA, exB]) = true := by decide
theorem C34_refuted_replace :
    badEval (runSt {} [.persist exA, .persist exC, .replace 3 0 exB, .restart]) (.queryPlain 2) = true := by decide

/-- What does hold: as long as `replace_rule` is not used, every query that sees no session or
    request-local rule (plain queries, session queries on a session without rules, programs without
    local rules) is evaluated over a stratifiable rule set.  Excluded inputs: histories containing a
    `replace` (`Op.isReplace`), and queries with `nonPersistent ≠ []`. -/
theorem C34_partial (pre : List Op) (op : Op)
    (hrep : ∀ o, o ∈ pre → o.isReplace = false)
    (hloc : nonPersistent (runSt {} pre) op = []) :
    badEval (runSt {} pre) op = false := by
  have hc : CatOK (runSt {} pre).cat := runSt_preserves hrep (by unfold CatOK; decide)
  unfold CatOK at hc
  cases op <;> simp only [badEval, inForce, nonPersistent] at hloc ⊢
  · rw [hloc, List.append_nil, hc, Bool.and_false]
  · rw [hc, Bool.and_false]
  · rw [hloc, List.append_nil, hc, Bool.and_false]

/-- hypotheses met non-trivially: session rules exist in the history, the query does not see them -/
example : (∀ o, o ∈ [Op.persist exA, .sessRule exB, .sessClear] → o.isReplace = false)
    ∧ nonPersistent (runSt {} [.persist exA, .sessRule exB, .sessClear]) (.querySess 2) = []
    ∧ (step (runSt {} [.persist exA, .sessRule exB, .sessClear]) (.querySess 2)).2 = .eval := by decide

end ILV.Props.C34
