/-
  C34 — Programs with recursion through negation are never evaluated.

  Model: ILV.Model.Strat (decision of `validate_rules_stratification` / `stratify_with_negation` as
  mutual reachability over the all-edges dependency graph; `validate_rule`; the catalog operations;
  the handler's request kinds and the engine's safety-only gate).
  Spec:  ILV.Spec.Strat (`Reach`, `NegCycle`, `IsStratification`).
  Only property theorems here; the Warshall-closure and catalog lemmas are in ILV.Lemmas.Strat*.
-/
import ILV.Lemmas.StratCatalog
namespace ILV.Props.C34
open ILV.Strat

/-! ### the decision procedure is right, for every graph -/

/-- The code's decision (a negative edge with both ends in one SCC) holds exactly when some negative
    edge lies on a cycle. -/
theorem check_iff_neg_cycle (g : Graph) : rejects g = true ↔ NegCycle g := rejects_iff

example : rejects [⟨2, 3, true⟩, ⟨3, 4, false⟩, ⟨4, 2, false⟩] = true := by decide
example : rejects [⟨2, 3, true⟩, ⟨3, 4, false⟩, ⟨4, 3, false⟩] = false := by decide

/-- Bridge between the SCC formulation and paths: two nodes are put in one component iff each
    reaches the other. -/
theorem scc_eq_mutual_reach (g : Graph) (a b : Nat) :
    sameScc (tc g) a b = true ↔ (Reach g a b ∧ Reach g b a) := sameScc_iff

example : sameScc (tc [⟨2, 3, true⟩, ⟨3, 2, false⟩, ⟨3, 4, false⟩]) 2 3 = true
    ∧ sameScc (tc [⟨2, 3, true⟩, ⟨3, 2, false⟩, ⟨3, 4, false⟩]) 2 4 = false := by decide

/-- On rule sets: `validate_rules_stratification` rejects iff the rules recurse through negation. -/
theorem validate_iff_neg_cycle (rs : List Rule) : stratRejects rs = true ↔ NegCycle (graphOf rs) := rejects_iff

/-- Accepted rule sets really are the ones no stratification excludes: if a rank function with
    `pos ⇒ ≤`, `neg ⇒ <` exists, the check accepts. -/
theorem stratified_accepted (g : Graph) (rank : Nat → Nat) (h : IsStratification g rank) : rejects g = false := by
  have mono : ∀ a b, Reach g a b → rank b ≤ rank a := by
    intro a b hr
    induction hr with
    | refl _ => exact Nat.le_refl _
    | step e _ he _ ih => exact Nat.le_trans ih (h e he).1
  cases hr : rejects g with
  | false => rfl
  | true =>
    obtain ⟨e, he, hn, hreach⟩ := rejects_iff.mp hr
    have h1 := (h e he).2 hn
    have h2 := mono _ _ hreach
    omega

/-- "No negative edge on a cycle" is exactly the textbook notion: a stratification (rank function with
    pos ⇒ ≤, neg ⇒ <) exists.  (⇐ is `stratified_accepted`; ⇒ ranks a relation by the number of relations
    it transitively depends on.) -/
theorem no_neg_cycle_iff_stratifiable (g : Graph) : ¬ NegCycle g ↔ ∃ rank, IsStratification g rank := by
  constructor
  · intro h; exact ⟨rankOf g, rankOf_stratifies g h⟩
  · rintro ⟨rank, hr⟩ hn
    have := stratified_accepted g rank hr
    rw [rejects_iff.mpr hn] at this
    cases this

/-- the code rejects exactly the rule sets that have no stratification. -/
theorem check_iff_not_stratifiable (g : Graph) : rejects g = true ↔ ¬ ∃ rank, IsStratification g rank := by
  rw [← no_neg_cycle_iff_stratifiable, Classical.not_not]
  exact rejects_iff

example : IsStratification [⟨3, 2, true⟩, ⟨2, 2, false⟩] (fun n => if n = 3 then 1 else 0) := by
  intro e he
  simp only [List.mem_cons, List.not_mem_nil, or_false] at he
  rcases he with rfl | rfl <;> simp

/-! ### where the check is called: the persistent catalog -/

/-- Invariant: over every history — registrations through the protocol or the storage-engine API,
    clause replacement, drops, prefix drops, clears, clause removals, session traffic, queries, restarts —
    the stored rule set never recurses through negation. -/
theorem C34_persistent (ops : List Op) :
    ¬ NegCycle (graphOf (catRules (runSt {} ops).cat)) := by
  have hc : CatOK (runSt {} ops).cat := runSt_preserves (by unfold CatOK; decide)
  intro hn
  have := rejects_iff.mpr hn
  unfold CatOK stratRejects at hc
  rw [hc] at this
  cases this

def exA : Rule := ⟨⟨2, [.var 0]⟩, [.pos ⟨0, [.var 0]⟩, .neg ⟨3, [.var 0]⟩]⟩
def exB : Rule := ⟨⟨3, [.var 0]⟩, [.pos ⟨0, [.var 0]⟩, .neg ⟨2, [.var 0]⟩]⟩
def exC : Rule := ⟨⟨3, [.var 0]⟩, [.pos ⟨0, [.var 0]⟩]⟩

/-- a non-trivial history: the closing rule is rejected however it arrives (registration or clause
    replacement); a drop makes room for it -/
example : (run {} [.persist exA, .persist exB, .persist exC, .replace 3 0 exB, .drop 2, .replace 3 0 exB, .persist exA]).2
    = [.ok, .err .unstrat, .ok, .err .unstrat, .ok, .ok, .err .unstrat] := by decide

/-- No false rejections: a clause that passes `validate_rule`, whose arity matches the stored clauses
    of its head, and that closes no negative cycle with the stored rules is registered. -/
theorem safe_stratified_accepted (c : Catalog) (r : Rule)
    (hv : validateRule r = none)
    (hs : ¬ NegCycle (graphOf (catRules c ++ [r])))
    (ha : ∀ rs f, catGet c r.head.pred = some rs → rs.head? = some f → f.head.args.length = r.head.args.length) :
    (register c r).2 = .ok := by
  have hs' : stratRejects (catRules c ++ [r]) = false := by
    cases h : stratRejects (catRules c ++ [r]) with
    | false => rfl
    | true => exact absurd (rejects_iff.mp h) hs
  unfold register
  simp only [hv, hs', Bool.false_eq_true, if_false]
  split
  · rename_i rs hget
    split
    · rename_i f hf
      have := ha rs f hget hf
      simp [this]
    · rfl
  · rfl

example : validateRule exB = none ∧ ¬ NegCycle (graphOf (catRules [(3, [exC])] ++ [exB])) := by
  refine ⟨by decide, fun h => ?_⟩
  have := rejects_iff.mpr h
  revert this
  decide

/-! ### where the check is called: every query request -/

/-- The decision taken for a query over the rules in force (persistent ∪ session ∪ request-local):
    rejected as unstratified ⇔ a negative edge lies on a cycle of the union; evaluated ⇔ no such edge and
    every rule safe. -/
theorem query_rejected_iff_neg_cycle (rs : List Rule) :
    runQuery rs = .err .unstrat ↔ NegCycle (graphOf rs) := by
  unfold runQuery
  constructor
  · intro h
    cases hr : stratRejects rs with
    | true => exact rejects_iff.mp hr
    | false =>
      simp only [hr, Bool.false_eq_true, if_false] at h
      split at h <;> cases h
  · intro h
    have : stratRejects rs = true := rejects_iff.mpr h
    simp [this]

theorem query_evaluated_iff (rs : List Rule) :
    runQuery rs = .eval ↔ (¬ NegCycle (graphOf rs) ∧ engineAccepts rs = true) := by
  unfold runQuery
  cases hr : stratRejects rs with
  | true =>
    have hn : NegCycle (graphOf rs) := rejects_iff.mp hr
    simp [hn]
  | false =>
    have hn : ¬ NegCycle (graphOf rs) := fun h => by
      have := rejects_iff.mpr h
      unfold stratRejects at hr
      rw [hr] at this; cases this
    cases he : engineAccepts rs <;> simp [hn]

/-- The engine's own gate is still safety only (`recursion::stratify` falls back to `basic_stratify`); the
    property rests on the handler's check above, not on the engine. -/
theorem engine_gate_is_safety_only :
    ∃ rs : List Rule, engineAccepts rs = true ∧ NegCycle (graphOf rs) :=
  ⟨[exA, exB], by decide, rejects_iff.mp (by decide)⟩

/-- **C34.** In every history of requests — persistent registration by either path, clause replacement,
    drops, clears, removals, session rules, session clears, restarts, queries with or without session and
    with request-local rules — whatever query is evaluated, the rules in force for it (persistent ∪
    session ∪ request-local) do not recurse through negation. -/
theorem C34 (pre : List Op) (op : Op) : badEval (runSt {} pre) op = false := by
  cases op <;> simp only [badEval, inForce]
  case querySess n =>
    cases h : (step (runSt {} pre) (.querySess n)).2 == Out.eval with
    | false => rfl
    | true =>
      have he : runQuery (catRules (runSt {} pre).cat ++ (runSt {} pre).sess) = .eval := by
        simpa [step] using h
      simp [runQuery_eval he]
  case queryPlain n =>
    cases h : (step (runSt {} pre) (.queryPlain n)).2 == Out.eval with
    | false => rfl
    | true =>
      have he : runQuery (catRules (runSt {} pre).cat) = .eval := by simpa [step] using h
      simp [runQuery_eval he]
  case queryLocal n rs =>
    cases h : (step (runSt {} pre) (.queryLocal n rs)).2 == Out.eval with
    | false => rfl
    | true =>
      simp only [step] at h
      cases hacc : acceptLocals [] rs with
      | error e => simp [hacc] at h
      | ok acc =>
        have hrs : acc = rs := by simpa using acceptLocals_ok rs [] acc hacc
        subst hrs
        have he : runQuery (catRules (runSt {} pre).cat ++ acc) = .eval := by simpa [hacc] using h
        simp [runQuery_eval he]

/-- the old counterexamples, now rejected: persistent + session rule, request-local pair, replaced clause -/
example : (step (runSt {} [.persist exA, .sessRule exB]) (.querySess 2)).2 = .err .unstrat
    ∧ (step (runSt {} []) (.queryLocal 2 [exA, exB])).2 = .err .unstrat
    ∧ (run {} [.persist exA, .persist exC, .replace 3 0 exB]).2 = [.ok, .ok, .err .unstrat]
    ∧ (step (runSt {} [.persist exA, .sessRule exB, .sessClear]) (.querySess 2)).2 = .eval := by decide

end ILV.Props.C34
