/-
  C16 — rule and schema catalogs are durable and crash-safe.
  Model: ILV.Model.Catalog over ILV.Model.FS (in-place `fs::write` of catalog.json / schema.json, loaders'
  failure behaviour).  Helper lemmas: ILV.Lemmas.Catalog.
-/
import ILV.Lemmas.Catalog
namespace ILV.Props.C16
open ILV ILV.FS ILV.Cat

/-- a crash + reopen is acceptable iff the engine opens with the catalogs of before or after the operation
    in flight (for a crash between operations both are the acknowledged catalogs). -/
def okOut : Out → Bool
  | .reboot old new got => decide (got = some old) || decide (got = some new)
  | .ack _ _ => true

/-- **C16 at full strength**: for every history, every crash point and every way the unsynced data may be
    torn, every reopen succeeds and yields old or new catalogs. -/
def C16_statement : Prop := ∀ h : List HItem, (run {} h).all okOut = true

def a : Name := [97]
def r : Name := [114]
def s : Name := [115]
def c0 : Clause := { id := 0, arity := 2, bad := false }
def c1 : Clause := { id := 1, arity := 2, bad := false }
def s0 : Schema := { id := 0, bad := false }
def s1 : Schema := { id := 1, bad := false }

/-- witness 1: `a` is registered; the registration of a second clause crashes inside the in-place rewrite of
    `rules/catalog.json` — the file is a proper prefix of the new JSON, and the engine no longer opens. -/
def witnessRule : List HItem := [.op (.reg a c0), .opCrash (.reg a c1) 2 (some ⟨0, .part⟩)]

theorem witnessRule_unopenable :
    run {} witnessRule =
      [.ack .ok [0, 2], .reboot { rules := [(a, [c0])] } { rules := [(a, [c0, c1])] } none] := by decide

/-- witness 2: the same for `schema.json` — the engine opens, every acknowledged schema is silently gone. -/
def witnessSchema : List HItem := [.op (.sreg r s0), .opCrash (.sreg s s1) 2 (some ⟨0, .clean⟩)]

theorem witnessSchema_silently_empty :
    run {} witnessSchema =
      [.ack .ok [1, 3], .reboot { schemas := [(r, s0)] } { schemas := [(r, s0), (s, s1)] } (some {})] := by decide

/-- witness 3 (no tearing, no crash inside an operation): `drop_relation` removes the schema in memory without
    saving; after a restart the dropped schema is back. -/
def witnessDropRel : List HItem := [.op (.sreg r s0), .op (.dropRel r), .restart]

theorem witnessDropRel_resurrects :
    run {} witnessDropRel =
      [.ack .ok [1, 3], .ack .ok [], .reboot {} {} (some { schemas := [(r, s0)] })] := by decide

/-- witness 4: the catalog is never fsynced, so even after the acknowledgement a crash may leave it torn. -/
def witnessLate : List HItem := [.op (.reg a c0), .restartTorn .ruleCat ⟨0, .nonl⟩]

theorem witnessLate_unopenable :
    run {} witnessLate = [.ack .ok [0, 2], .reboot { rules := [(a, [c0])] } { rules := [(a, [c0])] } none] := by decide

theorem C16_refuted : ¬ C16_statement := by
  intro h
  have := h witnessRule
  rw [witnessRule_unopenable] at this
  revert this
  decide

/-! ### what does hold -/

/-- Tearing the in-place rewrite of the rule catalog — at *any* byte, in *any* state — makes the engine unopenable. -/
theorem torn_rule_catalog_unopenable (d : Disk) (c : RuleCat) (fr : Frag) :
    recover (crash (apply d (.write .ruleCat [.rules c])) (cutAt .ruleCat ⟨0, fr⟩)) = none :=
  recover_torn_rules d c fr

/-- Tearing the rewrite of the schema catalog silently empties it, whatever was acknowledged before. -/
theorem torn_schema_catalog_empty (d : Disk) (sc : SchemaCat) (fr : Frag) :
    loadSchemas (crash (apply d (.write .schemaCat [.schemas sc])) (cutAt .schemaCat ⟨0, fr⟩)) = [] :=
  loadSchemas_torn d sc fr

/-- items that never tear a write: operations, restarts, crashes inside an operation at an FS-step boundary. -/
def noTear : HItem → Bool
  | .op _ => true
  | .restart => true
  | .opCrash _ _ none => true
  | _ => false

/-- `drop_relation` does not hit a relation that has a schema (the excluded input family), judged along the run. -/
def safeRun (st : St) : List HItem → Bool
  | [] => true
  | it :: rest =>
    safeItem st.mem it &&
      match (runItem st it).2 with
      | some st' => safeRun st' rest
      | none => true

/-- **C16_partial.** If writes are not torn and no `drop_relation` hits a relation with a schema, then for
    every history and every crash point (between operations or at any FS-step boundary inside one) the engine
    reopens with the old or the new catalogs. -/
theorem C16_partial (h : List HItem) (hn : h.all noTear = true) (hs : safeRun {} h = true) :
    (run {} h).all okOut = true := by
  have key : ∀ (h : List HItem) (st : St), Consistent st → h.all noTear = true → safeRun st h = true →
      (run st h).all okOut = true := by
    intro h
    induction h with
    | nil => intro st _ _ _; rfl
    | cons it rest ih =>
      intro st hc hn hs
      simp only [List.all_cons, Bool.and_eq_true] at hn
      simp only [safeRun, Bool.and_eq_true] at hs
      obtain ⟨hsi, hsr⟩ := hs
      have hit : noTearItem it := by
        cases it with
        | op o => exact .op o
        | restart => exact .restart
        | opCrash o j cut =>
          cases cut with
          | none => exact .opCrash o j
          | some c => simp [noTear] at hn
        | restartTorn p c => simp [noTear] at hn
      obtain ⟨hok, hnext⟩ := runItem_consistent st it hc hit hsi
      simp only [run]
      cases hr : runItem st it with
      | mk o st? =>
        rw [hr] at hok hnext hsr
        cases st? with
        | none =>
          simp only [List.all_cons, List.all_nil, Bool.and_true]
          cases o <;> simp_all [okOut, outOk]
        | some st' =>
          simp only [List.all_cons, Bool.and_eq_true]
          refine ⟨?_, ih st' (hnext st' rfl) hn.2 hsr⟩
          cases o <;> simp_all [okOut, outOk]
  exact key h {} consistent_init hn hs

/-- operations and clean restarts only -/
def plain : HItem → Bool
  | .op _ => true
  | .restart => true
  | _ => false

def opsOf : List HItem → List COp
  | [] => []
  | .op o :: rest => o :: opsOf rest
  | _ :: rest => opsOf rest

/-- **C16_partial, crash-free histories.** Restarts are invisible: after any history of register / drop /
    drop-by-prefix / clear / replace / remove-clause / schema register / update / remove (and `drop_relation` on
    relations without a schema) with restarts anywhere, the engine holds — and a further restart reloads — exactly
    the catalogs obtained by applying the acknowledged operations in order. -/
theorem C16_partial_crash_free (h : List HItem) (hp : h.all plain = true) (hs : safeRun {} h = true) :
    ∃ st, finalSt {} h = some st ∧ st.mem = specRun {} (opsOf h) ∧
      recover (crash st.disk noCut) = some (specRun {} (opsOf h)) := by
  have key : ∀ (h : List HItem) (st : St), Consistent st → h.all plain = true → safeRun st h = true →
      ∃ st', finalSt st h = some st' ∧ st'.mem = specRun st.mem (opsOf h) ∧ Consistent st' := by
    intro h
    induction h with
    | nil => intro st hc _ _; exact ⟨st, rfl, rfl, hc⟩
    | cons it rest ih =>
      intro st hc hp hs
      simp only [List.all_cons, Bool.and_eq_true] at hp
      simp only [safeRun, Bool.and_eq_true] at hs
      obtain ⟨hsi, hsr⟩ := hs
      cases it with
      | op o =>
        obtain ⟨_, hnext⟩ := runItem_consistent st (.op o) hc (.op o) hsi
        have hst : (runItem st (.op o)).2 = some { mem := (step st.mem o).2.1, disk := applyAll st.disk (step st.mem o).2.2 } := rfl
        rw [hst] at hsr
        obtain ⟨st', h1, h2, h3⟩ := ih _ (hnext _ hst) hp.2 hsr
        exact ⟨st', by simp only [finalSt, hst]; exact h1, by simpa [opsOf, specRun] using h2, h3⟩
      | restart =>
        obtain ⟨_, hnext⟩ := runItem_consistent st .restart hc .restart hsi
        have hst : (runItem st .restart).2 = some { mem := st.mem, disk := crash st.disk noCut } := by
          simp [runItem, rebootFrom, hc.recover_eq]
        rw [hst] at hsr
        obtain ⟨st', h1, h2, h3⟩ := ih _ (hnext _ hst) hp.2 hsr
        exact ⟨st', by simp only [finalSt, hst]; exact h1, by simpa [opsOf] using h2, h3⟩
      | opCrash o j cut => simp [plain] at hp
      | restartTorn p c => simp [plain] at hp
  obtain ⟨st', h1, h2, h3⟩ := key h {} consistent_init hp hs
  exact ⟨st', h1, h2, by rw [← h2]; exact h3.recover_eq⟩

/-! ### the hypotheses are satisfiable by non-trivial inputs -/

/-- a crash-free history with a restart in the middle that exercises register, second clause, clear, re-register
    with another arity, schema register and remove: admitted by `C16_partial_crash_free`, non-empty result. -/
example :
    let h : List HItem := [.op (.reg a c0), .op (.reg a c1), .restart, .op (.sreg r s0), .op (.clear a),
      .op (.reg a { id := 3, arity := 1, bad := false }), .op (.srem r), .op (.sreg s s1)]
    h.all plain = true ∧ safeRun {} h = true ∧
      specRun {} (opsOf h) = { rules := [(a, [{ id := 3, arity := 1, bad := false }])], schemas := [(s, s1)] } := by
  decide

/-- a history with crashes at FS-step boundaries inside operations: admitted by `C16_partial`, and the two
    crash points really produce "old" resp. "new". -/
example :
    let h : List HItem := [.op (.reg a c0), .opCrash (.reg a c1) 1 none, .opCrash (.sreg r s0) 2 none]
    h.all noTear = true ∧ safeRun {} h = true ∧
      run {} h = [.ack .ok [0, 2],
        .reboot { rules := [(a, [c0])] } { rules := [(a, [c0, c1])] } (some { rules := [(a, [c0])] }),
        .reboot { rules := [(a, [c0])] } { rules := [(a, [c0])], schemas := [(r, s0)] }
          (some { rules := [(a, [c0])], schemas := [(r, s0)] })] := by
  decide

/-- the refuting histories lie outside both partial theorems for the stated reason only. -/
example : witnessRule.all noTear = false ∧ safeRun {} witnessRule = true ∧
    witnessDropRel.all noTear = true ∧ safeRun {} witnessDropRel = false := by decide

end ILV.Props.C16
