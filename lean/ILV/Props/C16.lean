/-
  C16 — rule and schema catalogs are durable and crash-safe.
  Model: ILV.Model.Catalog over ILV.Model.FS, after the `fix:` commit (catalog saves = temp file + fsync + rename +
  directory fsync; `drop_relation` saves the schema catalog).  Helper lemmas: ILV.Lemmas.Catalog.
  FS assumption (Model/FS.lean, strict model): `rename` is atomic and durable in program order — on a real POSIX
  file system it is durable once the parent directory is fsynced, which the repaired `save` does right after the
  rename; unsynced file data may be torn at any byte.
-/
import ILV.Lemmas.Catalog
namespace ILV.Props.C16
open ILV ILV.FS ILV.Cat

/-- a crash + reopen is acceptable iff the engine opens, each persistent catalog (rules, persistent schemas) is the
    one of before or of after the operation in flight (for a crash between operations both are the acknowledged
    catalogs), and no session schema survives. -/
def okOut : Out → Bool
  | .reboot old new (some m) =>
    (decide (m.rules = old.rules) || decide (m.rules = new.rules)) &&
    (decide (m.schemas = old.schemas) || decide (m.schemas = new.schemas)) && decide (m.session = [])
  | .reboot _ _ none => false
  | .ack _ _ => true

theorem okOut_of_outOk {o : Out} (h : outOk o) : okOut o = true := by
  cases o with
  | ack a s => rfl
  | reboot old new got =>
    obtain ⟨m, hg, hr, hs, hss⟩ := h
    subst hg
    simp only [okOut, Bool.and_eq_true, Bool.or_eq_true, decide_eq_true_eq]
    exact ⟨⟨hr, hs⟩, hss⟩

/-- **C16** (full statement). For every history of catalog operations, every crash point — between operations or
    after any file-system step inside one — and every way the unsynced data of every file (the temp files included)
    may be torn: the engine reopens, and each catalog is the old or the new one. -/
theorem C16 (h : List HItem) : (run {} h).all okOut = true := by
  have key : ∀ (h : List HItem) (st : St), Solid st → (run st h).all okOut = true := by
    intro h
    induction h with
    | nil => intro st _; rfl
    | cons it rest ih =>
      intro st hS
      obtain ⟨hok, hnext⟩ := runItem_solid st it hS
      simp only [run]
      cases hr : runItem st it with
      | mk o st? =>
        rw [hr] at hok hnext
        cases st? with
        | none => simp [okOut_of_outOk hok]
        | some st' => simp [okOut_of_outOk hok, ih st' (hnext st' rfl)]
  exact key h {} solid_init

/-- every reopen in every history succeeds ("a crash never makes the KG unopenable"). -/
theorem C16_always_reopens (h : List HItem) : ∀ o ∈ run {} h, ∀ old new got, o = .reboot old new got → got ≠ none := by
  intro o ho old new got he hn
  have := List.all_eq_true.1 (C16 h) o ho
  subst he; subst hn
  simp [okOut] at this

def plain : HItem → Bool
  | .op _ => true
  | .restart _ => true
  | _ => false

/-- **C16, durability of acknowledgements.** Operations (persistent *and* session-schema operations, in any order,
    with any shadowing) and crashes *between* operations (with arbitrary tearing of unsynced data) only: the engine
    always reopens, and after any such history memory is exactly the reference state `specRunH` — operations applied
    in order, every restart forgetting the session schemas and nothing else — and what a further restart reloads is
    that state's rules and persistent schemas (acknowledged registrations minus acknowledged removals), with no
    session schema. -/
theorem C16_acked_durable (h : List HItem) (hp : h.all plain = true) (cuts : List (Path × Cut)) :
    ∃ st, finalSt {} h = some st ∧ st.mem = specRunH {} h ∧
      recover (crash st.disk (cutsOf cuts)) =
        some { rules := (specRunH {} h).rules, schemas := (specRunH {} h).schemas, session := [] } := by
  have key : ∀ (h : List HItem) (st : St), Solid st → h.all plain = true →
      ∃ st', finalSt st h = some st' ∧ st'.mem = specRunH st.mem h ∧ Solid st' := by
    intro h
    induction h with
    | nil => intro st hS _; exact ⟨st, rfl, rfl, hS⟩
    | cons it rest ih =>
      intro st hS hp
      simp only [List.all_cons, Bool.and_eq_true] at hp
      cases it with
      | op o =>
        obtain ⟨_, hnext⟩ := runItem_solid st (.op o) hS
        have hst : (runItem st (.op o)).2 = some { mem := (step st.mem o).2.1, disk := applyAll st.disk (step st.mem o).2.2 } := rfl
        obtain ⟨st', h1, h2, h3⟩ := ih _ (hnext _ hst) hp.2
        exact ⟨st', by simp only [finalSt, hst]; exact h1, by simpa [specRunH] using h2, h3⟩
      | restart c =>
        obtain ⟨_, hnext⟩ := runItem_solid st (.restart c) hS
        have hrec := recover_of_ok hS.rules hS.schemas (cutsOf c)
        have hst : (runItem st (.restart c)).2 =
            some { mem := { rules := st.mem.rules, schemas := st.mem.schemas, session := [] }, disk := crash st.disk (cutsOf c) } := by
          simp [runItem, rebootFrom, hrec]
        obtain ⟨st', h1, h2, h3⟩ := ih _ (hnext _ hst) hp.2
        exact ⟨st', by simp only [finalSt, hst]; exact h1, by simpa [specRunH] using h2, h3⟩
      | opCrash o j c => simp [plain] at hp
  obtain ⟨st', h1, h2, h3⟩ := key h {} solid_init hp
  refine ⟨st', h1, h2, ?_⟩
  have := recover_of_ok h3.rules h3.schemas (cutsOf cuts)
  rw [this, ← h2]

/-! ### the hypotheses are met by non-trivial inputs; the former refutation witnesses now pass -/

def a : Name := [97]
def r : Name := [114]
def s : Name := [115]
def c0 : Clause := { id := 0, arity := 2, bad := false }
def c1 : Clause := { id := 1, arity := 2, bad := false }
def s0 : Schema := { id := 0, bad := false }
def s1 : Schema := { id := 1, bad := false }

/-- former witness 1 (crash inside the rule-catalog write, file torn mid-way): the tear now hits the temp file and
    the engine reopens with the old catalog; one step later (after the rename) with the new one. -/
example :
    run {} [.op (.reg a c0), .opCrash (.reg a c1) 2 [(.ruleTmp, ⟨0, .part⟩)]] =
      [.ack .ok [0, 2, 6, 8, 4], .reboot { rules := [(a, [c0])] } { rules := [(a, [c0, c1])] } (some { rules := [(a, [c0])] })] ∧
    run {} [.op (.reg a c0), .opCrash (.reg a c1) 4 [(.ruleTmp, ⟨0, .part⟩), (.ruleCat, ⟨0, .clean⟩)]] =
      [.ack .ok [0, 2, 6, 8, 4], .reboot { rules := [(a, [c0])] } { rules := [(a, [c0, c1])] } (some { rules := [(a, [c0, c1])] })] := by
  decide

/-- former witnesses 2-4: torn schema write, `drop_relation` + restart, torn catalog after the acknowledgement. -/
example :
    (run {} [.op (.sreg r s0), .opCrash (.sreg s s1) 2 [(.schemaTmp, ⟨0, .clean⟩)]]).all okOut = true ∧
    run {} [.op (.sreg r s0), .op (.dropRel r), .restart []] =
      [.ack .ok [1, 3, 7, 9, 5], .ack .ok [1, 3, 7, 9, 5], .reboot {} {} (some {})] ∧
    run {} [.op (.reg a c0), .restart [(.ruleCat, ⟨0, .nonl⟩)]] =
      [.ack .ok [0, 2, 6, 8, 4], .reboot { rules := [(a, [c0])] } { rules := [(a, [c0])] } (some { rules := [(a, [c0])] })] := by
  decide

/-- `drop_relation` on a name that is both a rule and a schema touches both catalogs; a crash between the two
    saves leaves the new schema catalog and the old rule catalog — each catalog old or new, as stated. -/
example :
    run {} [.op (.reg a c0), .op (.sreg a s0), .opCrash (.dropRel a) 6 []] =
      [.ack .ok [0, 2, 6, 8, 4], .ack .ok [1, 3, 7, 9, 5],
       .reboot { rules := [(a, [c0])], schemas := [(a, s0)] } {} (some { rules := [(a, [c0])] })] := by
  decide

/-- a crash-free history with restarts that exercises every kind of operation is admitted by `C16_acked_durable`. -/
example :
    let h : List HItem := [.op (.reg a c0), .op (.reg a c1), .restart [], .op (.sreg r s0), .op (.clear a),
      .op (.reg a { id := 3, arity := 1, bad := false }), .op (.srem r), .op (.sreg s s1), .op (.dropRel s)]
    h.all plain = true ∧
      specRunH {} h = { rules := [(a, [{ id := 3, arity := 1, bad := false }])], schemas := [] } := by
  decide

/-- session schemas and shadowing, in every order (persistent then session, session then persistent, remove then
    re-register).  `remove_schema` under a shadowing session schema removes the *session* entry only: the persistent
    schema is still registered in memory and is what the restart reloads; a second `remove_schema` removes it for
    good.  All of it is inside `C16_acked_durable`. -/
example :
    let h1 : List HItem := [.op (.supd r s0), .op (.ssupd r s1), .op (.srem r), .restart []]
    let h2 : List HItem := [.op (.ssupd r s1), .op (.supd r s0), .op (.srem r), .op (.srem r), .restart []]
    let h3 : List HItem := [.op (.supd r s0), .op (.ssupd r s1), .op (.srem r), .op (.srem r), .op (.ssupd r s1),
      .op (.sreg r s1), .restart []]
    h1.all plain = true ∧ h2.all plain = true ∧ h3.all plain = true ∧
    run {} h1 = [.ack .ok [1, 3, 7, 9, 5], .ack .ok [], .ack (.okBool true) [1, 3, 7, 9, 5],
      .reboot { schemas := [(r, s0)] } { schemas := [(r, s0)] } (some { schemas := [(r, s0)] })] ∧
    (run {} h2).getLast? = some (.reboot {} {} (some {})) ∧
    (run {} h3).getLast? = some (.reboot { schemas := [(r, s1)], session := [(r, s1)] } { schemas := [(r, s1)], session := [(r, s1)] }
      (some { schemas := [(r, s1)] })) := by
  decide

end ILV.Props.C16
