/-
  C23 — Why-not explanations are truthful.

  Spec   : `truthful prog base M rel target expl` (ILV.Model.ProvSpec): a tuple some clause derives must
           not have every clause reported blocked; a tuple no clause derives needs, for every clause, a
           reported blocker that holds (`blockerHolds`).
  Model  : `explainWhyNot` (ILV.Model.Prov) — mirror of explain_why_not run on the context that the
           repaired `why_not_query` builds: rules + base data + the engine's derived data; greedy (first match).
  The driver runs `truthful`/`blockerHolds` on the explanation the REAL `.why_not` returned.
-/
import ILV.Lemmas.ProvWhyNot
namespace ILV.Props.C23
open ILV ILV.Prov

/-- the facts of the world, as a predicate. -/
def InWorld (base M : DB) (rel : String) (t : Tuple) : Prop := t ∈ world base M rel

/-- **Blocker soundness** (body blockers): a reported blocker accepted by `blockerHolds` really
    refutes the clause body under the reported bindings `β` — whatever is true in the world
    `(base, M)`, the body is not satisfied by `β`. -/
theorem blocker_sound (base M : DB) (r : Rule) (target : Tuple) (β : Bindings) (b : Blocker)
    (hb : b ≠ .headMismatch) (h : blockerHolds base M r target β b = true) :
    ¬ SatBody (InWorld base M) (world base M) β r.body := by
  intro hs
  cases b with
  | headMismatch => exact hb rfl
  | atomFailed i rel bts =>
    simp only [blockerHolds] at h
    split at h
    · rename_i a hi
      simp only [Bool.and_eq_true, beq_iff_eq, List.all_eq_true, Bool.not_eq_true'] at h
      obtain ⟨t, ht, hm⟩ := SatBody_get _ _ β r.body i _ hs hi
      have := h.2 t (by rw [← h.1]; exact ht)
      rw [negBlockedBy_of_argsMatch β a t hm] at this
      cases this
    · simp at h
  | negSucceeded i rel t =>
    simp only [blockerHolds] at h
    split at h
    · rename_i a hi
      simp only [Bool.and_eq_true, beq_iff_eq, List.contains_eq_mem, decide_eq_true_eq] at h
      have := SatBody_get _ _ β r.body i _ hs hi t (by rw [h.1.1]; exact h.1.2)
      rw [h.2] at this
      cases this
    · simp at h
  | cmpFailed i =>
    simp only [blockerHolds] at h
    split at h
    · rename_i x op y hi
      have := SatBody_get _ _ β r.body i _ hs hi
      simp only [LitSat] at this
      simp [this] at h
    · simp at h
  | cmpError i =>
    simp only [blockerHolds] at h
    split at h
    · rename_i x op y hi
      have := SatBody_get _ _ β r.body i _ hs hi
      simp only [LitSat] at this
      simp [this] at h
    · simp at h

/-- head blocker: accepted only when the head really does not unify with the target. -/
theorem blocker_sound_head (base M : DB) (r : Rule) (target : Tuple) (β : Bindings)
    (h : blockerHolds base M r target β .headMismatch = true) : unifyHead target r.head = none := by
  simpa [blockerHolds] using h

/-! a concrete non-trivial instance: `g(X) <- e(X,Y), f(Y)`, `e = {(2,2)}`, `f = {3}`:
    "f(2) has no match" under `X=2, Y=2` holds and refutes the body. -/
def exRule : Rule := ⟨⟨"g", [.var "X"]⟩, [.pos ⟨"e", [.var "X", .var "Y"]⟩, .pos ⟨"f", [.var "Y"]⟩]⟩
def exBase : DB := [("e", [[.i64 2, .i64 2]]), ("f", [[.i64 3]])]
example : ¬ SatBody (InWorld exBase []) (world exBase []) [("Y", .i64 2), ("X", .i32 2)] exRule.body :=
  blocker_sound exBase [] exRule [.i32 2] _ (.atomFailed 1 "f" [.conc (.i64 2)]) (by decide) (by decide)

/-! numeric-aware matching in the blocker checker: for `p(X) <- e(X,P), !flag(P, 1)` the reported
    blocker "negated flag(2,1) exists" (stored as `Int64`s, the rule literal being `Int32 1`) holds, and a
    "no matching tuples" blocker for a positive atom with an `Int32` target is judged on numeric equality. -/
def litRule : Rule := ⟨⟨"p", [.var "X"]⟩, [.pos ⟨"e", [.var "X", .var "P"]⟩, .neg ⟨"flag", [.var "P", .int 1]⟩]⟩
def litBase : DB := [("e", [[.i64 1, .i64 2]]), ("flag", [[.i64 2, .i64 1]])]
example : blockerHolds litBase [] litRule [.i32 1] [("P", .i64 2), ("X", .i32 1)] (.negSucceeded 1 "flag" [.i64 2, .i64 1]) = true := by decide
example : blockerHolds litBase [] litRule [.i32 1] [("X", .i32 1)] (.atomFailed 0 "e" [.conc (.i32 1), .unb "P"]) = false := by decide
example : blockerHolds litBase [] litRule [.i32 5] [("X", .i32 5)] (.atomFailed 0 "e" [.conc (.i32 5), .unb "P"]) = true := by decide

/-- what `.why_not` answers in the model (repaired handler: the context carries the derived data, as
    for `.why`). -/
def whyNot (prog : Program) (base M : DB) (rel : String) (target : Tuple) : Option (List ClauseExpl) :=
  explainWhyNot { rules := prog, base := base, derived := some M } rel target

/-- **C23 at full strength about the model**: for every program of the fragment, the derived data
    being the perfect model, every relation with rules and every target, the explanation is truthful. -/
def C23_statement : Prop :=
  ∀ (prog : Program) (base M : DB) (rel : String) (target : Tuple) (expl : List ClauseExpl),
    prog.supported = true → pmEval prog base = some M → whyNot prog base M rel target = some expl →
    truthful prog base M rel target expl = true

/-! Witness (known finding `greedy_first_match`, the one class that remains): `g(X) <- e(X,Y), f(Y)`,
    `e = {(1,2),(1,3)}`, `f = {3}`: `g(1)` is derived (through `Y = 3`), yet the only clause is reported
    blocked at `f(2)` — the trace takes the first match of each positive atom and never backtracks. -/
def w1Prog : Program := [⟨⟨"g", [.var "X"]⟩, [.pos ⟨"e", [.var "X", .var "Y"]⟩, .pos ⟨"f", [.var "Y"]⟩]⟩]
def w1Base : DB := [("e", [[.i64 1, .i64 2], [.i64 1, .i64 3]]), ("f", [[.i64 3]])]

theorem C23_refuted : ¬ C23_statement := by
  intro h
  have := h w1Prog w1Base [("g", [[.i64 1]])] "g" [.i32 1]
    [{ idx := 0, ruleIdx := 0, bindings := [("Y", .i64 2), ("X", .i32 1)], facts := [("e", [.i64 1, .i64 2], .edb)],
       blocker := some (.atomFailed 1 "f" [.conc (.i64 2)]) }] (by decide) (by decide) (by decide)
  revert this
  decide

/-! The two former refutation witnesses (findings `derived_atom_invisible`, `neg_derived_invisible`,
    fixed): with the derived data in the context the explanations are truthful. -/
def w2Prog : Program :=
  [⟨⟨"p", [.var "X"]⟩, [.pos ⟨"f", [.var "X"]⟩]⟩, ⟨⟨"q", [.var "X"]⟩, [.pos ⟨"p", [.var "X"]⟩, .pos ⟨"e", [.var "X", .wild]⟩]⟩]
def w2Base : DB := [("f", [[.i64 1]])]
example : (whyNot w2Prog w2Base [("p", [[.i64 1]])] "q" [.i32 1]).map (truthful w2Prog w2Base [("p", [[.i64 1]])] "q" [.i32 1]) = some true := by decide
def w3Prog : Program :=
  [⟨⟨"dr", [.var "X"]⟩, [.pos ⟨"f", [.var "X"]⟩]⟩, ⟨⟨"p", [.var "X"]⟩, [.pos ⟨"f", [.var "X"]⟩, .neg ⟨"dr", [.var "X"]⟩]⟩]
example : (whyNot w3Prog w2Base [("dr", [[.i64 1]])] "p" [.i32 1]).map (truthful w3Prog w2Base [("dr", [[.i64 1]])] "p" [.i32 1]) = some true := by decide

/-- **C23_partial.** The excluded inputs are named by one decidable predicate on the clauses of the
    queried relation: `Rule.noChoice` (every variable of every positive body atom occurs in the head, so
    no positive atom has to choose a binding — this excludes exactly `greedy_first_match`); plus
    well-formedness (supported literals, no head variable spelled `_placeholder_…`). Body atoms may be over
    derived relations and negation may be over derived relations: the explanation is judged in the world
    `(base, M)` whose `M` is the derived data the handler hands to `explain_why_not`. Then the explanation
    `.why_not` gives is truthful, for every program, base, derived data and target. -/
theorem C23_partial (prog : Program) (base M : DB) (rel : String) (target : Tuple) (expl : List ClauseExpl)
    (hcl : ∀ r ∈ prog, r.head.rel = rel → r.noChoice = true ∧ r.body.all Lit.supported = true ∧ r.plainVars = true)
    (h : whyNot prog base M rel target = some expl) :
    truthful prog base M rel target expl = true := by
  unfold whyNot explainWhyNot at h
  split at h
  · cases h
  · simp only [Option.some.injEq] at h
    subst h
    have hg : ∀ r ∈ prog.filter (fun r => r.head.rel == rel), r.noChoice = true ∧ r.body.all Lit.supported = true ∧ r.plainVars = true := by
      intro r hr
      rw [List.mem_filter] at hr
      exact hcl r hr.1 (by simpa using hr.2)
    obtain ⟨e1, e2⟩ := explainClauses_exact base M
      { rules := prog, base := base, derived := some M } rfl rfl target _ 0 hg
    unfold truthful
    simp only [Ctx.rulesFor]
    split
    · rename_i hf; exact e1 hf
    · rename_i hf
      exact e2 (by simpa using hf)

/-- the hypotheses of `C23_partial` are met by a non-trivial two-level program: a clause with a join on
    head variables over a *derived* relation, a negated *derived* atom and a comparison; `r(2,3)` is
    explained truthfully (`d(2,3)` matches, `!dr(3)` is blocked by the derived `dr(3)`). -/
def pProg : Program :=
  [⟨⟨"d", [.var "X", .var "Y"]⟩, [.pos ⟨"e", [.var "X", .var "Y"]⟩]⟩,
   ⟨⟨"dr", [.var "Y"]⟩, [.pos ⟨"f", [.var "Y"]⟩]⟩,
   ⟨⟨"r", [.var "X", .var "Y"]⟩, [.pos ⟨"d", [.var "X", .var "Y"]⟩, .neg ⟨"dr", [.var "Y"]⟩, .cmp (.var "X") .lt (.var "Y")]⟩]
def pBase : DB := [("e", [[.i64 1, .i64 2], [.i64 2, .i64 3]]), ("f", [[.i64 3]])]
def pM : DB := [("d", [[.i64 1, .i64 2], [.i64 2, .i64 3]]), ("dr", [[.i64 3]]), ("r", [[.i64 1, .i64 2]])]
example : truthful pProg pBase pM "r" [.i32 2, .i32 3]
    [{ idx := 0, ruleIdx := 2, bindings := [("Y", .i32 3), ("X", .i32 2)], facts := [("d", [.i64 2, .i64 3], .derived)],
       blocker := some (.negSucceeded 1 "dr" [.i64 3]) }] = true :=
  C23_partial pProg pBase pM "r" [.i32 2, .i32 3] _ (by decide) (by decide)

end ILV.Props.C23
