/-
  C18 — Materialization and incremental maintenance are invisible.
  Model: ILV.Model.Incr (`ILV.C18.step`, mirror of derived_relations.rs + the rule/materialisation
  paths of storage_engine/mod.rs). Helper lemmas: ILV.Lemmas.Incr.
-/
import ILV.Lemmas.IncrRun
import ILV.Lemmas.IncrNoMat
import ILV.Lemmas.IncrRecRun
namespace ILV.Props.C18
open ILV.C18

/-! ### names used in the concrete witnesses: a = [97], b = [98], e = [101], f = [102], g = [103] -/
def nA : Name := [97]
def nB : Name := [98]
def nF : Name := [102]
def nG : Name := [103]
def vX : Term := .var 88

/-- `a(X) <- f(X)`, `b(X) <- a(X)`, `b(X) <- f(X)`, `b(X) <- g(X)` -/
def cAF : Clause := ⟨⟨nA, [vX]⟩, [⟨nF, [vX]⟩]⟩
def cBA : Clause := ⟨⟨nB, [vX]⟩, [⟨nA, [vX]⟩]⟩
def cBF : Clause := ⟨⟨nB, [vX]⟩, [⟨nF, [vX]⟩]⟩
def cBG : Clause := ⟨⟨nB, [vX]⟩, [⟨nG, [vX]⟩]⟩
def qB : Atom := ⟨nB, [vX]⟩

/-- The statement, at full strength: after EVERY history of inserts, deletes, rule registrations,
    clause removals/replacements, rule and relation drops, index creation (which switches incremental
    maintenance on) and materialisations that respects the API's own contract (`WellUsed`: only
    derived relations are materialised, with their complete current extension; rule heads carry no
    stored tuples), every query is answered from the published snapshot exactly as a fresh
    evaluation of the current rules over the current facts answers it. -/
def C18_statement : Prop :=
  ∀ (h : List Step) (q : Atom), wellUsed init h = true →
    SetEq (answer (snapDb (run h)) q) (answer (fresh (run h)) q)

/-- witness: `idx ; ins f 1 ; reg a(X)<-f(X) ; reg b(X)<-a(X) ; mat b ; ins f 2` then `?b(X)`. -/
def witness : List Step :=
  [.idx, .ins nF [[1]], .reg cAF, .reg cBA, .mat nB 1, .ins nF [[2]]]

/-- The pinned code violates the statement: `b` stays valid (only `a` is a registered dependent of
    `f`; `derived_to_derived` is empty) and the snapshot keeps answering `[1]`. -/
theorem C18_refuted : ¬ C18_statement := by
  intro h
  have h1 := h witness qB (by decide)
  have h2 : ([2] : Tup) ∈ answer (fresh (run witness)) qB := by decide
  have h3 : ¬ ([2] : Tup) ∈ answer (snapDb (run witness)) qB := by decide
  exact h3 ((h1 [2]).mpr h2)

/-- what the engine under test and its twin answer on the witness. -/
example : answer (snapDb (run witness)) qB = [[1]] ∧ answer (fresh (run witness)) qB = [[1], [2]] := by decide

/-- DESIGN's first reading of the defect ("`b` is auto-materialised empty at registration") does NOT
    happen on the pinned tree: `auto_materialize_rule` always fails, registration alone materialises
    nothing and the answers stay right … -/
example : (run [.idx, .ins nF [[1]], .reg cAF, .reg cBA]).inc.map validMats = some [] ∧
    answer (snapDb (run [.idx, .ins nF [[1]], .reg cAF, .reg cBA, .ins nF [[2]]])) qB = [[1], [2]] := by decide

/-- … but it is exactly what a repaired query line in `auto_materialize_rule` would produce
    (`autoMatWorks = true`): `b` is evaluated without `a`'s rule, stored empty and valid. -/
theorem C18_latent_autoMat :
    let s := runFrom true init [.idx, .ins nF [[1]], .reg cAF, .reg cBA]
    answer (evalProg s.snap.rules s.snap.inputs) qB = [] ∧ answer (fresh s) qB = [[1]] := by decide

/-- The other three defect families, each by its witness (incremental answer, fresh answer). -/
theorem C18_rule_edit_stale :
    let s := run [.idx, .ins nF [[1]], .ins nG [[2]], .reg cBF, .mat nB 1, .reg cBG]
    answer (snapDb s) qB = [[1]] ∧ answer (fresh s) qB = [[1], [2]] := by decide

theorem C18_drop_relation_stale :
    let s := run [.idx, .ins nF [[1]], .reg cBF, .mat nB 1, .drel nF]
    answer (snapDb s) qB = [[1]] ∧ answer (fresh s) qB = [] := by decide

theorem C18_edge_missing_stale :
    let s := run [.ins nF [[1]], .reg cBF, .idx, .mat nB 1, .ins nF [[2]]]
    answer (snapDb s) qB = [[1]] ∧ answer (fresh s) qB = [[1], [2]] := by decide

/-! ### what does hold, for all histories -/

/-- **Partial theorem.** Fix any set `B` of base-relation names. For EVERY history (any length, any
    values, any mix of the 15 step kinds) that passes the decidable check `safe B` — rules read
    relations of `B` only and their heads are outside `B`; clauses are not added/removed/replaced/
    cleared under a valid materialisation; a relation is not dropped under a valid materialisation
    reading it; a relation is materialised only when all its dependency edges are registered (and,
    API contract, only a relation with clauses, with its complete extension) — every query on the
    published snapshot returns exactly the fresh evaluation's answer. The four excluded situations
    are the four known findings. -/
theorem C18_partial (B : List Name) (h : List Step) (q : Atom) (hs : safe B init h = true) :
    SetEq (answer (snapDb (run h)) q) (answer (fresh (run h)) q) :=
  answers_agree (inv_run h hs) q

/-- The invariant behind it (DESIGN: `valid m → m.tuples = PM(name)`): after every safe history every
    valid materialisation equals the fresh evaluation of its relation. -/
theorem C18_valid_is_fresh (B : List Name) (h : List Step) (hs : safe B init h = true)
    (i : Inc) (n : Name) (m : Mat) (hi : (run h).inc = some i) (hm : aget i.mats n = some m)
    (hv : m.valid = true) : SetEq m.tuples (fresh (run h) n) :=
  valid_is_fresh (inv_run h hs) i n m hi hm hv

/-- … and the published snapshot is always the current one. -/
theorem C18_snapshot_current (B : List Name) (h : List Step) (hs : safe B init h = true) :
    (run h).snap = mkSnap (run h) :=
  (inv_run h hs).snap

/-- **Partial theorem, self-recursive rules admitted** (transitive-closure style). As `C18_partial`,
    but a clause body may also mention the clause's own head (`safeRec`). The evaluator is iterated with
    a fuel bound; instead of proving the bound sufficient, `safeRec` additionally checks (decidably) that
    every evaluation of every visited state reached its fix-point — for non-recursive rule sets that is
    a theorem (`conv_oneLevel`), and the driver observes it on every generated history. -/
theorem C18_partial_rec (B : List Name) (h : List Step) (q : Atom) (hs : safeRec B init h = true) :
    SetEq (answer (snapDb (run h)) q) (answer (fresh (run h)) q) :=
  ranswers_agree (rinv_run h hs) q

theorem C18_valid_is_fresh_rec (B : List Name) (h : List Step) (hs : safeRec B init h = true)
    (i : Inc) (n : Name) (m : Mat) (hi : (run h).inc = some i) (hm : aget i.mats n = some m)
    (hv : m.valid = true) : SetEq m.tuples (fresh (run h) n) :=
  rvalid_is_fresh (rinv_run h hs) i n m hi hm hv

/-- transitive closure `p(X,Y) <- e(X,Y). p(X,Z) <- p(X,Y), e(Y,Z).` materialised, invalidated by an insert
    into `e`, re-materialised, invalidated by a delete. -/
def nE : Name := [101]
def nP : Name := [112]
def vY : Term := .var 89
def vZ : Term := .var 90
def cPE : Clause := ⟨⟨nP, [vX, vY]⟩, [⟨nE, [vX, vY]⟩]⟩
def cPR : Clause := ⟨⟨nP, [vX, vZ]⟩, [⟨nP, [vX, vY]⟩, ⟨nE, [vY, vZ]⟩]⟩
def qP : Atom := ⟨nP, [vX, vY]⟩
def recHist : List Step :=
  [.idx, .ins nE [[1, 2], [2, 3]], .reg cPE, .reg cPR, .mat nP 2, .q qP, .ins nE [[3, 4]], .q qP,
   .mat nP 2, .del nE [[1, 2]], .q qP]

example : safeRec [nE] init recHist = true := by decide
example : answer (snapDb (run (recHist.take 5))) qP = [[1, 2], [2, 3], [1, 3]] ∧
    (run (recHist.take 5)).snap.rules = [] := by decide
example : answer (snapDb (run recHist)) qP = [[2, 3], [3, 4], [2, 4]] := by decide
/-- **What the server can reach.** On the pinned tree nothing but the explicit
    `materialize_derived_relation` call ever stores a materialisation (`auto_materialize_rule` fails),
    and the protocol handler never makes that call. For EVERY history without `mat` steps and EVERY
    rule set (derived-on-derived chains, recursion, anything the catalogue accepts) the published
    snapshot is the current facts plus all rules, so the engine under test evaluates literally the
    same program over the same tuples as a fresh evaluation. -/
theorem C18_without_materialize (h : List Step) (hs : h.all (fun st => !(isMat st)) = true) :
    snapDb (run h) = fresh (run h) ∧ ∀ i, (run h).inc = some i → validMats i = [] := by
  have hI := nomat_runFrom h (s := init) ⟨rfl, fun i hi => by simp [init] at hi⟩ hs
  refine ⟨nomat_snapDb hI, ?_⟩
  intro i hi
  simp [validMats, hI.empty i hi]

/-- its hypothesis on DESIGN's original witness (no `mat` step), with incremental maintenance on. -/
example : ([.idx, .ins nF [[1]], .reg cAF, .reg cBA, .ins nF [[2]], .q qB] : List Step).all
    (fun st => !(isMat st)) = true := by decide

/-- a non-trivial safe history: two clauses for `b` over `f`, `g`; materialised; used by a query while
    valid (`[[1],[2]]` comes out of the merged snapshot, the prefix holds no rule); invalidated by an
    insert into `g`; re-materialised; a base relation cleared by prefix. -/
def safeHist : List Step :=
  [.idx, .ins nF [[1]], .ins nG [[2]], .reg cBF, .reg cBG, .mat nB 1, .q qB, .ins nG [[3]], .q qB,
   .mat nB 1, .clrp nF, .q qB]

example : safe [nF, nG] init safeHist = true := by decide
example : wellUsed init safeHist = true := by decide
example : (run (safeHist.take 6)).snap.rules = [] ∧ answer (snapDb (run (safeHist.take 6))) qB = [[1], [2]] := by decide
example : (run (safeHist.take 8)).inc.map validMats = some [] := by decide
example : answer (snapDb (run safeHist)) qB = [[2], [3]] := by decide
/-- the refutation witness is rejected by `safe` for every choice of `B` containing `f`: `b` reads `a`. -/
example : safe [nF] init witness = false ∧ safe [nF, nA] init witness = false := by decide

/-- `safe` (the non-recursive fragment) rejects the recursive history; `safeRec` also accepts the non-recursive one. -/
example : safe [nE] init recHist = false ∧ safeRec [nF, nG] init safeHist = true := by decide

end ILV.Props.C18
