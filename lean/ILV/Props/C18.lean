/-
  C18 — Materialization and incremental maintenance are invisible.
  Model: ILV.Model.Incr (`ILV.C18.step`): derived_relations.rs + the rule/materialisation paths of
  storage_engine/mod.rs AFTER the repairs fixes/C18-1..4. Lemmas: ILV.Lemmas.Incr* (no Mathlib).
-/
import ILV.Lemmas.IncrFullRun
namespace ILV.Props.C18
open ILV.C18

/-- **C18, full statement.** After EVERY history of inserts, deletes, prefix clears, rule registrations,
    clause removals / replacements / clears, rule / prefix / relation drops, index creation (which
    switches incremental maintenance on) and drops, and materialisations — for every rule set the
    catalogue accepts (chains of derived relations, recursion, anything) — that respects the API's own
    contract (`wellUsed`: only a relation that has clauses is materialised, and with its complete current
    extension; a rule head carries no stored tuples; a replacement clause keeps its head), every query is
    answered from the published snapshot exactly as a fresh evaluation of the current
    rules over the current facts answers it. -/
theorem C18 (h : List Step) (q : Atom) (hw : wellUsed init h = true) :
    SetEq (answer (snapDb (run h)) q) (answer (fresh (run h)) q) :=
  fanswers_agree (finv_run h hw) q

/-- The model's evaluator (naive iteration with a fuel bound and early stop) always reaches its
    fix-point within the bound, so nothing in `C18` is conditional on it. -/
theorem C18_evaluator_total (prog : List Clause) (inputs : List (Name × List Tup)) : conv prog inputs = true :=
  conv_always prog inputs

/-- The invariant behind it (DESIGN: `valid m → m.tuples = PM(name)`), now without any restriction on
    the rules: every valid materialisation equals the fresh evaluation of its relation. -/
theorem C18_valid_is_fresh (h : List Step) (hw : wellUsed init h = true)
    (i : Inc) (n : Name) (m : Mat) (hi : (run h).inc = some i) (hm : aget i.mats n = some m)
    (hv : m.valid = true) : SetEq m.tuples (fresh (run h) n) :=
  ((finv_run h hw).core.mats i n m hi hm hv).2

/-- the published snapshot is always the current one … -/
theorem C18_snapshot_current (h : List Step) (hw : wellUsed init h = true) :
    (run h).snap = mkSnap (run h) :=
  (finv_run h hw).snap

/-- … and the engine's rule registry always knows every dependency of every catalogued rule. -/
theorem C18_edges_registered (h : List Step) (hw : wellUsed init h = true)
    (i : Inc) (hi : (run h).inc = some i) (n : Name) (c : Clause) (hcl : c ∈ clausesNow (run h) n)
    (r : Name) (hr : r ∈ bodyRels c) (hne : r ≠ n) : n ∈ (aget i.b2d r).getD [] :=
  (finv_run h hw).core.edges i hi n c hcl r hr hne

/-! ### the hypotheses are met by non-trivial histories: the four former refutation witnesses -/

def nA : Name := [97]
def nB : Name := [98]
def nE : Name := [101]
def nF : Name := [102]
def nG : Name := [103]
def nP : Name := [112]
def vX : Term := .var 88
def vY : Term := .var 89
def vZ : Term := .var 90
def cAF : Clause := ⟨⟨nA, [vX]⟩, [⟨nF, [vX]⟩]⟩
def cBA : Clause := ⟨⟨nB, [vX]⟩, [⟨nA, [vX]⟩]⟩
def cBF : Clause := ⟨⟨nB, [vX]⟩, [⟨nF, [vX]⟩]⟩
def cBG : Clause := ⟨⟨nB, [vX]⟩, [⟨nG, [vX]⟩]⟩
def qB : Atom := ⟨nB, [vX]⟩
def cPE : Clause := ⟨⟨nP, [vX, vY]⟩, [⟨nE, [vX, vY]⟩]⟩
def cPR : Clause := ⟨⟨nP, [vX, vZ]⟩, [⟨nP, [vX, vY]⟩, ⟨nE, [vY, vZ]⟩]⟩
def qP : Atom := ⟨nP, [vX, vY]⟩

/-- derived-on-derived (was `C18_refuted`): `b` reads `a` reads `f`; `b` is materialised; `f` changes. -/
def wDerived : List Step := [.idx, .ins nF [[1]], .reg cAF, .reg cBA, .mat nB 1, .ins nF [[2]]]
/-- a clause is added under a valid materialisation (was `C18_rule_edit_stale`). -/
def wEdit : List Step := [.idx, .ins nF [[1]], .ins nG [[2]], .reg cBF, .mat nB 1, .reg cBG]
/-- the relation a materialisation reads is dropped (was `C18_drop_relation_stale`). -/
def wDrop : List Step := [.idx, .ins nF [[1]], .reg cBF, .mat nB 1, .drel nF]
/-- the rule is older than the engine (was `C18_edge_missing_stale`). -/
def wLate : List Step := [.ins nF [[1]], .reg cBF, .idx, .mat nB 1, .ins nF [[2]]]

example : wellUsed init wDerived = true := by decide
example : wellUsed init wEdit = true := by decide
example : wellUsed init wDrop = true := by decide
example : wellUsed init wLate = true := by decide

/-- what the repaired machine answers on them (each was `[[1]]` before the repair), and that the stale
    materialisation is gone in each case. -/
example : answer (snapDb (run wDerived)) qB = [[1], [2]] ∧ (run wDerived).inc.map validMats = some [] := by decide
example : answer (snapDb (run wEdit)) qB = [[1], [2]] ∧ (run wEdit).inc.map validMats = some [] := by decide
example : answer (snapDb (run wDrop)) qB = [] ∧ (run wDrop).inc.map validMats = some [] := by decide
example : answer (snapDb (run wLate)) qB = [[1], [2]] ∧ (run wLate).inc.map validMats = some [] := by decide

/-- a history in which materialisations are USED: transitive closure `p` and `b(X) <- a(X)` over
    `a(X) <- f(X)`, both materialised, a query answered from the merged snapshot (no rule of `p` or `b`
    in the prefix), an unrelated insert that leaves `p` valid and invalidates `b`. -/
def wUse : List Step :=
  [.idx, .ins nE [[1, 2], [2, 3]], .ins nF [[7]], .reg cPE, .reg cPR, .reg cAF, .reg cBA,
   .mat nP 2, .mat nB 1, .q qP, .ins nF [[8]], .q qP, .q qB]

example : wellUsed init wUse = true := by decide
example : (run (wUse.take 9)).snap.rules = [cAF] ∧
    answer (snapDb (run (wUse.take 9))) qP = [[1, 2], [2, 3], [1, 3]] := by decide
example : (run wUse).inc.map validMats = some [(nP, [[1, 2], [2, 3], [1, 3]])] ∧
    answer (snapDb (run wUse)) qB = [[7], [8]] := by decide

end ILV.Props.C18
