/-
  C27 — Authorization holds for every (multi-statement) program.
  Model: ILV.Model.Handler.execProgram = the repaired `Handler::execute_program`: `authorize_program`
  applies the global gate, the `_internal` gate and the per-KG gate to every logical line — the same
  `parse_statement(line)` the executor uses, with the running KG followed through `.kg use/create/drop` —
  before anything runs. Spec: ILV.Spec.Access.allowed (C28 tables + ACL rows of the state before the call).
-/
import ILV.Lemmas.C27
namespace ILV.Props.C27
open ILV ILV.Text ILV.Handler ILV.Gen.C28 ILV.Spec.Access

/-- **C27.** Whatever the program text (any number of statements, comments, continuation lines, graph
    switches), the identity, the ACLs, the session binding and the KG argument: every statement a request
    of identity `(u, r)` runs is permitted to `(u, r)` on the KG it acts on at the moment it runs. -/
theorem C27 (P : Parser) (w : World) (rq : Req) (u : String) (r : Role)
    (hid : identityOf w rq.user = some (some (u, r))) :
    ∀ e ∈ (execProgram P w rq).trace, allowed w u r e = true := by
  intro e he
  rcases exec_gated P w rq e he with ⟨role, hrole, hg⟩
  rw [hid] at hrole
  cases hrole
  exact gates_allowed w u r e.stmt e.kg hg

/-- the executed statement is a statement of the program, gated with the running KG: the gates of the
    pre-pass and the executor agree on statement and KG (`exec_gated`, by induction over the lines) -/
theorem C27_gates_agree (P : Parser) (w : World) (rq : Req) :
    ∀ e ∈ (execProgram P w rq).trace, ∃ role, identityOf w rq.user = some role ∧
      gates w role (some e.stmt) (some e.kg) = none :=
  exec_gated P w rq

/-! the former counterexamples (now corpus files) are refused without effect -/
def witP : Parser := fun k =>
  if k = "+m1(7)" then some ⟨.insert, .insert "m1" [[.i64 7]]⟩
  else if k = "?m1(X)" then some ⟨.query, .query "m1" 1⟩
  else if k = ".kg use kga" then some ⟨.kgUse, .name "kga"⟩ else none
def witW : World :=
  ⟨[⟨"_internal", [("users", [[strVal "vi", strVal "h", strVal "viewer"]]),
                   ("kg_acls", [[strVal "default", strVal "vi", strVal "viewer"], [strVal "kga", strVal "vi", strVal "editor"]])], [], []⟩,
    ⟨"default", [("m1", [[.i64 0]])], [], []⟩, ⟨"kga", [("m1", [[.i64 0]])], [], []⟩, ⟨"kgb", [("m1", [[.i64 0]])], [], []⟩],
   [⟨"vi", "kgb", [], [], false⟩]⟩
example : (execProgram witP witW ⟨some "vi", false, some "default", "+m1(7)\n?m1(X)".toList⟩).res = .err "denied-kgviewer" ∧
    (execProgram witP witW ⟨some "vi", false, some "default", "+m1(7)\n?m1(X)".toList⟩).w = witW := by decide
example : (execProgram witP witW ⟨some "vi", false, some "default", "?m1(X) // hi\n+m1(7)".toList⟩).res = .err "denied-kgviewer" := by decide
example : (execProgram witP witW ⟨some "vi", true, some "default", "?m1(X)".toList⟩).res = .err "denied-noacl" := by decide   -- session on kgb: gated there
example : (execProgram witP witW ⟨some "vi", false, none, "+m1(7)".toList⟩).res = .err "denied-kgviewer" := by decide       -- gated on the default KG
-- the theorem is not vacuous: a permitted multi-statement program with a graph switch runs, in order
example : identityOf witW (some "vi") = some (some ("vi", .viewer)) ∧
    (execProgram witP witW ⟨some "vi", false, some "default", "?m1(X)\n.kg use kga\n+m1(7)".toList⟩).trace =
      [⟨⟨.query, .query "m1" 1⟩, "default"⟩, ⟨⟨.kgUse, .name "kga"⟩, "default"⟩, ⟨⟨.insert, .insert "m1" [[.i64 7]]⟩, "kga"⟩] ∧
    (findKg (execProgram witP witW ⟨some "vi", false, some "default", "?m1(X)\n.kg use kga\n+m1(7)".toList⟩).w "kga").map (relOf · "m1")
      = some [[.i64 0], [.i64 7]] := by decide

end ILV.Props.C27
