/-
  C27 — Authorization holds for every (multi-statement) program.
  Model: ILV.Model.Handler.execProgram (= `Handler::execute_program`, handler.rs:4248) whose trace lists
  every statement that ran together with the KG that was current when it ran. Spec: ILV.Spec.Access.allowed
  (permission tables of C28 + the ACL rows of the state before the call). Grammar `P` is a parameter.
-/
import ILV.Lemmas.C27
namespace ILV.Props.C27
open ILV ILV.Text ILV.Handler ILV.Gen.C28 ILV.Spec.Access

/-- **C27, full statement**: whatever the program text, every statement a request of identity `(u, r)`
    runs is permitted to `(u, r)` on the KG it acts on. -/
def C27_statement : Prop :=
  ∀ (P : Parser) (w : World) (rq : Req) (u : String) (r : Role),
    identityOf w rq.user = some (some (u, r)) → ∀ e ∈ (execProgram P w rq).trace, allowed w u r e = true

/-! witnesses: user `vi` is a global viewer, KG viewer of `default`, without any role on `kga` -/
def witP : Parser := fun k =>
  if k = "+m1(7)" then some ⟨.insert, .insert "m1" [[.i64 7]]⟩
  else if k = "?m1(X)" then some ⟨.query, .query "m1" 1⟩ else none
def witW : World :=
  ⟨[⟨"_internal", [("users", [[strVal "vi", strVal "h", strVal "viewer"]]),
                   ("kg_acls", [[strVal "default", strVal "vi", strVal "viewer"]])], [], []⟩,
    ⟨"default", [("m1", [[.i64 0]])], [], []⟩, ⟨"kga", [("m1", [[.i64 0]])], [], []⟩],
   [⟨"vi", "kga", [], [], false⟩]⟩
/-- whole text does not parse as one statement → no gate runs; line 1 inserts -/
def rqUnparsed : Req := ⟨some "vi", false, some "default", "+m1(7)\n?m1(X)".toList⟩
/-- `strip_inline_comment` cuts the whole text at `//` → the gates see a query; line 2 inserts -/
def rqCommentCut : Req := ⟨some "vi", false, some "default", "?m1(X) // hi\n+m1(7)".toList⟩
/-- explicit KG `default` is gated, but `query_program_with_session` reads the session's KG `kga` -/
def rqSessionKgArg : Req := ⟨some "vi", true, some "default", "?m1(X)".toList⟩
/-- neither a KG nor a session: no per-KG gate, execution falls back to `default` -/
def rqNoTarget : Req := ⟨some "vi", false, none, "+m1(7)".toList⟩

theorem C27_refuted : ¬ C27_statement := by
  intro h
  have h1 := h witP witW rqUnparsed "vi" .viewer (by decide)
  revert h1
  decide

/-- the "in particular" clause fails with it: the KG viewer's request is accepted and `default` changes -/
theorem C27_refuted_state :
    (execProgram witP witW rqUnparsed).res = .rows [[.i64 0], [.i64 7]] ∧
    (findKg (execProgram witP witW rqUnparsed).w "default").map (relOf · "m1") = some [[.i64 0], [.i64 7]] := by decide

theorem C27_refuted_comment_cut :
    ∃ e ∈ (execProgram witP witW rqCommentCut).trace, allowed witW "vi" .viewer e = false ∧ e.stmt.kind = .insert := by decide

theorem C27_refuted_session_kgarg :
    ∃ e ∈ (execProgram witP witW rqSessionKgArg).trace, allowed witW "vi" .viewer e = false ∧ e.kg = "kga" := by decide

theorem C27_refuted_no_target :
    ∃ e ∈ (execProgram witP witW rqNoTarget).trace, allowed witW "vi" .viewer e = false ∧ e.kg = "default" := by decide

/-- **gates agree** (single-line requests): the statement that runs *is* the statement the gates saw
    (same grammar, same text), it runs in the KG the gates checked, and the gates passed on it. -/
theorem C27_gates_agree (P : Parser) (w : World) (rq : Req) (cur : String)
    (h1 : singleLine rq = true) (h2 : sessionQueryWithKgArg w rq = false) (h3 : curKgOf w rq = some cur) :
    ∀ e ∈ (execProgram P w rq).trace,
      e.kg = cur ∧ parseStatement P (trim rq.text) = some e.stmt ∧
      ∃ role, identityOf w rq.user = some role ∧ gates w role (some e.stmt) (some cur) = none :=
  exec_trace_single P w rq cur h1 h2 h3

/-- **C27, partial theorem.** Outside three named input classes — more than one physical line
    (`singleLine`), a `?…` request carrying both a session id and an explicit KG
    (`sessionQueryWithKgArg`), no explicit KG and no live session (`noTargetKg`) — every statement that
    runs is permitted: for all grammars, states, identities, ACLs, sessions and texts. -/
theorem C27_partial (P : Parser) (w : World) (rq : Req) (u : String) (r : Role)
    (hid : identityOf w rq.user = some (some (u, r)))
    (h1 : singleLine rq = true) (h2 : sessionQueryWithKgArg w rq = false) (h3 : noTargetKg w rq = false) :
    ∀ e ∈ (execProgram P w rq).trace, allowed w u r e = true := by
  intro e he
  cases hc : curKgOf w rq with
  | none => simp [noTargetKg, hc] at h3
  | some cur =>
    rcases exec_trace_single P w rq cur h1 h2 hc e he with ⟨hk, _, role, hrole, hg⟩
    rw [hid] at hrole
    cases hrole
    have := gates_allowed w u r e.stmt cur hg
    rw [← hk] at this
    exact this

-- the partial theorem is not vacuous: a single-line insert by an identity with write permission runs,
-- and a single-line insert by the KG viewer is refused (empty trace)
def witW2 : World :=
  ⟨[⟨"_internal", [("users", [[strVal "vi", strVal "h", strVal "viewer"]]),
                   ("kg_acls", [[strVal "default", strVal "vi", strVal "editor"]])], [], []⟩,
    ⟨"default", [("m1", [[.i64 0]])], [], []⟩], []⟩
example : identityOf witW2 (some "vi") = some (some ("vi", .viewer)) ∧
    singleLine ⟨some "vi", false, some "default", "+m1(7)".toList⟩ = true ∧
    sessionQueryWithKgArg witW2 ⟨some "vi", false, some "default", "+m1(7)".toList⟩ = false ∧
    noTargetKg witW2 ⟨some "vi", false, some "default", "+m1(7)".toList⟩ = false ∧
    (execProgram witP witW2 ⟨some "vi", false, some "default", "+m1(7)".toList⟩).trace = [⟨⟨.insert, .insert "m1" [[.i64 7]]⟩, "default"⟩] := by decide
example : (execProgram witP witW ⟨some "vi", false, some "default", "+m1(7)".toList⟩).res = .err "denied-kgviewer" ∧
    (execProgram witP witW ⟨some "vi", false, some "default", "+m1(7)".toList⟩).trace = [] := by decide
-- each refuting request lies in exactly the excluded class it is named after
example : singleLine rqUnparsed = false ∧ singleLine rqCommentCut = false ∧
    sessionQueryWithKgArg witW rqSessionKgArg = true ∧ noTargetKg witW rqNoTarget = true := by decide

end ILV.Props.C27
