/-
  C13 — acknowledged writes survive any crash and recovery always succeeds (Immediate durability).
  Model: ILV.Model.Persist over ILV.Model.FS; Spec: ILV.Spec.C13.  Helper lemmas: ILV.Lemmas.Persist.
-/
import ILV.Lemmas.PersistOps
namespace ILV.Props.C13
open ILV ILV.FS ILV.Persist ILV.Spec.C13

/-- **C13 at full strength**: for every buffer size, every history, every crash point (inside an operation or
    inside a recovery) and every way unsynced data may be torn, every reopen succeeds and serves the acknowledged
    state or that plus the operation in flight. -/
def C13_statement : Prop :=
  ∀ (b : Nat) (h : List HItem), specJudge [] none (h ++ [.restart]) (run b h) = true

def r : Name := [107, 58, 114]    -- shard `k:r`

/-! ### refutations: five independent crash windows -/

/-- (1) `flush` renames the shard metadata into place before it rewrites the WAL.  A crash in between leaves the
    flushed updates in a batch *and* in the WAL; recovery writes them into a second batch.  The doubled `+1` of
    tuple 0 outlives the acknowledged delete: after the next restart tuple 0 is back. -/
def witnessDouble : List HItem := [.op (.ins r [0]), .opCrash (.ins r [1]) 8 none, .op (.del r [0])]

theorem witnessDouble_resurrects :
    (run 2 witnessDouble).getLast? = some (.opened [(r, [0, 1])] [.persistNewMkdir, .walNewMkdir, .batchTmpwrite, .batchFsync,
      .batchRename, .metaTmpwrite, .metaFsync, .metaRename, .walRewriteUnlink]) ∧
    specJudge [] none (witnessDouble ++ [.restart]) (run 2 witnessDouble) = false := by decide

/-- (2) a three-tuple insert is three WAL lines in one unsynced write: torn after the first line plus a fragment, the
    reopened engine serves exactly one of the three tuples. -/
def witnessTorn : List HItem := [.opCrash (.ins r [0, 1, 2]) 5 (some ⟨1, .part⟩)]

theorem witnessTorn_partial_operation :
    (run 100 witnessTorn).take 2 = [.crashed [], .opened [(r, [0])] [.persistNewMkdir, .walNewMkdir, .batchTmpwrite,
      .batchFsync, .batchRename, .metaTmpwrite, .metaFsync, .metaRename, .walRewriteUnlink]] ∧
    specJudge [] none (witnessTorn ++ [.restart]) (run 100 witnessTorn) = false := by decide

/-- (3) the same write torn inside a multi-byte character: `read_all` fails, the engine does not open. -/
def witnessMidchar : List HItem := [.opCrash (.ins r [1]) 5 (some ⟨0, .midchar⟩)]

theorem witnessMidchar_unopenable : run 100 witnessMidchar = [.crashed [], .openFailed] := by decide

/-- (4) a WAL that holds only a torn line is kept by recovery; the next acknowledged insert is glued onto that line
    and is lost at the following restart. -/
def witnessTail : List HItem := [.opCrash (.ins r [0]) 5 (some ⟨0, .part⟩), .op (.ins r [2])]

theorem witnessTail_loses_acked_write :
    run 100 witnessTail = [.crashed [], .opened [] [.persistNewMkdir, .walNewMkdir], .ack true [.walOpen, .walAppendWrite, .walAppendFsync] [],
      .crashed [], .opened [] [.persistNewMkdir, .walNewMkdir]] ∧
    specJudge [] none (witnessTail ++ [.restart]) (run 100 witnessTail) = false := by decide

/-- (5) `delete_shard` unlinks the batch files one at a time before it touches WAL and metadata: a crash after the
    second unlink leaves the part of the relation that was not yet flushed. -/
def witnessDrop : List HItem :=
  [.op (.ins r [0]), .op (.ins r [1]), .op (.ins r [2]), .op (.ins r [3]), .op (.ins r [6]), .opCrash (.dropRel r) 2 none]

theorem witnessDrop_partial_relation :
    ((run 2 witnessDrop).drop 6).head? = some (.opened [(r, [6])] [.persistNewMkdir, .walNewMkdir, .batchTmpwrite, .batchFsync,
      .batchRename, .metaTmpwrite, .metaFsync, .metaRename, .walRewriteUnlink]) ∧
    specJudge [] none (witnessDrop ++ [.restart]) (run 2 witnessDrop) = false := by decide

theorem C13_refuted : ¬ C13_statement := by
  intro h
  have h1 := h 2 witnessDouble
  rw [witnessDouble_resurrects.2] at h1
  exact absurd h1 (by decide)

/-! ### what does hold (WAL layer, for all file contents, all requests, all cuts)

The end-to-end invariant "recover(crash image) lies between acked and attempted" is *not* proved for the flush /
compaction / drop paths (they are where the refutations live); what is proved is the durability core of `append`
in Immediate mode and the exact shape of what tearing can do. -/

/-- **C13_partial (acknowledged appends are durable at the WAL).** For every disk whose WAL is clean with entries
    `ws`, every request `es`: after the append's `write` + `fsync` (the point where `append` returns and the engine
    acknowledges), *every* crash image — whatever is torn in whatever file — yields exactly `ws ++ es` on replay. -/
theorem C13_partial_acked_append_survives (d : Disk) (ws es : List (Name × Update))
    (hf : get d .wal = some { synced := ws.map mk, unsynced := [] }) (cuts : Path → Option Cut) :
    readAll (crash (applyAll d [.append .wal (es.map (fun e => .wal e.1 e.2)), .fsync .wal]) cuts) = some (ws ++ es) :=
  acked_append_survives d ws es [] hf rfl cuts

/-- **C13_partial (fsync is a barrier).** After `fsync` of the WAL no cut anywhere changes what replay reads. -/
theorem C13_partial_fsync_barrier (d : Disk) (f : File Rec) (hf : get d .wal = some f) (cuts : Path → Option Cut) :
    readAll (crash (apply d (.fsync .wal)) cuts) = walParse false f.items :=
  readAll_after_fsync d f hf cuts

/-- **before the fsync**: a crash that cuts the unsynced write after `k` lines (at the boundary, or leaving a
    fragment of line `k+1`) makes replay see the old entries and the first `k` entries of the request: never
    anything that was not attempted, but for `0 < k < |es|` a strict prefix of *one* operation. -/
theorem C13_partial_torn_append_is_prefix (d : Disk) (ws es : List (Name × Update)) (k : Nat)
    (hf : get d .wal = some { synced := ws.map mk, unsynced := [] }) :
    readAll (crash (apply d (.append .wal (es.map (fun e => .wal e.1 e.2)))) (cutAt .wal ⟨k, .clean⟩)) = some (ws ++ es.take k) ∧
    (k < es.length →
      readAll (crash (apply d (.append .wal (es.map (fun e => .wal e.1 e.2)))) (cutAt .wal ⟨k, .part⟩)) = some (ws ++ es.take k)) :=
  ⟨torn_append_prefix_clean d ws es k hf, fun hk => torn_append_prefix_part d ws es k hk hf⟩

/-- the general form of witness (4): a WAL ending in a fragment loses the first entry appended after it. -/
theorem C13_torn_tail_swallows_next (ws es : List (Name × Update)) (x : Rec) (e : Name × Update) :
    walParse false ((ws.map mk ++ [.torn .part x]) ++ (e :: es).map mk) = some (ws ++ es) :=
  torn_tail_swallows_next ws es x e

/-- the general form of witness (3). -/
theorem C13_midchar_unreadable (ws : List (Name × Update)) (s : Name) (u : Update) (hm : multibyte u.t = true)
    (rest : List (Item Rec)) : walParse false (ws.map mk ++ .torn .midchar (.wal s u) :: rest) = none :=
  midchar_read_fails ws s u hm rest

/-- the hypotheses are met by a non-trivial state: the disk after two acknowledged inserts has a clean WAL with two
    entries, and a third, two-tuple request torn after its first line yields three entries. -/
example :
    let w := runOp 100 (runOp 100 {} (.ins r [0])) (.ins r [1])
    get w.disk .wal = some { synced := [((r, { t := 0, time := 1, diff := 1 }) : Name × Update), (r, { t := 1, time := 2, diff := 1 })].map mk,
                             unsynced := [] } ∧
    readAll (crash (apply w.disk (.append .wal [.wal r { t := 2, time := 3, diff := 1 }, .wal r { t := 3, time := 3, diff := 1 }]))
      (cutAt .wal ⟨1, .clean⟩)) =
      some [(r, { t := 0, time := 1, diff := 1 }), (r, { t := 1, time := 2, diff := 1 }), (r, { t := 2, time := 3, diff := 1 })] := by
  decide

/-- crash-free and boundary-crash histories do satisfy the Spec (the statement is not vacuous or everywhere false):
    two relations, auto-flush, delete, compaction, a crash inside an insert before its fsync and one after. -/
example :
    let h : List HItem := [.op (.ins r [0]), .op (.ins [107, 58, 115] [1]), .op (.ins r [2]), .op (.del r [0]), .op (.compactAll []),
      .opCrash (.ins r [3]) 1 none, .opCrash (.ins r [4]) 3 none]
    specJudge [] none (h ++ [.restart]) (run 2 h) = true ∧
      (run 2 h).getLast? = some (.opened [(r, [2, 4]), ([107, 58, 115], [1])] [.persistNewMkdir, .walNewMkdir]) := by
  decide

/-! ### C13_partial_flush: the end-to-end invariant on the append + flush + recovery paths of one shard -/

/-- histories of the fragment, judged along the run: inserts / deletes on shard `s` (any tuples, any buffer size,
    so with and without auto-flush; a delete only when the engine knows the relation — otherwise the repaired
    `delete_tuples_from` acknowledges `Ok(0)` without touching the store), crashes between operations, and crashes inside an operation after *any* of its
    file-system steps with the as-is image — except an image recognised by `imageDoubled` (the flush window between
    the metadata rename and the WAL rewrite: finding `flush_crash_between_meta_and_wal`), and crashes inside a recovery
    after any of *its* steps (same exception, for the drain flush).  Torn cuts, relation drops, compaction and
    explicit flush-all are outside the fragment. -/
def admissible (b : Nat) (s : Name) : Sys → List HItem → Bool
  | _, [] => true
  | .down d, .openCrash j none [] :: rest =>
    -- a crash inside the recovery itself, after any of its FS steps (orphan cleanup, drain flush)
    match openEngine d with
    | none => true
    | some w =>
      !imageDoubled (imageAt d w.trace j none) && admissible b s (.down (imageAt d w.trace j none)) rest
  | sys, it :: rest =>
    match bringUp sys with
    | (_, none) => true
    | (_, some w) =>
      match it with
      | .op o => onShard s o && delKnown w o && admissible b s (.up (runOp b w o)) rest
      | .opCrash o j none =>
        onShard s o && delKnown w o && !imageDoubled (imageAt w.disk (runOp b w o).trace j none) &&
          admissible b s (.down (imageAt w.disk (runOp b w o).trace j none)) rest
      | .restart => admissible b s (.down (crash w.disk noCut)) rest
      | _ => false

theorem imageAt_none (d : Disk) (trace : List Step) (j : Nat) :
    imageAt d trace j none = crash (applyAll d ((trace.map (·.2)).take j)) noCut := by
  simp [imageAt, List.map_take]

theorem c11_ok {s : Name} {w : World} {C : List Update} (o : EOp) (ho : onShard s o = true) (hb : Bin C)
    (hc : c11Shape (visOf s C) o = false) :
    specApply (visOf s C) o = visOf s (C ++ opUpdates w o) ∧ Bin (C ++ opUpdates w o) := by
  cases o with
  | ins r ts => simp only [onShard, decide_eq_true_eq] at ho; subst ho; exact ins_ok r C ts w.mem.clock hb hc
  | del r ts => simp only [onShard, decide_eq_true_eq] at ho; subst ho; exact del_ok r C ts w.mem.clock hb hc
  | dropRel r => simp [onShard] at ho
  | flushAll k ord => simp [onShard] at ho
  | compactAll ord => simp [onShard] at ho

/-- the invariant of the run: a running engine whose durable content `C` agrees with the Spec state, or a crash image
    whose content is `C` (acknowledged) or `C'` (acknowledged + in flight). -/
def RunInv (s : Name) : Sys → SpecSt → Option SpecSt → Prop
  | .up w, S, P => ∃ C, Run s w C ∧ Bin C ∧ S = visOf s C ∧ P = none
  | .down d, S, P => ∃ C C' md X es, Img s d md X es ∧ (X ++ es = C ∨ X ++ es = C') ∧ Bin C ∧ Bin C' ∧ S = visOf s C ∧
      (P = some (visOf s C') ∨ (P = none ∧ C' = C))

/-- **C13_partial_flush.**  For every buffer size, every shard name and every admissible history — inserts and
    deletes of arbitrary tuple lists on one shard, through `ensure_shard`, WAL append + fsync, auto-flush (batch file,
    metadata, WAL rewrite) and full recovery (load_shards, orphan cleanup, WAL replay, drain flush), over any number
    of crash / recovery epochs, crashing after any file-system step outside the recognised flush window — every reopen
    succeeds and serves the state of the acknowledged operations or that plus the operation in flight. -/
theorem C13_partial_flush (b : Nat) (s : Name) (h : List HItem)
    (hadm : admissible b s (.up {}) (h ++ [.restart]) = true) :
    specJudge [] none (h ++ [.restart]) (run b h) = true := by
  have key : ∀ (items : List HItem) (sys : Sys) (S : SpecSt) (P : Option SpecSt), RunInv s sys S P →
      admissible b s sys items = true → specJudge S P items (runItems b sys items) = true := by
    intro items
    induction items with
    | nil =>
      intro sys S P hinv _
      cases sys with
      | up w => simp [runItems, bringUp, specJudge]
      | down d =>
        obtain ⟨C, C', md, X, es, himg, hc, _, _, hS, hP⟩ := hinv
        obtain ⟨w, hopen, _, hvis⟩ := recover_img himg
        simp only [runItems, bringUp, hopen, specJudge, hvis, Bool.and_true, Bool.or_eq_true, decide_eq_true_eq]
        rcases hc with hc | hc
        · left; rw [hc, hS]
        · rcases hP with hP | ⟨_, hcc⟩
          · right; rw [hc, hP]
          · left; rw [hc, hcc, hS]
    | cons it rest ih =>
      intro sys S P hinv hadm
      -- a crash inside the recovery of a crash image
      by_cases hoc : ∃ d j, sys = .down d ∧ it = .openCrash j none []
      · obtain ⟨d, j, hsys, hit⟩ := hoc
        subst hsys; subst hit
        obtain ⟨C, C', md, X, es, himg, hc, hbC, hbC', hS, hP⟩ := hinv
        obtain ⟨w, hopen, hpre⟩ := recover_pre himg
        simp only [admissible, hopen, Bool.and_eq_true, Bool.not_eq_true'] at hadm
        obtain ⟨hnd, hadm'⟩ := hadm
        have hri : runItems b (.down d) (.openCrash j none [] :: rest) =
            .crashed (metaOrder w.trace) :: runItems b (.down (imageAt d w.trace j none)) rest := by
          simp [runItems, hopen]
        rw [hri]
        simp only [specJudge]
        rw [imageAt_none] at hnd hadm' ⊢
        rcases hpre j with ⟨md', X', es', himg', hcont⟩ | hd
        · have hcont' : X' ++ es' = X ++ es := by rcases hcont with h | h <;> exact h
          exact ih _ _ _ ⟨C, C', md', X', es', himg'.crash, by rw [hcont']; exact hc, hbC, hbC', hS, hP⟩ hadm'
        · have := hd.crash.doubled
          rw [this] at hnd
          cases hnd
      -- otherwise first bring the engine up; a crash image is reopened and judged
      have hup : ∃ w outs S', bringUp sys = (outs, some w) ∧ (∃ C, Run s w C ∧ Bin C ∧ S' = visOf s C) ∧
          (∀ more, specJudge S P (it :: rest) (outs ++ more) = specJudge S' none (it :: rest) more) := by
        cases sys with
        | up w =>
          obtain ⟨C, hrun, hb, hS, hP⟩ := hinv
          exact ⟨w, [], S, rfl, ⟨C, hrun, hb, hS⟩, fun more => by simp [hP]⟩
        | down d =>
          obtain ⟨C, C', md, X, es, himg, hc, hbC, hbC', hS, hP⟩ := hinv
          obtain ⟨w, hopen, hrun, hvis⟩ := recover_img himg
          refine ⟨w, [.opened (visible w) (w.trace.map (·.1))], visOf s (X ++ es), by simp [bringUp, hopen],
            ⟨X ++ es, hrun, by rcases hc with hc | hc <;> rw [hc] <;> assumption, rfl⟩, ?_⟩
          intro more
          have hok : (decide (visible w = S) || decide (P = some (visible w))) = true := by
            simp only [hvis, Bool.or_eq_true, decide_eq_true_eq]
            rcases hc with hc | hc
            · left; rw [hc, hS]
            · rcases hP with hP | ⟨_, hcc⟩
              · right; rw [hc, hP]
              · left; rw [hc, hcc, hS]
          rw [hvis] at hok
          simp only [List.singleton_append, specJudge, hvis, hok, Bool.true_and]
      obtain ⟨w, outs, S', hbu, ⟨C, hrun, hbin, hS'⟩, hjudge⟩ := hup
      subst hS'
      cases it with
      | op o =>
        simp only [admissible, hbu, Bool.and_eq_true] at hadm
        obtain ⟨⟨ho, hdk⟩, hadm'⟩ := hadm
        obtain ⟨hfail, hrun', _⟩ := op_ok b o ho hdk hrun
        have hri : runItems b sys (.op o :: rest) =
            outs ++ .ack (!(runOp b w o).failed) ((runOp b w o).trace.map (·.1)) (loopOrder o (runOp b w o).trace) ::
              runItems b (.up (runOp b w o)) rest := by
          simp [runItems, hbu]
        rw [hri, hjudge, hfail]
        simp only [Bool.not_false, specJudge]
        by_cases hc : c11Shape (visOf s C) o = true
        · simp [hc]
        · simp only [hc, Bool.false_eq_true, if_false, if_true]
          obtain ⟨hsa, hbin'⟩ := c11_ok (w := w) o ho hbin (by simpa using hc)
          rw [hsa]
          exact ih _ _ _ ⟨_, hrun', hbin', rfl, rfl⟩ hadm'
      | opCrash o j cut =>
        cases cut with
        | some c => simp [admissible, hbu] at hadm
        | none =>
          simp only [admissible, hbu, Bool.and_eq_true, Bool.not_eq_true'] at hadm
          obtain ⟨⟨⟨ho, hdk⟩, hnd⟩, hadm'⟩ := hadm
          obtain ⟨_, _, hpre⟩ := op_ok b o ho hdk hrun
          have hri : runItems b sys (.opCrash o j none :: rest) =
              outs ++ .crashed (loopOrder o (runOp b w o).trace) ::
                runItems b (.down (imageAt w.disk (runOp b w o).trace j none)) rest := by
            simp [runItems, hbu]
          rw [hri, hjudge]
          simp only [specJudge]
          by_cases hc : c11Shape (visOf s C) o = true
          · simp [hc]
          · simp only [hc, Bool.false_eq_true, if_false]
            obtain ⟨hsa, hbin'⟩ := c11_ok (w := w) o ho hbin (by simpa using hc)
            have hj := hpre j
            rw [imageAt_none] at hnd hadm' ⊢
            rcases hj with ⟨md, X, es, himg, hcont⟩ | hd
            · exact ih _ _ _ ⟨C, C ++ opUpdates w o, md, X, es, himg.crash, hcont, hbin, hbin', rfl, .inl (by rw [hsa])⟩ hadm'
            · have := hd.crash.doubled
              rw [this] at hnd
              cases hnd
      | restart =>
        simp only [admissible, hbu] at hadm
        have hri : runItems b sys (.restart :: rest) = outs ++ .crashed [] :: runItems b (.down (crash w.disk noCut)) rest := by
          simp [runItems, hbu]
        rw [hri, hjudge]
        simp only [specJudge]
        rcases hrun.shape with ⟨_, himg, hC⟩ | ⟨sh, md0, X, _, _, _, himg, hC, _⟩
        · exact ih _ _ _ ⟨C, C, _, _, _, himg.crash, .inl (by simp [hC]), hbin, hbin, rfl, .inr ⟨rfl, rfl⟩⟩ hadm
        · exact ih _ _ _ ⟨C, C, _, _, _, himg.crash, .inl hC.symm, hbin, hbin, rfl, .inr ⟨rfl, rfl⟩⟩ hadm
      | openCrash j cut ord =>
        cases sys with
        | up w0 => simp [admissible, hbu] at hadm
        | down d =>
          cases cut with
          | some c => simp [admissible, hbu] at hadm
          | none =>
            cases ord with
            | nil => exact absurd ⟨d, j, rfl, rfl⟩ hoc
            | cons o os => simp [admissible, hbu] at hadm
  have hinit : RunInv s (.up {}) [] none := by
    refine ⟨[], ⟨rfl, .inl ⟨rfl, ?_, rfl⟩⟩, fun x => .inl rfl, by simp [visOf, positive], rfl⟩
    exact ⟨fun _ => ⟨fun f => rfl, rfl, rfl⟩, fun m hm => (by cases hm), .inl ⟨rfl, rfl⟩, rfl⟩
  exact key _ _ _ _ hinit hadm

/-- the fragment is not empty and not trivial: auto-flush, delete, crashes before / after the WAL fsync, inside the
    batch write, after the WAL rewrite; the window image is what `imageDoubled` rejects. -/
example :
    let h : List HItem := [.op (.ins r [0]), .opCrash (.ins r [1, 2]) 2 none, .openCrash 5 none [], .op (.del r [0]),
      .opCrash (.ins r [3]) 4 none, .restart, .opCrash (.ins r [4]) 9 none, .openCrash 3 none [], .openCrash 4 none [],
      .op (.ins r [5])]
    admissible 2 r (.up {}) (h ++ [.restart]) = true ∧
    admissible 2 r (.up {}) ([.op (.ins r [0]), .opCrash (.ins r [1]) 8 none] ++ [.restart]) = false := by
  decide

end ILV.Props.C13
