/-
  C13 — acknowledged writes survive any crash and recovery always succeeds (Immediate durability).
  Model: ILV.Model.Persist over ILV.Model.FS; Spec: ILV.Spec.C13.  Helper lemmas: ILV.Lemmas.Persist.
-/
import ILV.Lemmas.Persist
namespace ILV.Props.C13
open ILV ILV.FS ILV.Persist ILV.Spec.C13

/-- **C13 at full strength**: for every buffer size, every history, every crash point (inside an operation or
    inside a recovery) and every way unsynced data may be torn, every reopen succeeds and serves the acknowledged
    state or that plus the operation in flight. -/
def C13_statement : Prop :=
  ∀ (b : Nat) (h : List HItem), specJudge [] none (h ++ [.restart]) (run b h) = true

def r : Name := [114]

/-! ### refutations: five independent crash windows -/

/-- (1) `flush` renames the shard metadata into place before it rewrites the WAL.  A crash in between leaves the
    flushed updates in a batch *and* in the WAL; recovery writes them into a second batch.  The doubled `+1` of
    tuple 0 outlives the acknowledged delete: after the next restart tuple 0 is back. -/
def witnessDouble : List HItem := [.op (.ins r [0]), .opCrash (.ins r [1]) 8 none, .op (.del r [0])]

theorem witnessDouble_resurrects :
    (run 2 witnessDouble).getLast? = some (.opened [(r, [0, 1])] [.persistNewMkdir, .walNewMkdir, .batchTmpwrite, .batchFsync,
      .batchRename, .metaTmpwrite, .metaFsync, .metaRename, .walRewriteUnlink]) ∧
    specJudge [] none (witnessDouble ++ [.restart]) (run 2 witnessDouble) = false := by decide

/-- (2) a three-tuple insert is three WAL lines in one unsynced write: torn after the first line plus a fragment, the
    reopened engine serves exactly one of the three tuples. -/
def witnessTorn : List HItem := [.opCrash (.ins r [0, 1, 2]) 5 (some ⟨1, .part⟩)]

theorem witnessTorn_partial_operation :
    (run 100 witnessTorn).take 2 = [.crashed, .opened [(r, [0])] [.persistNewMkdir, .walNewMkdir, .batchTmpwrite,
      .batchFsync, .batchRename, .metaTmpwrite, .metaFsync, .metaRename, .walRewriteUnlink]] ∧
    specJudge [] none (witnessTorn ++ [.restart]) (run 100 witnessTorn) = false := by decide

/-- (3) the same write torn inside a multi-byte character: `read_all` fails, the engine does not open. -/
def witnessMidchar : List HItem := [.opCrash (.ins r [1]) 5 (some ⟨0, .midchar⟩)]

theorem witnessMidchar_unopenable : run 100 witnessMidchar = [.crashed, .openFailed] := by decide

/-- (4) a WAL that holds only a torn line is kept by recovery; the next acknowledged insert is glued onto that line
    and is lost at the following restart. -/
def witnessTail : List HItem := [.opCrash (.ins r [0]) 5 (some ⟨0, .part⟩), .op (.ins r [2])]

theorem witnessTail_loses_acked_write :
    run 100 witnessTail = [.crashed, .opened [] [.persistNewMkdir, .walNewMkdir], .ack true [.walOpen, .walAppendWrite, .walAppendFsync],
      .crashed, .opened [] [.persistNewMkdir, .walNewMkdir]] ∧
    specJudge [] none (witnessTail ++ [.restart]) (run 100 witnessTail) = false := by decide

/-- (5) `delete_shard` unlinks the batch files one at a time before it touches WAL and metadata: a crash after the
    second unlink leaves the part of the relation that was not yet flushed. -/
def witnessDrop : List HItem :=
  [.op (.ins r [0]), .op (.ins r [1]), .op (.ins r [2]), .op (.ins r [3]), .op (.ins r [6]), .opCrash (.dropRel r) 2 none]

theorem witnessDrop_partial_relation :
    ((run 2 witnessDrop).drop 6).head? = some (.opened [(r, [6])] [.persistNewMkdir, .walNewMkdir, .batchTmpwrite, .batchFsync,
      .batchRename, .metaTmpwrite, .metaFsync, .metaRename, .walRewriteUnlink]) ∧
    specJudge [] none (witnessDrop ++ [.restart]) (run 2 witnessDrop) = false := by decide

theorem C13_refuted : ¬ C13_statement := by
  intro h
  have h1 := h 2 witnessDouble
  rw [witnessDouble_resurrects.2] at h1
  exact absurd h1 (by decide)

end ILV.Props.C13
