/-
  C03 — Worker count never changes answers.

  Model: `Engine.run` with `cfg.workers = n` (ILV.Model.Engine — `execute_with_config`,
  code_generator:1261): a non-recursive head whose tree has no join / antijoin (`parSafe`) is
  evaluated once per hash partition of *all* its inputs and the results are united; every other
  head runs on one worker. The partitioner `hash` is a parameter: every theorem is for all `hash`
  (the driver instantiates it with SipHash-1-3, the real `DefaultHasher`).
  False of the faithful model: `Aggregate` is partition-"safe" for the code but does not distribute
  (`C03_refuted`). Proved: aggregate-free non-recursive programs (`C03_partial`), via
  `evalRules_dist` — Scan / Filter / Compute / Map / Distinct / Union distribute over any partition.
-/
import ILV.Lemmas.Workers
import ILV.Drv.C03
namespace ILV.Props.C03
open ILV ILV.DL ILV.Engine

/-- full statement: for every worker count ≥ 1 and every pair of partitioners the answer is the
    one-worker answer. -/
def C03_statement : Prop :=
  ∀ (p : Program) (edb : DB) (n : Nat) (hash hash' : Tuple → Nat) (ord ord' : String → List Tuple → List Tuple)
    (fuel fuel' : Nat) (An A1 : List Tuple) (accn acc1 : DB),
    0 < n →
    Engine.run (cfgW n) hash ord fuel p edb = .ok An accn →
    Engine.run (cfgW 1) hash' ord' fuel' p edb = .ok A1 acc1 →
    MemEq An A1

/-- `c(count<X>) <- r(X)` over two facts that fall into different partitions. -/
def countProg : Program := [
  { hrel := "c", hargs := [.agg .count "X"], body := [.pos ⟨"r", [.var "X"]⟩] } ]
def twoFacts : DB := [("r", [[.i64 0], [.i64 1]])]
/-- a partitioner separating the two facts. -/
def parity : Tuple → Nat
  | [.i64 n] => n.toNat
  | _ => 0

theorem C03_refuted : ¬ C03_statement := by
  intro h
  have h2 : Engine.run (cfgW 2) parity (fun _ ts => ts) 4 countProg twoFacts = .ok [[.i64 1]] [("c", [[.i64 1]])] := by decide
  have h1 : Engine.run (cfgW 1) parity (fun _ ts => ts) 4 countProg twoFacts = .ok [[.i64 2]] [("c", [[.i64 2]])] := by decide
  have := h countProg twoFacts 2 _ _ _ _ 4 4 _ _ _ _ (by decide) h2 h1
  have := (this [.i64 1]).1 (by decide)
  revert this; decide

/-- the witness is in the class of the known finding. -/
example : Drv.C03.aggregateUnderPartitioning (cfgW 2) countProg = true := by decide

/-- every tuple of every relation lies in exactly one partition (any partitioner, any n > 0). -/
theorem C03_part_cover (hash : Tuple → Nat) (n : Nat) (hn : 0 < n) (lk : String → List Tuple) (r : String) (t : Tuple) :
    t ∈ lk r ↔ ∃ w, w ∈ List.range n ∧ t ∈ partLk hash n w lk r :=
  part_cover hash n hn lk r t

/-- **C03 for aggregate-free, non-recursive programs**: any worker count, any two partitioners,
    any emission orders and fuels — same answer as one worker. -/
theorem C03_partial (p : Program) (edb : DB) (n : Nat) (hash hash' : Tuple → Nat)
    (ord ord' : String → List Tuple → List Tuple) (fuel fuel' : Nat) (An A1 : List Tuple) (accn acc1 : DB)
    (hn : 0 < n) (hcf : ClauseFaithful p) (hagg : p.all (fun r => !r.hasAgg) = true)
    (hnorec : (heads p).all (fun h => !selfRec p h) = true ∧ (execOrder p).all (heads p).contains = true)
    (hrn : Engine.run (cfgW n) hash ord fuel p edb = .ok An accn)
    (hr1 : Engine.run (cfgW 1) hash' ord' fuel' p edb = .ok A1 acc1) :
    MemEq An A1 := by
  have hagg' : ∀ r, r ∈ p → r.hasAgg = false := by
    intro r hr; simpa using List.all_eq_true.1 hagg r hr
  -- a relation that is not a head has no clauses, hence is not self-recursive either
  have hnr : ∀ h, selfRec p h = false := by
    intro h
    by_cases hh : h ∈ heads p
    · simpa using List.all_eq_true.1 hnorec.1 h hh
    · unfold selfRec scansOf
      have : clausesOf p h = [] := by
        unfold clausesOf
        rw [List.filter_eq_nil_iff]
        intro r hr hc
        exact hh (mem_heads.2 ⟨r, hr, by simpa using hc⟩)
      rw [this]; rfl
  exact execLoop_workers p edb hcf hagg' hnr n hn hash hash' ord ord' fuel fuel' (execOrder p) [] [] [] [] An A1 accn acc1
    (fun _ => Or.inl ⟨rfl, rfl⟩) (MemEq.refl _) (run_loop _ _ _ _ _ _ _ _ hrn) (run_loop _ _ _ _ _ _ _ _ hr1)

/-- a projection with a constant filter and a repeated variable over 5 facts, 3 workers, the real
    partitioner: hypotheses hold, the partitioned path is taken, 2-tuple answer. -/
def projProg : Program := [
  { hrel := "a", hargs := [.var "Y"], body := [.pos ⟨"e", [.var "X", .var "Y"]⟩] },
  { hrel := "a", hargs := [.var "X"], body := [.pos ⟨"e", [.var "X", .var "X"]⟩] },
  { hrel := "q", hargs := [.var "X"], body := [.pos ⟨"a", [.var "X"]⟩] } ]
def projDb : DB := [("e", [[.i64 1, .i64 2], [.i64 3, .i64 2], [.i64 4, .i64 4], [.i64 5, .i64 2], [.i64 0, .i64 4]])]

example : projProg.all simpleRule = true ∧ projProg.all (fun r => !r.hasAgg) = true ∧
    (heads projProg).all (fun h => !selfRec projProg h) = true ∧
    (heads projProg).all (fun h => parSafe (clausesOf projProg h)) = true ∧
    (Engine.run (cfgW 3) Drv.C03.parity3 (fun _ ts => ts) 4 projProg projDb).toWire = "i64:2;i64:4" := by
  decide

end ILV.Props.C03
