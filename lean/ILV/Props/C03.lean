/-
  C03 — Worker count never changes answers.

  Model: `Engine.run` with `cfg.workers = n` (ILV.Model.Engine — `execute_with_config`,
  code_generator:1261): a non-recursive head whose tree has no join / antijoin / aggregate
  (`parSafe`, = `contains_join` after fixes/C03-aggregate_under_partitioning.diff) is evaluated once
  per hash partition of *all* its inputs and the results are merged; every other head — in
  particular every self-recursive head (lib.rs:1667 dispatches those to `execute_recursive`
  before looking at `num_workers`) — runs on one worker. The partitioner `hash` is a parameter:
  the theorem is for all `hash` (the driver instantiates it with SipHash-1-3, the real
  `DefaultHasher`). The merged `HashSet` has no order; the model lists it in the order of the
  whole-relation evaluation.
-/
import ILV.Lemmas.Workers
import ILV.Drv.C03
namespace ILV.Props.C03
open ILV ILV.DL ILV.Engine

/-- full statement: whenever the one-worker run answers, the run with any worker count `n ≥ 1` and
    any partitioner gives the same outcome (answer and every accumulated relation). -/
def C03_statement : Prop :=
  ∀ (p : Program) (edb : DB) (n : Nat) (hash hash' : Tuple → Nat) (ord : String → List Tuple → List Tuple)
    (fuel : Nat) (A : List Tuple) (acc : DB),
    0 < n →
    Engine.run (cfgW 1) hash' ord fuel p edb = .ok A acc →
    Engine.run (cfgW n) hash ord fuel p edb = .ok A acc

/-- **C03, for all programs** — recursion, negation, aggregates, joins included. Heads that are
    partitioned distribute over every partition (`evalRulesM_dist`: Scan / Filter / Compute / Map /
    Distinct / Union); all other heads take the very same single-worker path. -/
theorem C03 : C03_statement :=
  fun p edb n hash hash' ord fuel A acc hn h1 => run_workers p edb n hn hash hash' ord fuel A acc h1

/-- every tuple of every relation lies in exactly one partition (any partitioner, any n > 0). -/
theorem C03_part_cover (hash : Tuple → Nat) (n : Nat) (hn : 0 < n) (lk : String → List Tuple) (r : String) (t : Tuple) :
    t ∈ lk r ↔ ∃ w, w ∈ List.range n ∧ t ∈ partLk hash n w lk r :=
  part_cover hash n hn lk r t

/-- the former counterexample (`c(count<X>) <- r(X)`, two facts in different partitions) now
    counts 2 with two workers: the aggregate head is no longer partitioned. -/
def countProg : Program := [
  { hrel := "c", hargs := [.agg .count "X"], body := [.pos ⟨"r", [.var "X"]⟩] } ]
def twoFacts : DB := [("r", [[.i64 0], [.i64 1]])]
def parity : Tuple → Nat
  | [.i64 n] => n.toNat
  | _ => 0

example : Engine.run (cfgW 2) parity (fun _ ts => ts) 4 countProg twoFacts = .ok [[.i64 2]] [("c", [[.i64 2]])] := by decide

/-- a union of two projections over 5 facts, 3 workers: both heads are partitioned, 2-tuple
    answer; the hypothesis of `C03` (the one-worker run answers) holds. -/
def projProg : Program := [
  { hrel := "a", hargs := [.var "Y"], body := [.pos ⟨"e", [.var "X", .var "Y"]⟩] },
  { hrel := "a", hargs := [.var "X"], body := [.pos ⟨"e", [.var "X", .var "X"]⟩] },
  { hrel := "q", hargs := [.var "X"], body := [.pos ⟨"a", [.var "X"]⟩] } ]
def projDb : DB := [("e", [[.i64 1, .i64 2], [.i64 3, .i64 2], [.i64 4, .i64 4], [.i64 5, .i64 2], [.i64 0, .i64 4]])]

example : (heads projProg).all (fun h => parSafe (clausesOf projProg h)) = true ∧
    (Engine.run (cfgW 1) Drv.C03.parity3 (fun _ ts => ts) 4 projProg projDb).toWire = "i64:2;i64:4" ∧
    (Engine.run (cfgW 3) Drv.C03.parity3 (fun _ ts => ts) 4 projProg projDb).toWire = "i64:2;i64:4" := by
  decide

end ILV.Props.C03
