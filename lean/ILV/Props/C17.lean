/-
  C17 — Knowledge graphs are isolated and drops are final.
  Model: ILV.Model.KStep (KG lifecycle + shard naming + restart, as a step system).
-/
import ILV.Lemmas.KStep
import ILV.Gen.C17
namespace ILV.Props.C17
open ILV ILV.KStep

def n (s : String) : Name := s.toList

/-- the KG set and every KG's relation contents survive a restart unchanged -/
def RestartFaithful (st : State) : Prop :=
  (∀ k, (lookup k (restart st).kgs).isSome = (lookup k st.kgs).isSome) ∧
  (∀ k r x, x ∈ ((lookup k (restart st).kgs).bind (lookup r)).getD [] ↔ x ∈ ((lookup k st.kgs).bind (lookup r)).getD [])

/-- full statement: after any (unblocked) schedule of any programs — in particular after any
    sequential history — a restart reproduces exactly the KGs that exist, with their contents:
    nothing of a dropped KG reappears, nothing of a live KG is lost or altered by operations on others. -/
def C17_statement : Prop :=
  ∀ (progs : List (List Op)) (sched : List Tid), blockedAt (init progs) sched 0 = none →
    RestartFaithful (lastState (init progs) sched)

/-! Refuted. Witness (drop is not final): thread 0 creates `a` and starts `insert a.r(1)`: the KG lookup
    of its first step succeeds; thread 1 drops `a` completely (tombstone, removal, shard deletion,
    tombstone removed) and is acknowledged; thread 0 continues: no tombstone any more, so it persists
    the tuple under shard `a:r`, then fails at the second KG lookup. After a restart `a` is back — with
    the tuple. -/
def wProgs : List (List Op) := [[.create (n "a"), .ins (n "a") (n "r") 1], [.drop (n "a")]]
def wSched : List Tid := [0, 0, 0, 0, 0, 1, 1, 1, 1, 1, 1, 0, 0, 0]

theorem C17_refuted : ¬ C17_statement := by
  intro h
  have h1 := (h wProgs wSched (by decide)).1 (n "a")
  have : (lookup (n "a") (restart (lastState (init wProgs) wSched)).kgs).isSome = true := by decide
  have : (lookup (n "a") (lastState (init wProgs) wSched).kgs).isSome = false := by decide
  simp_all

example : ((lastState (init wProgs) wSched).threads 1).done = [(.drop (n "a"), .ok)] := by decide
example : ((lastState (init wProgs) wSched).threads 0).done.map (·.2) = [.ok, .nf] := by decide
example : (lookup (n "a") (restart (lastState (init wProgs) wSched)).kgs) = some [(n "r", [1])] := by decide

/-! The sequential name defects refute the same statement without any concurrency. -/

/-- `sanitize_name` is not injective on shard names: KG `a_b`/relation `c` and KG `a`/relation `b_c`
    share the metadata file `a_b_c.json`. -/
theorem C17_names_refuted :
    shardName (n "a_b") (n "c") ≠ shardName (n "a") (n "b_c") ∧
    sanitize (shardName (n "a_b") (n "c")) = sanitize (shardName (n "a") (n "b_c")) ∧
    kgOf (shardName (n "x:y") (n "r")) ≠ n "x:y" := by decide

/-- colliding file names: whichever KG is saved last keeps its data, the other one's is gone after restart -/
def collisionHist : List Op :=
  [.create (n "a_b"), .create (n "a"), .ins (n "a_b") (n "c") 1, .ins (n "a") (n "b_c") 2, .save (n "a_b"), .save (n "a")]
example : (lookup (n "a_b") (runSeq collisionHist).kgs) = some [(n "c", [1])] := by decide
example : (lookup (n "a_b") (restart (runSeq collisionHist)).kgs) = some [] := by decide

/-- a KG name containing `:` is rediscovered as its prefix: KG `x` appears out of nowhere -/
def colonHist : List Op := [.create (n "x:y"), .ins (n "x:y") (n "r") 3]
example : (lookup (n "x") (runSeq colonHist).kgs) = none := by decide
example : (lookup (n "x") (restart (runSeq colonHist)).kgs) = some [(n "y:r", [3])] := by decide

/-- dropping KG `x` deletes the shards of KG `x:y` (prefix test) -/
def colonDropHist : List Op := [.create (n "x:y"), .create (n "x"), .ins (n "x:y") (n "r") 3, .drop (n "x")]
example : (lookup (n "x:y") (runSeq colonDropHist).kgs) = some [(n "r", [3])] := by decide
example : (lookup (n "x:y") (restart (runSeq colonDropHist)).kgs) = some [] := by decide

/-- a delete addressed to a dropped KG fails, but its shard is persisted first: the KG is back after restart -/
def deleteHist : List Op := [.create (n "a"), .ins (n "a") (n "r") 1, .drop (n "a"), .del (n "a") (n "r") 1]
example : ((runSeq deleteHist).threads 0).done.map (·.2) = [.ok, .insd 1 0, .ok, .nf] := by decide
example : (lookup (n "a") (restart (runSeq deleteHist)).kgs).isSome = true := by decide

/-- two metadata savers: `create b` collects the KG list (with `a`), `drop a` completes, `create b` writes
    its stale list: `a` is listed again after the acknowledged drop -/
def metaProgs : List (List Op) := [[.create (n "a"), .create (n "b")], [.drop (n "a")]]
def metaSched : List Tid := [0, 0, 0, 0, 0, 0, 0, 1, 1, 1, 1, 1, 1, 0]
example : (lastState (init metaProgs) metaSched).staleMetaWrite = true := by decide
example : (lookup (n "a") (restart (lastState (init metaProgs) metaSched)).kgs).isSome = true := by decide

/-- Partial result (holds for *all* names): between restarts, a step of an operation addressed to KG `a`
    never changes whether another KG `b` exists nor any of `b`'s live relations. The isolation failures
    above all pass through the persist layer's file naming and become visible at restart only. -/
theorem C17_isolation_live (st st' : State) (t : Tid) (a b : Name) (rest : List Op) (op : Op)
    (hs : step st t = .ok st') (htodo : (st.threads t).todo = op :: rest) (htarget : target op = some a) (hb : b ≠ a) :
    lookup b st'.kgs = lookup b st.kgs :=
  step_isolated hs htodo htarget hb

example : target (.ins (n "a") (n "r") 1) = some (n "a") := rfl

/-! ### file names

  `metaFile shard = sanitize shard ++ ".json"` is what `save_shard_meta` / `delete_shard` compute today.
  `ILV.Gen.C17.fileTable` is regenerated on every run from the *current* code: for ~600 shard names of the
  systematic alphabet (every printable ASCII punctuation character leading / trailing / between / doubled,
  names differing only after it, case variants, unicode, 128-byte names, dotted file-like names) the file
  that `FilePersist::ensure_shard` really creates. -/

def toName (l : List Nat) : Name := l.map Char.ofNat

/-- The code's file-name function *is* the model's, on the whole alphabet. A change of the path
    construction in the code (e.g. `Path::with_extension`, which cuts a name at its last dot) changes the
    regenerated table and breaks this obligation. -/
theorem C17_file_table_matches_model :
    Gen.C17.fileTable.all (fun row => metaFile (toName row.1) == toName row.2) = true := by decide +kernel

example : Gen.C17.fileTable.length ≥ 500 := by decide +kernel

/-- The model's function maps distinct shard names to distinct files whenever neither name contains
    `_` or `/` — in particular for every dotted / hyphenated / spaced / case-variant / unicode sibling
    family of the alphabet (`v1.0:r` ≠ `v1.1:r` ≠ `v1:r`). The excluded names are exactly the pre-existing
    `sanitize_name` collision family (`C17_names_refuted`). -/
theorem C17_file_names_distinct_partial (a b : Name) (ha : a.all safeChar = true) (hb : b.all safeChar = true)
    (h : metaFile a = metaFile b) : a = b := metaFile_inj a b ha hb h

example : metaFile (shardName (n "v1.0") (n "r")) ≠ metaFile (shardName (n "v1.1") (n "r")) := by decide
example : metaFile (shardName (n "v1.0") (n "r")) ≠ metaFile (shardName (n "v1") (n "r")) := by decide
example : metaFile (shardName (n "v1.0") (n "r")) = n "v1.0_r.json" := by decide
example : shardFile (n "a_b") (n "c") = shardFile (n "a") (n "b_c") := by decide

/-- Restart/isolation at the persist layer under the decidable hypothesis "file names of distinct shards
    are distinct" (`distinctFiles names`, all shards of the map and the one operated on being in `names`):
    `ensure_shard`, `append`, `flush` and `delete_shard` of one shard keep every shard the owner of the
    metadata file at its name (with its batches) — so saving or dropping one KG's shards never overwrites or
    unlinks a sibling's metadata — and start-up's `load_shards` then recovers every shard with exactly its
    flushed batches. -/
theorem C17_shard_files_partial (st : State) (names : List Name) (s : Name) (u : Upd)
    (hd : distinctFiles names = true) (hmem : ∀ s', (lookup s' st.mem).isSome = true → s' ∈ names) (hs : s ∈ names)
    (h : Owns st) :
    Owns (ensureShard st s) ∧ Owns (flushShard st s) ∧ Owns (deleteShard st s) ∧
    ((lookup s st.mem).isSome = true → Owns (appendUpd st s u)) ∧
    (∀ s' sh, lookup s' st.mem = some sh →
      (s', ({ batches := sh.batches, buffer := [] } : ShardMem)) ∈ st.files.map (fun f => (f.2.1, ({ batches := f.2.2, buffer := [] } : ShardMem)))) := by
  have hi := fileInj_of_distinct hd hmem hs
  exact ⟨owns_ensureShard h hi, owns_flushShard h hi, owns_deleteShard h hi, fun hsome => owns_appendUpd h hsome,
         fun s' sh hl => owns_load h s' sh hl⟩

/-- the hypothesis is met by dotted siblings … -/
example : distinctFiles [shardName (n "v1.0") (n "r"), shardName (n "v1.1") (n "r"), shardName (n "v1") (n "r.0"), shardName (n "v1.0") (n "r.1")] = true := by decide
/-- … and fails exactly for the known twins, where ownership is lost: after both inserts the file of
    `a_b:c` holds the metadata of `a:b_c` -/
example : distinctFiles [shardName (n "a_b") (n "c"), shardName (n "a") (n "b_c")] = false := by decide
example : lookup (metaFile (shardName (n "a_b") (n "c")))
    (runSeq [.create (n "a_b"), .create (n "a"), .ins (n "a_b") (n "c") 1, .ins (n "a") (n "b_c") 2]).files
    = some (shardName (n "a") (n "b_c"), []) := by decide

end ILV.Props.C17
