/-
  C17 — Knowledge graphs are isolated and drops are final.
  Model: ILV.Model.KStep (KG lifecycle + shard naming + restart, as a step system).
-/
import ILV.Lemmas.KStep
import ILV.Gen.C17
namespace ILV.Props.C17
open ILV ILV.KStep

def n (s : String) : Name := s.toList

/-- the KG set and every KG's relation contents survive a restart unchanged -/
def RestartFaithful (st : State) : Prop :=
  (∀ k, (lookup k (restart st).kgs).isSome = (lookup k st.kgs).isSome) ∧
  (∀ k r x, x ∈ ((lookup k (restart st).kgs).bind (lookup r)).getD [] ↔ x ∈ ((lookup k st.kgs).bind (lookup r)).getD [])

/-- full statement: after any (unblocked) schedule of any programs — in particular after any
    sequential history — a restart reproduces exactly the KGs that exist, with their contents:
    nothing of a dropped KG reappears, nothing of a live KG is lost or altered by operations on others. -/
def C17_statement : Prop :=
  ∀ (progs : List (List Op)) (sched : List Tid), blockedAt (init progs) sched 0 = none →
    RestartFaithful (lastState (init progs) sched)

/-! Still refuted — by the one defect family that is deliberately left in place (`sanitize_name` cannot be
    changed without breaking on-disk compatibility): shards `a_b:c` and `a:b_c` share the metadata file
    `a_b_c.json`; whichever KG is saved last keeps its data, the other's relation is empty after restart.
    A purely sequential history (one thread). -/
def collisionHist : List Op :=
  [.create (n "a_b"), .create (n "a"), .ins (n "a_b") (n "c") 1, .ins (n "a") (n "b_c") 2, .save (n "a_b"), .save (n "a")]
def wSched : List Tid := List.replicate 40 0

theorem C17_refuted : ¬ C17_statement := by
  intro h
  have h1 := (h [collisionHist] wSched (by decide)).2 (n "a_b") (n "c") 1
  have hl : 1 ∈ ((lookup (n "a_b") (lastState (init [collisionHist]) wSched).kgs).bind (lookup (n "c"))).getD [] := by decide
  have hr : ¬ 1 ∈ ((lookup (n "a_b") (restart (lastState (init [collisionHist]) wSched)).kgs).bind (lookup (n "c"))).getD [] := by decide
  exact hr (h1.mpr hl)

/-- `sanitize_name` is not injective on shard names: KG `a_b`/relation `c` and KG `a`/relation `b_c`
    share the metadata file `a_b_c.json`. -/
theorem C17_names_refuted :
    shardName (n "a_b") (n "c") ≠ shardName (n "a") (n "b_c") ∧
    sanitize (shardName (n "a_b") (n "c")) = sanitize (shardName (n "a") (n "b_c")) := by decide

example : (lookup (n "a_b") (runSeq collisionHist).kgs) = some [(n "c", [1])] := by decide
example : (lookup (n "a_b") (restart (runSeq collisionHist)).kgs) = some [] := by decide

/-! ### repaired classes — the former counter-examples now behave -/

/-- `:` is rejected in KG names … -/
example : ((runSeq [.create (n "x:y")]).threads 0).done.map (·.2) = [.inv] := by decide
/-- … and for the names `create_knowledge_graph` accepts, start-up discovery (`split(':').next()`) maps every
    shard back to its own KG and the `starts_with("{kg}:")` test of load / save / drop never matches a
    shard of another accepted KG — for all names and relations. -/
theorem C17_discovery_exact (k rel : Name) (hk : validName k = true) : kgOf (shardName k rel) = k :=
  kgOf_shardName k rel (validName_no_colon k hk)

theorem C17_prefix_exact (k' k rel : Name) (hk' : validName k' = true) (hk : validName k = true)
    (h : hasPrefix k' (shardName k rel) = true) : k' = k :=
  hasPrefix_shardName k' k rel (validName_no_colon k' hk') (validName_no_colon k hk) h

example : validName (n "v1.0") = true ∧ validName (n "x:y") = false := by decide

/-- insert overtaken by a complete drop: the re-check under the tombstone guard fails the insert before
    anything is persisted; the dropped KG stays gone after restart -/
def raceProgs : List (List Op) := [[.create (n "a"), .ins (n "a") (n "r") 1], [.drop (n "a")]]
def raceSched : List Tid := [0, 0, 0, 0, 0, 1, 1, 1, 1, 1, 1, 0, 0, 0]
example : ((lastState (init raceProgs) raceSched).threads 0).done.map (·.2) = [.ok, .nf] := by decide
example : (lastState (init raceProgs) raceSched).persistedForMissing = false := by decide
example : (lookup (n "a") (restart (lastState (init raceProgs) raceSched)).kgs) = none := by decide

/-- Full for sequential histories (any operations incl. restarts, any names): no write is ever persisted for
    a KG that is not in the map — the ghost flag of the repaired class stays false. (For concurrent
    schedules the same is exercised by the scheduled correspondence; the argument — while the tombstone
    read guard is held no drop can tombstone, and a drop that tombstoned earlier has either left its
    tombstone or already removed the KG — is in fixes/C17-write_persisted_for_missing_kg.msg. It needs that
    no two drops of the same KG overlap: tombstones are a set, not a counter.) -/
theorem C17_no_write_for_missing_kg_sequential (ops : List Op) (sched : List Tid) :
    (lastState (init [ops]) sched).persistedForMissing = false :=
  (lastState_good sched _ (good_init ops)).2.1

/-- a delete addressed to a dropped KG fails without creating a shard -/
def deleteHist : List Op := [.create (n "a"), .ins (n "a") (n "r") 1, .drop (n "a"), .del (n "a") (n "r") 1]
example : ((runSeq deleteHist).threads 0).done.map (·.2) = [.ok, .insd 1 0, .ok, .nf] := by decide
example : (lookup (n "a") (restart (runSeq deleteHist)).kgs) = none := by decide

/-- two metadata savers: `create b` holds the metadata mutex from collecting the KG list to writing it, so
    `drop a` cannot write in between — the schedule that used to leave a stale list is now blocked on the mutex -/
def metaProgs : List (List Op) := [[.create (n "a"), .create (n "b")], [.drop (n "a")]]
def metaSched : List Tid := [0, 0, 0, 0, 0, 0, 0, 1, 1, 1, 1, 1, 1, 0]
example : blockedAt (init metaProgs) metaSched 0 = some 9 := by decide
/-- letting `create b` finish first: the file ends up current -/
def metaSched2 : List Tid := [0, 0, 0, 0, 0, 0, 0, 1, 1, 0, 1, 1, 1, 1]
example : blockedAt (init metaProgs) metaSched2 0 = none := by decide
example : (lookup (n "a") (restart (lastState (init metaProgs) metaSched2)).kgs) = none := by decide
example : (lookup (n "b") (restart (lastState (init metaProgs) metaSched2)).kgs).isSome = true := by decide

/-- Partial result (holds for *all* names): between restarts, a step of an operation addressed to KG `a`
    never changes whether another KG `b` exists nor any of `b`'s live relations. The isolation failures
    above all pass through the persist layer's file naming and become visible at restart only. -/
theorem C17_isolation_live (st st' : State) (t : Tid) (a b : Name) (rest : List Op) (op : Op)
    (hs : step st t = .ok st') (htodo : (st.threads t).todo = op :: rest) (htarget : target op = some a) (hb : b ≠ a) :
    lookup b st'.kgs = lookup b st.kgs :=
  step_isolated hs htodo htarget hb

example : target (.ins (n "a") (n "r") 1) = some (n "a") := rfl

/-! ### file names

  `metaFile shard = sanitize shard ++ ".json"` is what `save_shard_meta` / `delete_shard` compute today.
  `ILV.Gen.C17.fileTable` is regenerated on every run from the *current* code: for ~600 shard names of the
  systematic alphabet (every printable ASCII punctuation character leading / trailing / between / doubled,
  names differing only after it, case variants, unicode, 128-byte names, dotted file-like names) the file
  that `FilePersist::ensure_shard` really creates. -/

def toName (l : List Nat) : Name := l.map Char.ofNat

/-- The code's file-name function *is* the model's, on the whole alphabet. A change of the path
    construction in the code (e.g. `Path::with_extension`, which cuts a name at its last dot) changes the
    regenerated table and breaks this obligation. -/
theorem C17_file_table_matches_model :
    Gen.C17.fileTable.all (fun row => metaFile (toName row.1) == toName row.2) = true := by decide +kernel

example : Gen.C17.fileTable.length ≥ 500 := by decide +kernel

/-- The model's function maps distinct shard names to distinct files whenever neither name contains
    `_` or `/` — in particular for every dotted / hyphenated / spaced / case-variant / unicode sibling
    family of the alphabet (`v1.0:r` ≠ `v1.1:r` ≠ `v1:r`). The excluded names are exactly the pre-existing
    `sanitize_name` collision family (`C17_names_refuted`). -/
theorem C17_file_names_distinct_partial (a b : Name) (ha : a.all safeChar = true) (hb : b.all safeChar = true)
    (h : metaFile a = metaFile b) : a = b := metaFile_inj a b ha hb h

example : metaFile (shardName (n "v1.0") (n "r")) ≠ metaFile (shardName (n "v1.1") (n "r")) := by decide
example : metaFile (shardName (n "v1.0") (n "r")) ≠ metaFile (shardName (n "v1") (n "r")) := by decide
example : metaFile (shardName (n "v1.0") (n "r")) = n "v1.0_r.json" := by decide
example : shardFile (n "a_b") (n "c") = shardFile (n "a") (n "b_c") := by decide

/-- Restart/isolation at the persist layer under the decidable hypothesis "file names of distinct shards
    are distinct" (`distinctFiles names`, all shards of the map and the one operated on being in `names`):
    `ensure_shard`, `append`, `flush` and `delete_shard` of one shard keep every shard the owner of the
    metadata file at its name (with its batches) — so saving or dropping one KG's shards never overwrites or
    unlinks a sibling's metadata — and start-up's `load_shards` then recovers every shard with exactly its
    flushed batches. -/
theorem C17_shard_files_partial (st : State) (names : List Name) (s : Name) (u : Upd)
    (hd : distinctFiles names = true) (hmem : ∀ s', (lookup s' st.mem).isSome = true → s' ∈ names) (hs : s ∈ names)
    (h : Owns st) :
    Owns (ensureShard st s) ∧ Owns (flushShard st s) ∧ Owns (deleteShard st s) ∧
    ((lookup s st.mem).isSome = true → Owns (appendUpd st s u)) ∧
    (∀ s' sh, lookup s' st.mem = some sh →
      (s', ({ batches := sh.batches, buffer := [] } : ShardMem)) ∈ st.files.map (fun f => (f.2.1, ({ batches := f.2.2, buffer := [] } : ShardMem)))) := by
  have hi := fileInj_of_distinct hd hmem hs
  exact ⟨owns_ensureShard h hi, owns_flushShard h hi, owns_deleteShard h hi, fun hsome => owns_appendUpd h hsome,
         fun s' sh hl => owns_load h s' sh hl⟩

/-- the hypothesis is met by dotted siblings … -/
example : distinctFiles [shardName (n "v1.0") (n "r"), shardName (n "v1.1") (n "r"), shardName (n "v1") (n "r.0"), shardName (n "v1.0") (n "r.1")] = true := by decide
/-- … and fails exactly for the known twins, where ownership is lost: after both inserts the file of
    `a_b:c` holds the metadata of `a:b_c` -/
example : distinctFiles [shardName (n "a_b") (n "c"), shardName (n "a") (n "b_c")] = false := by decide
example : lookup (metaFile (shardName (n "a_b") (n "c")))
    (runSeq [.create (n "a_b"), .create (n "a"), .ins (n "a_b") (n "c") 1, .ins (n "a") (n "b_c") 2]).files
    = some (shardName (n "a") (n "b_c"), []) := by decide

end ILV.Props.C17
