/-
  C20 — Reads observe a committed prefix.
  Model: ILV.Model.EStep (storage-engine step system: time assignment / persist / ⟨KG write lock:
  apply + publish_snapshot⟩ as separate atomic steps; snapshot queries load the published pointer),
  any number of threads, programs and schedules, incremental engine off (with it on the same holds
  until its worker dies — that is C19's finding). Helper lemmas: ILV.Lemmas.EStep.
  `applied` is the ghost list of in-memory applications in KG-lock order; `replay` folds whole
  operations, so a prefix state never contains part of a batch.
-/
import ILV.Lemmas.EStep
namespace ILV.Props.C20
open ILV ILV.EStep

/-- At every step boundary of every schedule the published snapshot — its facts *and* its rule list —
    is exactly the state after the operations applied so far (whole operations, in lock order), and
    that list is a prefix of the final application order. -/
theorem C20_snapshot_prefix (progs : List (List Op)) (sched : List Tid) :
    ∀ st ∈ trace (init progs false) sched,
      st.snap = replay st.applied ∧ st.snapRules = replayR st.applied ∧
      st.applied <+: (lastState (init progs false) sched).applied := by
  intro st hst
  have hinv := trace_inv sched _ (inv_init progs) st hst
  exact ⟨hinv.snap.trans hinv.live, hinv.snapR.trans hinv.rulesI, trace_applied_prefix sched _ st hst⟩

/-- Every answer returned to a query — a relation scan, or a view query evaluated through the
    snapshot's rules — is computed from the facts and rules as they were after one and the same
    prefix of the final application order. -/
theorem C20_query_prefix (progs : List (List Op)) (sched : List Tid) (t : Tid) (ht : t < progs.length) :
    ∀ e ∈ ((lastState (init progs false) sched).threads t).done,
      ∃ pre, pre <+: (lastState (init progs false) sched).applied ∧
        (∀ r, e.1 = .query r → e.2.1 = .rows (replay pre r)) ∧
        (∀ v, e.1 = .queryV v → e.2.1 = .rows (evalView (replay pre) (replayR pre) v)) := by
  intro e he
  have hinv := trace_inv sched _ (inv_init progs) _ (lastState_mem sched _)
  have hn : (lastState (init progs false) sched).n = progs.length := by rw [lastState_n]; rfl
  obtain ⟨_, h2, _⟩ := hinv.res t (by rw [hn]; exact ht) e he
  exact ⟨_, List.take_prefix _ _, h2.1, h2.2⟩

/-- Read-your-writes, for facts and rules: if a thread's write `w` (insert, delete, rule registration or
    rule drop; other than a delete that removed nothing) returned before its later query `q`, the query's answer is computed from a prefix of the
    application order that contains `w` — e.g. a client that registered a view and then queries it is
    answered through a rule list containing that view. -/
theorem C20_read_your_writes (progs : List (List Op)) (sched : List Tid) (st : State)
    (hst : st ∈ trace (init progs false) sched) (t : Tid) (ht : t < st.n)
    (d1 d2 d3 : List (Op × Out × Nat)) (w q : Op) (out res : Out) (kw kq : Nat)
    (hd : (st.threads t).done = d1 ++ (w, out, kw) :: (d2 ++ (q, res, kq) :: d3))
    (hw : isWrite w = true) (hout : out ≠ .del 0) :
    (t, w) ∈ st.applied.take kq ∧
    (∀ r, q = .query r → res = .rows (replay (st.applied.take kq) r)) ∧
    (∀ v, q = .queryV v → res = .rows (evalView (replay (st.applied.take kq)) (replayR (st.applied.take kq)) v)) := by
  have hinv := trace_inv sched _ (inv_init progs) st hst
  have hmw : (w, out, kw) ∈ (st.threads t).done := by rw [hd]; simp
  have hmq : (q, res, kq) ∈ (st.threads t).done := by rw [hd]; simp
  obtain ⟨_, _, h3⟩ := hinv.res t ht _ hmw
  obtain ⟨_, h5, _⟩ := hinv.res t ht _ hmq
  dsimp only at h3 h5
  obtain ⟨h1, hget⟩ := h3 hw hout
  have hle : kw ≤ kq := by
    have hp := hinv.mono t ht
    rw [hd] at hp
    have hp2 := (List.pairwise_append.mp hp).2.1
    exact (List.pairwise_cons.mp hp2).1 (q, res, kq) (by simp)
  refine ⟨?_, h5.1, h5.2⟩
  have : (st.applied.take kq)[kw - 1]? = some (t, w) := by
    rw [List.getElem?_take, if_pos (by omega)]; exact hget
  exact List.mem_of_getElem? this

/-- the hypotheses are met by a non-trivial interleaving: thread 1's insert is applied between the
    time assignment and the application of thread 0's insert; thread 0 then reads its own write. -/
def exProgs : List (List Op) := [[.insert 0 [1, 2], .query 0], [.insert 0 [1]]]
def exSched : List Tid := [0, 1, 1, 0, 1, 0, 0]
example : (lastState (init exProgs false) exSched).applied = [(1, .insert 0 [1]), (0, .insert 0 [1, 2])] := by decide
example : ((lastState (init exProgs false) exSched).threads 0).done =
    [(.insert 0 [1, 2], .ins 1 1, 2), (.query 0, .rows [1, 2], 2)] := by decide
example : lastState (init exProgs false) exSched ∈ trace (init exProgs false) exSched := lastState_mem _ _

/-- a rule registration racing an insert: thread 0's insert has taken its time and persisted, thread 1
    registers `v0(X) <- r0(X)`, is acknowledged and queries the view (empty: the insert is not applied yet,
    but the rule is there), then the insert is applied and publishes facts *with* the rule. -/
def ruleProgs : List (List Op) := [[.insert 0 [1]], [.regRule 0 0, .queryV 0]]
def ruleSched : List Tid := [0, 0, 1, 1, 0]
example : (lastState (init ruleProgs false) ruleSched).snapRules = [(0, [0])] := by decide
example : ((lastState (init ruleProgs false) ruleSched).threads 1).done = [(.regRule 0 0, .created, 1), (.queryV 0, .rows [], 1)] := by decide
example : evalView (lastState (init ruleProgs false) ruleSched).snap (lastState (init ruleProgs false) ruleSched).snapRules 0 = [1] := by decide

end ILV.Props.C20
