/-
  C20 — Reads observe a committed prefix.
  Model: ILV.Model.EStep (storage-engine step system: time assignment / persist / ⟨KG write lock:
  apply + publish_snapshot⟩ as separate atomic steps; snapshot queries load the published pointer),
  any number of threads, programs and schedules, incremental engine off (with it on the same holds
  until its worker dies — that is C19's finding). Helper lemmas: ILV.Lemmas.EStep.
  `applied` is the ghost list of in-memory applications in KG-lock order; `replay` folds whole
  operations, so a prefix state never contains part of a batch.
-/
import ILV.Lemmas.EStep
namespace ILV.Props.C20
open ILV ILV.EStep

/-- At every step boundary of every schedule the published snapshot is exactly the state after the
    operations applied so far (whole operations, in lock order), and that list is a prefix of the
    final application order. -/
theorem C20_snapshot_prefix (progs : List (List Op)) (sched : List Tid) :
    ∀ st ∈ trace (init progs false) sched,
      st.snap = replay st.applied ∧ st.applied <+: (lastState (init progs false) sched).applied := by
  intro st hst
  have hinv := trace_inv sched _ (inv_init progs) st hst
  exact ⟨hinv.snap.trans hinv.live, trace_applied_prefix sched _ st hst⟩

/-- Every answer returned to a snapshot query is the relation as it was after some prefix of the
    final application order. -/
theorem C20_query_prefix (progs : List (List Op)) (sched : List Tid) (t : Tid) (ht : t < progs.length) :
    ∀ e ∈ ((lastState (init progs false) sched).threads t).done, ∀ r, e.1 = .query r →
      ∃ pre, pre <+: (lastState (init progs false) sched).applied ∧ e.2.1 = .rows (replay pre r) := by
  intro e he r hr
  have hinv := trace_inv sched _ (inv_init progs) _ (lastState_mem sched _)
  have hn : (lastState (init progs false) sched).n = progs.length := by
    have : ∀ (sched : List Tid) (st : State), (lastState st sched).n = st.n := by
      intro sched
      induction sched with
      | nil => intro st; rfl
      | cons a l ih =>
        intro st
        cases hs : step st a with
        | ok st' =>
          simp only [lastState, hs]; rw [ih]
          -- `step` never changes `n`
          by_cases htn : a ≥ st.n
          · simp [step, htn] at hs
          · cases htd : (st.threads a).todo with
            | nil => simp [step, htn, htd] at hs
            | cons op rest =>
              cases op <;> cases hpc : (st.threads a).pc <;>
                simp only [step, htn, htd, hpc, if_false, opRows] at hs <;>
                (repeat' split at hs) <;> (try cases hs) <;> (try rfl) <;>
                (simp only [applyStep]; repeat' split) <;> rfl
        | skip => simp only [lastState, hs]; exact ih st
    rw [this]; rfl
  obtain ⟨_, h2, _⟩ := hinv.res t (by rw [hn]; exact ht) e he
  exact ⟨_, List.take_prefix _ _, h2 r hr⟩

/-- Read-your-writes: if a thread's write `w` returned before its later query, the query's answer
    is the state after a prefix of the application order that contains `w`. -/
theorem C20_read_your_writes (progs : List (List Op)) (sched : List Tid) (st : State)
    (hst : st ∈ trace (init progs false) sched) (t : Tid) (ht : t < st.n)
    (d1 d2 d3 : List (Op × Out × Nat)) (w : Op) (out res : Out) (kw kq : Nat) (r : Rel)
    (hd : (st.threads t).done = d1 ++ (w, out, kw) :: (d2 ++ (Op.query r, res, kq) :: d3))
    (hw : isWrite w = true) :
    (t, w) ∈ st.applied.take kq ∧ res = .rows (replay (st.applied.take kq) r) := by
  have hinv := trace_inv sched _ (inv_init progs) st hst
  have hmw : (w, out, kw) ∈ (st.threads t).done := by rw [hd]; simp
  have hmq : (Op.query r, res, kq) ∈ (st.threads t).done := by rw [hd]; simp
  obtain ⟨_, _, h3⟩ := hinv.res t ht _ hmw
  obtain ⟨_, h5, _⟩ := hinv.res t ht _ hmq
  dsimp only at h3 h5
  obtain ⟨h1, hget⟩ := h3 hw
  have hle : kw ≤ kq := by
    have hp := hinv.mono t ht
    rw [hd] at hp
    have hp2 := (List.pairwise_append.mp hp).2.1
    exact (List.pairwise_cons.mp hp2).1 (Op.query r, res, kq) (by simp)
  refine ⟨?_, h5 r rfl⟩
  have : (st.applied.take kq)[kw - 1]? = some (t, w) := by
    rw [List.getElem?_take, if_pos (by omega)]; exact hget
  exact List.mem_of_getElem? this

/-- the hypotheses are met by a non-trivial interleaving: thread 1's delete is applied between the
    time assignment and the application of thread 0's insert; thread 0 then reads its own write. -/
def exProgs : List (List Op) := [[.insert 0 [1, 2], .query 0], [.delete 0 [1]]]
def exSched : List Tid := [0, 1, 1, 0, 1, 0, 0]
example : (lastState (init exProgs false) exSched).applied = [(1, .delete 0 [1]), (0, .insert 0 [1, 2])] := by decide
example : ((lastState (init exProgs false) exSched).threads 0).done =
    [(.insert 0 [1, 2], .ins 2 0, 2), (.query 0, .rows [1, 2], 2)] := by decide
example : lastState (init exProgs false) exSched ∈ trace (init exProgs false) exSched := lastState_mem _ _

end ILV.Props.C20
