/-
  C33 — Declared schemas are enforced.
  Model: ILV.Model.Schema (`SchemaType::matches`, the validator, the insert paths of the Handler).
  Spec: `conforms` (docs/spec/types.md) and the invariant "once a schema is declared every stored tuple
  conforms; an insert with a non-conforming tuple changes nothing; a conforming insert is accepted".
  After the repairs (schema declaration validates existing data; `Update` validates before writing) the
  invariant holds along every history; after the third repair request-local facts are validated too, so
  every answer conforms as well: `C33_statement` is the theorem `C33`.
-/
import ILV.Model.Schema
import ILV.Gen.C33
namespace ILV.Props.C33
open ILV

/-! ## the decision table -/

/-- **`matches` is the documented mapping**, for every schema type and every value (all dimensions,
    all vector lengths): no row where the code is laxer or stricter than docs/spec/types.md
    (an unresolved alias `Named(_)` constrains nothing in both). -/
theorem matches_eq_conforms (s : SType) (v : Value) : s.matchesM v = conforms s v := by
  cases s with
  | vector d => cases d <;> cases v <;> simp [SType.matchesM, conforms]
  | _ => cases v <;> rfl

/-- the schema kinds / value representatives the extractor enumerates (wildcard-free matches on the Rust
    side; an unknown name in a regenerated table makes the theorem below fail). -/
def kindRep : String → Option SType
  | "int" => some .int | "float" => some .float | "sym" => some .symbol | "str" => some .string
  | "bool" => some .bool | "ts" => some .timestamp | "vec" => some (.vector none) | "vec2" => some (.vector (some 2))
  | "any" => some .any | "named" => some .named | _ => none

def valueRep : String → Option Value
  | "i32:1" => some (.i32 1) | "i64:1" => some (.i64 1) | "f64:3ff8000000000000" => some (.f64 0x3ff8000000000000)
  | "s:61" => some (.str [97]) | "b:1" => some (.bool true) | "null" => some .null | "ts:1" => some (.ts 1)
  | "v:3f800000/40000000" => some (.vec [0x3f800000, 0x40000000])
  | "v:3f800000/40000000/40400000" => some (.vec [0x3f800000, 0x40000000, 0x40400000])
  | "v8:1/2" => some (.vec8 [1, 2]) | "v8:1/2/3" => some (.vec8 [1, 2, 3]) | _ => none

/-- T-gen: the regenerated complete graph of the real `SchemaType::matches` (10 schema kinds × 11 value
    representatives, vector lengths = / ≠ the declared dimension) equals the Spec — and the hand model —
    row by row. -/
theorem matches_table_eq_conforms :
    ILV.Gen.C33.matchesTable.length = 110 ∧
    ILV.Gen.C33.matchesTable.all (fun (k, v, b) =>
      match kindRep k, valueRep v with
      | some s, some x => conforms s x == b && s.matchesM x == b
      | _, _ => false) = true := by decide

theorem validateTuple_eq_conformsTuple (cols : List SType) (t : Tuple) :
    validateTuple cols t = conformsTuple cols t := by
  unfold validateTuple conformsTuple
  congr 1
  induction cols generalizing t with
  | nil => rfl
  | cons c cs ih =>
    cases t with
    | nil => rfl
    | cons v vs => simp [List.zip_cons_cons, List.all_cons, matches_eq_conforms]

/-! ## the validated insert path -/

/-- **all or nothing**: with a declared schema an insert containing any non-conforming (non-empty)
    tuple is rejected and changes nothing. -/
theorem insert_all_or_nothing (s : SState) (cols : List SType) (ts : List Tuple) (hs : s.schema = some cols)
    (bad : Tuple) (hb : bad ∈ ts) (hne : bad.isEmpty = false) (hc : conformsTuple cols bad = false) :
    (s.step (.insert ts)).1 = s ∧ (match (s.step (.insert ts)).2 with | .rejected => True | _ => False) := by
  have hv : validateBatch s.schema (ts.filter (fun t => !t.isEmpty)) = false := by
    rw [hs]
    simp only [validateBatch]
    rw [List.all_eq_false]
    exact ⟨bad, List.mem_filter.2 ⟨hb, by simp [hne]⟩, by rw [validateTuple_eq_conformsTuple, hc]; simp⟩
  simp [SState.step, hv]

/-- **conforming inserts are accepted** and every inserted tuple is stored afterwards. -/
theorem conforming_insert_accepted (s : SState) (cols : List SType) (ts : List Tuple) (hs : s.schema = some cols)
    (hc : ∀ t ∈ ts, conformsTuple cols t = true) :
    ∃ n, (s.step (.insert ts)).2 = .inserted n := by
  have hv : validateBatch s.schema (ts.filter (fun t => !t.isEmpty)) = true := by
    rw [hs]
    simp only [validateBatch]
    rw [List.all_eq_true]
    intro t ht
    rw [validateTuple_eq_conformsTuple]
    exact hc t (List.mem_filter.1 ht).1
  simp [SState.step, hv]

theorem mem_insertSet (ts : List Tuple) : ∀ (st : List Tuple) (x : Tuple), x ∈ (insertSet st ts).1 → x ∈ st ∨ x ∈ ts := by
  induction ts with
  | nil => intro st x h; exact Or.inl h
  | cons t ts ih =>
    intro st x h
    simp only [insertSet] at h
    split at h
    · rcases ih st x h with h | h
      · exact Or.inl h
      · exact Or.inr (List.mem_cons_of_mem _ h)
    · rcases ih (st ++ [t]) x h with h | h
      · rcases List.mem_append.1 h with h | h
        · exact Or.inl h
        · simp at h; subst h; exact Or.inr (by simp)
      · exact Or.inr (List.mem_cons_of_mem _ h)

/-! ## the invariant -/

/-- every operation preserves the invariant: a declaration is refused unless the stored tuples pass
    `validate_existing_data`; insert and update validate before touching any data; validation, query
    and request-local facts do not write. -/
theorem step_preserves_inv (s : SState) (op : SOp) (hi : s.inv = true) : (s.step op).1.inv = true := by
  cases op with
  | decl cols =>
    simp only [SState.step]
    split
    · exact hi
    · rename_i hv
      have hv' : validateBatch (some cols) s.stored = true := by simpa using hv
      simp only [validateBatch] at hv'
      simp only [SState.inv]
      rw [List.all_eq_true] at hv' ⊢
      intro x hx
      rw [← validateTuple_eq_conformsTuple]; exact hv' x hx
  | insert ts =>
    simp only [SState.step]
    split
    · exact hi
    · rename_i hv
      cases hsch : s.schema with
      | none => simp [SState.inv]
      | some cols =>
        simp only [SState.inv, hsch] at hi ⊢
        rw [List.all_eq_true] at hi ⊢
        intro x hx
        rcases mem_insertSet _ _ x hx with h | h
        · exact hi x h
        · have hv' : validateBatch (some cols) (ts.filter (fun t => !t.isEmpty)) = true := by
            rw [hsch] at hv; simpa using hv
          simp only [validateBatch] at hv'
          rw [List.all_eq_true] at hv'
          rw [← validateTuple_eq_conformsTuple]
          exact hv' x h
  | upd new =>
    simp only [SState.step]
    split
    · exact hi
    · split
      · exact hi
      · rename_i hv
        cases hsch : s.schema with
        | none => simp [SState.inv]
        | some cols =>
          have hv' : validateBatch (some cols) [new] = true := by rw [hsch] at hv; simpa using hv
          simp only [validateBatch, List.all_cons, List.all_nil, Bool.and_true] at hv'
          simp only [SState.inv]
          simp [← validateTuple_eq_conformsTuple, hv']
  | fact t => simp only [SState.step]; split <;> exact hi
  | validate ts => exact hi
  | query => exact hi

theorem run_preserves_inv (ops : List SOp) : ∀ s : SState, s.inv = true → (SState.run s ops).1.inv = true := by
  induction ops with
  | nil => intro s hi; exact hi
  | cons op ops ih =>
    intro s hi
    simp only [SState.run]
    exact ih _ (step_preserves_inv s op hi)

/-- every relation answer (`?r(X…)`, alone or after a request-local fact) produced while a schema is
    declared consists of conforming tuples. -/
def answersConform : SState → List SOp → Prop
  | _, [] => True
  | s, op :: ops =>
    (match (s.step op).2, (s.step op).1.schema with
      | .rows r, some cols => r.all (conformsTuple cols) = true
      | _, _ => True) ∧ answersConform (s.step op).1 ops

theorem step_answer_conforms (s : SState) (op : SOp) (hi : s.inv = true) :
    match (s.step op).2, (s.step op).1.schema with
    | .rows r, some cols => r.all (conformsTuple cols) = true
    | _, _ => True := by
  cases op with
  | decl cols => by_cases h : validateBatch (some cols) s.stored = true <;> simp [SState.step, h]
  | insert ts =>
    by_cases h : validateBatch s.schema (ts.filter (fun t => !t.isEmpty)) = true <;> simp [SState.step, h]
  | upd new =>
    by_cases h1 : s.stored.isEmpty = true <;> by_cases h2 : validateBatch s.schema [new] = true <;>
      simp [SState.step, h1, h2]
  | validate ts => by_cases h : validateBatch s.schema ts = true <;> simp [SState.step, h]
  | query =>
    simp only [SState.step]
    cases hsch : s.schema with
    | none => simp
    | some cols => simpa [SState.inv, hsch] using hi
  | fact t =>
    cases hsch : s.schema with
    | none => by_cases hv : validateBatch none [t] = true <;> simp [SState.step, hsch, hv]
    | some cols =>
      have hst : ∀ x ∈ s.stored, conformsTuple cols x = true := by
        have : s.stored.all (conformsTuple cols) = true := by simpa [SState.inv, hsch] using hi
        simpa using this
      by_cases hv : validateBatch (some cols) [t] = true
      · have hv' : validateTuple cols t = true := by simpa [validateBatch] using hv
        simp only [SState.step, hsch, hv, Bool.not_true, Bool.false_eq_true, if_false, List.all_eq_true]
        intro x hx
        rcases mem_insertSet _ _ x hx with h | h
        · exact hst x h
        · simp at h; subst h; rw [← validateTuple_eq_conformsTuple]; exact hv'
      · have hv2 : validateBatch (some cols) [t] = false := by
          cases h : validateBatch (some cols) [t] with
          | true => exact absurd h hv
          | false => rfl
        simp only [SState.step, hsch, hv2, Bool.not_false, if_true, List.all_eq_true]
        exact hst

theorem run_answers_conform (ops : List SOp) : ∀ s : SState, s.inv = true → answersConform s ops := by
  induction ops with
  | nil => intro s _; trivial
  | cons op ops ih =>
    intro s hi
    exact ⟨step_answer_conforms s op hi, ih _ (step_preserves_inv s op hi)⟩

/-- **C33, full statement**: along every history of declarations, inserts, updates, request-local facts,
    validations and queries: once a schema is declared every stored tuple of the relation conforms to it,
    and so does every tuple any query of the relation answers (request-local facts included). -/
def C33_statement : Prop :=
  ∀ ops : List SOp, (SState.run SState.init ops).1.inv = true ∧ answersConform SState.init ops

theorem C33 : C33_statement :=
  fun ops => ⟨run_preserves_inv ops SState.init rfl, run_answers_conform ops SState.init rfl⟩

/-- a declaration over non-conforming data and an update with a non-conforming tuple are refused and
    change nothing (the two former defect families). -/
theorem decl_over_bad_data_refused (s : SState) (cols : List SType) (bad : Tuple) (hb : bad ∈ s.stored)
    (hc : conformsTuple cols bad = false) : (s.step (.decl cols)).1 = s := by
  have hv : validateBatch (some cols) s.stored = false := by
    simp only [validateBatch]
    rw [List.all_eq_false]
    exact ⟨bad, hb, by rw [validateTuple_eq_conformsTuple, hc]; simp⟩
  simp [SState.step, hv]

theorem update_with_bad_tuple_refused (s : SState) (cols : List SType) (new : Tuple) (hs : s.schema = some cols)
    (hc : conformsTuple cols new = false) : (s.step (.upd new)).1 = s := by
  simp only [SState.step]
  split
  · rfl
  · have hv : validateBatch s.schema [new] = false := by
      rw [hs]; simp [validateBatch, validateTuple_eq_conformsTuple, hc]
    simp [hv]

/-- a non-conforming request-local fact is dropped; the request's query answers the stored tuples only. -/
theorem fact_with_bad_tuple_dropped (s : SState) (cols : List SType) (t : Tuple) (hs : s.schema = some cols)
    (hc : conformsTuple cols t = false) : s.step (.fact t) = (s, .rows s.stored) := by
  have hv : validateBatch s.schema [t] = false := by
    rw [hs]; simp [validateBatch, validateTuple_eq_conformsTuple, hc]
  simp [SState.step, hv]

/-- non-trivial instance: data first, a refused declaration, the offending tuple replaced, the declaration
    accepted, a rejected mixed batch, a refused update, accepted inserts. -/
example :
    let ops := [SOp.insert [[.str [120], .i64 1]], .decl [.int, .vector (some 2)], .upd [.i64 1, .vec [0, 0]],
                .decl [.int, .vector (some 2)], .insert [[.i64 2, .vec [0, 0]], [.i64 2, .vec [0]]],
                .upd [.i64 9, .str [97]], .insert [[.i64 3, .vec8 [1, 2]]], .query]
    (SState.run SState.init ops).1.stored = [[.i64 1, .vec [0, 0]], [.i64 3, .vec8 [1, 2]]] ∧
    (SState.run SState.init ops).2.map (fun o => match o with | .rejected => 1 | .inserted n => 10 + n | .ok => 2 | .updated d i => 100 + 10 * d + i | _ => 0)
      = [11, 1, 111, 2, 1, 1, 11, 0] := by
  decide

end ILV.Props.C33
