/-
  C30 — A program with a syntax error has no effect; otherwise statements take effect in program order.
  Model: ILV.Model.Handler (`queryProgram` = `QueryJob::execute`, handler.rs:2458; `execProgram` =
  `Handler::execute_program`, handler.rs:4248) over ILV.Model.Text. The grammar is a parameter `P`.
-/
import ILV.Lemmas.C30
namespace ILV.Props.C30
open ILV ILV.Text ILV.Handler ILV.Gen.C28

/-- **C30 (a), `query_program`.** If any statement fails to parse the request is rejected, the stored
    state is untouched and no statement ran — for every program text, grammar, state and target KG. -/
theorem C30_reject_no_effect (P : Parser) (w : World) (kgArg : Option String) (text : List Char)
    (h : hasSyntaxError P text = true) :
    (queryProgram P w kgArg text).w = w ∧ isErr (queryProgram P w kgArg text).res = true ∧
    (queryProgram P w kgArg text).trace = [] :=
  query_reject_no_effect P w kgArg text h

/-- **C30 (b), `query_program`.** With no syntax error the outcome is that of applying the statements
    of the logical lines one after the other, in program order, to the running state. -/
theorem C30_in_order (P : Parser) (w : World) (kgArg : Option String) (text : List Char)
    (hk : hasKg w (kgArg.getD "default") = true) (h : hasSyntaxError P text = false) :
    queryProgram P w kgArg text =
      match specRun P ⟨w, kgArg.getD "default", [], none, none, [], []⟩ [] (logicalLines text) with
      | (.abort s e, tr) => ⟨s.w, .err e, tr⟩
      | (.cont s, tr) => finish P s tr := by
  unfold queryProgram
  unfold hasSyntaxError at h
  simp only [hk, h]
  rw [phase2_eq_specRun P (logicalLines text) _ _ (fun l hl => logicalLines_trimmed text l hl)]
  simp only [Bool.not_true, Bool.false_eq_true, if_false]
  rcases specRun P ⟨w, kgArg.getD "default", [], none, none, [], []⟩ [] (logicalLines text) with ⟨st, tr⟩
  cases st <;> rfl

/-! ### the `execute_program` wrapper -/

/-- **C30, full statement for `Handler::execute_program`**: whatever the identity, session and target KG,
    a program containing an unparsable statement is rejected and leaves the state untouched. -/
def C30_statement : Prop :=
  ∀ (P : Parser) (w : World) (rq : Req), hasSyntaxError P rq.text = true →
    (execProgram P w rq).w = w ∧ isErr (execProgram P w rq).res = true

/-- witness grammar: knows the one statement `m1(4)` (a session fact), rejects everything else -/
def witP : Parser := fun k => if k = "m1(4)" then some ⟨.fact, .fact "m1" [.i64 4]⟩ else none
def witW : World :=
  ⟨[⟨"_internal", [("users", [[strVal "adm", strVal "h", strVal "admin"]])], [], []⟩, ⟨"default", [], [], []⟩],
   [⟨"adm", "default", [], [], false⟩]⟩
/-- `m1(4) // x⏎+m1(` sent with a session: `strip_inline_comment` cuts the *whole text* at `//`, it
    parses as a fact, the session-fact interception (handler.rs:4515) stores it and returns — line 2 is never parsed -/
def witRq : Req := ⟨some "adm", true, none, "m1(4) // x\n+m1(".toList⟩

theorem C30_refuted : ¬ C30_statement := by
  intro h
  have h1 := h witP witW witRq (by decide)
  revert h1
  decide

/-- **C30, partial theorem for `Handler::execute_program`.** Outside the two excluded input classes
    (`intercepted`: the comment-cut whole text is a statement handled before validation;
    `slowPath`: `?…` on a session holding ephemeral state) a syntax error anywhere in the program
    means: rejected, state untouched — for every grammar, state, identity, session and target KG. -/
theorem C30_partial (P : Parser) (w : World) (rq : Req)
    (h : hasSyntaxError P rq.text = true) (hi : intercepted P w rq = false) (hs : slowPath w rq = false) :
    (execProgram P w rq).w = w ∧ isErr (execProgram P w rq).res = true := by
  have hrest : ∀ role curKg,
      (execRest P w rq role (parseStatement P (trim rq.text)) (sessOf w rq) curKg).w = w ∧
      isErr (execRest P w rq role (parseStatement P (trim rq.text)) (sessOf w rq) curKg).res = true := by
    intro role curKg
    apply execRest_reject P w rq role _ _ curKg h
    · intro hsome st hst
      unfold intercepted at hi
      rw [hst] at hi
      simp only [hsome, Bool.true_and, Bool.or_eq_false_iff] at hi
      constructor
      · intro hk; simp [hk] at hi
      · intro hk; simp [hk] at hi
    · intro se hse hq
      unfold slowPath at hs
      rw [hse, hq] at hs
      simpa using hs
    · intro se hse; exact sraw_found w rq se hse
  generalize hsraw : (sessOf w rq) = sraw at hrest
  unfold execProgram
  simp only [hsraw]
  split
  · simp [isErr]
  · split
    · simp [isErr]
    · have hfast : ∀ st, (if startsWithChar '.' (trim rq.text) = true then parseStatement P (trim rq.text) else none) = some st →
          st.kind ≠ .sessionClear ∧ st.kind ≠ .userList ∧ st.kind ≠ .kgAclList ∧ st.kind ≠ .kgAclGrant ∧ st.kind ≠ .kgAclRevoke := by
        intro st hst
        by_cases hd : startsWithChar '.' (trim rq.text) = true
        · simp only [hd, if_true] at hst
          unfold intercepted at hi
          rw [hst, hd] at hi
          simp only [Bool.true_and, Bool.or_eq_false_iff] at hi
          refine ⟨?_, ?_, ?_, ?_, ?_⟩ <;> intro hk <;> simp [hk] at hi
        · simp [hd] at hst
      split
      · rename_i heq; exact absurd rfl (hfast _ heq).1
      · rename_i heq; exact absurd rfl (hfast _ heq).2.1
      · rename_i heq; exact absurd rfl (hfast _ heq).2.2.1
      · rename_i heq; exact absurd rfl (hfast _ heq).2.2.2.1
      · rename_i heq; exact absurd rfl (hfast _ heq).2.2.2.2
      · split
        · simp [isErr]
        · split
          · simp [isErr]
          · exact hrest _ _
      · exact hrest _ _

/-- grammar of the examples: two inserts and one unparsable line -/
def exP : Parser := fun k =>
  if k = "+m1(5)" then some ⟨.insert, .insert "m1" [[.i64 5]]⟩
  else if k = "+m1(6)" then some ⟨.insert, .insert "m1" [[.i64 6]]⟩ else none
-- (a) is not vacuous: the hypothesis holds for a program whose first line would have had an effect
example : hasSyntaxError exP "+m1(5)\n+m1(".toList = true ∧
    (queryProgram exP witW (some "default") "+m1(5)\n+m1(".toList).w = witW := by decide
-- (b) is not vacuous: an error-free two-statement program changes the state, in order
example : hasSyntaxError exP "+m1(5) // a\n  \n+m1(6)".toList = false ∧
    (queryProgram exP witW (some "default") "+m1(5) // a\n  \n+m1(6)".toList).res = .msgs ["ins:1:m1", "ins:1:m1"] none ∧
    (findKg (queryProgram exP witW (some "default") "+m1(5) // a\n  \n+m1(6)".toList).w "default").map (relOf · "m1") = some [[.i64 5], [.i64 6]] := by decide
-- non-vacuity of the partial theorem: a two-line program with a syntax error, no session
example : hasSyntaxError witP "m1(4)\n+m1(".toList = true ∧
    intercepted witP witW ⟨some "adm", false, some "default", "m1(4)\n+m1(".toList⟩ = false ∧
    slowPath witW ⟨some "adm", false, some "default", "m1(4)\n+m1(".toList⟩ = false := by decide
-- … and the refuting request is exactly in the excluded class
example : intercepted witP witW witRq = true := by decide
example : hasSyntaxError witP witRq.text = true ∧ (execProgram witP witW witRq).w ≠ witW := by decide

end ILV.Props.C30
