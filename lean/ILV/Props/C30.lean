/-
  C30 — A program with a syntax error has no effect; otherwise statements take effect in program order.
  Model: ILV.Model.Handler (`queryProgram` = `QueryJob::execute`, handler.rs:2458; `execProgram` =
  `Handler::execute_program`, handler.rs:4248) over ILV.Model.Text. The grammar is a parameter `P`.
-/
import ILV.Lemmas.C30
namespace ILV.Props.C30
open ILV ILV.Text ILV.Handler ILV.Gen.C28

/-- **C30 (a), `query_program`.** If any statement fails to parse the request is rejected, the stored
    state is untouched and no statement ran — for every program text, grammar, state and target KG. -/
theorem C30_reject_no_effect (P : Parser) (w : World) (kgArg : Option String) (text : List Char)
    (h : hasSyntaxError P text = true) :
    (queryProgram P w kgArg text).w = w ∧ isErr (queryProgram P w kgArg text).res = true ∧
    (queryProgram P w kgArg text).trace = [] :=
  query_reject_no_effect P w kgArg text h

/-- **C30 (b), `query_program`.** With no syntax error the outcome is that of applying the statements
    of the logical lines one after the other, in program order, to the running state. -/
theorem C30_in_order (P : Parser) (w : World) (kgArg : Option String) (text : List Char)
    (hk : hasKg w (kgArg.getD "default") = true) (h : hasSyntaxError P text = false) :
    queryProgram P w kgArg text =
      match specRun P ⟨w, kgArg.getD "default", [], none, none, [], []⟩ [] (logicalLines text) with
      | (.abort s e, tr) => ⟨s.w, .err e, tr⟩
      | (.cont s, tr) => finish P s tr := by
  unfold queryProgram
  unfold hasSyntaxError at h
  simp only [hk, h]
  rw [phase2_eq_specRun P (logicalLines text) _ _ (fun l hl => logicalLines_trimmed text l hl)]
  simp only [Bool.not_true, Bool.false_eq_true, if_false]
  rcases specRun P ⟨w, kgArg.getD "default", [], none, none, [], []⟩ [] (logicalLines text) with ⟨st, tr⟩
  cases st <;> rfl

/-! ### the `execute_program` wrapper (after the repair: authorization pre-pass over the logical lines;
     fast path and session interception only for one-statement programs) -/

/-- **C30 for `Handler::execute_program`** — whatever the identity, session and target KG, a program
    containing an unparsable statement is rejected and leaves the state (KGs *and* sessions) untouched. -/
theorem C30 (P : Parser) (w : World) (rq : Req) (h : hasSyntaxError P rq.text = true) :
    (execProgram P w rq).w = w ∧ isErr (execProgram P w rq).res = true := by
  unfold execProgram
  cases identityOf w rq.user with
  | none => simp [isErr]
  | some role =>
    simp only []
    cases authorizeProgram P w role (some (startKgOf rq (sessOf w rq))) (logicalLines rq.text) with
    | some e => simp [isErr]
    | none =>
      simp only [singleStmt_none P rq.text h]
      have hf : fastPath w (sessOf w rq) none (startKgOf rq (sessOf w rq)) = none := by
        unfold fastPath; rfl
      rw [hf]
      exact execRest_reject P w rq role (sessOf w rq) _ h

/-- the former counterexample (`m1(4) // x⏎+m1(` with a session; witness of the repaired defect
    class `session-intercept-before-validation`) is now rejected without effect -/
def witP : Parser := fun k => if k = "m1(4)" then some ⟨.fact, .fact "m1" [.i64 4]⟩ else none
def witW : World :=
  ⟨[⟨"_internal", [("users", [[strVal "adm", strVal "h", strVal "admin"]])], [], []⟩, ⟨"default", [], [], []⟩],
   [⟨"adm", "default", [], [], false⟩]⟩
def witRq : Req := ⟨some "adm", true, none, "m1(4) // x\n+m1(".toList⟩
example : hasSyntaxError witP witRq.text = true ∧ (execProgram witP witW witRq).w = witW ∧
    (execProgram witP witW witRq).res = .err "parse" := by decide
-- a one-statement program is still intercepted as a session fact
example : (execProgram witP witW ⟨some "adm", true, none, "// c\nm1(4) // x".toList⟩).res = .msgs ["sfact"] none := by decide

/-- grammar of the examples: two inserts and one unparsable line -/
def exP : Parser := fun k =>
  if k = "+m1(5)" then some ⟨.insert, .insert "m1" [[.i64 5]]⟩
  else if k = "+m1(6)" then some ⟨.insert, .insert "m1" [[.i64 6]]⟩ else none
-- (a) is not vacuous: the hypothesis holds for a program whose first line would have had an effect
example : hasSyntaxError exP "+m1(5)\n+m1(".toList = true ∧
    (queryProgram exP witW (some "default") "+m1(5)\n+m1(".toList).w = witW := by decide
-- (b) is not vacuous: an error-free two-statement program changes the state, in order
example : hasSyntaxError exP "+m1(5) // a\n  \n+m1(6)".toList = false ∧
    (queryProgram exP witW (some "default") "+m1(5) // a\n  \n+m1(6)".toList).res = .msgs ["ins:1:m1", "ins:1:m1"] none ∧
    (findKg (queryProgram exP witW (some "default") "+m1(5) // a\n  \n+m1(6)".toList).w "default").map (relOf · "m1") = some [[.i64 5], [.i64 6]] := by decide
end ILV.Props.C30
