/-
  C19 — Incremental arrangements mirror the base relations.
  Model: ILV.Model.EStep with the incremental engine on (`Inc`): shadow writes carry the logical time
  taken in step 1 of the write, consistent reads advance every input session past `max_write_time`.
-/
import ILV.Lemmas.EInc
namespace ILV.Props.C19
open ILV ILV.EStep

/-- a consistent read of `r` in state `st` succeeds and returns exactly the live facts of `r` -/
def ReadMirrors (st : State) (r : Rel) : Prop :=
  ∃ i, st.inc = some i ∧ ∃ l, (i.readc r).2 = .rows l ∧ ∀ k, k ∈ l ↔ k ∈ st.live r

/-- full statement: after any schedule of any programs of any number of threads, a consistent read
    of any relation mirrors the live relation. -/
def C19_concurrent_statement : Prop :=
  ∀ (progs : List (List Op)) (sched : List Tid) (r : Rel), ReadMirrors (lastState (init progs true) sched) r

/-! Refuted: writer 0 takes logical time 1 and persists; writer 1 takes time 2, persists and applies;
    a reader advances the input sessions to 3; writer 0 applies at time 1 < 3 — `update_at`'s
    assertion kills the worker: writer 0's insert returns an error (although it is persisted and in
    the live Vec, unpublished) and every later read fails. The KG write lock serialises the
    *applications*, not the *time assignment*. -/
def witnessProgs : List (List Op) := [[.insert 0 [1]], [.insert 0 [2]], [.readc 0]]
def witnessSched : List Tid := [0, 0, 1, 1, 1, 2, 0]

theorem C19_concurrent_refuted : ¬ C19_concurrent_statement := by
  intro h
  obtain ⟨i, hi, l, hl, _⟩ := h witnessProgs witnessSched 0
  have hdead : ∀ j, (lastState (init witnessProgs true) witnessSched).inc = some j → j.dead = true := by
    intro j hj
    have : ((lastState (init witnessProgs true) witnessSched).inc.map (·.dead)) = some true := by decide
    rw [hj] at this; simpa using this
  have := hdead i hi
  simp [Inc.readc, this] at hl

/-- what the three calls returned in the witness run -/
example : ((lastState (init witnessProgs true) witnessSched).threads 0).done.map (·.2.1) = [.err] := by decide
example : ((lastState (init witnessProgs true) witnessSched).threads 2).done.map (·.2.1) = [.rows [2]] := by decide
example : (lastState (init witnessProgs true) witnessSched).live 0 = [2, 1] := by decide
example : (lastState (init witnessProgs true) witnessSched).snap 0 = [2] := by decide

/-- Partial: for every single-threaded history (any program of inserts with duplicates inside a batch,
    re-inserts, deletes of present and absent tuples, snapshot queries and consistent reads, any
    schedule of that one thread) the worker stays alive and a consistent read of any relation returns
    exactly the live relation. Since any prefix of a program is a program, this covers a read at every
    moment of every sequential history. Proof: invariant `InvS` — per (relation, tuple) the diffs sent to
    the arrangement sum to 1 if the tuple is live and 0 otherwise; logical times strictly increase, so every
    shadow write is at or above every input-session time. -/
theorem C19_sequential (p : List Op) (sched : List Tid) (r : Rel) :
    ReadMirrors (lastState (init [p] true) sched) r := by
  obtain ⟨i, hi⟩ := lastState_invS sched _ _ (invS_init p)
  obtain ⟨l, hl, hm⟩ := invS_read hi r
  exact ⟨i, hi.hinc, l, hl, hm⟩

/-- a non-trivial sequential history: duplicate inside a batch, re-insert, absent delete, read in between -/
def seqProg : List Op := [.insert 0 [1, 1, 2], .readc 0, .delete 0 [2, 7], .insert 0 [2], .insert 1 [5], .delete 0 [1]]
example : (lastState (init [seqProg] true) (List.replicate 20 0)).live 0 = [2] := by decide
example : ((lastState (init [seqProg] true) (List.replicate 20 0)).inc.map (fun i => (i.readc 0).2)) = some (.rows [2]) := by decide

end ILV.Props.C19
