/-
  C32 — relations are sets and write reports are accurate.
  Models: ILV.Model.Store (`insert_in_memory` / `delete_in_memory` loops, `insertCore` / `deleteCore`)
  and ILV.Model.Writes (the handler's insert / delete / conditional delete / update statements).
  Lemmas: ILV.Lemmas.WritesLive, ILV.Lemmas.WritesSem. Sets are duplicate-free lists (`List.Nodup`);
  with `Nodup` on both sides a length is a cardinality.
-/
import ILV.Lemmas.WritesSem
namespace ILV.Props.C32
open ILV ILV.Batch ILV.Store ILV.Writes ILV.Props.C31

/-- **insert refines set union and reports exactly the absent tuples.** If `insert_tuples_into` returns
    `Ok((n, d))`: the relation stays duplicate-free, holds exactly the old tuples and the requested ones,
    `n` is the growth of the set (`= |set ts \ R|`), `n + d` the number of requested tuples, and no other
    relation changes. Any codec, any configuration. -/
theorem insert_refines (c : Codec) (e e' : Engine) (rel : String) (ts : List Tuple) (n d : Nat)
    (h : insertCore c e rel ts = (e', .ok (n, d))) (hn : (liveOf e rel).Nodup) :
    (liveOf e' rel).Nodup ∧ (∀ t, t ∈ liveOf e' rel ↔ t ∈ liveOf e rel ∨ t ∈ ts) ∧
    (liveOf e' rel).length = (liveOf e rel).length + n ∧ n + d = ts.length ∧
    (∀ r, r ≠ rel → liveOf e' r = liveOf e r) := by
  obtain ⟨h1, h2, h3, h4⟩ := insertCore_ok c e e' rel ts n d h
  obtain ⟨s1, s2, s3, s4⟩ := insertLoop_spec ts (liveOf e rel) 0 0 hn
  rw [h1, h2, h3]
  exact ⟨s1, s2, by omega, by omega, h4⟩

/-- a rejected or failed insert leaves every relation as it was. -/
theorem insert_error_no_effect (c : Codec) (e e' : Engine) (rel : String) (ts : List Tuple) (k : String)
    (h : insertCore c e rel ts = (e', .error k)) (r : String) : liveOf e' r = liveOf e r := by
  simp [liveOf, insertCore_err c e e' rel ts k h]

/-- **delete refines set difference and reports exactly the removed tuples** (`n = |set ts ∩ R|`). -/
theorem delete_refines (c : Codec) (e e' : Engine) (rel : String) (ts : List Tuple) (n : Nat)
    (h : deleteCore c e rel ts = (e', .ok n)) (hn : (liveOf e rel).Nodup) (ha : ArityOk e) :
    (liveOf e' rel).Nodup ∧ (∀ t, t ∈ liveOf e' rel ↔ t ∈ liveOf e rel ∧ t ∉ ts) ∧
    (liveOf e rel).length = (liveOf e' rel).length + n ∧
    (∀ r, r ≠ rel → liveOf e' r = liveOf e r) := by
  obtain ⟨h1, h2, h3⟩ := deleteCore_ok c e e' rel ts n ha h
  obtain ⟨s1, s2, s3⟩ := deleteLive_spec (liveOf e rel) ts hn
  rw [h1] at h2 ⊢
  exact ⟨s1, s2, by omega, h3⟩

/-- run of handler statements from the empty store. -/
def runW (c : Codec) (ans : Answer) (cfg : Cfg) (h : List WOp) : Engine :=
  h.foldl (fun e o => (exec c ans e o).1) { cfg := cfg }

/-- **stored relations never contain a tuple twice** — after any sequence of insert / delete /
    conditional delete / update statements, for every codec, configuration and query answer, whatever
    the statements report (including errors). -/
theorem store_nodup (c : Codec) (ans : Answer) (cfg : Cfg) (h : List WOp) (r : String) :
    (liveOf (runW c ans cfg h) r).Nodup := by
  have : ∀ (h : List WOp) (e : Engine), NodupAll e → NodupAll (h.foldl (fun e o => (exec c ans e o).1) e) := by
    intro h
    induction h with
    | nil => intro e he; exact he
    | cons o os ih => intro e he; exact ih _ (exec_nodup c ans e o he)
  exact this h _ (fun r => by simp [liveOf, aget]) r

/-- **every stored tuple has its relation's arity**, after any statement sequence (any codec, answers,
    outcomes) — the side condition of the refinement theorems below, and the reason why skipping
    wrong-arity tuples in `delete_tuples_from` is invisible. -/
theorem store_arity (c : Codec) (ans : Answer) (cfg : Cfg) (h : List WOp) : ArityOk (runW c ans cfg h) := by
  have step : ∀ (e : Engine) (o : WOp), ArityOk e → ArityOk (exec c ans e o).1 := by
    intro e o he
    cases o with
    | ins rel ts =>
      simp only [exec]
      have := insertCore_arityOk c e rel (ts.filter (fun t => !t.isEmpty)) he
      rcases hr : insertCore c e rel (ts.filter (fun t => !t.isEmpty)) with ⟨e', res⟩
      rw [hr] at this
      cases res <;> exact this
    | del rel t =>
      simp only [exec]
      split
      · exact he
      · have := deleteCore_arityOk c e rel [t] he
        rcases hr : deleteCore c e rel [t] with ⟨e', res⟩
        rw [hr] at this
        cases res <;> exact this
    | delb rel ts =>
      simp only [exec]
      have := deleteSeq_arityOk c rel ts e 0 he
      rcases hr : deleteSeq c e rel ts 0 with ⟨e', res⟩
      rw [hr] at this
      cases res <;> exact this
    | delc rel head body =>
      simp only [exec]
      cases ha : ans (dbOf e) (addVars [] head) (Lit.pos rel head :: body) with
      | none => exact he
      | some rows =>
        simp only
        have := deleteSeq_arityOk c rel
          ((rows.filterMap (fun row => instHead (rowBinding (addVars [] head) row) head)).filter (fun t => !t.isEmpty)) e 0 he
        rcases hr : deleteSeq c e rel
          ((rows.filterMap (fun row => instHead (rowBinding (addVars [] head) row) head)).filter (fun t => !t.isEmpty)) 0 with ⟨e', res⟩
        rw [hr] at this
        cases res <;> exact this
    | upd dels inss body =>
      simp only [exec]
      cases ha : ans (dbOf e) (updVars dels inss) body with
      | none => exact he
      | some rows =>
        simp only
        have := updRows_arityOk c (updVars dels inss) dels inss rows e 0 0 he
        rcases hr : updRows c (updVars dels inss) dels inss e rows 0 0 with ⟨e', res⟩
        rw [hr] at this
        cases res <;> exact this
    | obs => exact he
    | ord v b => exact he
    | bad => exact he
  have : ∀ (h : List WOp) (e : Engine), ArityOk e → ArityOk (h.foldl (fun e o => (exec c ans e o).1) e) := by
    intro h
    induction h with
    | nil => intro e he; exact he
    | cons o os ih => intro e he; exact ih _ (step e o he)
  exact this h _ (fun r t ht => by simp [liveOf, aget] at ht)

/-- the tuples a conditional delete asks the store to delete, computed from the query answer `rows`. -/
def condDeleteTuples (head : List Tm) (rows : List Tuple) : List Tuple :=
  (rows.filterMap (fun row => instHead (rowBinding (addVars [] head) row) head)).filter (fun t => !t.isEmpty)

/-- **conditional delete, given the query answer**: the statement removes exactly the tuples `D`
    instantiated from the answer rows and reports the number of tuples that disappeared. -/
theorem cond_delete_exact (c : Codec) (ans : Answer) (e e' : Engine) (rel : String) (head : List Tm) (body : List Lit)
    (rows : List Tuple) (n : Nat)
    (ha : ans (dbOf e) (addVars [] head) (.pos rel head :: body) = some rows)
    (h : exec c ans e (.delc rel head body) = (e', .condDeleted n)) (hn : (liveOf e rel).Nodup) (har : ArityOk e) :
    (∀ t, t ∈ liveOf e' rel ↔ t ∈ liveOf e rel ∧ t ∉ condDeleteTuples head rows) ∧
    (liveOf e rel).length = (liveOf e' rel).length + n ∧ (liveOf e' rel).Nodup ∧
    (∀ r, r ≠ rel → liveOf e' r = liveOf e r) := by
  simp only [exec, ha] at h
  rcases hr : deleteSeq c e rel
    ((rows.filterMap (fun row => instHead (rowBinding (addVars [] head) row) head)).filter (fun t => !t.isEmpty)) 0 with ⟨e1, res⟩
  rw [hr] at h
  cases res with
  | error k => simp at h
  | ok m =>
    simp only [Prod.mk.injEq, Msg.condDeleted.injEq] at h
    obtain ⟨h1, h2⟩ := h
    subst h1; subst h2
    obtain ⟨a1, a2, a3⟩ := deleteSeq_ok c rel _ e e1 0 m har hr
    obtain ⟨s1, s2, _⟩ := deleteLive_spec (liveOf e rel) (condDeleteTuples head rows) hn
    refine ⟨by rw [a1]; exact s2, by omega, by rw [a1]; exact s1, a3⟩

/-- corollary: if the answer is right — `D` is exactly the set of stored tuples satisfying `φ` — the
    statement removes exactly those and reports their number. (Needs a wildcard-free head: with a `_`
    in the head `D` is empty, see `C32_refuted`.) -/
theorem cond_delete_exact_right_answer (c : Codec) (ans : Answer) (e e' : Engine) (rel : String) (head : List Tm) (body : List Lit)
    (rows : List Tuple) (n : Nat) (φ : Tuple → Prop)
    (ha : ans (dbOf e) (addVars [] head) (.pos rel head :: body) = some rows)
    (hright : ∀ t, t ∈ condDeleteTuples head rows ↔ t ∈ liveOf e rel ∧ φ t)
    (h : exec c ans e (.delc rel head body) = (e', .condDeleted n)) (hn : (liveOf e rel).Nodup) (har : ArityOk e) :
    (∀ t, t ∈ liveOf e' rel ↔ t ∈ liveOf e rel ∧ ¬ φ t) := by
  obtain ⟨a, _, _, _⟩ := cond_delete_exact c ans e e' rel head body rows n ha h hn har
  intro t
  rw [a t, hright t]
  constructor
  · rintro ⟨h1, h2⟩; exact ⟨h1, fun hp => h2 ⟨h1, hp⟩⟩
  · rintro ⟨h1, h2⟩; exact ⟨h1, fun hp => h2 hp.2⟩

/-- "no tuple inserted for one binding is a delete tuple of a later binding". -/
def NoLaterDelete (vars : List String) (dels inss : List Target) : List Tuple → Prop
  | [] => True
  | row :: rows =>
    (∀ p ∈ targetPrims false (rowBinding vars row) inss, ∀ q ∈ updPrims vars dels inss rows,
      ∀ rel t, p = Prim.ins rel t → q ≠ Prim.del rel t) ∧ NoLaterDelete vars dels inss rows

/-- the update's delete set `D` and insert set `I` (as predicates on relation/tuple). -/
def inD (vars : List String) (dels inss : List Target) (rows : List Tuple) (r : String) (y : Tuple) : Prop :=
  Prim.del r y ∈ updPrims vars dels inss rows
def inI (vars : List String) (dels inss : List Target) (rows : List Tuple) (r : String) (y : Tuple) : Prop :=
  Prim.ins r y ∈ updPrims vars dels inss rows

theorem memAfter_dels (r : String) (y : Tuple) : ∀ (ps : List Prim), (∀ p ∈ ps, ∃ rel t, p = Prim.del rel t) → ∀ init,
    (memAfter r y ps init ↔ init ∧ Prim.del r y ∉ ps) := by
  intro ps
  induction ps with
  | nil => intro _ init; simp [memAfter]
  | cons p ps ih =>
    intro hp init
    obtain ⟨rel, t, rfl⟩ := hp p (by simp)
    simp only [memAfter]
    rw [ih (fun q hq => hp q (by simp [hq]))]
    by_cases hc : rel = r ∧ t = y
    · obtain ⟨h1, h2⟩ := hc; subst h1; subst h2; simp
    · simp only [hc, if_false, List.mem_cons, not_or]
      have : Prim.del r y ≠ Prim.del rel t := by
        intro e; injection e with e1 e2; exact hc ⟨e1.symm, e2.symm⟩
      simp [this]

theorem memAfter_inss (r : String) (y : Tuple) : ∀ (ps : List Prim), (∀ p ∈ ps, ∃ rel t, p = Prim.ins rel t) → ∀ init,
    (memAfter r y ps init ↔ init ∨ Prim.ins r y ∈ ps) := by
  intro ps
  induction ps with
  | nil => intro _ init; simp [memAfter]
  | cons p ps ih =>
    intro hp init
    obtain ⟨rel, t, rfl⟩ := hp p (by simp)
    simp only [memAfter]
    rw [ih (fun q hq => hp q (by simp [hq]))]
    by_cases hc : rel = r ∧ t = y
    · obtain ⟨h1, h2⟩ := hc; subst h1; subst h2; simp
    · simp only [hc, if_false, List.mem_cons]
      have : Prim.ins r y ≠ Prim.ins rel t := by
        intro e; injection e with e1 e2; exact hc ⟨e1.symm, e2.symm⟩
      simp [this]

theorem targetPrims_del (b : Binding) (ts : List Target) : ∀ p ∈ targetPrims true b ts, ∃ rel t, p = Prim.del rel t := by
  intro p hp
  simp only [targetPrims, List.mem_filterMap, Option.map_eq_some_iff] at hp
  obtain ⟨t, _, x, _, rfl⟩ := hp
  exact ⟨t.1, x, by simp⟩

theorem targetPrims_ins (b : Binding) (ts : List Target) : ∀ p ∈ targetPrims false b ts, ∃ rel t, p = Prim.ins rel t := by
  intro p hp
  simp only [targetPrims, List.mem_filterMap, Option.map_eq_some_iff] at hp
  obtain ⟨t, _, x, _, rfl⟩ := hp
  exact ⟨t.1, x, by simp⟩

/-- membership after the primitives of an update without a later delete of an inserted tuple:
    `(R \ D) ∪ I`. -/
theorem memAfter_update (vars : List String) (dels inss : List Target) (r : String) (y : Tuple) :
    ∀ (rows : List Tuple), NoLaterDelete vars dels inss rows → ∀ init,
    (memAfter r y (updPrims vars dels inss rows) init ↔
      (init ∧ ¬ inD vars dels inss rows r y) ∨ inI vars dels inss rows r y) := by
  intro rows
  induction rows with
  | nil => intro _ init; simp [updPrims, memAfter, inD, inI]
  | cons row rows ih =>
    intro hno init
    have hp : updPrims vars dels inss (row :: rows) =
        targetPrims true (rowBinding vars row) dels ++ (targetPrims false (rowBinding vars row) inss ++ updPrims vars dels inss rows) := by
      simp [updPrims, rowPrims]
    have hD := targetPrims_del (rowBinding vars row) dels
    have hI := targetPrims_ins (rowBinding vars row) inss
    rw [hp, memAfter_append, memAfter_append, ih hno.2,
      memAfter_inss r y _ hI, memAfter_dels r y _ hD]
    simp only [inD, inI, hp, List.mem_append]
    have nd1 : Prim.del r y ∉ targetPrims false (rowBinding vars row) inss := by
      intro hm; obtain ⟨rel, t, e⟩ := hI _ hm; cases e
    have ni1 : Prim.ins r y ∉ targetPrims true (rowBinding vars row) dels := by
      intro hm; obtain ⟨rel, t, e⟩ := hD _ hm; cases e
    have hcross : Prim.ins r y ∈ targetPrims false (rowBinding vars row) inss →
        Prim.del r y ∉ updPrims vars dels inss rows := by
      intro hi hd
      exact hno.1 _ hi _ hd r y rfl rfl
    constructor
    · rintro (⟨(⟨h1, h2⟩ | h1), h3⟩ | h1)
      · left; exact ⟨h1, fun hh => by rcases hh with hh | hh | hh; exact h2 hh; exact nd1 hh; exact h3 hh⟩
      · right; right; left; exact h1
      · right; right; right; exact h1
    · rintro (⟨h1, h2⟩ | h1 | h1 | h1)
      · left; exact ⟨Or.inl ⟨h1, fun hh => h2 (Or.inl hh)⟩, fun hh => h2 (Or.inr (Or.inr hh))⟩
      · exact absurd h1 ni1
      · left; exact ⟨Or.inr h1, hcross h1⟩
      · right; exact h1

/-- **update, given the query answer**: when no tuple inserted for one binding is a delete tuple of a
    later binding, the statement leaves every relation as `(R \ D) ∪ I`, where `D` / `I` are the delete /
    insert tuples of all matched bindings (on the state before the update). -/
theorem update_exact (c : Codec) (ans : Answer) (e e' : Engine) (dels inss : List Target) (body : List Lit)
    (rows : List Tuple) (d i : Nat)
    (ha : ans (dbOf e) (updVars dels inss) body = some rows)
    (hno : NoLaterDelete (updVars dels inss) dels inss rows)
    (h : exec c ans e (.upd dels inss body) = (e', .updated d i)) (har : ArityOk e) (r : String) (y : Tuple) :
    (y ∈ liveOf e' r ↔ (y ∈ liveOf e r ∧ ¬ inD (updVars dels inss) dels inss rows r y) ∨
      inI (updVars dels inss) dels inss rows r y) := by
  simp only [exec, ha] at h
  rcases hr : updRows c (updVars dels inss) dels inss e rows 0 0 with ⟨e1, res⟩
  rw [hr] at h
  cases res with
  | error k => simp at h
  | ok di =>
    obtain ⟨d1, i1⟩ := di
    simp only [Prod.mk.injEq, Msg.updated.injEq] at h
    obtain ⟨h1, _, _⟩ := h
    subst h1
    rw [updRows_ok c _ dels inss rows e e1 0 0 d1 i1 har hr r y]
    exact memAfter_update _ dels inss r y rows hno _

/-! ### full statement and refutation -/

def tm (l : List Int) : Tuple := l.map Value.i64
def dbList (l : List (String × List Tuple)) : String → List Tuple := fun r => (aget l r).getD []

/-- **C32 (state part) at full strength** for the two query-driven statements, with the reference
    evaluator as the query answer: a conditional delete removes exactly the stored tuples that match its
    head pattern (a `_` matches anything) and condition; an update leaves `(R \ D) ∪ I`. -/
def C32_statement : Prop :=
  (∀ (e : Engine) (rel : String) (head : List Tm) (body : List Lit) (t : Tuple),
      (liveOf e rel).Nodup →
      (exec realCodec refAnswer e (.delc rel head body)).2 ≠ .err "other" →
      (t ∈ liveOf (exec realCodec refAnswer e (.delc rel head body)).1 rel ↔
        t ∈ liveOf e rel ∧ ¬ (∃ b, matchArgs head t [] = some b ∧ ∃ bs, evalBody (dbOf e) body [b] = some bs ∧ bs ≠ []))) ∧
  (∀ (e : Engine) (dels inss : List Target) (body : List Lit) (rows : List Tuple) (r : String) (y : Tuple),
      refAnswer (dbOf e) (updVars dels inss) body = some rows →
      (y ∈ liveOf (exec realCodec refAnswer e (.upd dels inss body)).1 r ↔
        (y ∈ liveOf e r ∧ ¬ inD (updVars dels inss) dels inss rows r y) ∨ inI (updVars dels inss) dels inss rows r y))

/-- store holding `r = {(1,2),(2,1)}`. -/
def e0 : Engine := (exec realCodec refAnswer { cfg := {} } (.ins "r" [tm [1, 2], tm [2, 1]])).1

theorem e0_live : liveOf e0 "r" = [tm [1, 2], tm [2, 1]] := by decide

/-- `-r(X, _) <- X > 0` deletes nothing although both tuples match. -/
theorem wildcard_witness :
    liveOf (exec realCodec refAnswer e0 (.delc "r" [.var "X", .wild] [.cmp .gt (.var "X") (.const 0)])).1 "r"
      = [tm [1, 2], tm [2, 1]] := by decide

/-- `-r(X,Y), +r(Y,X) <- r(X,Y)` on `{(1,2),(2,1)}` leaves `{(1,2)}`: `(2,1)`, inserted for the first
    binding, is deleted again for the second. -/
theorem swap_witness :
    liveOf (exec realCodec refAnswer e0 (.upd [("r", [.var "X", .var "Y"])] [("r", [.var "Y", .var "X"])]
      [.pos "r" [.var "X", .var "Y"]])).1 "r" = [tm [1, 2]] := by decide

theorem C32_refuted : ¬ C32_statement := by
  intro h
  have h1 := h.1 e0 "r" [.var "X", .wild] [.cmp .gt (.var "X") (.const 0)] (tm [1, 2]) (by rw [e0_live]; decide) (by decide)
  rw [wildcard_witness, e0_live] at h1
  have := h1.1 (by simp)
  exact this.2 ⟨[("X", .i64 1)], by decide, [[("X", .i64 1)]], by decide, by simp⟩

/-- the hypotheses of `update_exact` are satisfiable by a non-trivial update (one-directional swap of
    the rows (0,3) and (1,2): inserts (3,0), (2,1); deletes (0,3), (1,2)). -/
example : NoLaterDelete ["X", "Y"] [("r", [.var "X", .var "Y"])] [("r", [.var "Y", .var "X"])]
    [tm [1, 2], tm [0, 3]] := by
  have h1 : targetPrims false (rowBinding ["X", "Y"] (tm [1, 2])) [("r", [Tm.var "Y", Tm.var "X"])] = [Prim.ins "r" (tm [2, 1])] := by decide
  have h2 : updPrims ["X", "Y"] [("r", [Tm.var "X", Tm.var "Y"])] [("r", [Tm.var "Y", Tm.var "X"])] [tm [0, 3]]
      = [Prim.del "r" (tm [0, 3]), Prim.ins "r" (tm [3, 0])] := by decide
  have h3 : updPrims ["X", "Y"] [("r", [Tm.var "X", Tm.var "Y"])] [("r", [Tm.var "Y", Tm.var "X"])] [] = [] := by decide
  simp only [NoLaterDelete, h1, h2, h3]
  refine ⟨?_, ?_, trivial⟩
  · intro p hp q hq rel t e1 e2
    subst e1; subst e2
    simp only [List.mem_singleton, Prim.ins.injEq] at hp
    obtain ⟨rfl, rfl⟩ := hp
    revert hq; decide
  · intro p _ q hq; simp at hq

/-- and `insert_refines` applies to real results: a present tuple and an in-batch duplicate give
    `Ok((1, 2))`. -/
example : (match (insertCore realCodec e0 "r" [tm [1, 2], tm [3, 3], tm [3, 3]]).2 with
    | .ok (n, d) => n == 1 && d == 2 | .error _ => false) = true := by decide

end ILV.Props.C32
