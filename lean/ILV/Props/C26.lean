/-
  C26 — Vector and temporal builtins obey their laws.
  Models: ILV.Model.Lsh (probes, hyperplane cache, buckets), ILV.Model.VecOps (distances,
  quantisation) over the float parameter ILV.Model.FloatOps, ILV.Model.Temporal.
  Helper lemmas: ILV.Lemmas.Probes / Cache / Dist / Quant.
  The float laws `FloatLaws F` are hypotheses; `toyFloat_laws` shows they are satisfiable, the
  `c26.law` correspondence samples them on Rust's arithmetic.
-/
import ILV.Lemmas.Probes
import ILV.Lemmas.Cache
import ILV.Lemmas.Dist
import ILV.Lemmas.Quant
import ILV.Model.Temporal
namespace ILV.Props.C26
open ILV ILV.Lsh ILV.VecOps ILV.Temporal List

/-! ## (d) probe sequences -/

/-- For every duplicate-free order `idx` of hyperplane indices below 64 (the code's `0..n'` or the
    order produced by *any* sort of the boundary distances), bucket pattern `b` and cut `m`:
    the sequence starts at the bucket, has no duplicates, its Hamming distance to the bucket never
    decreases, and its length is `min m (1 + C(n,1) + C(n,2) + C(n,3))`. -/
theorem C26_probesOf (b : Nat) (idx : List Nat) (m : Nat) (hnd : idx.Nodup) (hlt : ∀ i ∈ idx, i < 64) :
    (probesOf b idx m).head? = (if m = 0 then none else some b) ∧
    (probesOf b idx m).Nodup ∧
    (probesOf b idx m).Pairwise (fun p q => hamming b p ≤ hamming b q) ∧
    (probesOf b idx m).length = min m (1 + idx.length + idx.length.choose 2 + idx.length.choose 3) := by
  refine ⟨?_, ?_, ?_, ?_⟩
  · cases m with
    | zero => simp [probesOf]
    | succ k => simp [probesOf, flipSets, applyFlips]
  · exact ((nodup_flipSets hnd).map_on (fun s hs t ht h => applyFlips_inj hnd b hs ht h)).sublist (take_sublist _ _)
  · refine Pairwise.sublist (take_sublist _ _) ?_
    rw [pairwise_map]
    refine (pairwise_length_flipSets idx).imp_of_mem ?_
    intro s t hs ht hst
    have hs' := (mem_flipSets_sublist hs).1
    have ht' := (mem_flipSets_sublist ht).1
    rw [hamming_applyFlips b (hnd.sublist hs') (fun i hi => hlt i (hs'.subset hi)),
        hamming_applyFlips b (hnd.sublist ht') (fun i hi => hlt i (ht'.subset hi))]
    exact hst
  · simp [probesOf, length_flipSets]

/-- `lsh_probes(bucket, num_hyperplanes, num_probes)`, all arguments. -/
theorem C26_probes (b n m : Nat) :
    (probes b n m).head? = (if m = 0 then none else some b) ∧
    (probes b n m).Nodup ∧
    (probes b n m).Pairwise (fun p q => hamming b p ≤ hamming b q) ∧
    (probes b n m).length = min m (1 + min n 62 + (min n 62).choose 2 + (min n 62).choose 3) := by
  have h := C26_probesOf b (List.range (min n 62)) m nodup_range (fun i hi => by
    have := mem_range.1 hi; omega)
  simpa [probes] using h

example : probes 53 8 5 = [53, 52, 55, 49, 61] := by decide

/-- `lsh_probes_ranked(bucket, distances, num_probes)` for *any* comparison `lt` of the distances
    (so also for whatever order Rust's sort leaves when NaNs make the comparator inconsistent). -/
theorem C26_probes_ranked {α} (lt : α → α → Bool) (b : Nat) (d : List α) (m : Nat) :
    let n := min d.length 62
    (probesRanked lt b d m).head? = (if m = 0 then none else some b) ∧
    (probesRanked lt b d m).Nodup ∧
    (probesRanked lt b d m).Pairwise (fun p q => hamming b p ≤ hamming b q) ∧
    (probesRanked lt b d m).length = min m (1 + n + n.choose 2 + n.choose 3) := by
  intro n
  have hp := sortIdx_perm lt (d.take 62)
  have hlen : (d.take 62).length = n := by simp [n, Nat.min_comm]
  have hnd : (sortIdx lt (d.take 62)).Nodup := hp.nodup_iff.2 nodup_range
  have hlt : ∀ i ∈ sortIdx lt (d.take 62), i < 64 := by
    intro i hi
    have := mem_range.1 (hp.subset hi)
    omega
  have h := C26_probesOf b (sortIdx lt (d.take 62)) m hnd hlt
  rw [hp.length_eq, length_range, hlen] at h
  exact h

example : probesRanked (fun (x y : Nat) => decide (x < y)) 5 [10, 0, 20] 8 = [5, 7, 4, 1, 6, 3, 0, 2] := by decide

/-! ## (c) the hyperplane cache and bucket determinism -/

/-- Every atomic step of the cache preserves "cached entry = gen key". -/
theorem C26_cache_step_invariant {V} (gen : Key → V) (c : Cache V) (h : Inv gen c) (s : Step) :
    Inv gen (step gen c s).1 := step_inv gen h s

/-- Any sequence of atomic steps from the empty cache — in particular any interleaving of any number
    of threads running `get_or_create_hyperplanes`, `clear_lsh_cache`, `configure_lsh_cache_size` —
    hands out, for a lookup of key `k`, nothing or exactly `gen k`. -/
theorem C26_cache_any_schedule {V} (gen : Key → V) (ss : List Step) :
    ∀ p ∈ ss.zip (run gen ({} : Cache V) ss).2, ∀ v, p.2 = some v → ∃ k, Step.key? p.1 = some k ∧ v = gen k :=
  (run_inv gen (c := ({} : Cache V)) (fun e he => by simp at he) ss).2

/-- The read-then-upgrade window of `get_or_create_hyperplanes`: whatever other threads do (`mid`)
    between a miss under the read lock and the write-lock section, the value obtained is `gen k`. -/
theorem C26_get_or_create_interleaved {V} (gen : Key → V) (c : Cache V) (h : Inv gen c) (k : Key) (mid : List Step) :
    (∀ v, (step gen c (.probe k)).2 = some v → v = gen k) ∧
    (step gen (run gen (step gen c (.probe k)).1 mid).1 (.fill k)).2 = some (gen k) := by
  refine ⟨fun v hv => (step_ret gen h (.probe k) hv).1 k rfl, ?_⟩
  have h1 := step_inv gen h (.probe k)
  have h2 := (run_inv gen h1 mid).1
  obtain ⟨v, hv⟩ := fill_returns gen (run gen (step gen c (.probe k)).1 mid).1 k
  rw [hv, (step_ret gen h2 (.fill k) hv).2 k rfl]

/-- `lsh_bucket(v, table, n)` computed through a cache in any state reachable from the empty cache
    equals the pure function of `(v, table, n)`; the invariant is kept. -/
theorem C26_bucket_deterministic (F : FloatOps) (hash : Nat → Nat) (c : Cache (List (List F.F32)))
    (h : Inv (genHyperplanes F hash) c) (v : List F.F32) (t : Int) (n : Nat) :
    (lshBucket F hash c v t n).2 = lshBucketPure F hash v t n ∧
    Inv (genHyperplanes F hash) (lshBucket F hash c v t n).1 := by
  unfold lshBucket lshBucketPure
  split
  · exact ⟨rfl, h⟩
  · have hs := getOrCreate_spec (genHyperplanes F hash) h (bucketKey t n v.length)
    cases hg : getOrCreate (genHyperplanes F hash) c (bucketKey t n v.length) with
    | mk c1 hp =>
      rw [hg] at hs
      exact ⟨by rw [show hp = _ from hs.2], hs.1⟩

/-- the same for `lsh_bucket_with_distances` / `lsh_bucket_int8` (f64 accumulation). -/
theorem C26_bucket_dist_deterministic (F : FloatOps) (hash : Nat → Nat) (c : Cache (List (List F.F32)))
    (h : Inv (genHyperplanes F hash) c) (v : List F.F64) (t : Int) (n : Nat) :
    (lshBucketDist F hash c v t n).2 = lshBucketDistPure F hash v t n ∧
    Inv (genHyperplanes F hash) (lshBucketDist F hash c v t n).1 := by
  unfold lshBucketDist lshBucketDistPure
  split
  · exact ⟨rfl, h⟩
  · have hs := getOrCreate_spec (genHyperplanes F hash) h (bucketKey t n v.length)
    cases hg : getOrCreate (genHyperplanes F hash) c (bucketKey t n v.length) with
    | mk c1 hp =>
      rw [hg] at hs
      exact ⟨by rw [show hp = _ from hs.2], hs.1⟩

/-- the invariant is met by a non-trivial state: one cached key after a miss, full cache. -/
example : Inv (fun k : Key => k.2.1) (step (fun k : Key => k.2.1) { max := 1 } (.fill (0, 8, 3))).1 :=
  step_inv _ (fun e he => by simp at he) _
example : ((step (fun k : Key => k.2.1) (step (fun k : Key => k.2.1) { max := 1 } (.fill (0, 8, 3))).1 (.fill (1, 9, 3))).1.entries.map (·.key))
    = [(1, 9, 3)] := by decide

/-! ## temporal predicates -/

theorem C26_overlap_symm (s1 e1 s2 e2 : Int) : intervalsOverlap s1 e1 s2 e2 = intervalsOverlap s2 e2 s1 e1 := by
  unfold intervalsOverlap; exact Bool.and_comm _ _

/-- two well-formed intervals overlap iff they share a point. -/
theorem C26_overlap_iff (s1 e1 s2 e2 : Int) (h1 : s1 ≤ e1) (h2 : s2 ≤ e2) :
    intervalsOverlap s1 e1 s2 e2 = true ↔ ∃ t, s1 ≤ t ∧ t ≤ e1 ∧ s2 ≤ t ∧ t ≤ e2 := by
  unfold intervalsOverlap
  simp only [Bool.and_eq_true, decide_eq_true_eq]
  constructor
  · intro h; exact ⟨max s1 s2, by omega⟩
  · rintro ⟨t, h⟩; omega

example : intervalsOverlap 0 5 5 9 = true ∧ intervalsOverlap 0 4 5 9 = false := by decide

theorem C26_contains_refl (s e : Int) : intervalContains s e s e = true := by
  unfold intervalContains; simp

theorem C26_contains_trans (s1 e1 s2 e2 s3 e3 : Int)
    (h12 : intervalContains s1 e1 s2 e2 = true) (h23 : intervalContains s2 e2 s3 e3 = true) :
    intervalContains s1 e1 s3 e3 = true := by
  unfold intervalContains at *
  simp only [Bool.and_eq_true, decide_eq_true_eq] at *
  omega

example : intervalContains 0 10 1 9 = true ∧ intervalContains 1 9 2 8 = true := by decide

theorem C26_point_in_interval_iff (t s e : Int) : pointInInterval t s e = true ↔ s ≤ t ∧ t ≤ e := by
  unfold pointInInterval; simp

theorem C26_between_eq_point (t s e : Int) : timeBetween t s e = pointInInterval t s e := rfl

/-- a containing interval overlaps every non-empty interval it contains. -/
theorem C26_contains_overlap (s1 e1 s2 e2 : Int) (hne : s2 ≤ e2) (h : intervalContains s1 e1 s2 e2 = true) :
    intervalsOverlap s1 e1 s2 e2 = true := by
  unfold intervalContains at h; unfold intervalsOverlap
  simp only [Bool.and_eq_true, decide_eq_true_eq] at *
  omega

example : (2 : Int) ≤ 8 ∧ intervalContains 0 10 2 8 = true := by decide

/-- the saturating operations stay in the `i64` range and are exact whenever the exact result fits. -/
theorem C26_time_arith (a b : Int) :
    InI64 (timeAdd a b) ∧ InI64 (timeSub a b) ∧ InI64 (timeDiff a b) ∧
    (InI64 (a + b) → timeAdd a b = a + b) ∧ (InI64 (a - b) → timeSub a b = a - b ∧ timeDiff a b = a - b) := by
  unfold timeAdd timeSub timeDiff sat InI64 i64Min i64Max
  refine ⟨?_, ?_, ?_, ?_, ?_⟩ <;> (try intro h) <;> (repeat' split) <;> omega

/-- `within_last` means: the timestamp is not in the future and at most `d` old (saturated age). -/
theorem C26_within_last_iff (ts now d : Int) (h : InI64 (now - ts)) :
    withinLast ts now d = true ↔ ts ≤ now ∧ now - ts ≤ d := by
  unfold withinLast sat
  unfold InI64 at h
  simp only [Bool.and_eq_true, decide_eq_true_eq]
  split
  · omega
  · split <;> omega

/-! ## (a) distance laws over the float parameter -/

/-- symmetry of the five float distances (bit-identical results) for NaN-free inputs. -/
theorem C26_dist_symmetric (F : FloatOps) (L : FloatLaws F) (a b : List F.F32) (ha : NoNaN F a) (hb : NoNaN F b) :
    euclid F a b = euclid F b a ∧ euclidSq F a b = euclidSq F b a ∧ cosine F a b = cosine F b a ∧
    dot F a b = dot F b a ∧ manhattan F a b = manhattan F b a :=
  ⟨euclid_symm L a b ha hb, euclidSq_symm L a b ha hb, cosine_symm L a b ha hb, dot_symm L a b ha hb, manhattan_symm L a b ha hb⟩

/-- non-negativity (IEEE `0 ≤ d`, so in particular not NaN) for finite inputs, any lengths. -/
theorem C26_dist_nonneg (F : FloatOps) (L : FloatLaws F) (a b : List F.F32) (ha : AllFin F a) (hb : AllFin F b) :
    F.ge0_64 (euclid F a b) = true ∧ F.ge0_64 (euclidSq F a b) = true ∧ F.ge0_64 (manhattan F a b) = true :=
  ⟨euclid_ge0 L a b ha hb, euclidSq_ge0 L a b ha hb, manhattan_ge0 L a b ha hb⟩

/-- zero on identical finite inputs: exactly `+0.0` (`-0.0` for the empty vector). -/
theorem C26_dist_zero_identical (F : FloatOps) (L : FloatLaws F) (a : List F.F32) (ha : AllFin F a) :
    euclid F a a = (if a.isEmpty then F.negZero64 else F.zero64) ∧
    manhattan F a a = (if a.isEmpty then F.negZero64 else F.zero64) :=
  ⟨euclid_self L a ha, manhattan_self L a ha⟩

/-- cosine distance of equally long vectors: NaN, or within `[0, 2]`. -/
theorem C26_cosine_range (F : FloatOps) (L : FloatLaws F) (a b : List F.F32) (h : a.length = b.length) :
    F.isNaN64 (cosine F a b) = true ∨
      (F.le64 F.zero64 (cosine F a b) = true ∧ F.le64 (cosine F a b) F.two64 = true) :=
  cosine_range L a b h

/-- cosine distance of a vector to itself: the three accumulators coincide, so the result is
    `1 - clamp(s / (√s·√s))`; if that float expression is within `eps` of zero for every `s`
    (hypothesis `SqrtRoundTrip`, 2^-50 for binary64), so is `cosine a a` unless it is a NaN. -/
theorem C26_cosine_identical (F : FloatOps) (a : List F.F32) (eps : F.F64) (H : SqrtRoundTrip F eps)
    (hn : F.isNaN64 (cosine F a a) = false) : F.le64 (cosine F a a) eps = true :=
  cosine_self a eps H hn

/-- the hypotheses are satisfiable, non-trivially: exact integers satisfy the laws, and the theorems
    give the expected values there. -/
example : FloatLaws toyFloat := toyFloat_laws
example : toyVal (euclid toyFloat (toyVec [3, 0]) (toyVec [0, 4])) = 5 ∧ toyVal (euclid toyFloat (toyVec [0, 4]) (toyVec [3, 0])) = 5 := by decide
example : AllFin toyFloat (toyVec [3, -4]) ∧ NoNaN toyFloat (toyVec [3, -4]) := ⟨fun _ _ => rfl, fun _ _ => rfl⟩
example : toyVal (manhattan toyFloat (toyVec [3, -4]) (toyVec [3, -4])) = 0 ∧ toyVal (cosine toyFloat (toyVec [3, 4]) (toyVec [3, 4])) = 0 := by decide

/-- int8 distances accumulate in exact integers: symmetric for all inputs, zero accumulators on identical ones. -/
theorem C26_int8_symmetric (F : FloatOps) (a b : List Int) :
    euclidI8 F a b = euclidI8 F b a ∧ dotI8 F a b = dotI8 F b a ∧ manhattanI8 F a b = manhattanI8 F b a :=
  ⟨euclidI8_symm a b, dotI8_symm a b, manhattanI8_symm a b⟩

theorem C26_int8_zero_identical (F : FloatOps) (a : List Int) :
    euclidI8 F a a = F.sqrt64 (F.ofInt64 0) ∧ manhattanI8 F a a = F.ofInt64 0 :=
  ⟨euclidI8_self a, manhattanI8_self a⟩

/-- The part of "zero on identical inputs" that fails: int8 cosine distance. -/
def C26_int8_cosine_identical_statement : Prop :=
  ∀ (F : FloatOps) (a : List Int), cosineI8 F a a = F.zero64

/-- `cosine_distance_int8(0…0, 0…0) = 1.0` (vector_ops.rs:607) — refuted on the exact-integer instance. -/
theorem C26_int8_cosine_identical_refuted : ¬ C26_int8_cosine_identical_statement := by
  intro h
  have h1 := congrArg toyVal (h toyFloat [0, 0])
  exact absurd h1 (by decide)

/-- what holds instead: on an all-zero vector the result is the constant `1.0`. -/
theorem C26_int8_cosine_zero_vector (F : FloatOps) (n : Nat) :
    cosineI8 F (List.replicate n 0) (List.replicate n 0) = F.one64 := cosineI8_zero_self n

/-! ## (b) quantisation round trip, in exact arithmetic -/

/-- symmetric quantisation with scale `s` followed by division by `s` moves a value by at most
    half a quantisation step `1/s` (the code's `s` is `127 / max|v|`, its inverse `max|v| / 127`);
    the floating-point run adds the roundings of `127/m`, `x*s` and `q*(m/127)`, budgeted as
    `2^-10` step in the Spec oracle. -/
theorem C26_quant_roundtrip (x s : ℚ) (hs : 0 < s) : |x - (round (x * s) : ℚ) / s| ≤ 1 / (2 * s) :=
  quant_roundtrip x s hs

/-- the affine (linear/min-max) quantiser: `q = round((x-min)/range·255 - 128)`, inverse
    `min + (q+128)·range/255`. -/
theorem C26_quant_linear_roundtrip (x mn range : ℚ) (hr : 0 < range) :
    |x - (mn + ((round ((x - mn) / range * 255 - 128) : ℚ) + 128) * range / 255)| ≤ range / 255 / 2 :=
  quant_linear_roundtrip x mn range hr

example : |(0.3 : ℚ) - (round ((0.3 : ℚ) * 127) : ℚ) / 127| ≤ 1 / (2 * 127) := C26_quant_roundtrip _ _ (by norm_num)

end ILV.Props.C26
