/-
  C08 — Row limits only truncate the true answer.

  Model: `Engine.run` with `cfg.limit = n`: after **every** head that is not on the partitioned
  path the result is cut to the first `n` tuples of an emission order `ord` (a parameter: the order
  in which Differential Dataflow hands records to `inspect` is unspecified; code_generator:258-266,
  1203-1211; `set_max_result_rows` on every per-head generator, lib.rs:1652).
  Full statement false of the faithful model (`C08_refuted`: negation over a truncated
  intermediate head returns a tuple outside the unlimited answer). Proved:
  `C08_final_truncation` (what the limit does at the last head, any program) and `C08_partial`
  (programs with one head — the shape `__q(..) <- stored relations` — satisfy the property for
  every emission order that is a permutation).
-/
import ILV.Lemmas.WellFormed
import ILV.Drv.C08
namespace ILV.Props.C08
open ILV ILV.DL ILV.Engine

/-- switches off, one worker, row limit `n`. -/
def cfgL (n : Nat) : Cfg := { limit := n }

/-- emission orders: some permutation of the result. -/
def OrdPerm (ord : String → List Tuple → List Tuple) : Prop := ∀ h ts, (ord h ts).Perm ts

def C08_statement : Prop :=
  ∀ (p : Program) (edb : DB) (n : Nat) (hash : Tuple → Nat) (ord : String → List Tuple → List Tuple) (fuel : Nat)
    (R A : List Tuple) (acc acc' : DB),
    0 < n → OrdPerm ord →
    Engine.run (cfgL n) hash ord fuel p edb = .ok R acc →
    Engine.run (cfgL 0) hash ord fuel p edb = .ok A acc' →
    (∀ t, t ∈ R → t ∈ A) ∧ R.length = min n A.length

/-- `a(X) <- n(X), X > 1.  b(X) <- n(X), !a(X).  q(X) <- b(X)` over n = {1,2,3,4}, limit 2. -/
def negOverTruncated : Program := [
  { hrel := "a", hargs := [.var "X"], body := [.pos ⟨"n", [.var "X"]⟩, .cmp .gt (.var "X") (.const 1)] },
  { hrel := "b", hargs := [.var "X"], body := [.pos ⟨"n", [.var "X"]⟩, .neg ⟨"a", [.var "X"]⟩] },
  { hrel := "q", hargs := [.var "X"], body := [.pos ⟨"b", [.var "X"]⟩] } ]
def four : DB := [("n", [[.i64 1], [.i64 2], [.i64 3], [.i64 4]])]

theorem C08_refuted : ¬ C08_statement := by
  intro h
  have hl : Engine.run (cfgL 2) (fun _ => 0) (fun _ ts => ts) 4 negOverTruncated four =
      .ok [[.i64 1], [.i64 4]] [("q", [[.i64 1], [.i64 4]]), ("b", [[.i64 1], [.i64 4]]), ("a", [[.i64 2], [.i64 3]])] := by decide
  have hu : Engine.run (cfgL 0) (fun _ => 0) (fun _ ts => ts) 4 negOverTruncated four =
      .ok [[.i64 1]] [("q", [[.i64 1]]), ("b", [[.i64 1]]), ("a", [[.i64 2], [.i64 3], [.i64 4]])] := by decide
  have := (h negOverTruncated four 2 _ _ 4 _ _ _ _ (by decide) (fun _ _ => List.Perm.refl _) hl hu).1 [.i64 4] (by decide)
  revert this; decide

example : Drv.C08.limitTruncatesIntermediate (cfgL 2) negOverTruncated four = true := by decide

theorem take_perm_props {ts o : List Tuple} (n : Nat) (hp : o.Perm ts) :
    (∀ t, t ∈ o.take n → t ∈ ts) ∧ (o.take n).length = min n ts.length := by
  refine ⟨fun t ht => hp.subset (List.mem_of_mem_take ht), ?_⟩
  rw [List.length_take, hp.length_eq]

/-- **What the limit does at the last head, for every program**: in a successful limited run, the
    answer is the first `n` tuples (in emission order) of the last head's evaluation `T` over the
    accumulated intermediates — so it is a subset of `T` of size `min n |T|`; nothing is invented at
    this step. (Whether `T` is the true answer depends on the intermediates having been truncated.) -/
theorem C08_final_truncation (n : Nat) (hash : Tuple → Nat) (ord : String → List Tuple → List Tuple) (hord : OrdPerm ord)
    (fuel : Nat) (p : Program) (edb : DB) :
    ∀ (order : List String) (acc : DB) (last R : List Tuple) (acc' : DB), order ≠ [] →
      execLoop (cfgL n) hash ord fuel p edb order acc last = .ok R acc' →
      ∃ (g : String) (acc0 : DB) (T : List Tuple), order.getLast? = some g ∧
        evalHead (cfgL n) hash fuel p (lkOf edb acc0) g = some T ∧
        ((∀ t, t ∈ R → t ∈ T) ∧ (0 < n → R.length = min n T.length) ∧ (n = 0 → R = T))
  | [], _, _, _, _, hne, _ => absurd rfl hne
  | [h], acc, last, R, acc', _, hr => by
    unfold execLoop at hr
    cases hev : evalHead (cfgL n) hash fuel p (lkOf edb acc) h with
    | none => rw [hev] at hr; simp at hr
    | some ts =>
      rw [hev] at hr
      simp only [execLoop, Outcome.ok.injEq] at hr
      obtain ⟨rfl, _⟩ := hr
      refine ⟨h, acc, ts, rfl, hev, ?_⟩
      have hlim : limited (cfgL n) p h = decide (n > 0) := by simp [limited, cfgL]
      rw [hlim]
      by_cases hn : 0 < n
      · simp only [hn, decide_true, if_true]
        have := take_perm_props n (hord h ts)
        exact ⟨this.1, fun _ => this.2, fun h0 => by omega⟩
      · have h0 : n = 0 := by omega
        subst h0
        simp
  | h :: g :: rest, acc, last, R, acc', _, hr => by
    unfold execLoop at hr
    cases hev : evalHead (cfgL n) hash fuel p (lkOf edb acc) h with
    | none => rw [hev] at hr; simp at hr
    | some ts =>
      rw [hev] at hr
      obtain ⟨g', acc0, T, hg, hT, hprops⟩ := C08_final_truncation n hash ord hord fuel p edb (g :: rest) _ _ R acc' (by simp) hr
      exact ⟨g', acc0, T, by simpa [List.getLast?_cons_cons] using hg, hT, hprops⟩

/-- **C08 for programs with a single head** (no intermediate head exists): for every limit,
    partitioner, fuel and every emission order that is a permutation, the limited answer is a
    subset of the unlimited answer of size `min n |A|`. -/
theorem C08_partial (p : Program) (edb : DB) (n : Nat) (hash : Tuple → Nat) (ord : String → List Tuple → List Tuple)
    (fuel : Nat) (R A : List Tuple) (acc acc' : DB) (q : String)
    (hn : 0 < n) (hord : OrdPerm ord) (hone : execOrder p = [q])
    (hl : Engine.run (cfgL n) hash ord fuel p edb = .ok R acc)
    (hu : Engine.run (cfgL 0) hash ord fuel p edb = .ok A acc') :
    (∀ t, t ∈ R → t ∈ A) ∧ R.length = min n A.length := by
  have hl' := run_loop _ _ _ _ _ _ _ _ hl
  have hu' := run_loop _ _ _ _ _ _ _ _ hu
  rw [hone] at hl' hu'
  unfold execLoop at hl' hu'
  have hsame : evalHead (cfgL n) hash fuel p (lkOf edb []) q = evalHead (cfgL 0) hash fuel p (lkOf edb []) q := rfl
  rw [hsame] at hl'
  cases hev : evalHead (cfgL 0) hash fuel p (lkOf edb []) q with
  | none => rw [hev] at hu'; simp at hu'
  | some ts =>
    rw [hev] at hl' hu'
    simp only [execLoop, Outcome.ok.injEq] at hl' hu'
    obtain ⟨rfl, _⟩ := hl'
    obtain ⟨rfl, _⟩ := hu'
    have hlim : limited (cfgL n) p q = true := by simp [limited, cfgL, hn]
    have hlim0 : limited (cfgL 0) p q = false := by simp [limited, cfgL]
    rw [hlim, hlim0]
    simp only [if_true, Bool.false_eq_true, if_false]
    exact take_perm_props n (hord q ts)

/-- a one-head query with a join and a comparison over 5 facts, limit 2, reversed emission order. -/
def oneHead : Program := [
  { hrel := "q", hargs := [.var "X", .var "Z"],
    body := [.pos ⟨"e", [.var "X", .var "Y"]⟩, .pos ⟨"e", [.var "Y", .var "Z"]⟩, .cmp .ne (.var "X") (.var "Z")] } ]
def ring : DB := [("e", [[.i64 0, .i64 1], [.i64 1, .i64 2], [.i64 2, .i64 3], [.i64 3, .i64 0], [.i64 0, .i64 2]])]

example : execOrder oneHead = ["q"] ∧
    (Engine.run (cfgL 2) (fun _ => 0) (fun _ ts => ts.reverse) 4 oneHead ring).toWire = "i64:0,i64:3;i64:3,i64:2" ∧
    (Engine.run (cfgL 0) (fun _ => 0) (fun _ ts => ts.reverse) 4 oneHead ring).toWire
      = "i64:0,i64:2;i64:0,i64:3;i64:1,i64:3;i64:2,i64:0;i64:3,i64:1;i64:3,i64:2" := by
  decide

example : OrdPerm (fun _ ts => ts.reverse) := fun _ ts => List.reverse_perm ts

end ILV.Props.C08
