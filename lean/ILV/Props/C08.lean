/-
  C08 — Row limits only truncate the true answer.

  Model: `Engine.run` with `cfg.limit = n` (after fixes/C08-limit_truncates_intermediate_head.diff):
  `max_result_rows` is set on the generator of the **last executed head only** (lib.rs:1652); the
  capture keeps the first `n` records `inspect` sees (code_generator:258-266, 1203-1211), i.e.
  `(ord q ts).take n` for an emission order `ord` (a parameter: Differential Dataflow's order is
  unspecified). Intermediate heads — user views and the relations SIP introduces — are evaluated
  in full.
-/
import ILV.Lemmas.WellFormed
import ILV.Drv.C08
namespace ILV.Props.C08
open ILV ILV.DL ILV.Engine

/-- switches off, one worker, row limit `n`. -/
def cfgL (n : Nat) : Cfg := { limit := n }

/-- emission orders: some permutation of the result. -/
def OrdPerm (ord : String → List Tuple → List Tuple) : Prop := ∀ h ts, (ord h ts).Perm ts

def C08_statement : Prop :=
  ∀ (p : Program) (edb : DB) (n : Nat) (hash : Tuple → Nat) (ord : String → List Tuple → List Tuple) (fuel : Nat)
    (R A : List Tuple) (acc acc' : DB),
    0 < n → OrdPerm ord →
    Engine.run (cfgL n) hash ord fuel p edb = .ok R acc →
    Engine.run (cfgL 0) hash ord fuel p edb = .ok A acc' →
    (∀ t, t ∈ R → t ∈ A) ∧ R.length = min n A.length

/-- `a(X) <- n(X), X > 1.  b(X) <- n(X), !a(X).  q(X) <- b(X)` over n = {1,2,3,4}, limit 2:
    the former counterexample. -/
def negOverTruncated : Program := [
  { hrel := "a", hargs := [.var "X"], body := [.pos ⟨"n", [.var "X"]⟩, .cmp .gt (.var "X") (.const 1)] },
  { hrel := "b", hargs := [.var "X"], body := [.pos ⟨"n", [.var "X"]⟩, .neg ⟨"a", [.var "X"]⟩] },
  { hrel := "q", hargs := [.var "X"], body := [.pos ⟨"b", [.var "X"]⟩] } ]
def four : DB := [("n", [[.i64 1], [.i64 2], [.i64 3], [.i64 4]])]

example : Engine.run (cfgL 2) (fun _ => 0) (fun _ ts => ts) 4 negOverTruncated four =
    .ok [[.i64 1]] [("q", [[.i64 1]]), ("b", [[.i64 1]]), ("a", [[.i64 2], [.i64 3], [.i64 4]])] := by decide

theorem take_perm_props {ts o : List Tuple} (n : Nat) (hp : o.Perm ts) :
    (∀ t, t ∈ o.take n → t ∈ ts) ∧ (o.take n).length = min n ts.length := by
  refine ⟨fun t ht => hp.subset (List.mem_of_mem_take ht), ?_⟩
  rw [List.length_take, hp.length_eq]

theorem execLoop_limit (n : Nat) (hn : 0 < n) (hash : Tuple → Nat) (ord : String → List Tuple → List Tuple)
    (hord : OrdPerm ord) (fuel : Nat) (p : Program) (edb : DB) :
    ∀ (order : List String) (acc : DB) (last R A : List Tuple) (accn acc0 : DB), order ≠ [] →
      execLoop (cfgL n) hash ord fuel p edb order acc last = .ok R accn →
      execLoop (cfgL 0) hash ord fuel p edb order acc last = .ok A acc0 →
      (∀ t, t ∈ R → t ∈ A) ∧ R.length = min n A.length
  | [], _, _, _, _, _, _, hne, _, _ => absurd rfl hne
  | [h], acc, last, R, A, accn, acc0, _, hl, hu => by
    unfold execLoop at hl hu
    have hsame : evalHead (cfgL n) hash fuel p (lkOf edb acc) h = evalHead (cfgL 0) hash fuel p (lkOf edb acc) h := rfl
    rw [hsame] at hl
    cases hev : evalHead (cfgL 0) hash fuel p (lkOf edb acc) h with
    | none => rw [hev] at hu; simp at hu
    | some ts =>
      rw [hev] at hl hu
      simp only [execLoop, Outcome.ok.injEq] at hl hu
      obtain ⟨rfl, _⟩ := hl
      obtain ⟨rfl, _⟩ := hu
      have hlim : limited (cfgL n) p h = true := by simp [limited, cfgL, hn]
      have hlim0 : limited (cfgL 0) p h = false := by simp [limited, cfgL]
      simp only [hlim, hlim0, List.isEmpty_nil, Bool.and_self, Bool.and_false, if_true, Bool.false_eq_true, if_false]
      exact take_perm_props n (hord h ts)
  | h :: g :: rest, acc, last, R, A, accn, acc0, _, hl, hu => by
    unfold execLoop at hl hu
    have hsame : evalHead (cfgL n) hash fuel p (lkOf edb acc) h = evalHead (cfgL 0) hash fuel p (lkOf edb acc) h := rfl
    rw [hsame] at hl
    cases hev : evalHead (cfgL 0) hash fuel p (lkOf edb acc) h with
    | none => rw [hev] at hu; simp at hu
    | some ts =>
      rw [hev] at hl hu
      simp only [List.isEmpty_cons, Bool.false_and, Bool.false_eq_true, if_false] at hl hu
      exact execLoop_limit n hn hash ord hord fuel p edb (g :: rest) _ _ R A accn acc0 (by simp) hl hu

/-- **C08, for all programs**: for every limit `n > 0`, partitioner, fuel and every emission order
    that is a permutation, the limited answer is a subset of the unlimited answer and has exactly
    `min n |A|` rows. -/
theorem C08 : C08_statement := by
  intro p edb n hash ord fuel R A acc acc' hn hord hl hu
  have hl' := run_loop _ _ _ _ _ _ _ _ hl
  have hu' := run_loop _ _ _ _ _ _ _ _ hu
  by_cases hne : execOrder p = []
  · -- no head: both runs answer the empty initial result
    rw [hne] at hl' hu'
    simp only [execLoop, Outcome.ok.injEq] at hl' hu'
    obtain ⟨rfl, _⟩ := hl'
    obtain ⟨rfl, _⟩ := hu'
    simp
  · exact execLoop_limit n hn hash ord hord fuel p edb (execOrder p) [] [] R A acc acc' hne hl' hu'

/-- a one-head query with a join and a comparison over 5 facts, limit 2, reversed emission order. -/
def oneHead : Program := [
  { hrel := "q", hargs := [.var "X", .var "Z"],
    body := [.pos ⟨"e", [.var "X", .var "Y"]⟩, .pos ⟨"e", [.var "Y", .var "Z"]⟩, .cmp .ne (.var "X") (.var "Z")] } ]
def ring : DB := [("e", [[.i64 0, .i64 1], [.i64 1, .i64 2], [.i64 2, .i64 3], [.i64 3, .i64 0], [.i64 0, .i64 2]])]

example :
    (Engine.run (cfgL 2) (fun _ => 0) (fun _ ts => ts.reverse) 4 oneHead ring).toWire = "i64:0,i64:3;i64:3,i64:2" ∧
    (Engine.run (cfgL 0) (fun _ => 0) (fun _ ts => ts.reverse) 4 oneHead ring).toWire
      = "i64:0,i64:2;i64:0,i64:3;i64:1,i64:3;i64:2,i64:0;i64:3,i64:1;i64:3,i64:2" := by
  decide

example : OrdPerm (fun _ ts => ts.reverse) := fun _ ts => List.reverse_perm ts

end ILV.Props.C08
