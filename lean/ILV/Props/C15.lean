/-
  C15 — Concurrent writes are serializable and durable (persist layer).
  Model: ILV.Model.PStep — one atomic step per lock-protected region of `FilePersist::append` / `flush`
  (src/storage/persist/mod.rs:400-462, 581-620), any number of threads, any programs, any schedule;
  a crash may happen at any step boundary (`trace` lists every visited state).
  Helper lemmas (the inductive invariant) are in ILV.Lemmas.PStep.
-/
import ILV.Lemmas.PStep
namespace ILV.Props.C15
open ILV ILV.PStep

/-- every update of an append that has returned Ok is served after a restart from the disk state -/
def Durable (st : State) : Prop := ∀ s u, u ∈ acked st s → u ∈ recovered st s

/-- full statement: for all buffer sizes, programs, thread counts and schedules, at every step
    boundary (= every possible crash point) no acknowledged update is lost. -/
def C15_statement : Prop :=
  ∀ (cfg : Cfg) (progs : List (List Op)) (pre : List Shard) (sched : List Tid),
    ∀ st ∈ trace cfg (init progs pre) sched, Durable st

/-! The code violates it: thread 0 appends update 1 (complete), starts appending update 2 and stops
    after its WAL section; thread 1 flushes the shard — `remove_shard_entries` rewrites the WAL without
    *any* entry of the shard, including the line of update 2; thread 0 pushes 2 into the buffer and
    returns Ok. Update 2 is now in no file. -/
def witnessCfg : Cfg := { bufSize := 100, fine := false }
def witnessProgs : List (List Op) := [[.append 0 [1], .append 0 [2]], [.flush 0]]
def witnessSched : List Tid := [0, 0, 0, 0, 1, 0, 0]

theorem C15_refuted : ¬ C15_statement := by
  intro h
  have h1 := h witnessCfg witnessProgs [] witnessSched _ (lastState_mem _ _ _) 0 2
  have hacked : 2 ∈ acked (lastState witnessCfg (init witnessProgs []) witnessSched) 0 := by decide
  have hlost : ¬ 2 ∈ recovered (lastState witnessCfg (init witnessProgs []) witnessSched) 0 := by decide
  exact hlost (h1 hacked)

/-- the witness is of the known-finding class -/
example : hazardous witnessCfg (init witnessProgs []) witnessSched = true := by decide

/-- Partial result: the only way to lose an acknowledged update is the hazard "a flush rewrites the
    WAL of shard `s` while another thread stands between its WAL append and its buffer push for `s`"
    (`hazardous`, a decidable predicate of the schedule). For every other schedule — any number of
    threads, any programs, any buffer size, either granularity — every state visited is durable. -/
theorem C15_partial (cfg : Cfg) (progs : List (List Op)) (pre : List Shard) (sched : List Tid)
    (hz : hazardous cfg (init progs pre) sched = false) :
    ∀ st ∈ trace cfg (init progs pre) sched, Durable st := by
  intro st hst s u hu
  exact inv_durable (trace_inv cfg sched _ (inv_init progs pre) hz st hst) s u hu

/-- hypotheses are satisfiable by an interleaved, non-trivial schedule: the same programs, but the
    flush runs before thread 0 starts its second append; an auto-flush (buffer size 1) is included. -/
example : hazardous { bufSize := 1, fine := true } (init witnessProgs []) [0, 0, 1, 1, 0, 0, 0, 0, 0] = false := by decide
example : acked (lastState { bufSize := 1, fine := true } (init witnessProgs []) [0, 0, 1, 1, 0, 0, 0, 0, 0]) 0 = [1, 2] := by decide

/-- Served state (no crash): what `read` returns for a shard is the concatenation of the appended
    batches in the order of their buffer sections — every append takes effect atomically, exactly
    once, and flushes never change what is served. Holds for every schedule (including hazardous ones),
    so the *served* state is always the result of running the appends sequentially in that order. -/
theorem C15_served_serializable (cfg : Cfg) (st : State) (sched : List Tid) (s : Shard) :
    served (lastState cfg st sched) s = served st s ++ linearized cfg st sched s :=
  served_linearized cfg sched st s

example : served (lastState witnessCfg (init witnessProgs []) witnessSched) 0 = [1, 2] := by decide
example : linearized witnessCfg (init witnessProgs []) witnessSched 0 = [1, 2] := by decide

end ILV.Props.C15
