/-
  C14 — maintenance operations are invisible.
  Model: ILV.Model.Store (buffer-full flush, WAL-size `flush_all`, `save_all`, `save_knowledge_graph`,
  `compact_all`, `compact_if_needed`, three durability modes, clean shutdown = `save_all` + reopen).
  Lemmas: ILV.Lemmas.StoreInv (`flush_spec`, `compactShard_spec`, `saveAll_spec`, …), ILV.Lemmas.Maintenance.
-/
import ILV.Lemmas.Maintenance
import ILV.Lemmas.RealCodec
namespace ILV.Props.C14
open ILV ILV.Batch ILV.Store ILV.Props.C31

/-- the history consists of writes, maintenance steps and observations (restarts are added at the end). -/
def NoRestart (h : List Op) : Prop := ∀ o ∈ h, isRestart o = false
/-- every tuple named by a request is admissible (codec is the identity on it, C12). -/
def AllGood (G : String → Tuple → Prop) (h : List Op) : Prop := ∀ o ∈ h, opGood G o

/-- **one maintenance step changes neither what is served nor what a restart would recover**: live
    relations and arities are literally equal, and the update log keeps every per-tuple sum — for flush
    by `save`, `savekg`, `compact`, `compactif n`, any configuration. -/
theorem C14_step (c : Codec) (G : String → Tuple → Prop) (hc : CodecOk c G) (e : Engine) (o : Op) (hP : PInv G e)
    (hw : isWrite o = false) (hr : isRestart o = false) :
    (step c e o).live = e.live ∧ (step c e o).arity = e.arity ∧
    ∀ r t, sumOf t (logOf (step c e o) r) = sumOf t (logOf e r) := by
  obtain ⟨_, a, _⟩ := step_maint hc e o hP hw hr
  exact ⟨a.live.symm, a.arity.symm, fun r t => (a.sums r t).symm⟩

/-- **C14.** Two histories with the same writes — maintenance steps (flush by save, compaction, and
    the implicit buffer-full and WAL-size flushes) inserted anywhere, under *any* two configurations
    (buffer size, WAL limit, durability mode) — serve the same relations while running (equal vectors)
    and, after a clean shutdown, reopen successfully with the same contents. For every codec that is the
    identity on the admissible tuples (C12), relative to C31 through `mem_recover_iff`. -/
theorem C14 (c : Codec) (G : String → Tuple → Prop) (hc : CodecOk c G) (hwf : ∀ r t, G r t → TupleWF t)
    (cfg1 cfg2 : Cfg) (h1 h2 : List Op) (hw : writesOf h1 = writesOf h2)
    (hr1 : NoRestart h1) (hr2 : NoRestart h2) (hg1 : AllGood G h1) (hg2 : AllGood G h2) (r : String) :
    liveOf (run c cfg1 h1) r = liveOf (run c cfg2 h2) r ∧
    (restart c (saveAll c (run c cfg1 h1)).1).2 = none ∧ (restart c (saveAll c (run c cfg2 h2)).1).2 = none ∧
    ∀ t, t ∈ liveOf (restart c (saveAll c (run c cfg1 h1)).1).1 r ↔ t ∈ liveOf (restart c (saveAll c (run c cfg2 h2)).1).1 r := by
  have i0 : ∀ cfg : Cfg, PInv G ({ cfg := cfg } : Engine) := fun cfg => (Inv_init G cfg).p
  have a0 : AbsEq ({ cfg := cfg1 } : Engine) { cfg := cfg1 } := AbsEq.refl _
  obtain ⟨p1, q1, e1, _⟩ := run_vs_writes hc h1 { cfg := cfg1 } { cfg := cfg1 } (i0 cfg1) (i0 cfg1) a0 hr1 hg1
  have a12 : AbsEq ({ cfg := cfg2 } : Engine) { cfg := cfg1 } := ⟨rfl, rfl, fun _ _ => rfl⟩
  obtain ⟨p2, q2, e2, _⟩ := run_vs_writes hc h2 { cfg := cfg2 } { cfg := cfg1 } (i0 cfg2) (i0 cfg1) a12 hr2 hg2
  rw [← hw] at e2
  have ab : AbsEq (run c cfg1 h1) (run c cfg2 h2) := e1.trans e2.symm
  have p1' : PInv G (run c cfg1 h1) := p1
  have p2' : PInv G (run c cfg2 h2) := p2
  refine ⟨by simp [liveOf, ab.live], (shutdown_live hc hwf (run c cfg1 h1) p1' r []).1,
    (shutdown_live hc hwf (run c cfg2 h2) p2' r []).1, ?_⟩
  intro t
  rw [(shutdown_live hc hwf (run c cfg1 h1) p1' r t).2, (shutdown_live hc hwf (run c cfg2 h2) p2' r t).2, ab.sums]

/-- **C14 for the code's own codec**: relations with homogeneous safe-kind columns `ks` (C12). -/
theorem C14_real (ks : String → List DType) (cfg1 cfg2 : Cfg) (h1 h2 : List Op) (hw : writesOf h1 = writesOf h2)
    (hr1 : NoRestart h1) (hr2 : NoRestart h2) (hg1 : AllGood (Admissible ks) h1) (hg2 : AllGood (Admissible ks) h2) (r : String) :
    liveOf (run realCodec cfg1 h1) r = liveOf (run realCodec cfg2 h2) r ∧
    (restart realCodec (saveAll realCodec (run realCodec cfg1 h1)).1).2 = none ∧
    (restart realCodec (saveAll realCodec (run realCodec cfg2 h2)).1).2 = none ∧
    ∀ t, t ∈ liveOf (restart realCodec (saveAll realCodec (run realCodec cfg1 h1)).1).1 r ↔
         t ∈ liveOf (restart realCodec (saveAll realCodec (run realCodec cfg2 h2)).1).1 r :=
  C14 realCodec (Admissible ks) (realCodec_ok ks) (Admissible_wf ks) cfg1 cfg2 h1 h2 hw hr1 hr2 hg1 hg2 r

instance (h : List Op) : Decidable (NoRestart h) := by unfold NoRestart; infer_instance
instance (ks : String → List DType) (o : Op) : Decidable (opGood (Admissible ks) o) := by cases o <;> simp only [opGood] <;> infer_instance
instance (ks : String → List DType) (h : List Op) : Decidable (AllGood (Admissible ks) h) := by unfold AllGood; infer_instance

def ks2 : String → List DType := fun _ => [.i64, .i64]

def t12 : Tuple := [.i64 1, .i64 2]
def t13 : Tuple := [.i64 1, .i64 3]
def hA : List Op := [.ins "r" [t12, t13], .save, .ins "r" [t12], .del "r" [t13], .compact, .del "r" [t13], .compactIf 1, .ins "s" [t12]]
def hB : List Op := [.ins "r" [t12, t13], .ins "r" [t12], .del "r" [t13], .del "r" [t13], .ins "s" [t12]]

/-- the hypotheses are met by a non-trivial pair (duplicate insert, absent delete, flushes at buffer
    size 1 with a 1-byte WAL limit in batched mode versus the plain history in async mode). -/
example : writesOf hA = writesOf hB ∧ NoRestart hA ∧ NoRestart hB := by decide
example : AllGood (Admissible ks2) hA ∧ AllGood (Admissible ks2) hB := by decide
/-- and the conclusion is visible on the executable model. -/
example : liveOf (run realCodec { buffer := 1, walMax := 1, mode := .batched } hA) "r" = [t12] ∧
    liveOf (run realCodec { mode := .async } hB) "r" = [t12] := by decide

end ILV.Props.C14
