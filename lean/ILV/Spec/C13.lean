/-
  C13 Spec — "acknowledged writes survive any crash and recovery always succeeds", stated on the observable run
  (`ILV.Persist.Out`) with no reference to how the persist layer works: relations are sets; an insert adds its
  tuples, a delete removes them, a relation drop removes the relation, flush / compaction change nothing.
  After a crash the reopened engine must serve the state of the acknowledged operations, or that state plus the one
  operation that was in flight (a crash during recovery keeps the same obligation).
-/
import ILV.Model.Persist
namespace ILV.Spec.C13
open ILV.Persist

abbrev SpecSt := List (Name × List Nat)      -- sorted by relation, tuples sorted, no empty relations

def specGet (s : SpecSt) (r : Name) : List Nat :=
  match s with
  | [] => []
  | (q, ts) :: rest => if q = r then ts else specGet rest r

def specPut (s : SpecSt) (r : Name) (ts : List Nat) : SpecSt :=
  let s' := s.filter (fun e => e.1 ≠ r)
  if ts = [] then s' else insertRel (r, ts) s'

def specApply (s : SpecSt) : EOp → SpecSt
  | .ins r ts => specPut s r (ts.foldr insertNat (specGet s r))
  | .del r ts => specPut s r ((specGet s r).filter (fun t => t ∉ ts))
  | .dropRel r => specPut s r []
  | .flushAll _ _ => s
  | .compactAll _ => s

def hasDup : List Nat → Bool
  | [] => false
  | t :: ts => decide (t ∈ ts) || hasDup ts

/-- inputs on which the log / live-set divergence of C11 (re-insert of a present tuple, delete of an absent one, a
    repeated tuple inside one request) makes "the acknowledged state" ambiguous: C13 abstains from there on. -/
def c11Shape (s : SpecSt) : EOp → Bool
  | .ins r ts => ts.any (fun t => decide (t ∈ specGet s r)) || hasDup ts
  | .del r ts => ts.any (fun t => decide (t ∉ specGet s r)) || hasDup ts
  | _ => false

/-- judge a run against the Spec: `s` = state of the acknowledged operations, `p` = state if the operation in
    flight at the last crash took effect. -/
def specJudge : SpecSt → Option SpecSt → List HItem → List Out → Bool
  | _, _, _, [] => true
  | s, p, items, .opened v _ :: outs => (decide (v = s) || decide (p = some v)) && specJudge v none items outs
  | _, _, _, .openFailed :: _ => false
  | s, p, .op o :: items, .ack ok _ _ :: outs =>
    if c11Shape s o then true else specJudge (if ok then specApply s o else s) p items outs
  | s, _, .opCrash o _ _ :: items, .crashed _ :: outs =>
    if c11Shape s o then true else specJudge s (some (specApply s o)) items outs
  | s, p, _ :: items, .crashed _ :: outs => specJudge s p items outs
  | _, _, _, _ :: _ => true

end ILV.Spec.C13
