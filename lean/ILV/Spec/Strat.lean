/-
  C34 — Spec vocabulary: paths in a signed dependency graph, "a negative edge lies on a cycle",
  and the textbook notion of a stratification (a rank function).  Nothing here refers to how the
  code decides anything.
-/
import ILV.Model.Strat
namespace ILV.Strat

/-- `Reach g a b`: there is a directed path (possibly empty) from `a` to `b` along edges of `g`,
    positive or negative alike. -/
inductive Reach (g : Graph) : Nat → Nat → Prop
  | refl (a : Nat) : Reach g a a
  | step (e : Edge) (c : Nat) : e ∈ g → Reach g e.dst c → Reach g e.src c

/-- recursion through negation: some negative edge `a ¬→ b` closes a cycle `b →* a`. -/
def NegCycle (g : Graph) : Prop := ∃ e, e ∈ g ∧ e.neg = true ∧ Reach g e.dst e.src

/-- a stratification: positive dependencies do not increase the stratum, negative ones strictly decrease it. -/
def IsStratification (g : Graph) (rank : Nat → Nat) : Prop :=
  ∀ e, e ∈ g → rank e.dst ≤ rank e.src ∧ (e.neg = true → rank e.dst < rank e.src)

end ILV.Strat
