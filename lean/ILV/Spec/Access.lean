/-
  Spec vocabulary of C27 / C29 over the handler model's event trace.
  An `Event` = a statement that was run + the KG that was current when it ran.
  `allowed` is the property's own reading of "the caller's global role and the caller's role on the
  knowledge graph that statement acts on both permit it", using the permission tables of C28 and the
  ACL rows stored in the world — it does not mention how `execute_program` decides.
-/
import ILV.Model.Handler
namespace ILV.Spec.Access
open ILV ILV.Handler ILV.Text ILV.Gen.C28

/-- the KG a statement acts on when it runs with current KG `cur`: the named KG for `.kg use/drop` and
    `.kg acl …`; none for commands that touch no KG (`.kg create/list/show`, `.help`, `.quit`, `.status`);
    otherwise the current KG. (Same reading as the documentation of the per-KG layer, auth.rs:326-342.) -/
def actsOn (st : Stmt) (cur : String) : Option String := targetKg st (some cur)

/-- identity `(u, r)` may run event `e` in world `w` -/
def allowed (w : World) (u : String) (r : Role) (e : Event) : Bool :=
  globalOk r e.stmt.kind &&
  (r == Role.admin ||
   match actsOn e.stmt e.kg with
   | none => true
   | some kg =>
     match kgRoleFor w kg u r with
     | some kr => kgOk kr e.stmt.kind
     | none => false)

/-- the event reads, writes, switches to, creates or drops the internal KG -/
def touchesInternal (e : Event) : Bool :=
  e.kg == INTERNAL || actsOn e.stmt e.kg == some INTERNAL ||
  (match e.stmt.kind, e.stmt.eff with
   | .kgCreate, .name n => n == INTERNAL
   | _, _ => false)

/-- the KG the gates of `execute_program` take as current -/
def curKgOf (w : World) (rq : Req) : Option String := currentKg rq.kgArg (sessOf w rq)

/-! input classes (decidable predicates on the request) -/

/-- one physical line -/
def singleLine (rq : Req) : Bool := !rq.text.contains '\n'

/-- a `?…` request that carries both a session id and an explicit KG: the explicit KG is gated, the
    session's KG is queried -/
def sessionQueryWithKgArg (w : World) (rq : Req) : Bool :=
  startsWithChar '?' (trim rq.text) && (sessOf w rq).isSome && rq.kgArg.isSome

/-- neither an explicit KG nor a live session: the per-KG gate has no KG to check, execution falls
    back to the storage default -/
def noTargetKg (w : World) (rq : Req) : Bool := (curKgOf w rq).isNone

end ILV.Spec.Access
