/-
  Spec vocabulary for C28 (and reused by C27/C29): which statement kinds change persistent
  state, which are system administration. Hand-written from the documented effect of each
  statement (docs of `Statement` / `MetaCommand`, src/statement/mod.rs:30, src/statement/meta.rs:7),
  *not* from the authorization code. `StmtKind` itself is regenerated from /repo, so a new variant
  makes these matches non-exhaustive and the build fails until it is classified here.
-/
import ILV.Gen.C28
namespace ILV.Spec.Auth
open ILV.Gen.C28

/-- The statement changes persistent state of the knowledge graph it acts on (facts, rules,
    schemas, types, indexes, ACLs of that KG) or drops the KG. Session-scoped statements
    (`SessionRule`, `Fact` = session fact, `.session *`), navigation (`.kg use`), and read-only
    commands do not. -/
def mutatesKg : StmtKind → Bool
  | .insert | .delete | .update | .persistentRule | .schemaDecl | .typeDecl
  | .deleteRelationOrRule => true
  | .kgDrop | .relDrop | .ruleDrop | .ruleDropPrefix | .ruleEdit | .ruleClear | .ruleRemove
  | .indexCreate | .indexDrop | .indexRebuild | .clearPrefix | .load
  | .kgAclGrant | .kgAclRevoke => true
  | .query | .sessionRule | .fact => false
  | .kgShow | .kgList | .kgCreate | .kgUse | .relList | .relDescribe | .ruleList | .ruleQuery
  | .ruleShowDef | .sessionList | .sessionClear | .sessionDrop | .sessionDropName | .indexList
  | .indexStats | .compact | .status | .debug | .why | .whyFull | .whyNot | .agentMessage
  | .agentStart | .agentSetup | .agentExamples | .help | .quit | .userList | .userCreate
  | .userDrop | .userPassword | .userRole | .apiKeyCreate | .apiKeyList | .apiKeyRevoke
  | .kgAclList => false

/-- User, API-key management and compaction: "only admins". -/
def adminOnly : StmtKind → Bool
  | .compact | .userList | .userCreate | .userDrop | .userPassword | .userRole
  | .apiKeyCreate | .apiKeyList | .apiKeyRevoke => true
  | _ => false

/-- The statement changes state that belongs to no single KG (the set of KGs, users, keys, storage
    layout): what the *global* viewer role must never permit. -/
def mutatesSystem : StmtKind → Bool
  | .kgCreate | .compact | .userCreate | .userDrop | .userPassword | .userRole
  | .apiKeyCreate | .apiKeyRevoke => true
  | _ => false

/-- changes any persistent state at all -/
def mutates (k : StmtKind) : Bool := mutatesKg k || mutatesSystem k

/-- The effective permission of the two-layer scheme (src/auth.rs:326-342): the global gate, and
    for non-admins the per-KG gate. -/
def permitted (r : Role) (kr : KgRole) (k : StmtKind) : Bool :=
  globalOk r k && (r == .admin || kgOk kr k)

/-- Spec oracle for one table row as the implementation reported it:
    verdicts `gA gE gV` (global admin/editor/viewer) and `kO kE kV` (KG owner/editor/viewer).
    Returns the name of the first violated clause. -/
def rowViolation (k : StmtKind) (gA gE gV kO kE kV : Bool) : Option String :=
  if gV && !gE then some "global-viewer-not-below-editor"
  else if gE && !gA then some "global-editor-not-below-admin"
  else if kV && !kE then some "kg-viewer-not-below-editor"
  else if kE && !kO then some "kg-editor-not-below-owner"
  else if kV && mutatesKg k then some "kg-viewer-permits-mutation"
  else if gV && mutatesSystem k then some "global-viewer-permits-system-mutation"
  else if adminOnly k && (gE || gV) then some "admin-only-permitted-to-non-admin"
  else none

end ILV.Spec.Auth
