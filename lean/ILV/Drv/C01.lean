import ILV.Drv.Common
import ILV.Model.Engine
namespace ILV.Drv.C01
open ILV ILV.DL ILV.Engine

/-- `jjjjj:w:l` → configuration. -/
def cfgOfWire (s : String) : Option Cfg :=
  match s.splitOn ":" with
  | [sw, w, l] =>
    match sw.toList, w.toNat?, l.toNat? with
    | [a, b, c, d, e], some w, some l =>
      some { jp := a == '1', sip := b == '1', ss := c == '1', bs := d == '1', ms := e == '1', workers := w, limit := l }
    | _, _, _ => none
  | _ => none

/-- request arguments `cfg | item ; item ; …` → (cfg, edb, program). -/
def parseReq (args : List String) : Option (Cfg × DB × Program) :=
  match args with
  | c :: "|" :: items =>
    match cfgOfWire c, parseItems (items.filter (· != ";")) [] [] with
    | some cfg, some (db, p) => some (cfg, db, p)
    | _, _ => none
  | _ => none

def fuelDefault : Nat := 64

/-! ### identifying predicates of the known defect families (computed from the program) -/

def reach1 (p : Program) (hs : List String) (frontier : List String) : List String :=
  dedupS (frontier ++ frontier.flatMap (fun h => (scansOf p h).filter hs.contains))

/-- heads reachable from `h` through ≥ 1 dependency edge. -/
def reachable (p : Program) (h : String) : List String :=
  let hs := heads p
  iter (reach1 p hs) hs.length ((scansOf p h).filter hs.contains)

/-- the head dependency graph has a strongly connected component with ≥ 2 heads. -/
def hasMutualRecursiveScc (p : Program) : Bool :=
  (heads p).any (fun h => (reachable p h).any (fun g => g != h && (reachable p g).contains h))

/-- a head that also has stored facts (its facts are shadowed by the derived result). -/
def headHasFacts (p : Program) (edb : DB) : Bool := (heads p).any (fun h => !(edb.get h).isEmpty)

/-- two positive atoms of one rule over the same relation with a wildcard in the same position.
    Repaired (fixes/C01-same_relation_wildcard_position.diff): no longer a class of C01; the
    predicate is still referenced by Drv/C06 until its owner drops the class there. -/
def sameRelWildcard (r : Rule) : Bool :=
  let ws (a : Atom) : List Nat := (List.range a.args.length).filter (fun i => a.args.getD i (.var "") == .wild)
  let rec go : List Atom → Bool
    | [] => false
    | a :: as => as.any (fun b => b.rel == a.rel && (ws a).any (ws b).contains) || go as
  go r.posAtoms

/-- an equality literal that the builder neither computes nor filters (see `skippedInPass2`). -/
def droppedEquality (r : Rule) : Bool :=
  match buildCmps r.posVars r.cmps with
  | none => false
  | some (cols, _) =>
    r.cmps.any (fun c => skippedInPass2 r.posVars c &&
      -- skipped in pass 2 although pass 1 did not turn *this literal* into its column
      !(cols.any (fun xe => match c with
          | (.eq, .var x, e) => (xe.1 == x && xe.2 == e) || (match e with | .var y => xe.1 == y && xe.2 == .var x | _ => false)
          | (.eq, e, .var x) => xe.1 == x && xe.2 == e
          | _ => false)))

def aggNotLast (r : Rule) : Bool :=
  match r.hargs.reverse with
  | [] => false
  | _ :: front => front.any (fun | .agg .. => true | _ => false)

/-- the optimizer moves the rule's comparison filters onto the right input of a join and reads a
    variable from the wrong stored column (`Engine.pushPlan`). -/
def pushdownShift (r : Rule) : Bool :=
  match buildCmps r.posVars r.cmps with
  | some (cols, fs) =>
    if !cols.isEmpty then false else
    match pushPlan r fs with
    | some (k, m) =>
      (match (posWithIdx r.body 0)[k]? with
       | some (bi, a) => m.any (fun xc => firstPos xc.1 (scanNames bi 0 a.args) 0 != some xc.2)
       | none => false)
    | none => false
  | none => false

def nonRecRules (p : Program) : List Rule := p.filter (fun r => !selfRec p r.hrel)

def allOff (cfg : Cfg) : Bool := !(cfg.jp || cfg.sip || cfg.ss || cfg.bs || cfg.ms)

/-- an atom in which some variable occurs twice. -/
def atomRepeatsVar (a : Atom) : Bool :=
  let vs := a.vars
  vs.length != (dedupS vs).length

/-- join planning on, and a rule of a non-recursive head that joins (≥ 2 positive atoms) has an
    atom with a repeated variable: the planner rebuilds the join without the scan's
    column-equality filter / with shifted key columns. -/
def repeatedVarUnderJoinPlanning (cfg : Cfg) (p : Program) : Bool :=
  cfg.jp && (nonRecRules p).any (fun r => r.posAtoms.length ≥ 2 && r.posAtoms.any atomRepeatsVar)

/-- join planning on and a multi-clause head one of whose clauses joins. -/
def unionWithJoinUnderJoinPlanning (cfg : Cfg) (p : Program) : Bool :=
  cfg.jp && (heads p).any (fun h => (clausesOf p h).length ≥ 2 && (clausesOf p h).any (fun r => r.posAtoms.length ≥ 2))

/-- SIP on and the answered head has several clauses (direct API). -/
def lastHeadMultiClauseWithSip (cfg : Cfg) (p : Program) : Bool :=
  cfg.sip && (clausesOf p (answeredRel p)).length ≥ 2

def classify (cfg : Cfg) (p : Program) (_edb : DB) (_want : String) : String :=
  if hasMutualRecursiveScc p then "has_mutual_recursive_scc"
  else if queryRel p != answeredRel p then "last_rule_head_not_last_head"
  else if p.any droppedEquality then "equality_on_computed_variable"
  else if lastHeadMultiClauseWithSip cfg p then "last_head_multi_clause_with_sip"
  else "unclassified"

/-- Spec verdict on the implementation's output. -/
def specVerdict (cfg : Cfg) (p : Program) (edb : DB) (impl : String) : String × Bool :=
  match pmEval fuelDefault p edb with
  | none => ("na", false)
  | some m =>
    let want := relToWire (m.get (queryRel p))
    let nt := !(m.get (queryRel p)).isEmpty && p.any (fun r => r.body.length ≥ 2)
    if impl.startsWith "err:" || headHasFacts p edb then ("na", false)   -- views cannot hold stored facts through any public path
    else if impl == want then (specOk, nt)
    else (specFail (classify cfg p edb want) "answer-differs-from-least-model", nt)

def sipHashDummy (_ : Tuple) : Nat := 0

/-- `c01.run`: all switches off — the model must reproduce the engine verbatim. -/
def runH : Handler := fun args impl =>
  match parseReq args with
  | some (cfg, edb, p) =>
    let out := Engine.run cfg sipHashDummy (fun _ ts => ts) fuelDefault p edb
    let (sv, nt) := specVerdict cfg p edb ((impl.splitOn "#").headD "")
    { model := out.toWireAll, spec := sv, nt := nt }
  | none => badReq

/-- `c01.spec`: any switches — search only (the IR passes are not in this model, so the model
    column echoes the implementation and claims nothing). -/
def specH : Handler := fun args impl =>
  match parseReq args with
  | some (cfg, edb, p) =>
    let (sv, nt) := specVerdict cfg p edb impl
    { model := impl, spec := sv, nt := nt }
  | none => badReq

def handlers : List (String × Handler) := [("c01.run", runH), ("c01.spec", specH)]

end ILV.Drv.C01
