import ILV.Drv.Common
import ILV.Model.Catalog
/-
  C16 driver.  Request: `c16.run | item ; item ; …` with items
    rr <name> <cid> | rd <name> | rP <prefix> | rc <name> | rp <name> <idx> <cid> | rx <name> <idx>
    sr <rel> <sid> | su <rel> <sid> | sx <rel> | dr <name> | ss <rel> <sid> | sS <rel> <sid> | sc     each optionally followed by `@<j>[e|l|p<permille>]`
    R                       crash between operations, all writes complete
    T r|s e|l|p<permille>   crash between operations, the rule (r) / schema (s) catalog file torn
  (an implicit `R` ends every history).  Output: one token per item,
    `<ack>/<fs steps>` for an operation, `[old|new|recovered]` for a crash + reopen.
-/
namespace ILV.Drv.C16
open ILV ILV.FS ILV.Cat

def nameOfWire (s : String) : Name := if s == "-" then [] else strBytes s
def nameToWire (n : Name) : String := if n.isEmpty then "-" else String.ofList (n.map Char.ofNat)

/-- the clause pool of the harness: id ↦ (head arity, rejected by validate_rule). -/
def clauseOf (id : Nat) : Clause :=
  match id with
  | 3 => { id := 3, arity := 1, bad := false }
  | 4 => { id := 4, arity := 2, bad := true, unstrat := true }
  | 5 => { id := 5, arity := 3, bad := false }
  | 7 => { id := 7, arity := 2, bad := true }
  | n => { id := n, arity := 2, bad := false }

def schemaOf (id : Nat) : Schema := { id := id, bad := id == 3 }

def fragOfWire (s : String) : Option Cut :=
  if s == "e" then some ⟨0, .clean⟩
  else if s == "l" then some ⟨0, .nonl⟩
  else if s.startsWith "p" then some ⟨0, .part⟩
  else none

/-- `@<j>[frag]` -/
def crashOfWire (s : String) : Option (Nat × Option Cut) :=
  if !s.startsWith "@" then none else
  let body := (s.drop 1).toString
  let digits := (body.takeWhile Char.isDigit).toString
  let rest := (body.drop digits.length).toString
  match digits.toNat? with
  | none => none
  | some j => if rest.isEmpty then some (j, none) else (fragOfWire rest).map (fun c => (j, some c))

def opOfWire : List String → Option COp
  | ["rr", n, c] => c.toNat?.map (fun c => .reg (nameOfWire n) (clauseOf c))
  | ["rd", n] => some (.drop (nameOfWire n))
  | ["rP", p] => some (.dropPrefix (nameOfWire p))
  | ["rc", n] => some (.clear (nameOfWire n))
  | ["rp", n, i, c] => match i.toNat?, c.toNat? with
    | some i, some c => some (.replace (nameOfWire n) i (clauseOf c))
    | _, _ => none
  | ["rx", n, i] => i.toNat?.map (fun i => .rmClause (nameOfWire n) i)
  | ["sr", r, s] => s.toNat?.map (fun s => .sreg (nameOfWire r) (schemaOf s))
  | ["su", r, s] => s.toNat?.map (fun s => .supd (nameOfWire r) (schemaOf s))
  | ["sx", r] => some (.srem (nameOfWire r))
  | ["ss", r, s] => s.toNat?.map (fun s => .ssupd (nameOfWire r) (schemaOf s))
  | ["sS", r, s] => s.toNat?.map (fun s => .ssreg (nameOfWire r) (schemaOf s))
  | ["sc"] => some .sclear
  | ["dr", n] => some (.dropRel (nameOfWire n))
  | _ => none

/-- request-level item: the file torn by `@j<frag>` is the one written by the operation's `j`-th FS step, which is
    only known when the model state is; it is resolved to an `HItem` during the run. -/
inductive WItem where
  | op (o : COp)
  | opCrash (o : COp) (j : Nat) (cut : Option Cut)
  | restart
  | restartTorn (p : Path) (c : Cut)

def itemOfWire (toks : List String) : Option WItem :=
  match toks with
  | ["R"] => some .restart
  | ["T", w, f] =>
    match fragOfWire f with
    | some c => if w == "r" then some (.restartTorn .ruleCat c) else if w == "s" then some (.restartTorn .schemaCat c) else none
    | none => none
  | _ =>
    match toks.getLast? with
    | some l =>
      if l.startsWith "@" then
        match crashOfWire l, opOfWire toks.dropLast with
        | some (j, cut), some o => some (.opCrash o j cut)
        | _, _ => none
      else (opOfWire toks).map .op
    | none => none

def opWritePath : Op Path Doc → Option Path
  | .write p _ => some p
  | _ => none

def resolve (m : Mem) : WItem → HItem
  | .op o => .op o
  | .restart => .restart []
  | .restartTorn p c => .restart [(p, c)]
  | .opCrash o j cut =>
    match cut, ((step m o).2.2[j - 1]?).bind opWritePath with
    | some c, some p => if j ≥ 1 then .opCrash o j [(p, c)] else .opCrash o j []
    | _, _ => .opCrash o j []

/-- split the argument tokens (after the leading `|`) at `;`. -/
def splitItems : List String → List String → List (List String) → List (List String)
  | [], cur, acc => (if cur.isEmpty then acc else cur.reverse :: acc).reverse
  | t :: ts, cur, acc =>
    if t == ";" then splitItems ts [] (if cur.isEmpty then acc else cur.reverse :: acc)
    else splitItems ts (t :: cur) acc

def parseHistory (args : List String) : Option (List WItem) :=
  match args with
  | "|" :: rest => optMapM itemOfWire (splitItems rest [] [])
  | [] => some []
  | _ => none

/-! rendering -/

def leName (a b : Name) : Bool := a ≤ b

def renderRules (c : RuleCat) : String :=
  let es := sortBy (fun (a b : Name × List Clause) => leName a.1 b.1) c
  ";".intercalate (es.map (fun e => nameToWire e.1 ++ ":" ++ ".".intercalate (e.2.map (fun c => toString c.id))))

def renderSchemas (s : SchemaCat) : String :=
  let es := sortBy (fun (a b : Name × Schema) => leName a.1 b.1) s
  ";".intercalate (es.map (fun e => nameToWire e.1 ++ ":" ++ toString e.2.id))

def renderMem (m : Mem) : String :=
  "R(" ++ renderRules m.rules ++ ")S(" ++ renderSchemas m.schemas ++ ")s(" ++ renderSchemas m.session ++ ")"

def renderAck : Ack → String
  | .ok => "ok"
  | .err => "err"
  | .okNames l => "ok:" ++ "+".intercalate (l.map nameToWire)
  | .okBool b => if b then "ok:1" else "ok:0"

def renderSteps (l : List Nat) : String :=
  if l.isEmpty then "-" else String.ofList (l.map (fun k => match k with
    | 0 => 'm' | 1 => 'M' | 2 => 't' | 3 => 'T' | 6 => 'f' | 7 => 'F' | 8 => 'n' | 9 => 'N' | 4 => 'd' | 5 => 'D' | _ => '?'))

def renderOut : Out → String
  | .ack a s => renderAck a ++ "/" ++ renderSteps s
  | .reboot o n r => "[" ++ renderMem o ++ "|" ++ renderMem n ++ "|" ++ (match r with | some m => renderMem m | none => "err:open-failed") ++ "]"

/-- run the model on the request-level history (no known defect class is left for C16: every Spec failure is
    `unclassified`). -/
def runW (st : St) : List WItem → List Out
  | [] => []
  | it :: rest =>
    match runItem st (resolve st.mem it) with
    | (o, some st') => o :: runW st' rest
    | (o, none) => [o]

/-- `R(rules)S(persistent)s(session)` → the three parts -/
def splitMem (s : String) : String × String × String :=
  match s.splitOn ")S(" with
  | [a, b] => match b.splitOn ")s(" with
    | [p, q] => (a, p, q)
    | _ => (a, b, "?")
  | _ => (s, "", "?")

/-- Spec on the implementation's own tokens: the engine reopened and each catalog is the old or the new one. -/
def judge (model : List Out) (impl : List String) : String :=
  if impl.any (fun t => t.endsWith "|err:open-failed]") then specFail "unclassified" "engine-does-not-open" else
  if model.length != impl.length then specFail "unclassified" "output-shape" else
  let bad := (model.zip impl).filterMap (fun (o, tok) =>
    match o with
    | .ack _ _ => none
    | .reboot _ _ _ =>
      match ((tok.drop 1).dropEnd 1).toString.splitOn "|" with
      | [old, new, got] =>
        if got == "err:open-failed" then some (specFail "unclassified" "engine-does-not-open")
        else
          let (ro, so, _) := splitMem old
          let (rn, sn, _) := splitMem new
          let (rg, sg, ssg) := splitMem got
          if ssg != ")" then some (specFail "unclassified" "session-schema-survived-restart")
          else if (rg == ro || rg == rn) && (sg == so || sg == sn) then none
          else some (specFail "unclassified" "catalog-neither-old-nor-new")
      | _ => some (specFail "unclassified" "unparsable-reboot-token"))
  match bad with
  | [] => specOk
  | b :: _ => b

def run : Handler := fun args impl =>
  match parseHistory args with
  | none => badReq
  | some h =>
    let h := h ++ [.restart]
    let outs := runW {} h
    let nt := outs.any (fun o => match o with
      | .reboot o n g => o != {} || n != {} || g != some {}
      | _ => false)
    { model := " ".intercalate (outs.map renderOut),
      spec := judge outs (impl.splitOn " "),
      nt := nt }

def handlers : List (String × Handler) := [("c16.run", run)]

end ILV.Drv.C16
