import ILV.Drv.C01
namespace ILV.Drv.C08
open ILV ILV.DL ILV.Engine ILV.Drv.C01

/-- `name=rel` entries of the implementation's derived map. -/
def parseDerived (entries : List String) : List (String × List String) :=
  entries.filterMap (fun e =>
    match e.splitOn "=" with
    | [n, r] => some (n, if r == "{}" then [] else r.splitOn ";")
    | _ => none)

/-- emission order that explains the implementation's truncation: the tuples the implementation
    kept for head `h` first. -/
def ordFrom (kept : List (String × List String)) : String → List Tuple → List Tuple :=
  fun h ts =>
    match kept.lookup h with
    | some ws => ts.filter (fun t => ws.contains t.toWire) ++ ts.filter (fun t => !ws.contains t.toWire)
    | none => ts

def verdict (cfg : Cfg) (_p : Program) (_edb : DB) (lim unl : String) : String × Bool :=
  if lim.startsWith "err:" || unl.startsWith "err:" || cfg.limit == 0 then ("na", false) else
  let r := if lim == "{}" then [] else lim.splitOn ";"
  let a := if unl == "{}" then [] else unl.splitOn ";"
  let nt := a.length > cfg.limit
  if r.all a.contains && r.length == min cfg.limit a.length then (specOk, nt)
  else
    let d := if !r.all a.contains then "not-subset" else "cardinality"
    (specFail "unclassified" d, nt)

/-- `c08.run 00000:1:L | items` → `limited answer#derived… / unlimited answer`. The model is run
    with the emission order read off the implementation's own (truncated) results — the
    comparison is "∃ ord, model = code". -/
def runH : Handler := fun args impl =>
  match parseReq args with
  | some (cfg, edb, p) =>
    match impl.splitOn " / " with
    | [limAll, unl] =>
      let parts := limAll.splitOn "#"
      let (sv, nt) := verdict cfg p edb (parts.headD "") unl
      if allOff cfg then
        let ord := ordFrom (parseDerived (parts.drop 1))
        let ml := (Engine.run cfg (fun _ => 0) ord fuelDefault p edb).toWireAll
        let mu := (Engine.run { cfg with limit := 0 } (fun _ => 0) (fun _ ts => ts) fuelDefault p edb).toWire
        { model := s!"{ml} / {mu}", spec := sv, nt := nt }
      else { model := impl, spec := sv, nt := nt }
    | _ => { model := "unparsable", spec := specFail "unclassified" "unparsable-impl-output", nt := false }
  | none => badReq

def handlers : List (String × Handler) := [("c08.run", runH)]

end ILV.Drv.C08
