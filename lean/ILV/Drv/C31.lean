import ILV.Drv.Common
import ILV.Model.Value
import ILV.Model.Consolidate
namespace ILV.Drv.C31
open ILV

def b01 (b : Bool) : String := if b then "1" else "0"

def swapO : Ordering → Ordering
  | .lt => .gt | .eq => .eq | .gt => .lt

def ordOfWire : String → Option Ordering
  | "lt" => some .lt | "eq" => some .eq | "gt" => some .gt | _ => none

/-- identifying predicate of the known defect family: a NaN or a zero of either sign occurs. -/
def f64Special (b : Nat) : Bool := f64IsNaN b || b % 2^63 == 0
def f32Special (b : Nat) : Bool := f32IsNaN b || b % 2^31 == 0
def Value.special : Value → Bool
  | .f64 b => f64Special b
  | .vec l => l.any f32Special
  | _ => false
def cls (ts : List Tuple) : String := if ts.any (·.any Value.special) then "special_float" else "unclassified"

/-- pair laws judged on the implementation's own answers. -/
def pairSpec (ts : List Tuple) (impl : String) : String :=
  match impl.splitOn " " with
  | [cab, e, h, cba] =>
    match ordOfWire cab, ordOfWire cba with
    | some oab, some oba =>
      if (oab == .eq) != (e == "1") then specFail (cls ts) "cmp-eq-iff-equal"
      else if e == "1" && h != "1" then specFail (cls ts) "equal-hash-equal"
      else if oba != swapO oab then specFail (cls ts) "antisymmetry"
      else specOk
    | _, _ => specFail "unclassified" ("unparsable-impl-output " ++ impl)
  | _ => specFail "unclassified" ("unparsable-impl-output " ++ impl)

def leO (o : Ordering) : Bool := o != .gt

def tripleSpec (ts : List Tuple) (impl : String) : String :=
  match (impl.splitOn " ").map ordOfWire with
  | [some ab, some bc, some ac] =>
    if leO ab && leO bc then
      if !leO ac then specFail (cls ts) "transitivity"
      else if (ab == .lt || bc == .lt) && ac != .lt then specFail (cls ts) "transitivity-strict"
      else specOk
    else specOk
  | _ => specFail "unclassified" ("unparsable-impl-output " ++ impl)

def pair : Handler := fun args impl =>
  match args.map Tuple.ofWire with
  | [some a, some b] =>
    let m := s!"{Ordering.toWire (Tuple.cmp a b)} {b01 (Tuple.eq a b)} {b01 (Tuple.hashKey a == Tuple.hashKey b)} {Ordering.toWire (Tuple.cmp b a)}"
    { model := m, spec := pairSpec [a, b] impl, nt := a.length == b.length && (a.zip b).all (fun (x, y) => x.rank == y.rank) }
  | _ => badReq

def triple : Handler := fun args impl =>
  match args.map Tuple.ofWire with
  | [some a, some b, some c] =>
    let m := s!"{Ordering.toWire (Tuple.cmp a b)} {Ordering.toWire (Tuple.cmp b c)} {Ordering.toWire (Tuple.cmp a c)}"
    { model := m, spec := tripleSpec [a, b, c] impl, nt := leO (Tuple.cmp a b) && leO (Tuple.cmp b c) }
  | _ => badReq

/-- `c31.cons | upd ; upd ; …` (consolidate_to_current) and `c31.cons2 | …` (consolidate). -/
def consWith (f : List Upd → List Upd) (okf : List Upd → List Upd → Bool) : Handler := fun args impl =>
  let items := (joinWith " " args).splitOn " ; "
  let items := match items with
    | first :: rest => (if first.startsWith "| " then (first.drop 2).toString else first) :: rest
    | [] => []
  let items := items.filter (fun s => s != "" && s != "|")
  match optMapM Upd.ofWire items with
  | some l =>
    let out := f l
    let w := fun (o : List Upd) => if o.isEmpty then "{}" else joinWith ";" (o.map Upd.toWire)
    let implL := if impl == "{}" then some [] else optMapM Upd.ofWire (impl.splitOn ";")
    let spec := match implL with
      | some o => if okf l o then specOk
                  else specFail (cls (l.map (·.data))) "net-multiplicity-or-duplicate"
      | none => specFail "unclassified" ("unparsable-impl-output " ++ impl)
    { model := w out, spec := spec, nt := l.length > out.length }
  | none => badReq

def handlers : List (String × Handler) :=
  [("c31.pair", pair), ("c31.triple", triple),
   ("c31.cons", consWith consolidateToCurrent consolidatedOk), ("c31.cons2", consWith consolidate consolidatedOkDT)]

end ILV.Drv.C31
