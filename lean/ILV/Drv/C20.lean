import ILV.Drv.EStepIO
/-
  C20 driver: model output = EStep run; Spec oracle = search for a serial order of the write
  operations (relations as *sets*, accurate reports) such that every observed snapshot is the state
  after a prefix that grows monotonically, contains every write acknowledged before the observation,
  contains no write before it was invoked, and every thread-issued query equals the snapshot at the
  boundary where it ran.
-/
namespace ILV.Drv.C20
open ILV ILV.EStep ILV.Drv.EStepIO

abbrev Facts := List (List Nat)      -- per relation: sorted ids
structure SState where
  facts : Facts := []
  rules : List (Nat × List Nat) := []   -- per view: body relations of its clauses (no clause twice)
  deriving Inhabited

structure WOp where
  op : Op
  ack : Nat          -- step during which the call returned
  out : IOut
  notBefore : Nat    -- first boundary at which its effect may be visible
  deriving Inhabited

def getRel (s : Facts) (r : Nat) : List Nat := s.getD r []
def setRelS (s : Facts) (r : Nat) (v : List Nat) : Facts := (List.range (max s.length (r + 1))).map (fun i => if i = r then v else s.getD i [])
def clausesOf (rules : List (Nat × List Nat)) : List (Nat × Nat) :=
  sortBy (fun (a b : Nat × Nat) => decide (a.1 < b.1 || (a.1 == b.1 && a.2 ≤ b.2))) (rules.flatMap (fun e => e.2.map (fun r => (e.1, r))))

/-- sequential Spec semantics of a write: relations are sets, reports are accurate; a rule is a set of clauses -/
def seqApply (s : SState) : Op → SState × IOut
  | .insert r ts =>
    let cur := getRel s.facts r
    let nw := (ts.filter (fun t => !cur.contains t)).eraseDups
    ({ s with facts := setRelS s.facts r (sortNat (cur ++ nw)) }, .ins nw.length (ts.length - nw.length))
  | .delete r ts =>
    let cur := getRel s.facts r
    let keep := cur.filter (fun t => !ts.contains t)
    ({ s with facts := setRelS s.facts r keep }, .del (cur.length - keep.length))
  | .regRule v r =>
    match s.rules.find? (fun e => e.1 == v) with
    | none => ({ s with rules := s.rules ++ [(v, [r])] }, .created)
    | some e =>
      let cls := if e.2.contains r then e.2 else e.2 ++ [r]
      ({ s with rules := s.rules.map (fun x => if x.1 == v then (v, cls) else x) }, .added cls.length)
  | .dropRule v =>
    if s.rules.any (fun e => e.1 == v) then ({ s with rules := s.rules.filter (fun e => e.1 != v) }, .dropped) else (s, .err)
  | _ => (s, .err)

def normS (nr : Nat) (s : Facts) : Facts := (List.range nr).map (fun r => sortNat (getRel s r))

/-- all (state, remaining queues) reachable from `(s, qs)` by applying head operations allowed at boundary `i` -/
def expand (i : Nat) : Nat → SState → List (List WOp) → List (SState × List (List WOp))
  | 0, s, qs => [(s, qs)]
  | fuel + 1, s, qs =>
    (s, qs) :: (List.range qs.length).flatMap (fun t =>
      match qs.getD t [] with
      | [] => []
      | h :: rest =>
        if h.notBefore ≤ i then
          let (s', out) := seqApply s h.op
          if out == h.out then expand i fuel s' (qs.set t rest) else []
        else [])

def allAckedApplied (i : Nat) (qs : List (List WOp)) : Bool :=
  qs.all (fun q => q.all (fun h => !(h.ack + 1 ≤ i)))

def search (nr : Nat) (fuel : Nat) : List (Facts × List (Nat × Nat)) → Nat → SState → List (List WOp) → Bool
  | [], _, _, qs => qs.all List.isEmpty
  | o :: os, i, s, qs =>
    (expand i fuel s qs).any (fun (s', qs') =>
      normS nr s'.facts == normS nr o.1 && clausesOf s'.rules == o.2 && allAckedApplied i qs' && search nr fuel os (i + 1) s' qs')

def buildQueues (r : Req) (im : Impl) : List (List WOp) :=
  (List.range r.progs.length).map (fun t =>
    let prog : List Op := r.progs.getD t []
    let res := im.res.getD t []
    (List.range prog.length).filterMap (fun k =>
      match prog[k]?, res[k]? with
      | some op, some (ack, out) =>
        let nb := match k with
          | 0 => 1
          | k' + 1 => match res[k']? with | some (a, _) => a + 2 | none => 1
        match op with
        | Op.insert _ _ => some { op := op, ack := ack, out := out, notBefore := nb }
        | Op.delete _ _ => some { op := op, ack := ack, out := out, notBefore := nb }
        | Op.regRule _ _ => some { op := op, ack := ack, out := out, notBefore := nb }
        | Op.dropRule _ => some { op := op, ack := ack, out := out, notBefore := nb }
        | _ => none
      | _, _ => none))

/-- answer of `q(X) <- v(X)` over an observed snapshot (facts + the clauses it carries) -/
def viewAnswer (facts : Facts) (clauses : List (Nat × Nat)) (v : Nat) : List Nat :=
  sortNat (((clauses.filter (fun c => c.1 == v)).flatMap (fun c => getRel facts c.2)).eraseDups)

/-- thread-issued queries must equal the snapshot at the boundary where they ran -/
def queriesOk (r : Req) (im : Impl) : Bool :=
  (List.range r.progs.length).all (fun t =>
    let prog : List Op := r.progs.getD t []
    let res := im.res.getD t []
    (List.range prog.length).all (fun k =>
      match prog[k]?, res[k]? with
      | some (Op.query rel), some (ack, IOut.rows l) => sortNat ((im.obs.getD ack []).getD rel []) == l
      | some (Op.query _), some (_, _) => false
      | some (Op.queryV v), some (ack, IOut.rows l) => viewAnswer (im.obs.getD ack []) (im.obsRules.getD ack []) v == l
      | some (Op.queryV _), some (_, _) => false
      | _, _ => true))

/-- after all threads finished: every view answers from the last published snapshot -/
def vfinOk (im : Impl) : Bool :=
  (List.range im.vfin.length).all (fun v => match im.vfin[v]? with
    | some (IOut.rows l) => viewAnswer (im.obs.getLastD []) (im.obsRules.getLastD []) v == l
    | _ => false)

/-- an error is a legitimate answer only for dropping a rule (that does not exist) -/
def anyErr (r : Req) (im : Impl) : Bool :=
  (List.range r.progs.length).any (fun t =>
    let prog : List Op := r.progs.getD t []
    let res := im.res.getD t []
    (List.range prog.length).any (fun k => match prog[k]?, res[k]? with
      | some (Op.dropRule _), _ => false
      | _, some (_, IOut.err) => true
      | _, _ => false))

def specOf (r : Req) (impl : String) : String :=
  match parseImpl impl with
  | none => specFail "unclassified" ("unparsable-impl-output " ++ impl)
  | some im =>
    if im.dead.isSome then "na"
    else if anyErr r im then specFail "unclassified" "operation-returned-error"
    else if !queriesOk r im then specFail "unclassified" "query-differs-from-snapshot-at-its-step"
    else if !vfinOk im then specFail "unclassified" "final-view-query-differs-from-the-last-snapshot"
    else
      let qs := buildQueues r im
      let nops := (qs.map List.length).sum
      if (r.progs.map List.length).sum != (im.res.map List.length).sum then specFail "unclassified" "missing-results"
      else if search r.nr nops (im.obs.zip im.obsRules) 0 {} qs then specOk
      else specFail "unclassified" "observations-are-not-prefix-states-of-any-serial-order"

/-- non-trivial: at least two writes by different threads overlap (one is invoked before the other returned) -/
def overlapping (r : Req) : Bool :=
  let states := trace r.init r.full
  states.any (fun st => ((List.range st.n).filter (fun t => (st.threads t).pc != .start)).length ≥ 2)

def run1 : Handler := fun args impl =>
  match parseReq args with
  | none => badReq
  | some r => { model := modelOut r, spec := specOf r impl, nt := overlapping r }

def handlers : List (String × Handler) := [("c20.run", run1)]

end ILV.Drv.C20
