import ILV.Drv.EStepIO
/-
  C20 driver: model output = EStep run; Spec oracle = search for a serial order of the write
  operations (relations as *sets*, accurate reports) such that every observed snapshot is the state
  after a prefix that grows monotonically, contains every write acknowledged before the observation,
  contains no write before it was invoked, and every thread-issued query equals the snapshot at the
  boundary where it ran.
-/
namespace ILV.Drv.C20
open ILV ILV.EStep ILV.Drv.EStepIO

abbrev SState := List (List Nat)      -- per relation: sorted ids

structure WOp where
  op : Op
  ack : Nat          -- step during which the call returned
  out : IOut
  notBefore : Nat    -- first boundary at which its effect may be visible
  deriving Inhabited

def getRel (s : SState) (r : Nat) : List Nat := s.getD r []
def setRelS (s : SState) (r : Nat) (v : List Nat) : SState := (List.range (max s.length (r + 1))).map (fun i => if i = r then v else s.getD i [])

/-- sequential Spec semantics of a write: relations are sets, reports are accurate -/
def seqApply (s : SState) : Op → SState × IOut
  | .insert r ts =>
    let cur := getRel s r
    let nw := (ts.filter (fun t => !cur.contains t)).eraseDups
    (setRelS s r (sortNat (cur ++ nw)), .ins nw.length (ts.length - nw.length))
  | .delete r ts =>
    let cur := getRel s r
    let keep := cur.filter (fun t => !ts.contains t)
    (setRelS s r keep, .del (cur.length - keep.length))
  | _ => (s, .err)

def normS (nr : Nat) (s : SState) : SState := (List.range nr).map (fun r => sortNat (getRel s r))

/-- all (state, remaining queues) reachable from `(s, qs)` by applying head operations allowed at boundary `i` -/
def expand (i : Nat) : Nat → SState → List (List WOp) → List (SState × List (List WOp))
  | 0, s, qs => [(s, qs)]
  | fuel + 1, s, qs =>
    (s, qs) :: (List.range qs.length).flatMap (fun t =>
      match qs.getD t [] with
      | [] => []
      | h :: rest =>
        if h.notBefore ≤ i then
          let (s', out) := seqApply s h.op
          if out == h.out then expand i fuel s' (qs.set t rest) else []
        else [])

def allAckedApplied (i : Nat) (qs : List (List WOp)) : Bool :=
  qs.all (fun q => q.all (fun h => !(h.ack + 1 ≤ i)))

def search (nr : Nat) (fuel : Nat) : List SState → Nat → SState → List (List WOp) → Bool
  | [], _, _, qs => qs.all List.isEmpty
  | o :: os, i, s, qs =>
    (expand i fuel s qs).any (fun (s', qs') =>
      normS nr s' == normS nr o && allAckedApplied i qs' && search nr fuel os (i + 1) s' qs')

def buildQueues (r : Req) (im : Impl) : List (List WOp) :=
  (List.range r.progs.length).map (fun t =>
    let prog : List Op := r.progs.getD t []
    let res := im.res.getD t []
    (List.range prog.length).filterMap (fun k =>
      match prog[k]?, res[k]? with
      | some op, some (ack, out) =>
        let nb := match k with
          | 0 => 1
          | k' + 1 => match res[k']? with | some (a, _) => a + 2 | none => 1
        match op with
        | Op.insert _ _ => some { op := op, ack := ack, out := out, notBefore := nb }
        | Op.delete _ _ => some { op := op, ack := ack, out := out, notBefore := nb }
        | _ => none
      | _, _ => none))

/-- thread-issued queries must equal the snapshot at the boundary where they ran -/
def queriesOk (r : Req) (im : Impl) : Bool :=
  (List.range r.progs.length).all (fun t =>
    let prog : List Op := r.progs.getD t []
    let res := im.res.getD t []
    (List.range prog.length).all (fun k =>
      match prog[k]?, res[k]? with
      | some (Op.query rel), some (ack, IOut.rows l) => sortNat ((im.obs.getD ack []).getD rel []) == l
      | some (Op.query _), some (_, _) => false
      | _, _ => true))

def anyErr (im : Impl) : Bool := im.res.any (fun l => l.any (fun (_, o) => o == IOut.err))

def specOf (r : Req) (impl : String) : String :=
  match parseImpl impl with
  | none => specFail "unclassified" ("unparsable-impl-output " ++ impl)
  | some im =>
    if im.dead.isSome then "na"
    else if anyErr im then specFail "unclassified" "operation-returned-error"
    else if !queriesOk r im then specFail "unclassified" "query-differs-from-snapshot-at-its-step"
    else
      let qs := buildQueues r im
      let nops := (qs.map List.length).sum
      if (r.progs.map List.length).sum != (im.res.map List.length).sum then specFail "unclassified" "missing-results"
      else if search r.nr nops im.obs 0 [] qs then specOk
      else specFail "unclassified" "observations-are-not-prefix-states-of-any-serial-order"

/-- non-trivial: at least two writes by different threads overlap (one is invoked before the other returned) -/
def overlapping (r : Req) : Bool :=
  let states := trace r.init r.full
  states.any (fun st => ((List.range st.n).filter (fun t => (st.threads t).pc != .start)).length ≥ 2)

def run1 : Handler := fun args impl =>
  match parseReq args with
  | none => badReq
  | some r => { model := modelOut r, spec := specOf r impl, nt := overlapping r }

def handlers : List (String × Handler) := [("c20.run", run1)]

end ILV.Drv.C20
