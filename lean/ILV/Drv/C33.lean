import ILV.Drv.Common
import ILV.Model.Schema
/-
  Driver for C33.
  c33.hist <arity> | item ; item ; …
     decl <kinds> | declt <kinds>   schema declared through the storage API / through `+r(c0: int, …)`
     ins <t> <t> …   `+r[…]`        one <t>   `+r(…)`       upd <t>   `-r(X…), +r(t) <- r(X…)`
     fact <t>        `r(t)` + `?r(X…)` in one request      val <t> …  Handler::validate_tuples_against_schema
     q               `?r(X…)`
  outputs, one token per item: ok | err… | ins:<n> | rej | upd:<d>:<i> | rows:<sorted tuples joined by +, {} if none>
-/
namespace ILV.Drv.C33
open ILV

def f64Lit (b : Nat) : Bool :=
  let mag := b % 2^63
  let e := mag / 2^52
  let frac := mag % 2^52
  b != 2^63 && decide (mag < 1043 * 2^52) && (mag == 0 || (decide (1022 ≤ e) && frac % 2^(52 - min 52 (e - 1022)) == 0))

def f32Lit (b : Nat) : Bool :=
  let mag := b % 2^31
  let e := mag / 2^23
  let frac := mag % 2^23
  b != 2^31 && decide (mag < 137 * 2^23) && (mag == 0 || (decide (126 ≤ e) && frac % 2^(23 - min 23 (e - 126)) == 0))

/-- values the text paths can express (mirrors `lit` in harness/src/p/c33.rs). -/
def litOk : Value → Bool
  | .i64 n => decide (n.natAbs ≤ 2^62)
  | .f64 b => f64Lit b
  | .str s => !s.isEmpty && s.all (fun c => (48 ≤ c && c ≤ 57) || (65 ≤ c && c ≤ 90) || (97 ≤ c && c ≤ 122))
  | .bool _ => true
  | .vec l => l.all f32Lit
  | _ => false

def textKind : SType → Bool
  | .int | .float | .string | .bool => true
  | _ => false

def parseItem : List String → Option SOp
  | ["decl", ks] => (optMapM SType.ofWire (ks.splitOn ",")).map .decl
  | ["declt", ks] => match optMapM SType.ofWire (ks.splitOn ",") with
    | some cols => if cols.all textKind then some (.decl cols) else none
    | none => none
  | "ins" :: rest => if rest.isEmpty then none else
    match optMapM Tuple.ofWire rest with
    | some ts => if ts.all (fun t => !t.isEmpty && t.all litOk) then some (.insert ts) else none
    | none => none
  | ["one", t] => match Tuple.ofWire t with
    | some t => if !t.isEmpty && t.all litOk then some (.insert [t]) else none
    | none => none
  | ["upd", t] => match Tuple.ofWire t with
    | some t => if !t.isEmpty && t.all litOk then some (.upd t) else none
    | none => none
  | ["fact", t] => match Tuple.ofWire t with
    | some t => if !t.isEmpty && t.all litOk then some (.fact t) else none
    | none => none
  | "val" :: rest => if rest.isEmpty then none else (optMapM Tuple.ofWire rest).map .validate
  | ["q"] => some .query
  | _ => none

def rowsWire (l : List Tuple) : String :=
  if l.isEmpty then "rows:{}" else "rows:" ++ joinWith "+" (sortBy (fun a b => decide (a ≤ b)) (l.map Tuple.toWire))

def outWire : SOut → String
  | .ok => "ok"
  | .rejected => "rej"
  | .inserted n => s!"ins:{n}"
  | .updated d i => s!"upd:{d}:{i}"
  | .rows r => rowsWire r

def parseRows (tok : String) : Option (List Tuple) :=
  if tok == "rows:{}" then some [] else
  if tok.startsWith "rows:" then optMapM Tuple.ofWire ((tok.drop 5).toString.splitOn "+") else none

/-! identifying predicates of the known defect families, computed from the history prefix -/

/-- a declaration over stored data that does not conform to it. -/
def schemaAfterData (pre : List SOp) : Bool :=
  let rec go (s : SState) : List SOp → Bool
    | [] => false
    | op :: ops => (match op with | .decl cols => !s.stored.all (conformsTuple cols) | _ => false) || go (s.step op).1 ops
  go SState.init pre

/-- an update, after a declaration, whose inserted tuple does not conform and that binds something. -/
def updateUnvalidated (pre : List SOp) : Bool :=
  let rec go (s : SState) : List SOp → Bool
    | [] => false
    | op :: ops => (match op, s.schema with
        | .upd new, some cols => !s.stored.isEmpty && !conformsTuple cols new
        | _, _ => false) || go (s.step op).1 ops
  go SState.init pre

structure Walk where
  cols : Option (List SType) := none
  expectSame : Option String := none
  lastRows : Option String := none
  seenAfterDecl : Bool := false

/-- Spec verdict: walk the items with the implementation's tokens. -/
def specWalk : List SOp → List SOp → List String → Walk → Nat → Option (String × String)
  | _, [], _, _, _ => none
  | pre, op :: ops, outs, w, pos =>
    let o := outs.head?.getD "?"
    let pre' := pre ++ [op]
    let next := fun (w : Walk) => specWalk pre' ops outs.tail w (pos + 1)
    match op with
    | .decl cols =>
      if o == "ok" then next { w with cols := some cols, expectSame := none }
      else if (SState.run SState.init pre).1.stored.all (conformsTuple cols) then
        some ("unclassified", s!"item {pos}: a schema over conforming data was refused ({o})")
      else next { w with expectSame := w.lastRows }
    | .insert ts =>
      match w.cols with
      | none => next { w with expectSame := none }
      | some cols =>
        let good := ts.all (conformsTuple cols)
        if good && o == "rej" then some ("unclassified", s!"item {pos}: conforming insert rejected")
        else if !good && o != "rej" then some ("unclassified", s!"item {pos}: insert with a non-conforming tuple accepted ({o})")
        else next { w with expectSame := if o == "rej" then w.lastRows else none }
    | .validate ts =>
      match w.cols with
      | none => next w
      | some cols =>
        let good := ts.all (conformsTuple cols)
        if good != (o == "ok") then some ("unclassified", s!"item {pos}: API validation answered {o} for a {if good then "conforming" else "non-conforming"} batch")
        else next w
    | .upd new =>
      match w.cols with
      | some cols =>
        if o == "rej" && conformsTuple cols new then some ("unclassified", s!"item {pos}: update with a conforming tuple rejected")
        else next { w with expectSame := if o == "rej" then w.lastRows else none }
      | none => next { w with expectSame := none }
    | .fact t =>
      match w.cols, parseRows o with
      | some cols, some rows =>
        let others := rows.filter (fun r => !Tuple.eq r t)
        if !others.all (conformsTuple cols) then
          some (if updateUnvalidated pre then "update_path_unvalidated" else if schemaAfterData pre then "schema_after_data" else "unclassified",
                s!"item {pos}: a stored tuple does not conform to the declared schema")
        else if !conformsTuple cols t && rows.any (Tuple.eq t) then
          some ("session_fact_unvalidated", s!"item {pos}: a non-conforming request-local fact is answered as a tuple of the relation")
        else if conformsTuple cols t && !rows.any (Tuple.eq t) then
          some ("unclassified", s!"item {pos}: a conforming request-local fact is missing from the request's answer")
        else next w
      | some _, none => some ("unclassified", s!"item {pos}: unparsable rows {o}")
      | none, _ => next w
    | .query =>
      match w.cols, parseRows o with
      | some cols, some rows =>
        if !rows.all (conformsTuple cols) then
          some (if updateUnvalidated pre then "update_path_unvalidated" else if schemaAfterData pre then "schema_after_data" else "unclassified",
                s!"item {pos}: a stored tuple does not conform to the declared schema")
        else if w.expectSame.isSome && w.expectSame != some o then
          some ("unclassified", s!"item {pos}: a rejected insert changed the relation")
        else next { w with lastRows := some o, expectSame := none }
      | some _, none => some ("unclassified", s!"item {pos}: unparsable rows {o}")
      | none, _ => next { w with lastRows := some o, expectSame := none }

def hist : Handler := fun args impl =>
  let s := joinWith " " args
  let (hd, items) := match s.splitOn " | " with
    | [h] => (h, "")
    | h :: t :: _ => (h, t)
    | [] => ("", "")
  match parseNat hd with
  | some ar =>
    if ar < 1 || ar > 4 then badReq else
    match (if items.isEmpty then some [] else optMapM parseItem ((items.splitOn " ; ").map (·.splitOn " "))) with
    | some ops =>
      let (_, outs) := SState.run SState.init ops
      let model := joinWith " " (outs.map outWire)
      let io := if impl.isEmpty then [] else impl.splitOn " "
      let spec := if io.length != ops.length then specFail "unclassified" "output-shape" else
        match specWalk [] ops io {} 0 with
        | none => specOk
        | some (c, d) => specFail c d
      let declared := ops.any (fun o => match o with | .decl _ => true | _ => false)
      let nt := declared && ops.any (fun o => match o with | .insert _ | .upd _ | .validate _ => true | _ => false)
      { model := model, spec := spec, nt := nt }
    | none => badReq
  | none => badReq

def handlers : List (String × Handler) := [("c33.hist", hist)]

end ILV.Drv.C33
