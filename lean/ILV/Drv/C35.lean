import ILV.Drv.Common
import ILV.Model.WireSort
/-
  Driver for C35.
  c35.cmp <a> <b> <c>            (`-` = absent value)  → `ab bc ac ba` orderings of compare_wire_values
  c35.query <keys> <limit> <offset> | row ; row ; …    keys = `0a,2d` | `-`, limit/offset = n | `-`
        → `total=<n> rows=<row+row+…|->` after sort_rows; rows.len(); apply_pagination   (or `panic`)
  c35.e2e  … same shape, executed through Handler::execute_program (`+r[…]` then `?r(X0:asc,…), limit(n,o)`);
        the stored relation is a set, so the model de-duplicates first.
-/
namespace ILV.Drv.C35
open ILV

def parseKeys (s : String) : Option (List SortKey) :=
  if s == "-" then some [] else
  optMapM (fun (k : String) =>
    let cs := k.toList
    match cs.reverse with
    | d :: rest =>
      match parseNat (String.ofList rest.reverse), d with
      | some c, 'a' => some (c, false)
      | some c, 'd' => some (c, true)
      | _, _ => none
    | [] => none) (s.splitOn ",")

def parseOpt (s : String) : Option (Option Nat) :=
  if s == "-" then some none else (parseNat s).map some

structure Q where
  keys : List SortKey
  limit : Option Nat
  offset : Option Nat
  rows : List WRow

def parseQ (args : List String) : Option Q :=
  let s := joinWith " " args
  let (hd, items) := match s.splitOn " | " with
    | [h] => (if h.endsWith " |" then (h.dropEnd 2).toString else h, "")
    | h :: t :: _ => (h, t)
    | [] => ("", "")
  match hd.splitOn " " with
  | [k, l, o] =>
    match parseKeys k, parseOpt l, parseOpt o, (if items.isEmpty then some [] else optMapM WRow.ofWire (items.splitOn " ; ")) with
    | some k, some l, some o, some rows => some { keys := k, limit := l, offset := o, rows := rows }
    | _, _, _, _ => none
  | _ => none

def pageOut (total : Nat) (rows : List WRow) : String :=
  s!"total={total} rows={if rows.isEmpty then "-" else joinWith "+" (rows.map WRow.toWire)}"

def parsePage (impl : String) : Option (Nat × List WRow) :=
  match impl.splitOn " " with
  | [t, r] =>
    match t.splitOn "=", r.splitOn "=" with
    | ["total", n], ["rows", rs] =>
      match parseNat n, (if rs == "-" then some [] else optMapM WRow.ofWire (rs.splitOn "+")) with
      | some n, some rows => some (n, rows)
      | _, _ => none
    | _, _ => none
  | _ => none

/-! identifying predicates of the known defect families (computed from the input only) -/

def colVals (rows : List WRow) (col : Nat) : List WVal := rows.filterMap (fun r => r[col]?)

/-- a sort-key column contains a Float64 NaN. -/
def nanInSortKey (keys : List SortKey) (rows : List WRow) : Bool :=
  keys.any (fun (c, _) => (colVals rows c).any WVal.isNaN)

/-- a sort-key column holds a Float64 together with an Int64 of magnitude > 2^53. -/
def bigIntWithFloat (keys : List SortKey) (rows : List WRow) : Bool :=
  keys.any (fun (c, _) =>
    let vs := colVals rows c
    vs.any (fun v => match v with | .f64 _ => true | _ => false) &&
    vs.any (fun v => match v with | .i64 n => decide (n.natAbs > 2^53) | _ => false))

def cls (keys : List SortKey) (rows : List WRow) : String :=
  if nanInSortKey keys rows then "nan_in_sort_key"
  else if bigIntWithFloat keys rows then "int64_beyond_2p53_with_float64"
  else "unclassified"

/-- Spec verdict on the implementation's output for answer `a`. -/
def specVerdict (keys : List SortKey) (a : List WRow) (limit offset : Option Nat) (impl : String) : String :=
  if impl == "panic" then specFail (cls keys a) "sorting-failed(panic)"
  else match parsePage impl with
    | none => specFail "unclassified" ("unparsable-impl-output " ++ (impl.take 60).toString)
    | some (total, page) =>
      if total != a.length then specFail "unclassified" s!"total {total} but the answer has {a.length} rows"
      else if page.length != wantLen a.length limit offset then specFail "unclassified" s!"page has {page.length} rows, slice has {wantLen a.length limit offset}"
      else if (subMultiset page a).isNone then specFail "unclassified" "page is not a sub-multiset of the answer"
      else if specPageOk keys a limit offset page then specOk
      else specFail (cls keys a) "page is not a slice of any sorted permutation of the answer"

/-- what the model says for answer `a` given in the order `sort_rows` receives it; `exactOrder = false`
    when that order is unknown (end-to-end), in which case the result is only determined if no two rows tie. -/
def modelOut (keys : List SortKey) (a : List WRow) (limit offset : Option Nat) (impl : String) (orderKnown : Bool) : String :=
  -- the closure is a total preorder on all rows (Lemmas.WireOrder), so the stable sorted permutation is
  -- determined by the input order; when that order is unknown (end-to-end) only if no two rows tie
  let tieFree := a.all (fun x => a.all (fun y => x == y || rowCmp keys x y != .eq))
  let determined := orderKnown || (tieFree && !keys.isEmpty)
  if determined then
    let (t, p) := queryPage a keys limit offset
    pageOut t p
  else
    -- unknown input order with ties: any stable outcome; the result must be a slice-sized sub-multiset
    match parsePage impl with
      | some (total, page) =>
        if total == a.length && page.length == wantLen a.length limit offset && (subMultiset page a).isSome then impl
        else "unspecified-order-but-not-a-permutation-slice"
      | none => "unspecified-order-but-unparsable"

def query : Handler := fun args impl =>
  match parseQ args with
  | some q =>
    { model := modelOut q.keys q.rows q.limit q.offset impl true,
      spec := specVerdict q.keys q.rows q.limit q.offset impl,
      nt := !q.keys.isEmpty && decide (q.rows.length ≥ 2) }
  | none => badReq

def dedup : List WRow → List WRow
  | [] => []
  | x :: xs => if xs.contains x then dedup xs else x :: dedup xs

/-- values the end-to-end generator can write as IQL literals (mirrors `lit` in harness/src/p/c35.rs). -/
def litOk : WVal → Bool
  | .i64 n => decide (n.natAbs ≤ 2^62)
  | .f64 b =>
    let mag := b % 2^63
    let e := mag / 2^52
    let frac := mag % 2^52
    -- finite, a multiple of 0.5, |f| < 2^53 + 1024, not -0.0
    b != 2^63 && decide (mag < 1076 * 2^52 + 512) &&
      (mag == 0 || (decide (1022 ≤ e) && frac % 2^(52 - min 52 (e - 1022)) == 0))
  | .str s => s.all (fun c => (48 ≤ c && c ≤ 57) || (65 ≤ c && c ≤ 90) || (97 ≤ c && c ≤ 122))
  | _ => false

def e2e : Handler := fun args impl =>
  match parseQ args with
  | some q =>
    let arity := q.keys.length
    let shapeOk := arity != 0 && !q.rows.isEmpty && q.rows.all (fun r => r.length == arity && r.all litOk) &&
      (q.keys.zipIdx.all (fun ((c, _), i) => c == i)) && !(q.limit.isNone && q.offset.isSome)
    if !shapeOk then badReq else
    let a := dedup q.rows
    { model := modelOut q.keys a q.limit q.offset impl false,
      spec := specVerdict q.keys a q.limit q.offset impl,
      nt := decide (a.length ≥ 2) }
  | none => badReq

/-- end-to-end with a computed sort column: facts r(X, Y, F) → answer rows (X, if F = 1 then NaN else Y). -/
def e2enan : Handler := fun args impl =>
  match parseQ args with
  | some q =>
    let rowOk := fun (r : WRow) => match r with
      | [.i64 x, .f64 y, .i64 f] => litOk (.i64 x) && litOk (.f64 y) && (f == 0 || f == 1)
      | _ => false
    let shapeOk := !q.rows.isEmpty && q.rows.all rowOk && (q.keys.map (·.1)) == [1] && !(q.limit.isNone && q.offset.isSome)
    if !shapeOk then badReq else
    let a := dedup (q.rows.map (fun r => match r with
      | [x, y, .i64 f] => [x, if f == 1 then .f64 0x7ff8000000000000 else y]
      | r => r))
    { model := modelOut q.keys a q.limit q.offset impl false,
      spec := specVerdict q.keys a q.limit q.offset impl,
      nt := decide (a.length ≥ 2) }
  | none => badReq

def optW (s : String) : Option (Option WVal) := if s == "-" then some none else (WVal.ofWire s).map some

def leO (o : Ordering) : Bool := o != .gt

def cmp : Handler := fun args _impl =>
  match args.map optW with
  | [some a, some b, some c] =>
    let ab := compareWire a b; let bc := compareWire b c; let ac := compareWire a c; let ba := compareWire b a
    let lawsHold := ba == revOrd ab && (!(leO ab && leO bc) || leO ac)
    { model := s!"{Ordering.toWire ab} {Ordering.toWire bc} {Ordering.toWire ac} {Ordering.toWire ba}",
      -- the comparator's laws are not the property (the property is about query results); recorded only
      spec := if lawsHold then specOk else "na",
      nt := true }
  | _ => badReq

def handlers : List (String × Handler) := [("c35.cmp", cmp), ("c35.query", query), ("c35.e2e", e2e), ("c35.e2enan", e2enan)]

end ILV.Drv.C35
