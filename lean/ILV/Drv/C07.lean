import ILV.Drv.C01
namespace ILV.Drv.C07
open ILV ILV.DL ILV.Engine ILV.Drv.C01

/-- a self-recursive head one of whose recursive clauses has an aggregate in its head. -/
def recursiveMinMaxHead (p : Program) : Bool :=
  p.any (fun r => r.scans.contains r.hrel && r.hasAgg)

/-- does the tuple have the shape of the head of `r` (arity; constants in place)? -/
def fitsHead (r : Rule) (t : Tuple) : Bool :=
  t.length == r.hargs.length &&
  (List.range r.hargs.length).all (fun i =>
    match r.hargs[i]? with
    | some (.const c) => t[i]? == some c
    | _ => true)

def hasDup : List String → Bool
  | [] => false
  | x :: xs => xs.contains x || hasDup xs

/-- C07's Spec on the implementation's answer: a set of tuples each of which has the shape of
    some clause of the queried head. -/
def verdict (cfg : Cfg) (p : Program) (edb : DB) (impl : String) : String × Bool :=
  if impl.startsWith "err:" || headHasFacts p edb then ("na", false) else
  let ws := if impl == "{}" then [] else impl.splitOn ";"
  let cs := clausesOf p (queryRel p)
  let bad := ws.filter (fun w => match Tuple.ofWire w with
    | some t => !(cs.any (fun r => fitsHead r t))
    | none => true)
  let nt := !ws.isEmpty
  if !hasDup ws && bad.isEmpty then (specOk, nt) else
  let detail := if hasDup ws then "duplicate" else "shape"
  let cls :=
    if queryRel p != answeredRel p then "last_rule_head_not_last_head"
    else if lastHeadMultiClauseWithSip cfg p then "last_head_multi_clause_with_sip"
    else "unclassified"
  (specFail cls detail, nt)

/-- `c07.run`: switches off → model answer (the min/max-in-loop path is outside the model: echo). -/
def runH : Handler := fun args impl =>
  match parseReq args with
  | some (cfg, edb, p) =>
    let (sv, nt) := verdict cfg p edb impl
    let m := (Engine.run cfg (fun _ => 0) (fun _ ts => ts) fuelDefault p edb).toWire
    -- `err:fragment`: an aggregate other than the modelled min/max-in-loop form inside a fix-point
    { model := if allOff cfg && m != "err:fragment" then m else impl, spec := sv, nt := nt }
  | none => badReq

/-- `c07.rank cfg <arity> <iql-hex> | facts`: ranking-aggregate heads (IQL text, not modelled):
    the answer must be duplicate-free and every tuple must have the head's arity
    (group variables + output variables). Model column echoes. -/
def rankH : Handler := fun args impl =>
  match args with
  | _ :: ar :: _ :: _ =>
    match ar.toNat? with
    | some n =>
      if impl.startsWith "err:" then { model := impl, spec := "na", nt := false } else
      let ws := if impl == "{}" then [] else impl.splitOn ";"
      let bad := ws.filter (fun w => match Tuple.ofWire w with | some t => t.length != n | none => true)
      let sv := if hasDup ws then specFail "unclassified" "rank duplicate"
        else if !bad.isEmpty then specFail "unclassified" "rank-shape" else specOk
      { model := impl, spec := sv, nt := !ws.isEmpty }
    | none => badReq
  | _ => badReq

def handlers : List (String × Handler) := [("c07.run", runH), ("c07.rank", rankH)]

end ILV.Drv.C07
