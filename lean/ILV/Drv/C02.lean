import ILV.Drv.C01
import ILV.Drv.C05
namespace ILV.Drv.C02
open ILV ILV.DL ILV.Engine ILV.IR

def parseItemsOnly (args : List String) : Option (DB × Program) :=
  match args with
  | "|" :: items => parseItems (items.filter (· != ";")) [] []
  | _ => none

/-! identifying predicates (on the program) of the switch-dependent defect families -/

def unionWithJoin (p : Program) : Bool :=
  (heads p).any (fun h => (clausesOf p h).length ≥ 2 && (clausesOf p h).any (fun r => r.posAtoms.length ≥ 2))

/-- a rule SIP rewrites (≥ 2 positive atoms, head not recursive) with a body atom column that is not a
    plain unique variable (wildcard, constant or repeated variable): `unique_variables_of_predicate`
    drops such columns from the `*_sip*` intermediates. -/
def atomHasNonVarColumn (a : Atom) : Bool :=
  let vs := a.args.filterMap (fun | .var x => some x | _ => none)
  a.args.any (fun t => match t with | .var _ => false | _ => true) || vs.length != (dedupS vs).length

def sipDropsColumns (p : Program) : Bool :=
  p.any (fun r => r.posAtoms.length ≥ 2 && !selfRec p r.hrel && r.posAtoms.any atomHasNonVarColumn)

def sipRewritesRule (p : Program) : Bool :=
  p.any (fun r => r.posAtoms.length ≥ 2 && !selfRec p r.hrel)

def hasRepeatedVarAtom (p : Program) : Bool :=
  p.any (fun r => r.posAtoms.any (fun a =>
    let vs := a.args.filterMap (fun | .var x => some x | _ => none)
    vs.length != (dedupS vs).length))

def exprIsArith : DL.Expr → Bool
  | .bin .. => true
  | _ => false

/-- a rule SIP rewrites that also carries an arithmetic comparison / assignment -/
def sipWithArith (p : Program) : Bool :=
  p.any (fun r => r.posAtoms.length ≥ 2 && !selfRec p r.hrel && r.cmps.any (fun c => exprIsArith c.2.1 || exprIsArith c.2.2))

/-- `jpAlone` = flipping only the join-planning switch already changes the answer (read off the deviating masks) -/
def classify (p : Program) (jpAlone : Bool) : String :=
  if jpAlone && hasRepeatedVarAtom p then "repeated_variable_in_atom"
  else if jpAlone && unionWithJoin p then "union_with_join_heads"
  else if (clausesOf p (answeredRel p)).length ≥ 2 || queryRel p != answeredRel p then "last_head_multi_clause"
  else if sipWithArith p then "sip_rule_with_arithmetic_comparison"
  else if hasRepeatedVarAtom p then "repeated_variable_in_atom"
  else if p.any (fun r => r.hasAgg) && sipDropsColumns p then "sip_drops_columns_under_aggregate"
  else if sipDropsColumns p then "sip_non_variable_column"
  else if unionWithJoin p then "union_with_join_heads"
  else "unclassified"

/-- which switches, flipped alone from all-off, change the answer (from the masks that differ) -/
def detail (parts : List String) : String :=
  let ms := parts.flatMap (fun g => match g.splitOn "@" with | [_, m] => m.splitOn "+" | _ => [])
  let single := [("10000", "jp"), ("01000", "sip"), ("00100", "ss"), ("00010", "bs"), ("00001", "ms")]
  let resp := single.filterMap (fun (m, n) => if ms.contains m then some n else none)
  s!"configs-differ:{ms.length}-of-31:single-switch={joinWith "+" resp}"

def cfgsH : Handler := fun args impl =>
  match parseItemsOnly args with
  | some (edb, p) =>
    let parts := impl.splitOn "#"
    let base := (Engine.run {} C01.sipHashDummy (fun _ ts => ts) C01.fuelDefault p edb).toWire
    let rest := parts.drop 1
    -- the switch-controlled passes have no program-level Lean model: their part of the output is read back
    let m := if rest.isEmpty then base else base ++ "#" ++ joinWith "#" rest
    let nt := !(base.startsWith "err") && base != "{}" && p.any (fun r => r.body.length ≥ 2)
    { model := m, spec := if rest.isEmpty then specOk else specFail (classify p ((rest.flatMap (fun g => match g.splitOn "@" with | [_, m] => m.splitOn "+" | _ => [])).contains "10000")) (detail rest), nt := nt }
  | none => badReq

def semW : Semiring → String
  | .boolean => "boolean" | .counting => "counting" | .min => "min" | .max => "max"

def irClass (t : Node) : String :=
  if analyze t == .boolean && C05.hasAggregate t then "aggregate_under_boolean_annotation"
  else if C05.emptyFirstBranch t then "empty_first_union_branch_width"
  else "unclassified"

def irH : Handler := fun args impl =>
  match parseTreeAndDb args with
  | some (t, db) =>
    if !t.supported then { model := "unsupported", spec := "na", nt := false } else
    let o0 := pipe false t
    let o1 := pipe true t
    let m := o0.wire ++ "#" ++ relWire (answer db o0) ++ "#sem=" ++ semW (pipeSem true t) ++ " " ++ o1.wire ++ "#" ++ relWire (answer db o1)
    let spec := match impl.splitOn "#" with
      | [_, a0, _, a1] => if a0 == a1 then specOk else specFail (irClass t) "answer-depends-on-boolean-specialization-switch"
      | _ => specFail "unclassified" "unparsable-impl-output"
    { model := m, spec := spec, nt := o0.wire != o1.wire }
  | none => badReq

def handlers : List (String × Handler) := [("c02.cfgs", cfgsH), ("c02.ir", irH)]

end ILV.Drv.C02
