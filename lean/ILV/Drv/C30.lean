import ILV.Drv.HWorld
namespace ILV.Drv.C30
open ILV ILV.Handler ILV.Text ILV.Gen.C28 ILV.Drv.HW

/-- `c30.text <hex program>`: the Lean text layer against the real `strip_comments` /
    `join_continuation_lines` / `lines` / `trim` / `strip_inline_comment` -/
def text : Handler := fun args _impl =>
  match args with
  | [h] =>
    match ofHex h with
    | some p =>
      let ll := logicalLines p.toList
      let k := String.ofList (stmtKey p.toList)
      { model := s!"{if ll.isEmpty then "-" else ",".intercalate (ll.map fun l => toHex (String.ofList l))} {toHex k}",
        spec := "na", nt := p.toList.contains '\n' }
    | none => badReq
  | _ => badReq

def mutating (st : Stmt) : Bool :=
  match st.eff with
  | .insert .. | .delete .. | .prule _ | .schema .. | .dropName _ => true
  | .name _ => st.kind == .kgCreate || st.kind == .kgDrop || st.kind == .relDrop || st.kind == .clearPrefix
  | _ => false

/-- identifying predicate of the one known defect family: the call carries a session, and the whole
    text — cut at its first `//` by `strip_inline_comment` — parses as a statement that
    `execute_program` handles *before* `query_program` validates the lines (session fact / session
    rule / session-, user-, ACL meta command). -/
def interceptedBeforeValidation (P : Parser) (c : Call) : Bool :=
  c.api == "exec" &&
  match parseStatement P (trim c.text) with
  | some st =>
    (c.useSess && (st.kind == .fact || st.kind == .sessionRule || st.kind == .sessionClear || st.kind == .sessionList
                   || st.kind == .sessionDrop || st.kind == .sessionDropName)) ||
    st.kind == .userList || st.kind == .kgAclList || st.kind == .kgAclGrant || st.kind == .kgAclRevoke
  | none => false

/-- C30 judged on what the implementation reported for one call -/
def callSpec (P : Parser) (c : Call) (w0 : World) (outcome dumpBefore dumpAfter : String) : String × Bool :=
  let lines := logicalLines c.text
  let parsed := lines.map (parseStatement P)
  let hasErr := parsed.any (·.isNone)
  let nMut := (parsed.filterMap id).filter mutating |>.length
  if hasErr then
    let rejected := outcome.startsWith "err:"
    let unchanged := dumpBefore == dumpAfter
    let nt := nMut ≥ 1 || interceptedBeforeValidation P c
    if rejected && unchanged then (specOk, nt)
    else
      let cls := if interceptedBeforeValidation P c then "session-intercept-before-validation" else "unclassified"
      (specFail cls (if !rejected then "syntax-error-but-accepted" else "syntax-error-but-state-changed"), nt)
  else if c.api == "query" then
    -- no syntax error: effects in program order = sequential application of the statements
    if !hasKg w0 (c.kgArg.getD "default") then ("na", false) else
    let final := match (specRun P ⟨w0, c.kgArg.getD "default", [], none, none, [], []⟩ [] lines).1 with
      | .cont s => s.w | .abort s _ => s.w
    if printWorld final == dumpAfter then (specOk, nMut ≥ 2) else (specFail "unclassified" "effects-not-in-program-order", nMut ≥ 2)
  else ("na", false)

def worldCase (op : String) : Handler := fun args impl =>
  match judge op args impl with
  | .error e => { model := e, spec := "na", nt := false }
  | .ok j =>
    -- judge every call on the implementation's own outcome and dumps; pre-state = implementation's dump
    let rec go (cs : List Call) (outs : List String) (dumps : List String) (acc : List (String × Bool)) : List (String × Bool) :=
      match cs, outs, dumps with
      | c :: cs, o :: outs, d0 :: d1 :: ds =>
        let w0 := (parseDump d0).getD ⟨[], []⟩
        go cs outs (d1 :: ds) (acc ++ [callSpec j.P c w0 o d0 d1])
      | _, _, _ => acc
    let vs := go j.cs.calls j.implOutcomes j.implDumps []
    let fails := vs.filter (·.1.startsWith "fail:")
    let spec := match fails with
      | f :: _ => f.1
      | [] => if vs.any (·.1 == specOk) then specOk else "na"
    { model := j.model, spec := spec, nt := vs.any (·.2) }

def handlers : List (String × Handler) :=
  [("c30.text", text), ("c30.q", worldCase "q"), ("c30.prog", worldCase "prog"), ("c30.hist", worldCase "hist")]

end ILV.Drv.C30
