/-
  Driver-side plumbing shared by the storage properties (C11, C12, C14): parsing of a history
  request `<cfg> | item ; item ; …`, rendering of the observations exactly as `harness/src/u/store.rs`
  prints them, and the output-producing step function whose state component is `Store.step`.
-/
import ILV.Drv.Common
import ILV.Model.Store
namespace ILV.Drv.StoreRun
open ILV ILV.Batch ILV.Store

def parseMode : String → Option Mode
  | "i" => some .immediate | "b" => some .batched | "a" => some .async | _ => none

def parseCfg (s : String) : Option Cfg :=
  let go (acc : Option Cfg) (p : String) : Option Cfg :=
    match acc with
    | none => none
    | some c =>
      let v := (p.drop 1).toString
      if p.startsWith "b" then (parseNat v).map (fun n => { c with buffer := n })
      else if p.startsWith "w" then (parseNat v).map (fun n => { c with walMax := n })
      else if p.startsWith "m" then (parseMode v).map (fun m => { c with mode := m })
      else none
  match (s.splitOn ",").foldl go (some {}) with
  | some c => if c.buffer == 0 then none else some c
  | none => none

def parseItem (s : String) : Op :=
  match s.splitOn " " with
  | ["save"] => .save
  | ["savekg"] => .savekg
  | ["compact"] => .compact
  | ["compactif", n] => match parseNat n with | some k => .compactIf k | none => .bad
  | ["restart"] => .restart
  | ["shutdown"] => .shutdown
  | ["obs"] => .obs
  | ["files"] => .files
  | ["q"] => .q
  | "ins" :: r :: ts => match optMapM Tuple.ofWire ts with | some l => .ins r l | none => .bad
  | "del" :: r :: ts => match optMapM Tuple.ofWire ts with | some l => .del r l | none => .bad
  | _ => .bad

/-- the request arguments (already split on single spaces) → configuration and items. -/
def parseHist (args : List String) : Option (Cfg × List Op) :=
  match args with
  | [] => none
  | cfg :: rest =>
    match parseCfg cfg with
    | none => none
    | some c =>
      let tail := joinWith " " rest
      if tail == "|" || tail == "" then some (c, [])
      else if tail.startsWith "| " then some (c, ((tail.drop 2).toString.splitOn " ; ").map parseItem)
      else none

def strLe (a b : String) : Bool := !(b < a)

def relNames (ops : List Op) : List String :=
  let names := ops.filterMap (fun o => match o with | .ins r _ => some r | .del r _ => some r | _ => none)
  sortBy strLe (dedupBy (· == ·) names)

/-- `rel_to_wire`: wire strings sorted, joined by `;`, `{}` when empty (duplicates kept). -/
def relToWire (ts : List Tuple) : String :=
  if ts.isEmpty then "{}" else joinWith ";" (sortBy strLe (ts.map Tuple.toWire))

def renderState (e : Engine) (rels : List String) : String :=
  if rels.isEmpty then "()" else
  joinWith " " (rels.map (fun r =>
    let ar := match aget e.arity r with | some a => toString a | none => "-"
    let body := match aget e.live r with | some ts => relToWire ts | none => "-"
    s!"{r}:{ar}={body}"))

def renderQ (e : Engine) (rels : List String) : String :=
  if rels.isEmpty then "()" else
  joinWith " " (rels.map (fun r =>
    let body := match aget e.arity r with
      | none => "-"
      | some 0 => "arity0"
      | some k => relToWire (dedupBy Tuple.eq (((aget e.live r).getD []).filter (fun t => t.length == k)))
    s!"{r}={body}"))

def renderFiles (e : Engine) (rels : List String) : String :=
  if rels.isEmpty then "()" else
  joinWith " " (rels.map (fun r =>
    let b := match aget e.shards r with
      | some sh => joinWith "," (sh.diskBatches.map (fun (b : List Update) => toString b.length))
      | none => "-"
    let w := (e.wal.filter (fun p => p.1 == r)).length
    s!"{r}:b[{b}]w{w}"))

def resTok : Option String → String
  | none => "ok"
  | some k => "err:" ++ k

/-- one item: new state and the token the harness prints for it. -/
def stepOut (c : Codec) (rels : List String) (e : Engine) (o : Op) : Engine × String :=
  if e.dead then (e, "dead") else
  match o with
  | .ins r ts => insert c e r ts
  | .del r ts => delete c e r ts
  | .save | .savekg => let r := saveAll c e; (r.1, resTok r.2)
  | .compact => let r := compactAll c e; (r.1, resTok r.2)
  | .compactIf n => let r := compactIf c e n; (r.1.1, match r.1.2 with | none => s!"ok{r.2}" | some k => "err:" ++ k)
  | .restart =>
    let pre := renderState e rels
    let r := restart c e
    (r.1, match r.2 with | none => s!"pre={pre} post={renderState r.1 rels}" | some k => s!"pre={pre} post=err:{k}")
  | .shutdown =>
    let pre := renderState e rels
    let s := saveAll c e
    let sv := if s.2.isSome then "save-err " else ""
    let r := restart c s.1
    (r.1, match r.2 with | none => s!"{sv}pre={pre} post={renderState r.1 rels}" | some k => s!"{sv}pre={pre} post=err:{k}")
  | .obs => (e, renderState e rels)
  | .q => (e, renderQ e rels)
  | .files => (e, renderFiles e rels)
  | .bad => (e, "bad-item")

def runOut (c : Codec) (rels : List String) : Engine → List Op → List String
  | _, [] => []
  | e, o :: os => let r := stepOut c rels e o; r.2 :: runOut c rels r.1 os

/-- the whole output line for a history. -/
def histOutputWith (c : Codec) (cfg : Cfg) (ops : List Op) : String :=
  if ops.isEmpty then "empty" else joinWith " | " (runOut c (relNames ops) { cfg := cfg } ops)

def histOutput (cfg : Cfg) (ops : List Op) : String := histOutputWith realCodec cfg ops

/-! ### reading the implementation's output back (for the Spec oracles) -/

/-- `name:ar=body` → (name, tuples as wire strings). -/
def parseRelEntry (s : String) : Option (String × List String) :=
  match s.splitOn "=" with
  | [nm, body] =>
    match nm.splitOn ":" with
    | [name, _] => some (name, if body == "-" || body == "{}" then [] else body.splitOn ";")
    | _ => none
  | _ => none

def parseState (s : String) : Option (List (String × List String)) :=
  if s == "()" then some [] else optMapM parseRelEntry (s.splitOn " ")

/-- a `pre=… post=…` token → (pre, post) with `post = none` when the reopen failed. -/
def parseRestartTok (tok : String) : Option (List (String × List String) × Option (List (String × List String))) :=
  let tok := if tok.startsWith "save-err " then (tok.drop 9).toString else tok
  if !tok.startsWith "pre=" then none else
  match ((tok.drop 4).toString).splitOn " post=" with
  | [pre, post] =>
    match parseState pre with
    | none => none
    | some p => if post.startsWith "err:" then some (p, none) else (parseState post).map (fun q => (p, some q))
  | _ => none

end ILV.Drv.StoreRun
