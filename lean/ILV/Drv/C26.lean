/-
  C26 handlers: the model's answer for each request of harness/src/p/c26.rs (printed in exactly
  the harness's format) and the Spec verdict judged on the implementation's output.
  Spec (C26): distances symmetric, non-negative, zero on identical inputs (cosine: ≤ 2^-50),
  cosine ∈ [0,2]; quantise→dequantise error ≤ (1/2 + 2^-10) quantisation steps; LSH buckets are a
  function of (vector, table, hyperplane count); probe sequences start at the bucket, are
  distinct, non-decreasing in Hamming distance, of the stated length; interval predicates.
-/
import ILV.Drv.Common
import ILV.Drv.NativeFloat
import ILV.Model.VecOps
import ILV.Model.Lsh
import ILV.Model.SipHash
import ILV.Model.Temporal
namespace ILV.Drv.C26
open ILV ILV.VecOps ILV.Lsh

abbrev NF := nativeFloat

/-! ### wire -/

def f64w (x : Float) : String := if x.isNaN then "nan" else natToHexW 16 x.toBits.toNat
def f32w (x : Float32) : String := if x.isNaN then "nan" else natToHexW 8 x.toBits.toNat

def vecBitsOfWire (s : String) : Option (List Nat) :=
  if !s.startsWith "v:" then none else
  let r := (s.drop 2).toString
  if r.isEmpty then some [] else optMapM (fun x => if x.length == 8 then hexToNat x else none) (r.splitOn "/")
def vecOfWire (s : String) : Option (List Float32) := (vecBitsOfWire s).map (·.map NF.ofBits32)

def v8OfWire (s : String) : Option (List Int) :=
  if !s.startsWith "v8:" then none else
  let r := (s.drop 3).toString
  if r.isEmpty then some [] else
    optMapM (fun x => match parseInt x with | some i => if -128 ≤ i ∧ i ≤ 127 then some i else none | none => none) (r.splitOn "/")

def f64sOfWire (s : String) : Option (List Float) :=
  if !s.startsWith "d:" then none else
  let r := (s.drop 2).toString
  if r.isEmpty then some [] else optMapM (fun x => if x.length == 16 then (hexToNat x).map NF.ofBits64 else none) (r.splitOn "/")

def vecRes (v : List Float32) : String := if v.isEmpty then "-" else "/".intercalate (v.map f32w)
def v8Res (v : List Int) : String := if v.isEmpty then "-" else "/".intercalate (v.map toString)
def intsRes (v : List Int) : String := if v.isEmpty then "-" else ",".intercalate (v.map toString)
def b01 (b : Bool) : String := if b then "1" else "0"

def parseI64 (s : String) : Option Int :=
  match parseInt s with
  | some i => if -(2 ^ 63 : Int) ≤ i ∧ i < (2 ^ 63 : Int) then some i else none
  | none => none
def parseUsize (s : String) : Option Nat :=
  match parseNat s with
  | some n => if n < 2 ^ 64 then some n else none
  | none => none

/-- `k=v k=v …` fields of an implementation output. -/
def fields (s : String) : List (String × List String) :=
  (s.splitOn " ").filterMap (fun kv => match kv.splitOn "=" with
    | [k, v] => some (k, v.splitOn ",")
    | _ => none)
def field (fs : List (String × List String)) (k : String) : List String := (fs.lookup k).getD []

/-- a non-NaN f64 result is `≥ 0` iff its sign bit is clear or it is `-0.0`. -/
def hexGe0 (h : String) : Bool := match hexToNat h with
  | some n => n < 2 ^ 63 || n == 2 ^ 63
  | none => false
def hexIsZero (h : String) : Bool := match hexToNat h with
  | some n => n == 0 || n == 2 ^ 63
  | none => false
/-- non-negative and `≤` the non-negative bound (bit patterns of non-negative doubles are ordered). -/
def hexIn (h : String) (hi : Nat) : Bool := match hexToNat h with
  | some n => n ≤ hi || n == 2 ^ 63
  | none => false

def eps50 : Nat := 0x3cd0000000000000   -- 2^-50
def two64b : Nat := 0x4000000000000000   -- 2.0

/-! ### c26.dist -/

def tri (f : List Float32 → List Float32 → Float) (a b : List Float32) : String :=
  s!"{f64w (f a b)},{f64w (f b a)},{f64w (f a a)}"

def chk (c : Checked Float) : String := match c with
  | .ok x => f64w x
  | .dim e g => s!"dim{e}-{g}"

def distModel (a b : List Float32) : String :=
  s!"e={tri (euclid NF) a b} s={tri (euclidSq NF) a b} c={tri (cosine NF) a b} d={tri (dot NF) a b} m={tri (manhattan NF) a b} " ++
  s!"ck={chk (checked NF (euclid NF) a b)},{chk (checked NF (cosine NF) a b)},{chk (checked NF (dot NF) a b)},{chk (checked NF (manhattan NF) a b)} " ++
  s!"n={f64w (norm NF a)} z={vecRes (normalize NF a)}"

/-- identifying predicate of the overflow family: some component has magnitude ≥ 2^60, so a product or
    a sum of at most 64 products can leave the f32 range. -/
def hugeComponent (bits : List Nat) : Bool := bits.any (fun b => b % 2 ^ 31 ≥ 0x5d800000)
def allFinite (bits : List Nat) : Bool := bits.all (fun b => b % 2 ^ 31 < 0x7f800000)

def distSpec (ab bb : List Nat) (impl : String) : String :=
  if !(allFinite ab && allFinite bb) then "na" else
  let fs := fields impl
  let same := ab.length == bb.length
  let cls := if hugeComponent ab || hugeComponent bb then "f32_overflow" else "unclassified"
  let bad := ["e", "s", "c", "d", "m"].filterMap (fun k =>
    match field fs k with
    | [xab, xba, xaa] =>
      if xab != xba then some s!"{k}-asymmetric"
      else if k == "d" then none
      else if xab == "nan" || xaa == "nan" then some s!"{k}-nan"
      else if !(hexGe0 xab && hexGe0 xaa) then some s!"{k}-negative"
      else if k == "c" then
        (if same && !(hexIn xab two64b) then some "c-above-2" else if !(hexIn xaa eps50) then some "c-identical-above-eps" else none)
      else if !(hexIsZero xaa) then some s!"{k}-identical-nonzero"
      else none
    | _ => some s!"{k}-unparsable")
  match bad with
  | [] => "ok"
  | d :: _ => specFail cls d

def dist : Handler := fun args impl =>
  match args with
  | [wa, wb] => match vecBitsOfWire wa, vecBitsOfWire wb with
    | some ab, some bb =>
      let a := ab.map NF.ofBits32; let b := bb.map NF.ofBits32
      { model := distModel a b, spec := distSpec ab bb impl,
        nt := !ab.isEmpty && ab.length == bb.length && allFinite ab && allFinite bb }
    | _, _ => badReq
  | _ => badReq

/-! ### c26.int8 -/

def tri8 (f : List Int → List Int → Float) (a b : List Int) : String :=
  s!"{f64w (f a b)},{f64w (f b a)},{f64w (f a a)}"

def int8Model (a b : List Int) : String :=
  s!"e={tri8 (euclidI8 NF) a b} c={tri8 (cosineI8 NF) a b} d={tri8 (dotI8 NF) a b} m={tri8 (manhattanI8 NF) a b} " ++
  s!"de={f64w (euclid NF (dequant NF a) (dequant NF b))} dc={f64w (cosine NF (dequant NF a) (dequant NF b))} dq={vecRes (dequant NF a)}"

def int8Spec (a : List Int) (same : Bool) (impl : String) : String :=
  let fs := fields impl
  let cls := if a.all (· == 0) then "int8_cosine_zero" else "unclassified"
  let bad := ["e", "c", "d", "m"].filterMap (fun k =>
    match field fs k with
    | [xab, xba, xaa] =>
      if xab != xba then some s!"{k}-asymmetric"
      else if k == "d" then none
      else if xab == "nan" || xaa == "nan" then some s!"{k}-nan"
      else if !(hexGe0 xab && hexGe0 xaa) then some s!"{k}-negative"
      else if k == "c" then
        (if same && !(hexIn xab two64b) then some "c-above-2" else if !(hexIn xaa eps50) then some "c-identical-above-eps" else none)
      else if !(hexIsZero xaa) then some s!"{k}-identical-nonzero"
      else none
    | _ => some s!"{k}-unparsable")
  match bad with
  | [] => "ok"
  | d :: _ => specFail (if d == "c-identical-above-eps" then cls else "unclassified") d

def int8 : Handler := fun args impl =>
  match args with
  | [wa, wb] => match v8OfWire wa, v8OfWire wb with
    | some a, some b => { model := int8Model a b, spec := int8Spec a (a.length == b.length) impl, nt := !a.isEmpty && a.length == b.length }
    | _, _ => badReq
  | _ => badReq

/-! ### c26.quant -/

def quantModel (a : List Float32) : String :=
  let lin := quantLinear NF a
  let sym := quantSym NF a
  let inv := NF.div32 (maxAbs NF a) (c127 NF)
  s!"lin={v8Res lin} sym={v8Res sym} mm=same deq={vecRes (dequantScale NF sym inv)}"

def parseInts (s : String) (sep : String) : Option (List Int) :=
  if s == "-" then some [] else optMapM parseInt (s.splitOn sep)

/-- budget: half a quantisation step plus 2^-10 step for the float roundings of the code. -/
def stepBudget : Float := 0.5 + 0.0009765625

def quantSpec (ab : List Nat) (impl : String) : String :=
  if ab.isEmpty || !(allFinite ab) then "na" else
  let xs : List Float := ab.map (fun b => (NF.ofBits32 b).toFloat)
  let fs := fields impl
  let mabs := xs.foldl (fun m x => if x.abs > m then x.abs else m) 0.0
  let mn := xs.foldl (fun m x => if x < m then x else m) (Float.ofBits 0x7ff0000000000000)
  let mx := xs.foldl (fun m x => if x > m then x else m) (Float.ofBits 0xfff0000000000000)
  let mbits := ab.foldl (fun m b => Nat.max m (b % 2 ^ 31)) 0
  let cls := if mbits < 0x03800000 then "quant_tiny" else if mbits ≥ 0x7e800000 then "quant_huge" else "unclassified"
  match field fs "lin", field fs "sym", field fs "deq" with
  | [l], [s], [d] =>
    match parseInts l "/", parseInts s "/", (if d == "-" then some [] else some (d.splitOn "/")) with
    | some lin, some sym, some deq =>
      if lin.length != xs.length || sym.length != xs.length || deq.length != xs.length then specFail "unclassified" "length"
      else if lin.any (fun q => q < -128 || q > 127) || sym.any (fun q => q < -127 || q > 127) then specFail "unclassified" "code-range"
      else
        let step := mabs / 127.0
        let symBad := (xs.zip deq).any (fun (x, h) => match hexToNat h with
          | some n => !((x - (Float32.ofBits (UInt32.ofNat n)).toFloat).abs ≤ step * stepBudget)
          | none => true)
        let range := mx - mn
        let lstep := range / 255.0
        let linBad := range > 0.0 && (xs.zip lin).any (fun (x, q) => !((x - (mn + (Float.ofInt (q + 128)) * lstep)).abs ≤ lstep * stepBudget))
        let linConstBad := range == 0.0 && lin.any (· != 0)
        if symBad then specFail cls "symmetric-roundtrip-exceeds-half-step"
        else if linBad || linConstBad then specFail (if cls == "quant_huge" then cls else "unclassified") "linear-roundtrip-exceeds-half-step"
        else "ok"
    | _, _, _ => specFail "unclassified" "unparsable"
  | _, _, _ => specFail "unclassified" "unparsable"

def quant : Handler := fun args impl =>
  match args with
  | [wa] => match vecBitsOfWire wa with
    | some ab => { model := quantModel (ab.map NF.ofBits32), spec := quantSpec ab impl, nt := !ab.isEmpty && allFinite ab && ab.any (fun b => b % 2 ^ 31 != 0) }
    | none => badReq
  | _ => badReq

/-! ### probes -/

def choose2 (n : Nat) : Nat := n * (n - 1) / 2
def choose3 (n : Nat) : Nat := n * (n - 1) * (n - 2) / 6
def probeTotal (n : Nat) : Nat := 1 + n + choose2 n + choose3 n

def nodupNat : List Nat → Bool
  | [] => true
  | x :: xs => !(xs.contains x) && nodupNat xs

def monotone : List Nat → Bool
  | x :: y :: r => x ≤ y && monotone (y :: r)
  | _ => true

/-- the probe laws of C26 on a sequence of i64 values. -/
def probeLaws (bucket : Int) (nbits m : Nat) (ps : List Int) : Option String :=
  let b := patOfInt bucket
  let pats := ps.map patOfInt
  if ps.length != min m (probeTotal nbits) then some "length"
  else if m > 0 && ps.head? != some bucket then some "head-not-bucket"
  else if !(nodupNat pats) then some "duplicate-probe"
  else if !(monotone (pats.map (hamming b))) then some "hamming-not-monotone"
  else if pats.any (fun p => (p ^^^ b) >>> nbits != 0) then some "flips-outside-hyperplanes"
  else none

def probesH : Handler := fun args impl =>
  match args.map parseInt with
  | [some b, some n, some m] =>
    if !(-(2 ^ 63 : Int) ≤ b ∧ b < (2 ^ 63 : Int)) || n < 0 || m < 0 then badReq else
    let n := n.toNat; let m := m.toNat
    let model := intsRes ((probes (patOfInt b) n m).map intOfPat)
    let spec := match parseInts impl "," with
      | some ps => (match probeLaws b (min n 62) m ps with | none => "ok" | some d => specFail "unclassified" d)
      | none => specFail "unclassified" "unparsable"
    { model, spec, nt := m > 1 && n > 0 }
  | _ => badReq

def fltLt (a b : Float) : Bool := decide (a < b)

def nanSummary (bucket : Int) (nbits : Nat) (ps : List Int) : String :=
  let b := patOfInt bucket
  let pats := ps.map patOfInt
  let hds := pats.map (hamming b)
  s!"nanorder len={ps.length} head={b01 (ps.head?.map (· == bucket) |>.getD true)} nodup={b01 (nodupNat pats)} mono={b01 (monotone hds)} inrange={b01 (pats.all (fun p => (p ^^^ b) >>> nbits == 0))} maxhd={hds.foldl Nat.max 0}"

/-- model answer for `lsh_probes_ranked` in the harness's format. -/
def rankedModel (b : Int) (m : Nat) (d : List Float) : String :=
  let ps := (probesRanked fltLt (patOfInt b) d m).map intOfPat
  if (d.take 62).any Float.isNaN then nanSummary b (min d.length 62) ps else intsRes ps

/-- identifying predicate of the sort-panic family: among the distances the code sorts there is a
    NaN and a non-NaN and more than 20 entries (Rust's `sort_by` checks the order only beyond its
    small-sort threshold). -/
def nanMixedLarge (d : List Float) : Bool :=
  let s := d.take 62
  s.length > 20 && s.any Float.isNaN && s.any (fun x => !x.isNaN)

def rankedSpec (b : Int) (m : Nat) (d : List Float) (impl : String) : String :=
  let nbits := min d.length 62
  if impl.startsWith "panic:" then specFail (if nanMixedLarge d then "ranked_nan_panic" else "unclassified") "panic"
  else if impl.startsWith "nanorder" then
    let want := s!"nanorder len={min m (probeTotal nbits)} head=1 nodup=1 mono=1 inrange=1"
    if impl.startsWith want then "ok" else specFail "unclassified" "nan-order-laws"
  else match parseInts impl "," with
    | some ps => (match probeLaws b nbits m ps with | none => "ok" | some x => specFail "unclassified" x)
    | none => specFail "unclassified" "unparsable"

def rankedH : Handler := fun args impl =>
  match args with
  | [sb, sm, sd] => match parseI64 sb, parseUsize sm, f64sOfWire sd with
    | some b, some m, some d =>
      let canon := rankedModel b m d
      -- with NaNs the sort's outcome is unspecified: any permutation (all give `canon`) or,
      -- for more than 20 mixed entries, the sort's total-order panic
      let model := if impl.startsWith "panic:user-provided comparison function" && nanMixedLarge d then impl else canon
      { model, spec := rankedSpec b m d impl, nt := m > 1 && !d.isEmpty }
    | _, _, _ => badReq
  | _ => badReq

def hamH : Handler := fun args _ =>
  match args.map parseI64 with
  | [some a, some b] => { model := s!"{hamming (patOfInt a) (patOfInt b)} {absI64 a} {absI64 b}", spec := "ok", nt := a != b }
  | _ => badReq

/-! ### cache -/

abbrev HP := List (List Float32)
abbrev hashFn : Nat → Nat := SipHash.hashU64

def bdRes (r : Nat × List Float) : String :=
  s!"{r.1}:{if r.2.isEmpty then "-" else "/".intercalate (r.2.map f64w)}"

def vecFinite (v : List Float32) : Bool := v.all Float32.isFinite

/-- one public call on the model cache: (new cache, printed result). -/
def cacheOp (c : Cache HP) (op : String) : Cache HP × String :=
  match op.splitOn " " with
  | ["b", t, n, v] => (match parseI64 t, parseUsize n, vecOfWire v with
    | some t, some n, some v => let (c1, r) := lshBucket NF hashFn c v t n; (c1, toString r)
    | _, _, _ => (c, "bad"))
  | ["b8", t, n, v] => (match parseI64 t, parseUsize n, v8OfWire v with
    | some t, some n, some v => let (c1, r) := lshBucketDist NF hashFn c (v.map Float.ofInt) t n; (c1, toString r.1)
    | _, _, _ => (c, "bad"))
  | ["bs", nt, n, v] => (match parseUsize nt, parseUsize n, vecOfWire v with
    | some nt, some n, some v =>
      let (c1, rs) := (List.range nt).foldl (fun (acc : Cache HP × List Int) (t : Nat) =>
        let (c1, r) := lshBucket NF hashFn acc.1 v (Int.ofNat t) n; (c1, acc.2 ++ [(r : Int)])) (c, [])
      (c1, intsRes rs)
    | _, _, _ => (c, "bad"))
  | ["bd", t, n, v] => (match parseI64 t, parseUsize n, vecOfWire v with
    | some t, some n, some v => let (c1, r) := lshBucketDist NF hashFn c (v.map Float32.toFloat) t n; (c1, bdRes r)
    | _, _, _ => (c, "bad"))
  | ["mp", t, n, m, v] => (match parseI64 t, parseUsize n, parseUsize m, vecOfWire v with
    | some t, some n, some m, some v =>
      let (c1, r) := lshBucketDist NF hashFn c (v.map Float32.toFloat) t n
      -- the harness calls bucket_with_distances and multi_probe for non-finite vectors: two cache accesses
      let c2 := if vecFinite v then c1 else (lshBucketDist NF hashFn c1 (v.map Float32.toFloat) t n).1
      (c2, rankedModel (r.1 : Int) m r.2)
    | _, _, _, _ => (c, "bad"))
  | ["pw", t, n, d] => (match parseI64 t, parseUsize n, parseUsize d with
    | some t, some n, some d => ((getOrCreate (genHyperplanes NF hashFn) c (t, n, d)).1, "-")
    | _, _, _ => (c, "bad"))
  | ["cl"] => ((step (genHyperplanes NF hashFn) (step (genHyperplanes NF hashFn) c .clearMap).1 .resetStats).1, "-")
  | ["rs", m] => (match parseUsize m with
    | some m => ((step (genHyperplanes NF hashFn) c (.resize m)).1, "-")
    | none => (c, "bad"))
  | ["st"] => (c, s!"h{c.hits}m{c.misses}e{c.evictions}n{c.entries.length}")
  | _ => (c, "bad")

/-- the same call as a function of its arguments only (no cache): what C26 (c) requires. -/
def pureOp (op : String) : Option String :=
  match op.splitOn " " with
  | ["b", t, n, v] => (match parseI64 t, parseUsize n, vecOfWire v with
    | some t, some n, some v => some (toString (lshBucketPure NF hashFn v t n))
    | _, _, _ => none)
  | ["b8", t, n, v] => (match parseI64 t, parseUsize n, v8OfWire v with
    | some t, some n, some v => some (toString (lshBucketDistPure NF hashFn (v.map Float.ofInt) t n).1)
    | _, _, _ => none)
  | ["bs", nt, n, v] => (match parseUsize nt, parseUsize n, vecOfWire v with
    | some nt, some n, some v => some (intsRes ((List.range nt).map (fun (t : Nat) => Int.ofNat (lshBucketPure NF hashFn v (Int.ofNat t) n))))
    | _, _, _ => none)
  | ["bd", t, n, v] => (match parseI64 t, parseUsize n, vecOfWire v with
    | some t, some n, some v => some (bdRes (lshBucketDistPure NF hashFn (v.map Float32.toFloat) t n))
    | _, _, _ => none)
  | ["mp", t, n, m, v] => (match parseI64 t, parseUsize n, parseUsize m, vecOfWire v with
    | some t, some n, some m, some v =>
      let r := lshBucketDistPure NF hashFn (v.map Float32.toFloat) t n
      some (rankedModel (r.1 : Int) m r.2)
    | _, _, _, _ => none)
  | _ => none

def cacheModel (ops : List String) : String :=
  let (_, rs) := ops.foldl (fun (acc : Cache HP × List String) op => let (c1, r) := cacheOp acc.1 op; (c1, acc.2 ++ [r])) ({}, [])
  " ; ".intercalate rs

/-- every bucket-valued result must equal the pure function of its arguments. -/
def cacheSpec (ops : List String) (impl : String) : String :=
  let rs := impl.splitOn " ; "
  if rs.length != ops.length then specFail "unclassified" "result-count" else
  match (ops.zip rs).find? (fun (op, r) => match pureOp op with | some want => want != r | none => false) with
  | none => "ok"
  | some (op, _) => specFail "unclassified" ("bucket-depends-on-cache-state " ++ (op.take 12).toString)

def splitItems (args : List String) : Option (List String × List String) :=
  -- args = head words …, "|", item words … ; items separated by ";"
  match args.span (· != "|") with
  | (hd, _ :: rest) => some (hd, (" ".intercalate rest).splitOn " ; ")
  | _ => none

def cacheH : Handler := fun args impl =>
  match splitItems args with
  | some ([], ops) =>
    let m := cacheModel ops
    { model := m, spec := cacheSpec ops impl, nt := ops.any (fun o => o.startsWith "b") && (m.splitOn "h").length > 1 }
  | _ => badReq

def stormH : Handler := fun args impl =>
  match splitItems args with
  | some ([t], items) => (match parseUsize t with
    | some t => if t < 1 || t > 8 then badReq else
      let ops := items.filterMap (fun it => match it.splitOn " " with
        | tid :: rest => (parseUsize tid).map (fun _ => " ".intercalate rest)
        | [] => none)
      let model := " ; ".intercalate (ops.map (fun op => match pureOp op with
        | some r => r
        | none => if op == "st" || op == "cl" || op.startsWith "pw " || op.startsWith "rs " then "-" else "bad"))
      { model, spec := cacheSpec ops impl, nt := t > 1 && ops.any (fun o => o.startsWith "b") }
    | none => badReq)
  | _ => badReq

/-! ### temporal -/

open ILV.Temporal in
def timeModel (a b c d : Int) : String :=
  let dec := match timeDecay NF a b c with
    | .one => "one" | .zero => "zero"
    | .pow h => let r := Float.pow 0.5 h; if r == 1.0 then "one" else if r == 0.0 then "zero" else if r > 0.0 && r < 1.0 then "mid" else "out"
  s!"diff={timeDiff a b} add={timeAdd a b} sub={timeSub a b} bef={b01 (timeBefore a b)} aft={b01 (timeAfter a b)} btw={b01 (timeBetween a b c)} " ++
  s!"wl={b01 (withinLast a b c)} ov={b01 (intervalsOverlap a b c d)}{b01 (intervalsOverlap c d a b)} ct={b01 (intervalContains a b c d)} " ++
  s!"dur={intervalDuration a b} pt={b01 (pointInInterval a b c)} lin={f64w (timeDecayLinear NF a b c)} dec={dec}"

def timeSpec (a b c d : Int) (impl : String) : String :=
  let fs := fields impl
  let g (k : String) : String := (field fs k).headD "?"
  if g "ov" != "00" && g "ov" != "11" then specFail "unclassified" "overlap-asymmetric"
  else if g "ov" != (if a ≤ d ∧ c ≤ b then "11" else "00") then specFail "unclassified" "overlap-meaning"
  else if g "pt" != b01 (decide (b ≤ a ∧ a ≤ c)) then specFail "unclassified" "point-in-interval"
  else if g "btw" != g "pt" then specFail "unclassified" "between-vs-point"
  else if g "ct" != b01 (decide (a ≤ c ∧ d ≤ b)) then specFail "unclassified" "contains-meaning"
  else if g "ct" == "1" && c ≤ d && g "ov" != "11" then specFail "unclassified" "contains-without-overlap"
  else if g "bef" == "1" && g "aft" == "1" then specFail "unclassified" "before-and-after"
  else if !(hexIn (g "lin") 0x3ff0000000000000) then specFail "unclassified" "linear-decay-outside-0-1"
  else if g "dec" == "out" then specFail "unclassified" "decay-outside-0-1"
  else "ok"

def timeH : Handler := fun args impl =>
  match args.map parseI64 with
  | [some a, some b, some c, some d] => { model := timeModel a b c d, spec := timeSpec a b c d impl, nt := true }
  | _ => badReq

def time3H : Handler := fun args impl =>
  match args.map parseI64 with
  | [some s1, some e1, some s2, some e2, some s3, some e3] =>
    let c12 := Temporal.intervalContains s1 e1 s2 e2
    let c23 := Temporal.intervalContains s2 e2 s3 e3
    let c13 := Temporal.intervalContains s1 e1 s3 e3
    let spec := match impl.toList with
      | [x, y, z] => if x == '1' && y == '1' && z != '1' then specFail "unclassified" "contains-not-transitive" else "ok"
      | _ => specFail "unclassified" "unparsable"
    { model := s!"{b01 c12}{b01 c23}{b01 c13}", spec, nt := c12 && c23 }
  | _ => badReq

/-! ### primitive float operations -/

def lawModel (x y : Float32) : String :=
  let xd := x.toFloat; let yd := y.toFloat
  let d1 := x - y; let d2 := y - x
  s!"mul={f32w (x * y)},{f32w (y * x)} sq={f32w (d1 * d1)},{f32w (d2 * d2)} ad={f64w d1.toFloat.abs},{f64w d2.toFloat.abs} " ++
  s!"add={f32w (x + y)} sub={f32w d1} div={f32w (x / y)} xx={f32w (x * x)} xmx={f32w (x - x)} ab={f32w x.abs} rd={f32w x.round} " ++
  s!"i8={NF.toI8 (NF.clamp32 x.round (Float32.ofInt (-128)) (Float32.ofInt 127))} w={f64w xd} sqrt={f64w xd.abs.sqrt} m64={f64w (xd * yd)},{f64w (yd * xd)} " ++
  s!"a64={f64w (xd + yd)} s64={f64w (xd - yd)} d64={f64w (xd / yd)} nr={f32w (xd * yd).toFloat32} " ++
  s!"lt={b01 (NF.lt32 x y)}{b01 (NF.eq32 x y)}{b01 (NF.lt32 NF.zero32 x)} cl={f64w (NF.clamp64 xd NF.negOne64 NF.one64)} mn={f32w (NF.min32 x y)} mx={f32w (NF.max32 x y)}"

/-- the laws of `FloatLaws` that can be read off this output, judged on Rust's own results. -/
def lawSpec (x y : Float32) (impl : String) : String :=
  if x.isNaN || y.isNaN then "na" else
  let fs := fields impl
  let pairEq (k : String) : Bool := match field fs k with | [p, q] => p == q | _ => false
  let g (k : String) : String := (field fs k).headD "?"
  if !(pairEq "mul") then specFail "unclassified" "mul32-not-commutative"
  else if !(pairEq "sq") then specFail "unclassified" "sqdiff-not-symmetric"
  else if !(pairEq "ad") then specFail "unclassified" "absdiff-not-symmetric"
  else if !(pairEq "m64") then specFail "unclassified" "mul64-not-commutative"
  else if !(g "xx" != "nan" && (match hexToNat (g "xx") with | some n => n < 2 ^ 31 | none => false)) then specFail "unclassified" "square-negative"
  else if x.isFinite && g "xmx" != "00000000" then specFail "unclassified" "x-minus-x-not-plus-zero"
  else if x.isFinite && y.isFinite && g "sub" == "nan" then specFail "unclassified" "finite-difference-nan"
  else if !(hexGe0 (g "sqrt")) then specFail "unclassified" "sqrt-negative"
  else "ok"

def lawH : Handler := fun args impl =>
  match args.map hexToNat with
  | [some x, some y] =>
    if x ≥ 2 ^ 32 || y ≥ 2 ^ 32 then badReq else
    let fx := NF.ofBits32 x; let fy := NF.ofBits32 y
    { model := lawModel fx fy, spec := lawSpec fx fy impl, nt := !(fx.isNaN || fy.isNaN) }
  | _ => badReq

def handlers : List (String × Handler) :=
  [("c26.dist", dist), ("c26.int8", int8), ("c26.quant", quant), ("c26.probes", probesH), ("c26.ranked", rankedH),
   ("c26.ham", hamH), ("c26.cache", cacheH), ("c26.storm", stormH), ("c26.time", timeH), ("c26.time3", time3H), ("c26.law", lawH)]

end ILV.Drv.C26
