/-
  C11 driver: model output of a history (ILV.Model.Store run with the real codec) and the Spec oracle
  "the relation contents after a restart equal the contents served just before it", judged on the
  implementation's own `pre=… post=…` observations.
-/
import ILV.Drv.StoreRun
namespace ILV.Drv.C11
open ILV ILV.Batch ILV.Store ILV.Drv.StoreRun

/-- arity recorded for relation `r` in a rendered state (`r:2=…` → `some 2`, `r:-=…` → `none`). -/
def arityInState (r : String) (st : String) : Option Nat :=
  match (st.splitOn " ").filterMap (fun (e : String) => match e.splitOn "=" with
      | nm :: _ => (match nm.splitOn ":" with | [n, a] => if n == r then some a else none | _ => none)
      | [] => none) with
  | a :: _ => parseNat a
  | [] => none

def postOfTok (tok : String) : Option String :=
  match tok.splitOn " post=" with
  | [_, post] => if post.startsWith "err:" then none else some post
  | _ => none

/-- net number of requests that reach the update log (+1 per requested insert, −1 per requested delete)
    for the tuple with wire form `t` of relation `r`. A delete reaches the log only for tuples of the
    arity `ar` currently recorded for the relation (none while the relation is unknown); `ar` follows the
    acknowledged inserts and the arity shown after each restart. -/
def netRequestsFrom (r t : String) : Option Nat → List (Op × String) → Int
  | _, [] => 0
  | ar, (.ins r' ts, tok) :: rest =>
    if r' == r && tok.startsWith "+" then
      ((ts.filter (fun x => Tuple.toWire x == t)).length : Int) +
        netRequestsFrom r t (match ar, ts with | none, x :: _ => some x.length | a, _ => a) rest
    else netRequestsFrom r t ar rest
  | ar, (.del r' ts, tok) :: rest =>
    (if r' == r && tok.startsWith "-" then
      - (((ts.filter (fun x => some x.length == ar)).filter (fun x => Tuple.toWire x == t)).length : Int) else 0) +
      netRequestsFrom r t ar rest
  | ar, (.restart, tok) :: rest | ar, (.shutdown, tok) :: rest =>
    netRequestsFrom r t (match postOfTok tok with | some post => arityInState r post | none => ar) rest
  | ar, _ :: rest => netRequestsFrom r t ar rest

def netRequests (r t : String) (seen : List (Op × String)) : Int := netRequestsFrom r t none seen

/-- arities of the tuples named by the *acknowledged* requests on `r` (an acknowledged request
    reached the update log: tokens `+n/d`, `-n`, or an `err:arrow…` raised by the flush after the append). -/
def ackArities (r : String) : List (Op × String) → List Nat
  | [] => []
  | (.ins r' ts, tok) :: rest =>
    (if r' == r && (tok.startsWith "+" || tok.startsWith "err:arrow") then ts.map List.length else []) ++ ackArities r rest
  | (.del r' ts, tok) :: rest =>
    (if r' == r && (tok.startsWith "-" || tok.startsWith "err:arrow") then ts.map List.length else []) ++ ackArities r rest
  | _ :: rest => ackArities r rest

/-- identifying predicate of the mixed-arity family: the log of `r` received tuples of two arities. -/
def mixedArity (r : String) (seen : List (Op × String)) : Bool :=
  match ackArities r seen with
  | [] => false
  | a :: rest => rest.any (· != a)

def relsOf (seen : List (Op × String)) : List String :=
  dedupBy (· == ·) (seen.filterMap (fun p => match p.1 with | .ins r _ => some r | .del r _ => some r | _ => none))

structure Mismatch where
  cls : String
  detail : String

/-- all violations at one restart: `seen` = the (item, token) pairs before it. -/
def judgeRestart (seen : List (Op × String)) (idx : Nat) (tok : String) : List Mismatch :=
  match parseRestartTok tok with
  | none => [⟨"unclassified", s!"unparsable-restart-token@{idx}"⟩]
  | some (_, none) =>
    if (relsOf seen).any (fun r => mixedArity r seen) then [⟨"mixed_arity_log", s!"reopen-failed@{idx}"⟩]
    else [⟨"unclassified", s!"reopen-failed@{idx}"⟩]
  | some (pre, some post) =>
    (pre.map (fun (p : String × List String) =>
      let r := p.1
      let q := ((post.find? (fun x => x.1 == r)).map (·.2)).getD []
      let extra := q.filter (fun t => !p.2.contains t)
      let missing := p.2.filter (fun t => !q.contains t)
      let dup := if (dedupBy (· == ·) q).length != q.length then [Mismatch.mk "unclassified" s!"duplicate-after-restart@{idx}:{r}"] else []
      dup ++
      extra.map (fun t => if netRequests r t seen > 0 then Mismatch.mk "reinsert_present_then_delete" s!"resurrected@{idx}:{r}({t})"
                          else if mixedArity r seen then Mismatch.mk "mixed_arity_log" s!"resurrected@{idx}:{r}({t})"
                          else Mismatch.mk "unclassified" s!"resurrected@{idx}:{r}({t})") ++
      missing.map (fun t => if netRequests r t seen ≤ 0 then Mismatch.mk "delete_absent_then_insert" s!"lost@{idx}:{r}({t})"
                            else if mixedArity r seen then Mismatch.mk "mixed_arity_log" s!"lost@{idx}:{r}({t})"
                            else Mismatch.mk "unclassified" s!"lost@{idx}:{r}({t})"))).flatten

def judge : List (Op × String) → List (Op × String) → Nat → List Mismatch
  | _, [], _ => []
  | seen, (o, tok) :: rest, i =>
    (match o with
      | .restart | .shutdown => if tok == "dead" then [] else judgeRestart seen.reverse i tok
      | _ => []) ++ judge ((o, tok) :: seen) rest (i + 1)

def spec (ops : List Op) (impl : String) : String :=
  let toks := impl.splitOn " | "
  if toks.length != ops.length then (if ops.isEmpty then "na" else specFail "unclassified" "token-count")
  else
    let ms := judge [] (ops.zip toks) 0
    match ms.find? (fun m => m.cls == "unclassified") with
    | some m => specFail m.cls m.detail
    | none => match ms with
      | m :: _ => specFail m.cls m.detail
      | [] => if ops.any (fun o => match o with | .restart | .shutdown => true | _ => false) then specOk else "na"

/-- non-trivial: some restart is preceded by a write. -/
def nontrivial : List Op → Bool → Bool
  | [], _ => false
  | .ins _ _ :: rest, _ => nontrivial rest true
  | .del _ _ :: rest, _ => nontrivial rest true
  | .restart :: rest, w => w || nontrivial rest w
  | .shutdown :: rest, w => w || nontrivial rest w
  | _ :: rest, w => nontrivial rest w

def hist : Handler := fun args impl =>
  match parseHist args with
  | none => badReq
  | some (cfg, ops) =>
    { model := histOutput cfg ops, spec := spec ops impl, nt := nontrivial ops false }

def handlers : List (String × Handler) := [("c11.hist", hist)]

end ILV.Drv.C11
