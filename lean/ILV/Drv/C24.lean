/- C24 handler: histories judged on their searches (see ILV.Drv.HnswCommon). -/
import ILV.Drv.HnswCommon
namespace ILV.Drv.C24
def handlers : List (String × ILV.Handler) := [("c24.hist", ILV.Drv.Hnsw.histHandler true false)]
end ILV.Drv.C24
