import ILV.Drv.Common
import ILV.Model.IRWire
namespace ILV.Drv.C05
open ILV ILV.IR

def opsOf (t : Node) : Nat := (t.toks.filter (fun s => ["M", "F", "J", "D", "U", "A", "X", "C", "FM", "JF"].contains s)).length

/-- tie of the denotation: real `CodeGenerator::execute` vs `answer`. -/
def evalH : Handler := fun args _impl =>
  match parseTreeAndDb args with
  | some (t, db) =>
    if !t.supported then { model := "unsupported", spec := "na", nt := false }
    else
      let a := answer db t
      { model := relWire a, spec := specOk, nt := !a.isEmpty && opsOf t > 0 }
  | none => badReq

mutual
def hasJoins : Node → Bool
  | .join .. => true
  | .antijoin l r _ _ _ => hasJoins l || hasJoins r
  | .scan .. => false
  | .hnsw .. => false
  | .map i _ _ => hasJoins i
  | .filter i _ => hasJoins i
  | .distinct i => hasJoins i
  | .union is => hasJoinsL is
  | .aggregate i _ _ _ => hasJoins i
  | .compute i _ => hasJoins i
  | .flatMap i _ _ _ => hasJoins i
  | .joinFlatMap l r _ _ _ _ _ => hasJoins l || hasJoins r
def hasJoinsL : NodeList → Bool
  | .nil => false
  | .cons t ts => hasJoins t || hasJoinsL ts
end

/-- the chain of unary operators `preserve_top_operations` walks through ends in a `Union` -/
def topIsUnion : Node → Bool
  | .union _ => true
  | .map i _ _ => topIsUnion i
  | .filter i _ => topIsUnion i
  | .distinct i => topIsUnion i
  | .aggregate i _ _ _ => topIsUnion i
  | .compute i _ => topIsUnion i
  | .flatMap i _ _ _ => topIsUnion i
  | _ => false

/-! The join planner re-derives join keys from column *names* (join_planning/mod.rs:656-676), so its
    contract only covers trees in the IR builder's shape: a chain of unary operators over a left-deep
    join of `Filter* Scan` leaves whose keys are exactly the name-equal columns (or a `Union` of such). -/

def nodupNames (l : List String) : Bool :=
  match l with
  | [] => true
  | x :: xs => !xs.contains x && nodupNames xs

def isLeaf : Node → Bool
  | .scan _ _ => true
  | .filter i _ => isLeaf i
  | _ => false

def nameKeyed (ls rs : List String) (lk rk : List Nat) (s : List String) : Bool :=
  lk.length == rk.length
  && (lk.zip rk).all (fun (i, j) => match ls[i]?, rs[j]? with | some a, some b => a == b | _, _ => false)
  && ls.all (fun n => !rs.contains n || (lk.any (fun i => ls[i]? == some n)))
  && s == ls ++ ((rs.zipIdx.filter (fun (_, j) => !rk.contains j)).map (·.1))

def isJoinChain : Node → Bool
  | .join l r lk rk s => (isJoinChain l) && isLeaf r && nameKeyed (schema l) (schema r) lk rk s
  | t => isLeaf t

def isClause : Node → Bool
  | .map i _ _ => isClause i
  | .filter i p => isLeaf (.filter i p) || isClause i
  | .distinct i => isClause i
  | .aggregate i _ _ _ => isClause i
  | .compute i _ => isClause i
  | t => isJoinChain t

def allClauses : NodeList → Bool
  | .nil => true
  | .cons t ts => isClause t && allClauses ts

def jpShape : Node → Bool
  | .union is => allClauses is
  | t => isClause t

mutual
def repeatedVarScan : Node → Bool
  | .scan _ s => !nodupNames s
  | .map i _ _ => repeatedVarScan i
  | .filter i _ => repeatedVarScan i
  | .join l r _ _ _ => repeatedVarScan l || repeatedVarScan r
  | .distinct i => repeatedVarScan i
  | .union is => repeatedVarScanL is
  | .aggregate i _ _ _ => repeatedVarScan i
  | .antijoin l r _ _ _ => repeatedVarScan l || repeatedVarScan r
  | .compute i _ => repeatedVarScan i
  | .hnsw .. => false
  | .flatMap i _ _ _ => repeatedVarScan i
  | .joinFlatMap l r _ _ _ _ _ => repeatedVarScan l || repeatedVarScan r
def repeatedVarScanL : NodeList → Bool
  | .nil => false
  | .cons t ts => repeatedVarScan t || repeatedVarScanL ts
end

mutual
def hasAggregate : Node → Bool
  | .aggregate .. => true
  | .scan .. => false
  | .hnsw .. => false
  | .map i _ _ => hasAggregate i
  | .filter i _ => hasAggregate i
  | .join l r _ _ _ => hasAggregate l || hasAggregate r
  | .distinct i => hasAggregate i
  | .union is => hasAggregateL is
  | .antijoin l r _ _ _ => hasAggregate l || hasAggregate r
  | .compute i _ => hasAggregate i
  | .flatMap i _ _ _ => hasAggregate i
  | .joinFlatMap l r _ _ _ _ _ => hasAggregate l || hasAggregate r
def hasAggregateL : NodeList → Bool
  | .nil => false
  | .cons t ts => hasAggregate t || hasAggregateL ts
end

def staticallyEmpty : Node → Bool
  | .filter _ .ff => true
  | .union .nil => true
  | _ => false

/- a `Union` with several branches whose first branch is statically empty (its `output_schema()` becomes `[]`
    after `eliminate_always_false_filters`) -/
mutual
def emptyFirstBranch : Node → Bool
  | .union (.cons c (.cons d rest)) => staticallyEmpty c || emptyFirstBranch c || emptyFirstBranch d || emptyFirstBranchL rest
  | .union is => emptyFirstBranchL is
  | .scan .. => false
  | .hnsw .. => false
  | .map i _ _ => emptyFirstBranch i
  | .filter i _ => emptyFirstBranch i
  | .join l r _ _ _ => emptyFirstBranch l || emptyFirstBranch r
  | .distinct i => emptyFirstBranch i
  | .aggregate i _ _ _ => emptyFirstBranch i
  | .antijoin l r _ _ _ => emptyFirstBranch l || emptyFirstBranch r
  | .compute i _ => emptyFirstBranch i
  | .flatMap i _ _ _ => emptyFirstBranch i
  | .joinFlatMap l r _ _ _ _ _ => emptyFirstBranch l || emptyFirstBranch r
def emptyFirstBranchL : NodeList → Bool
  | .nil => false
  | .cons t ts => emptyFirstBranch t || emptyFirstBranchL ts
end

def passClass (pass : String) (t : Node) : String :=
  if pass == "opt" then
    (if emptyFirstBranch t then "empty_first_union_branch_width"
     else "unclassified")
  else if pass == "bs" then
    (if analyze t == .boolean && hasAggregate t then "aggregate_under_boolean_annotation" else "unclassified")
  else if pass == "jp" then
    (if repeatedVarScan t then "repeated_var_in_scan_under_join_planning"
     else if topIsUnion t && hasJoins t then "union_root_under_join_planning"
     else "unclassified")
  else "unclassified"

def passH : Handler := fun args impl =>
  match args with
  | pass :: rest =>
    match parseTreeAndDb rest with
    | some (t, db) =>
      if !t.supported then { model := "unsupported", spec := "na", nt := false } else
      let parts := impl.splitOn "#"
      let implTreeStr := parts.headD ""
      -- model of the pass (or, for passes without a Lean model, the implementation's tree read back)
      let (tag, out) : String × Option Node :=
        if pass == "opt" then ("", some (optimize t))
        else if pass == "bs" then
          let (o, s) := specialize t
          (s!"sem={match s with | .boolean => "boolean" | .counting => "counting" | .min => "min" | .max => "max"} ", some o)
        else
          let toks := implTreeStr.splitOn " "
          ("", (parseNode (toks.length + 1) toks).bind (fun (o, r) => if r.isEmpty then some o else none))
      match out with
      | none =>
        -- only reachable for passes without a Lean model (join planning) when the real pass panicked
        { model := impl, spec := if jpShape t then specFail (passClass pass t) "pass-panicked" else "na", nt := false }
      | some o =>
        let m := tag ++ o.wire ++ "#" ++ relWire (answer db t) ++ "#" ++ relWire (answer db o)
        let spec := match parts with
          | [_, rin, rout] =>
            if rin == "err" then "na"
            else if pass == "jp" && !jpShape t then "na"
            else if rin == rout then specOk
            else specFail (passClass pass t) "answer-changed-by-pass"
          | _ => specFail "unclassified" "unparsable-impl-output"
        { model := m, spec := spec, nt := o.wire != t.wire }
    | none => badReq
  | [] => badReq

def handlers : List (String × Handler) :=
  [("c05.eval", evalH), ("c05.evalb", evalH), ("c05.pass", passH)]

end ILV.Drv.C05
