import ILV.Drv.HWorld
import ILV.Spec.Access
namespace ILV.Drv.C27
open ILV ILV.Handler ILV.Text ILV.Gen.C28 ILV.Drv.HW ILV.Spec.Access

def mutatingStmt (st : Stmt) : Bool :=
  match st.eff with
  | .insert .. | .delete .. | .prule _ | .schema .. | .dropName _ => true
  | .name _ => st.kind == .kgCreate || st.kind == .kgDrop || st.kind == .relDrop || st.kind == .clearPrefix
  | _ => st.kind == .compact

/-- identifying predicates of the known defect families, computed from the request and the state
    before the call (as the implementation dumped it) -/
def defectClass (P : Parser) (c : Call) (pre : World) : String :=
  let rq : Req := ⟨userOf c.who, c.useSess, c.kgArg, c.text⟩
  let nLines := (logicalLines c.text).length
  if sessionQueryWithKgArg pre rq then "session-query-ignores-kgarg"
  else if noTargetKg pre rq then "no-target-kg"
  else if nLines ≥ 2 && (parseStatement P (trim c.text)).isNone then "multiline-whole-unparsed"
  else if nLines ≥ 2 then "multiline-whole-parsed-as-one"
  else "unclassified"

/-- C27 judged on what the implementation reported for one call: a non-admin caller changes nothing
    in a KG on which it lacks write permission, drops no KG it does not own, creates no KG and
    compacts nothing unless its global role allows. `_internal` itself is C29's business. -/
def callSpec (P : Parser) (c : Call) (pre post : World) (outcome : String) : String × Bool :=
  match userOf c.who with
  | none => ("na", false)
  | some u =>
    match refreshRole pre u with
    | none => (if printWorld pre == printWorld post then specOk else specFail "unclassified" "unknown-user-changed-state", false)
    | some r =>
      if r == Role.admin then ("na", false) else
      let parsed := (logicalLines c.text).filterMap (parseStatement P)
      let nt := parsed.any mutatingStmt
      let canWrite (k : Kg) : Bool := match kgRoleFor pre k.name u r with | some .editor | some .owner => true | _ => false
      let owns (k : Kg) : Bool := kgRoleFor pre k.name u r == some .owner
      let data := pre.kgs.filter (·.name != INTERNAL)
      let changed := data.filter fun k => !canWrite k && (findKg post k.name).map printKg != some (printKg k)
      let dropped := data.filter fun k => !owns k && !hasKg post k.name
      let created := post.kgs.filter fun k => !hasKg pre k.name
      let cls := defectClass P c pre
      match changed, dropped with
      | k :: _, _ => (specFail cls s!"kg-without-write-permission-changed:{k.name}", nt)
      | [], k :: _ => (specFail cls s!"kg-dropped-by-non-owner:{k.name}", nt)
      | [], [] =>
        if !created.isEmpty && !globalOk r .kgCreate then (specFail cls "kg-created-by-viewer", nt)
        else if (outcome.splitOn "compacted").length > 1 && !globalOk r .compact then (specFail cls "compaction-by-non-admin", nt)
        else (specOk, nt)

def worldCase (op : String) : Handler := fun args impl =>
  match judge op args impl with
  | .error e => { model := e, spec := "na", nt := false }
  | .ok j =>
    let rec go (cs : List Call) (outs : List String) (dumps : List String) (acc : List (String × Bool)) : List (String × Bool) :=
      match cs, outs, dumps with
      | c :: cs, o :: outs, d0 :: d1 :: ds =>
        match parseDump d0, parseDump d1 with
        | some w0, some w1 => go cs outs (d1 :: ds) (acc ++ [callSpec j.P c w0 w1 o])
        | _, _ => acc ++ [(specFail "unclassified" "unparsable-dump", false)]
      | _, _, _ => acc
    let vs := go j.cs.calls j.implOutcomes j.implDumps []
    let fails := vs.filter (·.1.startsWith "fail:")
    let spec := match fails with
      | f :: _ => f.1
      | [] => if vs.any (·.1 == specOk) then specOk else "na"
    { model := j.model, spec := spec, nt := vs.any (·.2) }

def handlers : List (String × Handler) := [("c27.prog", worldCase "prog"), ("c27.hist", worldCase "hist")]

end ILV.Drv.C27
