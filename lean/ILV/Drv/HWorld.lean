/-
  Driver plumbing shared by C27/C29/C30: decoding of the handler requests (`*.q`, `*.prog`, `*.hist`),
  of the parser oracle that the harness ships inside the implementation output, construction of
  the initial world from the setup spec (mirror of `harness/src/u/hworld.rs::World::new`), canonical
  printing of outcomes and state dumps, and a parser for the implementation's own dumps (so that
  the Spec oracles judge what the *implementation* reported).
-/
import ILV.Drv.Common
import ILV.Model.Handler
namespace ILV.Drv.HW
open ILV ILV.Handler ILV.Text ILV.Gen.C28

def ofHex (h : String) : Option String :=
  if h == "-" then some "" else
  (hexToBytes h).bind fun bs => String.fromUTF8? (ByteArray.mk (bs.map (·.toUInt8)).toArray)

def toHex (s : String) : String := if s.isEmpty then "-" else bytesToHex (strBytes s)

/-! ### oracle -/

/-- names are sent verbatim when plain, else as `~<hex>` -/
def decName (s : String) : Option String :=
  if s.startsWith "~" then ofHex (s.drop 1).toString else some s

def tuplesOfWire (s : String) : Option (List Tuple) := optMapM Tuple.ofWire (s.splitOn ";")

/-- `describe` of harness/src/u/hworld.rs, inverted. `some none` = the real parser rejected the text. -/
def stmtOfDescr (d : String) : Option (Option Stmt) :=
  if d == "err" then some none else
  match d.splitOn "/" with
  | [] => none
  | kn :: args =>
    match StmtKind.ofName kn with
    | none => none
    | some k =>
      let mk (e : Eff) : Option (Option Stmt) := some (some ⟨k, e⟩)
      match k, args with
      | _, ["?"] => mk .unsupported
      | .insert, [rel, ts] => (tuplesOfWire ts).bind fun ts => mk (.insert rel ts)
      | .delete, [rel, t] => (Tuple.ofWire t).bind fun t => mk (.delete rel t)
      | .fact, [rel, t] => (decName rel).bind fun rel => if t == "!" then mk (.factBad rel) else (Tuple.ofWire t).bind fun t => mk (.fact rel t)
      | .sessionRule, [h] => mk (.srule h)
      | .persistentRule, [h] => mk (.prule h)
      | .query, [rel, n] => (parseNat n).bind fun n => mk (.query rel n)
      | .deleteRelationOrRule, [n] => (decName n).bind fun n => mk (.dropName n)
      | .schemaDecl, [rel, p] => mk (.schema rel (p == "1"))
      | .kgCreate, [n] | .kgUse, [n] | .kgDrop, [n] | .relDrop, [n] | .clearPrefix, [n] => (decName n).bind fun n => mk (.name n)
      | .kgAclList, [n] => if n == "-" then mk (.aclList none) else (decName n).bind fun n => mk (.aclList (some n))
      | .kgAclGrant, [a, b, c] => (decName a).bind fun a => (decName b).bind fun b => (decName c).bind fun c => mk (.aclGrant a b c)
      | .kgAclRevoke, [a, b] => (decName a).bind fun a => (decName b).bind fun b => mk (.aclRevoke a b)
      | _, [] => mk .none
      | _, _ => none

abbrev Oracle := List (String × Option Stmt)

def parseOracle (o : String) : Option Oracle :=
  if o == "-" then some [] else
  optMapM (fun e => match e.splitOn "=" with
    | [k, d] => (ofHex k).bind fun k => (stmtOfDescr d).map fun s => (k, s)
    | _ => none) (o.splitOn " ")

def parserOf (o : Oracle) : Parser := fun k => (o.lookup k).getD none

/-- the keys `execProgram` / `queryProgram` will ask the parser about, for one program text -/
def keysOf (text : List Char) : List String :=
  ((text :: logicalLines text).map fun t => String.ofList (stmtKey t)).filter (!·.isEmpty)

/-! ### setup -/

def sv (s : String) : Value := strVal s

def initialWorld (spec : String) : Option World :=
  let parts := spec.splitOn "/"
  let field (pre : String) : List String :=
    match parts.find? (·.startsWith pre) with
    | some p => ((p.drop pre.length).toString.splitOn ",").filter (fun e => !e.isEmpty && e != "-")
    | none => []
  let acls := optMapM (fun e => match e.splitOn ":" with | [a, b, c] => some [sv a, sv b, sv c] | _ => none) (field "acl=")
  let sess := optMapM (fun e => match e.splitOn ":" with | [u, k] => some (⟨u, k, [], [], false⟩ : Sess) | _ => none) (field "sess=")
  match acls, sess with
  | some acls, some sess =>
    let users : List Tuple := [[sv "adm", sv "h", sv "admin"], [sv "ed", sv "h", sv "editor"], [sv "vi", sv "h", sv "viewer"]]
    let internal : Kg := ⟨"_internal", [("users", users)] ++ (if acls.isEmpty then [] else [("kg_acls", acls)]), [], []⟩
    let data (n : String) : Kg := ⟨n, [("m1", [[Value.i64 0]])], [], []⟩
    some ⟨[internal, data "default", data "kga", data "kgb"], sess⟩
  | _, _ => none

/-! ### requests -/

structure Call where
  api : String               -- "query" | "exec"
  who : String
  useSess : Bool
  kgArg : Option String
  text : List Char
  deriving Repr

structure Case where
  setup : String
  w0 : World
  calls : List Call

def kgOfArg (a : String) : Option String := if a == "-" then none else some a

def progOfItems (items : String) : Option String :=
  (optMapM (fun it => ofHex it.trimAscii.toString) (items.splitOn " ; ")).map fun ls => "\n".intercalate ls

/-- `op` ∈ q | prog | hist; `req` = the request line without the operation name -/
def parseCase (op : String) (req : String) : Option Case :=
  match req.splitOn " | " with
  | [head, items] =>
    match op, head.splitOn " " with
    | "q", [kg] =>
      (progOfItems items).bind fun p => (initialWorld "acl=-/sess=-").map fun w => ⟨"acl=-/sess=-", w, [⟨"query", "anon", false, kgOfArg kg, p.toList⟩]⟩
    | "prog", [setup, who, se, kg] =>
      (progOfItems items).bind fun p => (initialWorld setup).map fun w => ⟨setup, w, [⟨"exec", who, se == "s", kgOfArg kg, p.toList⟩]⟩
    | "hist", [setup] =>
      let calls := optMapM (fun it => match it.trimAscii.toString.splitOn ":" with
        | [who, se, kg, hp] => (ofHex hp).map fun p => (⟨"exec", who, se == "s", kgOfArg kg, p.toList⟩ : Call)
        | _ => none) (items.splitOn " ; ")
      calls.bind fun cs => (initialWorld setup).map fun w => ⟨setup, w, cs⟩
    | _, _ => none
  | _ => none

def userOf (who : String) : Option String := if who == "anon" then none else some who

/-! ### printing -/

def strLe (a b : String) : Bool := !(b < a)

def tuplesWire (ts : List Tuple) : String :=
  if ts.isEmpty then "{}" else ";".intercalate (sortBy strLe (ts.map Tuple.toWire))

def printRes : Res → String
  | .err c => s!"err:{c}"
  | .msgs ms sw => s!"msgs:{",".intercalate ms}:sw={sw.getD "-"}"
  | .rows rs => s!"rows:{tuplesWire rs}:sw=-"

def printKg (k : Kg) : String :=
  let rels := (sortBy (fun (a b : String × List Tuple) => strLe a.1 b.1) (k.rels.filter (!·.2.isEmpty))).map fun e => s!"{e.1}={tuplesWire e.2}"
  "".intercalate [k.name, "{", "|".intercalate rels, "}r[", ",".intercalate (sortBy strLe k.rules), "]s[", ",".intercalate (sortBy strLe k.schemas), "]"]

def printSess (s : Sess) : String :=
  if s.closed then s!"{s.user}@closed" else s!"{s.user}@{s.kg}:{s.facts.length}:{s.rules.length}"

def printWorld (w : World) : String :=
  " ".intercalate ((sortBy (fun (a b : Kg) => strLe a.name b.name) w.kgs).map printKg) ++ " S[" ++
    ",".intercalate ((sortBy (fun (a b : Sess) => strLe a.user b.user) w.sess).map printSess) ++ "]"

/-! ### running a case on the model -/

structure Ran where
  outs : List Out            -- per call
  worlds : List World        -- w0 :: world after each call

def runCalls (P : Parser) : World → List Call → List Out × List World
  | _, [] => ([], [])
  | w, c :: cs =>
    let o := if c.api == "query" then queryProgram P w c.kgArg c.text
             else execProgram P w ⟨userOf c.who, c.useSess, c.kgArg, c.text⟩
    let (os, ws) := runCalls P o.w cs
    (o :: os, o.w :: ws)

def splitImpl (impl : String) : Option (String × String × String) :=
  match impl.splitOn " ; R " with
  | [o, rest] =>
    match rest.splitOn " ; D " with
    | [r, d] => if o.startsWith "O " then some ((o.drop 2).toString, r, d) else none
    | _ => none
  | _ => none

structure Judged where
  model : String
  cs : Case
  P : Parser
  ran : Ran
  implOutcomes : List String
  implDumps : List String

/-- model output for a request, given the implementation output (from which only the oracle part is read) -/
def judge (op : String) (args : List String) (impl : String) : Except String Judged :=
  match parseCase op (" ".intercalate args), splitImpl impl with
  | none, _ => .error "bad-request"
  | some _, none => .error "no-oracle-in-impl-output"
  | some cs, some (o, r, d) =>
    match parseOracle o with
    | none => .error "bad-oracle"
    | some orc =>
      let missing := (cs.calls.flatMap fun c => keysOf c.text).filter fun k => !(orc.any (·.1 == k))
      match missing with
      | k :: _ => .error s!"oracle-miss:{toHex k}"
      | [] =>
        let P := parserOf orc
        let (outs, ws) := runCalls P cs.w0 cs.calls
        let m := s!"O {o} ; R {" # ".intercalate (outs.map fun x => printRes x.res)} ; D {" # ".intercalate ((cs.w0 :: ws).map printWorld)}"
        .ok ⟨m, cs, P, ⟨outs, cs.w0 :: ws⟩, r.splitOn " # ", d.splitOn " # "⟩

/-! ### reading the implementation's dumps back (for the Spec oracles) -/

def between (s : String) (a b : String) : Option String :=
  match s.splitOn a with
  | _ :: rest@(_ :: _) => match (a.intercalate rest).splitOn b with | x :: _ => some x | [] => none
  | _ => none

def parseKgTok (t : String) : Option Kg :=
  match t.splitOn "{" with
  | [name, rest] =>
    match rest.splitOn "}r[" with
    | [rels, rest2] =>
      match rest2.splitOn "]s[" with
      | [rules, sch] =>
        let relL := optMapM (fun e => match e.splitOn "=" with
          | [n, ts] => (tuplesOfWire ts).map fun ts => (n, ts)
          | _ => none) (splitNonEmpty rels "|")
        relL.map fun rl => ⟨name, rl, splitNonEmpty rules ",", splitNonEmpty (sch.dropEnd 1).toString ","⟩
      | _ => none
    | _ => none
  | _ => none

def parseSessTok (t : String) : Option Sess :=
  match t.splitOn "@" with
  | [u, rest] =>
    if rest == "closed" then some ⟨u, "", [], [], true⟩ else
    match rest.splitOn ":" with
    | [kg, nf, nr] => match parseNat nf, parseNat nr with
      | some nf, some nr => some ⟨u, kg, List.replicate nf ("?", []), List.replicate nr "?", false⟩
      | _, _ => none
    | _ => none
  | _ => none

def parseDump (d : String) : Option World :=
  match d.splitOn " S[" with
  | [kgs, ss] =>
    match optMapM parseKgTok (splitNonEmpty kgs " "), optMapM parseSessTok (splitNonEmpty (ss.dropEnd 1).toString ",") with
    | some k, some s => some ⟨k, s⟩
    | _, _ => none
  | _ => none

/-- the printed section of one KG in a dump (for "unchanged" comparisons on the implementation's own text) -/
def kgSection (w : World) (n : String) : Option String := (findKg w n).map printKg

end ILV.Drv.HW
