/-
  C18 driver: `c18.hist <cfg> | step ; step ; …`
  model  = the per-step outputs of `ILV.C18.step` (Model/Incr.lean), rendered exactly like the harness
           renders what the two real `StorageEngine`s returned;
  spec   = at every `q`: the engine under test (incremental maintenance on) must answer what its twin
           answers AND what the reference evaluation (standard least model of the current rules over
           the current facts) gives. Failure classes are computed from the input alone: the model is
           run alongside, and the class is the kind of the EARLIEST step after which a still-valid
           materialisation stopped being equal to the fresh evaluation.
-/
import ILV.Drv.Common
import ILV.Model.Incr
namespace ILV.Drv.C18
open ILV ILV.C18

/-! ### parsing -/

def nameOf (s : String) : Name := s.toList.map Char.toNat
def nameStr (n : Name) : String := String.ofList (n.map Char.ofNat)
def varOf (s : String) : Nat := s.toList.foldl (fun a c => a * 256 + c.toNat) 0

def identOk (s : String) : Bool :=
  match s.toList with
  | c :: cs => c.isLower && cs.all fun d => d.isLower || d.isDigit || d == '_'
  | [] => false

def parseTerm (s : String) : Option Term :=
  match s.toList with
  | c :: cs => if c.isUpper then (if cs.all Char.isDigit then some (.var (varOf s)) else none)
               else (s.toInt?).map .const
  | [] => none

def parseAtom (s : String) : Option Atom :=
  match s.splitOn "(" with
  | [r, rest] =>
    if !identOk r || !rest.endsWith ")" then none
    else
      let inner := (rest.dropEnd 1).toString
      if inner.isEmpty then none
      else (optMapM parseTerm (inner.splitOn ",")).map fun as => ⟨nameOf r, as⟩
  | _ => none

def parseClause (s : String) : Option Clause :=
  match s.splitOn "<-" with
  | [h, b] =>
    match parseAtom h, optMapM parseAtom (b.splitOn "&") with
    | some hd, some bd => if bd.isEmpty then none else some ⟨hd, bd⟩
    | _, _ => none
  | _ => none

def parseTup (s : String) : Option Tup := optMapM (fun x => x.toInt?) (s.splitOn ",")

def parseStep : List String → Option Step
  | "ins" :: r :: ts => if ts.isEmpty then none else (optMapM parseTup ts).map (.ins (nameOf r))
  | "del" :: r :: ts => if ts.isEmpty then none else (optMapM parseTup ts).map (.del (nameOf r))
  | ["reg", c] => (parseClause c).map .reg
  | ["rmc", n, k] => k.toNat?.map (.rmc (nameOf n))
  | ["rep", n, k, c] => match k.toNat?, parseClause c with
    | some k, some c => some (.rep (nameOf n) k c)
    | _, _ => none
  | ["clr", n] => some (.clr (nameOf n))
  | ["drop", n] => some (.drop (nameOf n))
  | ["dropp", n] => some (.dropp (nameOf n))
  | ["drel", n] => some (.drel (nameOf n))
  | ["clrp", n] => some (.clrp (nameOf n))
  | ["idx"] => some .idx
  | ["idxdrop"] => some .idxdrop
  | ["mat", n, k] => match k.toNat? with
    | some k => if 1 ≤ k && k ≤ 3 then some (.mat (nameOf n) k) else none
    | none => none
  | ["q", a] => (parseAtom a).map .q
  | ["m"] => some .m
  | _ => none

/-- split the token list at ";" tokens. -/
def splitSteps : List String → List String → List (List String)
  | [], cur => [cur.reverse]
  | ";" :: l, cur => cur.reverse :: splitSteps l []
  | t :: l, cur => splitSteps l (t :: cur)

/-! ### rendering -/

def tupLe : Tup → Tup → Bool
  | [], _ => true
  | _ :: _, [] => false
  | a :: as, b :: bs => if a < b then true else if b < a then false else tupLe as bs

def relStr (ts : List Tup) : String :=
  "[" ++ joinWith "|" ((sortBy tupLe ts).map fun t => joinWith "," (t.map toString)) ++ "]"

def errStr : ErrK → String
  | .view => "view" | .arity => "arity" | .notSafe => "un" ++ "safe" | .missing => "missing" | .bounds => "bounds"

def namesStr (sep : String) (l : List Name) : String := joinWith sep ((sortNames l).map nameStr)

def dumpStr (d : Dump) : String :=
  let mats := (sortNames (akeys d.mats)).map fun n => nameStr n ++ "=" ++ relStr ((aget d.mats n).getD [])
  let deps := (sortNames (dedupNames (akeys d.b2d))).filterMap fun b =>
    let ds := (aget d.b2d b).getD []
    if ds.isEmpty then none else some (nameStr b ++ ">" ++ namesStr "." ds)
  "m:" ++ joinWith "," mats ++ "/" ++ joinWith "," deps ++ "/" ++ namesStr "," d.compiled

def outStr : Out → String
  | .ins n d => s!"ins:{n},{d}" | .insErr k => "ins:err:" ++ errStr k
  | .del n => s!"del:{n}"
  | .regCreated => "reg:created" | .regAdded n => s!"reg:added:{n}" | .regErr k => "reg:err:" ++ errStr k
  | .rmcRemoved => "rmc:removed" | .rmcDeleted => "rmc:deleted" | .rmcErr k => "rmc:err:" ++ errStr k
  | .repOk => "rep:ok" | .repErr k => "rep:err:" ++ errStr k
  | .clrOk => "clr:ok" | .clrErr k => "clr:err:" ++ errStr k
  | .dropOk => "drop:ok" | .dropErr k => "drop:err:" ++ errStr k
  | .dropp ns => "dropp:" ++ joinWith "," (ns.map nameStr)
  | .drelOk => "drel:ok" | .drelErr k => "drel:err:" ++ errStr k
  | .clrp l => "clrp:" ++ joinWith "," (l.map fun p => nameStr p.1 ++ "=" ++ toString p.2)
  | .idxOk => "idx:ok" | .idxErr => "idx:err" | .idxdropOk => "idxdrop:ok" | .idxdropErr => "idxdrop:err"
  | .matOff => "mat:off" | .mat ts => "mat:" ++ relStr ts
  | .q a b => "q:" ++ relStr a ++ "/" ++ relStr b
  | .m none => "m:off"
  | .m (some d) => dumpStr d

/-! ### Spec side -/

/-- reference evaluation: the standard least model (stored tuples of a head relation are NOT ignored). -/
def refDb (prog : List Clause) (inputs : List (Name × List Tup)) : Name → List Tup :=
  look inputs (iter prog inputs (evalFuel prog inputs) ((heads prog).map fun n => (n, (aget inputs n).getD [])))

-- (clausesNow is defined in the model)

def staleNames (s : St) : List Name :=
  match s.inc with
  | none => []
  | some i => (validMats i).filterMap fun p =>
      if setEqb p.2 (fresh s p.1) then none else some p.1

def directRels (s : St) (n : Name) : List Name := (clausesNow s n).flatMap bodyRels

def classify (before : St) (after : St) (st : Step) (n : Name) : String :=
  let viaBase (rs : List Name) : String :=
    if rs.any fun r => (directRels after n).contains r then "dependency_edge_missing"
    else "derived_on_derived_no_cascade"
  let viaRule (x : Name) : String :=
    if x = n then "rule_edit_no_invalidate" else "derived_on_derived_no_cascade"
  match st with
  | .ins r _ => viaBase [r]
  | .del r _ => viaBase [r]
  | .clrp pre => viaBase ((akeys before.facts).filter fun k => pre.isPrefixOf k)
  | .reg c => viaRule c.head.rel
  | .rmc x _ => viaRule x
  | .rep x _ _ => viaRule x
  | .clr x => viaRule x
  | .drop _ => "derived_on_derived_no_cascade"
  | .dropp _ => "derived_on_derived_no_cascade"
  | .drel r => if (clausesNow before r).isEmpty then "drop_relation_no_invalidate" else "derived_on_derived_no_cascade"
  | _ => "unclassified"

structure Ghost where
  causes : List (Name × Nat × String) := []     -- stale valid materialisation ↦ (step index, class)
  misuse : Bool := false                        -- `mat` of a name without clauses happened
  sawMat : Bool := false                        -- some `q` was answered with a valid materialisation merged

def updCauses (g : Ghost) (before after : St) (st : Step) (k : Nat) : Ghost :=
  let stale := staleNames after
  let kept := g.causes.filter fun c => stale.contains c.1
  let fresh := stale.filter fun n => !((kept.map (·.1)).contains n)
  { g with causes := kept ++ fresh.map fun n => (n, k, classify before after st n) }

def earliest : List (Name × Nat × String) → Option (Nat × String)
  | [] => none
  | (_, k, c) :: l => match earliest l with
    | some (k', c') => if k' < k then some (k', c') else some (k, c)
    | none => some (k, c)

/-- walk the history with the model; returns (model outputs, spec verdict, nt). -/
def isAck : Out → Bool
  | .q _ _ | .m _ | .mat _ | .matOff => false
  | _ => true

def walk (viaHandler : Bool) : List Step → List String → St → Ghost → Nat → List String → Option String → (List String × Option String × Bool)
  | [], _, _, g, _, outs, verdict => (outs.reverse, verdict, g.sawMat)
  | st :: l, impls, s, g, k, outs, verdict =>
    let r := step s st
    let s' := r.1
    -- the convergence side condition of `safeRec`, observed on every visited state: an evaluation that ran
    -- out of fuel would show up as a model/code disagreement
    let o := (if viaHandler && isAck r.2 then "." else outStr r.2) ++ (if convState s' then "" else "!fuel")
    let (impl, impls') := match impls with | i :: is => (i, is) | [] => ("", [])
    let g1 := updCauses g s s' st k
    let g2 : Ghost := match st with
      | .mat n _ => if (clausesNow s n).isEmpty then { g1 with misuse := true } else g1
      | .q _ => if (match s.inc with | some i => !(validMats i).isEmpty | none => false) then { g1 with sawMat := true } else g1
      | _ => g1
    let verdict' : Option String :=
      if verdict.isSome then verdict else
      match st with
      | .q a =>
        if g2.misuse then none
        else
          let want := relStr (answer (refDb (allRules s.catalog) s.facts) a)
          let twinWant := relStr (answer (fresh s) a)
          if want != twinWant then none      -- stored tuples under a rule head: engine-level convention, not C18's
          else if !impl.startsWith "q:" then some (specFail "unclassified" "unparsable-impl-output")
          else
            match ((impl.drop 2).toString).splitOn "/" with
            | [ia, ib] =>
              if ia == want && ib == want then none
              else
                let cls := match earliest g2.causes with | some (_, c) => c | none => "unclassified"
                if ia != ib then some (specFail cls "incremental-differs-from-twin")
                else some (specFail cls "differs-from-reference-evaluation")
            | _ => some (specFail "unclassified" "unparsable-impl-output")
      | _ => none
    walk viaHandler l impls' s' g2 (k + 1) (o :: outs) verdict'

def isRep : Step → Bool
  | .rep _ _ _ => true
  | _ => false

def hist : Handler := fun args impl =>
  match args with
  | cfg :: "|" :: toks =>
    match optMapM parseStep (splitSteps toks []) with
    | none => badReq
    | some steps =>
      if cfg != "se" && cfg != "h" then badReq
      else if cfg == "h" && steps.any isRep then badReq
      else
      let impls := impl.splitOn " ; "
      let (outs, verdict, nt) := walk (cfg == "h") steps impls init {} 0 [] none
      { model := joinWith " ; " outs,
        spec := match verdict with | some v => v | none => (if steps.any (fun s => match s with | .q _ => true | _ => false) then specOk else "na"),
        nt := nt }
  | ["se"] => { model := "", spec := "na", nt := false }
  | ["h"] => { model := "", spec := "na", nt := false }
  | _ => badReq

def handlers : List (String × Handler) := [("c18.hist", hist)]

end ILV.Drv.C18
