import ILV.Drv.C27
namespace ILV.Drv.C29
open ILV ILV.Handler ILV.Text ILV.Gen.C28 ILV.Drv.HW ILV.Spec.Access

def containsStr (s sub : String) : Bool := (s.splitOn sub).length > 1

/-- `_internal` without its ACL relation (which owners of *other* KGs legitimately change) -/
def internalCore (w : World) : Option String :=
  (findKg w INTERNAL).map fun k => printKg { k with rels := k.rels.filter (·.1 != "kg_acls") }

def aclRows (w : World) : Option (List Tuple) := (findKg w INTERNAL).map (relOf · "kg_acls")

/-- identifying predicates of the known defect families for C29 (multi-line first: without a second
    line or a re-bound session there is no way past the name guard) -/
def defectClass (P : Parser) (c : Call) (pre : World) : String :=
  let rq : Req := ⟨userOf c.who, c.useSess, c.kgArg, c.text⟩
  let nLines := (logicalLines c.text).length
  if nLines ≥ 2 && (parseStatement P (trim c.text)).isNone then "multiline-whole-unparsed"
  else if nLines ≥ 2 then "multiline-whole-parsed-as-one"
  else if sessionQueryWithKgArg pre rq then "session-query-ignores-kgarg"
  else "unclassified"

/-- a returned row is a row stored in `_internal` and in no other KG -/
def leaks (pre : World) (outcome : String) : Bool :=
  let body := ((outcome.drop 5).toString.splitOn ":sw=").headD ""
  let rows := if body == "{}" then [] else body.splitOn ";"
  let wires (k : Kg) : List String := k.rels.flatMap fun e => e.2.map Tuple.toWire
  let internal := ((findKg pre INTERNAL).map wires).getD []
  let elsewhere := (pre.kgs.filter (·.name != INTERNAL)).flatMap wires
  rows.any fun r => internal.contains r && !elsewhere.contains r

/-- C29 judged on what the implementation reported for one call of a non-admin identity:
    `_internal` still exists; users / api keys / rules / schemas in it are unchanged; its ACL relation changes
    only through a single-statement `.kg acl grant/revoke`, `.kg create`, `.kg drop`; the caller's session
    is not bound to it afterwards; nothing in the reply comes from it (any string-valued row, or a
    message that the current KG is / was switched to `_internal`). -/
def callSpec (P : Parser) (c : Call) (pre post : World) (outcome : String) : String × Bool :=
  let named := containsStr (String.ofList c.text) "_internal" || containsStr (String.ofList c.text) "users" || containsStr (String.ofList c.text) "kg_acls"
    || c.kgArg == some INTERNAL || (c.useSess && ((userOf c.who).bind (findSess pre)).any (·.kg == INTERNAL))
  match userOf c.who with
  | none => ("na", false)
  | some u =>
    match refreshRole pre u with
    | none => (if printWorld pre == printWorld post then specOk else specFail "unclassified" "unknown-user-changed-state", false)
    | some r =>
      if r == Role.admin then ("na", false) else
      let cls := defectClass P c pre
      let lines := logicalLines c.text
      let whole := parseStatement P (trim c.text)
      let aclCmd := lines.length ≤ 1 && (match whole with
        | some st => st.kind == .kgAclGrant || st.kind == .kgAclRevoke || st.kind == .kgCreate || st.kind == .kgDrop
        | none => false)
      let sessBound (w : World) : Bool := c.useSess && (findSess w u).any fun s => !s.closed && s.kg == INTERNAL
      if !hasKg post INTERNAL then (specFail cls "internal-kg-dropped", named)
      else if internalCore pre != internalCore post then (specFail cls "internal-kg-modified", named)
      else if aclRows pre != aclRows post && !aclCmd then (specFail cls "acl-relation-modified", named)
      else if sessBound post && !sessBound pre then (specFail cls "session-bound-to-internal", named)
      else if outcome.startsWith "rows:" && leaks pre outcome then (specFail cls "internal-data-returned", named)
      else if containsStr outcome "switched:_internal" || containsStr outcome "cur:_internal" || containsStr outcome "created:_internal" then
        (specFail cls "internal-kg-entered", named)
      else (specOk, named)

def worldCase (op : String) : Handler := fun args impl =>
  match judge op args impl with
  | .error e => { model := e, spec := "na", nt := false }
  | .ok j =>
    let rec go (cs : List Call) (outs : List String) (dumps : List String) (acc : List (String × Bool)) : List (String × Bool) :=
      match cs, outs, dumps with
      | c :: cs, o :: outs, d0 :: d1 :: ds =>
        match parseDump d0, parseDump d1 with
        | some w0, some w1 => go cs outs (d1 :: ds) (acc ++ [callSpec j.P c w0 w1 o])
        | _, _ => acc ++ [(specFail "unclassified" "unparsable-dump", false)]
      | _, _, _ => acc
    let vs := go j.cs.calls j.implOutcomes j.implDumps []
    let fails := vs.filter (·.1.startsWith "fail:")
    let spec := match fails.reverse with
      | f :: _ => f.1
      | [] => if vs.any (·.1 == specOk) then specOk else "na"
    { model := j.model, spec := spec, nt := vs.any (·.2) }

def handlers : List (String × Handler) := [("c29.prog", worldCase "prog"), ("c29.hist", worldCase "hist")]

end ILV.Drv.C29
