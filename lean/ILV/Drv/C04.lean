import ILV.Drv.C01
namespace ILV.Drv.C04
open ILV ILV.DL ILV.Engine ILV.Drv.C01

/-- `p2.0.1` → indices. -/
def permOfWire (s : String) : Option (List Nat) :=
  match s.toList with
  | 'p' :: cs => let r := String.ofList cs; if r.isEmpty then some [] else optMapM String.toNat? (r.splitOn ".")
  | _ => none

def dupOfWire (s : String) : Option (Option Nat) :=
  match s.toList with
  | ['d', '-'] => some none
  | 'd' :: cs => (String.ofList cs).toNat?.map some
  | _ => none

/-- the clauses before the final query clause, and that clause. -/
def splitLast (p : Program) : Program × Program :=
  (p.take (p.length - 1), p.drop (p.length - 1))

def permuted (p : Program) (ix : List Nat) : Program :=
  let (ini, lst) := splitLast p
  ix.filterMap (fun i => ini[i]?) ++ lst

def duplicated (p : Program) (d : Option Nat) : Program :=
  let (ini, lst) := splitLast p
  match d with
  | some i => ini ++ (match ini[i]? with | some r => [r] | none => []) ++ lst
  | none => p

def runWire (cfg : Cfg) (p : Program) (edb : DB) : String :=
  (Engine.run cfg (fun _ => 0) (fun _ ts => ts) fuelDefault p edb).toWire

def parse4 (args : List String) : Option (Cfg × List Nat × Option Nat × DB × Program) :=
  match args with
  | c :: pm :: d :: "|" :: items =>
    match cfgOfWire c, permOfWire pm, dupOfWire d, parseItems (items.filter (· != ";")) [] [] with
    | some cfg, some ix, some d, some (db, p) => some (cfg, ix, d, db, p)
    | _, _, _, _ => none
  | _ => none

def classify4 (cfg : Cfg) (p p1 p2 : Program) (_edb : DB) (parts : List String) : String :=
  if hasMutualRecursiveScc p then "has_mutual_recursive_scc"
  else if queryRel p != answeredRel p || queryRel p1 != answeredRel p1 || queryRel p2 != answeredRel p2 then
    "last_rule_head_not_last_head"
  else if parts.getD 4 "" != "1" && cfg.ms then "magic_seed_in_input_tuples"
  else if [p, p1, p2].any (lastHeadMultiClauseWithSip cfg) then "last_head_multi_clause_with_sip"
  else "unclassified"

def verdict4 (cfg : Cfg) (p p1 p2 : Program) (edb : DB) (impl : String) : String × Bool :=
  let parts := impl.splitOn " / "
  match parts with
  | [a, b, c, d, f] =>
    if headHasFacts p edb then ("na", false)
    else if a == b && a == c && a == d && f == "1" then (specOk, p1 != p && !a.startsWith "err:" && a != "{}")
    else (specFail (classify4 cfg p p1 p2 edb parts) "variants-differ", true)
  | _ => (specFail "unclassified" "unparsable-impl-output", false)

/-- `c04.run`: switches off — model must reproduce all four answers and the facts flag. -/
def runH : Handler := fun args impl =>
  match parse4 args with
  | some (cfg, ix, d, edb, p) =>
    let p1 := permuted p ix
    let p2 := duplicated p d
    let a := runWire cfg p edb
    let m := s!"{a} / {runWire cfg p1 edb} / {runWire cfg p2 edb} / {a} / 1"
    let (sv, nt) := verdict4 cfg p p1 p2 edb impl
    { model := m, spec := sv, nt := nt }
  | none => badReq

def specH : Handler := fun args impl =>
  match parse4 args with
  | some (cfg, ix, d, edb, p) =>
    let (sv, nt) := verdict4 cfg p (permuted p ix) (duplicated p d) edb impl
    { model := impl, spec := sv, nt := nt }
  | none => badReq

def handlers : List (String × Handler) := [("c04.run", runH), ("c04.spec", specH)]

end ILV.Drv.C04
