/-
  C32 driver. Model output: the statements of ILV.Model.Writes run over ILV.Model.Store (real codec,
  reference query evaluator). Spec oracle: relations as finite sets —
    insert ts        reports |set ts \ R|,           R := R ∪ ts
    delete ts        reports |set ts ∩ R|,           R := R \ ts
    delete where φ   reports |{t ∈ R | φ t}|,        R := R \ {t | φ t}     (a `_` in the head matches anything)
    update           D, I := the delete / insert tuples of all matched bindings (on the state before),
                     reports |D ∩ R| and |I \ (R \ D)|, R := (R \ D) ∪ I
  judged on the implementation's own reports and observed contents; the spec state is re-synchronised
  with the implementation at every `obs` so that one defect is reported once.
-/
import ILV.Drv.StoreRun
import ILV.Model.Writes
namespace ILV.Drv.C32
open ILV ILV.Store ILV.Writes ILV.Drv.StoreRun

/-! ### parsing -/

def isUpperStart (s : String) : Bool := match s.toList with | c :: _ => c.isUpper | [] => false

def parseTm (s : String) : Option Tm :=
  if s == "_" then some .wild
  else if isUpperStart s then some (.var s)
  else (parseInt s).map .const

def parseTms (s : String) : Option (List Tm) := optMapM parseTm (s.splitOn ",")

def parseIntTuple (s : String) : Option Tuple := optMapM (fun x => (parseInt x).map Value.i64) (s.splitOn ",")

def splitOnce (s sep : String) : Option (String × String) :=
  match s.splitOn sep with
  | a :: b :: rest => some (a, joinWith sep (b :: rest))
  | _ => none

def parseCmp (s : String) : Option Lit :=
  let try1 (sep : String) (op : CmpOp) : Option Lit :=
    match splitOnce s sep with
    | some (l, r) => match parseTm l, parseTm r with
      | some a, some b => some (.cmp op a b)
      | _, _ => none
    | none => none
  if (s.splitOn "<=").length > 1 then try1 "<=" .le
  else if (s.splitOn ">=").length > 1 then try1 ">=" .ge
  else if (s.splitOn "!=").length > 1 then try1 "!=" .ne
  else if (s.splitOn "<").length > 1 then try1 "<" .lt
  else if (s.splitOn ">").length > 1 then try1 ">" .gt
  else if (s.splitOn "=").length > 1 then try1 "=" .eq
  else none

def parseLit (s : String) : Option Lit :=
  if s.startsWith "!" then
    match splitOnce (s.drop 1).toString ":" with
    | some (r, a) => (parseTms a).map (Lit.neg r)
    | none => none
  else match splitOnce s ":" with
    | some (r, a) => (parseTms a).map (Lit.pos r)
    | none => parseCmp s

def parseBody (s : String) : Option (List Lit) := optMapM parseLit (s.splitOn "&")

def parseTarget (s : String) : Option (Bool × Target) :=
  let sign := (s.take 1).toString
  match splitOnce (s.drop 1).toString ":" with
  | some (r, a) =>
    match parseTms a with
    | some tms => if sign == "-" then some (true, (r, tms)) else if sign == "+" then some (false, (r, tms)) else none
    | none => none
  | none => none

def parseItem (s : String) : WOp :=
  match s.splitOn " " with
  | ["obs"] => .obs
  | "ins" :: r :: ts => if ts.isEmpty then .bad else match optMapM parseIntTuple ts with | some l => .ins r l | none => .bad
  | ["del", r, t] => match parseIntTuple t with | some x => .del r x | none => .bad
  | "delb" :: r :: ts => if ts.isEmpty then .bad else match optMapM parseIntTuple ts with | some l => .delb r l | none => .bad
  | ["delc", r, h, b] => match parseTms h, parseBody b with | some hh, some bb => .delc r hh bb | _, _ => .bad
  | ["upd", hs, b] =>
    match optMapM parseTarget (hs.splitOn "/"), parseBody b with
    | some ts, some bb => .upd ((ts.filter (·.1)).map (·.2)) ((ts.filter (fun t => !t.1)).map (·.2)) bb
    | _, _ => .bad
  | ["ord", vs, b] => match parseBody b with | some bb => .ord (vs.splitOn ",") bb | none => .bad
  | _ => .bad

def parseHist (args : List String) : Option (List WOp) :=
  let tail := joinWith " " args
  if tail == "|" || tail == "" then some []
  else if tail.startsWith "| " then some (((tail.drop 2).toString.splitOn " ; ").map parseItem)
  else none

def litRels : Lit → List String
  | .pos r _ => [r] | .neg r _ => [r] | .cmp _ _ _ => []

def opRels : WOp → List String
  | .ins r _ => [r] | .del r _ => [r] | .delb r _ => [r]
  | .delc r _ b => r :: (b.map litRels).flatten
  | .upd d i b => d.map (·.1) ++ i.map (·.1) ++ (b.map litRels).flatten
  | .ord _ b => (b.map litRels).flatten
  | _ => []

def relsOf (ops : List WOp) : List String := sortBy strLe (dedupBy (· == ·) ((ops.map opRels).flatten))

/-! ### model output -/

def renderObs (e : Engine) (rels : List String) : String :=
  if rels.isEmpty then "()" else
  joinWith " " (rels.map (fun r => s!"{r}=" ++ (match aget e.live r with | some ts => relToWire ts | none => "-")))

def stepOut (rels : List String) (e : Engine) (o : WOp) : Engine × String :=
  match o with
  | .obs => (e, renderObs e rels)
  | .ord vars body =>
    (e, match refAnswer (dbOf e) vars body with
        | some rows => "[" ++ joinWith ";" (rows.map Tuple.toWire) ++ "]"
        | none => "err:query")
  | .bad => (e, "bad-item")
  | o => let r := exec realCodec refAnswer e o; (r.1, r.2.toTok)

def runOut (rels : List String) : Engine → List WOp → List String
  | _, [] => []
  | e, o :: os => let r := stepOut rels e o; r.2 :: runOut rels r.1 os

def histOutput (ops : List WOp) : String :=
  if ops.isEmpty then "empty" else joinWith " | " (runOut (relsOf ops) { cfg := {} } ops)

/-! ### Spec: relations as finite sets (duplicate-free lists) -/

abbrev SState := List (String × List Tuple)

def sget (s : SState) (r : String) : List Tuple := (aget s r).getD []
def setOf (l : List Tuple) : List Tuple := dedupBy (fun a b => decide (a = b)) l
def sdiff (a b : List Tuple) : List Tuple := a.filter (fun t => !b.contains t)
def sinter (a b : List Tuple) : List Tuple := a.filter (fun t => b.contains t)
def sunion (a b : List Tuple) : List Tuple := a ++ sdiff (setOf b) a

/-- does stored tuple `t` satisfy "`head` matches and the condition holds"? -/
def condMatches (s : SState) (head : List Tm) (body : List Lit) (t : Tuple) : Bool :=
  match matchArgs head t [] with
  | none => false
  | some b => match evalBody (sget s) body [b] with
    | some bs => !bs.isEmpty
    | none => false

def instTargets (bs : List Binding) (ts : List Target) : List (String × Tuple) :=
  (bs.map (fun b => ts.filterMap (fun t => (instHead b t.2).map (fun x => (t.1, x))))).flatten

/-- expected report and next state of one write statement. -/
def specStep (s : SState) : WOp → Option (String × SState)
  | .ins r ts =>
    let ts := ts.filter (fun t => !t.isEmpty)
    some (s!"I{(sdiff (setOf ts) (sget s r)).length}", aset s r (sunion (sget s r) ts))
  | .del r t => some (s!"D{(sinter (setOf [t]) (sget s r)).length}", aset s r (sdiff (sget s r) [t]))
  | .delb r ts => some (s!"D{(sinter (setOf ts) (sget s r)).length}", aset s r (sdiff (sget s r) ts))
  | .delc r head body =>
    let m := (sget s r).filter (condMatches s head body)
    some (s!"C{m.length}", aset s r (sdiff (sget s r) m))
  | .upd dels inss body =>
    match evalBody (sget s) body [[]] with
    | none => none
    | some bs =>
      let d := instTargets bs dels
      let i := instTargets bs inss
      let rels := dedupBy (· == ·) (d.map (·.1) ++ i.map (·.1))
      let dOf (r : String) := setOf ((d.filter (·.1 == r)).map (·.2))
      let iOf (r : String) := setOf ((i.filter (·.1 == r)).map (·.2))
      let nd := (rels.map (fun r => (sinter (dOf r) (sget s r)).length)).foldl (· + ·) 0
      let ni := (rels.map (fun r => (sdiff (iOf r) (sdiff (sget s r) (dOf r))).length)).foldl (· + ·) 0
      some (s!"U{nd}/{ni}", rels.foldl (fun acc r => aset acc r (sunion (sdiff (sget s r) (dOf r)) (iOf r))) s)
  | _ => none

/-! ### identifying predicates of the known defect families -/

def hasWildHead : WOp → Bool
  | .delc _ head _ => head.any (fun t => t == .wild)
  | _ => false

/-- an update in which a tuple inserted for one binding is a delete tuple of a later binding
    (bindings in the engine's order) — the complement of `NoLaterDelete` in `Props/C32.update_exact`. -/
def crossOverlap (s : SState) : WOp → Bool
  | .upd dels inss body =>
    match refAnswer (sget s) (updVars dels inss) body with
    | none => false
    | some rows => laterDelete (updVars dels inss) dels inss rows
  | _ => false

def classOf (s : SState) (o : WOp) : String :=
  if hasWildHead o then "cond_delete_wildcard_head"
  else if crossOverlap s o then "update_cross_binding_overlap"
  else "unclassified"

def parseObs (tok : String) : Option SState :=
  if tok == "()" then some [] else
  optMapM (fun (e : String) => match splitOnce e "=" with
    | some (r, body) =>
      if body == "-" || body == "{}" then some (r, [])
      else (optMapM Tuple.ofWire (body.splitOn ";")).map (fun ts => (r, ts))
    | none => none) (tok.splitOn " ")

def sameSetB (a b : List Tuple) : Bool := a.all (fun t => b.contains t) && b.all (fun t => a.contains t)

structure Fail where
  cls : String
  detail : String

/-- an arity error is a legitimate answer to an insert whose tuples do not all have the arity the
    relation was first given in this history (`ar`). -/
def arityClash (ar : List (String × Nat)) : WOp → Bool
  | .ins r ts => match aget ar r, ts with
    | some a, _ => ts.any (fun t => t.length != a)
    | none, t :: rest => rest.any (fun x => x.length != t.length)
    | none, [] => false
  | _ => false

def noteArity (ar : List (String × Nat)) (o : WOp) (tok : String) : List (String × Nat) :=
  match o with
  | .ins r (t :: _) => if tok.startsWith "I" && (aget ar r).isNone then aset ar r t.length else ar
  | _ => ar

/-- walk the history: `s` spec state, `pre` the spec state before the last write, `last` that write. -/
def judge (ar : List (String × Nat)) : SState → SState → Option WOp → List (WOp × String) → Nat → List Fail
  | _, _, _, [], _ => []
  | s, pre, last, (o, tok) :: rest, i =>
    match o with
    | .obs =>
      match parseObs tok with
      | none => [⟨"unclassified", s!"unparsable-obs@{i}"⟩]
      | some impl =>
        let dup := impl.filter (fun p => (setOf p.2).length != p.2.length)
        let bad := impl.filter (fun p => !sameSetB p.2 (sget s p.1))
        let cls := match last with | some w => classOf pre w | none => "unclassified"
        (dup.map (fun p => Fail.mk "unclassified" s!"duplicate-tuple@{i}:{p.1}")) ++
        (bad.map (fun p => Fail.mk cls s!"contents@{i}:{p.1}")) ++
        judge ar (impl.map (fun p => (p.1, setOf p.2))) pre none rest (i + 1)
    | .ord _ _ => judge ar s pre last rest (i + 1)
    | .bad => judge ar s pre last rest (i + 1)
    | w =>
      if arityClash ar w then
        (if tok == "err:arity" then [] else [Fail.mk "unclassified" s!"report@{i}:expected-err:arity-got-{tok}"]) ++
        judge ar s pre last rest (i + 1)
      else
      match specStep s w with
      | none => judge ar s pre last rest (i + 1)          -- outside the Spec's domain (unsafe body)
      | some (expected, s') =>
        (if tok == expected then [] else [Fail.mk (classOf s w) s!"report@{i}:expected-{expected}-got-{tok}"]) ++
        judge (noteArity ar w tok) s' s (some w) rest (i + 1)

def spec (ops : List WOp) (impl : String) : String :=
  let toks := impl.splitOn " | "
  if toks.length != ops.length then (if ops.isEmpty then "na" else specFail "unclassified" "token-count")
  else
    let fs := judge [] [] [] none (ops.zip toks) 0
    match fs.find? (fun f => f.cls == "unclassified") with
    | some f => specFail f.cls f.detail
    | none => match fs with
      | f :: _ => specFail f.cls f.detail
      | [] => if ops.any (fun o => match o with | .obs | .ord _ _ | .bad => false | _ => true) then specOk else "na"

/-- non-trivial: a write statement acts on a non-empty relation (something to deduplicate / delete / match). -/
def nontrivial (ops : List WOp) : Bool :=
  (ops.filter (fun o => match o with | .obs | .ord _ _ | .bad => false | _ => true)).length ≥ 2

def hist : Handler := fun args impl =>
  match parseHist args with
  | none => badReq
  | some ops => { model := histOutput ops, spec := spec ops impl, nt := nontrivial ops }

def handlers : List (String × Handler) := [("c32.hist", hist)]

end ILV.Drv.C32
