import ILV.Drv.Common
import ILV.Spec.Auth
namespace ILV.Drv.C28
open ILV ILV.Gen.C28 ILV.Spec.Auth

def b01 (b : Bool) : String := if b then "1" else "0"

/-- the six verdicts of a kind, read off the regenerated table, in the harness' order -/
def rowOf (k : StmtKind) : String :=
  s!"{k.name} {b01 (globalOk .admin k)} {b01 (globalOk .editor k)} {b01 (globalOk .viewer k)} {b01 (kgOk .owner k)} {b01 (kgOk .editor k)} {b01 (kgOk .viewer k)}"

def bit? : String → Option Bool
  | "1" => some true | "0" => some false | _ => none

def rowSpec (impl : String) : String × Bool :=
  if impl == "parse-error" then ("na", false) else
  match impl.splitOn " " with
  | [kn, a, b, c, d, e, f] =>
    match StmtKind.ofName kn, bit? a, bit? b, bit? c, bit? d, bit? e, bit? f with
    | some k, some gA, some gE, some gV, some kO, some kE, some kV =>
      match rowViolation k gA gE gV kO kE kV with
      | none => (specOk, true)
      | some v => (specFail "unclassified" s!"{v}:{kn}", true)
    | _, _, _, _, _, _, _ => (specFail "unclassified" ("unparsable-impl-output " ++ impl), false)
  | _ => (specFail "unclassified" ("unparsable-impl-output " ++ impl), false)

/-- `c28.row <kind label from the real parser> <hex text>` -/
def row : Handler := fun args impl =>
  match args with
  | [label, _hex] =>
    let m := match StmtKind.ofName label with
      | some k => rowOf k
      | none => if label == "parse-error" then "parse-error" else "unknown-kind"
    let (s, nt) := rowSpec impl
    { model := m, spec := s, nt := nt }
  | _ => badReq

def shape : Handler := fun _ impl =>
  { model := if sourceShapeOk then "shape-ok" else "shape-bad",
    spec := if impl == "shape-ok" then specOk else specFail "unclassified" ("auth.rs-source-shape " ++ impl), nt := true }

def handlers : List (String × Handler) := [("c28.row", row), ("c28.shape", shape)]

end ILV.Drv.C28
